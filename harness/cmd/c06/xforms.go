package main

// Executed stream, second half: every form of the chain methods the property's quantifier names
// (condition forms of Where/Or/Not/Having, Select forms, Order forms, Clauses(Locking / OnConflict /
// Returning / expressions / statement modifiers), Joins / InnerJoins by relation and raw, Preload,
// Attrs / Assign, MapColumns, Set / InstanceSet, Raw), started from reusable handles.

import (
	"database/sql"
	"fmt"
	"strings"

	"gorm.io/gorm"
	"gorm.io/gorm/clause"

	"verifharness/lib"
)

// Q: has-one relation of TX (Joins("Q"), InnerJoins("Q"), Preload("Q"))
type Q struct {
	ID   int64 `gorm:"primaryKey"`
	TXID int64
	W    int64
}

func (Q) TableName() string { return "qs" }

// c06Hint: a StatementModifier passed to Clauses (like gorm's hints)
type c06Hint struct{ n int64 }

func (h c06Hint) ModifyStatement(st *gorm.Statement) {
	st.AddClause(clause.Where{Exprs: []clause.Expression{clause.Expr{SQL: "c3 >= ?", Vars: []interface{}{h.n}}}})
}
func (h c06Hint) Build(clause.Builder) {}

// condX: the argument forms BuildCondition distinguishes
func condX(db *gorm.DB, op *Op) (interface{}, []interface{}) {
	c := "c1"
	if len(op.Names) > 0 {
		c = op.Names[0]
	}
	n := op.N
	switch op.Form {
	case "map":
		return map[string]interface{}{c: n, "c3": []int64{2, 4, 6, 8, 10, 12, n}}, nil
	case "struct":
		return &TX{C1: n % 3, C2: 0}, nil
	case "ortext":
		return c + " = ? OR c3 = ?", []interface{}{n, n * 2}
	case "andtext":
		return c + " >= ? and c3 <= ?", []interface{}{n, 10}
	case "named":
		return c + " >= @v", []interface{}{sql.Named("v", n)}
	case "namedmap":
		return c + " >= @v AND c3 <= @w", []interface{}{map[string]interface{}{"v": n, "w": 11}}
	case "in":
		return c + " IN ?", []interface{}{[]int64{n, n + 1, n + 2}}
	case "pk":
		return []int64{n + 1, n + 2, n + 11}, nil
	case "eq":
		return clause.Eq{Column: c, Value: n}, nil
	case "andor":
		return clause.Or(clause.Eq{Column: c, Value: n}, clause.Gt{Column: "c3", Value: n}), nil
	case "col":
		return c + " <= ?", []interface{}{clause.Column{Name: "c3"}}
	case "gexpr":
		return c + " >= ?", []interface{}{gorm.Expr("? - 1", n)}
	case "mapss":
		return map[string]string{c: fmt.Sprint(n)}, nil
	case "colonly":
		return c, []interface{}{n}
	case "nospace":
		return c + ">=1", nil
	case "valuer":
		return c + " >= ?", []interface{}{sql.NullInt64{Int64: n, Valid: true}}
	case "bytes":
		return c + " >= ?", []interface{}{[]byte(fmt.Sprint(n))}
	case "structs":
		return []TX{{C1: n % 3}, {C1: (n + 1) % 3, C3: 4}}, nil
	case "structsel":
		return &TX{C1: n % 3}, []interface{}{"C1", "C2"}
	case "inempty":
		return c + " IN ?", []interface{}{[]int64{}}
	case "incols":
		return clause.IN{Column: []clause.Column{{Name: "c1"}, {Name: "c2"}}, Values: []interface{}{[]interface{}{n % 3, 7 - n}, []interface{}{1, 6}}}, nil
	case "exprcol":
		return clause.Gte{Column: clause.Expr{SQL: "c1 + ?", Vars: []interface{}{1}}, Value: n}, nil
	case "subraw":
		sub := db.Session(&gorm.Session{NewDB: true}).Raw("SELECT id FROM ts WHERE c1 >= @n", sql.Named("n", n%3))
		return "id IN (?)", []interface{}{sub}
	case "subq":
		sub := db.Session(&gorm.Session{NewDB: true}).Table("ts").Select("id").Where("c1 >= ?", n%3)
		return "id IN (?)", []interface{}{sub}
	}
	return c + " >= ?", []interface{}{n}
}

var condForms = []string{"", "", "map", "struct", "ortext", "andtext", "named", "namedmap", "in", "pk", "eq", "andor", "col", "gexpr", "subq",
	"mapss", "colonly", "nospace", "valuer", "bytes", "structs", "structsel", "inempty", "incols", "exprcol", "subraw"}

func applyXForm(db *gorm.DB, op *Op) (*gorm.DB, bool) {
	n := op.N
	switch op.K {
	case "x_where", "x_or", "x_not", "x_having":
		if op.Form == "" {
			return nil, false
		}
		q, a := condX(db, op)
		switch op.K {
		case "x_where":
			return db.Where(q, a...), true
		case "x_or":
			return db.Or(q, a...), true
		case "x_not":
			return db.Not(q, a...), true
		}
		return db.Having(q, a...), true
	case "x_order":
		c := "c1"
		if len(op.Names) > 0 {
			c = op.Names[0]
		}
		switch op.Form {
		case "col":
			return db.Order(clause.OrderByColumn{Column: clause.Column{Name: c}, Desc: op.Re}), true
		case "orderby":
			return db.Order(clause.OrderBy{Columns: []clause.OrderByColumn{{Column: clause.Column{Name: c}, Desc: op.Re}, {Column: clause.Column{Name: "id"}}}}), true
		case "expr":
			return db.Clauses(clause.OrderBy{Expression: clause.Expr{SQL: c + " % ? DESC, id", Vars: []interface{}{2}}}), true
		case "reorder":
			return db.Clauses(clause.OrderBy{Columns: []clause.OrderByColumn{{Column: clause.Column{Name: c}, Reorder: true}}}), true
		}
		return nil, false
	case "x_select":
		switch op.Form {
		case "slice":
			return db.Select([]string{"id", "c1"}, []string{"c2"}, "c3"), true
		case "qargs":
			return db.Select("id, c1 + ? AS c1", n), true
		case "named":
			return db.Select("id, c2 + @n AS c2", sql.Named("n", n)), true
		case "mixed":
			return db.Select("id", 42), true
		case "strslice":
			return db.Select("id", []string{"c1", "c3"}), true
		case "exprthenslice": // the column list replaces an earlier SELECT expression
			return db.Select("id, c1 + ? AS c1", n).Select([]string{"id", "c2"}), true
		case "star":
			return db.Select("*"), true
		case "tstar":
			return db.Select("ts.*"), true
		}
		return nil, false
	case "x_omit":
		switch op.Form {
		case "comma":
			return db.Omit("c1,c2"), true
		case "assoc":
			return db.Omit(clause.Associations), true
		}
		return nil, false
	case "x_clauses":
		switch op.Form {
		case "locking":
			return db.Clauses(clause.Locking{Strength: "UPDATE", Options: "NOWAIT"}), true
		case "onconflict":
			return db.Clauses(clause.OnConflict{Columns: []clause.Column{{Name: "id"}}, DoUpdates: clause.AssignmentColumns([]string{"c1", "c2"})}), true
		case "onconflict2":
			return db.Clauses(clause.OnConflict{DoUpdates: clause.Assignments(map[string]interface{}{"c1": n, "c3": n + 1})}), true
		case "donothing":
			return db.Clauses(clause.OnConflict{DoNothing: true}), true
		case "returning":
			return db.Clauses(clause.Returning{Columns: []clause.Column{{Name: "id"}, {Name: "c1"}}}), true
		case "returning1":
			return db.Clauses(clause.Returning{Columns: []clause.Column{{Name: "c3"}}}), true
		case "returningall":
			return db.Clauses(clause.Returning{}), true
		case "expr":
			return db.Clauses(clause.Expr{SQL: "c2 <= ?", Vars: []interface{}{n + 3}}), true
		case "modifier":
			return db.Clauses(c06Hint{n}), true
		case "notmulti":
			return db.Clauses(clause.Where{Exprs: []clause.Expression{clause.Not(clause.Eq{Column: "c1", Value: n % 3}, clause.Expr{SQL: "c3 > ?", Vars: []interface{}{n + 4}})}}), true
		case "set":
			return db.Clauses(clause.Set{{Column: clause.Column{Name: "c2"}, Value: n}}), true
		case "emptyset":
			return db.Clauses(clause.Set{}), true
		case "where":
			return db.Clauses(clause.Where{Exprs: []clause.Expression{clause.Or(clause.Expr{SQL: "c1 = ?", Vars: []interface{}{n}}), clause.Expr{SQL: "c3 > ?", Vars: []interface{}{n}}}}), true
		}
		panic("x_clauses form " + op.Form)
	case "x_joins":
		switch op.Form {
		case "rel":
			return db.Joins("Q"), true
		case "inner":
			return db.InnerJoins("Q"), true
		case "relcond":
			return db.Joins("Q", db.Session(&gorm.Session{NewDB: true}).Where("w >= ?", n)), true
		case "relsel":
			return db.Joins("Q", db.Session(&gorm.Session{NewDB: true}).Select("w")), true
		}
		return db.Joins("LEFT JOIN qs ON qs.tx_id = ts.id AND qs.w >= ?", n), true
	case "x_preload":
		switch op.Form {
		case "cond":
			return db.Preload("Q", "w >= ?", n), true
		case "fn":
			return db.Preload("Q", func(d *gorm.DB) *gorm.DB { return d.Where("w <= ?", n+20) }), true
		case "all":
			return db.Preload(clause.Associations), true
		}
		return db.Preload("Q"), true
	case "x_attrs":
		if op.Form == "map" {
			return db.Attrs(map[string]interface{}{"c2": n + 40}), true
		}
		return db.Attrs(TX{C2: n + 30, C3: 5}), true
	case "x_assign":
		if op.Form == "map" {
			return db.Assign(map[string]interface{}{"c3": n + 60}), true
		}
		return db.Assign(TX{C3: n + 50}), true
	case "x_mapcolumns":
		return db.MapColumns(map[string]string{"c1": "c2", "c2": "c1"}), true
	case "x_set":
		return db.Set("c06:tag", n*100000), true
	case "x_instance_set":
		return db.InstanceSet("c06:itag", n*1000000), true
	case "x_raw":
		switch op.Form {
		case "named":
			return db.Raw("SELECT id, c1, c2 FROM ts WHERE c1 >= @n ORDER BY id", sql.Named("n", n%3)), true
		case "us":
			return db.Raw("SELECT id, c1, c3, u5 FROM us WHERE c1 = ? ORDER BY id", n%2), true
		}
		return db.Raw("SELECT id, c1, c3, k4 FROM ts WHERE c3 >= ? ORDER BY id", n), true
	}
	return nil, false
}

// xopExtra: one of the additional forms
func xopExtra(r *lib.Rng) *Op {
	col := func() string { return lib.Pick(r, []string{"c1", "c2", "c3"}) }
	n := int64(r.Range(0, 6))
	switch r.Intn(20) {
	case 0, 1, 2, 3:
		return &Op{K: lib.Pick(r, []string{"x_where", "x_where", "x_or", "x_not"}), Names: []string{col()}, N: n, Form: lib.Pick(r, condForms)}
	case 4:
		return &Op{K: "x_having", Names: []string{"c1"}, N: n % 3, Form: lib.Pick(r, []string{"named", "andtext", "eq"})}
	case 5, 6:
		return &Op{K: "x_order", Names: []string{col()}, Re: r.Bool(), Form: lib.Pick(r, []string{"col", "orderby", "expr", "reorder"})}
	case 7, 8:
		return &Op{K: "x_select", N: n, Form: lib.Pick(r, []string{"slice", "qargs", "named", "mixed", "strslice", "star", "tstar", "exprthenslice"})}
	case 9:
		return &Op{K: "x_omit", Form: lib.Pick(r, []string{"comma", "assoc"})}
	case 10, 11, 12:
		return &Op{K: "x_clauses", N: n, Form: lib.Pick(r, []string{"locking", "onconflict", "onconflict2", "donothing", "returning", "returning1", "returningall", "expr", "modifier", "where", "notmulti", "set", "emptyset"})}
	case 13, 14:
		return &Op{K: "x_joins", N: n, Form: lib.Pick(r, []string{"raw", "rel", "inner", "relcond", "relsel"})}
	case 15:
		return &Op{K: "x_preload", N: n, Form: lib.Pick(r, []string{"", "cond", "fn", "all"})}
	case 16:
		return &Op{K: lib.Pick(r, []string{"x_attrs", "x_assign"}), N: n, Form: lib.Pick(r, []string{"", "map"})}
	case 17:
		return &Op{K: lib.Pick(r, []string{"x_set", "x_set", "x_instance_set", "x_mapcolumns"}), N: n + 1}
	case 18:
		return &Op{K: "x_raw", N: n, Form: lib.Pick(r, []string{"", "named", "us"})}
	}
	return &Op{K: "x_table", Names: []string{lib.Pick(r, []string{"main.ts", "main.us", "ts tt", "us uu"})}}
}

// finishers added by this file; all writes are dry (Session{DryRun}): bound values without touching the tables
func applyFinXForm(db *gorm.DB, f *Fin) (*gorm.DB, string, bool) {
	switch f.K {
	case "x_firstorinit":
		if f.M == "U" {
			var d U
			tx := db.FirstOrInit(&d)
			return tx, fmt.Sprint(d), true
		}
		var d TX
		tx := db.FirstOrInit(&d, TX{C1: 1})
		return tx, fmt.Sprint(d), true
	case "x_update_dry":
		d := db.Session(&gorm.Session{DryRun: true})
		switch f.M {
		case "map":
			return d.Updates(map[string]interface{}{"c1": f.V, "c2": f.V + 1}), "", true
		case "U":
			return d.Model(&U{}).Update("c3", f.V), "", true
		}
		return d.Updates(&TX{C1: f.V + 1, C3: f.V}), "", true
	case "x_delete_dry":
		d := db.Session(&gorm.Session{DryRun: true})
		if f.M == "U" {
			return d.Delete(&U{}), "", true
		}
		return d.Delete(&TX{}), "", true
	}
	return nil, "", false
}

// allXOps: every (chain method, argument form) of the executed stream once, with random parameters.
// genFork cycles through this list so that EVERY form is, in every run, applied on a chain forked from
// a reusable handle whose other chains are then judged.
func allXOps(r *lib.Rng) []*Op {
	col := func() string { return lib.Pick(r, []string{"c1", "c2", "c3"}) }
	n := func() int64 { return int64(r.Range(0, 6)) }
	var ops []*Op
	for _, k := range []string{"x_where", "x_or", "x_not"} {
		for _, f := range condForms[1:] {
			ops = append(ops, &Op{K: k, Names: []string{col()}, N: n(), Form: f})
		}
	}
	for _, f := range []string{"", "named", "andtext", "eq"} {
		ops = append(ops, &Op{K: "x_having", Names: []string{"c1"}, N: n() % 3, Form: f})
	}
	for _, f := range []string{"", "col", "orderby", "expr", "reorder"} {
		ops = append(ops, &Op{K: "x_order", Names: []string{col()}, Re: r.Bool(), Form: f})
	}
	ops = append(ops, &Op{K: "x_group", Names: []string{col()}})
	for _, nm := range [][]string{{"K4"}, {"K4", "C1"}, {"c1"}, {"id", "c2"}} {
		ops = append(ops, &Op{K: "x_select", Names: nm})
	}
	for _, f := range []string{"slice", "qargs", "named", "mixed", "strslice", "star", "tstar", "exprthenslice"} {
		ops = append(ops, &Op{K: "x_select", N: n(), Form: f})
	}
	for i := int64(0); i < 3; i++ {
		ops = append(ops, &Op{K: "x_select_bad", Names: []string{col()}, N: i})
	}
	ops = append(ops, &Op{K: "x_omit", Names: []string{"C2", "K4"}}, &Op{K: "x_omit", Form: "comma"}, &Op{K: "x_omit", Form: "assoc"})
	ops = append(ops, &Op{K: "x_distinct"}, &Op{K: "x_distinct", Names: []string{"c1"}})
	for _, f := range []string{"locking", "onconflict", "onconflict2", "donothing", "returning", "returning1", "returningall", "expr", "modifier", "where", "notmulti", "set", "emptyset"} {
		ops = append(ops, &Op{K: "x_clauses", N: n(), Form: f})
	}
	for _, f := range []string{"raw", "rel", "inner", "relcond", "relsel"} {
		ops = append(ops, &Op{K: "x_joins", N: n(), Form: f})
	}
	for _, f := range []string{"", "cond", "fn", "all"} {
		ops = append(ops, &Op{K: "x_preload", N: n(), Form: f})
	}
	for _, k := range []string{"x_attrs", "x_assign"} {
		for _, f := range []string{"", "map"} {
			ops = append(ops, &Op{K: k, N: n(), Form: f})
		}
	}
	ops = append(ops, &Op{K: "x_mapcolumns"}, &Op{K: "x_set", N: n() + 1}, &Op{K: "x_instance_set", N: n() + 1}, &Op{K: "x_scopes", N: int64(r.Range(4, 12))}, &Op{K: "unscoped"})
	for _, f := range []string{"", "named", "us"} {
		ops = append(ops, &Op{K: "x_raw", N: n(), Form: f})
	}
	for _, t := range []string{"ts", "us", "empty", "expr", "alias", "main.ts", "ts tt"} {
		ops = append(ops, &Op{K: "x_table", Names: []string{t}, N: n() % 4})
	}
	ops = append(ops, &Op{K: "x_model", Names: []string{"T"}}, &Op{K: "x_model", Names: []string{"U"}})
	for _, v := range []int{-1, 0, 2} {
		ops = append(ops, &Op{K: "limit", N: int64(v)}, &Op{K: "offset", N: int64(v)})
	}
	return ops
}

// sessOpts: every Session option the harness can set (one token each); combinations are joined with "+"
var sessOpts = []string{"newdb", "skiphooks", "dryrun", "queryfields", "fullsave", "allowglobal", "batchsize", "skipdeftx", "nonested",
	"preparestmt", "propagateunscoped", "nowfunc", "logger", "cctx", "bctx", "vctx3", "vctx7"}

// randSess: a random combination of 1..3 distinct Session options
func randSess(r *lib.Rng) string {
	k := lib.Pick(r, []int{1, 2, 2, 3})
	opts := append([]string(nil), sessOpts...)
	lib.Shuffle(r, opts)
	picked := opts[:k]
	nctx := 0
	var out []string
	for _, o := range picked {
		if o == "cctx" || o == "bctx" || strings.HasPrefix(o, "vctx") {
			nctx++
			if nctx > 1 { // one context per Session call
				continue
			}
		}
		out = append(out, o)
	}
	return strings.Join(out, "+")
}

// allSessForks: every Session option alone, together with NewDB, and the non-SQL ones pairwise: the
// children genFork derives from the judged handle (never executed, or executed once)
func allSessForks() []string {
	var out []string
	for _, o := range sessOpts {
		out = append(out, o)
		if o != "newdb" {
			out = append(out, "newdb+"+o)
		}
	}
	for _, c := range []string{"cctx", "vctx3", "bctx"} {
		for _, o := range []string{"skiphooks", "dryrun", "preparestmt", "queryfields"} {
			out = append(out, c+"+"+o, "newdb+"+c+"+"+o)
		}
	}
	return out
}

// genFork: a state-carrying reusable handle (any Session style); chains forked from it apply ONE
// operation each - the i-th case takes the next `per` entries of allXOps - and are finished or abandoned;
// between and after them the handle itself is judged with finishers that show conditions, ordering,
// selection, joins, hooks, settings and bound values.
func genFork(r *lib.Rng, i, per int) Input {
	in := Input{Exec: true}
	push := func(s Step) int { in.Steps = append(in.Steps, s); return len(in.Steps) }
	all := allXOps(r)
	m := lib.Pick(r, []string{"T", "T", "U"})
	cur := push(Step{K: "derive", P: 0, Op: &Op{K: "x_model", Names: []string{m}}})
	for k := r.Range(0, 3); k > 0; k-- {
		cur = push(Step{K: "derive", P: cur, Op: all[r.Intn(len(all))]})
	}
	// state of the SAME kind as the forks will add (another form of the same chain method): a fork that
	// reaches the handle's own slice / map / clause of that kind meets something there
	for j := 0; j < per; j++ {
		if r.Chance(1, 4) {
			continue
		}
		k := all[(i*per+j)%len(all)].K
		var same []*Op
		for _, o := range all {
			if o.K == k {
				same = append(same, o)
			}
		}
		cur = push(Step{K: "derive", P: cur, Op: same[r.Intn(len(same))]})
	}
	h := push(Step{K: "sess", P: cur, Sess: lib.Pick(r, []string{"plain", "plain", "ctx", "debug", "debug", "skiphooks", "queryfields", "preparestmt"})})
	judge := func() {
		f := lib.Pick(r, []*Fin{{K: "x_find", M: m}, {K: "x_find", M: m}, {K: "x_first", M: m}, {K: "x_count"},
			{K: "x_create_dry", M: m}, {K: "x_update_dry", M: m, V: 3}, {K: "x_find", M: m, Dry: 1}, {K: "x_firstorinit", M: m}})
		g := *f
		push(Step{K: "finish", P: h, Fin: &g})
	}
	for j := 0; j < per; j++ {
		c := push(Step{K: "derive", P: h, Op: all[(i*per+j)%len(all)]})
		switch r.Intn(3) {
		case 0: // abandoned
		case 1:
			push(Step{K: "finish", P: c, Fin: &Fin{K: "x_find", M: m}})
		default:
			push(Step{K: "finish", P: c, Fin: &Fin{K: lib.Pick(r, []string{"x_count", "x_first", "x_create_dry", "x_delete_dry"}), M: m}})
		}
		judge()
	}
	// a child HANDLE with Session options, derived from the judged handle: never executed, or executed once
	sf := allSessForks()
	c := push(Step{K: "sess", P: h, Sess: sf[i%len(sf)]})
	if r.Bool() {
		push(Step{K: "finish", P: c, Fin: &Fin{K: "x_find", M: m}})
	}
	judge()
	judge()
	return in
}
