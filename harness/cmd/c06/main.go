// c06: reusable handles are never changed by the chains and queries derived from them.
// Runs random histories over a tree of handles on real gorm (DummyDialector, DryRun): chain
// methods, Session/WithContext/Debug/Begin, finishers at arbitrary times.  Per finisher it records
// SQL/Vars/error of the shared run and of the same chain replayed alone on a fresh gorm.Open; at
// the end of the history the aliasing structure of every handle's statement (backing array, len,
// cap of each slice, read with reflect).  Output: Gallina terms for C06_Check.check_case.
package main

import (
	"context"
	"database/sql"
	"encoding/json"
	"fmt"
	"os"
	"reflect"
	"regexp"
	"sort"
	"strconv"
	"strings"
	"time"

	"gorm.io/gorm"
	"gorm.io/gorm/clause"
	"gorm.io/gorm/logger"
	"gorm.io/gorm/utils/tests"

	"verifharness/gdb"
	"verifharness/lib"
	"verifharness/recdrv"
)

type T struct {
	ID int64 `gorm:"primaryKey"`
	C1 int64
	C2 int64
	C3 int64
	// relations, so that Preload("P1".."P3") is meaningful in the DryRun stream (no columns of their own)
	P1 []PT `gorm:"foreignKey:TID"`
	P2 []PT `gorm:"foreignKey:TID"`
	P3 []PT `gorm:"foreignKey:TID"`
}
type PT struct {
	ID  int64 `gorm:"primaryKey"`
	TID int64
	V   int64
}

// ---- a connection pool that can begin transactions and never talks to a database ----
type fakePool struct{}
type fakeTx struct{ fakePool }

func (*fakeTx) Commit() error   { return nil }
func (*fakeTx) Rollback() error { return nil }
func (fakePool) PrepareContext(ctx context.Context, q string) (*sql.Stmt, error) {
	return nil, fmt.Errorf("c06: driver reached in DryRun")
}
func (fakePool) ExecContext(ctx context.Context, q string, a ...interface{}) (sql.Result, error) {
	return nil, fmt.Errorf("c06: driver reached in DryRun")
}
func (fakePool) QueryContext(ctx context.Context, q string, a ...interface{}) (*sql.Rows, error) {
	return nil, fmt.Errorf("c06: driver reached in DryRun")
}
func (fakePool) QueryRowContext(ctx context.Context, q string, a ...interface{}) *sql.Row { return nil }
func (fakePool) BeginTx(ctx context.Context, o *sql.TxOptions) (gorm.ConnPool, error) {
	return &fakeTx{}, nil
}

func open() *gorm.DB {
	db, err := gorm.Open(tests.DummyDialector{}, &gorm.Config{DryRun: true, SkipDefaultTransaction: true,
		Logger: logger.Discard, ConnPool: fakePool{}})
	lib.Must(err)
	return db
}

// ---- input ----
type Op struct {
	K     string   `json:"k"`
	Xs    []int64  `json:"xs,omitempty"`
	Cap   int      `json:"cap,omitempty"`
	More  []int64  `json:"more,omitempty"`
	N     int64    `json:"n,omitempty"`
	Re    bool     `json:"re,omitempty"`
	Nil   bool     `json:"nil,omitempty"`
	Uref  int      `json:"uref,omitempty"` // >0: the caller passes shared slice number uref (same backing array in every op naming it)
	H     int      `json:"h,omitempty"`    // where_group: handle passed as the group condition
	Names []string `json:"names,omitempty"`
	Form  string   `json:"form,omitempty"` // x_*: argument form // x_* operations (executed stream): column / field / table / model names
}
type Fin struct {
	K    string `json:"k"` // find | first | take | update | delete | x_find x_first x_take x_count x_pluck x_scan
	Col  int64  `json:"col,omitempty"`
	V    int64  `json:"v,omitempty"`
	M    string `json:"m,omitempty"`    // x_*: destination model T | U | map
	Name string `json:"name,omitempty"` // x_pluck: column
	Dry  int    `json:"dry,omitempty"`  // x_*: 1 = through Session{DryRun}, 2 = through ToSQL
}
type Step struct {
	K    string `json:"k"` // derive | sess | finish | abandon
	P    int    `json:"p"`
	Op   *Op    `json:"op,omitempty"`
	Sess string `json:"sess,omitempty"` // plain | newdb | ctx | debug | begin
	Fin  *Fin   `json:"fin,omitempty"`
}
type Input struct {
	Steps []Step `json:"steps"`
	Exec  bool   `json:"exec,omitempty"` // run on real SQLite (not DryRun); observed = driver statements + results; outside the Coq model
}

type FinObs struct {
	Step  int     `json:"step"`
	SQL   string  `json:"sql"`
	Vars  []int64 `json:"vars"`
	Err   string  `json:"err"`
	ASQL  string  `json:"alone_sql"`
	AVars []int64 `json:"alone_vars"`
	AErr  string  `json:"alone_err"`
	X     XObs    `json:"x"`       // non-slice state the finisher ran under (shared run)
	AX    XObs    `json:"alone_x"` // ... in the isolated replay
}

// XObs: context tag, SkipHooks, Preloads (key, argument tag) and Settings (key, value) of a statement, sorted by key
type XObs struct {
	Ctx  int64      `json:"ctx"`
	Skip bool       `json:"skip"`
	Pre  [][2]int64 `json:"pre"`
	Set  [][2]int64 `json:"set"`
}
type SlObs struct {
	Nil bool `json:"nil"`
	ID  int  `json:"id"`
	Len int  `json:"len"`
	Cap int  `json:"cap"`
}
type HObs struct {
	Sl       []SlObs `json:"sl"`
	Distinct bool    `json:"distinct"`
	Unscoped bool    `json:"unscoped"`
	Table    int64   `json:"table"`
	X        XObs    `json:"x"`
	PreNil   bool    `json:"pre_nil"` // Preloads map is nil
	PreID    int     `json:"pre_id"`  // canonical id of the map object (by first appearance)
}
type Obs struct {
	Fins  []FinObs `json:"fins"`
	Final []HObs   `json:"final"`
}

// ---- executed stream: two models whose Go field K4 maps to different columns ----
type U struct {
	ID int64 `gorm:"primaryKey"`
	C1 int64
	C2 int64
	C3 int64
	K4 int64 `gorm:"column:u5"`
	// soft delete: the query clause is a StatementModifier that edits the WHERE clause at build time; Unscoped skips it
	Gone gorm.DeletedAt
}
type TX struct { // table "ts" of the executed stream
	ID int64 `gorm:"primaryKey"`
	C1 int64
	C2 int64
	C3 int64
	K4 int64
	Q  Q `gorm:"foreignKey:TXID"`
}

func (TX) TableName() string { return "ts" }

// ctxKey: the key under which a handle's context carries its tag (Session{Context}); hooks show it
type ctxKey struct{}

func ctxTag(ctx context.Context) int64 {
	if ctx == nil {
		return -1
	}
	if v, ok := ctx.Value(ctxKey{}).(int64); ok {
		return v
	}
	return 0
}

// hooks whose effect is visible in what is loaded (AfterFind) and in the bound values (BeforeCreate)
// (and that make Set / InstanceSet values of the statement visible in the results)
func (t *TX) AfterFind(tx *gorm.DB) error {
	t.K4 += 1000
	t.K4 += ctxTag(tx.Statement.Context) * 10000000 // the context the hook runs under
	if v, ok := tx.Get("c06:tag"); ok {
		t.K4 += v.(int64)
	}
	if v, ok := tx.InstanceGet("c06:itag"); ok {
		t.K4 += v.(int64)
	}
	return nil
}
func (u *U) AfterFind(tx *gorm.DB) error {
	u.C3 += 5000
	u.C3 += ctxTag(tx.Statement.Context) * 10000000
	if v, ok := tx.Get("c06:tag"); ok {
		u.C3 += v.(int64)
	}
	return nil
}
func (t *TX) BeforeCreate(tx *gorm.DB) error {
	t.C3 = 77 + ctxTag(tx.Statement.Context)*100
	return nil
}
func (u *U) BeforeCreate(tx *gorm.DB) error { u.C2 = 88 + ctxTag(tx.Statement.Context)*100; return nil }
func (U) TableName() string               { return "us" }

func openExec() (*gorm.DB, *recdrv.Recorder) {
	db, rec, _, err := gdb.Open(gdb.Opt{Config: &gorm.Config{SkipDefaultTransaction: true, Logger: logger.Discard,
		NowFunc: func() time.Time { return time.Unix(1600000000, 0).UTC() }}}) // time pinned: soft delete binds it
	lib.Must(err)
	lib.Must(db.AutoMigrate(&TX{}, &U{}, &Q{}))
	var ts []TX
	var us []U
	for i := int64(1); i <= 6; i++ {
		ts = append(ts, TX{ID: i, C1: i % 3, C2: 7 - i, C3: i * 2, K4: 100 + i})
		us = append(us, U{ID: i + 10, C1: i % 2, C2: i, C3: 13 - i, K4: 200 + i})
	}
	seed := db.Session(&gorm.Session{SkipHooks: true})
	lib.Must(seed.Omit("Q").Create(&ts).Error)
	lib.Must(seed.Create(&us).Error)
	lib.Must(seed.Exec("UPDATE us SET gone = '2020-01-02 03:04:05' WHERE id = 13").Error)
	qs := []Q{{ID: 1, TXID: 1, W: 3}, {ID: 2, TXID: 2, W: 9}, {ID: 3, TXID: 4, W: 1}, {ID: 4, TXID: 5, W: 6}}
	lib.Must(seed.Create(&qs).Error)
	rec.Reset()
	return db, rec
}

func applyX(db *gorm.DB, op *Op, group *gorm.DB) *gorm.DB {
	if tx, ok := applyXForm(db, op); ok {
		return tx
	}
	nm := func(i int) string {
		if i < len(op.Names) {
			return op.Names[i]
		}
		return "c1"
	}
	switch op.K {
	case "x_where_group": // a handle passed as a grouped condition: Where / Or / Not (handle)
		switch op.N {
		case 1:
			return db.Or(group)
		case 2:
			return db.Not(group)
		}
		return db.Where(group)
	case "x_select_bad": // malformed calls: the error belongs to the new chain only
		switch op.N {
		case 1:
			return db.Select(42)
		case 2:
			return db.Select([]string{nm(0)}, "c2", 4.5)
		}
		return db.Select([]string{nm(0)}, 42)
	case "x_where":
		return db.Where(nm(0)+" >= ?", op.N)
	case "x_or":
		return db.Or(nm(0)+" = ?", op.N)
	case "x_not":
		return db.Not(nm(0)+" = ?", op.N)
	case "x_order":
		if op.Re {
			return db.Order(nm(0) + " desc")
		}
		return db.Order(nm(0))
	case "x_group":
		return db.Group(nm(0))
	case "x_having":
		return db.Having("count(*) >= ?", op.N)
	case "x_select":
		args := []interface{}{}
		for _, n := range op.Names[1:] {
			args = append(args, n)
		}
		return db.Select(nm(0), args...)
	case "x_omit":
		return db.Omit(op.Names...)
	case "x_distinct":
		args := []interface{}{}
		for _, n := range op.Names {
			args = append(args, n)
		}
		return db.Distinct(args...)
	case "x_table":
		switch nm(0) {
		case "expr": // a sub-query expression with an argument and an alias
			return db.Table("(SELECT * FROM ts WHERE id > ?) AS ts", op.N)
		case "alias":
			return db.Table("us AS ua")
		case "empty": // forget the table override
			return db.Table("")
		}
		return db.Table(nm(0))
	case "x_model":
		if nm(0) == "U" {
			return db.Model(&U{})
		}
		return db.Model(&TX{})
	case "x_scopes":
		n := op.N
		return db.Scopes(func(d *gorm.DB) *gorm.DB { return d.Where("c3 <= ?", n) })
	case "limit":
		return db.Limit(int(op.N))
	case "offset":
		return db.Offset(int(op.N))
	case "unscoped":
		return db.Unscoped()
	}
	panic("unknown x op " + op.K)
}

// applyFinX runs a reading finisher for real and returns the handle and a rendering of what it loaded
// applyFinX: a panic inside gorm (e.g. Pluck into []int64 on a chain with relation Joins) is an
// outcome like any other: recorded, and compared with the isolated replay
func applyFinX(db *gorm.DB, f *Fin) (tx *gorm.DB, res string) {
	defer func() {
		if r := recover(); r != nil {
			msg := ptrRe.ReplaceAllString(fmt.Sprint(r), "0xPTR")
			tx, res = db.Session(&gorm.Session{NewDB: true}), "PANIC "+msg
		}
	}()
	return applyFinX0(db, f)
}

func applyFinX0(db *gorm.DB, f *Fin) (*gorm.DB, string) {
	switch f.Dry {
	case 1:
		db = db.Session(&gorm.Session{DryRun: true})
	case 2: // ToSQL: the statement text with the values inlined
		g := *f
		g.Dry = 0
		var inner *gorm.DB
		text := db.ToSQL(func(tx *gorm.DB) *gorm.DB {
			inner, _ = applyFinX0(tx, &g)
			return inner
		})
		return inner, "tosql[" + text + "]"
	}
	if tx, res, ok := applyFinXForm(db, f); ok {
		return tx, res
	}
	switch f.K {
	case "x_find":
		switch f.M {
		case "U":
			var d []U
			tx := db.Find(&d)
			return tx, fmt.Sprint(d)
		case "map":
			var d []map[string]interface{}
			tx := db.Find(&d)
			return tx, showMaps(d)
		}
		var d []TX
		tx := db.Find(&d)
		return tx, fmt.Sprint(d)
	case "x_first", "x_take":
		fn := func(tx *gorm.DB, dest interface{}) *gorm.DB {
			if f.K == "x_first" {
				return tx.First(dest)
			}
			return tx.Take(dest)
		}
		if f.M == "U" {
			var d U
			tx := fn(db, &d)
			return tx, fmt.Sprint(d)
		}
		var d TX
		tx := fn(db, &d)
		return tx, fmt.Sprint(d)
	case "x_count":
		var n int64
		tx := db.Count(&n)
		return tx, fmt.Sprint(n)
	case "x_create_dry": // bound values of an INSERT (hooks!) without touching the tables
		d := db.Session(&gorm.Session{DryRun: true})
		if f.M == "U" {
			return d.Create(&U{C1: 1, K4: 9}), ""
		}
		return d.Create(&TX{C1: 1, K4: 9}), ""
	case "x_pluck":
		var d []int64
		tx := db.Pluck(f.Name, &d)
		return tx, fmt.Sprint(d)
	case "x_scan":
		if f.M == "U" {
			var d []U
			tx := db.Scan(&d)
			return tx, fmt.Sprint(d)
		}
		var d []TX
		tx := db.Scan(&d)
		return tx, fmt.Sprint(d)
	}
	panic("unknown x finisher " + f.K)
}

// showMaps prints scanned maps with pointer values dereferenced (expression columns arrive as pointers)
func showMaps(d []map[string]interface{}) string {
	out := make([]map[string]interface{}, len(d))
	for i, m := range d {
		out[i] = map[string]interface{}{}
		for k, v := range m {
			rv := reflect.ValueOf(v)
			for rv.IsValid() && (rv.Kind() == reflect.Ptr || rv.Kind() == reflect.Interface) && !rv.IsNil() {
				rv = rv.Elem()
			}
			if rv.IsValid() && rv.CanInterface() {
				v = rv.Interface()
			}
			out[i][k] = v
		}
	}
	return fmt.Sprint(out)
}

// stmtText: what a DryRun handle built (empty after a real execution: Execute resets it)
func stmtText(tx *gorm.DB) string {
	if tx.Statement.SQL.Len() == 0 {
		return ""
	}
	return fmt.Sprintf(" dry[%s %v]", tx.Statement.SQL.String(), tx.Statement.Vars)
}

func drain(rec *recdrv.Recorder) string {
	var sb strings.Builder
	for _, e := range rec.Snapshot() {
		switch e.Kind {
		case "query", "exec", "stmt_query", "stmt_exec": // (a cached prepared statement is not prepared again: not compared)
			fmt.Fprintf(&sb, "%s %s %v; ", strings.TrimPrefix(e.Kind, "stmt_"), e.Query, e.Args)
		}
	}
	rec.Reset()
	return sb.String()
}

// runExec: the executed stream. Observed per finisher: the statements that reached the driver, what
// was loaded, RowsAffected and the error - in the shared history and replayed alone on a fresh database.
func runExec(in Input) Obs {
	var o Obs
	e := &env{}
	db0, rec := openExec()
	handles := []*gorm.DB{db0}
	paths := [][]Step{nil}
	for i, st := range in.Steps {
		p := st.P
		if p < 0 || p >= len(handles) {
			p = 0
		}
		parent := handles[p]
		switch st.K {
		case "derive":
			var grp *gorm.DB
			if st.Op.K == "x_where_group" && st.Op.H >= 0 && st.Op.H < len(handles) {
				grp = handles[st.Op.H]
			}
			handles = append(handles, guard(parent, func() *gorm.DB { return applyX(parent, st.Op, grp) }))
			paths = append(paths, append(append([]Step(nil), paths[p]...), st))
		case "sess":
			handles = append(handles, guard(parent, func() *gorm.DB { return applySess(parent, st.Sess) }))
			paths = append(paths, append(append([]Step(nil), paths[p]...), st))
		case "abandon":
			handles = append(handles, parent)
			paths = append(paths, paths[p])
		case "finish":
			rec.Reset()
			tx, res := applyFinX(parent, st.Fin)
			fo := FinObs{Step: i, SQL: drain(rec) + "=> " + res + fmt.Sprintf(" ra=%d", tx.RowsAffected) + stmtText(tx), Err: errStr(tx.Error)}
			handles = append(handles, tx)
			paths = append(paths, append(append([]Step(nil), paths[p]...), st))
			cur, arec := openExec()
			for _, ps := range paths[p] {
				switch ps.K {
				case "derive":
					var grp *gorm.DB
					if ps.Op.K == "x_where_group" && ps.Op.H >= 0 && ps.Op.H < len(paths) {
						// the handle used as the group is rebuilt alone as well
						g, _ := openExec()
						if sq, err := g.DB(); err == nil {
							defer sq.Close()
						}
						for _, gs := range paths[ps.Op.H] {
							if gs.K == "derive" && gs.Op.K != "x_where_group" {
								g = applyX(g, gs.Op, nil)
							} else if gs.K == "sess" {
								g = applySess(g, gs.Sess)
							}
						}
						grp = g
					}
					cur = applyX(cur, ps.Op, grp)
				case "sess":
					cur = applySess(cur, ps.Sess)
				}
			}
			arec.Reset()
			atx, ares := applyFinX(cur, st.Fin)
			fo.ASQL, fo.AErr = drain(arec)+"=> "+ares+fmt.Sprintf(" ra=%d", atx.RowsAffected)+stmtText(atx), errStr(atx.Error)
			if sq, err := cur.DB(); err == nil {
				sq.Close()
			}
			o.Fins = append(o.Fins, fo)
		}
	}
	_ = e
	if sq, err := db0.DB(); err == nil {
		sq.Close()
	}
	return o
}

// ---- running one operation on real gorm ----
type env struct {
	shared map[int]interface{} // shared caller slices by uref (only in the shared run)
}

func mk(name string, id int64) string { return name + strconv.FormatInt(id, 10) }

func cols(xs []int64, cap_ int) []clause.Column {
	c := cap_
	if c < len(xs) {
		c = len(xs)
	}
	s := make([]clause.Column, len(xs), c)
	for i, x := range xs {
		s[i] = clause.Column{Name: mk("a", x)}
	}
	return s
}

func scopeFn(x int64) func(*gorm.DB) *gorm.DB {
	return func(d *gorm.DB) *gorm.DB { return d.Where(mk("s", x)+" = ?", x) }
}

func abs64(x int64) int64 {
	if x < 0 {
		return -x
	}
	return x
}

// exprs builds a caller-made []clause.Expression for Clauses(clause.Where{..}) / Clauses(clause.GroupBy{Having: ..})
func exprs(prefix string, xs []int64, cap_ int) []clause.Expression {
	c := cap_
	if c < len(xs) {
		c = len(xs)
	}
	s := make([]clause.Expression, len(xs), c)
	for i, x := range xs {
		if x < 0 {
			s[i] = clause.Or(clause.Expr{SQL: mk("o", -x) + " = ?", Vars: []interface{}{-x}})
		} else {
			s[i] = clause.Expr{SQL: mk(prefix, x) + " = ?", Vars: []interface{}{x}}
		}
	}
	return s
}

func (e *env) apply(db *gorm.DB, handles []*gorm.DB, op *Op) *gorm.DB {
	switch op.K {
	case "where":
		if len(op.Xs) == 1 && op.Cap <= 1 && op.Xs[0] > 0 {
			return db.Where(mk("w", op.Xs[0])+" = ?", op.Xs[0])
		}
		return db.Clauses(clause.Where{Exprs: exprs("w", op.Xs, op.Cap)})
	case "or":
		return db.Or(mk("o", -op.Xs[0])+" = ?", -op.Xs[0])
	case "not":
		return db.Not(mk("n", op.Xs[0])+" = ?", op.Xs[0])
	case "having":
		if len(op.Xs) == 1 && op.Cap <= 1 && op.Xs[0] > 0 {
			return db.Having(mk("h", op.Xs[0])+" = ?", op.Xs[0])
		}
		return db.Clauses(clause.GroupBy{Having: exprs("h", op.Xs, op.Cap)})
	case "group":
		return db.Group(mk("g", op.Xs[0]))
	case "order":
		return db.Order(mk("r", op.Xs[0]))
	case "orderby":
		c := op.Cap
		if c < len(op.Xs) {
			c = len(op.Xs)
		}
		s := make([]clause.OrderByColumn, len(op.Xs), c)
		for i, x := range op.Xs {
			s[i] = clause.OrderByColumn{Column: clause.Column{Name: mk("r", x), Raw: true}}
		}
		if op.Re {
			s[0].Reorder = true
		}
		return db.Clauses(clause.OrderBy{Columns: s})
	case "limit":
		return db.Limit(int(op.N))
	case "offset":
		return db.Offset(int(op.N))
	case "select":
		args := []interface{}{}
		for _, x := range op.More {
			args = append(args, mk("s", x))
		}
		return db.Select(mk("s", op.Xs[0]), args...)
	case "select_slice":
		var s []string
		if op.Uref > 0 && e.shared != nil {
			if v, ok := e.shared[op.Uref]; ok {
				s = v.([]string)
			}
		}
		if s == nil {
			c := op.Cap
			if c < len(op.Xs) {
				c = len(op.Xs)
			}
			s = make([]string, len(op.Xs), c)
			for i, x := range op.Xs {
				s[i] = mk("s", x)
			}
			if op.Uref > 0 && e.shared != nil {
				e.shared[op.Uref] = s
			}
		}
		args := []interface{}{}
		for _, x := range op.More {
			args = append(args, mk("s", x))
		}
		return db.Select(s, args...)
	case "distinct":
		args := []interface{}{}
		for _, x := range op.Xs {
			args = append(args, mk("d", x))
		}
		return db.Distinct(args...)
	case "omit":
		names := []string{}
		for _, x := range op.Xs {
			names = append(names, mk("c", x))
		}
		if len(names) == 0 {
			return db.Omit()
		}
		names = names[:len(names):len(names)]
		return db.Omit(names...)
	case "joins":
		return db.Joins("JOIN "+mk("j", op.Xs[0])+" ON 1 = ?", op.Xs[0])
	case "scopes":
		fs := []func(*gorm.DB) *gorm.DB{}
		for _, x := range op.Xs {
			fs = append(fs, scopeFn(x))
		}
		return db.Scopes(fs...)
	case "unscoped":
		return db.Unscoped()
	case "table":
		if op.N == 0 {
			return db.Table("") // forget the table override
		}
		return db.Table(mk("t", op.N))
	case "model":
		return db.Model(&T{})
	case "returning":
		if op.Nil {
			return db.Clauses(clause.Returning{})
		}
		var s []clause.Column
		if op.Uref > 0 && e.shared != nil {
			if v, ok := e.shared[op.Uref]; ok {
				s = v.([]clause.Column)
			}
		}
		if s == nil {
			s = cols(op.Xs, op.Cap)
			if op.Uref > 0 && e.shared != nil {
				e.shared[op.Uref] = s
			}
		}
		return db.Clauses(clause.Returning{Columns: s})
	case "locking":
		st := "UPDATE"
		if op.N == 900022 {
			st = "SHARE"
		}
		return db.Clauses(clause.Locking{Strength: st})
	case "onconflict":
		return db.Clauses(clause.OnConflict{DoNothing: true})
	case "from":
		c := op.Cap
		if c < len(op.Xs) {
			c = len(op.Xs)
		}
		s := make([]clause.Join, len(op.Xs), c)
		for i, x := range op.Xs {
			s[i] = clause.Join{Expression: clause.Expr{SQL: "JOIN " + mk("f", x) + " ON 1 = ?", Vars: []interface{}{x}}}
		}
		return db.Clauses(clause.From{Joins: s})
	case "preload": // Preload(P<k>) or Preload(P<k>, "v = ?", n)
		if op.N == 0 {
			return db.Preload(mk("P", op.Xs[0]))
		}
		return db.Preload(mk("P", op.Xs[0]), "v = ?", op.N)
	case "set":
		return db.Set(mk("c06k", op.Xs[0]), op.N)
	case "where_group": // outside the model: a reusable handle passed as a group condition
		if op.H >= 0 && op.H < len(handles) {
			return db.Where(handles[op.H])
		}
		return db.Where("w0 = ?", 0)
	}
	panic("unknown op " + op.K)
}

func applySess(db *gorm.DB, k string) *gorm.DB {
	switch k {
	case "plain":
		return db.Session(&gorm.Session{})
	case "ctx":
		return db.WithContext(context.Background())
	case "debug":
		return db.Debug()
	case "begin":
		return db.Begin()
	}
	// Session{...} with each option alone or combined: "skiphooks+queryfields", ...
	cfg := &gorm.Session{}
	for _, o := range strings.Split(k, "+") {
		switch o {
		case "newdb":
			cfg.NewDB = true
		case "skiphooks":
			cfg.SkipHooks = true
		case "dryrun":
			cfg.DryRun = true
		case "initialized":
			cfg.Initialized = true
		case "queryfields":
			cfg.QueryFields = true
		case "fullsave":
			cfg.FullSaveAssociations = true
		case "allowglobal":
			cfg.AllowGlobalUpdate = true
		case "batchsize":
			cfg.CreateBatchSize = 2
		case "skipdeftx":
			cfg.SkipDefaultTransaction = true
		case "nonested":
			cfg.DisableNestedTransaction = true
		case "preparestmt":
			cfg.PrepareStmt = true
		case "propagateunscoped":
			cfg.PropagateUnscoped = true
		case "nowfunc":
			cfg.NowFunc = func() time.Time { return time.Unix(1700000000, 0) }
		case "logger":
			cfg.Logger = logger.Discard
		case "cctx": // a context that is already cancelled: whatever runs under it fails
			ctx, cancel := context.WithCancel(context.Background())
			cancel()
			cfg.Context = ctx
		case "bctx", "ctx":
			cfg.Context = context.Background()
		default:
			if strings.HasPrefix(o, "vctx") { // a context that carries a tag (seen by hooks, read back from the statement)
				n, err := strconv.ParseInt(o[4:], 10, 64)
				lib.Must(err)
				cfg.Context = context.WithValue(context.Background(), ctxKey{}, n)
				continue
			}
			panic("unknown session " + k)
		}
	}
	return db.Session(cfg)
}

// guard: a panic inside gorm is an observation of the case (an error on the resulting handle), never
// the end of the run
func guard(fallback *gorm.DB, f func() *gorm.DB) (tx *gorm.DB) {
	defer func() {
		if r := recover(); r != nil {
			tx = fallback.Session(&gorm.Session{NewDB: true})
			tx.Error = fmt.Errorf("PANIC %s", ptrRe.ReplaceAllString(fmt.Sprint(r), "0xPTR"))
		}
	}()
	return f()
}

func applyFin(db *gorm.DB, f *Fin) *gorm.DB {
	return guard(db, func() *gorm.DB { return applyFin0(db, f) })
}

func applyFin0(db *gorm.DB, f *Fin) *gorm.DB {
	switch f.K {
	case "find":
		return db.Find(&[]T{})
	case "first":
		return db.First(&T{})
	case "take":
		return db.Take(&T{})
	case "update":
		return db.Update(mk("c", f.Col), f.V)
	case "delete":
		return db.Delete(&T{})
	}
	panic("unknown finisher " + f.K)
}

func toInts(vs []interface{}) []int64 {
	out := make([]int64, 0, len(vs))
	for _, v := range vs {
		switch x := v.(type) {
		case int:
			out = append(out, int64(x))
		case int64:
			out = append(out, x)
		default:
			out = append(out, -777777)
		}
	}
	return out
}

var ptrRe = regexp.MustCompile(`0x[0-9a-f]+`)

// errStr: the error text, addresses canonicalised (gorm prints the destination pointer of Count)
func errStr(err error) string {
	if err == nil {
		return ""
	}
	return ptrRe.ReplaceAllString(err.Error(), "0xPTR")
}

// ---- reading the aliasing structure ----
func slInfo(v reflect.Value, ids map[uintptr]int) SlObs {
	if !v.IsValid() || v.IsNil() {
		return SlObs{Nil: true}
	}
	if v.Cap() == 0 {
		return SlObs{ID: -1, Len: v.Len()}
	}
	p := v.Pointer()
	id, ok := ids[p]
	if !ok {
		id = len(ids)
		ids[p] = id
	}
	return SlObs{ID: id, Len: v.Len(), Cap: v.Cap()}
}

var tableRe = regexp.MustCompile(`^t([0-9]+)$`)

// readX: the non-slice state of a statement
func readX(st *gorm.Statement) XObs {
	x := XObs{Ctx: ctxTag(st.Context), Skip: st.SkipHooks, Pre: [][2]int64{}, Set: [][2]int64{}}
	for k, args := range st.Preloads {
		if !strings.HasPrefix(k, "P") {
			continue
		}
		n, err := strconv.ParseInt(k[1:], 10, 64)
		if err != nil {
			continue
		}
		var v int64
		if len(args) >= 2 {
			v, _ = args[1].(int64)
		}
		x.Pre = append(x.Pre, [2]int64{n, v})
	}
	st.Settings.Range(func(k, v interface{}) bool {
		if ks, ok := k.(string); ok && strings.HasPrefix(ks, "c06k") {
			n, _ := strconv.ParseInt(ks[4:], 10, 64)
			vi, _ := v.(int64)
			x.Set = append(x.Set, [2]int64{n, vi})
		}
		return true
	})
	sort.Slice(x.Pre, func(i, j int) bool { return x.Pre[i][0] < x.Pre[j][0] })
	sort.Slice(x.Set, func(i, j int) bool { return x.Set[i][0] < x.Set[j][0] })
	return x
}

func readHandle(db *gorm.DB, ids map[uintptr]int, mapIDs map[uintptr]int) HObs {
	st := db.Statement
	var where, having, group, order, ret, fromj reflect.Value
	if w, ok := st.Clauses["WHERE"].Expression.(clause.Where); ok {
		where = reflect.ValueOf(w.Exprs)
	}
	if g, ok := st.Clauses["GROUP BY"].Expression.(clause.GroupBy); ok {
		having, group = reflect.ValueOf(g.Having), reflect.ValueOf(g.Columns)
	}
	if o, ok := st.Clauses["ORDER BY"].Expression.(clause.OrderBy); ok {
		order = reflect.ValueOf(o.Columns)
	}
	if r, ok := st.Clauses["RETURNING"].Expression.(clause.Returning); ok {
		ret = reflect.ValueOf(r.Columns)
	}
	if f, ok := st.Clauses["FROM"].Expression.(clause.From); ok {
		fromj = reflect.ValueOf(f.Joins)
	}
	sv := reflect.ValueOf(st).Elem()
	vals := []reflect.Value{where, having, group, order, ret, reflect.ValueOf(st.Selects), reflect.ValueOf(st.Omits),
		sv.FieldByName("Joins"), sv.FieldByName("scopes"), fromj}
	h := HObs{Distinct: st.Distinct, Unscoped: st.Unscoped}
	for _, v := range vals {
		h.Sl = append(h.Sl, slInfo(v, ids))
	}
	if m := tableRe.FindStringSubmatch(st.Table); m != nil {
		h.Table, _ = strconv.ParseInt(m[1], 10, 64)
	}
	h.X = readX(st)
	if st.Preloads == nil {
		h.PreNil = true
	} else {
		p := reflect.ValueOf(st.Preloads).Pointer()
		id, ok := mapIDs[p]
		if !ok {
			id = len(mapIDs)
			mapIDs[p] = id
		}
		h.PreID = id
	}
	return h
}

// ---- one history ----
func runHistory(in Input) Obs {
	var o Obs
	e := &env{shared: map[int]interface{}{}}
	handles := []*gorm.DB{open()}
	paths := [][]Step{nil}
	for i, st := range in.Steps {
		p := st.P
		if p < 0 || p >= len(handles) {
			p = 0
		}
		parent := handles[p]
		switch st.K {
		case "derive":
			handles = append(handles, guard(parent, func() *gorm.DB { return e.apply(parent, handles, st.Op) }))
			paths = append(paths, append(append([]Step(nil), paths[p]...), st))
		case "sess":
			handles = append(handles, guard(parent, func() *gorm.DB { return applySess(parent, st.Sess) }))
			paths = append(paths, append(append([]Step(nil), paths[p]...), st))
		case "abandon":
			handles = append(handles, parent)
			paths = append(paths, paths[p])
		case "finish":
			tx := applyFin(parent, st.Fin)
			fo := FinObs{Step: i, SQL: tx.Statement.SQL.String(), Vars: toInts(tx.Statement.Vars), Err: errStr(tx.Error), X: readX(tx.Statement)}
			handles = append(handles, tx)
			paths = append(paths, append(append([]Step(nil), paths[p]...), st))
			// the same chain alone, on a fresh gorm.Open, with fresh argument slices
			cur := open()
			ae := &env{}
			for _, ps := range paths[p] {
				switch ps.K {
				case "derive":
					if ps.Op.K == "where_group" {
						// the group argument is rebuilt alone as well
						g := open()
						for _, gs := range paths[ps.Op.H] {
							if gs.K == "derive" {
								g = ae.apply(g, nil, gs.Op)
							} else if gs.K == "sess" {
								g = applySess(g, gs.Sess)
							}
						}
						cur = cur.Where(g)
					} else {
						cur = ae.apply(cur, nil, ps.Op)
					}
				case "sess":
					cur = applySess(cur, ps.Sess)
				}
			}
			atx := applyFin(cur, st.Fin)
			fo.ASQL, fo.AVars, fo.AErr = atx.Statement.SQL.String(), toInts(atx.Statement.Vars), errStr(atx.Error)
			fo.AX = readX(atx.Statement)
			o.Fins = append(o.Fins, fo)
		default:
			panic("unknown step " + st.K)
		}
	}
	ids, mapIDs := map[uintptr]int{}, map[uintptr]int{}
	for _, h := range handles {
		o.Final = append(o.Final, readHandle(h, ids, mapIDs))
	}
	return o
}

// ---- token projection of a SQL text ----
var tokRe = regexp.MustCompile("FOR UPDATE|FOR SHARE|SELECT|DISTINCT|\\*|FROM|WHERE|GROUP BY|HAVING|ORDER BY|LIMIT|OFFSET|RETURNING|UPDATE|SET|DELETE|`id`|[a-z][0-9]+")
var kw = map[string][]int64{"SELECT": {900001}, "DISTINCT": {900002}, "*": {900003}, "FROM": {900004}, "WHERE": {900005},
	"GROUP BY": {900006}, "HAVING": {900007}, "ORDER BY": {900008}, "LIMIT": {900009}, "OFFSET": {900010},
	"FOR UPDATE": {900011, 900021}, "FOR SHARE": {900011, 900022}, "RETURNING": {900012}, "UPDATE": {900013},
	"SET": {900014}, "DELETE": {900015}, "`id`": {0}}

func tokens(sqlText string) []int64 {
	out := []int64{}
	for _, m := range tokRe.FindAllStringIndex(sqlText, -1) {
		s := sqlText[m[0]:m[1]]
		if v, ok := kw[s]; ok {
			out = append(out, v...)
			continue
		}
		if strings.HasPrefix(sqlText[m[1]:], "`.") { // a table qualifier
			continue
		}
		n, _ := strconv.ParseInt(s[1:], 10, 64)
		if s[0] == 'o' {
			n = -n
		}
		out = append(out, n)
	}
	return out
}

// ---- Gallina printing ----
func gOp(op *Op) string {
	switch op.K {
	case "preload":
		return lib.App("UPreload", lib.Z(op.Xs[0]), lib.Z(op.N))
	case "set":
		return lib.App("USet", lib.Z(op.Xs[0]), lib.Z(op.N))
	}
	return "(UOp " + gOp0(op) + ")"
}
func gOp0(op *Op) string {
	xs := lib.ZList(op.Xs)
	switch op.K {
	case "where":
		return lib.App("OWhere", xs, lib.Nat(op.Cap))
	case "or":
		return lib.App("OOr", lib.Z(op.Xs[0]))
	case "not":
		return lib.App("ONot", lib.Z(op.Xs[0]))
	case "having":
		return lib.App("OHaving", xs, lib.Nat(op.Cap))
	case "group":
		return lib.App("OGroup", lib.Z(op.Xs[0]))
	case "order":
		return lib.App("OOrder", lib.Z(op.Xs[0]))
	case "orderby":
		return lib.App("OOrderBy", xs, lib.Nat(op.Cap), lib.Bool(op.Re))
	case "limit":
		return lib.App("OLimit", lib.Z(op.N))
	case "offset":
		return lib.App("OOffset", lib.Z(op.N))
	case "select":
		return lib.App("OSelect", lib.Z(op.Xs[0]), lib.ZList(op.More))
	case "select_slice":
		return lib.App("OSelectSlice", xs, lib.Nat(op.Cap), lib.ZList(op.More))
	case "distinct":
		return lib.App("ODistinct", xs)
	case "omit":
		return lib.App("OOmit", xs)
	case "joins":
		return lib.App("OJoins", lib.Z(op.Xs[0]))
	case "scopes":
		return lib.App("OScopes", xs)
	case "unscoped":
		return "OUnscoped"
	case "table":
		return lib.App("OTable", lib.Z(op.N))
	case "model":
		return lib.App("OModel", lib.Z(1))
	case "returning":
		if op.Nil {
			return lib.App("OReturning", "None")
		}
		return lib.App("OReturning", "(Some "+lib.Pair(xs, lib.Nat(op.Cap))+")")
	case "locking":
		return lib.App("OLocking", lib.Z(op.N))
	case "onconflict":
		return lib.App("OOnConflict", lib.Z(1))
	case "from":
		return lib.App("OFrom", xs, lib.Nat(op.Cap))
	case "where_group": // not in the model: rendered as a no-op Where
		return lib.App("OWhere", "[]", lib.Nat(0))
	}
	panic("gOp " + op.K)
}
func gFin(f *Fin) string {
	switch f.K {
	case "find":
		return "FFind"
	case "first":
		return "FFirst"
	case "take":
		return "FTake"
	case "update":
		return lib.App("FUpdate", lib.Z(f.Col), lib.Z(f.V))
	case "delete":
		return "FDelete"
	}
	panic("gFin")
}
func gStep(s Step) string {
	switch s.K {
	case "derive":
		return lib.App("UDerive", lib.Nat(s.P), gOp(s.Op))
	case "sess":
		switch s.Sess {
		case "debug":
			return lib.App("USess", lib.Nat(s.P), "UDebug")
		case "begin":
			return lib.App("USess", lib.Nat(s.P), "UBegin")
		}
		si, _ := parseSess(s.Sess)
		ctx := "None"
		if si.hasCtx {
			ctx = "(Some " + lib.Z(si.ctx) + ")"
		}
		return lib.App("USess", lib.Nat(s.P), lib.App("USession", lib.Bool(si.newdb), ctx, lib.Bool(si.skip)))
	case "finish":
		return lib.App("UFinish", lib.Nat(s.P), gFin(s.Fin))
	}
	return lib.App("UAbandon", lib.Nat(s.P))
}

// sessInfo: what the Session options of a step mean for the models: NewDB, the context written (tag),
// SkipHooks; ok=false when an option is outside the model (PrepareStmt, ...)
type sessInfo struct {
	newdb, hasCtx, skip bool
	ctx                 int64
}

func (si sessInfo) clones() bool { return si.hasCtx || si.skip }
func parseSess(k string) (si sessInfo, ok bool) {
	ok = true
	for _, o := range strings.Split(k, "+") {
		switch o {
		case "plain", "fullsave", "allowglobal", "batchsize", "skipdeftx", "nonested":
		case "newdb":
			si.newdb = true
		case "ctx", "bctx":
			si.hasCtx, si.ctx = true, 0
		case "skiphooks":
			si.skip = true
		default:
			if strings.HasPrefix(o, "vctx") {
				n, err := strconv.ParseInt(o[4:], 10, 64)
				if err == nil {
					si.hasCtx, si.ctx = true, n
					continue
				}
			}
			ok = false
		}
	}
	return
}
func gPairs(ps [][2]int64) string {
	return lib.ListOf(ps, func(p [2]int64) string { return lib.Pair(lib.Z(p[0]), lib.Z(p[1])) })
}
func gX(x XObs) string {
	return lib.App("mk_xo", lib.Z(x.Ctx), lib.Bool(x.Skip), gPairs(x.Pre), gPairs(x.Set))
}
func gFinObs(f FinObs) string {
	return lib.App("mk_fobs", lib.ZList(tokens(f.SQL)), lib.ZList(f.Vars), lib.ZList(tokens(f.ASQL)), lib.ZList(f.AVars),
		lib.Str(f.SQL), lib.Str(f.ASQL), lib.Str(f.Err), lib.Str(f.AErr), gX(f.X), gX(f.AX))
}
func gSl(s SlObs) string {
	if s.Nil {
		return "None"
	}
	return "(Some (" + lib.Z(int64(s.ID)) + ", " + lib.Z(int64(s.Len)) + ", " + lib.Z(int64(s.Cap)) + "))"
}
func gHObs(h HObs) string {
	pre := "None"
	if !h.PreNil {
		pre = "(Some " + lib.Pair(lib.Z(int64(h.PreID)), gPairs(h.X.Pre)) + ")"
	}
	return lib.App("mk_hobs", lib.ListOf(h.Sl, gSl), lib.Bool(h.Distinct), lib.Bool(h.Unscoped), lib.Z(h.Table),
		lib.Z(h.X.Ctx), lib.Bool(h.X.Skip), pre, gPairs(h.X.Set))
}
func inModel(in Input) bool {
	if in.Exec {
		return false
	}
	for _, s := range in.Steps {
		if s.K == "derive" && s.Op.K == "where_group" {
			return false
		}
		if s.K == "sess" && s.Sess != "debug" && s.Sess != "begin" {
			if _, ok := parseSess(s.Sess); !ok {
				return false
			}
		}
	}
	return true
}
func term(in Input, o Obs) string {
	if in.Exec {
		return lib.App("mk_case", "false", "[]", lib.ListOf(o.Fins, gFinObs), "[]")
	}
	return lib.App("mk_case", lib.Bool(inModel(in)), lib.ListOf(in.Steps, gStep), lib.ListOf(o.Fins, gFinObs), lib.ListOf(o.Final, gHObs))
}

// ---- abstract tracking used by the generator and by the known-finding signatures ----
// Each handle carries, per slice that the code appends onto in place, a "version" of the slice value;
// two appends onto the same version from different statements write the same backing cells.
type hinfo struct {
	reusable bool
	alive    bool
	newdb    bool
	stmt     int // statement identity
}
type sinfo struct {
	retPresent bool
	retNonNil  bool
	retVer     int
	hasWhere   bool
	nops       int
}
type tracker struct {
	hs      []hinfo
	ss      []sinfo
	nver    int
	appends map[int]int // ret version -> number of in-place-capable appends
	urefUse map[int]int
	grpArg  bool
}

func newTracker() *tracker {
	return &tracker{hs: []hinfo{{reusable: true, alive: true, newdb: true, stmt: 0}}, ss: []sinfo{{}}, appends: map[int]int{}, urefUse: map[int]int{}}
}
func (t *tracker) instance(p int) int { // getInstance: statement the operation will mutate
	h := t.hs[p]
	if !h.reusable {
		return h.stmt
	}
	if h.newdb {
		t.ss = append(t.ss, sinfo{})
	} else {
		t.ss = append(t.ss, t.ss[h.stmt])
	}
	return len(t.ss) - 1
}
func (t *tracker) step(s Step) {
	p := s.P
	if p < 0 || p >= len(t.hs) {
		p = 0
	}
	switch s.K {
	case "derive":
		i := t.instance(p)
		st := &t.ss[i]
		st.nops++
		switch s.Op.K {
		case "returning":
			if s.Op.Uref > 0 {
				t.urefUse[s.Op.Uref]++
			}
			nonEmpty := !s.Op.Nil && len(s.Op.Xs) > 0
			if st.retPresent && nonEmpty {
				if st.retNonNil {
					t.appends[st.retVer]++
					t.nver++
					st.retVer = t.nver
				}
			} else {
				st.retPresent, st.retNonNil = true, !s.Op.Nil
				t.nver++
				st.retVer = t.nver
			}
		case "select_slice":
			if s.Op.Uref > 0 {
				t.urefUse[s.Op.Uref]++
			}
		case "where_group":
			t.grpArg = true
		case "where", "or", "not":
			st.hasWhere = true
		}
		if !t.hs[p].reusable {
			t.hs[p].alive = false
		}
		t.hs = append(t.hs, hinfo{alive: true, stmt: i})
	case "sess":
		h := t.hs[p]
		if !h.reusable {
			t.hs[p].alive = false
		}
		nh := hinfo{reusable: true, alive: true, stmt: h.stmt}
		switch s.Sess {
		default:
			si, _ := parseSess(s.Sess)
			nh.newdb = si.newdb
			if si.clones() {
				t.ss = append(t.ss, t.ss[h.stmt])
				nh.stmt = len(t.ss) - 1
			}
		case "debug":
			nh.stmt = t.instance(p)
		case "begin":
			i := t.instance(p)
			t.ss = append(t.ss, t.ss[i])
			nh.stmt = len(t.ss) - 1
			nh.newdb = h.reusable && h.newdb
		}
		t.hs = append(t.hs, nh)
	case "finish":
		i := t.instance(p)
		if !t.hs[p].reusable {
			t.hs[p].alive = false
		}
		t.hs = append(t.hs, hinfo{alive: false, stmt: i})
	default:
		if !t.hs[p].reusable {
			t.hs[p].alive = false
		}
		t.hs = append(t.hs, hinfo{alive: false, stmt: t.hs[p].stmt})
	}
}

// sig: known-finding signature, computed from the INPUT only.
func sig(in Input) string {
	t := newTracker()
	for _, s := range in.Steps {
		t.step(s)
	}
	var sigs []string
	for _, n := range t.appends {
		if n >= 2 {
			sigs = append(sigs, "returning-shared-append")
			break
		}
	}
	for _, n := range t.urefUse {
		if n >= 2 {
			sigs = append(sigs, "caller-slice-reused")
			break
		}
	}
	if t.grpArg {
		sigs = append(sigs, "handle-as-group-condition")
	}
	sort.Strings(sigs)
	return strings.Join(sigs, "+")
}

// ---- generation ----
type gen struct {
	r    *lib.Rng
	t    *tracker
	next int64
	edge bool
}

func (g *gen) id() int64 { g.next++; return g.next }
func (g *gen) ids(n int) []int64 {
	out := make([]int64, n)
	for i := range out {
		out[i] = g.id()
	}
	return out
}
func (g *gen) cells(n int) []int64 { // where/having cells, some of them single-Or conditions
	out := g.ids(n)
	for i := range out {
		if g.r.Chance(2, 5) {
			out[i] = -out[i]
		}
	}
	return out
}
func (g *gen) spare(n int) int { // capacity of a caller-made slice
	if g.edge || g.r.Chance(1, 4) {
		return n + g.r.Range(1, 4)
	}
	return n
}

func (g *gen) op(stmtOf int) *Op {
	r := g.r
	_ = stmtOf
	for {
		switch r.Intn(29) {
		case 26, 27: // Preload: an entry of the statement's Preloads MAP (key P1..P3, argument tag)
			return &Op{K: "preload", Xs: []int64{int64(r.Range(1, 3))}, N: int64(lib.Pick(r, []int{0, 0, 4, 5, 6}))}
		case 28: // Set: an entry of the statement's Settings
			return &Op{K: "set", Xs: []int64{int64(r.Range(1, 3))}, N: int64(r.Range(1, 9))}
		case 0, 1, 2:
			if r.Chance(1, 4) {
				xs := g.cells(r.Range(1, 3))
				return &Op{K: "where", Xs: xs, Cap: g.spare(len(xs))}
			}
			return &Op{K: "where", Xs: g.ids(1), Cap: 1}
		case 3, 4:
			return &Op{K: "or", Xs: []int64{-g.id()}}
		case 5:
			return &Op{K: "not", Xs: g.ids(1)}
		case 6:
			if r.Chance(1, 2) {
				xs := g.cells(r.Range(1, 3))
				return &Op{K: "having", Xs: xs, Cap: g.spare(len(xs))}
			}
			return &Op{K: "having", Xs: g.ids(1), Cap: 1}
		case 7, 8:
			return &Op{K: "group", Xs: g.ids(1)}
		case 9, 10:
			return &Op{K: "order", Xs: g.ids(1)}
		case 11:
			n := r.Range(1, 3)
			return &Op{K: "orderby", Xs: g.ids(n), Cap: g.spare(n), Re: r.Chance(1, 5)}
		case 12:
			return &Op{K: "limit", N: int64(lib.Pick(r, []int{-1, 0, 1, 2, 3, 5, 9}))}
		case 13:
			return &Op{K: "offset", N: int64(lib.Pick(r, []int{-1, 0, 1, 2, 4, 7}))}
		case 14:
			return &Op{K: "select", Xs: g.ids(1), More: g.ids(r.Intn(4))}
		case 15:
			n := r.Range(1, 3)
			return &Op{K: "select_slice", Xs: g.ids(n), Cap: g.spare(n), More: g.ids(r.Intn(3))}
		case 16:
			return &Op{K: "distinct", Xs: g.ids(r.Intn(3))}
		case 17:
			n := r.Intn(3)
			xs := []int64{1, 2, 3}
			lib.Shuffle(r, xs)
			return &Op{K: "omit", Xs: xs[:n]}
		case 18, 19:
			return &Op{K: "joins", Xs: g.ids(1)}
		case 20:
			return &Op{K: "scopes", Xs: g.ids(r.Range(1, 2))}
		case 21:
			switch r.Intn(3) {
			case 0:
				return &Op{K: "unscoped"}
			case 1:
				if r.Chance(1, 3) {
					return &Op{K: "table", N: 0}
				}
				return &Op{K: "table", N: g.id()}
			}
			return &Op{K: "model"}
		case 22, 23:
			if r.Chance(1, 8) {
				return &Op{K: "returning", Nil: true}
			}
			n := r.Range(1, 3)
			if g.edge && r.Chance(1, 6) {
				n = 0
			}
			return &Op{K: "returning", Xs: g.ids(n), Cap: g.spare(n)}
		case 24:
			if r.Bool() {
				return &Op{K: "locking", N: int64(lib.Pick(r, []int{900021, 900022}))}
			}
			return &Op{K: "onconflict"}
		case 25:
			n := r.Range(1, 2)
			return &Op{K: "from", Xs: g.ids(n), Cap: g.spare(n)}
		}
	}
}

func (g *gen) fin() *Fin {
	switch g.r.Intn(8) {
	case 0, 1, 2:
		return &Fin{K: "find"}
	case 3:
		return &Fin{K: "first"}
	case 4:
		return &Fin{K: "take"}
	case 5, 6:
		return &Fin{K: "update", Col: int64(g.r.Range(1, 3)), V: g.id()}
	}
	return &Fin{K: "delete"}
}

func (g *gen) pick(reusable bool) int {
	var c []int
	for i, h := range g.t.hs {
		if h.alive && h.reusable == reusable {
			c = append(c, i)
			if reusable && i > 0 && !h.newdb {
				c = append(c, i, i) // favour handles that carry state
			}
		}
	}
	if len(c) == 0 {
		return -1
	}
	return lib.Pick(g.r, c)
}

func genHistory(r *lib.Rng, nsteps int, edge bool) Input {
	g := &gen{r: r, t: newTracker(), next: 9, edge: edge}
	var in Input
	for len(in.Steps) < nsteps {
		live := 0
		for _, h := range g.t.hs {
			if h.alive && !h.reusable {
				live++
			}
		}
		var s Step
		x := r.Intn(100)
		switch {
		case x < 55 && live < 6:
			p := g.pick(false)
			if p < 0 || r.Chance(2, 5) {
				p = g.pick(true)
			}
			stmtOf := g.t.hs[p].stmt
			if g.t.hs[p].reusable && g.t.hs[p].newdb {
				stmtOf = 0
			}
			s = Step{K: "derive", P: p, Op: g.op(stmtOf)}
		case x < 72:
			p := g.pick(false)
			if p < 0 || r.Chance(1, 4) {
				p = g.pick(true)
			}
			k := lib.Pick(r, []string{"plain", "plain", "plain", "plain", "ctx", "debug", "begin", "newdb",
				"skiphooks", "skiphooks", "fullsave", "allowglobal", "batchsize", "skipdeftx", "nonested", "skiphooks+fullsave", "allowglobal+batchsize",
				// contexts that carry a tag, and every combination of NewDB / Context / SkipHooks
				"vctx3", "vctx5", "vctx2+skiphooks", "newdb+vctx4", "newdb+skiphooks", "newdb+vctx6+skiphooks", "newdb+ctx", "newdb+fullsave"})
			s = Step{K: "sess", P: p, Sess: k}
		case x < 96:
			p := g.pick(false)
			if p < 0 || r.Chance(1, 3) {
				p = g.pick(true)
			}
			s = Step{K: "finish", P: p, Fin: g.fin()}
		default:
			p := g.pick(false)
			if p < 0 {
				continue
			}
			s = Step{K: "abandon", P: p}
		}
		g.t.step(s)
		in.Steps = append(in.Steps, s)
	}
	return in
}

// genPattern: the interference pattern instantiated for a random appendable clause.
func genPattern(r *lib.Rng) Input {
	g := &gen{r: r, t: newTracker(), next: 9, edge: r.Chance(1, 3)}
	kind := lib.Pick(r, []string{"where", "or", "order", "orderby", "group", "having", "joins", "scopes", "select_slice", "from", "not", "returning", "returning", "limit", "limit", "offset", "table", "table",
		"preload", "preload", "set", "sessopt", "sessopt"})
	sessopt := kind == "sessopt" // the children are HANDLES derived with Session options (NewDB / Context / SkipHooks), not chains
	if sessopt {
		kind = lib.Pick(r, []string{"where", "preload", "set", "order"})
	}
	mk1 := func() *Op {
		switch kind {
		case "where":
			if r.Bool() {
				xs := g.cells(r.Range(1, 2))
				return &Op{K: "where", Xs: xs, Cap: g.spare(len(xs))}
			}
			return &Op{K: "where", Xs: g.ids(1), Cap: 1}
		case "or":
			return &Op{K: "or", Xs: []int64{-g.id()}}
		case "not":
			return &Op{K: "not", Xs: g.ids(1)}
		case "order":
			return &Op{K: "order", Xs: g.ids(1)}
		case "orderby":
			n := r.Range(1, 2)
			return &Op{K: "orderby", Xs: g.ids(n), Cap: g.spare(n)}
		case "group":
			return &Op{K: "group", Xs: g.ids(1)}
		case "having":
			if r.Bool() {
				xs := g.cells(r.Range(1, 2))
				return &Op{K: "having", Xs: xs, Cap: g.spare(len(xs))}
			}
			return &Op{K: "having", Xs: g.ids(1), Cap: 1}
		case "joins":
			return &Op{K: "joins", Xs: g.ids(1)}
		case "scopes":
			return &Op{K: "scopes", Xs: g.ids(r.Range(1, 2))}
		case "select_slice":
			n := r.Range(1, 2)
			return &Op{K: "select_slice", Xs: g.ids(n), Cap: g.spare(n), More: g.ids(r.Intn(3))}
		case "returning":
			n := r.Range(1, 2)
			return &Op{K: "returning", Xs: g.ids(n), Cap: g.spare(n)}
		case "limit": // positive values override, negative ones cancel: scalar state held through a *int
			return &Op{K: "limit", N: int64(lib.Pick(r, []int{-1, -1, 0, 1, 2, 3, 7}))}
		case "offset":
			return &Op{K: "offset", N: int64(lib.Pick(r, []int{-1, -1, 0, 1, 2, 5}))}
		case "table": // a table override, or Table("") that forgets it
			if r.Chance(2, 5) {
				return &Op{K: "table", N: 0}
			}
			return &Op{K: "table", N: g.id()}
		case "preload":
			return &Op{K: "preload", Xs: []int64{int64(r.Range(1, 3))}, N: int64(lib.Pick(r, []int{0, 0, 4, 5, 6}))}
		case "set":
			return &Op{K: "set", Xs: []int64{int64(r.Range(1, 3))}, N: int64(r.Range(1, 9))}
		}
		n := r.Range(1, 2)
		return &Op{K: "from", Xs: g.ids(n), Cap: g.spare(n)}
	}
	var in Input
	push := func(s Step) int { in.Steps = append(in.Steps, s); return len(in.Steps) }
	cur := push(Step{K: "derive", P: 0, Op: &Op{K: "model"}})
	if kind == "having" && r.Bool() {
		cur = push(Step{K: "derive", P: cur, Op: &Op{K: "group", Xs: g.ids(1)}})
	}
	// 3 and 5..7 single merges leave spare capacity behind (doubling growth): favour them
	for k := lib.Pick(r, []int{1, 2, 3, 3, 3, 4, 5, 6}); k > 0; k-- {
		cur = push(Step{K: "derive", P: cur, Op: mk1()})
	}
	h := push(Step{K: "sess", P: cur, Sess: lib.Pick(r, []string{"plain", "plain", "ctx", "debug", "begin", "vctx3", "skiphooks"})})
	if sessopt {
		// child handles with options, never used or used once; then the handle itself and a later chain are judged
		opts := []string{"newdb+vctx4", "newdb+skiphooks", "newdb+vctx6+skiphooks", "vctx5", "skiphooks", "vctx2+skiphooks", "newdb", "newdb+ctx"}
		c1 := push(Step{K: "sess", P: h, Sess: lib.Pick(r, opts)})
		if r.Bool() {
			push(Step{K: "finish", P: c1, Fin: &Fin{K: "find"}})
		}
		push(Step{K: "finish", P: h, Fin: &Fin{K: "find"}})
		push(Step{K: "sess", P: h, Sess: lib.Pick(r, opts)})
		c3 := push(Step{K: "derive", P: h, Op: mk1()})
		push(Step{K: "finish", P: c3, Fin: &Fin{K: lib.Pick(r, []string{"find", "first", "delete"})}})
		push(Step{K: "finish", P: h, Fin: &Fin{K: "find"}})
		return in
	}
	second := kind
	if kind == "from" || kind == "select_slice" {
		second = "joins" // the statement-level append that meets the clause at build time
	}
	kind = second
	c1 := push(Step{K: "derive", P: h, Op: mk1()})
	c2 := push(Step{K: "derive", P: h, Op: mk1()})
	if r.Bool() {
		c1 = push(Step{K: "derive", P: c1, Op: &Op{K: "where", Xs: g.ids(1), Cap: 1}})
	}
	f := lib.Pick(r, []string{"find", "find", "first", "delete"})
	if kind == "returning" {
		f = "delete"
	}
	push(Step{K: "finish", P: c1, Fin: &Fin{K: f}})
	push(Step{K: "finish", P: c2, Fin: &Fin{K: f}})
	push(Step{K: "finish", P: h, Fin: &Fin{K: "find"}})
	c3 := push(Step{K: "derive", P: h, Op: mk1()})
	push(Step{K: "finish", P: c3, Fin: &Fin{K: f}})
	return in
}

// genExec: the executed stream. A handle that carries state (conditions, Order, Group, Select by
// Go field name or column, Omit, Distinct, Limit, scopes, Model/Table) is used directly by reading
// finishers (Find/First/Take/Count/Pluck/Scan into two model types and maps) and as the start of
// further chains, in arbitrary order.
func genExec(r *lib.Rng) Input {
	in := Input{Exec: true}
	push := func(s Step) int { in.Steps = append(in.Steps, s); return len(in.Steps) }
	col := func() string { return lib.Pick(r, []string{"c1", "c2", "c3"}) }
	xop := func() *Op {
		if r.Chance(2, 5) {
			return xopExtra(r)
		}
		switch r.Intn(16) {
		case 0, 1:
			return &Op{K: "x_where", Names: []string{col()}, N: int64(r.Range(0, 6))}
		case 2:
			return &Op{K: "x_or", Names: []string{col()}, N: int64(r.Range(0, 6))}
		case 3:
			return &Op{K: "x_not", Names: []string{col()}, N: int64(r.Range(0, 6))}
		case 4, 5:
			return &Op{K: "x_order", Names: []string{col()}, Re: r.Bool()}
		case 6:
			return &Op{K: "x_group", Names: []string{col()}}
		case 7:
			return &Op{K: "x_having", N: int64(r.Range(1, 2))}
		case 8, 9:
			// Go field names (K4 is column k4 in ts, u5 in us) or column names
			n := lib.Pick(r, [][]string{{"K4"}, {"K4", "C1"}, {"ID", "K4"}, {"c1"}, {"C2", "c3"}, {"id", "c2"}})
			return &Op{K: "x_select", Names: n}
		case 10:
			return &Op{K: "x_omit", Names: lib.Pick(r, [][]string{{"C1"}, {"K4"}, {"C2", "K4"}})}
		case 11:
			return &Op{K: "x_distinct", Names: lib.Pick(r, [][]string{{}, {"c1"}, {"K4"}})}
		case 12:
			return &Op{K: "limit", N: int64(lib.Pick(r, []int{-1, 1, 2, 3, 5}))}
		case 13:
			return &Op{K: "offset", N: int64(lib.Pick(r, []int{-1, 1, 2}))}
		case 14:
			return &Op{K: "x_scopes", N: int64(r.Range(4, 12))}
		}
		if r.Chance(1, 5) {
			return &Op{K: "x_select_bad", Names: []string{col()}, N: int64(r.Intn(3))}
		}
		if r.Bool() {
			return &Op{K: "x_table", Names: []string{lib.Pick(r, []string{"ts", "us", "ts", "us", "empty", "empty", "expr", "alias"})}, N: int64(r.Range(0, 4))}
		}
		return &Op{K: "x_model", Names: []string{lib.Pick(r, []string{"T", "U"})}}
	}
	xfin0 := func() *Fin { return nil }
	xfin := func() *Fin {
		f := xfin0()
		switch r.Intn(8) { // some finishers only build (DryRun session / ToSQL)
		case 0:
			f.Dry = 1
		case 1:
			if f.K != "x_create_dry" && f.K != "x_update_dry" && f.K != "x_delete_dry" {
				f.Dry = 2
			}
		}
		return f
	}
	xfin0 = func() *Fin {
		m := lib.Pick(r, []string{"T", "U", "T", "U", "map"})
		switch r.Intn(13) {
		case 10:
			if m == "map" {
				m = "T"
			}
			return &Fin{K: "x_firstorinit", M: m}
		case 11:
			return &Fin{K: "x_update_dry", M: m, V: int64(r.Range(1, 9))}
		case 12:
			if m == "map" {
				m = "U"
			}
			return &Fin{K: "x_delete_dry", M: m}
		}
		switch r.Intn(10) {
		case 0, 1, 2:
			return &Fin{K: "x_find", M: m}
		case 3:
			if m == "map" {
				m = "T"
			}
			return &Fin{K: "x_first", M: m}
		case 4:
			if m == "map" {
				m = "U"
			}
			return &Fin{K: "x_take", M: m}
		case 5, 6:
			return &Fin{K: "x_count"}
		case 7:
			if m == "map" {
				m = "T"
			}
			return &Fin{K: "x_create_dry", M: m}
		case 8:
			return &Fin{K: "x_pluck", Name: col()}
		}
		if m == "map" {
			m = "T"
		}
		return &Fin{K: "x_scan", M: m}
	}
	// the handle
	cur := 0
	if r.Chance(1, 4) {
		// one handle used for two model types: Select by Go field name, no Model on the handle
		if r.Bool() {
			cur = push(Step{K: "derive", P: cur, Op: &Op{K: "x_where", Names: []string{col()}, N: int64(r.Range(0, 3))}})
		}
		cur = push(Step{K: "derive", P: cur, Op: &Op{K: "x_select", Names: lib.Pick(r, [][]string{{"K4"}, {"K4", "C1"}, {"ID", "K4"}, {"C2", "K4"}})}})
		if r.Bool() {
			cur = push(Step{K: "derive", P: cur, Op: &Op{K: "x_order", Names: []string{col()}, Re: r.Bool()}})
		}
		h := push(Step{K: "sess", P: cur, Sess: lib.Pick(r, []string{"plain", "plain", "ctx", "debug"})})
		for k := r.Range(3, 7); k > 0; k-- {
			m := lib.Pick(r, []string{"T", "U", "map"})
			from := h
			if m == "map" || r.Chance(1, 4) {
				from = push(Step{K: "derive", P: h, Op: &Op{K: "x_table", Names: []string{lib.Pick(r, []string{"ts", "us"})}}})
			}
			f := &Fin{K: lib.Pick(r, []string{"x_find", "x_find", "x_first", "x_take"}), M: m}
			if m == "map" {
				f.K = "x_find"
			}
			push(Step{K: "finish", P: from, Fin: f})
		}
		return in
	}
	if r.Chance(1, 4) {
		// the handle carries a table override (plain, aliased or a sub-query expression)
		cur = push(Step{K: "derive", P: cur, Op: &Op{K: "x_table", Names: []string{lib.Pick(r, []string{"ts", "us", "us", "alias", "expr"})}, N: int64(r.Range(0, 3))}})
	} else if r.Chance(5, 6) {
		cur = push(Step{K: "derive", P: cur, Op: &Op{K: "x_model", Names: []string{lib.Pick(r, []string{"T", "U"})}}})
	}
	for k := r.Range(1, 4); k > 0; k-- {
		cur = push(Step{K: "derive", P: cur, Op: xop()})
	}
	orFirst := r.Chance(1, 6)
	if orFirst {
		// a handle whose first condition is an OR alternative: SQL generation reorders (Where.Build)
		cur = push(Step{K: "derive", P: cur, Op: &Op{K: "x_or", Names: []string{col()}, N: int64(r.Range(0, 6))}})
		cur = push(Step{K: "derive", P: cur, Op: &Op{K: "x_where", Names: []string{col()}, N: int64(r.Range(0, 4))}})
	}
	xsess := func() string {
		if r.Chance(1, 3) {
			return randSess(r)
		}
		return lib.Pick(r, []string{"plain", "plain", "ctx", "debug", "skiphooks", "skiphooks", "dryrun", "queryfields", "fullsave",
			"allowglobal", "batchsize", "skipdeftx", "nonested", "skiphooks+queryfields", "dryrun+skiphooks", "queryfields+allowglobal+batchsize",
			"preparestmt", "preparestmt+skiphooks", "propagateunscoped", "propagateunscoped+newdb", "nowfunc", "logger"})
	}
	h := push(Step{K: "sess", P: cur, Sess: lib.Pick(r, []string{"plain", "plain", "plain", "ctx", "debug", "queryfields", "skiphooks"})})
	hs := []int{h}
	if orFirst {
		// executed from the handle, then the handle is a grouped condition of another chain, then used again
		push(Step{K: "finish", P: h, Fin: xfin()})
		c := push(Step{K: "derive", P: 0, Op: &Op{K: "x_model", Names: []string{lib.Pick(r, []string{"T", "U"})}}})
		c = push(Step{K: "derive", P: c, Op: &Op{K: "x_where_group", H: h, N: int64(r.Intn(3))}})
		push(Step{K: "finish", P: c, Fin: xfin()})
	}
	for k := r.Range(4, 9); k > 0; k-- {
		from := lib.Pick(r, hs)
		switch r.Intn(10) {
		case 8: // a child handle derived straight from the handle with some Session option; the parent is used again later
			c := push(Step{K: "sess", P: from, Sess: xsess()})
			if r.Bool() {
				push(Step{K: "finish", P: c, Fin: xfin()})
			}
			if r.Chance(1, 3) {
				hs = append(hs, c)
			}
		case 9: // Session{Initialized} gives a chain, used at once
			c := push(Step{K: "sess", P: from, Sess: lib.Pick(r, []string{"initialized", "initialized+skiphooks", "newdb"})})
			push(Step{K: "finish", P: c, Fin: xfin()})
		case 7: // a malformed call on a chain that is then abandoned
			push(Step{K: "derive", P: from, Op: &Op{K: "x_select_bad", Names: []string{col()}, N: int64(r.Intn(3))}})
		case 6: // the handle as a grouped condition of a chain started elsewhere; sometimes abandoned
			start := lib.Pick(r, append([]int{0, 0}, hs...))
			c := push(Step{K: "derive", P: start, Op: &Op{K: "x_where_group", H: from, N: int64(r.Intn(3))}})
			if r.Chance(2, 3) {
				push(Step{K: "finish", P: c, Fin: xfin()})
			}
		case 0, 1, 2: // a finisher straight from the handle
			push(Step{K: "finish", P: from, Fin: xfin()})
		case 3, 4: // a chain, then a finisher (or the chain is abandoned)
			c := push(Step{K: "derive", P: from, Op: xop()})
			if r.Bool() {
				c = push(Step{K: "derive", P: c, Op: xop()})
			}
			if r.Chance(5, 6) {
				push(Step{K: "finish", P: c, Fin: xfin()})
			}
		default: // a further handle
			c := push(Step{K: "derive", P: from, Op: xop()})
			hs = append(hs, push(Step{K: "sess", P: c, Sess: xsess()}))
		}
	}
	push(Step{K: "finish", P: h, Fin: xfin()})
	return in
}

func shape(in Input) string {
	var sb strings.Builder
	for _, s := range in.Steps {
		switch s.K {
		case "derive":
			fmt.Fprintf(&sb, "d%d%s,", s.P, (strings.TrimPrefix(s.Op.K, "x_") + "  ")[:2])
		case "sess":
			fmt.Fprintf(&sb, "s%d%s,", s.P, s.Sess[:1])
		case "finish":
			fmt.Fprintf(&sb, "f%d%s%s,", s.P, (strings.TrimPrefix(s.Fin.K, "x_") + "  ")[:2], s.Fin.M)
		default:
			fmt.Fprintf(&sb, "a%d,", s.P)
		}
	}
	return sb.String()
}

// nontrivial: some state-carrying reusable handle starts >= 2 chains and a finisher runs after both started
func nontrivial(in Input) bool {
	t := newTracker()
	children := map[int]int{}
	fins := 0
	for _, s := range in.Steps {
		p := s.P
		if p >= 0 && p < len(t.hs) && t.hs[p].reusable && p > 0 && !t.hs[p].newdb && (s.K == "derive" || s.K == "finish") {
			children[p]++
		}
		if s.K == "finish" {
			fins++
		}
		t.step(s)
	}
	for _, n := range children {
		if n >= 2 && fins >= 1 {
			return true
		}
	}
	return false
}

func readInput(path string) Input {
	b, err := os.ReadFile(path)
	lib.Must(err)
	var c struct {
		Case struct {
			Input Input `json:"input"`
		} `json:"case"`
	}
	lib.Must(json.Unmarshal(b, &c))
	return c.Case.Input
}

func main() {
	a := lib.ParseArgs()
	out := lib.NewOut(a.Out, "C06")
	out.PerFile = 40

	add := func(kind string, in Input) {
		var o Obs
		func() {
			// last resort: whatever escapes the per-call guards is still an observation of THIS case
			defer func() {
				if r := recover(); r != nil {
					o = Obs{Fins: []FinObs{{Step: -1, SQL: "CRASH " + ptrRe.ReplaceAllString(fmt.Sprint(r), "0xPTR"), Err: "the history crashed"}}}
				}
			}()
			if in.Exec {
				o = runExec(in)
			} else {
				o = runHistory(in)
			}
		}()
		out.Add(lib.Case{Term: term(in, o), JSON: map[string]interface{}{"input": in, "observed": o},
			Sig: sig(in), Kind: kind, Shape: shape(in), Nontriv: nontrivial(in)})
		out.Count("steps", fmt.Sprint(len(in.Steps)/10*10))
		out.Count("finishers", fmt.Sprint(len(o.Fins)))
		nd, ns := 0, 0
		for _, s := range in.Steps {
			switch s.K {
			case "derive":
				nd++
				out.Count("ops", s.Op.K)
			case "sess":
				ns++
				out.Count("sessions", s.Sess)
			case "finish":
				out.Count("finisher_kinds", s.Fin.K)
			}
		}
		out.Count("sessions_per_history", fmt.Sprint(ns))
		shared := 0
		for _, h := range o.Final {
			for _, s := range h.Sl {
				if !s.Nil && s.Cap > s.Len {
					shared++
				}
			}
		}
		out.Count("slices_with_spare_capacity", fmt.Sprint(shared/10*10))
		for _, f := range o.Fins {
			if f.Err != "" {
				out.Count("finisher_errors", f.Err)
			}
		}
	}

	if a.Replay != "" {
		add("replay", readInput(a.Replay))
		lib.Must(out.Flush())
		return
	}
	for _, f := range lib.CorpusFiles(a.Corpus) {
		add("corpus", readInput(f))
	}
	r := lib.NewRng(a.Seed)
	budget := 300
	if a.Tier == "thorough" {
		budget = 4000
	}
	if a.N > 0 {
		budget = a.N
	}
	for i := 0; i < budget; i++ {
		edge := r.Chance(15, 100)
		n := r.Range(20, 60)
		kind := "main"
		if edge {
			kind = "edge"
		}
		add(kind, genHistory(r.Fork(), n, edge))
	}
	// witness patterns: k merges of one appendable clause -> Session-like -> two children add one more
	// each -> both finish (the Returning instance of this pattern is the known finding, kept in corpus/)
	npat := 176
	if a.Tier == "thorough" {
		npat = 400
	}
	if a.N > 0 {
		npat = a.N / 6
	}
	for i := 0; i < npat; i++ {
		add("pattern", genPattern(r.Fork()))
	}
	// executed stream (real SQLite through the recording driver; specification only)
	nexec := 220
	if a.Tier == "thorough" {
		nexec = 1500
	}
	if a.N > 0 {
		nexec = a.N / 3
	}
	// fork cases: every (chain method, argument form) on a chain forked from a judged handle, every run
	nfork, per := 72, 4
	if a.Tier == "thorough" {
		nfork = 400
	}
	if a.N > 0 {
		nfork = a.N / 10
	}
	for i := 0; i < nfork; i++ {
		add("fork", genFork(r.Fork(), i, per))
	}
	for i := 0; i < nexec; i++ {
		add("exec", genExec(r.Fork()))
	}
	out.Extra["rule"] = "case = a history of 20..60 steps over a tree of handles (Open, Session{}, Session{NewDB}, WithContext, Debug, Begin) on DummyDialector in DryRun: chain methods Where(string|map)/Or/Not/Having/Group/Order/Clauses(OrderBy,Returning,Locking,OnConflict,From)/Limit/Offset/Select(string|[]string)/Distinct/Omit/Joins/Scopes/Unscoped/Table/Model, Preload(P1..P3 with/without condition)/Set, Session options in arbitrary combinations (NewDB, Context carrying a tag, SkipHooks, statement-neutral ones), finishers Find/First/Take/Update/Delete from any live handle at any time; observed per finisher and per handle also context tag, SkipHooks, Preloads entries (+ identity of the map object per handle) and Settings entries; only handles from Open/Session/WithContext/Debug/Begin are reused, a chain result is continued linearly; edge stream: caller slices with spare capacity, empty/nil Returning; pattern stream: k merges of one appendable clause / k preloads / k settings -> Session/WithContext/Debug/Begin/tagged context/SkipHooks -> two children add one more each -> both finish, or (sessopt) child handles derived with NewDB/Context/SkipHooks combinations are left unused or used once and the handle is judged; corpus: the fixed Returning / caller-slice / group-condition defects; distinct = distinct step-kind sequences; non-trivial = a state-carrying reusable handle starts >= 2 chains/finishers and at least one finisher runs"
	lib.Must(out.Flush())
}
