package main

// Session / transaction plumbing of prepared-statement mode (gorm.go DB.Session, DB.DB;
// finisher_api.go Begin / Commit / Rollback / Transaction / SavePoint / RollbackTo / Connection;
// prepare_stmt.go BeginTx, PreparedStmtTX.Commit/Rollback, GetDBConn, Ping): a handle is derived
// from a plain or a prepared-mode handle by a list of steps, one or two INSERTs are executed through
// it, open transactions are finished.  Every program is run twice: as given, and in NON-prepared
// mode (plain base, Session{PrepareStmt} replaced by Session{}); observed at the recording driver
// and in the table: did the first INSERT run on a connection inside a transaction, through a
// prepared statement, which rows are left, how many calls failed.

import (
	"database/sql"
	"errors"
	"fmt"
	"reflect"
	"strings"
	"sync/atomic"
	"time"

	"gorm.io/driver/sqlite"
	"gorm.io/gorm"
	"gorm.io/gorm/logger"

	"verifharness/lib"
	"verifharness/recdrv"
)

type PlumbIn struct {
	Base string `json:"base"` // plain | prepared
	// sess | sessprep | sessnonest | begin | beginopt | beginfault | block | blockok | blockfault | conn
	Steps  []string `json:"steps"`
	Body   string   `json:"body,omitempty"`   // "" = one INSERT | sp = INSERT a; SavePoint; INSERT b; RollbackTo
	Finish string   `json:"finish,omitempty"` // "" = rollback | commit   (how begin* steps end)
	// Warm: the statement texts of the body (INSERT and the SELECT that reads it back) are first
	// executed on the base handle, outside any transaction (in prepared mode: cached as pool-level entries)
	Warm bool `json:"warm,omitempty"`
}

type PlumbRun struct {
	InTx     bool     `json:"in_tx"`
	Prepared bool     `json:"prepared"`
	Survived int      `json:"survived"`
	Errs     []string `json:"errs,omitempty"`
	DBOk     bool     `json:"db_ok"` // DB() of the derived handle returned the pool's *sql.DB
	Seen     int64    `json:"seen"`  // rows of its own INSERT the derived handle reads back right after it (-1: query failed)
}

type PlumbObs struct {
	PlumbRun
	// later uses of the same statement text: non-prepared, fresh prepared-mode session, prepared-mode transaction
	ReuseErrs []string `json:"reuse_errs,omitempty"`
	Ref       PlumbRun `json:"reference"`
}

var markSeq int64 = 1000

var errRollback = errors.New("verif: roll the block back")
var errBegin = errors.New("verif: injected BEGIN failure")

const insMark = "INSERT INTO marks (id) VALUES (?)"
const selMark = "SELECT count(*) FROM marks WHERE id = ?"

// exotic: forms outside the small Coq model (judged against the reference run only)
func (in PlumbIn) exotic() bool {
	if in.Body != "" || in.Finish != "" || in.Warm {
		return true
	}
	tx := false
	for _, s := range in.Steps {
		switch s {
		case "beginopt", "beginfault", "blockok", "blockfault", "sessnonest":
			return true
		case "begin", "block":
			if tx {
				return true
			}
			tx = true
		case "conn":
			if tx {
				return true
			}
		}
	}
	return false
}

func (in PlumbIn) reference() PlumbIn {
	r := PlumbIn{Base: "plain", Body: in.Body, Finish: in.Finish, Warm: in.Warm}
	for _, s := range in.Steps {
		if s == "sessprep" {
			s = "sess"
		}
		r.Steps = append(r.Steps, s)
	}
	return r
}

// runPlumbOnce executes one program on a fresh pair of handles.
func (e *env) runPlumbOnce(in PlumbIn, reuse *[]string) PlumbRun {
	var o PlumbRun
	// a short busy timeout: a statement that lands outside its transaction must fail fast, not stall
	sqlDB, rec := recdrv.Open(strings.Replace(e.dsn, "_busy_timeout=5000", "_busy_timeout=200", 1))
	defer sqlDB.Close()
	db, err := gorm.Open(sqlite.Dialector{Conn: sqlDB}, &gorm.Config{Logger: logger.Discard, PrepareStmt: in.Base == "prepared"})
	lib.Must(err)
	id := atomic.AddInt64(&markSeq, 10)
	fail := func(what string, err error) {
		if err != nil {
			o.Errs = append(o.Errs, what+": "+err.Error())
		}
	}
	seenFirst := false
	insert := func(h *gorm.DB, id int64) {
		rec.Reset()
		fail("insert", h.Exec(insMark, id).Error)
		if seenFirst {
			return
		}
		for _, ev := range rec.Snapshot() {
			if (ev.Kind == "exec" || ev.Kind == "stmt_exec") && strings.Contains(ev.Query, "INSERT INTO marks") && ev.Err == "" {
				o.InTx = ev.Tx != 0
				o.Prepared = ev.Kind == "stmt_exec"
				seenFirst = true
			}
		}
	}
	// the transaction object behind a handle, taken when the transaction starts: after the program's
	// own Commit/Rollback it must be finished; if it is not, that is an observation (and it is
	// rolled back here so that it cannot block the programs that follow)
	rawTx := func(h *gorm.DB) interface{ Rollback() error } {
		switch t := h.Statement.ConnPool.(type) {
		case *sql.Tx:
			if t != nil {
				return t
			}
		case *gorm.PreparedStmtTX:
			if t != nil && t.Tx != nil && !reflect.ValueOf(t.Tx).IsNil() {
				return t.Tx
			}
		}
		return nil
	}
	mustBeFinished := func(raw interface{ Rollback() error }) {
		if raw != nil && raw.Rollback() == nil {
			fail("transaction", errors.New("left open after its Commit/Rollback"))
		}
	}
	finish := func(tx *gorm.DB, raw interface{ Rollback() error }) {
		if in.Finish == "commit" {
			fail("commit", tx.Commit().Error)
		} else {
			fail("rollback", tx.Rollback().Error)
		}
		mustBeFinished(raw)
	}
	var walk func(h *gorm.DB, steps []string, inTx bool)
	walk = func(h *gorm.DB, steps []string, inTx bool) {
		if len(steps) == 0 {
			// the handle must know its *sql.DB, and its pool must answer Ping, in both modes
			// (inside a Connection block DB() reports ErrInvalidDB without the cache, too)
			if d, err := h.DB(); err == nil && d == sqlDB {
				o.DBOk = true
			}
			if p, ok := h.Statement.ConnPool.(interface{ Ping() error }); ok {
				fail("ping", p.Ping())
			}
			insert(h, id)
			// read your own write through the same handle (inside a transaction: before it ends)
			o.Seen = -1
			var seen int64
			if err := h.Raw(selMark, id).Scan(&seen).Error; err == nil {
				o.Seen = seen
			} else {
				fail("select", err)
			}
			if in.Body == "sp" {
				fail("savepoint", h.SavePoint("sp1").Error)
				insert(h, id+1)
				fail("rollbackto", h.RollbackTo("sp1").Error)
			}
			return
		}
		rest := steps[1:]
		switch steps[0] {
		case "sess":
			walk(h.Session(&gorm.Session{}), rest, inTx)
		case "sessprep":
			walk(h.Session(&gorm.Session{PrepareStmt: true}), rest, inTx)
		case "sessnonest":
			walk(h.Session(&gorm.Session{DisableNestedTransaction: true}), rest, inTx)
		case "blockfault":
			rec.Fault = func(idx int, ev *recdrv.Event) error {
				if ev.Kind == "begin" {
					return errBegin
				}
				return nil
			}
			called := false
			var raw interface{ Rollback() error }
			err := h.Transaction(func(tx *gorm.DB) error {
				called = true
				rec.Fault = nil
				if !inTx {
					raw = rawTx(tx)
				}
				walk(tx, rest, true)
				return nil
			})
			rec.Fault = nil
			mustBeFinished(raw)
			if !inTx && (err == nil || called) {
				fail("transaction", fmt.Errorf("BEGIN failed but the block ran (%v, %v)", called, err))
			}
			if err != nil {
				fail("transaction", err)
			}
		case "begin", "beginopt", "beginfault":
			var tx *gorm.DB
			switch steps[0] {
			case "beginopt":
				tx = h.Begin(&sql.TxOptions{Isolation: sql.LevelDefault})
			case "beginfault":
				rec.Fault = func(idx int, ev *recdrv.Event) error {
					if ev.Kind == "begin" {
						return errBegin
					}
					return nil
				}
				tx = h.Begin()
				rec.Fault = nil
			default:
				tx = h.Begin()
			}
			fail("begin", tx.Error)
			raw := rawTx(tx)
			walk(tx, rest, true)
			finish(tx, raw)
		case "block", "blockok":
			ret := errRollback
			if steps[0] == "blockok" {
				ret = nil
			}
			var raw interface{ Rollback() error }
			err := h.Transaction(func(tx *gorm.DB) error {
				if !inTx {
					raw = rawTx(tx)
				}
				walk(tx, rest, true)
				return ret
			})
			if !errors.Is(err, ret) {
				fail("transaction", fmt.Errorf("unexpected result %v", err))
			}
			mustBeFinished(raw)
		case "conn":
			fail("connection", h.Connection(func(tx *gorm.DB) error {
				walk(tx, rest, false)
				return nil
			}))
		}
	}
	if in.Warm {
		wh := db
		if in.Base != "prepared" {
			for _, st := range in.Steps {
				if st == "sessprep" {
					wh = db.Session(&gorm.Session{PrepareStmt: true})
					break
				}
			}
		}
		var n0 int64
		fail("warm select", wh.Raw(selMark, id+5).Scan(&n0).Error)
		fail("warm insert", wh.Exec(insMark, id+5).Error)
	}
	walk(db, in.Steps, false)
	plain, err := gorm.Open(sqlite.Dialector{Conn: sqlDB}, &gorm.Config{Logger: logger.Discard})
	lib.Must(err)
	var n int64
	fail("count", plain.Raw("SELECT count(*) FROM marks WHERE id IN (?, ?)", id, id+1).Scan(&n).Error)
	o.Survived = int(n)
	if reuse != nil {
		// the same text again: without the cache, from a fresh prepared-mode session, and inside a
		// prepared-mode transaction -- all three must work alike
		again := func(what string, err error) {
			if err != nil {
				*reuse = append(*reuse, what+": "+err.Error())
			}
		}
		again("non-prepared", plain.Exec(insMark, id+2).Error)
		again("prepared session", db.Session(&gorm.Session{PrepareStmt: true}).Exec(insMark, id+3).Error)
		ptx := db.Session(&gorm.Session{PrepareStmt: true}).Begin()
		again("prepared transaction: begin", ptx.Error)
		again("prepared transaction", ptx.Exec(insMark, id+4).Error)
		again("prepared transaction: rollback", ptx.Rollback().Error)
	}
	fail("cleanup", plain.Exec("DELETE FROM marks WHERE id BETWEEN ? AND ?", id, id+9).Error)
	return o
}

// watchdog: a program that does not finish is a failing observation, not a stalled run
func (e *env) runPlumbGuarded(in PlumbIn, reuse *[]string) PlumbRun {
	done := make(chan PlumbRun, 1)
	var mine []string
	go func() {
		defer func() {
			if p := recover(); p != nil {
				done <- PlumbRun{Errs: []string{fmt.Sprint("panic: ", p)}}
			}
		}()
		done <- e.runPlumbOnce(in, &mine)
	}()
	select {
	case r := <-done:
		if reuse != nil {
			*reuse = mine
		}
		return r
	case <-time.After(8 * time.Second):
		return PlumbRun{Errs: []string{"watchdog: the program did not finish within 8 s"}}
	}
}

func (e *env) runPlumb(in PlumbIn) PlumbObs {
	var o PlumbObs
	o.PlumbRun = e.runPlumbGuarded(in, &o.ReuseErrs)
	o.Ref = e.runPlumbGuarded(in.reference(), nil)
	if o.Seen != o.Ref.Seen {
		o.Errs = append(o.Errs, fmt.Sprintf("the derived handle reads its own INSERT back %d time(s), %d without the cache", o.Seen, o.Ref.Seen))
	}
	if o.Ref.DBOk && !o.DBOk {
		o.Errs = append(o.Errs, "DB(): the handle knows its *sql.DB without the cache but not with it")
	}
	return o
}

func gPlumb(in PlumbIn, o PlumbObs) string {
	steps := lib.ListOf(in.Steps, func(s string) string {
		switch s {
		case "sess", "sessnonest":
			return "PSess"
		case "sessprep":
			return "PSessPrep"
		case "conn":
			return "PConn"
		}
		return "PBegin"
	})
	return lib.App("mk_plumb", lib.Bool(in.Base == "prepared"), steps, lib.Bool(o.InTx), lib.Bool(o.Prepared),
		lib.Nat(o.Survived), lib.Nat(len(o.Errs)), lib.Nat(len(o.ReuseErrs)),
		lib.Bool(o.Ref.InTx), lib.Nat(o.Ref.Survived), lib.Nat(len(o.Ref.Errs)), lib.Bool(in.exotic()))
}

// allPlumb enumerates every step list of length <= maxLen over the small vocabulary, with at most
// one begin/block and at most one Connection block (not inside a transaction): the modelled forms.
func allPlumb(maxLen int) []PlumbIn {
	var out []PlumbIn
	var rec func(prefix []string, hasTx, hasConn bool)
	rec = func(prefix []string, hasTx, hasConn bool) {
		for _, b := range []string{"plain", "prepared"} {
			out = append(out, PlumbIn{Base: b, Steps: append([]string{}, prefix...)})
		}
		if len(prefix) == maxLen {
			return
		}
		for _, s := range []string{"sess", "sessprep", "begin", "block", "conn"} {
			tx := s == "begin" || s == "block"
			if tx && hasTx || s == "conn" && (hasTx || hasConn) {
				continue
			}
			rec(append(append([]string{}, prefix...), s), hasTx || tx, hasConn || s == "conn")
		}
	}
	rec(nil, false, false)
	return out
}

// exoticPlumb: every step list of length <= maxLen over the full vocabulary that is NOT one of the
// modelled forms, in prepared mode (prepared base, or a Session{PrepareStmt} somewhere), with both
// ways of finishing and, inside a transaction, the save-point body.
func exoticPlumb(maxLen int) []PlumbIn {
	vocab := []string{"sess", "sessprep", "sessnonest", "begin", "beginopt", "beginfault", "block", "blockok", "blockfault", "conn"}
	var out []PlumbIn
	var rec func(prefix []string)
	rec = func(prefix []string) {
		if len(prefix) > 0 {
			inTx, hasPrep, hasBegin := false, false, false
			for _, s := range prefix {
				switch s {
				case "begin", "beginopt", "beginfault":
					hasBegin = true
					inTx = s != "beginfault"
				case "block", "blockok":
					inTx = true
				case "conn":
					inTx = false
				case "sessprep":
					hasPrep = true
				}
			}
			bases := []string{"prepared"}
			if hasPrep {
				bases = append(bases, "plain")
			}
			for _, b := range bases {
				for _, fin := range []string{"", "commit"} {
					if fin == "commit" && !hasBegin {
						continue
					}
					for _, body := range []string{"", "sp"} {
						if body == "sp" && !inTx {
							continue
						}
						in := PlumbIn{Base: b, Steps: append([]string{}, prefix...), Body: body, Finish: fin}
						if in.exotic() {
							out = append(out, in)
						}
					}
				}
			}
		}
		if len(prefix) == maxLen {
			return
		}
		for _, s := range vocab {
			rec(append(append([]string{}, prefix...), s))
		}
	}
	rec(nil)
	return out
}
