package main

// Session plumbing of prepared-statement mode (gorm.go DB.Session, finisher_api.go Begin /
// Transaction): a handle is derived from a plain or a prepared-mode handle by a list of steps
// (Session{}, Session{PrepareStmt:true}, Begin or Transaction block), one INSERT is executed
// through it, and an open transaction is rolled back.  Observed at the recording driver: whether
// the INSERT ran on a connection inside a transaction, whether it went through a prepared
// statement; afterwards: whether the row is there.

import (
	"errors"
	"fmt"
	"strings"
	"sync/atomic"

	"gorm.io/driver/sqlite"
	"gorm.io/gorm"
	"gorm.io/gorm/logger"

	"verifharness/lib"
	"verifharness/recdrv"
)

type PlumbIn struct {
	Base  string   `json:"base"`  // plain | prepared
	Steps []string `json:"steps"` // sess | sessprep | begin | block
}

type PlumbObs struct {
	InTx     bool     `json:"in_tx"`
	Prepared bool     `json:"prepared"`
	Survived int      `json:"survived"`
	Errs     []string `json:"errs,omitempty"`
}

var markSeq int64 = 1000

var errRollback = errors.New("verif: roll the block back")

func (e *env) runPlumb(in PlumbIn) PlumbObs {
	var o PlumbObs
	sqlDB, rec := recdrv.Open(e.dsn)
	defer sqlDB.Close()
	db, err := gorm.Open(sqlite.Dialector{Conn: sqlDB}, &gorm.Config{Logger: logger.Discard, PrepareStmt: in.Base == "prepared"})
	lib.Must(err)
	id := atomic.AddInt64(&markSeq, 1)
	fail := func(what string, err error) {
		if err != nil {
			o.Errs = append(o.Errs, what+": "+err.Error())
		}
	}
	var began *gorm.DB
	var walk func(h *gorm.DB, steps []string) error
	walk = func(h *gorm.DB, steps []string) error {
		if len(steps) == 0 {
			rec.Reset()
			err := h.Exec("INSERT INTO marks (id) VALUES (?)", id).Error
			fail("insert", err)
			for _, ev := range rec.Snapshot() {
				if (ev.Kind == "exec" || ev.Kind == "stmt_exec") && strings.Contains(ev.Query, "INSERT INTO marks") {
					o.InTx = ev.Tx != 0
					o.Prepared = ev.Kind == "stmt_exec"
				}
			}
			return nil
		}
		switch steps[0] {
		case "sess":
			return walk(h.Session(&gorm.Session{}), steps[1:])
		case "sessprep":
			return walk(h.Session(&gorm.Session{PrepareStmt: true}), steps[1:])
		case "begin":
			tx := h.Begin()
			fail("begin", tx.Error)
			began = tx
			return walk(tx, steps[1:])
		case "block":
			err := h.Transaction(func(tx *gorm.DB) error {
				walk(tx, steps[1:])
				return errRollback
			})
			if !errors.Is(err, errRollback) {
				fail("transaction", fmt.Errorf("unexpected result %v", err))
			}
			return nil
		}
		return nil
	}
	walk(db, in.Steps)
	if began != nil {
		fail("rollback", began.Rollback().Error)
	}
	var n int64
	fail("count", db.Raw("SELECT count(*) FROM marks WHERE id = ?", id).Scan(&n).Error)
	o.Survived = int(n)
	fail("cleanup", db.Exec("DELETE FROM marks WHERE id = ?", id).Error)
	return o
}

func gPlumb(in PlumbIn, o PlumbObs) string {
	steps := lib.ListOf(in.Steps, func(s string) string {
		switch s {
		case "sess":
			return "PSess"
		case "sessprep":
			return "PSessPrep"
		}
		return "PBegin"
	})
	return lib.App("mk_plumb", lib.Bool(in.Base == "prepared"), steps, lib.Bool(o.InTx), lib.Bool(o.Prepared),
		lib.Nat(o.Survived), lib.Nat(len(o.Errs)))
}

// allPlumb enumerates every step list of length <= maxLen with at most one begin/block.
func allPlumb(maxLen int) []PlumbIn {
	var out []PlumbIn
	var rec func(prefix []string, hasTx bool)
	rec = func(prefix []string, hasTx bool) {
		for _, b := range []string{"plain", "prepared"} {
			out = append(out, PlumbIn{Base: b, Steps: append([]string{}, prefix...)})
		}
		if len(prefix) == maxLen {
			return
		}
		for _, s := range []string{"sess", "sessprep", "begin", "block"} {
			tx := s == "begin" || s == "block"
			if tx && hasTx {
				continue
			}
			rec(append(append([]string{}, prefix...), s), hasTx || tx)
		}
	}
	rec(nil, false)
	return out
}
