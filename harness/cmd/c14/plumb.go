package main

// Session plumbing of prepared-statement mode (gorm.go DB.Session, finisher_api.go Begin /
// Transaction): a handle is derived from a plain or a prepared-mode handle by a list of steps
// (Session{}, Session{PrepareStmt:true}, Begin or Transaction block), one INSERT is executed
// through it, and an open transaction is rolled back.  Observed at the recording driver: whether
// the INSERT ran on a connection inside a transaction, whether it went through a prepared
// statement; afterwards: whether the row is there.

import (
	"errors"
	"fmt"
	"strings"
	"sync/atomic"

	"gorm.io/driver/sqlite"
	"gorm.io/gorm"
	"gorm.io/gorm/logger"

	"verifharness/lib"
	"verifharness/recdrv"
)

type PlumbIn struct {
	Base  string   `json:"base"`  // plain | prepared
	Steps []string `json:"steps"` // sess | sessprep | begin | block | conn
}

type PlumbObs struct {
	InTx     bool     `json:"in_tx"`
	Prepared bool     `json:"prepared"`
	Survived int      `json:"survived"`
	Errs     []string `json:"errs,omitempty"`
	// later uses of the same statement text: non-prepared, fresh prepared-mode session, prepared-mode transaction
	ReuseErrs []string `json:"reuse_errs,omitempty"`
}

var markSeq int64 = 1000

var errRollback = errors.New("verif: roll the block back")

func (e *env) runPlumb(in PlumbIn) PlumbObs {
	var o PlumbObs
	sqlDB, rec := recdrv.Open(e.dsn)
	defer sqlDB.Close()
	db, err := gorm.Open(sqlite.Dialector{Conn: sqlDB}, &gorm.Config{Logger: logger.Discard, PrepareStmt: in.Base == "prepared"})
	lib.Must(err)
	id := atomic.AddInt64(&markSeq, 10)
	fail := func(what string, err error) {
		if err != nil {
			o.Errs = append(o.Errs, what+": "+err.Error())
		}
	}
	var walk func(h *gorm.DB, steps []string) error
	walk = func(h *gorm.DB, steps []string) error {
		if len(steps) == 0 {
			rec.Reset()
			err := h.Exec("INSERT INTO marks (id) VALUES (?)", id).Error
			fail("insert", err)
			for _, ev := range rec.Snapshot() {
				if (ev.Kind == "exec" || ev.Kind == "stmt_exec") && strings.Contains(ev.Query, "INSERT INTO marks") {
					o.InTx = ev.Tx != 0
					o.Prepared = ev.Kind == "stmt_exec"
				}
			}
			return nil
		}
		switch steps[0] {
		case "sess":
			return walk(h.Session(&gorm.Session{}), steps[1:])
		case "sessprep":
			return walk(h.Session(&gorm.Session{PrepareStmt: true}), steps[1:])
		case "begin":
			tx := h.Begin()
			fail("begin", tx.Error)
			walk(tx, steps[1:])
			fail("rollback", tx.Rollback().Error)
			return nil
		case "conn":
			fail("connection", h.Connection(func(tx *gorm.DB) error {
				walk(tx, steps[1:])
				return nil
			}))
			return nil
		case "block":
			err := h.Transaction(func(tx *gorm.DB) error {
				walk(tx, steps[1:])
				return errRollback
			})
			if !errors.Is(err, errRollback) {
				fail("transaction", fmt.Errorf("unexpected result %v", err))
			}
			return nil
		}
		return nil
	}
	walk(db, in.Steps)
	var n int64
	fail("count", db.Raw("SELECT count(*) FROM marks WHERE id = ?", id).Scan(&n).Error)
	o.Survived = int(n)
	// the same text again: without the cache, from a fresh prepared-mode session, and inside a
	// prepared-mode transaction -- all three must work alike
	reuse := func(what string, err error) {
		if err != nil {
			o.ReuseErrs = append(o.ReuseErrs, what+": "+err.Error())
		}
	}
	plain, err := gorm.Open(sqlite.Dialector{Conn: sqlDB}, &gorm.Config{Logger: logger.Discard})
	lib.Must(err)
	const ins = "INSERT INTO marks (id) VALUES (?)"
	reuse("non-prepared", plain.Exec(ins, id+1).Error)
	reuse("prepared session", db.Session(&gorm.Session{PrepareStmt: true}).Exec(ins, id+2).Error)
	ptx := db.Session(&gorm.Session{PrepareStmt: true}).Begin()
	reuse("prepared transaction: begin", ptx.Error)
	reuse("prepared transaction", ptx.Exec(ins, id+3).Error)
	reuse("prepared transaction: rollback", ptx.Rollback().Error)
	fail("cleanup", plain.Exec("DELETE FROM marks WHERE id BETWEEN ? AND ?", id, id+9).Error)
	return o
}

func gPlumb(in PlumbIn, o PlumbObs) string {
	steps := lib.ListOf(in.Steps, func(s string) string {
		switch s {
		case "sess":
			return "PSess"
		case "sessprep":
			return "PSessPrep"
		case "conn":
			return "PConn"
		}
		return "PBegin"
	})
	return lib.App("mk_plumb", lib.Bool(in.Base == "prepared"), steps, lib.Bool(o.InTx), lib.Bool(o.Prepared),
		lib.Nat(o.Survived), lib.Nat(len(o.Errs)), lib.Nat(len(o.ReuseErrs)))
}

// allPlumb enumerates every step list of length <= maxLen with at most one begin/block and at
// most one Connection block (not inside a transaction).
func allPlumb(maxLen int) []PlumbIn {
	var out []PlumbIn
	var rec func(prefix []string, hasTx, hasConn bool)
	rec = func(prefix []string, hasTx, hasConn bool) {
		for _, b := range []string{"plain", "prepared"} {
			out = append(out, PlumbIn{Base: b, Steps: append([]string{}, prefix...)})
		}
		if len(prefix) == maxLen {
			return
		}
		for _, s := range []string{"sess", "sessprep", "begin", "block", "conn"} {
			tx := s == "begin" || s == "block"
			if tx && hasTx || s == "conn" && (hasTx || hasConn) {
				continue
			}
			rec(append(append([]string{}, prefix...), s), hasTx || tx, hasConn || s == "conn")
		}
	}
	rec(nil, false, false)
	return out
}
