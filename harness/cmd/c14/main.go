// c14: the prepared-statement cache is transparent, leak-free and safe in any interleaving.
// Runs small concurrent programs (<= 4 goroutines: Query/Exec/Row directly and inside
// transactions, Reset, Close) on the real gorm PreparedStmtDB over SQLite, with the order in
// which Prepare calls and driver executions complete (and their outcome: ok / Prepare failure /
// driver.ErrBadConn / other error) dictated by a script, and writes per case the programs, the
// recorded coarse schedule and the final observations as a Gallina term for C14_Check.check_case.
package main

import (
	"bytes"
	"context"
	"database/sql"
	"database/sql/driver"
	"encoding/json"
	"errors"
	"fmt"
	"os"
	"os/exec"
	"path/filepath"
	"sort"
	"strings"
	"time"

	"gorm.io/driver/sqlite"
	"gorm.io/gorm"
	"gorm.io/gorm/logger"

	"verifharness/lib"
	"verifharness/recdrv"
)

type Op struct {
	K  string `json:"k"` // query | exec | row | reset | close
	Q  int    `json:"q"`
	Tx bool   `json:"tx,omitempty"`
}

type Input struct {
	Progs  [][]Op `json:"progs"`  // the last program is always [close] and runs after all others
	Script []Step `json:"script"` // decision k releases the (pick mod n)-th parked call with outcome out; pick -1 = start all waiting goroutines at once
	// MaxConns > 0 bounds the connection pool (corpus only: the model assumes that a driver
	// call never waits for a connection held by a goroutine that is blocked on the cache)
	MaxConns int `json:"max_conns,omitempty"`
	// Handles[i] = how goroutine i reaches the cache: "" / "root" = the handle opened with
	// PrepareStmt:true; "session" = its own db.Session(&gorm.Session{PrepareStmt:true}) value
	// (a distinct PreparedStmtDB struct that must share map AND lock with the root cache)
	Handles []string `json:"handles,omitempty"`
	// Plumb != nil: a session-plumbing case (plumb.go) instead of a schedule case
	Plumb *PlumbIn `json:"plumb,omitempty"`
}

type Obs struct {
	Trace     []Ev     `json:"trace"`
	Hang      bool     `json:"hang"`
	Leaked    int      `json:"leaked"`
	OpenStmts int      `json:"open_stmts"`
	WrongRows int      `json:"wrong_rows"`
	Notes     []string `json:"notes,omitempty"`
	Races     int      `json:"races"` // data race reports written by the race detector during the case
	Plumb     *PlumbObs `json:"plumb,omitempty"`
	// quiet points: at these positions of the trace every goroutine was parked or blocked (gate.go)
	Quiets    []Quiet  `json:"quiets,omitempty"`
	Probes    int      `json:"-"`
	Widths    []int    `json:"-"`
}

// modelGuard selects the variant of the Coq model the cases are checked against: false =
// prepare_stmt.go with unconditional delete(Stmts, query); true = guarded deletes (the proposed
// patch).  It is set once per run by probeGuard.
var modelGuard = false

// resetInPlace: Reset() empties the shared map instead of installing a new one (so that session
// handles see it); probed once per run like modelGuard, only to decide whether an input with a
// session handle next to a Reset still carries the signature of the known finding.
var resetInPlace = false

func probeResetInPlace(e *env) bool {
	q := Op{K: "query", Q: 0}
	in := Input{Progs: [][]Op{{q, q}, {{K: "reset"}}, {{K: "close"}}}, Handles: []string{"session", "root", "root"},
		Script: []Step{{Pick: 0}, {Pick: 0}, {Pick: 0}, {Pick: 1}, {Pick: 0}, {Pick: 0}, {Pick: 0}, {Pick: 0}}}
	o := e.run(in)
	// after a reset that the session handle sees, its second use has to prepare the text again
	// (with the stale map it finds the old entry: one Prepare call only) -- independent of timing
	n := 0
	for _, ev := range o.Trace {
		if ev.K == "prepcall" {
			n++
		}
	}
	return !o.Hang && n == 2
}

// probeGuard replays the deterministic stale-delete schedule (ErrBadConn of a goroutine whose
// entry was reset away deletes the newer entry): if the newer statement survives in the cache and
// is closed by the final Close, the code has guarded deletes.  Every case of the run, including
// the corpus witnesses of both delete paths, is then checked against that variant of the model.
func probeGuard(e *env) bool {
	q := Op{K: "query", Q: 0}
	in := Input{Progs: [][]Op{{q}, {{K: "reset"}}, {q}, {{K: "close"}}},
		Script: []Step{{Pick: 0}, {Pick: 0}, {Pick: 1}, {Pick: 1}, {Pick: 1}, {Pick: 1}, {Pick: 0, Out: 1}, {Pick: 0}}}
	o := e.run(in)
	return !o.Hang && o.Leaked == 0
}

var texts = []string{
	"SELECT v FROM items WHERE id >= ? ORDER BY id",
	"SELECT id FROM items WHERE v >= ? ORDER BY id",
	"SELECT count(*) FROM items WHERE id <> ?",
}
var argsOf = []int64{2, 20, 1}

type env struct {
	dir     string
	raceLog string
	dsn  string
	refs [][]int64 // rows of every text without the cache
}

func setup(dir string) *env {
	path := filepath.Join(dir, "c14.db")
	for _, suf := range []string{"", "-wal", "-shm"} {
		os.Remove(path + suf)
	}
	e := &env{dir: dir, dsn: "file:" + path + "?_journal_mode=WAL&_busy_timeout=5000"}
	if raceEnabled {
		e.raceLog = fmt.Sprintf("%s.%d", filepath.Join(dir, "race"), os.Getpid())
	}
	sqlDB, _ := recdrv.Open(e.dsn)
	db, err := gorm.Open(sqlite.Dialector{Conn: sqlDB}, &gorm.Config{Logger: logger.Discard})
	lib.Must(err)
	lib.Must(db.Exec("CREATE TABLE items (id integer primary key, v integer)").Error)
	lib.Must(db.Exec("CREATE TABLE marks (id integer primary key)").Error)
	for i := int64(1); i <= 4; i++ {
		lib.Must(db.Exec("INSERT INTO items (id, v) VALUES (?, ?)", i, i*10).Error)
	}
	// reference: the same statements in non-prepared mode
	for q := range texts {
		var vals []int64
		lib.Must(db.Raw(texts[q], argsOf[q]).Scan(&vals).Error)
		e.refs = append(e.refs, vals)
	}
	sqlDB.Close()
	return e
}

func eqVals(a, b []int64) bool {
	if len(a) != len(b) {
		return false
	}
	for i := range a {
		if a[i] != b[i] {
			return false
		}
	}
	return true
}

func classify(err error) (string, bool) {
	switch {
	case err == nil:
		return "ROk", true
	case errors.Is(err, errPrepare):
		return "RErrPrep", true
	case errors.Is(err, gorm.ErrInvalidDB):
		return "RErrInvalid", true
	case err.Error() == "sql: statement is closed":
		return "RErrClosed", true
	case errors.Is(err, driver.ErrBadConn):
		return "RErrBad", true
	case errors.Is(err, errExec):
		return "RErrOther", true
	}
	return "RErrOther", false
}

func (e *env) doOp(h *gorm.DB, pdb *gorm.PreparedStmtDB, op Op) (res string, wrong bool, note string) {
	defer func() {
		if p := recover(); p != nil {
			res, wrong, note = "RPanic", false, fmt.Sprint("panic: ", p)
		}
	}()
	var err error
	switch op.K {
	case "query":
		var vals []int64
		err = h.Raw(texts[op.Q], argsOf[op.Q]).Scan(&vals).Error
		if err == nil && !eqVals(vals, e.refs[op.Q]) {
			wrong, note = true, fmt.Sprintf("rows %v want %v", vals, e.refs[op.Q])
		}
	case "exec":
		err = h.Exec(texts[op.Q], argsOf[op.Q]).Error
	case "row":
		var v int64
		err = h.Raw(texts[op.Q], argsOf[op.Q]).Row().Scan(&v)
		if err == nil && v != e.refs[op.Q][0] {
			wrong, note = true, fmt.Sprintf("row %v want %v", v, e.refs[op.Q][0])
		}
	case "reset":
		pdb.Reset()
	case "close":
		pdb.Close()
	}
	r, known := classify(err)
	if !known {
		wrong, note = true, "unexpected error: "+err.Error()
	}
	return r, wrong, note
}

// raceLogSize is the size of the race detector's log (GORACE log_path), 0 without -race.
func (e *env) raceLogSize() int64 {
	if e.raceLog == "" {
		return 0
	}
	fi, err := os.Stat(e.raceLog)
	if err != nil {
		return 0
	}
	return fi.Size()
}

// run executes one case; the input is journalled first so that a crash of the process can be
// attributed to it by the supervising parent.
func (e *env) run(in Input) Obs {
	if b, err := json.Marshal(in); err == nil {
		os.WriteFile(filepath.Join(e.dir, "current.json"), b, 0o644)
	}
	before := e.raceLogSize()
	var o Obs
	if in.Plumb != nil {
		po := e.runPlumb(*in.Plumb)
		o = Obs{Plumb: &po, Notes: po.Errs}
	} else {
		o = e.runSched(in)
	}
	if after := e.raceLogSize(); after > before {
		o.Races = 1
		if b, err := os.ReadFile(e.raceLog); err == nil && int64(len(b)) >= after {
			txt := string(b[before:after])
			if len(txt) > 1500 {
				txt = txt[:1500]
			}
			o.Notes = append(o.Notes, "race detector: "+txt)
		}
	}
	return o
}

func (e *env) runSched(in Input) Obs {
	ctl := &controller{}
	rec := recdrv.NewRecorder()
	sqlDB := sql.OpenDB(&gconnector{inner: recdrv.NewConnector(e.dsn, rec), ctl: ctl})
	defer sqlDB.Close()
	if in.MaxConns > 0 {
		sqlDB.SetMaxOpenConns(in.MaxConns)
	}
	p := &pool{db: sqlDB, ctl: ctl, textID: map[string]int{}}
	for i, t := range texts {
		p.textID[t] = i
	}
	db, err := gorm.Open(sqlite.Dialector{Conn: p}, &gorm.Config{Logger: logger.Discard, PrepareStmt: true})
	lib.Must(err)
	pdb := db.ConnPool.(*gorm.PreparedStmtDB)
	ctl.mux = pdb.Mux
	// burst barrier (gate.go: arrive) right before the statement goes to the cache
	bar := func(d *gorm.DB) { arrive(d.Statement.Context) }
	lib.Must(db.Callback().Query().Before("gorm:query").Register("c14:barrier", bar))
	lib.Must(db.Callback().Raw().Before("gorm:raw").Register("c14:barrier", bar))
	lib.Must(db.Callback().Row().Before("gorm:row").Register("c14:barrier", bar))

	var obs Obs
	notes := make([][]string, len(in.Progs))
	wrongs := make([]int, len(in.Progs))
	for i := range in.Progs {
		ctl.actors = append(ctl.actors, &actor{id: i, wake: make(chan int, 1), last: i == len(in.Progs)-1})
	}
	// the goroutines' handles are derived before anything runs (Session itself is not under test here)
	handles := make([]*gorm.DB, len(in.Progs))
	for i := range in.Progs {
		handles[i] = db
		if i < len(in.Handles) && in.Handles[i] == "session" {
			handles[i] = db.Session(&gorm.Session{PrepareStmt: true})
		}
	}
	for i, prog := range in.Progs {
		go func(a *actor, prog []Op, i int) {
			ctx := context.WithValue(context.Background(), actorKey{}, a)
			db := handles[i]
			var tx *gorm.DB
			for j, op := range prog {
				ctl.mu.Lock()
				a.curQ, a.curText, a.execDone = op.Q, "", false
				if op.K == "query" || op.K == "exec" || op.K == "row" {
					a.curText = texts[op.Q]
				}
				ctl.mu.Unlock()
				ctl.park(a, stParkStart, nil)
				h := db.WithContext(ctx)
				if op.Tx {
					if tx == nil {
						tx = h.Begin()
						if tx.Error != nil {
							notes[i] = append(notes[i], "begin: "+tx.Error.Error())
							wrongs[i]++
						}
					}
					h = tx
				}
				r, wrong, note := e.doOp(h, pdb, op)
				if wrong {
					wrongs[i]++
				}
				if note != "" {
					notes[i] = append(notes[i], note)
				}
				ctl.mu.Lock()
				ctl.log(Ev{K: "end", T: a.id, R: r})
				ctl.mu.Unlock()
				if tx != nil && (j+1 == len(prog) || !prog[j+1].Tx) {
					if err := tx.Commit().Error; err != nil {
						notes[i] = append(notes[i], "commit: "+err.Error())
					}
					tx = nil
				}
			}
			ctl.finish(a)
		}(ctl.actors[i], prog, i)
	}
	ctl.run(in.Script)
	obs.Hang = ctl.hang
	ctl.mu.Lock()
	obs.Trace = append([]Ev(nil), ctl.trace...)
	obs.Widths = append([]int(nil), ctl.widths...)
	obs.Quiets = append([]Quiet(nil), ctl.quiets...)
	obs.Probes = ctl.probes
	if os.Getenv("C14_DUMP") != "" && ctl.dump != "" {
		obs.Notes = append(obs.Notes, "goroutines at the first quiet point with a blocked goroutine:\n"+ctl.dump)
	}
	for _, a := range ctl.actors {
		obs.WrongRows += a.wrong
	}
	ctl.mu.Unlock()
	for i := range in.Progs {
		obs.WrongRows += wrongs[i]
		obs.Notes = append(obs.Notes, notes[i]...)
	}
	// quiescence: every closer goroutine had time to finish
	deadline := time.Now().Add(150 * time.Millisecond)
	for {
		leaked := 0
		p.mu.Lock()
		tracked := append([]tracked(nil), p.stmts...)
		p.mu.Unlock()
		for _, t := range tracked {
			if t.tx {
				continue
			}
			rows, err := t.st.QueryContext(context.Background(), argsOf[p.textID[t.text]])
			if err == nil {
				rows.Close()
				leaked++
			} else if err.Error() != "sql: statement is closed" {
				leaked++
			}
		}
		_, open, _ := rec.Counters()
		obs.Leaked, obs.OpenStmts = leaked, open
		if obs.Hang || (leaked == 0 && open == 0) || time.Now().After(deadline) {
			break
		}
		time.Sleep(500 * time.Microsecond)
	}
	return obs
}

// ---- Gallina printers ---------------------------------------------------------------------

func gOp(o Op) string {
	switch o.K {
	case "reset":
		return "OReset"
	case "close":
		return "OClose"
	}
	return lib.App("OExec", lib.Nat(o.Q), lib.Bool(o.Tx), lib.Bool(o.K != "row"))
}

func gEv(e Ev) string {
	t := lib.Nat(e.T)
	switch e.K {
	case "start":
		return lib.App("VStart", t)
	case "prepcall":
		return lib.App("VPrepCall", t, lib.Nat(e.Q), lib.Bool(e.Tx))
	case "prepret":
		return lib.App("VPrepRet", t, lib.Bool(e.Ok))
	case "execcall":
		return lib.App("VExecCall", t)
	case "execret":
		return lib.App("VExecRet", t, map[string]string{"ok": "CExecOk", "bad": "CExecBad", "err": "CExecErr"}[e.O])
	}
	return lib.App("VEnd", t, e.R)
}

// maskOf: which known-finding outcomes the second evaluation of a case tolerates (see C14_Check.v)
func maskOf(sig string) int {
	m := 0
	if strings.Contains(sig, "close-races-use") {
		m |= 1
	}
	if strings.Contains(sig, "row-swallows-error") {
		m |= 2
	}
	if strings.Contains(sig, "commit-waits-for-execution") {
		m |= 4
	}
	if strings.Contains(sig, "close-queues-use") {
		m |= 8
	}
	if strings.Contains(sig, "rows-close-waits-for-execution") {
		m |= 16
	}
	return m
}

func term(in Input, o Obs, mask int) string {
	progs := lib.ListOf(in.Progs, func(p []Op) string { return lib.ListOf(p, gOp) })
	// first field: which variant of prepare_stmt.go the model is run as (false = as it is;
	// true once the guarded-delete patch is in /repo)
	plumbs := "[]"
	if in.Plumb != nil && o.Plumb != nil {
		plumbs = lib.List([]string{gPlumb(*in.Plumb, *o.Plumb)})
	}
	return lib.App("mk_case", lib.Bool(modelGuard), progs, lib.ListOf(o.Trace, gEv), lib.Bool(o.Hang),
		lib.Nat(o.Leaked), lib.Nat(o.OpenStmts), lib.Nat(o.WrongRows), lib.Nat(o.Races), plumbs, lib.Nat(mask),
		lib.ListOf(o.Quiets, func(q Quiet) string {
			return "(" + lib.Nat(q.Pos) + ", " + lib.ListOf(q.Stuck, func(t int) string { return lib.Nat(t) }) + ")"
		}))
}

// ---- signatures of the known findings (computed from programs + schedule, never from results)

type window struct {
	t, idx             int
	op                 Op
	start, end         int // positions in the trace (end = len if missing)
	execcall           int // -1 if none
	execret            int // position of the driver's answer to that call, -1 if none (yet)
	failret            int // position of this operation's failing Prepare return / ErrBadConn return, -1 if none
	badret             int
}

func windows(in Input, tr []Ev) []window {
	var ws []window
	cur := map[int]*window{}
	idx := map[int]int{}
	for pos, e := range tr {
		switch e.K {
		case "start":
			if e.T < len(in.Progs) && idx[e.T] < len(in.Progs[e.T]) {
				cur[e.T] = &window{t: e.T, idx: idx[e.T], op: in.Progs[e.T][idx[e.T]], start: pos, end: len(tr), execcall: -1, execret: -1, failret: -1, badret: -1}
			}
		case "execcall":
			if w := cur[e.T]; w != nil {
				w.execcall = pos
			}
		case "prepret":
			if w := cur[e.T]; w != nil && !e.Ok {
				w.failret = pos
			}
		case "execret":
			if w := cur[e.T]; w != nil {
				w.execret = pos
			}
			if w := cur[e.T]; w != nil && e.O == "bad" && w.op.K != "row" {
				w.failret, w.badret = pos, pos
			}
		case "end":
			if w := cur[e.T]; w != nil {
				w.end = pos
				ws = append(ws, *w)
				cur[e.T] = nil
				idx[e.T]++
			}
		}
	}
	for _, w := range cur {
		if w != nil {
			ws = append(ws, *w)
		}
	}
	return ws
}

func isUse(o Op) bool { return o.K == "query" || o.K == "exec" || o.K == "row" }

func sig(in Input, tr []Ev) string {
	ws := windows(in, tr)
	found := map[string]bool{}
	if in.MaxConns > 0 {
		ntx := 0
		for _, p := range in.Progs {
			for _, o := range p {
				if o.Tx {
					ntx++
					break
				}
			}
		}
		if ntx >= in.MaxConns {
			return "tx-holds-last-connection"
		}
	}
	// a session handle next to a Close (corpus only: never generated) or a Reset (generated) issued
	// by another goroutine
	sessReset, sessClose := false, false
	for i, h := range in.Handles {
		if h != "session" {
			continue
		}
		for j, p := range in.Progs[:len(in.Progs)-1] {
			for _, o := range p {
				if j != i && o.K == "close" {
					sessClose = true
				}
				if j != i && o.K == "reset" {
					sessReset = true
				}
			}
		}
	}
	if sessClose {
		return "session-handle-after-close"
	}
	if sessReset && !resetInPlace {
		return "session-handle-after-reset"
	}
	for _, w := range ws {
		if !isUse(w.op) {
			continue
		}
		// stale-delete: the failing return of an operation comes after another goroutine
		// published an entry for the same text during the operation
		if w.failret >= 0 && !modelGuard { // fixed by /repo 3544058: no longer a known finding
			for pos := w.start; pos < w.failret; pos++ {
				if e := tr[pos]; e.K == "prepcall" && e.T != w.t && e.Q == w.op.Q {
					found["stale-delete"] = true
				}
			}
		}
		// close-races-use: a Reset, or an ErrBadConn eviction, overlaps a pool-level use
		// before that use reached the driver
		if !w.op.Tx {
			lim := w.end
			if w.execcall >= 0 {
				lim = w.execcall
			}
			for _, r := range ws {
				if r.t == w.t && r.idx == w.idx {
					continue
				}
				if r.op.K == "reset" && r.start < lim && w.start < r.end {
					found["close-races-use"] = true
				}
				if isUse(r.op) && r.badret >= 0 && r.badret < lim && w.start < r.end {
					found["close-races-use"] = true
				}
				// close-queues-use: the same overlap with a Close, while a third goroutine's execution
				// is with the driver (the use waits behind Close's closer, which waits for that execution)
				if r.op.K == "close" && r.start < lim && w.start < r.end {
					for _, x := range ws {
						if x.t != w.t && x.t != r.t && x.execcall >= 0 && x.execcall < lim && (x.execret < 0 || x.execret > r.start) && (x.execret < 0 || x.execret > w.start) {
							found["close-queues-use"] = true
						}
					}
				}
			}
		}
		// row-swallows-error: a QueryRow whose preparation can fail (failed Prepare of its
		// text during the operation, or a Close started before it ended)
		if w.op.K == "row" {
			for pos := w.start; pos < w.end && pos < len(tr); pos++ {
				if e := tr[pos]; e.K == "prepret" && !e.Ok {
					found["row-swallows-error"] = true
				}
			}
			for _, r := range ws {
				if r.op.K == "close" && r.start < w.end {
					found["row-swallows-error"] = true
				}
			}
		}
	}
	// commit-waits-for-execution: a Reset/Close runs while a transaction of another goroutine is open
	// and has used the cache, and when that transaction's last operation ends (the harness commits
	// right after it) an execution of another goroutine is with the driver
	for _, w := range ws {
		last := w.op.Tx && w.end < len(tr) && (w.idx+1 == len(in.Progs[w.t]) || !in.Progs[w.t][w.idx+1].Tx)
		if !last {
			continue
		}
		runStart := w.start
		for _, p := range ws { // first operation of this transaction
			if p.t == w.t && p.idx < w.idx && p.start < runStart {
				all := true
				for k := p.idx; k <= w.idx; k++ {
					all = all && in.Progs[w.t][k].Tx
				}
				if all {
					runStart = p.start
				}
			}
		}
		cut, busy := false, false
		for _, r := range ws {
			// eviction (go stmt.Close()), also by the transaction's own goroutine
			if isUse(r.op) && r.badret >= 0 && r.badret < w.end && r.badret > runStart {
				cut = true
			}
			if r.t == w.t {
				continue
			}
			if (r.op.K == "reset" || r.op.K == "close") && r.start < w.end && r.end > runStart {
				cut = true
			}
			if r.execcall >= 0 && r.execcall < w.end && (r.execret < 0 || r.execret > w.end) {
				busy = true
			}
		}
		if cut && busy {
			found["commit-waits-for-execution"] = true
		}
	}
	// rows-close-waits-for-execution: a Reset/Close/eviction falls into a pool-level query/row between
	// its start and the driver's answer to its execution, and at that answer an execution of another
	// goroutine is with the driver
	for _, w := range ws {
		if w.op.Tx || (w.op.K != "query" && w.op.K != "row") || w.execcall < 0 || w.execret < 0 {
			continue
		}
		cut, busy := false, false
		for _, r := range ws {
			if r.t == w.t {
				continue
			}
			if (r.op.K == "reset" || r.op.K == "close") && r.start < w.execret && r.end > w.start {
				cut = true
			}
			if isUse(r.op) && r.badret >= 0 && r.badret < w.execret && r.badret > w.start {
				cut = true
			}
			if r.execcall >= 0 && r.execcall < w.execret && (r.execret < 0 || r.execret > w.execret) {
				busy = true
			}
		}
		if cut && busy {
			found["rows-close-waits-for-execution"] = true
		}
	}
	var names []string
	for n := range found {
		names = append(names, n)
	}
	sort.Strings(names)
	return strings.Join(names, "+")
}

// ---- shapes, non-triviality --------------------------------------------------------------

func shape(in Input, tr []Ev) string {
	var b strings.Builder
	if in.Plumb != nil {
		return fmt.Sprintf("plumb:%s:%s:%s:%s:%v", in.Plumb.Base, strings.Join(in.Plumb.Steps, ","), in.Plumb.Body, in.Plumb.Finish, in.Plumb.Warm)
	}
	for i, p := range in.Progs {
		if i < len(in.Handles) && in.Handles[i] == "session" {
			b.WriteString("S:")
		}
		for _, o := range p {
			fmt.Fprintf(&b, "%s%d%v,", o.K[:2], o.Q, o.Tx)
		}
		b.WriteString("|")
	}
	for _, e := range tr {
		fmt.Fprintf(&b, "%s%d%s%v ", e.K[:1]+e.K[len(e.K)-1:], e.T, e.O, e.Ok)
	}
	return b.String()
}

// non-trivial: two operations on the same text overlap in time, or a Reset/Close/failed
// Prepare/ErrBadConn happens inside another operation's window
func nontrivial(in Input, tr []Ev) bool {
	if in.Plumb != nil { // a transaction and a prepared-mode session are both involved
		tx, prep := false, in.Plumb.Base == "prepared"
		for _, s := range in.Plumb.Steps {
			tx = tx || s == "begin" || s == "block"
			prep = prep || s == "sessprep"
		}
		return tx && prep
	}
	ws := windows(in, tr)
	for i, a := range ws {
		for j, b := range ws {
			if i == j || a.t == b.t || !(a.start < b.end && b.start < a.end) {
				continue
			}
			if isUse(a.op) && isUse(b.op) && a.op.Q == b.op.Q {
				return true
			}
			if isUse(a.op) && (!isUse(b.op) || b.failret >= 0) {
				return true
			}
		}
	}
	return false
}

// ---- generators -----------------------------------------------------------------------------

func genProg(r *lib.Rng, nops int, edge bool) []Op {
	var p []Op
	tx := false
	for i := 0; i < nops; i++ {
		q := 0
		if r.Chance(1, 4) {
			q = r.Range(1, 2)
		}
		x := r.Intn(100)
		switch {
		case x < 45:
			p = append(p, Op{K: lib.Pick(r, []string{"query", "query", "exec"}), Q: q})
			tx = false
		case x < 70:
			p = append(p, Op{K: lib.Pick(r, []string{"query", "exec", "row"}), Q: q, Tx: true})
			tx = true
		case x < 78:
			p = append(p, Op{K: "row", Q: q, Tx: tx && r.Bool()})
		case x < 90:
			p = append(p, Op{K: "reset"})
			tx = false
		case x < 95 || !edge:
			p = append(p, Op{K: lib.Pick(r, []string{"query", "exec"}), Q: q})
			tx = false
		default:
			p = append(p, Op{K: "close"})
			tx = false
		}
	}
	return p
}

// genHandles: with probability num/den, and only when no goroutine but the last CLOSES the cache
// (Close sets Stmts = nil on the root only; a session handle keeps the old map: known finding
// session-handle-after-close, replayed from the corpus), every goroutine gets at random the root
// handle or a Session{PrepareStmt:true} value of its own.  A Reset by another goroutine is admitted.
func genHandles(r *lib.Rng, progs [][]Op, num, den int) []string {
	if !r.Chance(num, den) {
		return nil
	}
	for _, p := range progs[:len(progs)-1] {
		for _, o := range p {
			// (while Reset still installs a new map, the same holds for Reset: known finding
			// session-handle-after-reset; once Reset empties the map in place the pair is generated)
			if o.K == "close" || o.K == "reset" && !resetInPlace {
				return nil
			}
		}
	}
	hs := make([]string, len(progs))
	for i := range progs[:len(progs)-1] {
		hs[i] = lib.Pick(r, []string{"root", "session", "session"})
	}
	hs[len(progs)-1] = "root"
	return hs
}

func genInput(r *lib.Rng, maxG int, edge bool) Input {
	g := r.Range(2, maxG)
	var in Input
	total := 0
	for i := 0; i < g; i++ {
		n := r.Range(1, 2)
		if edge && r.Chance(1, 3) {
			n = 3
		}
		in.Progs = append(in.Progs, genProg(r, n, edge))
		total += n
	}
	// a goroutine that only cuts the cache (Close or Reset) while the others are at work: whatever the
	// others are parked in, it must come back, and they must not queue behind it
	if r.Chance(1, 6) {
		in.Progs = append(in.Progs, []Op{{K: lib.Pick(r, []string{"close", "reset", "close"})}})
		total++
	}
	in.Progs = append(in.Progs, []Op{{K: "close"}})
	in.Handles = genHandles(r, in.Progs, 1, 3)
	burst := r.Chance(1, 5)
	for k := 0; k < 4*total+6; k++ {
		out := 0
		if r.Chance(1, 7) || (edge && r.Chance(1, 4)) {
			out = r.Range(1, 2)
		}
		pick := r.Intn(6)
		if burst && (k == 0 || r.Chance(1, 6)) {
			pick = -1
		}
		in.Script = append(in.Script, Step{Pick: pick, Out: out, Hold: r.Chance(1, 4), Probe: r.Chance(1, 12)})
	}
	return in
}

// enumBase runs one program under EVERY completion order (depth-first over the controller's
// decisions; the width of each decision is what the previous run observed), all outcomes ok
// except the fault-th Prepare/execution release (fault < 0: none).  Returns the number of runs.
func enumBase(add func(string, Input) Obs, progs [][]Op, fault int, cap int, hold bool) int {
	progs = append(append([][]Op{}, progs...), []Op{{K: "close"}})
	var prefix []int
	n := 0
	for n < cap {
		script := make([]Step, 64)
		for i := range script {
			if i < len(prefix) {
				script[i].Pick = prefix[i]
			}
			script[i].Hold = hold
		}
		in := Input{Progs: progs, Script: script}
		if fault >= 0 {
			// the fault goes to the fault-th decision (if it is a start, nothing happens)
			in.Script[fault].Out = 1
		}
		in.Script = in.Script[:40]
		o := add("enum", in)
		n++
		w := o.Widths
		full := make([]int, len(w))
		copy(full, prefix)
		i := len(w) - 1
		for i >= 0 && full[i]+1 >= w[i] {
			i--
		}
		if i < 0 {
			break
		}
		prefix = append([]int{}, full[:i+1]...)
		prefix[i]++
	}
	return n
}

func enumerate(add func(string, Input) Obs, budget int) {
	q := func(k string, qq int, tx bool) Op { return Op{K: k, Q: qq, Tx: tx} }
	reset, cl := Op{K: "reset"}, Op{K: "close"}
	bases := [][][]Op{
		{{q("query", 0, false)}, {q("query", 0, false)}},
		{{q("query", 0, false)}, {q("exec", 0, false)}, {q("query", 0, false)}},
		{{q("query", 0, false)}, {reset}, {q("query", 0, false)}},
		{{q("query", 0, false)}, {q("query", 0, true)}},
		{{q("query", 0, true)}, {q("exec", 0, false)}, {reset}},
		{{q("query", 0, false)}, {cl}, {q("query", 0, false)}},
		{{q("query", 0, false), q("query", 0, false)}, {reset}},
		{{q("query", 0, false)}, {q("query", 1, false)}, {reset}},
		{{q("row", 0, false)}, {q("query", 0, false)}},
		{{q("query", 0, true), q("exec", 0, true)}, {q("query", 0, false)}},
		{{q("query", 0, false)}, {q("query", 0, false)}, {reset}, {q("query", 0, true)}},
		{{q("query", 0, false)}, {q("query", 0, false)}, {q("query", 0, false)}, {q("query", 0, false)}},
		{{q("exec", 0, false)}, {reset}, {q("query", 0, false)}, {cl}},
	}
	cap := 900
	if budget > 0 {
		cap = budget / len(bases)
	}
	for _, b := range bases {
		enumBase(add, b, -1, cap, false)
		enumBase(add, b, -1, cap/3, true)
		for f := 1; f <= 6; f++ {
			enumBase(add, b, f, cap/6, false)
		}
	}
}

// supervise runs the harness proper as a child process (with the race detector configured to log
// and go on instead of aborting).  If the child dies, the case it was running (journalled in
// current.json) becomes the single, failing case of the run: a crash is a failing input.
func supervise(a lib.Args) {
	cmd := exec.Command(os.Args[0], os.Args[1:]...)
	cmd.Env = append(os.Environ(), "C14_CHILD=1",
		"GORACE=log_path="+filepath.Join(a.Out, "race")+" halt_on_error=0 exitcode=0")
	var buf bytes.Buffer
	cmd.Stdout, cmd.Stderr = &buf, &buf
	os.Remove(filepath.Join(a.Out, "current.json"))
	err := cmd.Run()
	os.Stdout.Write(buf.Bytes())
	if err == nil {
		return
	}
	b, rerr := os.ReadFile(filepath.Join(a.Out, "current.json"))
	var in Input
	if rerr != nil || json.Unmarshal(b, &in) != nil {
		fmt.Println("c14: harness died before any case:", err)
		os.Exit(1)
	}
	tail := buf.String()
	if len(tail) > 3000 {
		tail = tail[len(tail)-3000:]
	}
	o := Obs{Hang: true, Notes: []string{"the harness process died while running this case: " + err.Error(), tail}}
	out := lib.NewOut(a.Out, "C14")
	out.Extra["rule"] = "crash: the process running real gorm died; the case it was running is reported"
	out.Add(lib.Case{Term: term(in, o, 0), JSON: map[string]interface{}{"input": in, "observed": o},
		Sig: "", Kind: "crash", Shape: "crash", Nontriv: true})
	lib.Must(out.Flush())
}

func main() {
	a := lib.ParseArgs()
	lib.Must(os.MkdirAll(a.Out, 0o755))
	if os.Getenv("C14_CHILD") == "" {
		supervise(a)
		return
	}
	e := setup(a.Out)
	modelGuard = probeGuard(e)
	resetInPlace = probeResetInPlace(e)
	out := lib.NewOut(a.Out, "C14")
	out.Extra["model_variant"] = map[bool]string{false: "unconditional delete(Stmts, query) (prepare_stmt.go as of the pinned tree)", true: "guarded deletes (stale-delete patch present)"}[modelGuard]
	out.PerFile = 40

	add := func(kind string, in Input) Obs {
		o := e.run(in)
		sg := sig(in, o.Trace)
		out.Add(lib.Case{Term: term(in, o, 0), JSON: map[string]interface{}{"input": in, "observed": o},
			Sig: sg, Kind: kind, Shape: shape(in, o.Trace), Nontriv: nontrivial(in, o.Trace)})
		if m := maskOf(sg); m != 0 {
			// the same run again with exactly the known finding's outcome tolerated and NO
			// signature: a failure of any other clause on this input is a violation
			out.Add(lib.Case{Term: term(in, o, m), JSON: map[string]interface{}{"input": in, "observed": o, "tolerated": sg},
				Sig: "", Kind: kind + "+other-clauses", Shape: shape(in, o.Trace) + "#mask", Nontriv: nontrivial(in, o.Trace)})
		}
		out.Count("races", fmt.Sprint(o.Races))
		if in.Plumb != nil {
			out.Count("plumbing_base", in.Plumb.Base)
			for _, st := range in.Plumb.Steps {
				out.Count("plumbing_step_kinds", st)
			}
			out.Count("plumbing_len", fmt.Sprint(len(in.Plumb.Steps)))
			out.Count("plumbing_exotic", fmt.Sprint(in.Plumb.exotic()))
			return o
		}
		out.Count("goroutines", fmt.Sprint(len(in.Progs)-1))
		nsess := 0
		for _, h := range in.Handles {
			if h == "session" {
				nsess++
			}
		}
		out.Count("session_handles", fmt.Sprint(nsess))
		nops := 0
		for _, p := range in.Progs {
			for _, op := range p {
				nops++
				k := op.K
				if op.Tx {
					k = "tx-" + k
				}
				out.Count("operations", k)
			}
		}
		out.Count("ops_per_case", fmt.Sprint(nops-1))
		out.Count("trace_len", fmt.Sprint(len(o.Trace)/5*5))
		for _, ev := range o.Trace {
			switch ev.K {
			case "end":
				out.Count("results", ev.R)
			case "prepret":
				out.Count("prepare_outcome", fmt.Sprint(ev.Ok))
			case "execret":
				out.Count("exec_outcome", ev.O)
			}
		}
		s := sig(in, o.Trace)
		if s == "" {
			s = "none"
		}
		out.Count("finding_signature", s)
		out.Count("leaked", fmt.Sprint(o.Leaked))
		out.Count("hang", fmt.Sprint(o.Hang))
		out.Count("quiet_points", fmt.Sprint(len(o.Quiets)/5*5))
		nstuck := 0
		for _, q := range o.Quiets {
			if len(q.Stuck) > 0 {
				nstuck++
			}
		}
		out.Count("quiet_points_with_blocked_goroutine", fmt.Sprint(nstuck))
		out.Count("rest_tests", fmt.Sprint(o.Probes))
		return o
	}
	load := func(f string) Input {
		b, err := os.ReadFile(f)
		lib.Must(err)
		var c struct {
			Case struct {
				Input Input `json:"input"`
			} `json:"case"`
		}
		lib.Must(json.Unmarshal(b, &c))
		return c.Case.Input
	}
	rule := "cases = programs of 2..4 goroutines (1..3 operations each: Query/Exec/Row on 3 texts, directly or in a transaction, Reset, Close) + a final Close, run on gorm's PreparedStmtDB with the completion order and outcome of every Prepare call and driver execution chosen by a script; distinct = distinct (programs, recorded schedule); non-trivial = two operations on one text overlap in time, or a Reset/Close/failed Prepare/ErrBadConn falls inside another goroutine's operation"
	out.Extra["rule"] = rule

	if a.Replay != "" {
		add("replay", load(a.Replay))
		lib.Must(out.Flush())
		return
	}
	for _, f := range lib.CorpusFiles(a.Corpus) {
		add("corpus", load(f))
	}
	// session plumbing: every derivation of length <= 3 (quick) / 4 (thorough) from both bases
	maxLen := 3
	if a.Tier == "thorough" {
		maxLen = 4
	}
	for _, pl := range allPlumb(maxLen) {
		pl := pl
		add("plumb", Input{Plumb: &pl})
	}
	r := lib.NewRng(a.Seed)
	// forms outside the small model (commit, Begin options, failing Begin, nested Begin / blocks with
	// their save points, SavePoint/RollbackTo, Connection inside a transaction): all of length
	// <= 2 (thorough 3), plus a random sample of the next length; judged against non-prepared mode
	ex := exoticPlumb(maxLen - 1)
	for _, pl := range ex {
		pl := pl
		add("plumb-x", Input{Plumb: &pl})
	}
	// the same derivations with the statement texts first used OUTSIDE any transaction (pool-level
	// cache entries that a transaction then has to bind to itself)
	for _, pl := range append(allPlumb(maxLen-1), ex...) {
		pl := pl
		inTx := false
		for _, st := range pl.Steps {
			if strings.HasPrefix(st, "begin") || strings.HasPrefix(st, "block") {
				inTx = true
			}
		}
		if inTx && (pl.Base == "prepared" || strings.Contains(strings.Join(pl.Steps, ","), "sessprep")) {
			pl.Warm = true
			add("plumb-x", Input{Plumb: &pl})
		}
	}
	if a.Tier != "thorough" {
		ex3 := exoticPlumb(maxLen)
		pr := r.Fork()
		for i := 0; i < 80; i++ {
			pl := ex3[pr.Intn(len(ex3))]
			if len(pl.Steps) == maxLen {
				add("plumb-x", Input{Plumb: &pl})
			}
		}
	}
	if a.Tier == "thorough" {
		enumerate(add, a.N)
	} else {
		// a few completely enumerated small programs in the quick tier, too
		q := func(k string, tx bool) Op { return Op{K: k, Q: 0, Tx: tx} }
		enumBase(add, [][]Op{{q("query", false)}, {q("exec", false)}}, -1, 120, false)
		enumBase(add, [][]Op{{q("query", false)}, {{K: "reset"}}}, -1, 120, false)
		// Reset / Close while a Prepare is parked: every order, Prepare succeeding and (fault at
		// each decision in turn) failing; the open-statement count after quiescence is the oracle
		enumBase(add, [][]Op{{q("query", false)}, {{K: "close"}}}, -1, 60, false)
		for f := 1; f <= 4; f++ {
			enumBase(add, [][]Op{{q("query", false)}, {{K: "reset"}}}, f, 40, false)
			enumBase(add, [][]Op{{q("exec", false)}, {{K: "close"}}}, f, 40, false)
		}
		// Close / Reset while an execution is parked in the driver and a third goroutine uses the
		// cache (another text, the same text): every completion order; who is blocked at each
		// decision is part of the observation (quiet points)
		enumBase(add, [][]Op{{q("exec", false)}, {{K: "close"}}, {{K: "query", Q: 1}}}, -1, 70, false)
		enumBase(add, [][]Op{{q("query", false)}, {{K: "reset"}}, {q("exec", false)}}, -1, 70, false)
		// the same with a reader holding Mux.RLock whenever a Prepare call completes
		enumBase(add, [][]Op{{q("query", false)}, {q("exec", false)}}, -1, 120, true)
		enumBase(add, [][]Op{{q("query", false)}, {q("query", true)}, {{K: "reset"}}}, -1, 60, true)
	}
	// burst stream: 3..4 goroutines start the same cold text at the very same time (the window
	// between the RLock check and the publication under Lock is only hit by a real race)
	nburst := 200
	if a.Tier == "thorough" {
		nburst = 1500
	}
	for i := 0; i < nburst; i++ {
		g := r.Range(3, 4)
		var in Input
		for j := 0; j < g; j++ {
			k := lib.Pick(r, []string{"query", "exec", "query"})
			in.Progs = append(in.Progs, []Op{{K: k, Q: 0, Tx: i%5 == 4 && j == 0}})
		}
		in.Progs = append(in.Progs, []Op{{K: "close"}})
		in.Handles = genHandles(r, in.Progs, 1, 2)
		in.Script = []Step{{Pick: -1}}
		for k := 0; k < 20; k++ {
			st := Step{Pick: r.Intn(4)}
			if i%2 == 1 && r.Chance(1, 2) {
				st.Out = 1 // a burst whose Prepare calls fail: waiters of both lookups get the error
			}
			in.Script = append(in.Script, st)
		}
		add("burst", in)
	}
	budget, maxG := 260, 3
	if a.Tier == "thorough" {
		budget, maxG = 3000, 4
	}
	if a.N > 0 {
		budget = a.N
	}
	for i := 0; i < budget; i++ {
		edge := r.Chance(15, 100)
		kind := "main"
		if edge {
			kind = "edge"
		}
		add(kind, genInput(r, maxG, edge))
	}
	lib.Must(out.Flush())
}
