package main

// Schedule control for C14: a gorm-level ConnPool wrapper that parks PrepareContext calls, a
// driver-level wrapper (around the recording driver) that parks statement executions, and a
// controller that releases parked calls one at a time in the order a script dictates, logging
// the visible events in their real-time order.

import (
	"context"
	"database/sql"
	"database/sql/driver"
	"errors"
	"runtime"
	"sort"
	"strings"
	"sync"
	"sync/atomic"
	"time"

	"gorm.io/gorm"
)

var (
	errPrepare = errors.New("verif: injected Prepare failure")
	errExec    = errors.New("verif: injected execution failure")
)

type actorKey struct{}

func actorOf(ctx context.Context) *actor {
	if ctx == nil {
		return nil
	}
	a, _ := ctx.Value(actorKey{}).(*actor)
	return a
}

// Ev is one visible event (the Coq type vev).
type Ev struct {
	K  string `json:"k"` // start prepcall prepret execcall execret end
	T  int    `json:"t"`
	Q  int    `json:"q,omitempty"`
	Tx bool   `json:"tx,omitempty"`
	Ok bool   `json:"ok,omitempty"`
	O  string `json:"o,omitempty"` // ok | err | bad
	R  string `json:"r,omitempty"` // result constructor
}

const (
	stRunning = iota
	stParkStart
	stParkPrep
	stParkExec
	stDone
)

type actor struct {
	id       int
	status   int
	wake     chan int
	last     bool // runs only when every other actor is done (the final Close)
	curQ     int  // text of the operation in progress
	curText  string
	execDone bool // the execution of the current operation was already decided
	execOut  int
	wrong    int // executions that reached the driver with another text than the operation's
	// barrier: set when the goroutine is started in a burst; it waits (spinning) right before gorm
	// hands the statement to the cache until every goroutine of the burst got there, so that they
	// enter PreparedStmtDB.prepare at the same moment even on a loaded machine
	barrier *int32
}

// arrive is called from a gorm callback registered right before gorm:query / gorm:raw / gorm:row.
func arrive(ctx context.Context) {
	a := actorOf(ctx)
	if a == nil || a.barrier == nil {
		return
	}
	b := a.barrier
	a.barrier = nil
	atomic.AddInt32(b, -1)
	for dl := time.Now().Add(30 * time.Millisecond); atomic.LoadInt32(b) > 0 && time.Now().Before(dl); {
		runtime.Gosched()
	}
}

type Step struct {
	Pick int `json:"pick"`
	Out  int `json:"out"`
	// Hold: while this Prepare call is released the controller holds Mux.RLock (a reader in the
	// middle of a lookup), so that the preparer queues for the write lock; dropped once nothing moves
	Hold bool `json:"hold,omitempty"`
	// Probe: before this decision, if some goroutine is neither parked nor finished, wait until the
	// whole process is at rest and record who is blocked -- even when the harness expects the wait
	// (a goroutine waiting for another one's Prepare call); an unexpected wait is always looked into
	Probe bool `json:"probe,omitempty"`
}

// Quiet is a quiet point: when Pos events had been logged every goroutine of the programs was parked
// (at a gate of the harness, or finished) or blocked; Stuck = the blocked ones, ascending.
type Quiet struct {
	Pos   int   `json:"pos"`
	Stuck []int `json:"stuck"`
}

type controller struct {
	mux     *sync.RWMutex // the cache's Mux (exported field of PreparedStmtDB)
	mu      sync.Mutex
	actors  []*actor
	trace   []Ev
	version int64
	widths  []int // number of releasable calls at each decision (for systematic enumeration)
	kinds   []int // status of the released actor at each decision
	hang    bool
	quiets  []Quiet
	probes  int // quiet points that needed the whole-process rest test
	dump    string // goroutine dump of the first quiet point with a blocked goroutine (diagnosis only)
}

func (c *controller) log(e Ev) { c.trace = append(c.trace, e) }

// park blocks the calling goroutine until the controller releases it; pre is logged on arrival.
func (c *controller) park(a *actor, st int, pre *Ev) int {
	c.mu.Lock()
	if pre != nil {
		c.log(*pre)
	}
	a.status = st
	c.version++
	c.mu.Unlock()
	return <-a.wake
}

func (c *controller) parkExec(a *actor, text string) int {
	c.mu.Lock()
	if a.execDone { // a retry of database/sql inside the same operation
		out := a.execOut
		c.mu.Unlock()
		return out
	}
	if text != a.curText {
		a.wrong++
	}
	c.mu.Unlock()
	out := c.park(a, stParkExec, &Ev{K: "execcall", T: a.id})
	return out
}

func (c *controller) finish(a *actor) {
	c.mu.Lock()
	a.status = stDone
	c.version++
	c.mu.Unlock()
}

const (
	pollEvery    = 20 * time.Microsecond
	settleStable = 1500 * time.Microsecond
	hangAfter    = 2 * time.Second
)

// settle waits until no actor is running, or nothing changed for settleStable.
func (c *controller) settle() {
	var lastV int64 = -1
	since := time.Now()
	for {
		c.mu.Lock()
		running := false
		for _, a := range c.actors {
			if a.status == stRunning {
				running = true
			}
		}
		v := c.version
		c.mu.Unlock()
		if !running {
			return
		}
		if v != lastV {
			lastV, since = v, time.Now()
		} else if time.Since(since) > settleStable {
			return
		}
		time.Sleep(pollEvery)
	}
}

// atRest: no goroutine of the process but the caller is running, runnable or in a system call (cgo:
// SQLite).  Unlike a time-out this does not mistake a goroutine that is merely slow (a loaded
// machine) for a blocked one: a goroutine that could run is "runnable" however long it is kept waiting.
var lastDump string

func atRest() bool {
	buf := make([]byte, 1<<18)
	n := runtime.Stack(buf, true)
	lastDump = string(buf[:n])
	first := true
	for _, blk := range strings.Split(string(buf[:n]), "\n\n") {
		if first { // the calling goroutine
			first = false
			continue
		}
		if !strings.HasPrefix(blk, "goroutine ") {
			continue
		}
		i, j := strings.Index(blk, "["), strings.Index(blk, "]")
		if i < 0 || j < i {
			continue
		}
		st := blk[i+1 : j]
		if strings.HasPrefix(st, "running") || strings.HasPrefix(st, "runnable") || strings.HasPrefix(st, "syscall") {
			if strings.Contains(blk, "os/signal.signal_recv") || strings.Contains(blk, "os/signal.loop") {
				continue
			}
			return false
		}
	}
	return true
}

const (
	restSamples = 3
	restEvery   = 2 * time.Millisecond
	restGiveUp  = 600 * time.Millisecond
)

// quietPoint is called after settle, before a decision.  With no goroutine running the point is quiet
// with nobody blocked.  Otherwise the running ones are blocked or slow: if the wait is not one the
// harness expects (or the step asks for a probe) it waits until the whole process is at rest in
// restSamples consecutive samples with nothing having moved, and records who is blocked; if the
// process does not come to rest (or the wait is an expected one) nothing is recorded for this decision.
func (c *controller) quietPoint(probe bool) {
	snap := func() (running []int, expected bool, v int64, pos int) {
		c.mu.Lock()
		defer c.mu.Unlock()
		expected = true
		for _, a := range c.actors {
			if a.status != stRunning {
				continue
			}
			running = append(running, a.id)
			ok := false
			if a.curText != "" {
				for _, b := range c.actors {
					if b != a && b.status == stParkPrep && b.curQ == a.curQ {
						ok = true
					}
				}
			}
			if !ok {
				expected = false
			}
		}
		sort.Ints(running)
		return running, expected, c.version, len(c.trace)
	}
	running, expected, v, pos := snap()
	if len(running) == 0 {
		c.quiets = append(c.quiets, Quiet{Pos: pos, Stuck: []int{}})
		return
	}
	if expected && !probe {
		return
	}
	c.probes++
	good := 0
	for dl := time.Now().Add(restGiveUp); time.Now().Before(dl); time.Sleep(restEvery) {
		r2, _, v2, p2 := snap()
		if len(r2) == 0 {
			c.quiets = append(c.quiets, Quiet{Pos: p2, Stuck: []int{}})
			return
		}
		if v2 != v || p2 != pos {
			v, pos, good = v2, p2, 0
			continue
		}
		if !atRest() {
			good = 0
			continue
		}
		good++
		if good >= restSamples {
			r3, _, v3, p3 := snap()
			if v3 == v && p3 == pos {
				c.quiets = append(c.quiets, Quiet{Pos: pos, Stuck: r3})
				if c.dump == "" {
					c.dump = lastDump
				}
				return
			}
			good = 0
		}
	}
}

// run drives the actors to completion following the script; returns false on a hang.
func (c *controller) run(script []Step) {
	k := 0
	idleSince := time.Now()
	lastQuiet := -1
	for {
		c.settle()
		c.mu.Lock()
		np := len(c.trace)
		c.mu.Unlock()
		if np != lastQuiet { // one quiet point per position
			lastQuiet = np
			c.quietPoint(k < len(script) && script[k].Probe)
		}
		c.mu.Lock()
		var avail []*actor
		alldone, othersDone := true, true
		for _, a := range c.actors {
			if a.status != stDone {
				alldone = false
				if !a.last {
					othersDone = false
				}
			}
		}
		for _, a := range c.actors {
			if a.status == stParkStart || a.status == stParkPrep || a.status == stParkExec {
				if a.last && !othersDone {
					continue
				}
				avail = append(avail, a)
			}
		}
		if alldone {
			c.mu.Unlock()
			return
		}
		if len(avail) == 0 {
			c.mu.Unlock()
			if time.Since(idleSince) > hangAfter {
				c.hang = true
				return
			}
			time.Sleep(200 * time.Microsecond)
			continue
		}
		st := Step{}
		if k < len(script) {
			st = script[k]
		}
		k++
		if st.Pick < 0 {
			// burst: start every goroutine that waits for its next operation, at once
			var burst []*actor
			for _, a := range avail {
				if a.status == stParkStart {
					burst = append(burst, a)
				}
			}
			if len(burst) > 0 {
				c.widths = append(c.widths, 1)
				c.kinds = append(c.kinds, -1)
				n := int32(len(burst))
				for _, a := range burst {
					c.log(Ev{K: "start", T: a.id})
					a.status = stRunning
					a.barrier = &n
				}
				c.version++
				c.mu.Unlock()
				for _, a := range burst {
					a.wake <- 0
				}
				idleSince = time.Now()
				continue
			}
			st.Pick = 0
		}
		a := avail[st.Pick%len(avail)]
		c.widths = append(c.widths, len(avail))
		c.kinds = append(c.kinds, a.status)
		out := 0
		switch a.status {
		case stParkStart:
			c.log(Ev{K: "start", T: a.id})
		case stParkPrep:
			out = st.Out % 2
			c.log(Ev{K: "prepret", T: a.id, Ok: out == 0})
		case stParkExec:
			out = st.Out % 3
			a.execDone, a.execOut = true, out
			c.log(Ev{K: "execret", T: a.id, O: []string{"ok", "bad", "err"}[out]})
		}
		hold := st.Hold && a.status == stParkPrep && c.mux != nil
		a.status = stRunning
		c.version++
		c.mu.Unlock()
		if hold {
			// never block the controller itself: if the lock cannot be had shortly (a writer
			// that never unlocks is one of the things the run must survive and report), go on without
			hold = false
			for dl := time.Now().Add(20 * time.Millisecond); time.Now().Before(dl); time.Sleep(50 * time.Microsecond) {
				if c.mux.TryRLock() {
					hold = true
					break
				}
			}
		}
		a.wake <- out
		if hold {
			c.settle()
			c.mux.RUnlock()
		}
		idleSince = time.Now()
	}
}

// ---- gorm-level ConnPool wrapper --------------------------------------------------------

type tracked struct {
	st   *sql.Stmt
	text string
	tx   bool
}

type pool struct {
	db     *sql.DB
	ctl    *controller
	textID map[string]int
	mu     sync.Mutex
	stmts  []tracked
}

func (p *pool) track(st *sql.Stmt, text string, tx bool) {
	p.mu.Lock()
	p.stmts = append(p.stmts, tracked{st, text, tx})
	p.mu.Unlock()
}

func (p *pool) gatePrepare(ctx context.Context, query string, tx bool) (bool, error) {
	a := actorOf(ctx)
	if a == nil {
		return false, nil
	}
	q, ok := p.textID[query]
	if !ok {
		q = 99
	}
	out := p.ctl.park(a, stParkPrep, &Ev{K: "prepcall", T: a.id, Q: q, Tx: tx})
	if out == 1 {
		return true, errPrepare
	}
	return true, nil
}

func (p *pool) PrepareContext(ctx context.Context, query string) (*sql.Stmt, error) {
	gated, err := p.gatePrepare(ctx, query, false)
	if err != nil {
		return nil, err
	}
	st, err := p.db.PrepareContext(ctx, query)
	if err == nil && gated {
		p.track(st, query, false)
	}
	return st, err
}
func (p *pool) ExecContext(ctx context.Context, query string, args ...interface{}) (sql.Result, error) {
	return p.db.ExecContext(ctx, query, args...)
}
func (p *pool) QueryContext(ctx context.Context, query string, args ...interface{}) (*sql.Rows, error) {
	return p.db.QueryContext(ctx, query, args...)
}
func (p *pool) QueryRowContext(ctx context.Context, query string, args ...interface{}) *sql.Row {
	return p.db.QueryRowContext(ctx, query, args...)
}
func (p *pool) GetDBConn() (*sql.DB, error) { return p.db, nil }

// BeginTx makes the wrapper a gorm.ConnPoolBeginner, so that PreparedStmtTX.Tx is our wrapper
// and Tx-level PrepareContext calls are parked too.
func (p *pool) BeginTx(ctx context.Context, opts *sql.TxOptions) (gorm.ConnPool, error) {
	tx, err := p.db.BeginTx(ctx, opts)
	if err != nil {
		return nil, err
	}
	return &txw{tx: tx, p: p}, nil
}

type txw struct {
	tx *sql.Tx
	p  *pool
}

func (t *txw) PrepareContext(ctx context.Context, query string) (*sql.Stmt, error) {
	gated, err := t.p.gatePrepare(ctx, query, true)
	if err != nil {
		return nil, err
	}
	st, err := t.tx.PrepareContext(ctx, query)
	if err == nil && gated {
		t.p.track(st, query, true)
	}
	return st, err
}
func (t *txw) ExecContext(ctx context.Context, query string, args ...interface{}) (sql.Result, error) {
	return t.tx.ExecContext(ctx, query, args...)
}
func (t *txw) QueryContext(ctx context.Context, query string, args ...interface{}) (*sql.Rows, error) {
	return t.tx.QueryContext(ctx, query, args...)
}
func (t *txw) QueryRowContext(ctx context.Context, query string, args ...interface{}) *sql.Row {
	return t.tx.QueryRowContext(ctx, query, args...)
}
func (t *txw) Commit() error   { return t.tx.Commit() }
func (t *txw) Rollback() error { return t.tx.Rollback() }
func (t *txw) StmtContext(ctx context.Context, stmt *sql.Stmt) *sql.Stmt {
	return t.tx.StmtContext(ctx, stmt)
}

// ---- driver-level wrapper ------------------------------------------------------------------

type gconnector struct {
	inner driver.Connector
	ctl   *controller
}

func (c *gconnector) Connect(ctx context.Context) (driver.Conn, error) {
	in, err := c.inner.Connect(ctx)
	if err != nil {
		return nil, err
	}
	return &gconn{in: in, ctl: c.ctl}, nil
}
func (c *gconnector) Driver() driver.Driver { return c.inner.Driver() }

type gconn struct {
	in  driver.Conn
	ctl *controller
}

func (c *gconn) Prepare(query string) (driver.Stmt, error) {
	return c.PrepareContext(context.Background(), query)
}
func (c *gconn) Close() error              { return c.in.Close() }
func (c *gconn) Begin() (driver.Tx, error) { return c.in.Begin() } //nolint
func (c *gconn) BeginTx(ctx context.Context, opts driver.TxOptions) (driver.Tx, error) {
	return c.in.(driver.ConnBeginTx).BeginTx(ctx, opts)
}
func (c *gconn) PrepareContext(ctx context.Context, query string) (driver.Stmt, error) {
	s, err := c.in.(driver.ConnPrepareContext).PrepareContext(ctx, query)
	if err != nil {
		return nil, err
	}
	return &gstmt{in: s, ctl: c.ctl, text: query}, nil
}
func (c *gconn) ExecContext(ctx context.Context, query string, args []driver.NamedValue) (driver.Result, error) {
	return c.in.(driver.ExecerContext).ExecContext(ctx, query, args)
}
func (c *gconn) QueryContext(ctx context.Context, query string, args []driver.NamedValue) (driver.Rows, error) {
	return c.in.(driver.QueryerContext).QueryContext(ctx, query, args)
}
func (c *gconn) Ping(ctx context.Context) error { return c.in.(driver.Pinger).Ping(ctx) }
func (c *gconn) ResetSession(ctx context.Context) error {
	return c.in.(driver.SessionResetter).ResetSession(ctx)
}

type gstmt struct {
	in   driver.Stmt
	ctl  *controller
	text string
}

func (s *gstmt) Close() error  { return s.in.Close() }
func (s *gstmt) NumInput() int { return s.in.NumInput() }
func (s *gstmt) Exec(args []driver.Value) (driver.Result, error) {
	return s.in.Exec(args) //nolint
}
func (s *gstmt) Query(args []driver.Value) (driver.Rows, error) {
	return s.in.Query(args) //nolint
}
func (s *gstmt) gate(ctx context.Context) error {
	a := actorOf(ctx)
	if a == nil {
		return nil
	}
	switch s.ctl.parkExec(a, s.text) {
	case 1:
		return driver.ErrBadConn
	case 2:
		return errExec
	}
	return nil
}
func (s *gstmt) ExecContext(ctx context.Context, args []driver.NamedValue) (driver.Result, error) {
	if err := s.gate(ctx); err != nil {
		return nil, err
	}
	return s.in.(driver.StmtExecContext).ExecContext(ctx, args)
}
func (s *gstmt) QueryContext(ctx context.Context, args []driver.NamedValue) (driver.Rows, error) {
	if err := s.gate(ctx); err != nil {
		return nil, err
	}
	return s.in.(driver.StmtQueryContext).QueryContext(ctx, args)
}
