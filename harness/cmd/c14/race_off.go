//go:build !race

package main

const raceEnabled = false
