// pool.go: the pool of structurally different model types used by the C07 rounds.
// Every model has ID/Name/Val, explicit ids only, no time fields, no soft delete, no hooks.
package main

import (
	"database/sql"
	"time"
	"context"
	"fmt"
	"reflect"
	"sort"
	"strings"
	"sync"

	"gorm.io/gorm"
	"gorm.io/gorm/schema"
)

// ---- chain3a: A has-many B, B belongs-to A, B has-many C, C belongs-to B ----
type ChA struct {
	ID   int64
	Name string
	Val  int64
	Bs   []ChB
}
type ChB struct {
	ID    int64
	Name  string
	Val   int64
	ChAID int64
	ChA   *ChA
	Cs    []ChC
}
type ChC struct {
	ID    int64
	Name  string
	Val   int64
	ChBID int64
	ChB   *ChB
}

// ---- chain3b: same shape, different field sets ----
type KnA struct {
	ID   int64
	Name string
	Val  int64
	Note string
	Bs   []KnB
}
type KnB struct {
	ID    int64
	Name  string
	Val   int64
	Flag  bool
	KnAID int64
	KnA   *KnA
	Cs    []KnC
}
type KnC struct {
	ID    int64
	Name  string
	Val   int64
	Score float64
	KnBID int64
	KnB   *KnB
}

// ---- cycle3: A has-one B, B has-one C, C has-one A ----
type CyA struct {
	ID    int64
	Name  string
	Val   int64
	CyCID int64
	CyB   *CyB
}
type CyB struct {
	ID    int64
	Name  string
	Val   int64
	CyAID int64
	CyC   *CyC
}
type CyC struct {
	ID    int64
	Name  string
	Val   int64
	CyBID int64
	CyA   *CyA
}

// ---- star: hub has-many three leaf types, leaves belong-to hub ----
type StHub struct {
	ID   int64
	Name string
	Val  int64
	L1s  []StL1
	L2s  []StL2
	L3s  []StL3
}
type StL1 struct {
	ID      int64
	Name    string
	Val     int64
	StHubID int64
	StHub   *StHub
}
type StL2 struct {
	ID      int64
	Name    string
	Val     int64
	Tag     string
	StHubID int64
	StHub   *StHub
}
type StL3 struct {
	ID      int64
	Name    string
	Val     int64
	On      bool
	StHubID int64
	StHub   *StHub
}

// ---- star2: second star, one leaf without back reference, other scalars ----
type SxHub struct {
	ID   int64
	Name string
	Val  int64
	Rate float64
	Ps   []SxP
	Qs   []SxQ
	Rs   []SxR
}
type SxP struct {
	ID      int64
	Name    string
	Val     int64
	SxHubID int64
	SxHub   *SxHub
}
type SxQ struct {
	ID      int64
	Name    string
	Val     int64
	Cnt     int32
	SxHubID int64
}
type SxR struct {
	ID      int64
	Name    string
	Val     int64
	Blob    []byte
	SxHubID int64
	SxHub   *SxHub
}

// ---- self ----
type SelfT struct {
	ID       int64
	Name     string
	Val      int64
	ParentID int64
	Parent   *SelfT
	Children []SelfT `gorm:"foreignKey:ParentID"`
}

// ---- pair x3 ----
type P1A struct {
	ID   int64
	Name string
	Val  int64
	Bs   []P1B
}
type P1B struct {
	ID    int64
	Name  string
	Val   int64
	P1AID int64
}
type P2A struct {
	ID   int64
	Name string
	Val  int64
	Memo string
}
type P2B struct {
	ID    int64
	Name  string
	Val   int64
	P2AID int64
	P2A   *P2A
}
type P3A struct {
	ID   int64
	Name string
	Val  int64
	Bs   []P3B
}
type P3B struct {
	ID    int64
	Name  string
	Val   int64
	W     float64
	P3AID int64
	P3A   *P3A
}

// ---- m2m (both directions, one join table) ----
type MmA struct {
	ID   int64
	Name string
	Val  int64
	Bs   []MmB `gorm:"many2many:mm_a_bs"`
}
type MmB struct {
	ID   int64
	Name string
	Val  int64
	As   []MmA `gorm:"many2many:mm_a_bs"`
}

// ---- embedded ----
type EmInfo struct {
	Code  string
	Score int64
}
type EmA struct {
	ID   int64
	Name string
	Val  int64
	EmInfo
	Items []EmItem
}
type EmItem struct {
	ID    int64
	Name  string
	Val   int64
	EmAID int64
}

// ---- unrelated singles ----
type U1 struct {
	ID   int64
	Name string
	Val  int64
}
type U2 struct {
	ID   int64
	Name string
	Val  int64
	S    string
}
type U3 struct {
	ID   int64
	Name string
	Val  int64
	N    int32
}
type U4 struct {
	ID   int64
	Name string
	Val  int64
	B    bool
}
type U5 struct {
	ID   int64
	Name string
	Val  int64
	F    float64
}
type U6 struct {
	ID   int64
	Name string
	Val  int64
	Raw  []byte
}
type U7 struct {
	ID   int64
	Name string
	Val  int64
	S1   string
	S2   string
	N    int
}
type U8 struct {
	ID   int64
	Name string
	Val  int64
	F    float64
	B    bool
	Raw  []byte
}

// ---- fan: several parent types (has-many / has-one) sharing ONE child type; the child has the
// foreign keys but no relation field, so parsing it does not parse the parents ----
type FnKid struct {
	ID     int64
	Name   string
	Val    int64
	FnP1ID int64
	FnP2ID int64
	FnP3ID int64
	FnP4ID int64
	FnP5ID int64
}
type FnP1 struct {
	ID   int64
	Name string
	Val  int64
	Kids []FnKid
}
type FnP2 struct {
	ID   int64
	Name string
	Val  int64
	Note string
	Kids []FnKid
}
type FnP3 struct {
	ID   int64
	Name string
	Val  int64
	Kid  *FnKid
}
type FnP4 struct {
	ID   int64
	Name string
	Val  int64
	Flag bool
	Kids []FnKid
}
type FnP5 struct {
	ID    int64
	Name  string
	Val   int64
	Score float64
	Kid   *FnKid
}

// ---- serial: a field whose own type implements schema.SerializerInterface (the scanned value is
// decoded into a serializer instance taken from the field's scan-value pool) ----
type SzSecret string

func (s *SzSecret) Scan(ctx context.Context, field *schema.Field, dst reflect.Value, dbValue interface{}) error {
	var raw string
	switch v := dbValue.(type) {
	case []byte:
		raw = string(v)
	case string:
		raw = v
	case nil:
		*s = ""
		return nil
	default:
		return fmt.Errorf("SzSecret: unsupported data %#v", dbValue)
	}
	// decode part by part, like a decoder that fills its receiver incrementally
	*s = ""
	for _, part := range strings.Split(strings.TrimPrefix(raw, "enc:"), "-") {
		if *s != "" {
			*s += "-"
		}
		*s += SzSecret(part)
	}
	return nil
}

func (s SzSecret) Value(ctx context.Context, field *schema.Field, dst reflect.Value, fieldValue interface{}) (interface{}, error) {
	return "enc:" + string(s), nil
}

type SzDoc struct {
	ID     int64
	Name   string
	Val    int64
	Secret SzSecret
}
type SzNote struct {
	ID     int64
	Name   string
	Val    int64
	Title  string
	Secret SzSecret
	Other  SzSecret
}

// ---- softdel: a relation field declared BEFORE the soft-delete field (the delete/query clauses of
// DeletedAt and the relation are attached after the schema is published) ----
type SdP struct {
	ID        int64
	Name      string
	Val       int64
	Kids      []SdK
	DeletedAt gorm.DeletedAt
}
type SdK struct {
	ID        int64
	Name      string
	Val       int64
	SdPID     int64
	DeletedAt gorm.DeletedAt
}

// ---- poly: polymorphic has-many / has-one (with polymorphicValue) onto one toy type ----
type PlToy struct {
	ID        int64
	Name      string
	Val       int64
	OwnerID   int64
	OwnerType string
}
type PlOwnerA struct {
	ID   int64
	Name string
	Val  int64
	Toys []PlToy `gorm:"polymorphic:Owner"`
}
type PlOwnerB struct {
	ID   int64
	Name string
	Val  int64
	Toy  *PlToy `gorm:"polymorphic:Owner;polymorphicValue:bee"`
}

// ---- m2mx: self-referential many2many and many2many with explicit join keys ----
type MxUser struct {
	ID      int64
	Name    string
	Val     int64
	Friends []MxUser `gorm:"many2many:mx_friends"`
}
type MxTag struct {
	ID   int64
	Name string
	Val  int64
}
type MxPost struct {
	ID   int64
	Name string
	Val  int64
	Tags []MxTag `gorm:"many2many:mx_post_tags;joinForeignKey:PostRef;joinReferences:TagRef"`
}

// ---- embrel: a relation declared inside an embedded struct, column prefix ----
type EbUser struct {
	ID   int64
	Name string
	Val  int64
}
type EbAudit struct {
	Note     string
	EbUserID int64
	EbUser   *EbUser
}
type EbDoc struct {
	ID   int64
	Name string
	Val  int64
	EbAudit
}
type EbPref struct {
	ID   int64
	Name string
	Val  int64
	Meta EbMeta `gorm:"embedded;embeddedPrefix:m_"`
}
type EbMeta struct {
	Tag   string
	Count int64
}

// ---- fields: every field kind whose setup installs a setter / serializer / pool / time tracking ----
type FdInfo struct {
	A string
	B int64
}
type FdAll struct {
	ID        int64
	Name      string
	Val       int64
	U         uint32
	F32       float32
	B         bool
	At        time.Time
	PAt       *time.Time
	PS        *string
	PI        *int64
	NS        sql.NullString
	NI        sql.NullInt64
	J         FdInfo   `gorm:"serializer:json"`
	G         []string `gorm:"serializer:gob"`
	Ux        int64    `gorm:"serializer:unixtime;type:datetime"`
	CreatedAt time.Time
	UpdatedAt time.Time
	UpMs      int64  `gorm:"autoUpdateTime:milli"`
	Cr        string `gorm:"<-:create;size:20"`
	Def       int64  `gorm:"default:7"`
}

// ---- hooked: model hooks (schema flags set by reflection on first use; hooks run per goroutine) and a
// custom table name ----
type HkDoc struct {
	ID    int64
	Name  string
	Val   int64
	Stamp string
	Seen  int64 `gorm:"-"`
}

func (d *HkDoc) BeforeCreate(tx *gorm.DB) error { d.Stamp = "bc"; return nil }
func (d *HkDoc) BeforeUpdate(tx *gorm.DB) error {
	if tx.Statement.Changed("Val") {
		tx.Statement.SetColumn("Stamp", "bu")
	}
	return nil
}
func (d *HkDoc) AfterFind(tx *gorm.DB) error { d.Seen = d.Val + 1; return nil }

type TbDoc struct {
	ID   int64
	Name string
	Val  int64
}

func (TbDoc) TableName() string { return "tb_docs_custom" }

// ---- keyed: relations through tags and non-primary keys (parsed on first use; not driven by the
// generic operations): belongs-to by a unique code, many2many with foreignKey/references,
// polymorphic with polymorphicType/polymorphicId, a relation inside a NAMED embedded struct ----
type KyOwner struct {
	ID   int64
	Name string
	Val  int64
	Code string `gorm:"uniqueIndex;size:32"`
}
type KyItem struct {
	ID        int64
	Name      string
	Val       int64
	OwnerCode string
	Owner     *KyOwner `gorm:"foreignKey:OwnerCode;references:Code"`
	Links     []KyOwner `gorm:"many2many:ky_links;foreignKey:Name;references:Code;joinForeignKey:ItemName;joinReferences:OwnerCode"`
}
type KyNote struct {
	ID   int64
	Name string
	Val  int64
	Kind string
	Ref  int64
}
type KyBook struct {
	ID    int64
	Name  string
	Val   int64
	Notes []KyNote `gorm:"polymorphicType:Kind;polymorphicId:Ref;polymorphicValue:book"`
}
type KyAudit struct {
	Note      string
	KyOwnerID int64
	KyOwner   *KyOwner
}
type KyDoc struct {
	ID    int64
	Name  string
	Val   int64
	Audit KyAudit `gorm:"embedded;embeddedPrefix:au_"`
}

// ---- serjoin: the joined model has a field whose type is its own serializer ----
type SjFirm struct {
	ID   int64
	Name string
	Val  int64
	Tag  SzSecret
}
type SjDoc struct {
	ID       int64
	Name     string
	Val      int64
	SjFirmID int64
	SjFirm   *SjFirm
}

// ---- bad (protocol rounds only) ----
type BadP struct {
	ID   int64
	Name string
	Val  int64
	Kids []BadK
}
type BadK struct { // no foreign key for BadP.Kids
	ID   int64
	Name string
	Val  int64
}
type BadOuter struct {
	ID     int64
	Name   string
	Val    int64
	BadPID int64
	BadP   *BadP
}

// BadQ: a well-formed has-many first, then a malformed relation: the failure is found after a
// nested Parse(BadQKid) and a successful guessRelation
type BadQ struct {
	ID   int64
	Name string
	Val  int64
	Oks  []BadQKid
	Kids []BadK
}
type BadQKid struct {
	ID     int64
	Name   string
	Val    int64
	BadQID int64
}

type TypeDesc struct {
	Idx      int
	Name     string
	Family   string
	New      func() interface{} `json:"-"` // pointer to zero struct
	NewSlice func() interface{} `json:"-"` // pointer to empty slice
	Rels     []RelDesc
	Bad      bool
}

type RelDesc struct {
	Field string
	To    int    // pool index
	Kind  string // has_many|has_one|belongs_to|many2many
	FK    string // name of the Go FK field on the side that holds the key ("" for many2many)
	OK    bool
	Hidden bool `json:",omitempty"` // parsed on first use (model config, build closure) but not driven by the generic operations
}

var Pool []TypeDesc
var Families map[string][]int

// derived tables (filled by init)
var poolByName = map[string]int{}
var poolTypes []reflect.Type // struct types
var poolTables []string      // table names under schema.NamingStrategy{}

type relB struct {
	field, to, kind, fk string
	bad, hidden         bool
}

func td[T any](family string, bad bool, rels ...relB) func() TypeDesc {
	return func() TypeDesc {
		var z T
		d := TypeDesc{Name: reflect.TypeOf(z).Name(), Family: family, Bad: bad,
			New:      func() interface{} { return new(T) },
			NewSlice: func() interface{} { return new([]T) }}
		for _, r := range rels {
			d.Rels = append(d.Rels, RelDesc{Field: r.field, To: -1, Kind: r.kind, FK: r.fk, OK: !r.bad, Hidden: r.hidden})
			pendingTo = append(pendingTo, r.to)
		}
		return d
	}
}

var pendingTo []string

func hm(f, to, fk string) relB { return relB{f, to, "has_many", fk, false, false} }
func ho(f, to, fk string) relB { return relB{f, to, "has_one", fk, false, false} }
func bt(f, to, fk string) relB { return relB{f, to, "belongs_to", fk, false, false} }
func mm(f, to string) relB     { return relB{f, to, "many2many", "", false, false} }
func hid(r relB) relB          { r.hidden = true; return r }
func badRel(r relB) relB       { r.bad = true; return r }

func init() {
	defs := []func() TypeDesc{
		td[ChA]("chain3a", false, hm("Bs", "ChB", "ChAID")),
		td[ChB]("chain3a", false, bt("ChA", "ChA", "ChAID"), hm("Cs", "ChC", "ChBID")),
		td[ChC]("chain3a", false, bt("ChB", "ChB", "ChBID")),
		td[KnA]("chain3b", false, hm("Bs", "KnB", "KnAID")),
		td[KnB]("chain3b", false, bt("KnA", "KnA", "KnAID"), hm("Cs", "KnC", "KnBID")),
		td[KnC]("chain3b", false, bt("KnB", "KnB", "KnBID")),
		td[CyA]("cycle3", false, ho("CyB", "CyB", "CyAID")),
		td[CyB]("cycle3", false, ho("CyC", "CyC", "CyBID")),
		td[CyC]("cycle3", false, ho("CyA", "CyA", "CyCID")),
		td[StHub]("star", false, hm("L1s", "StL1", "StHubID"), hm("L2s", "StL2", "StHubID"), hm("L3s", "StL3", "StHubID")),
		td[StL1]("star", false, bt("StHub", "StHub", "StHubID")),
		td[StL2]("star", false, bt("StHub", "StHub", "StHubID")),
		td[StL3]("star", false, bt("StHub", "StHub", "StHubID")),
		td[SxHub]("star2", false, hm("Ps", "SxP", "SxHubID"), hm("Qs", "SxQ", "SxHubID"), hm("Rs", "SxR", "SxHubID")),
		td[SxP]("star2", false, bt("SxHub", "SxHub", "SxHubID")),
		td[SxQ]("star2", false),
		td[SxR]("star2", false, bt("SxHub", "SxHub", "SxHubID")),
		td[SelfT]("self", false, bt("Parent", "SelfT", "ParentID"), hm("Children", "SelfT", "ParentID")),
		td[P1A]("pair1", false, hm("Bs", "P1B", "P1AID")),
		td[P1B]("pair1", false),
		td[P2A]("pair2", false),
		td[P2B]("pair2", false, bt("P2A", "P2A", "P2AID")),
		td[P3A]("pair3", false, hm("Bs", "P3B", "P3AID")),
		td[P3B]("pair3", false, bt("P3A", "P3A", "P3AID")),
		td[MmA]("m2m", false, mm("Bs", "MmB")),
		td[MmB]("m2m", false, mm("As", "MmA")),
		td[EmA]("embedded", false, hm("Items", "EmItem", "EmAID")),
		td[EmItem]("embedded", false),
		td[U1]("single", false),
		td[U2]("single", false),
		td[U3]("single", false),
		td[U4]("single", false),
		td[U5]("single", false),
		td[U6]("single", false),
		td[U7]("single", false),
		td[U8]("single", false),
		td[BadP]("bad", true, badRel(hm("Kids", "BadK", ""))),
		td[BadK]("bad", false),
		td[BadOuter]("bad", true, badRel(bt("BadP", "BadP", "BadPID"))),
		// appended after the first 39 types: corpus files refer to pool indices
		td[FnKid]("fan", false),
		td[FnP1]("fan", false, hm("Kids", "FnKid", "FnP1ID")),
		td[FnP2]("fan", false, hm("Kids", "FnKid", "FnP2ID")),
		td[FnP3]("fan", false, ho("Kid", "FnKid", "FnP3ID")),
		td[FnP4]("fan", false, hm("Kids", "FnKid", "FnP4ID")),
		td[FnP5]("fan", false, ho("Kid", "FnKid", "FnP5ID")),
		td[SzDoc]("serial", false),
		td[SzNote]("serial", false),
		td[SdP]("softdel", false, hm("Kids", "SdK", "SdPID")),
		td[SdK]("softdel", false),
		td[PlToy]("poly", false),
		td[PlOwnerA]("poly", false, hm("Toys", "PlToy", "OwnerID")),
		td[PlOwnerB]("poly", false, ho("Toy", "PlToy", "OwnerID")),
		td[MxUser]("m2mx", false, mm("Friends", "MxUser")),
		td[MxTag]("m2mx", false),
		td[MxPost]("m2mx", false, mm("Tags", "MxTag")),
		td[EbUser]("embrel", false),
		td[EbDoc]("embrel", false, bt("EbUser", "EbUser", "EbUserID")),
		td[EbPref]("embrel", false),
		td[FdAll]("fields", false),
		td[HkDoc]("hooked", false),
		td[TbDoc]("hooked", false),
		td[KyOwner]("keyed", false),
		td[KyItem]("keyed", false, hid(bt("Owner", "KyOwner", "OwnerCode")), hid(mm("Links", "KyOwner"))),
		td[KyNote]("keyed", false),
		td[KyBook]("keyed", false, hid(hm("Notes", "KyNote", "Ref"))),
		td[KyDoc]("keyed", false, hid(bt("KyOwner", "KyOwner", "KyOwnerID"))),
		td[SjFirm]("serjoin", false),
		td[SjDoc]("serjoin", false, bt("SjFirm", "SjFirm", "SjFirmID")),
		td[BadQ]("bad", true, hm("Oks", "BadQKid", "BadQID"), badRel(hm("Kids", "BadK", ""))),
		td[BadQKid]("bad", false),
	}
	Families = map[string][]int{}
	for i, f := range defs {
		d := f()
		d.Idx = i
		Pool = append(Pool, d)
		poolByName[d.Name] = i
		Families[d.Family] = append(Families[d.Family], i)
		poolTypes = append(poolTypes, reflect.TypeOf(d.New()).Elem())
		if tb, ok := d.New().(schema.Tabler); ok {
			poolTables = append(poolTables, tb.TableName())
		} else {
			poolTables = append(poolTables, schema.NamingStrategy{}.TableName(d.Name))
		}
	}
	k := 0
	for i := range Pool {
		for j := range Pool[i].Rels {
			idx, ok := poolByName[pendingTo[k]]
			if !ok {
				panic("pool: unknown relation target " + pendingTo[k])
			}
			Pool[i].Rels[j].To = idx
			k++
		}
	}
}

// relFamilies lists the families that have relations and are usable in db rounds, in a stable order.
func relFamilies() []string {
	var out []string
	for name, idxs := range Families {
		if name == "bad" || name == "single" {
			continue
		}
		_ = idxs
		out = append(out, name)
	}
	sort.Strings(out)
	return out
}

func relOf(t int, field string) *RelDesc {
	for i := range Pool[t].Rels {
		if Pool[t].Rels[i].Field == field {
			return &Pool[t].Rels[i]
		}
	}
	return nil
}

var kindNames = map[schema.RelationshipType]string{
	schema.HasOne: "has_one", schema.HasMany: "has_many", schema.BelongsTo: "belongs_to", schema.Many2Many: "many2many",
}

// poolSelfCheck parses every type serially (own cache each) and compares with the descriptor table.
func poolSelfCheck() error {
	tables := map[string]string{}
	for _, d := range Pool {
		s, err := schema.Parse(d.New(), &sync.Map{}, schema.NamingStrategy{})
		if (err != nil) != d.Bad {
			return fmt.Errorf("pool %s: Bad=%v but parse error=%v", d.Name, d.Bad, err)
		}
		if reflect.TypeOf(d.NewSlice()).Elem().Elem() != poolTypes[d.Idx] {
			return fmt.Errorf("pool %s: NewSlice has the wrong element type", d.Name)
		}
		if d.Bad {
			if d.Name == "BadP" && !strings.Contains(err.Error(), "invalid field found") {
				return fmt.Errorf("pool %s: unexpected error text %q", d.Name, err.Error())
			}
			continue
		}
		if other, dup := tables[s.Table]; dup {
			return fmt.Errorf("pool %s: table %s also used by %s", d.Name, s.Table, other)
		}
		tables[s.Table] = d.Name
		if s.Table != poolTables[d.Idx] {
			return fmt.Errorf("pool %s: table %s != %s", d.Name, s.Table, poolTables[d.Idx])
		}
		if s.PrioritizedPrimaryField == nil || s.PrioritizedPrimaryField.Name != "ID" || len(s.PrimaryFields) != 1 {
			return fmt.Errorf("pool %s: primary key is not ID", d.Name)
		}
		for _, f := range []string{"Name", "Val"} {
			if s.LookUpField(f) == nil {
				return fmt.Errorf("pool %s: field %s missing", d.Name, f)
			}
		}
		// relation names in declaration order
		var got []string
		for _, f := range s.Fields {
			if r, ok := s.Relationships.Relations[f.Name]; ok && r.Field == f && !strings.HasPrefix(f.Name, "_") {
				got = append(got, f.Name)
			}
		}
		n := 0
		for name := range s.Relationships.Relations {
			if !strings.HasPrefix(name, "_") {
				n++
			}
		}
		var want []string
		for _, r := range d.Rels {
			want = append(want, r.Field)
		}
		if n != len(got) || !reflect.DeepEqual(got, want) {
			return fmt.Errorf("pool %s: relations %v (map has %d), descriptor %v", d.Name, got, n, want)
		}
		for _, r := range d.Rels {
			rel := s.Relationships.Relations[r.Field]
			if !r.OK {
				return fmt.Errorf("pool %s.%s: OK=false on a good type", d.Name, r.Field)
			}
			if rel.FieldSchema == nil || rel.FieldSchema.ModelType != poolTypes[r.To] {
				return fmt.Errorf("pool %s.%s: target type mismatch", d.Name, r.Field)
			}
			if kindNames[rel.Type] != r.Kind {
				return fmt.Errorf("pool %s.%s: kind %s, descriptor %s", d.Name, r.Field, rel.Type, r.Kind)
			}
			if r.Kind != "many2many" {
				okFK := false
				for _, ref := range rel.References {
					if ref.ForeignKey.Name == r.FK {
						okFK = true
					}
				}
				if !okFK || (len(rel.References) != 1 && rel.Polymorphic == nil) {
					return fmt.Errorf("pool %s.%s: foreign key mismatch (descriptor %s)", d.Name, r.Field, r.FK)
				}
			}
		}
	}
	// all good types together in ONE cache must also parse (cycle3, self, m2m ...)
	cache := &sync.Map{}
	for _, d := range Pool {
		if d.Family == "bad" {
			continue
		}
		if _, err := schema.Parse(d.New(), cache, schema.NamingStrategy{}); err != nil {
			return fmt.Errorf("pool %s: shared-cache parse: %v", d.Name, err)
		}
	}
	return nil
}
