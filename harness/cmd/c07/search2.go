// search2.go: outcome-directed witness search.  Every goroutine's next visible event tells which
// outcome its next hidden cache read must have (a "build" of T next means the Load of T misses;
// anything else means it hits).  Steps that cannot constrain another goroutine (local steps,
// reads that already have the needed outcome, closes) are taken at once; the search branches
// only on LoadOrStore wins, Deletes and (when entries can be deleted) on hits.
package main

type ws2 struct {
	cfg     [][]protoRel
	events  []PEvent
	perG    [][]int // indices into events, per goroutine
	deletes bool    // some relation can fail: cache entries may disappear
	memo    map[string]bool
	nodes   int
	budget  int
	sched   []int
}

// nextVis returns the next unconsumed event of goroutine g (nil if none), given the number of
// events consumed globally (idx): the first event of g at position >= idx.
func (w *ws2) nextVis(g, idx int) *PEvent {
	l := w.perG[g]
	// binary search would do; lists are short
	for _, i := range l {
		if i >= idx {
			return &w.events[i]
		}
	}
	return nil
}

const (
	mvNone   = iota // cannot / must not step now
	mvEager         // take at once
	mvBranch        // a choice
	mvLast          // a choice of last resort
	mvVisible
)

func (w *ws2) classify(st *mState, g, idx int) int {
	th := &st.Thr[g]
	if len(th.Stack) == 0 {
		if len(th.Todo) == 0 {
			return mvNone
		}
		return mvVisible
	}
	f := &th.Stack[len(th.Stack)-1]
	t := f.Ty
	set := st.Cache[t] >= 0
	hit := func(isSet bool) int {
		if !isSet {
			return mvNone
		}
		if w.deletes {
			return mvBranch
		}
		return mvEager
	}
	switch f.K {
	case kLoad1:
		nv := w.nextVis(g, idx)
		wantMiss := nv != nil && nv.Kind == "build" && nv.Type == t
		if wantMiss {
			if !set {
				return mvEager
			}
			return mvNone
		}
		return hit(set)
	case kBuild:
		return mvVisible
	case kLoad2:
		if set {
			return hit(true)
		}
		return mvEager
	case kStore:
		if set {
			return hit(true)
		}
		return mvBranch
	case kRel:
		if f.I >= len(w.cfg[t]) {
			return mvEager
		}
		tg := w.cfg[t][f.I].To
		tset := st.Cache[tg] >= 0
		nv := w.nextVis(g, idx)
		mustMiss := nv != nil && nv.Kind == "build" && nv.Type == tg
		if mustMiss {
			if !tset {
				return mvEager
			}
			if w.deletes {
				return mvNone
			}
			// the target was published in between although this goroutine builds it next:
			// only possible if that entry disappears again; without deletes a dead end
			return mvNone
		}
		if tset {
			return hit(true)
		}
		return mvLast
	case kNest:
		return mvNone
	case kGuess, kClose:
		return mvEager
	case kDelete:
		return mvBranch
	case kWait:
		if st.Sch[f.R].Closed {
			return mvEager
		}
		return mvNone
	case kRet:
		if len(th.Stack) > 1 {
			return mvEager
		}
		return mvVisible
	}
	return mvNone
}

func (w *ws2) dfs(st *mState, idx int, sid2pid, pid2sid map[int]int) bool {
	w.nodes++
	if w.nodes > w.budget {
		return false
	}
	base := len(w.sched)
	for progress := true; progress; {
		progress = false
		for g := range st.Thr {
			for w.classify(st, g, idx) == mvEager {
				mStep(w.cfg, st, g)
				w.sched = append(w.sched, g)
				progress = true
			}
		}
	}
	if idx == len(w.events) && st.finished() {
		return true
	}
	k := st.key(idx, sid2pid)
	if w.memo[k] {
		w.sched = w.sched[:base]
		return false
	}
	fail := func() bool {
		w.memo[k] = true
		w.sched = w.sched[:base]
		return false
	}
	var moves []int
	if idx < len(w.events) {
		h := w.events[idx].G
		if w.classify(st, h, idx) == mvVisible {
			moves = append(moves, h)
		}
	}
	var last []int
	for g := range st.Thr {
		switch w.classify(st, g, idx) {
		case mvBranch:
			moves = append(moves, g)
		case mvLast:
			last = append(last, g)
		}
	}
	moves = append(moves, last...)
	for _, g := range moves {
		n := st.clone()
		ok, v := mStep(w.cfg, n, g)
		if !ok {
			continue
		}
		nidx := idx
		addS, addP := -1, -1
		if v != nil {
			if idx >= len(w.events) || !matches(v, w.events[idx], sid2pid, pid2sid) {
				continue
			}
			if v.Kind == "ret" {
				if _, ok := sid2pid[v.Sid]; !ok {
					sid2pid[v.Sid], pid2sid[w.events[idx].Pid] = w.events[idx].Pid, v.Sid
					addS, addP = v.Sid, w.events[idx].Pid
				}
			}
			nidx++
		}
		mark := len(w.sched)
		w.sched = append(w.sched, g)
		if w.dfs(n, nidx, sid2pid, pid2sid) {
			return true
		}
		w.sched = w.sched[:mark]
		if addS >= 0 {
			delete(sid2pid, addS)
			delete(pid2sid, addP)
		}
		if w.nodes > w.budget {
			break
		}
	}
	return fail()
}

// findWitness2: the outcome-directed search first, the plain exhaustive search as a fallback.
func findWitness2(cfg [][]protoRel, progs [][]int, warm bool, events []PEvent, budget int) (sched []int, found, exhausted bool, nodes int) {
	w := &ws2{cfg: cfg, events: events, memo: map[string]bool{}, budget: budget, perG: make([][]int, len(progs))}
	for _, rels := range cfg {
		for _, r := range rels {
			if !r.Ok {
				w.deletes = true
			}
		}
	}
	for i, e := range events {
		if e.G >= 0 && e.G < len(progs) {
			w.perG[e.G] = append(w.perG[e.G], i)
		}
	}
	if w.dfs(mInitial(cfg, progs, warm), 0, map[int]int{}, map[int]int{}) {
		return w.sched, true, false, w.nodes
	}
	n1 := w.nodes
	s, f, ex, n2 := findWitness(cfg, progs, warm, events, budget)
	return s, f, ex || (!f && n1 > budget), n1 + n2
}
