// c07: one shared *gorm.DB handle used from many goroutines at once, including the first use of
// each model type.  The parent process writes one RoundSpec per round and runs every round in a
// CHILD process (the same binary, built with -race) so that a crashing round (concurrent map
// access is a fatal error) and its race reports are observed from outside.
package main

import (
	"bytes"
	"context"
	"encoding/json"
	"fmt"
	"os"
	"os/exec"
	"path/filepath"
	"reflect"
	"sort"
	"strings"
	"sync"
	"time"

	"gorm.io/gorm/logger"

	"verifharness/lib"
)

type RoundSpec struct {
	ID    int
	Kind  string // db | proto
	DB    *DBSpec
	Proto *ProtoSpec
}

type RoundObs struct {
	DB, Serial *DBObs
	Proto      *ProtoObs
	Races      []RacePair
	Fatal      string
	ExitCode   int
	TimedOut   bool
	WallMs     int64
	Skipped    bool `json:",omitempty"` // not run: the time budget of the tier was used up by earlier (hung) rounds
}

// childObs is what the child writes to C07_CHILD_OUT.
type childObs struct {
	DB, Serial *DBObs
	Proto      *ProtoObs
}

func childMain(specPath string) {
	b, err := os.ReadFile(specPath)
	lib.Must(err)
	var spec RoundSpec
	lib.Must(json.Unmarshal(b, &spec))
	dir := os.Getenv("C07_CHILD_DIR")
	if dir == "" {
		dir = filepath.Join("/verif/work/C07/rounds", fmt.Sprint(spec.ID))
	}
	var o childObs
	switch spec.Kind {
	case "db":
		if spec.DB == nil {
			lib.Must(fmt.Errorf("db round without DB spec"))
		}
		conc := runDB(*spec.DB, filepath.Join(dir, "conc"), false)
		ser := runDB(*spec.DB, filepath.Join(dir, "serial"), true)
		o.DB, o.Serial = &conc, &ser
	case "proto":
		p := runProto(spec.Proto)
		o.Proto = &p
	default:
		lib.Must(fmt.Errorf("unknown round kind %q", spec.Kind))
	}
	ob, err := json.Marshal(o)
	lib.Must(err)
	lib.Must(os.WriteFile(os.Getenv("C07_CHILD_OUT"), ob, 0o644))
	os.Exit(0)
}

func runRound(exe, roundsDir string, spec RoundSpec) RoundObs {
	var obs RoundObs
	dir := filepath.Join(roundsDir, fmt.Sprint(spec.ID))
	os.RemoveAll(dir)
	lib.Must(os.MkdirAll(dir, 0o755))
	sb, err := json.Marshal(spec)
	lib.Must(err)
	specPath, outPath := filepath.Join(dir, "spec.json"), filepath.Join(dir, "obs.json")
	lib.Must(os.WriteFile(specPath, sb, 0o644))

	ctx, cancel := context.WithTimeout(context.Background(), 45*time.Second)
	defer cancel()
	cmd := exec.CommandContext(ctx, exe)
	cmd.Env = append(os.Environ(),
		"C07_CHILD="+specPath, "C07_CHILD_OUT="+outPath, "C07_CHILD_DIR="+dir,
		"GORACE=halt_on_error=0 exitcode=0 atexit_sleep_ms=0 log_path="+filepath.Join(dir, "race"),
		"GOMAXPROCS="+childProcs())
	var stderr bytes.Buffer
	cmd.Stdout = &stderr
	cmd.Stderr = &stderr
	t0 := time.Now()
	err = cmd.Run()
	obs.WallMs = time.Since(t0).Milliseconds()
	if ctx.Err() == context.DeadlineExceeded {
		obs.TimedOut = true
	}
	if err != nil {
		obs.ExitCode = -1
		if ee, ok := err.(*exec.ExitError); ok {
			obs.ExitCode = ee.ExitCode()
		}
	}
	if b, err := os.ReadFile(outPath); err == nil {
		var co childObs
		if json.Unmarshal(b, &co) == nil {
			obs.DB, obs.Serial, obs.Proto = co.DB, co.Serial, co.Proto
		}
	}
	var logFatal string
	obs.Races, logFatal = parseRaceLogs(filepath.Join(dir, "race.*"))
	obs.Fatal = parseFatal(stderr.String())
	if obs.Fatal == "" {
		obs.Fatal = logFatal
	}
	if obs.Fatal == "" && obs.ExitCode != 0 && !obs.TimedOut {
		s := strings.TrimSpace(stderr.String())
		if len(s) > 300 {
			s = s[:300]
		}
		obs.Fatal = "exit: " + strings.SplitN(s, "\n", 2)[0]
	}
	if os.Getenv("C07_KEEP") == "1" {
		os.WriteFile(filepath.Join(dir, "stderr.txt"), stderr.Bytes(), 0o644)
	} else {
		os.Remove(outPath)
		dbs, _ := filepath.Glob(filepath.Join(dir, "*", "*.db*"))
		for _, f := range dbs {
			os.Remove(f)
		}
	}
	return obs
}

func readSpecFile(path string) RoundSpec {
	b, err := os.ReadFile(path)
	lib.Must(err)
	var c struct {
		Case struct {
			Input RoundSpec `json:"input"`
		} `json:"case"`
	}
	lib.Must(json.Unmarshal(b, &c))
	return c.Case.Input
}

func generated(a lib.Args) []RoundSpec {
	r := lib.NewRng(a.Seed)
	thorough := a.Tier == "thorough"
	nDB, nProto := 30, 100
	gs := []int{2, 8}
	pgs := []int{2, 2, 3, 4, 8}
	if thorough {
		nDB, nProto = 200, 600
		gs = []int{2, 8, 32}
		pgs = []int{2, 3, 4, 8, 16, 32}
	}
	if a.N > 0 {
		nDB, nProto = a.N/4+1, a.N
	}
	var out []RoundSpec
	for i := 0; i < nDB; i++ {
		g := gs[i%len(gs)]
		cold := r.Chance(7, 10)
		prep := r.Bool()
		d := genDB(r.Fork(), g, cold, prep, thorough)
		if i%10 == 9 || os.Getenv("C07_ORBASE") != "" {
			// a shared Session handle whose first condition is a single Or (Where.Build swaps in place)
			d = withOrBase(d)
		}
		if i%2 == 1 {
			// session options, condition forms, Row() on a share of the operations
			sprinkle(r.Fork(), &d)
		}
		out = append(out, RoundSpec{Kind: "db", DB: &d})
	}
	// first use of a statement text from many goroutines at once, with the handle-wide statement cache
	// (Config.PrepareStmt) and with per-operation prepared sessions of a handle opened without it
	nFresh := 8
	fgs := []int{8, 12, 16, 4}
	if thorough {
		nFresh = 40
		fgs = []int{8, 12, 4, 32}
	}
	for i := 0; i < nFresh; i++ {
		d := genFresh(r.Fork(), fgs[i%len(fgs)], false, thorough)
		out = append(out, RoundSpec{Kind: "db", DB: &d})
	}
	for i := 0; i < nFresh; i++ {
		g := fgs[i%len(fgs)]
		var d DBSpec
		if i%2 == 0 {
			d = genFresh(r.Fork(), g, true, thorough)
		} else {
			// ordinary programs, every operation on its own prepared session
			d = genDB(r.Fork(), g, false, false, thorough)
			d.SessionPrep, d.Conns = true, g
		}
		out = append(out, RoundSpec{Kind: "db", DB: &d})
	}
	// several cold parent types sharing one warm child type; serializer-typed fields read by
	// everybody right after open
	nFan, nSer := 4, 4
	if thorough {
		nFan, nSer = 30, 30
	}
	for i := 0; i < nFan; i++ {
		d := genFan(r.Fork(), []int{5, 10, 5, 15}[i%4])
		out = append(out, RoundSpec{Kind: "db", DB: &d})
	}
	for i := 0; i < nSer; i++ {
		d := genSerial(r.Fork(), []int{8, 16, 12, 4}[i%4], thorough)
		out = append(out, RoundSpec{Kind: "db", DB: &d})
	}
	// shared Session handles carrying 3 / 5-7 chain items; first use of statement texts whose
	// preparation fails; staggered cold starts on one soft-delete model
	nShared, nFail, nStag := 16, 4, 4
	if thorough {
		nShared, nFail, nStag = 112, 30, 30
	}
	for i := 0; i < nShared; i++ {
		d := genShared(r.Fork(), i, []int{4, 8, 6, 4}[i%4], thorough)
		out = append(out, RoundSpec{Kind: "db", DB: &d})
	}
	for i := 0; i < nFail; i++ {
		d := genFailingPrepare(r.Fork(), []int{16, 12, 16, 8}[i%4], i%4 == 3, thorough)
		out = append(out, RoundSpec{Kind: "db", DB: &d})
	}
	// combinations of Session options on the shared handle; concurrent readers through Joins("Rel")
	nMix, nJoin := 4, 4
	if thorough {
		nMix, nJoin = 40, 40
	}
	for i := 0; i < nMix; i++ {
		d := genSessMix(r.Fork(), []int{4, 8, 6, 12}[i%4], thorough)
		out = append(out, RoundSpec{Kind: "db", DB: &d})
	}
	for i := 0; i < nJoin; i++ {
		d := genJoinReaders(r.Fork(), []int{8, 16, 12, 4}[i%4], thorough)
		out = append(out, RoundSpec{Kind: "db", DB: &d})
	}
	nBad := 2
	if thorough {
		nBad = 20
	}
	for i := 0; i < nBad; i++ {
		d := genBadDB(r.Fork(), []int{4, 8}[i%2])
		out = append(out, RoundSpec{Kind: "db", DB: &d})
	}
	// first use of a relation in Association mode / Delete with Select(association) by everybody at once
	nAssoc := 8
	if thorough {
		nAssoc = 60
	}
	for i := 0; i < nAssoc; i++ {
		d := genAssocFirst(r.Fork(), i, []int{8, 4, 12, 6}[i%4], thorough)
		out = append(out, RoundSpec{Kind: "db", DB: &d})
	}
	for i := 0; i < nStag; i++ {
		d := genStaggered(r.Fork(), []int{6, 4, 8, 3}[i%4])
		out = append(out, RoundSpec{Kind: "db", DB: &d})
	}
	for i := 0; i < nProto; i++ {
		p := genProto(r.Fork(), pgs[i%len(pgs)], thorough)
		out = append(out, RoundSpec{Kind: "proto", Proto: &p})
	}
	// the rounds are independent: run them in a seeded random order, so that on a loaded machine the
	// time budget (runBudget) drops a share of EVERY kind of round instead of the kinds generated last
	lib.Shuffle(r, out)
	return out
}

const ruleText = "rounds = (a) database rounds: G goroutines released together on ONE shared *gorm.DB (fresh gorm.Open per round, SQLite file, cold or warm schema cache, with/without PrepareStmt, 1 or 4 connections), each running a fully expanded program of create/create_batch/find/first/count/preload/joins/update/updates/delete/tx/association ops on its own id range (plus rounds where, step by step behind a spin barrier, all goroutines issue the SAME never-issued statement text under PrepareStmt, and rounds on a handle opened without PrepareStmt where every operation runs on its own Session{PrepareStmt:true}; shared Session handles carrying 1-7 Joins/Where/Order/Scopes/Select/Omit items to which every goroutine adds one more; first use of statement texts whose preparation fails; cold parents sharing a warm child; serializer-typed fields; staggered cold starts on a soft-delete model with a slow namer; failing models (parse error in the relation phase) used by everybody step by step, each step a first use again, namer sleeping in ColumnName; the first Association-mode / Delete-with-Select(association) use of a relation by all goroutines at the same step) over 1-3 families of the 39-type pool (chains, cycle, stars, self reference, pairs, many2many, embedded, unrelated), compared with the same programs run serially on a fresh database; one round in ten shares a Session handle whose first condition is a single Or; (b) protocol rounds: G goroutines calling schema.Parse on one shared fresh sync.Map with seeded delays in the namer callbacks (a quarter of the rounds, two thirds of the error-path ones: same first type for everybody and a sleep between the second look-up and LoadOrStore), coarse trace (start/build/return) replayed in the Coq model. Every round runs in a child process built with -race; race reports are normalised to pairs of gorm functions. Each round gives 2 cases (3 with the Or handle): part 0 = results/trace/other races, part 1 = races in schema initialisation, part 2 = Where.Build swap. distinct = distinct (kind, G, cache, families, programs) shapes; non-trivial = G >= 2 and (db) at least 2 ops per goroutine or (proto) related model types"

func yn(b bool) string {
	if b {
		return "yes"
	}
	return "no"
}

func summary(spec RoundSpec, obs RoundObs) string {
	cats := [3]int{}
	for _, p := range obs.Races {
		if p.Cat >= 0 && p.Cat < 3 {
			cats[p.Cat]++
		}
	}
	var sb strings.Builder
	fmt.Fprintf(&sb, "round %d %s", spec.ID, spec.Kind)
	if d := spec.DB; d != nil {
		ops := 0
		for _, p := range d.Programs {
			ops += len(p)
		}
		var fams []string
		seen := map[string]bool{}
		for _, t := range d.Types {
			if f := Pool[t].Family; !seen[f] {
				seen[f] = true
				fams = append(fams, f)
			}
		}
		fmt.Fprintf(&sb, " G=%d cold=%v prep=%v conns=%d orbase=%v fam=%s ops=%d", d.G, d.Cold, d.PrepareStmt, d.Conns, d.OrBase, strings.Join(fams, "+"), ops)
	}
	fmt.Fprintf(&sb, " races[cat0=%d cat1=%d cat2=%d]", cats[0], cats[1], cats[2])
	if obs.DB != nil && obs.Serial != nil {
		errs := 0
		for _, rs := range obs.DB.Results {
			for _, r := range rs {
				if r.Err != "" {
					errs++
				}
			}
		}
		fmt.Fprintf(&sb, " results-equal-serial=%s final-equal=%s builds=%d/%d op-errs=%d panics=%d hang=%v noise=%v",
			yn(reflect.DeepEqual(obs.DB.Results, obs.Serial.Results)), yn(obs.DB.Final == obs.Serial.Final),
			len(obs.DB.Builds), len(obs.Serial.Builds), errs, len(obs.DB.Panics), obs.DB.Hang, obs.DB.EnvNoise || obs.Serial.EnvNoise)
		for _, h := range obs.DB.HangInfo {
			fmt.Fprintf(&sb, "\n  hang: %s", h)
		}
		if obs.DB.SetupErr != "" || obs.Serial.SetupErr != "" {
			fmt.Fprintf(&sb, " SETUP-ERROR=%q/%q", obs.DB.SetupErr, obs.Serial.SetupErr)
		}
	} else if spec.Kind == "db" {
		sb.WriteString(" NO-OBSERVATION")
	}
	fmt.Fprintf(&sb, " fatal=%q exit=%d timeout=%v %dms", obs.Fatal, obs.ExitCode, obs.TimedOut, obs.WallMs)
	return sb.String()
}

// firstDiff describes the first operation whose result differs between the two runs.
func firstDiff(spec RoundSpec, obs RoundObs) string {
	if obs.DB == nil || obs.Serial == nil || spec.DB == nil {
		return ""
	}
	for g := range obs.DB.Results {
		if g >= len(obs.Serial.Results) {
			break
		}
		a, b := obs.DB.Results[g], obs.Serial.Results[g]
		for i := range a {
			if i >= len(b) || a[i] != b[i] {
				op, _ := json.Marshal(spec.DB.Programs[g][i])
				var s OpResult
				if i < len(b) {
					s = b[i]
				}
				return fmt.Sprintf("  diff g=%d op=%d %s\n    concurrent: %+v\n    serial:     %+v", g, i, op, a[i], s)
			}
		}
		if len(a) != len(b) {
			return fmt.Sprintf("  diff g=%d: %d results vs %d", g, len(a), len(b))
		}
	}
	return ""
}

func main() {
	logger.Default = logger.Discard // schema.Parse reports parse errors through the package-level logger
	if p := os.Getenv("C07_CHILD"); p != "" {
		childMain(p)
		return
	}
	if os.Getenv("C07_SELFTEST") != "" {
		if err := raceSelfTest(); err != nil {
			fmt.Fprintln(os.Stderr, err)
			os.Exit(1)
		}
		if err := poolSelfCheck(); err != nil {
			fmt.Fprintln(os.Stderr, err)
			os.Exit(1)
		}
		fmt.Fprintf(os.Stderr, "c07 self test ok: %d pool types, %d families\n", len(Pool), len(Families))
		return
	}
	a := lib.ParseArgs()
	if err := poolSelfCheck(); err != nil {
		fmt.Fprintln(os.Stderr, "poolSelfCheck:", err)
		os.Exit(2)
	}
	out := lib.NewOut(a.Out, "C07")
	out.PerFile = 12 // database cases are large terms: evaluate them in parallel
	exe, err := os.Executable()
	if err != nil {
		exe = os.Args[0]
	}
	roundsDir := filepath.Join(a.Out, "rounds")
	os.RemoveAll(roundsDir)
	lib.Must(os.MkdirAll(roundsDir, 0o755))

	var specs []RoundSpec
	kinds := []string{}
	for _, f := range lib.CorpusFiles(a.Corpus) {
		specs = append(specs, readSpecFile(f))
		kinds = append(kinds, "corpus")
	}
	if a.Replay != "" {
		specs = append(specs, readSpecFile(a.Replay))
		kinds = append(kinds, "replay")
	} else {
		for _, s := range generated(a) {
			specs = append(specs, s)
			kinds = append(kinds, "main")
		}
	}
	for i := range specs {
		specs[i].ID = i
	}

	t0 := time.Now()
	results := make([]RoundObs, len(specs))
	sem := make(chan struct{}, parallelChildren())
	var wg sync.WaitGroup
	for i := range specs {
		wg.Add(1)
		sem <- struct{}{}
		go func(i int) {
			defer wg.Done()
			defer func() { <-sem }()
			if time.Since(t0) > runBudget(a.Tier) {
				results[i] = RoundObs{Skipped: true}
				return
			}
			results[i] = runRound(exe, roundsDir, specs[i])
		}(i)
	}
	wg.Wait()

	pairCount := map[RacePair]int{}
	for i := range specs {
		fmt.Fprintln(os.Stderr, summary(specs[i], results[i]))
		if d := firstDiff(specs[i], results[i]); d != "" {
			fmt.Fprintln(os.Stderr, d)
		}
		for _, p := range results[i].Races {
			pairCount[p]++
		}
		before := len(out.Cases)
		emit(out, specs[i], results[i])
		for j := before; j < len(out.Cases); j++ {
			if kinds[i] != "main" {
				out.Cases[j].Kind = kinds[i]
			}
		}
	}
	var ps []RacePair
	for p := range pairCount {
		ps = append(ps, p)
	}
	sort.Slice(ps, func(i, j int) bool {
		if ps[i].Cat != ps[j].Cat {
			return ps[i].Cat < ps[j].Cat
		}
		if ps[i].A != ps[j].A {
			return ps[i].A < ps[j].A
		}
		return ps[i].B < ps[j].B
	})
	for _, p := range ps {
		fmt.Fprintf(os.Stderr, "race cat%d x%d  %s <-> %s  (in-parse %v/%v)\n", p.Cat, pairCount[p], p.A, p.B, p.AInParse, p.BInParse)
	}
	fmt.Fprintf(os.Stderr, "c07: %d rounds in %.1fs\n", len(specs), time.Since(t0).Seconds())
	out.Extra["rule"] = ruleText
	lib.Must(out.Flush())
}

// childProcs: GOMAXPROCS of a child (4 children run in parallel).
func childProcs() string {
	if v := os.Getenv("C07_CHILD_PROCS"); v != "" {
		return v
	}
	return "4"
}

func parallelChildren() int {
	n := 4
	if v := os.Getenv("C07_PAR"); v != "" {
		fmt.Sscan(v, &n)
	}
	if n < 1 {
		n = 1
	}
	return n
}

// runBudget: after this much wall time no further round is started (rounds that hang take their
// watchdog time; the run must end inside the driver's harness timeout and report what it has).
func runBudget(tier string) time.Duration {
	if tier == "thorough" {
		return 1800 * time.Second
	}
	return 100 * time.Second
}
