// emit.go: turns one round (spec + observation) into the Gallina cases of C07_Check and the
// statistics of the run.
package main

import (
	"fmt"
	"hash/fnv"
	"sort"
	"strings"
	"time"

	"verifharness/lib"
)

var searchSpent time.Duration

const sigCold = "cold-related-first-use"
const sigOrBase = "shared-or-first-session-where-swap"
const sigPrepPool = "preparestmt-tx-pool-smaller-than-goroutines"

func digest(s string) int64 {
	h := fnv.New64a()
	h.Write([]byte(s))
	return int64(h.Sum64() & (1<<62 - 1))
}

func gRel(r protoRel) string { return lib.App("mk_rel", lib.Nat(r.To), lib.Bool(r.Ok)) }
func gCfg(cfg [][]protoRel) string {
	return lib.ListOf(cfg, func(l []protoRel) string { return lib.ListOf(l, gRel) })
}
func gNats(l []int) string { return lib.ListOf(l, lib.Nat) }
func gProgs(p [][]int) string {
	return lib.ListOf(p, gNats)
}
func gEvent(e PEvent) string {
	switch e.Kind {
	case "start":
		return lib.App("VStart", lib.Nat(e.G), lib.Nat(e.Type))
	case "build":
		return lib.App("VBuild", lib.Nat(e.G), lib.Nat(e.Type))
	}
	return lib.App("VRet", lib.Nat(e.G), lib.Nat(e.Type), lib.Nat(e.Pid), lib.Bool(e.Err))
}

type res3 struct {
	Err  bool
	A, B int64
}

func gRes(r res3) string { return lib.Pair(lib.Pair(lib.Bool(r.Err), lib.Z(r.A)), lib.Z(r.B)) }
func gResults(rs [][]res3) string {
	return lib.ListOf(rs, func(l []res3) string { return lib.ListOf(l, gRes) })
}

type race3 struct {
	Cat  int
	A, B string
}

func gRace(r race3) string {
	return lib.Pair(lib.Pair(lib.Nat(r.Cat), lib.Str(r.A)), lib.Str(r.B))
}

// related: do the types (pool indices) contain a relation between two distinct types?
func related(types []int) bool {
	in := map[int]bool{}
	for _, t := range types {
		in[t] = true
	}
	for _, t := range types {
		for _, r := range Pool[t].Rels {
			if r.To != t && in[r.To] {
				return true
			}
		}
	}
	return false
}

// coldTypes: relation closure of the types used, minus what the warm-up already parsed.
func coldTypes(used, warm []int) []int {
	w := map[int]bool{}
	for _, t := range closureOf(warm) {
		w[t] = true
	}
	var out []int
	for _, t := range closureOf(used) {
		if !w[t] {
			out = append(out, t)
		}
	}
	return out
}

func isWhereSwap(p RacePair) bool {
	in := func(s string) bool {
		return strings.HasSuffix(s, "clause.Where.Build") || strings.HasSuffix(s, "clause.buildExprs")
	}
	return in(p.A) && in(p.B)
}

type caseData struct {
	kind               int
	valid              bool
	cfg                [][]protoRel
	progs              [][]int
	warm, searched     bool
	sched              []int
	events             []PEvent
	closed             []bool
	conc, serial       [][]res3
	optys              [][]int
	finalC, finalS     int64
	used, builds       []int
	prewarm            []int
	bad                int64
	races              []race3
}

func (c caseData) term(part int) string {
	if part > 0 {
		// parts 1-3 judge race categories / the hang flag only: the results, the trace and the
		// schedule are carried by part 0
		c.conc, c.serial, c.events, c.closed, c.sched, c.optys = nil, nil, nil, nil, nil, nil
	}
	return lib.App("mk_case", lib.Nat(part), lib.Nat(c.kind), lib.Bool(c.valid),
		gCfg(c.cfg), gProgs(c.progs), lib.Bool(c.warm), lib.Bool(c.searched), gNats(c.sched),
		lib.ListOf(c.events, gEvent), lib.ListOf(c.closed, lib.Bool),
		gResults(c.conc), gResults(c.serial), gProgs(c.optys), lib.Z(c.finalC), lib.Z(c.finalS),
		gNats(c.used), gNats(c.prewarm), gNats(c.builds), lib.Z(c.bad), lib.ListOf(c.races, gRace))
}

func emit(out *lib.Out, spec RoundSpec, obs RoundObs) {
	if obs.Skipped {
		out.Count("rounds_not_run_time_budget", spec.Kind)
		return
	}
	var c caseData
	var sig1, sig2, shape string
	smallPool, hung := false, false
	nontriv := false
	fatalInParse := strings.Contains(obs.Fatal, "[in-parse]")
	orbase := spec.DB != nil && spec.DB.OrBase
	for _, p := range obs.Races {
		cat := p.Cat
		if cat == 1 && orbase && isWhereSwap(p) {
			cat = 3
		}
		c.races = append(c.races, race3{cat, p.A, p.B})
		out.Count("race_pairs", fmt.Sprintf("cat%d %s <-> %s", cat, p.A, p.B))
	}
	if fatalInParse {
		c.races = append(c.races, race3{0, "fatal", obs.Fatal})
	}
	crashed := obs.TimedOut || (obs.Fatal != "" && !fatalInParse)
	switch spec.Kind {
	case "proto":
		ps := spec.Proto
		c.kind, c.cfg, c.progs, c.warm = 0, protoCfg(ps.Types), ps.Programs, ps.Warm
		cold := !ps.Warm
		if cold && ps.G >= 2 && related(ps.Types) {
			sig1 = sigCold
		}
		var fams []string
		seen := map[string]bool{}
		for _, t := range ps.Types {
			if f := Pool[t].Family; !seen[f] {
				seen[f] = true
				fams = append(fams, f)
			}
		}
		shape = fmt.Sprintf("proto|G%d|warm=%v|%s|%v", ps.G, ps.Warm, strings.Join(fams, "+"), ps.Programs)
		nontriv = ps.G >= 2 && related(ps.Types)
		out.Count("proto_G", fmt.Sprint(ps.G))
		out.Count("proto_cache", map[bool]string{true: "warm", false: "cold"}[ps.Warm])
		out.Count("proto_families", strings.Join(fams, "+"))
		if po := obs.Proto; po != nil && !crashed {
			c.valid = true
			c.events = po.Events
			hazardSeen := false
			for _, e := range po.Events {
				if e.Kind == "ret" {
					c.closed = append(c.closed, e.Closed)
					if !e.RelCl && !e.Err {
						hazardSeen = true
					}
				}
			}
			conv := func(rs [][]PRes) (o [][]res3) {
				for _, l := range rs {
					var x []res3
					for _, r := range l {
						x = append(x, res3{r.Err, int64(r.NRel), int64(r.NFields)})
					}
					o = append(o, x)
				}
				return
			}
			c.conc, c.serial = conv(po.Conc), conv(po.Serial)
			if po.Hang {
				c.bad++
			}
			// the search is bounded per round and over the whole run: a trace that is not a trace
			// of the model (a changed protocol) must not eat the time budget of the check
			budget := 80000
			anyOpen := false
			for _, b := range c.closed {
				if !b {
					anyOpen = true
				}
			}
			var sched []int
			found, exhausted := false, true
			t0 := time.Now()
			if !anyOpen && searchSpent < 20*time.Second {
				sched, found, exhausted, _ = findWitness2(c.cfg, c.progs, c.warm, po.Events, budget)
			}
			searchSpent += time.Since(t0)
			c.sched, c.searched = sched, found || !exhausted
			nodes := 0
			switch {
			case anyOpen:
				// the model never returns an open schema (c07_parse_waits): no witness can exist
				out.Count("witness", "not searched: a return with initialized still open")
			case found:
				out.Count("witness", "found")
			case exhausted:
				out.Count("witness", "no verdict (search budget)")
			default:
				out.Count("witness", "NONE: the observed trace is not a trace of the model")
			}
			_ = nodes
			out.Count("related_schema_open_at_return", fmt.Sprint(hazardSeen))
			if po.MinGap < 200 {
				out.Count("event_time_gap", "<200ns")
			} else {
				out.Count("event_time_gap", ">=200ns")
			}
		} else {
			c.valid = !fatalInParse
			if c.valid {
				c.bad++
			}
		}
	case "db":
		d := spec.DB
		c.kind, c.cfg, c.warm = 1, protoCfg(d.Types), !d.Cold
		dense := map[string]int{}
		for i, t := range d.Types {
			dense[Pool[t].Name] = i
		}
		denseIdx := map[int]int{}
		for i, t := range d.Types {
			denseIdx[t] = i
		}
		usedSet := map[int]bool{}
		var walk func(ops []Op)
		walk = func(ops []Op) {
			for _, o := range ops {
				if o.Kind == "tx" {
					walk(o.Sub)
					continue
				}
				usedSet[denseIdx[o.T]] = true
			}
		}
		for _, p := range d.Programs {
			walk(p)
			c.progs = append(c.progs, nil)
			// the model type of every operation (a transaction block: none, its error is the block's)
			tys := make([]int, len(p))
			for i, o := range p {
				tys[i] = len(d.Types)
				if di, ok := denseIdx[o.T]; ok && o.Kind != "tx" {
					tys[i] = di
				}
			}
			c.optys = append(c.optys, tys)
		}
		for t := range usedSet {
			c.used = append(c.used, t)
		}
		sort.Ints(c.used)
		var usedPool []int
		for _, t := range c.used {
			usedPool = append(usedPool, d.Types[t])
		}
		for _, t := range d.WarmTypes {
			c.prewarm = append(c.prewarm, denseIdx[t])
		}
		// the getOrParse hazard needs two DISTINCT related types that are both cold: a relation whose
		// target was used (hence parsed and closed) before the goroutines started cannot hand out
		// an unfinished schema
		if d.Cold && d.G >= 2 && related(coldTypes(usedPool, d.WarmTypes)) {
			sig1 = sigCold
		}
		if d.OrBase {
			sig2 = sigOrBase
		}
		if d.Shared != nil {
			out.Count("db_shared_handle", fmt.Sprintf("%s x%d", d.Shared.Kind, d.Shared.N))
		}
		if len(d.NamerDelays) > 0 {
			out.Count("db_staggered_cold_start", fmt.Sprint(d.G))
		}
		hasTx, sessPrep := false, false
		for _, p := range d.Programs {
			for _, o := range p {
				// explicit transactions and the default transaction of every write
				switch o.Kind {
				case "tx", "create", "create_batch", "update", "updates", "delete", "fresh_update", "assoc_append", "assoc_replace", "assoc_delete", "assoc_clear", "delete_select":
					hasTx = true
				}
				if strings.Contains(o.Sess, "prep") {
					sessPrep = true
				}
			}
		}
		smallPool = (d.PrepareStmt || d.SessionPrep || sessPrep) && d.Conns < d.G && hasTx
		var fams []string
		seen := map[string]bool{}
		ops := 0
		for _, t := range d.Types {
			if f := Pool[t].Family; !seen[f] {
				seen[f] = true
				fams = append(fams, f)
			}
		}
		kinds := map[string]int{}
		for _, p := range d.Programs {
			ops += len(p)
			for _, o := range p {
				kinds[o.Kind]++
				out.Count("db_op_kinds", o.Kind)
			}
		}
		shape = fmt.Sprintf("db|G%d|cold=%v|prep=%v|sessprep=%v|conns=%d|orbase=%v|shared=%v|stag=%v|%s|ops=%d|%v", d.G, d.Cold, d.PrepareStmt, d.SessionPrep, d.Conns, d.OrBase, d.Shared, len(d.NamerDelays) > 0, strings.Join(fams, "+"), ops, kinds)
		nontriv = d.G >= 2 && ops >= 2*d.G
		out.Count("db_G", fmt.Sprint(d.G))
		out.Count("db_cache", map[bool]string{true: "cold", false: "warm"}[d.Cold])
		out.Count("db_prepare_stmt", map[bool]string{true: "per-operation Session{PrepareStmt}", false: fmt.Sprint(d.PrepareStmt)}[d.SessionPrep])
		out.Count("db_conns", fmt.Sprint(d.Conns))
		out.Count("db_families", strings.Join(fams, "+"))
		if obs.DB != nil && obs.Serial != nil && !crashed {
			c.valid = true
			conv := func(o *DBObs) (out [][]res3) {
				for _, l := range o.Results {
					var x []res3
					for _, r := range l {
						x = append(x, res3{r.Err != "", digest(r.Err + "|" + r.Rows), r.RA})
					}
					out = append(out, x)
				}
				return
			}
			c.conc, c.serial = conv(obs.DB), conv(obs.Serial)
			c.finalC, c.finalS = digest(obs.DB.Final), digest(obs.Serial.Final)
			bs := map[int]bool{}
			for _, b := range obs.DB.Builds {
				if t, ok := dense[b.Type]; ok {
					bs[t] = true
				}
			}
			for t := range bs {
				c.builds = append(c.builds, t)
			}
			sort.Ints(c.builds)
			if smallPool && obs.DB.Hang && !obs.Serial.Hang {
				// PreparedStmtDB.prepare: a transaction waits for a statement another goroutine is
				// preparing, which waits for the connection the transaction holds (part 3)
				hung = true
			}
			for _, o := range []*DBObs{obs.DB, obs.Serial} {
				if o.Hang && !hung {
					c.bad++
				}
				c.bad += int64(len(o.Panics))
				if o.SetupErr != "" {
					c.bad++
				}
			}
			if obs.DB.EnvNoise || obs.Serial.EnvNoise {
				// SQLITE_BUSY is environment, not gorm: the round is not judged
				out.Count("db_env_noise", "round dropped")
				c.valid = false
				c.races = nil
			}
			if hung {
				c.valid = false
			}
			eq := len(c.conc) == len(c.serial)
			out.Count("db_results_equal_serial", fmt.Sprint(eq && fmt.Sprint(c.conc) == fmt.Sprint(c.serial) && c.finalC == c.finalS))
		} else {
			c.valid = !fatalInParse
			if c.valid {
				c.bad++
			}
		}
	}
	for _, r := range c.races {
		out.Count("races_by_category", fmt.Sprintf("cat%d", r.Cat))
	}
	if len(c.races) == 0 {
		out.Count("races_by_category", "none")
	}
	js := map[string]interface{}{"input": spec, "observed": obs}
	out.Add(lib.Case{Term: c.term(0), JSON: js, Sig: "", Shape: shape + "|p0", Nontriv: nontriv, Kind: "main"})
	out.Add(lib.Case{Term: c.term(1), JSON: js, Sig: sig1, Shape: shape + "|p1", Nontriv: nontriv, Kind: "main"})
	if orbase {
		out.Add(lib.Case{Term: c.term(2), JSON: js, Sig: sig2, Shape: shape + "|p2", Nontriv: nontriv, Kind: "main"})
	}
	if smallPool {
		c3 := c
		c3.bad = 0
		if hung {
			c3.bad = 1
		}
		out.Add(lib.Case{Term: c3.term(3), JSON: js, Sig: sigPrepPool, Shape: shape + "|p3", Nontriv: nontriv, Kind: "main"})
		out.Count("db_prepare_small_pool_hang", fmt.Sprint(hung))
	}
	out.Count("kind", spec.Kind)
}
