// race.go: parser of Go race detector reports and of fatal runtime errors of a child process.
package main

import (
	"fmt"
	"os"
	"path/filepath"
	"regexp"
	"sort"
	"strings"
)

type RacePair struct {
	A, B               string
	Cat                int // 0 schema initialisation, 1 other gorm race, 2 no gorm code involved
	AInParse, BInParse bool
}

const parseFn = "gorm.io/gorm/schema.ParseWithSpecialTableName"

var (
	accessHdr = regexp.MustCompile(`^(Previous )?(atomic )?(read|write|Read|Write|Atomic read|Atomic write) at 0x[0-9a-f]+ by (main goroutine|goroutine \d+):`)
	frameFn   = regexp.MustCompile(`^  (\S.*)$`)
	frameLoc  = regexp.MustCompile(`^      \S`)
)

// normFn strips the argument list / "()" of a frame's function text.
func normFn(s string) string {
	s = strings.TrimSpace(s)
	// generic instantiations keep their [...] ; the argument list is the LAST parenthesised group
	if strings.HasSuffix(s, ")") {
		depth := 0
		for i := len(s) - 1; i >= 0; i-- {
			switch s[i] {
			case ')':
				depth++
			case '(':
				depth--
				if depth == 0 {
					return s[:i]
				}
			}
		}
	}
	return s
}

func isRuntimeFn(fn string) bool {
	return strings.HasPrefix(fn, "runtime.") || strings.HasPrefix(fn, "runtime/") || strings.HasPrefix(fn, "internal/")
}

// sideOf summarises one access stack (innermost frame first).
func sideOf(frames []string) (name string, gorm bool, inParse bool) {
	for _, f := range frames {
		if f == parseFn {
			inParse = true
		}
	}
	for _, f := range frames {
		if strings.HasPrefix(f, "gorm.io/gorm") && !strings.HasPrefix(f, "gorm.io/gorm/utils/tests") {
			return f, true, inParse
		}
	}
	for _, f := range frames {
		if !isRuntimeFn(f) {
			return "ext:" + f, false, inParse
		}
	}
	if len(frames) > 0 {
		return "ext:" + frames[0], false, inParse
	}
	return "ext:?", false, inParse
}

// parseRaceText extracts the (normalised, de-duplicated) race pairs of one report stream.
func parseRaceText(text string, seen map[RacePair]bool, pairs *[]RacePair) {
	lines := strings.Split(text, "\n")
	for i := 0; i < len(lines); i++ {
		if !strings.HasPrefix(lines[i], "WARNING: DATA RACE") {
			continue
		}
		var stacks [][]string
		j := i + 1
		for ; j < len(lines); j++ {
			l := lines[j]
			if strings.HasPrefix(l, "==================") || strings.HasPrefix(l, "WARNING: DATA RACE") {
				break
			}
			if accessHdr.MatchString(l) {
				var frames []string
				k := j + 1
				for ; k < len(lines); k++ {
					if strings.TrimSpace(lines[k]) == "" {
						break
					}
					if frameLoc.MatchString(lines[k]) {
						continue
					}
					if m := frameFn.FindStringSubmatch(lines[k]); m != nil {
						if strings.HasPrefix(m[1], "[failed to restore the stack]") {
							continue
						}
						frames = append(frames, normFn(m[1]))
						continue
					}
					break
				}
				stacks = append(stacks, frames)
				j = k - 1
			}
		}
		i = j - 1
		if len(stacks) == 0 {
			continue
		}
		for len(stacks) < 2 {
			stacks = append(stacks, nil)
		}
		a, ag, ap := sideOf(stacks[0])
		b, bg, bp := sideOf(stacks[1])
		if b < a {
			a, b, ag, bg, ap, bp = b, a, bg, ag, bp, ap
		}
		p := RacePair{A: a, B: b, AInParse: ap, BInParse: bp}
		switch {
		case ap || bp:
			p.Cat = 0
		case ag || bg:
			p.Cat = 1
		default:
			p.Cat = 2
		}
		if !seen[p] {
			seen[p] = true
			*pairs = append(*pairs, p)
		}
	}
}

// parseFatal finds a fatal runtime error ("fatal error: concurrent map writes", an uncaught panic,
// a SIGSEGV ...) in a child's stderr: first line + " [in-parse]" when the crashing goroutine's
// stack contains ParseWithSpecialTableName.
func parseFatal(text string) string {
	lines := strings.Split(text, "\n")
	for i, l := range lines {
		if !(strings.HasPrefix(l, "fatal error: ") || strings.HasPrefix(l, "panic: ") || strings.HasPrefix(l, "unexpected fault address") || strings.HasPrefix(l, "SIGSEGV")) {
			continue
		}
		out := strings.TrimSpace(l)
		// the first goroutine block after the message is the crashing goroutine
		inBlock := false
		for _, m := range lines[i+1:] {
			if strings.HasPrefix(m, "goroutine ") && strings.HasSuffix(strings.TrimSpace(m), ":") {
				if inBlock {
					break
				}
				inBlock = true
				continue
			}
			if inBlock {
				if strings.TrimSpace(m) == "" {
					break
				}
				if strings.Contains(m, parseFn+"(") {
					return out + " [in-parse]"
				}
			}
		}
		return out
	}
	return ""
}

// parseRaceLogs reads every file matching glob (GORACE log_path files: <prefix>.<pid>).
func parseRaceLogs(glob string) (pairs []RacePair, fatal string) {
	files, _ := filepath.Glob(glob)
	sort.Strings(files)
	seen := map[RacePair]bool{}
	pairs = []RacePair{}
	for _, f := range files {
		b, err := os.ReadFile(f)
		if err != nil {
			continue
		}
		parseRaceText(string(b), seen, &pairs)
		if fatal == "" {
			fatal = parseFatal(string(b))
		}
	}
	sort.Slice(pairs, func(i, j int) bool {
		if pairs[i].Cat != pairs[j].Cat {
			return pairs[i].Cat < pairs[j].Cat
		}
		if pairs[i].A != pairs[j].A {
			return pairs[i].A < pairs[j].A
		}
		return pairs[i].B < pairs[j].B
	})
	return pairs, fatal
}

const sampleRaceReport = `==================
WARNING: DATA RACE
Write at 0x00c000412340 by goroutine 23:
  runtime.mapassign_faststr()
      /usr/local/go/src/runtime/map_faststr.go:223 +0x0
  gorm.io/gorm/schema.(*Schema).parseRelation()
      /repo/schema/relationship.go:105 +0x6c4
  gorm.io/gorm/schema.ParseWithSpecialTableName()
      /repo/schema/schema.go:342 +0x2d14
  gorm.io/gorm/schema.Parse()
      /repo/schema/schema.go:118 +0x64
  gorm.io/gorm.(*Statement).ParseWithSpecialTableName()
      /repo/statement.go:492 +0x1b0
  main.execOp()
      /verif/harness/cmd/c07/dbround.go:250 +0x40

Previous read at 0x00c000412340 by goroutine 24:
  runtime.mapaccess1_faststr()
      /usr/local/go/src/runtime/map_faststr.go:13 +0x0
  gorm.io/gorm/callbacks.preloadEntryPoint.func1[...]()
      /repo/callbacks/preload.go:80 +0x2c
  gorm.io/gorm/callbacks.Preload()
      /repo/callbacks/query.go:270 +0x9c
  main.execOp()
      /verif/harness/cmd/c07/dbround.go:260 +0x40

Goroutine 23 (running) created at:
  main.runDB()
      /verif/harness/cmd/c07/dbround.go:400 +0x10
  main.main()
      /verif/harness/cmd/c07/main.go:50 +0x10

Goroutine 24 (finished) created at:
  main.runDB()
      /verif/harness/cmd/c07/dbround.go:400 +0x10
==================
==================
WARNING: DATA RACE
Read at 0x00c000012340 by main goroutine:
  main.shared()
      /x/main.go:10 +0x20

Previous write at 0x00c000012340 by goroutine 7:
  [failed to restore the stack]

Goroutine 7 (running) created at:
  main.main()
      /x/main.go:5 +0x10
==================
==================
WARNING: DATA RACE
Write at 0x00c000412340 by goroutine 23:
  runtime.mapassign_faststr()
      /usr/local/go/src/runtime/map_faststr.go:223 +0x0
  gorm.io/gorm/schema.(*Schema).parseRelation()
      /repo/schema/relationship.go:105 +0x6c4
  gorm.io/gorm/schema.ParseWithSpecialTableName()
      /repo/schema/schema.go:342 +0x2d14

Previous read at 0x00c000412340 by goroutine 29:
  runtime.mapaccess1_faststr()
      /usr/local/go/src/runtime/map_faststr.go:13 +0x0
  gorm.io/gorm/callbacks.preloadEntryPoint.func1[...]()
      /repo/callbacks/preload.go:80 +0x2c
==================
==================
WARNING: DATA RACE
Read at 0x00c000099000 by goroutine 9:
  gorm.io/gorm/clause.Where.Build()
      /repo/clause/where.go:33 +0x11c
  gorm.io/gorm/clause.Clause.Build()
      /repo/clause/clause.go:56 +0x1c8

Previous write at 0x00c000099000 by goroutine 11:
  gorm.io/gorm/clause.Where.Build()
      /repo/clause/where.go:35 +0x1e0
==================
`

const sampleFatal = `some output
fatal error: concurrent map read and map write

goroutine 52 [running]:
gorm.io/gorm/schema.(*Schema).LookUpField(...)
	/repo/schema/schema.go:90
gorm.io/gorm/schema.(*Schema).guessRelation(0xc000170000, 0xc0001a0000, 0xc000180000, 0x0)
	/repo/schema/relationship.go:520 +0x5a5
gorm.io/gorm/schema.ParseWithSpecialTableName({0x9a0a20, 0xc000190000}, 0xc00011e000, {0xb0a0c8, 0xc00011c000}, {0x0, 0x0})
	/repo/schema/schema.go:342 +0x2d14

goroutine 1 [semacquire]:
sync.runtime_Semacquire(0xc0000a0000?)
`

func raceSelfTest() error {
	var pairs []RacePair
	seen := map[RacePair]bool{}
	parseRaceText(sampleRaceReport, seen, &pairs)
	want := []RacePair{
		{A: "gorm.io/gorm/callbacks.preloadEntryPoint.func1[...]", B: "gorm.io/gorm/schema.(*Schema).parseRelation", Cat: 0, AInParse: false, BInParse: true},
		{A: "ext:?", B: "ext:main.shared", Cat: 2},
		{A: "gorm.io/gorm/clause.Where.Build", B: "gorm.io/gorm/clause.Where.Build", Cat: 1},
	}
	if len(pairs) != len(want) {
		return fmt.Errorf("race self test: %d pairs, want %d: %+v", len(pairs), len(want), pairs)
	}
	for i := range want {
		if pairs[i] != want[i] {
			return fmt.Errorf("race self test: pair %d = %+v, want %+v", i, pairs[i], want[i])
		}
	}
	if f := parseFatal(sampleFatal); f != "fatal error: concurrent map read and map write [in-parse]" {
		return fmt.Errorf("race self test: fatal = %q", f)
	}
	if f := parseFatal("fatal error: all goroutines are asleep - deadlock!\n\ngoroutine 1 [chan receive]:\nmain.main()\n\t/x.go:1\n"); f != "fatal error: all goroutines are asleep - deadlock!" {
		return fmt.Errorf("race self test: fatal(2) = %q", f)
	}
	if parseFatal("nothing here\n") != "" {
		return fmt.Errorf("race self test: fatal on clean output")
	}
	if n := normFn("a/b.(*T).M(0x1, {0x2, 0x3})"); n != "a/b.(*T).M" {
		return fmt.Errorf("race self test: normFn = %q", n)
	}
	return nil
}
