// dbround.go: database rounds. G goroutines share ONE *gorm.DB; every goroutine works on its own
// id range in every table, so that the result text of every operation and the final dump do not
// depend on the schedule.  Oracle (evaluated elsewhere): concurrent run == serial run.
package main

import (
	"context"
	"bytes"
	"database/sql"
	"errors"
	"fmt"
	"os"
	"path/filepath"
	"reflect"
	"runtime"
	"sort"
	"strconv"
	"strings"
	"sync"
	"sync/atomic"
	"time"

	"gorm.io/driver/sqlite"
	"gorm.io/gorm"
	"gorm.io/gorm/logger"
	"gorm.io/gorm/schema"

	"verifharness/lib"
)

// Op is one fully expanded operation (nothing random at execution time).
type Op struct {
	Kind string  `json:"kind"`          // create create_batch find first count preload joins update updates delete tx assoc_append assoc_find assoc_count assoc_delete assoc_replace assoc_clear
	T    int     `json:"t"`             // pool index of the model type
	ID   int64   `json:"id,omitempty"`  // record id (create first update updates delete assoc_*)
	IDs  []int64 `json:"ids,omitempty"` // create_batch: ids of the records
	Lo   int64   `json:"lo,omitempty"`  // id range carried by every find-like operation
	Hi   int64   `json:"hi,omitempty"`
	Name string  `json:"name,omitempty"` // create/create_batch/updates: Name value
	Val  int64   `json:"val,omitempty"`  // create/update/updates: Val value (create_batch: Val+i)
	FK   string  `json:"fk,omitempty"`   // create/create_batch: Go name of a foreign-key field of T to set ...
	Par  int64   `json:"par,omitempty"`  // ... to this value
	Rel  string  `json:"rel,omitempty"`  // relation field of T (create with nested records, preload, joins, assoc_*)
	RelT int     `json:"rel_t"`          // pool index of the relation's target type
	Kids []int64 `json:"kids,omitempty"` // ids of nested / appended / replaced / deleted related records
	Sub  []Op    `json:"sub,omitempty"`  // tx: operations run on the tx handle
	Fail bool    `json:"fail,omitempty"` // tx: return an error at the end (rollback)
	Sess string  `json:"sess,omitempty"` // the operation runs on handle.Session(<this option>) / WithContext / Debug (tx: "prepintx" = sub-operations on tx.Session(PrepareStmt))
	Cond string  `json:"cond,omitempty"` // find: form of the own-rows condition: "" (text) | struct | map | ids | not | or
	Bare bool    `json:"bare,omitempty"` // assoc_* / delete_select: the parent value carries its primary key only and is NOT read from the database first (nothing but gorm's own code runs between the barrier and the association's first use)
}

type DBSpec struct {
	G           int
	Cold        bool
	PrepareStmt bool
	Conns       int
	Types       []int // pool indices used, all migrated
	Programs    [][]Op
	OrBase      bool
	Shared      *SharedSpec `json:",omitempty"` // a shared Session handle carrying N chain items; shared_find ops add one more
	NamerDelays [][]int     `json:",omitempty"` // concurrent run: microseconds goroutine g sleeps inside its k-th namer.TableName call (cyclic)
	ColDelays   [][]int     `json:",omitempty"` // concurrent run: microseconds goroutine g sleeps inside its k-th namer.ColumnName call (cyclic): between the second cache look-up and LoadOrStore
	NoMigrate   []int `json:",omitempty"` // types of the round that are not migrated (their parse fails)
	WarmTypes   []int `json:",omitempty"` // cold rounds: these types (pool indices) are used once, serially, before the goroutines start
	SessionPrep bool `json:",omitempty"` // handle opened WITHOUT Config.PrepareStmt; every op runs on its own db.Session(&gorm.Session{PrepareStmt: true})
	WatchdogSec int `json:",omitempty"` // 0 = 60: seconds after which a round is declared hung
	SyncOps     int `json:",omitempty"` // the first SyncOps ops of every program start behind a common barrier (0 = 1: start barrier only)
}

// SharedSpec: db.<Kind item> x N .Session(&gorm.Session{}) on the table of pool type T, built once
// before the goroutines start.  Kind: joins | wheres | orders | scopes | selects | omits.
type SharedSpec struct {
	Kind string
	N    int
	T    int
}

type OpResult struct {
	Err  string
	Rows string // canonical text
	RA   int64
}

type BuildEv struct {
	G    int
	Type string
}

type DBObs struct {
	Results  [][]OpResult
	Final    string // canonical dump of all tables
	Builds   []BuildEv
	Hang     bool
	Panics   []string
	EnvNoise bool
	HangInfo []string `json:",omitempty"` // when Hang: one line per blocked worker: state | innermost gorm frame | frame that blocks
	SetupErr string   `json:",omitempty"`
}

const idSpan = 100000

// rows that exist before the programs start when OrBase is set; outside every goroutine's range
const seedLo, seedHi = int64(90000001), int64(90000003)

// ---------------------------------------------------------------- instrumented namer

func goid() int64 {
	var buf [64]byte
	n := runtime.Stack(buf[:], false)
	s := buf[:n]
	s = bytes.TrimPrefix(s, []byte("goroutine "))
	if i := bytes.IndexByte(s, ' '); i > 0 {
		if v, err := strconv.ParseInt(string(s[:i]), 10, 64); err == nil {
			return v
		}
	}
	return -1
}

type recNamer struct {
	schema.NamingStrategy
	gids   *sync.Map // runtime goroutine id -> worker index
	mu     sync.Mutex
	evs    []BuildEv
	delays [][]int // per worker: microseconds slept inside its k-th TableName call (cyclic); nil = none
	calls  []int32
	colDelays [][]int // per worker: microseconds slept inside its k-th ColumnName call (cyclic); nil = none
	colCalls  []int32
}

// ColumnName is called once per column while the fields are parsed, i.e. between the second cache
// look-up and LoadOrStore.
func (n *recNamer) ColumnName(table, column string) string {
	r := n.NamingStrategy.ColumnName(table, column)
	if len(n.colDelays) == 0 {
		return r
	}
	if v, ok := n.gids.Load(goid()); ok {
		if g := v.(int); g >= 0 && g < len(n.colDelays) && len(n.colDelays[g]) > 0 {
			k := int(atomic.AddInt32(&n.colCalls[g], 1)) - 1
			if d := n.colDelays[g][k%len(n.colDelays[g])]; d > 0 {
				time.Sleep(time.Duration(d) * time.Microsecond)
			}
		}
	}
	return r
}

func (n *recNamer) TableName(s string) string {
	r := n.NamingStrategy.TableName(s)
	g := -1
	if v, ok := n.gids.Load(goid()); ok {
		g = v.(int)
	}
	n.mu.Lock()
	n.evs = append(n.evs, BuildEv{G: g, Type: s})
	n.mu.Unlock()
	if g >= 0 && g < len(n.delays) && len(n.delays[g]) > 0 {
		k := int(atomic.AddInt32(&n.calls[g], 1)) - 1
		if d := n.delays[g][k%len(n.delays[g])]; d > 0 {
			time.Sleep(time.Duration(d) * time.Microsecond)
		}
	}
	return r
}

func (n *recNamer) take() []BuildEv {
	n.mu.Lock()
	defer n.mu.Unlock()
	out := append([]BuildEv{}, n.evs...)
	n.evs = nil
	return out
}

// ---------------------------------------------------------------- values and canonical text

func isRelField(f reflect.StructField) bool {
	t := f.Type
	if f.Anonymous {
		return false
	}
	if t.Kind() == reflect.Ptr && t.Elem().Kind() == reflect.Struct {
		return t.Elem() != reflect.TypeOf(time.Time{})
	}
	if t.Kind() == reflect.Slice && t.Elem().Kind() == reflect.Struct {
		return true
	}
	return false
}

// fillExtras gives every extra scalar field a value that is a function of the id only.
func fillExtras(v reflect.Value, id int64) {
	t := v.Type()
	for i := 0; i < t.NumField(); i++ {
		f := t.Field(i)
		fv := v.Field(i)
		if f.Anonymous && f.Type.Kind() == reflect.Struct {
			fillExtras(fv, id)
			continue
		}
		if f.Name == "ID" || f.Name == "Name" || f.Name == "Val" || strings.HasSuffix(f.Name, "ID") || isRelField(f) {
			continue
		}
		if f.Type == reflect.TypeOf(SzSecret("")) {
			// unique per row and per field, in several parts: a value decoded into somebody else's
			// serializer instance, or a torn one, cannot equal the row's own
			fv.SetString(fmt.Sprintf("%s%d-%d-%d-%d-%d-%d", strings.ToLower(f.Name[:1]), id, id, id, id, id, id))
			continue
		}
		if autoFields[f.Name] {
			continue // filled by gorm (time tracking, hooks)
		}
		setExtra(fv, f.Name, id)
	}
}

// fields gorm fills itself; compared as set / zero only
var autoFields = map[string]bool{"CreatedAt": true, "UpdatedAt": true, "UpMs": true, "DeletedAt": true, "Seen": true, "Stamp": true}

// of these, the values that differ from run to run
var clockFields = map[string]bool{"CreatedAt": true, "UpdatedAt": true, "UpMs": true}
var clockColumns = map[string]bool{"created_at": true, "updated_at": true, "up_ms": true, "deleted_at": true}

func setExtra(fv reflect.Value, name string, id int64) {
	switch fv.Kind() {
	case reflect.String:
		if name == "Code" { // unique column
			fv.SetString(fmt.Sprintf("code%d", id))
			return
		}
		fv.SetString(fmt.Sprintf("%s%d", strings.ToLower(name), id%7))
	case reflect.Int, reflect.Int32, reflect.Int64:
		if name == "Def" && id%2 == 0 {
			return // the column default applies
		}
		fv.SetInt(id%13 + 1)
	case reflect.Uint, reflect.Uint32, reflect.Uint64:
		fv.SetUint(uint64(id%11 + 2))
	case reflect.Bool:
		fv.SetBool(id%2 == 0)
	case reflect.Float64, reflect.Float32:
		fv.SetFloat(float64(id%8)/4 + 0.25)
	case reflect.Slice:
		switch fv.Type().Elem().Kind() {
		case reflect.Uint8:
			fv.SetBytes([]byte{byte(id%250 + 1), 7, byte(len(name))})
		case reflect.String:
			fv.Set(reflect.ValueOf([]string{fmt.Sprintf("g%d", id%5), name}))
		}
	case reflect.Ptr:
		if id%2 == 0 {
			return
		}
		p := reflect.New(fv.Type().Elem())
		setExtra(p.Elem(), name, id)
		fv.Set(p)
	case reflect.Struct:
		switch fv.Type() {
		case reflect.TypeOf(time.Time{}):
			fv.Set(reflect.ValueOf(time.Unix(1700000000+id, 0).UTC()))
		case reflect.TypeOf(sql.NullString{}):
			fv.Set(reflect.ValueOf(sql.NullString{String: fmt.Sprintf("ns%d", id%9), Valid: id%3 != 0}))
		case reflect.TypeOf(sql.NullInt64{}):
			fv.Set(reflect.ValueOf(sql.NullInt64{Int64: id % 17, Valid: id%3 == 0}))
		default:
			for i := 0; i < fv.NumField(); i++ {
				sf := fv.Type().Field(i)
				if fv.Field(i).CanSet() && !isRelField(sf) && !strings.HasSuffix(sf.Name, "ID") {
					setExtra(fv.Field(i), sf.Name, id)
				}
			}
		}
	}
}

// newRec builds *T with explicit id.
func newRec(t int, id int64, name string, val int64) reflect.Value {
	p := reflect.New(poolTypes[t])
	v := p.Elem()
	v.FieldByName("ID").SetInt(id)
	v.FieldByName("Name").SetString(name)
	v.FieldByName("Val").SetInt(val)
	fillExtras(v, id)
	return p
}

func bareRec(t int, id int64) reflect.Value {
	p := reflect.New(poolTypes[t])
	p.Elem().FieldByName("ID").SetInt(id)
	return p
}

func kidRec(t int, id int64, name string) reflect.Value {
	return newRec(t, id, "k"+name, id%1000)
}

func canon(v reflect.Value, depth int) string {
	if depth > 8 {
		return "..."
	}
	switch v.Kind() {
	case reflect.Ptr, reflect.Interface:
		if v.IsNil() {
			return "nil"
		}
		return canon(v.Elem(), depth)
	case reflect.Struct:
		t := v.Type()
		if t == reflect.TypeOf(time.Time{}) {
			return "t:" + v.Interface().(time.Time).UTC().Format(time.RFC3339)
		}
		if t == reflect.TypeOf(gorm.DeletedAt{}) {
			if v.Interface().(gorm.DeletedAt).Valid {
				return "deleted"
			}
			return "live"
		}
		var sb strings.Builder
		sb.WriteString(t.Name())
		sb.WriteByte('{')
		for i := 0; i < t.NumField(); i++ {
			if i > 0 {
				sb.WriteByte(',')
			}
			f := t.Field(i)
			if isRelField(f) {
				sb.WriteString(f.Name)
				sb.WriteByte(':')
			}
			if clockFields[f.Name] {
				if v.Field(i).IsZero() {
					sb.WriteString("zero")
				} else {
					sb.WriteString("set")
				}
				continue
			}
			sb.WriteString(canon(v.Field(i), depth+1))
		}
		sb.WriteByte('}')
		return sb.String()
	case reflect.Slice:
		if v.Type().Elem().Kind() == reflect.Uint8 {
			return fmt.Sprintf("x'%x'", v.Bytes())
		}
		idx := make([]int, v.Len())
		for i := range idx {
			idx[i] = i
		}
		if v.Type().Elem().Kind() == reflect.Struct {
			sort.SliceStable(idx, func(a, b int) bool {
				return v.Index(idx[a]).FieldByName("ID").Int() < v.Index(idx[b]).FieldByName("ID").Int()
			})
		}
		parts := make([]string, len(idx))
		for i, j := range idx {
			parts[i] = canon(v.Index(j), depth+1)
		}
		return "[" + strings.Join(parts, ",") + "]"
	case reflect.String:
		return strconv.Quote(v.String())
	case reflect.Int, reflect.Int8, reflect.Int16, reflect.Int32, reflect.Int64:
		return strconv.FormatInt(v.Int(), 10)
	case reflect.Uint, reflect.Uint8, reflect.Uint16, reflect.Uint32, reflect.Uint64:
		return strconv.FormatUint(v.Uint(), 10)
	case reflect.Bool:
		return strconv.FormatBool(v.Bool())
	case reflect.Float32, reflect.Float64:
		return strconv.FormatFloat(v.Float(), 'g', -1, 64)
	}
	return fmt.Sprintf("?%s", v.Kind())
}

// ---------------------------------------------------------------- execution of one op

func errText(err error) string {
	if err == nil {
		return ""
	}
	return err.Error()
}

const between = "id BETWEEN ? AND ?"

// execOp runs op on handle h. base (may be nil) is the shared Or-base handle used by find/count.
func execOp(h *gorm.DB, base *gorm.DB, op Op, panics *[]string, pmu *sync.Mutex) (res OpResult) {
	defer func() {
		if r := recover(); r != nil {
			msg := fmt.Sprintf("panic in %s(%s): %v", op.Kind, Pool[op.T].Name, r)
			res.Err = msg
			pmu.Lock()
			*panics = append(*panics, msg)
			pmu.Unlock()
		}
	}()
	if op.T < 0 || op.T >= len(Pool) || op.RelT < 0 || op.RelT >= len(Pool) {
		return OpResult{Err: "harness: bad type index"}
	}
	d := Pool[op.T]
	done := func(tx *gorm.DB, rows string) OpResult {
		return OpResult{Err: errText(tx.Error), Rows: rows, RA: tx.RowsAffected}
	}
	switch op.Kind {
	case "create":
		rec := newRec(op.T, op.ID, op.Name, op.Val)
		if op.FK != "" {
			rec.Elem().FieldByName(op.FK).SetInt(op.Par)
		}
		if op.Rel != "" && len(op.Kids) > 0 {
			rf := rec.Elem().FieldByName(op.Rel)
			if rf.Kind() == reflect.Slice {
				for _, k := range op.Kids {
					rf.Set(reflect.Append(rf, kidRec(op.RelT, k, op.Name).Elem()))
				}
			} else {
				rf.Set(kidRec(op.RelT, op.Kids[0], op.Name))
			}
		}
		tx := h.Create(rec.Interface())
		return done(tx, canon(rec, 0))
	case "create_batch":
		sl := reflect.New(reflect.SliceOf(poolTypes[op.T]))
		for i, id := range op.IDs {
			rec := newRec(op.T, id, op.Name, op.Val+int64(i))
			if op.FK != "" {
				rec.Elem().FieldByName(op.FK).SetInt(op.Par)
			}
			sl.Elem().Set(reflect.Append(sl.Elem(), rec.Elem()))
		}
		tx := h.Create(sl.Interface())
		return done(tx, canon(sl, 0))
	case "find":
		sl := d.NewSlice()
		var tx *gorm.DB
		if base != nil {
			tx = base.Order("id").Find(sl)
		} else {
			tx = h.Where(between, op.Lo, op.Hi).Order("id").Find(sl)
		}
		return done(tx, canon(reflect.ValueOf(sl), 0))
	case "shared_find":
		// one more chain item on the shared handle; the added item carries the goroutine's own arguments
		if sharedHandle == nil {
			return OpResult{Err: "harness: no shared handle"}
		}
		tbl := poolTables[op.T]
		sl := d.NewSlice()
		var tx *gorm.DB
		switch sharedSpec.Kind {
		case "joins":
			tx = sharedHandle.Joins(fmt.Sprintf("JOIN %s AS px ON px.id = %s.id AND px.id BETWEEN ? AND ?", tbl, tbl), op.Lo, op.Hi).Find(sl)
		case "orders":
			// the orderings of the handle tie; the one added here decides (its direction comes from the op)
			tx = sharedHandle.Order(map[bool]string{true: "val desc", false: "val"}[op.Val%2 == 0]).Where(between, op.Lo, op.Hi).Find(sl)
			return done(tx, canon(reflect.ValueOf(sl), 0)+"|order:"+idOrder(reflect.ValueOf(sl)))
		case "groups":
			tx = sharedHandle.Group("id").Where(between, op.Lo, op.Hi).Find(sl)
		case "preloads":
			tx = sharedHandle.Preload(op.Rel, "id BETWEEN ? AND ?", op.Lo, op.Hi).Where(between, op.Lo, op.Hi).Find(sl)
		case "scopes":
			lo, hi := op.Lo, op.Hi
			tx = sharedHandle.Scopes(func(q *gorm.DB) *gorm.DB { return q.Where(between, lo, hi) }).Find(sl)
		default: // wheres, selects, omits
			tx = sharedHandle.Where(between, op.Lo, op.Hi).Find(sl)
		}
		return done(tx, canon(reflect.ValueOf(sl), 0))
	case "fresh_missing":
		// a never-issued text whose PREPARATION fails (the table does not exist)
		var rows []map[string]interface{}
		tx := h.Table(fmt.Sprintf("missing_%d", op.Par)).Where("id = ?", op.ID).Find(&rows)
		return done(tx, fmt.Sprint(len(rows)))
	case "fresh_missing_exec":
		tx := h.Exec(fmt.Sprintf("UPDATE missing_%d SET name = ? WHERE id = ?", op.Par), "x", op.ID)
		return done(tx, "")
	case "fresh_row":
		// DB.Row(): the never-issued text is prepared from QueryRowContext
		var n int64
		err := h.Model(d.New()).Where(fmt.Sprintf("id = ? AND %d = %d", op.Par, op.Par), op.ID).Select("val").Row().Scan(&n)
		return OpResult{Err: errText(err), Rows: strconv.FormatInt(n, 10)}
	case "fresh_find", "fresh_take", "fresh_update":
		// a statement text that is NEW at this step (the tag op.Par is part of the text) and IDENTICAL
		// for every goroutine at the same step; the bound values select the goroutine's own rows
		switch op.Kind {
		case "fresh_find":
			sl := d.NewSlice()
			tx := h.Where(fmt.Sprintf("id BETWEEN ? AND ? AND %d = %d", op.Par, op.Par), op.Lo, op.Hi).Order("id").Find(sl)
			return done(tx, canon(reflect.ValueOf(sl), 0))
		case "fresh_take":
			rec := d.New()
			tx := h.Where(fmt.Sprintf("id = ? AND %d = %d", op.Par, op.Par), op.ID).Take(rec)
			if tx.Error != nil {
				return done(tx, "")
			}
			return done(tx, canon(reflect.ValueOf(rec), 0))
		default:
			tx := h.Model(d.New()).Where(fmt.Sprintf("id = ? AND %d = %d", op.Par, op.Par), op.ID).Update("val", op.Val)
			return done(tx, "")
		}
	case "first":
		rec := d.New()
		tx := h.Where(between, op.Lo, op.Hi).First(rec, op.ID)
		if tx.Error != nil {
			return done(tx, "")
		}
		return done(tx, canon(reflect.ValueOf(rec), 0))
	case "count":
		var n int64
		var tx *gorm.DB
		if base != nil {
			tx = base.Model(d.New()).Count(&n)
		} else {
			tx = h.Model(d.New()).Where(between, op.Lo, op.Hi).Count(&n)
		}
		return done(tx, strconv.FormatInt(n, 10))
	case "preload":
		sl := d.NewSlice()
		tx := h.Preload(op.Rel).Where(between, op.Lo, op.Hi).Order("id").Find(sl)
		return done(tx, canon(reflect.ValueOf(sl), 0))
	case "joins":
		sl := d.NewSlice()
		tbl := poolTables[op.T]
		tx := h.Joins(op.Rel).Where(tbl+".id BETWEEN ? AND ?", op.Lo, op.Hi).Order(tbl + ".id").Find(sl)
		return done(tx, canon(reflect.ValueOf(sl), 0))
	case "update":
		tx := h.Model(bareRec(op.T, op.ID).Interface()).Update("val", op.Val)
		return done(tx, "")
	case "updates":
		tx := h.Model(bareRec(op.T, op.ID).Interface()).Updates(map[string]interface{}{"name": op.Name, "val": op.Val})
		return done(tx, "")
	case "delete":
		tx := h.Delete(d.New(), op.ID)
		return done(tx, "")
	case "tx":
		var subs []string
		err := h.Transaction(func(tx *gorm.DB) error {
			for _, s := range op.Sub {
				if s.Kind == "tx" {
					// a nested block (save point): its error rolls back ITS rows only; the outer block goes on
					var in []string
					nerr := tx.Transaction(func(tx2 *gorm.DB) error {
						for _, s2 := range s.Sub {
							if s2.Kind == "tx" {
								continue
							}
							r := execOp(tx2, nil, s2, panics, pmu)
							in = append(in, fmt.Sprintf("%s|%s|%d", r.Err, r.Rows, r.RA))
						}
						if s.Fail {
							return errors.New("rollback-inner")
						}
						return nil
					})
					subs = append(subs, "nested["+strings.Join(in, " ; ")+"]:"+errText(nerr))
					continue
				}
				th := tx
				if op.Sess == "prepintx" {
					th = tx.Session(&gorm.Session{PrepareStmt: true})
				}
				r := execOp(th, nil, s, panics, pmu)
				subs = append(subs, fmt.Sprintf("%s|%s|%d", r.Err, r.Rows, r.RA))
			}
			if op.Fail {
				return errors.New("rollback")
			}
			return nil
		})
		return OpResult{Err: errText(err), Rows: "tx[" + strings.Join(subs, " ; ") + "]"}
	case "delete_select":
		// Delete with Select(<association>): the related rows (has one / has many) or join rows
		// (many2many) of the record go first, then the record
		tx := h.Select(op.Rel).Delete(bareRec(op.T, op.ID).Interface())
		return done(tx, "")
	case "assoc_append", "assoc_find", "assoc_count", "assoc_delete", "assoc_replace", "assoc_clear":
		m := d.New()
		if op.Bare {
			m = bareRec(op.T, op.ID).Interface()
		} else if tx := h.Where(between, op.Lo, op.Hi).First(m, op.ID); tx.Error != nil {
			return OpResult{Err: "load: " + tx.Error.Error()}
		}
		a := h.Model(m).Association(op.Rel)
		if a.Error != nil {
			return OpResult{Err: "assoc: " + a.Error.Error()}
		}
		var vals []interface{}
		for _, k := range op.Kids {
			if op.Kind == "assoc_delete" {
				vals = append(vals, bareRec(op.RelT, k).Interface())
			} else {
				vals = append(vals, kidRec(op.RelT, k, op.Name).Interface())
			}
		}
		var err error
		rows := ""
		switch op.Kind {
		case "assoc_append":
			err = a.Append(vals...)
		case "assoc_replace":
			err = a.Replace(vals...)
		case "assoc_delete":
			err = a.Delete(vals...)
		case "assoc_clear":
			err = a.Clear()
		case "assoc_count":
			return OpResult{Err: errText(a.Error), Rows: strconv.FormatInt(a.Count(), 10)}
		case "assoc_find":
			sl := Pool[op.RelT].NewSlice()
			err = a.Find(sl)
			return OpResult{Err: errText(err), Rows: canon(reflect.ValueOf(sl), 0)}
		}
		rows = canon(reflect.ValueOf(m), 0)
		if err == nil {
			rows += ";n=" + strconv.FormatInt(h.Model(m).Association(op.Rel).Count(), 10)
		}
		return OpResult{Err: errText(err), Rows: rows}
	}
	return OpResult{Err: "harness: unknown op kind " + op.Kind}
}

// ---------------------------------------------------------------- the round

func dsnFor(path string, conns int) string {
	dsn := "file:" + path + "?_busy_timeout=30000"
	if conns > 1 {
		dsn += "&_journal_mode=WAL&_txlock=immediate"
	}
	return dsn
}

func runDB(spec DBSpec, dir string, serial bool) (obs DBObs) {
	obs.Results = make([][]OpResult, len(spec.Programs))
	fail := func(where string, err error) DBObs {
		obs.SetupErr = where + ": " + err.Error()
		return obs
	}
	os.RemoveAll(dir)
	if err := os.MkdirAll(dir, 0o755); err != nil {
		return fail("mkdir", err)
	}
	name := "conc"
	if serial {
		name = "serial"
	}
	path := filepath.Join(dir, name+".db")
	conns := spec.Conns
	if conns < 1 {
		conns = 1
	}
	dsn := dsnFor(path, conns)
	if os.Getenv("C07_KEEP") != "1" {
		defer func() {
			for _, suf := range []string{"", "-wal", "-shm", "-journal"} {
				os.Remove(path + suf)
			}
		}()
	}

	// 1. migrate (and seed) with a throw-away handle, so that the handle under test starts cold
	{
		mdb, err := gorm.Open(sqlite.Open(dsn), &gorm.Config{Logger: logger.Discard, DisableForeignKeyConstraintWhenMigrating: true})
		if err != nil {
			return fail("open-migrate", err)
		}
		var models []interface{}
		skip := map[int]bool{}
		for _, t := range spec.NoMigrate {
			skip[t] = true
		}
		for _, t := range spec.Types {
			if t < 0 || t >= len(Pool) || (Pool[t].Bad && !skip[t]) {
				return fail("types", fmt.Errorf("type index %d not usable in a db round", t))
			}
			if !skip[t] {
				models = append(models, Pool[t].New())
			}
		}
		if err := mdb.AutoMigrate(models...); err != nil {
			return fail("migrate", err)
		}
		if spec.OrBase {
			for _, t := range spec.Types {
				for id := seedLo; id <= seedHi; id++ {
					if err := mdb.Create(newRec(t, id, "seed", id-seedLo).Interface()).Error; err != nil {
						return fail("seed", err)
					}
				}
			}
		}
		if sdb, err := mdb.DB(); err == nil {
			sdb.Close()
		}
	}

	// 2. the handle under test
	gids := &sync.Map{}
	namer := &recNamer{gids: gids}
	if !serial && len(spec.NamerDelays) > 0 {
		namer.delays, namer.calls = spec.NamerDelays, make([]int32, len(spec.NamerDelays))
	}
	if !serial && len(spec.ColDelays) > 0 {
		namer.colDelays, namer.colCalls = spec.ColDelays, make([]int32, len(spec.ColDelays))
	}
	db, err := gorm.Open(sqlite.Open(dsn), &gorm.Config{Logger: logger.Discard, PrepareStmt: spec.PrepareStmt && !spec.SessionPrep, NamingStrategy: namer})
	if err != nil {
		return fail("open", err)
	}
	sqlDB, err := db.DB()
	if err != nil {
		return fail("db", err)
	}
	sqlDB.SetMaxOpenConns(conns)
	defer sqlDB.Close()

	warmUp := spec.WarmTypes
	if !spec.Cold {
		warmUp = spec.Types
	}
	for _, t := range warmUp {
		if err := db.Limit(1).Find(Pool[t].NewSlice()).Error; err != nil {
			return fail("warm", err)
		}
	}
	namer.take()

	var base *gorm.DB
	if spec.OrBase {
		// Where.Build swaps Exprs[0] and the first non-Or expression IN PLACE; handles derived from
		// base without a further Where share the Exprs array.
		base = db.Or("id < 0").Where(between, seedLo, seedHi).Session(&gorm.Session{})
	}

	// handle(): the handle an operation runs on.  SessionPrep: the shared handle has no statement
	// cache of its own; every operation derives its own prepared session from it (the store is
	// created once, before the goroutines start).
	handle := func() *gorm.DB { return db }
	if spec.SessionPrep {
		db.Session(&gorm.Session{PrepareStmt: true})
		handle = func() *gorm.DB { return db.Session(&gorm.Session{PrepareStmt: true}) }
	}

	sharedHandle, sharedSpec = nil, spec.Shared
	if sh := spec.Shared; sh != nil {
		sharedHandle = buildShared(db, *sh)
	}

	var pmu sync.Mutex
	runProg := func(g int) {
		prog := spec.Programs[g]
		rs := make([]OpResult, 0, len(prog))
		for _, op := range prog {
			rs = append(rs, runOp(handle(), base, op, &obs.Panics, &pmu))
		}
		obs.Results[g] = rs
	}

	if serial {
		me := goid()
		for g := range spec.Programs {
			gids.Store(me, g)
			runProg(g)
		}
	} else {
		// Barriers: before op 0 and before each of the next SyncOps-1 ops every worker waits until all
		// workers have arrived (spinning on atomics: no mutex, no channel).  In a serial run they mean nothing.
		nsync := spec.SyncOps
		if nsync < 1 {
			nsync = 1
		}
		for _, p := range spec.Programs {
			if len(p) < nsync {
				nsync = len(p)
			}
		}
		arrived := make([]int32, nsync+1)
		var abort int32
		nw := int32(len(spec.Programs))
		wait := func(k int) {
			atomic.AddInt32(&arrived[k], 1)
			for spins := 0; atomic.LoadInt32(&arrived[k]) < nw && atomic.LoadInt32(&abort) == 0; spins++ {
				if spins > 2000 {
					time.Sleep(20 * time.Microsecond)
				} else {
					runtime.Gosched()
				}
			}
		}
		var wg sync.WaitGroup
		results := make([][]OpResult, len(spec.Programs))
		doneOps := make([]int32, len(spec.Programs)) // ops completed per worker (read after a hang)
		for g := range spec.Programs {
			results[g] = make([]OpResult, len(spec.Programs[g]))
		}
		for g := range spec.Programs {
			wg.Add(1)
			go func(g int) {
				defer wg.Done()
				gids.Store(goid(), g)
				for i, op := range spec.Programs[g] {
					if i < nsync {
						wait(i)
					}
					if atomic.LoadInt32(&abort) != 0 {
						return
					}
					results[g][i] = runOp(handle(), base, op, &obs.Panics, &pmu)
					atomic.StoreInt32(&doneOps[g], int32(i+1))
				}
			}(g)
		}
		defer atomic.StoreInt32(&abort, 1)
		finished := make(chan struct{})
		go func() { wg.Wait(); close(finished) }()
		select {
		case <-finished:
			copy(obs.Results, results)
		case <-time.After(time.Duration(watchdogSec(spec)) * time.Second):
			obs.Hang = true
			obs.HangInfo = hangDigest()
			for g := range results { // the results completed so far (published by the atomic counter)
				obs.Results[g] = append([]OpResult{}, results[g][:atomic.LoadInt32(&doneOps[g])]...)
			}
		}
	}
	obs.Builds = namer.take()
	if obs.Builds == nil {
		obs.Builds = []BuildEv{}
	}
	pmu.Lock()
	if obs.Panics == nil {
		obs.Panics = []string{}
	}
	pmu.Unlock()
	for _, rs := range obs.Results {
		for _, r := range rs {
			if strings.Contains(r.Err, "database is locked") || strings.Contains(r.Err, "SQLITE_BUSY") || strings.Contains(r.Rows, "database is locked") {
				obs.EnvNoise = true
			}
		}
	}
	if obs.Hang {
		obs.Final = "HANG"
		return obs
	}
	if spec.PrepareStmt {
		if ps, ok := db.ConnPool.(*gorm.PreparedStmtDB); ok {
			ps.Close()
		}
	}
	sqlDB.Close()
	final, err := dumpAll(dsn)
	if err != nil {
		obs.Final = "DUMP-ERROR: " + err.Error()
	} else {
		obs.Final = final
	}
	return obs
}

// hangDigest summarises the stacks of the worker goroutines that are still inside an operation.
func hangDigest() []string {
	buf := make([]byte, 4<<20)
	buf = buf[:runtime.Stack(buf, true)]
	var out []string
	for _, blk := range strings.Split(string(buf), "\n\n") {
		if !strings.Contains(blk, "main.execOp(") {
			continue
		}
		lines := strings.Split(blk, "\n")
		state := lines[0]
		if i := strings.Index(state, "["); i >= 0 {
			state = strings.TrimSuffix(strings.TrimSpace(state[i:]), ":")
		}
		var fns []string
		for _, l := range lines[1:] {
			if !strings.HasPrefix(l, "\t") && l != "" {
				fns = append(fns, normFn(l))
			}
		}
		innerGorm, blocker, inTx := "", "", false
		for _, f := range fns {
			if innerGorm == "" && strings.HasPrefix(f, "gorm.io/gorm") {
				innerGorm = f
			}
			if blocker == "" && !isRuntimeFn(f) && !strings.HasPrefix(f, "sync.") {
				blocker = f
			}
			if strings.HasSuffix(f, ".Transaction") || strings.Contains(f, "callbacks.BeginTransaction") {
				inTx = true
			}
		}
		out = append(out, fmt.Sprintf("%s | %s | %s | in-transaction-call=%v", state, innerGorm, blocker, inTx))
	}
	sort.Strings(out)
	return out
}

func cell(v interface{}) string {
	switch x := v.(type) {
	case nil:
		return "NULL"
	case int64:
		return strconv.FormatInt(x, 10)
	case float64:
		return strconv.FormatFloat(x, 'g', -1, 64)
	case bool:
		return strconv.FormatBool(x)
	case string:
		return strconv.Quote(x)
	case []byte:
		return fmt.Sprintf("x'%x'", x)
	case time.Time:
		return "time:" + x.UTC().Format(time.RFC3339Nano)
	}
	return fmt.Sprintf("?%T:%v", v, v)
}

// dumpAll prints every table (join tables included) ordered by all columns, through database/sql.
func dumpAll(dsn string) (string, error) {
	sdb, err := sql.Open("sqlite3", dsn)
	if err != nil {
		return "", err
	}
	defer sdb.Close()
	sdb.SetMaxOpenConns(1)
	rows, err := sdb.Query("SELECT name FROM sqlite_master WHERE type='table' AND name NOT LIKE 'sqlite_%' ORDER BY name")
	if err != nil {
		return "", err
	}
	var tables []string
	for rows.Next() {
		var n string
		if err := rows.Scan(&n); err != nil {
			rows.Close()
			return "", err
		}
		tables = append(tables, n)
	}
	rows.Close()
	var sb strings.Builder
	for _, t := range tables {
		probe, err := sdb.Query(`SELECT * FROM "` + t + `" LIMIT 0`)
		if err != nil {
			return "", err
		}
		cols, _ := probe.Columns()
		probe.Close()
		ord := make([]string, len(cols))
		for i := range cols {
			ord[i] = strconv.Itoa(i + 1)
		}
		rs, err := sdb.Query(`SELECT * FROM "` + t + `" ORDER BY ` + strings.Join(ord, ","))
		if err != nil {
			return "", err
		}
		fmt.Fprintf(&sb, "%s(%s):", t, strings.Join(cols, ","))
		vals := make([]interface{}, len(cols))
		ptrs := make([]interface{}, len(cols))
		for i := range vals {
			ptrs[i] = &vals[i]
		}
		for rs.Next() {
			if err := rs.Scan(ptrs...); err != nil {
				rs.Close()
				return "", err
			}
			parts := make([]string, len(vals))
			for i, v := range vals {
				parts[i] = cell(v)
				if clockColumns[cols[i]] && v != nil {
					parts[i] = "set" // moments (soft delete, time tracking) are not observables
				}
			}
			sb.WriteString(" (" + strings.Join(parts, ",") + ")")
		}
		if err := rs.Err(); err != nil {
			rs.Close()
			return "", err
		}
		rs.Close()
		sb.WriteString("\n")
	}
	return sb.String(), nil
}

// ---------------------------------------------------------------- generation

type gstate struct {
	r              *lib.Rng
	base           int64
	next           int64
	exists         map[int][]int64
	name           int
	types, primary []int
}

func (s *gstate) newID() int64            { s.next++; return s.base + s.next }
func (s *gstate) missingID() int64        { return s.base + 90000 + int64(s.r.Intn(900)) }
func (s *gstate) nm() string              { s.name++; return fmt.Sprintf("n%d", s.name) }
func (s *gstate) add(t int, ids ...int64) { s.exists[t] = append(s.exists[t], ids...) }
func (s *gstate) del(t int, id int64) {
	xs := s.exists[t]
	for i, x := range xs {
		if x == id {
			s.exists[t] = append(append([]int64{}, xs[:i]...), xs[i+1:]...)
			return
		}
	}
}
func (s *gstate) clone() map[int][]int64 {
	m := map[int][]int64{}
	for k, v := range s.exists {
		m[k] = append([]int64{}, v...)
	}
	return m
}

// someID returns an existing id of t (usually) or an id that was never created.
func (s *gstate) someID(t int, missPct int) int64 {
	xs := s.exists[t]
	if len(xs) == 0 || s.r.Chance(missPct, 100) {
		return s.missingID()
	}
	return xs[s.r.Intn(len(xs))]
}

func (s *gstate) rng() (int64, int64) {
	lo, hi := s.base+1, s.base+idSpan-1
	switch s.r.Intn(20) {
	case 0: // empty range
		return s.base + 95000, s.base + 94000
	case 1, 2: // nothing created up there
		return s.base + 80000, hi
	case 3, 4:
		if s.next > 2 {
			return lo, s.base + 1 + int64(s.r.Intn(int(s.next)))
		}
	}
	return lo, hi
}

// fkFieldsOf: foreign-key Go fields of type t and the type each points to.
func fkFieldsOf(t int) (fields []string, targets []int) {
	seen := map[string]bool{}
	for _, r := range Pool[t].Rels {
		if r.OK && !r.Hidden && r.Kind == "belongs_to" && !seen[r.FK] {
			seen[r.FK] = true
			fields, targets = append(fields, r.FK), append(targets, r.To)
		}
	}
	for _, d := range Pool {
		for _, r := range d.Rels {
			if r.OK && !r.Hidden && (r.Kind == "has_many" || r.Kind == "has_one") && r.To == t && !seen[r.FK] {
				seen[r.FK] = true
				fields, targets = append(fields, r.FK), append(targets, d.Idx)
			}
		}
	}
	return
}

func okRels(t int, kinds ...string) []RelDesc {
	var out []RelDesc
	for _, r := range Pool[t].Rels {
		if !r.OK || r.Hidden {
			continue
		}
		if len(kinds) == 0 {
			out = append(out, r)
			continue
		}
		for _, k := range kinds {
			if r.Kind == k {
				out = append(out, r)
			}
		}
	}
	return out
}

func (s *gstate) kids(t int, many bool) []int64 {
	n := 1
	if many {
		n = s.r.Range(1, 3)
	}
	out := make([]int64, n)
	for i := range out {
		out[i] = s.newID()
	}
	return out
}

func (s *gstate) genCreate(t int, nested bool) Op {
	op := Op{Kind: "create", T: t, ID: s.newID(), Name: s.nm(), Val: int64(s.r.Range(0, 50))}
	if fs, ts := fkFieldsOf(t); len(fs) > 0 && s.r.Chance(2, 3) {
		i := s.r.Intn(len(fs))
		op.FK, op.Par = fs[i], s.someID(ts[i], 10)
	}
	if rels := okRels(t); nested && len(rels) > 0 {
		r := rels[s.r.Intn(len(rels))]
		if !(r.Kind == "belongs_to" && op.FK == r.FK) {
			op.Rel, op.RelT = r.Field, r.To
			op.Kids = s.kids(r.To, r.Kind == "has_many" || r.Kind == "many2many")
			s.add(r.To, op.Kids...)
		}
	}
	s.add(t, op.ID)
	return op
}

func (s *gstate) genBatch(t int) Op {
	op := Op{Kind: "create_batch", T: t, Name: s.nm(), Val: int64(s.r.Range(0, 50))}
	for i, n := 0, s.r.Range(2, 4); i < n; i++ {
		op.IDs = append(op.IDs, s.newID())
	}
	if fs, ts := fkFieldsOf(t); len(fs) > 0 && s.r.Chance(2, 3) {
		i := s.r.Intn(len(fs))
		op.FK, op.Par = fs[i], s.someID(ts[i], 10)
	}
	s.add(t, op.IDs...)
	return op
}

// pickType chooses the type of the next operation: 60% from the primary family, and (unless this is
// one of the ~15% deliberate misses) only types for which ok holds and rows exist.
func (s *gstate) pickType(ok func(t int) bool, needRows bool) (int, bool) {
	miss := s.r.Chance(15, 100)
	filter := func(ts []int) []int {
		var out []int
		for _, t := range ts {
			if ok(t) && (!needRows || miss || len(s.exists[t]) > 0) {
				out = append(out, t)
			}
		}
		return out
	}
	prim, all := filter(s.primary), filter(s.types)
	if len(prim) > 0 && (len(all) == 0 || s.r.Chance(6, 10)) {
		return prim[s.r.Intn(len(prim))], true
	}
	if len(all) > 0 {
		return all[s.r.Intn(len(all))], true
	}
	return 0, false
}

// genOp produces one more operation. inTx restricts to simple kinds.
func (s *gstate) genOp(inTx bool) Op {
	r := s.r
	lo, hi := s.rng()
	type cand struct {
		kind string
		w    int
	}
	cands := []cand{{"create", 4}, {"create_batch", 2}, {"find", 4}, {"first", 3}, {"count", 2}, {"update", 3}, {"updates", 2}, {"delete", 2}}
	if !inTx {
		cands = append(cands, cand{"tx", 3}, cand{"preload", 4}, cand{"joins", 2}, cand{"assoc_append", 3}, cand{"assoc_find", 3},
			cand{"assoc_count", 1}, cand{"assoc_delete", 1}, cand{"assoc_replace", 1}, cand{"assoc_clear", 1})
	}
	tot := 0
	for _, c := range cands {
		tot += c.w
	}
	x := r.Intn(tot)
	kind := ""
	for _, c := range cands {
		if x < c.w {
			kind = c.kind
			break
		}
		x -= c.w
	}
	anyT := func(int) bool { return true }
	hasRel := func(t int) bool { return len(okRels(t)) > 0 }
	hasJoin := func(t int) bool { return len(okRels(t, "belongs_to", "has_one")) > 0 }
	full := func(op Op) Op { // id-carrying ops use the full own range, so that the id decides
		op.Lo, op.Hi = s.base+1, s.base+idSpan-1
		return op
	}
	fallback := func() Op {
		t, _ := s.pickType(anyT, false)
		return s.genCreate(t, !inTx)
	}
	switch kind {
	case "create":
		t, _ := s.pickType(anyT, false)
		return s.genCreate(t, !inTx && r.Chance(1, 2))
	case "create_batch":
		t, _ := s.pickType(anyT, false)
		return s.genBatch(t)
	case "find", "count":
		t, ok := s.pickType(anyT, true)
		if !ok {
			return fallback()
		}
		return Op{Kind: kind, T: t, Lo: lo, Hi: hi}
	case "first", "update", "updates", "delete":
		t, ok := s.pickType(anyT, true)
		if !ok {
			return fallback()
		}
		op := Op{Kind: kind, T: t, ID: s.someID(t, 12)}
		switch kind {
		case "first":
			op = full(op)
		case "update":
			op.Val = int64(r.Range(100, 200))
		case "updates":
			op.Name, op.Val = s.nm(), int64(r.Range(100, 200))
		case "delete":
			s.del(t, op.ID)
		}
		return op
	case "preload", "joins":
		pred := hasRel
		if kind == "joins" {
			pred = hasJoin
		}
		t, ok := s.pickType(pred, true)
		if !ok {
			return fallback()
		}
		rels := okRels(t)
		if kind == "joins" {
			rels = okRels(t, "belongs_to", "has_one")
		}
		rl := rels[r.Intn(len(rels))]
		return Op{Kind: kind, T: t, Lo: lo, Hi: hi, Rel: rl.Field, RelT: rl.To}
	case "tx":
		saved := s.clone()
		op := Op{Kind: "tx", Fail: r.Chance(2, 5)}
		for i, n := 0, r.Range(2, 3); i < n; i++ {
			op.Sub = append(op.Sub, s.genOp(true))
		}
		op.T = op.Sub[0].T
		if op.Fail {
			s.exists = saved // ids are not reused even after a rollback
		}
		return op
	default: // assoc_*
		t, ok := s.pickType(hasRel, true)
		if !ok {
			return fallback()
		}
		rels := okRels(t)
		rl := rels[r.Intn(len(rels))]
		op := full(Op{Kind: kind, T: t, ID: s.someID(t, 10), Rel: rl.Field, RelT: rl.To, Name: s.nm()})
		many := rl.Kind == "has_many" || rl.Kind == "many2many"
		switch kind {
		case "assoc_append", "assoc_replace":
			op.Kids = s.kids(rl.To, many)
			s.add(rl.To, op.Kids...)
		case "assoc_delete":
			op.Kids = []int64{s.someID(rl.To, 20)}
		}
		return op
	}
}

// withOrBase turns a generated spec into an OrBase round: find/count go through the shared base handle
// and every program gets one more barrier-synchronised find right after the first-use phase, so that the
// first builds of the shared WHERE clause (the only ones that swap in place) run at the same time.
func withOrBase(spec DBSpec) DBSpec {
	spec.OrBase = true
	k := spec.SyncOps
	if k < 1 {
		k = 1
	}
	progs := make([][]Op, len(spec.Programs))
	for g, p := range spec.Programs {
		if len(p) < k || len(p) == 0 {
			return spec
		}
		op := Op{Kind: "find", T: p[0].T, Lo: int64(g)*idSpan + 1, Hi: int64(g)*idSpan + idSpan - 1}
		np := append([]Op{}, p[:k]...)
		np = append(np, op)
		progs[g] = append(np, p[k:]...)
	}
	spec.Programs = progs
	spec.SyncOps = k + 1
	return spec
}

// prepSmallPool: generate PrepareStmt rounds with a pool smaller than G.  Off by default because gorm's
// PreparedStmtDB.prepare can deadlock then (a transaction waits for a statement that another goroutine
// is preparing, which waits for the connection the transaction holds); C07_PREP_SMALLPOOL=1 turns it on.
var prepSmallPool = os.Getenv("C07_PREP_SMALLPOOL") != ""

func genDB(r *lib.Rng, g int, cold, prep bool, thorough bool) DBSpec {
	spec := DBSpec{G: g, Cold: cold, PrepareStmt: prep, Conns: 1}
	if r.Chance(3, 10) {
		spec.Conns = 4
	}
	if prep && !prepSmallPool && spec.Conns < g {
		spec.Conns = g
	}
	used := map[int]bool{}
	var phases [][]int // phase k: the types the goroutines use in their k-th op (first use in a cold round)
	singles := append([]int{}, Families["single"]...)
	lib.Shuffle(r, singles)
	nSingles := r.Intn(3)
	if r.Chance(8, 10) {
		fams := relFamilies()
		lib.Shuffle(r, fams)
		nf := r.Range(1, 3)
		for i := 0; i < nf; i++ {
			for _, t := range Families[fams[i]] {
				used[t] = true
			}
			phases = append(phases, Families[fams[i]])
		}
	} else {
		nSingles = r.Range(1, 3)
		phases = append(phases, singles[:nSingles])
	}
	for _, t := range singles[:nSingles] {
		used[t] = true
	}
	for t := range used {
		spec.Types = append(spec.Types, t)
	}
	sort.Ints(spec.Types)
	primary := phases[0]
	spec.SyncOps = len(phases)

	sameStart := cold && r.Chance(3, 10)
	offs := make([]int, len(phases))
	for k := range offs {
		offs[k] = r.Intn(len(phases[k]))
	}
	maxOps := 10
	if thorough {
		maxOps = 16
	}
	for gi := 0; gi < g; gi++ {
		s := &gstate{r: r, base: int64(gi) * idSpan, exists: map[int][]int64{}, types: spec.Types, primary: primary}
		n := r.Range(4, maxOps)
		var prog []Op
		for k, ph := range phases {
			t := ph[(offs[k]+gi)%len(ph)]
			if sameStart {
				t = ph[offs[k]]
			}
			rels := okRels(t)
			switch {
			case k == 0 || len(rels) == 0 || r.Chance(7, 10):
				prog = append(prog, s.genCreate(t, r.Chance(7, 10)))
			case r.Bool():
				rl := rels[r.Intn(len(rels))]
				prog = append(prog, Op{Kind: "preload", T: t, Lo: s.base + 1, Hi: s.base + idSpan - 1, Rel: rl.Field, RelT: rl.To})
			default:
				prog = append(prog, Op{Kind: lib.Pick(r, []string{"find", "count"}), T: t, Lo: s.base + 1, Hi: s.base + idSpan - 1})
			}
		}
		// one more create early on, so that later reads have rows
		second := primary[r.Intn(len(primary))]
		if r.Bool() {
			prog = append(prog, s.genBatch(second))
		} else {
			prog = append(prog, s.genCreate(second, r.Bool()))
		}
		for len(prog) < n {
			prog = append(prog, s.genOp(false))
		}
		spec.Programs = append(spec.Programs, prog)
	}
	return spec
}

func watchdogSec(spec DBSpec) int {
	if spec.WatchdogSec > 0 {
		return spec.WatchdogSec
	}
	return 25
}

// genFresh: PrepareStmt rounds in which, step by step behind a spin barrier, all goroutines issue the
// SAME statement text that nobody has issued before (first use of a text from many goroutines at
// once), each on its own rows.  sessionPrep: the texts go through per-operation prepared sessions
// of a handle opened without Config.PrepareStmt.
func genFresh(r *lib.Rng, g int, sessionPrep bool, thorough bool) DBSpec {
	singles := Families["single"]
	t1 := singles[r.Intn(len(singles))]
	t2 := singles[r.Intn(len(singles))]
	for t2 == t1 {
		t2 = singles[r.Intn(len(singles))]
	}
	spec := DBSpec{G: g, Cold: false, PrepareStmt: true, SessionPrep: sessionPrep, Conns: 4, Types: []int{t1, t2}}
	steps := 24
	if thorough {
		steps = 30
	}
	kinds := make([]string, steps)
	types := make([]int, steps)
	for k := range kinds {
		kinds[k] = lib.Pick(r, []string{"fresh_find", "fresh_take", "fresh_take", "fresh_update", "fresh_row"})
		types[k] = lib.Pick(r, []int{t1, t2})
	}
	for gi := 0; gi < g; gi++ {
		base := int64(gi) * idSpan
		prog := []Op{
			{Kind: "create_batch", T: t1, IDs: []int64{base + 1, base + 2, base + 3}, Name: "f", Val: 10},
			{Kind: "create_batch", T: t2, IDs: []int64{base + 1, base + 2}, Name: "f", Val: 20},
		}
		for k := 0; k < steps; k++ {
			op := Op{Kind: kinds[k], T: types[k], Par: int64(1000 + k), Lo: base + 1, Hi: base + idSpan - 1,
				ID: base + 1 + int64(k%2), Val: int64(100*k + gi)}
			prog = append(prog, op)
		}
		spec.Programs = append(spec.Programs, prog)
	}
	spec.SyncOps = len(spec.Programs[0])
	return spec
}

// genFan: several parent types with a has-many / has-one relation to ONE child type; the child is
// used (warm) before the goroutines start, every parent type is cold and first used at the same
// moment by a different goroutine (G > number of parent types: several goroutines per parent).
// Only the parents are touched by the programs.
func genFan(r *lib.Rng, g int) DBSpec {
	fam := Families["fan"]
	kid := poolByName["FnKid"]
	var parents []int
	for _, t := range fam {
		if t != kid {
			parents = append(parents, t)
		}
	}
	lib.Shuffle(r, parents)
	spec := DBSpec{G: g, Cold: true, PrepareStmt: r.Bool(), Conns: g, Types: append([]int{}, fam...), WarmTypes: []int{kid}, SyncOps: 1}
	for gi := 0; gi < g; gi++ {
		t := parents[gi%len(parents)]
		base := int64(gi) * idSpan
		first := lib.Pick(r, []string{"find", "first", "count", "create"})
		prog := []Op{{Kind: first, T: t, ID: base + 1, Name: "p", Val: int64(gi), Lo: base + 1, Hi: base + idSpan - 1}}
		if first != "create" {
			prog = append(prog, Op{Kind: "create", T: t, ID: base + 1, Name: "p", Val: int64(gi)})
		}
		prog = append(prog,
			Op{Kind: "create_batch", T: t, IDs: []int64{base + 2, base + 3}, Name: "q", Val: 5},
			Op{Kind: "find", T: t, Lo: base + 1, Hi: base + idSpan - 1},
			Op{Kind: "count", T: t, Lo: base + 1, Hi: base + idSpan - 1})
		spec.Programs = append(spec.Programs, prog)
	}
	return spec
}

// genSerial: models with a field whose type implements schema.SerializerInterface, read by all
// goroutines at the same moment right after the handle was opened (every read behind the spin
// barrier), each goroutine its own rows; every row is compared with the serial run.
func genSerial(r *lib.Rng, g int, thorough bool) DBSpec {
	fam := Families["serial"]
	spec := DBSpec{G: g, Cold: r.Chance(2, 3), PrepareStmt: r.Bool(), Conns: 4, Types: append([]int{}, fam...)}
	steps := 10
	if thorough {
		steps = 20
	}
	kinds := make([]string, steps)
	types := make([]int, steps)
	for k := range kinds {
		kinds[k] = lib.Pick(r, []string{"find", "find", "first", "fresh_find"})
		types[k] = fam[r.Intn(len(fam))]
	}
	for gi := 0; gi < g; gi++ {
		base := int64(gi) * idSpan
		var prog []Op
		for _, t := range fam {
			prog = append(prog, Op{Kind: "create_batch", T: t, IDs: []int64{base + 1, base + 2, base + 3, base + 4}, Name: "d", Val: 1})
		}
		for k := 0; k < steps; k++ {
			prog = append(prog, Op{Kind: kinds[k], T: types[k], ID: base + 1 + int64(k%4), Par: int64(2000 + k), Lo: base + 1, Hi: base + idSpan - 1})
		}
		spec.Programs = append(spec.Programs, prog)
	}
	spec.SyncOps = len(spec.Programs[0])
	return spec
}

// the shared handle of the current runDB call (one call at a time per process)
var sharedHandle *gorm.DB
var sharedSpec *SharedSpec

func buildShared(db *gorm.DB, sh SharedSpec) *gorm.DB {
	tbl := poolTables[sh.T]
	h := db.Model(Pool[sh.T].New())
	cols := []string{"id", "name", "val"}
	switch sh.Kind {
	case "selects":
		var c []string
		for k := 0; k < sh.N; k++ {
			c = append(c, cols[k%3])
		}
		h = h.Select(c)
	case "omits":
		var c []string
		for k := 0; k < sh.N; k++ {
			c = append(c, fmt.Sprintf("nocol%d", k))
		}
		h = h.Omit(c...)
	}
	for k := 0; k < sh.N; k++ {
		switch sh.Kind {
		case "joins":
			h = h.Joins(fmt.Sprintf("LEFT JOIN %s AS b%d ON b%d.id = %s.id AND b%d.val = ?", tbl, k, k, tbl, k), -k-1)
		case "wheres":
			h = h.Where("val >= ?", -k-1)
		case "orders":
			h = h.Order("name") // every row of a goroutine has the same name: the orderings tie
		case "groups":
			h = h.Group([]string{"name", "val"}[k%2])
		case "preloads":
			if rels := okRels(sh.T, "has_many"); k < len(rels)-1 {
				h = h.Preload(rels[k].Field)
			}
		case "scopes":
			kk := -k - 1
			h = h.Scopes(func(q *gorm.DB) *gorm.DB { return q.Where("val >= ?", kk) })
		}
	}
	return h.Session(&gorm.Session{})
}

// genShared: one Session handle carrying N items of one kind (N = 3 and 5..7: a slice with spare
// capacity; also 1, 2, 4), every goroutine adds ONE more item with its own arguments, step by step
// behind the spin barrier, and must get exactly its own rows.
func genShared(r *lib.Rng, i, g int, thorough bool) DBSpec {
	// every slice- or map-valued part of a statement in turn, with lengths around the capacity
	// boundaries (3 and 5..7 leave spare capacity; 1, 2, 4 do not)
	kinds := []string{"joins", "orders", "groups", "selects", "omits", "wheres", "scopes", "preloads"}
	kind := kinds[i%len(kinds)]
	n := []int{3, 5, 7, 6, 1, 2, 4}[(i/len(kinds))%7]
	singles := Families["single"]
	t := singles[r.Intn(len(singles))]
	rel, relT := "", 0
	if kind == "preloads" {
		t = poolByName["StHub"]
		rels := okRels(t, "has_many")
		rel, relT = rels[len(rels)-1].Field, rels[len(rels)-1].To
		n = 1 + (i/len(kinds))%2
	}
	spec := DBSpec{G: g, Cold: false, PrepareStmt: r.Bool(), Conns: 4, Types: []int{t}, Shared: &SharedSpec{Kind: kind, N: n, T: t}}
	if kind == "preloads" {
		spec.Types = append([]int{}, Families["star"]...)
	}
	if spec.PrepareStmt {
		spec.Conns = g
	}
	steps := 6
	if thorough {
		steps = 16
	}
	for gi := 0; gi < g; gi++ {
		base := int64(gi) * idSpan
		prog := []Op{{Kind: "create_batch", T: t, IDs: []int64{base + 1, base + 2, base + 3}, Name: "s", Val: int64(10 * gi)}}
		for k := 0; k < steps; k++ {
			prog = append(prog, Op{Kind: "shared_find", T: t, Lo: base + 1, Hi: base + idSpan - 1, Val: int64(gi + k), Rel: rel, RelT: relT})
		}
		spec.Programs = append(spec.Programs, prog)
	}
	spec.SyncOps = len(spec.Programs[0])
	return spec
}

// idOrder: the ids of a result slice in the order the query returned them
func idOrder(v reflect.Value) string {
	v = reflect.Indirect(v)
	var ids []string
	for i := 0; i < v.Len(); i++ {
		ids = append(ids, strconv.FormatInt(reflect.Indirect(v.Index(i)).FieldByName("ID").Int(), 10))
	}
	return strings.Join(ids, ",")
}

// genFailingPrepare: PrepareStmt rounds where, step by step behind the spin barrier, all goroutines
// first-use the same statement text whose preparation FAILS (missing table); alone, each gets the
// driver's error.
func genFailingPrepare(r *lib.Rng, g int, sessionPrep, thorough bool) DBSpec {
	singles := Families["single"]
	t := singles[r.Intn(len(singles))]
	spec := DBSpec{G: g, Cold: false, PrepareStmt: true, SessionPrep: sessionPrep, Conns: 4, Types: []int{t}}
	steps := 70
	if thorough {
		steps = 150
	}
	kinds := make([]string, steps)
	for k := range kinds {
		kinds[k] = lib.Pick(r, []string{"fresh_missing", "fresh_missing", "fresh_missing_exec", "fresh_take"})
	}
	for gi := 0; gi < g; gi++ {
		base := int64(gi) * idSpan
		prog := []Op{{Kind: "create_batch", T: t, IDs: []int64{base + 1, base + 2}, Name: "f", Val: 10}}
		for k := 0; k < steps; k++ {
			prog = append(prog, Op{Kind: kinds[k], T: t, Par: int64(5000 + k), ID: base + 1 + int64(k%2), Lo: base + 1, Hi: base + idSpan - 1})
		}
		spec.Programs = append(spec.Programs, prog)
	}
	spec.SyncOps = len(spec.Programs[0])
	return spec
}

// genStaggered: a cold start on ONE model type (relation field before DeletedAt) with staggered
// arrivals: the namer sleeps inside TableName, differently per goroutine, so that some goroutines
// sit between the first and the second cache look-up while another publishes the schema and parses
// its relations.  First operation: create with nested children, or find; then more of the same.
func genStaggered(r *lib.Rng, g int) DBSpec {
	p, k := poolByName["SdP"], poolByName["SdK"]
	spec := DBSpec{G: g, Cold: true, PrepareStmt: r.Bool(), Conns: g, Types: []int{p, k}, SyncOps: 1}
	step := 150 + r.Intn(400)
	for gi := 0; gi < g; gi++ {
		base := int64(gi) * idSpan
		prog := []Op{
			{Kind: "create", T: p, ID: base + 1, Name: "p", Val: 1, Rel: "Kids", RelT: k, Kids: []int64{base + 11, base + 12}},
			{Kind: "delete", T: p, ID: base + 1},
			{Kind: "find", T: p, Lo: base + 1, Hi: base + idSpan - 1},
			{Kind: "create", T: p, ID: base + 2, Name: "q", Val: 2, Rel: "Kids", RelT: k, Kids: []int64{base + 21}},
			{Kind: "preload", T: p, Lo: base + 1, Hi: base + idSpan - 1, Rel: "Kids", RelT: k},
			{Kind: "find", T: k, Lo: base + 1, Hi: base + idSpan - 1},
		}
		spec.Programs = append(spec.Programs, prog)
		// goroutine 0 is fast through SdP's TableName and slow in the nested SdK one (a long relation
		// phase with the SdP schema already published); the others sit in SdP's TableName for
		// increasing times
		if gi == 0 {
			spec.NamerDelays = append(spec.NamerDelays, []int{0, 6000})
		} else {
			spec.NamerDelays = append(spec.NamerDelays, []int{gi * step, 0})
		}
	}
	return spec
}

// withSess derives the handle an operation runs on from the shared one: every Session option copies
// the shared Config / Statement in its own way.
// withSess derives the handle an operation runs on from the shared one.  sess is a "+"-joined set of
// Session options (every option copies, or fails to copy, the shared Config / Statement in its own
// way): newdb ctx skiphooks prep skipdeftx batch fullsave nowfunc propunscoped dryrun; the single
// words "wctx" / "debug" mean WithContext / Debug.  A ctx belongs to this operation only and is
// cancelled when the operation is over (the end of a request).
func withSess(h *gorm.DB, sess string) (*gorm.DB, func()) {
	done := func() {}
	switch sess {
	case "":
		return h, done
	case "wctx":
		ctx, cancel := context.WithCancel(context.Background())
		return h.WithContext(ctx), cancel
	case "debug":
		return h.Debug(), done
	}
	var cfg gorm.Session
	for _, f := range strings.Split(sess, "+") {
		switch f {
		case "newdb":
			cfg.NewDB = true
		case "ctx":
			ctx, cancel := context.WithCancel(context.Background())
			cfg.Context, done = ctx, cancel
		case "skiphooks":
			cfg.SkipHooks = true
		case "prep":
			cfg.PrepareStmt = true
		case "skipdeftx":
			cfg.SkipDefaultTransaction = true
		case "batch":
			cfg.CreateBatchSize = 2
		case "fullsave":
			cfg.FullSaveAssociations = true
		case "nowfunc":
			cfg.NowFunc, cfg.Logger = func() time.Time { return time.Now() }, logger.Discard
		case "propunscoped":
			cfg.PropagateUnscoped, cfg.AllowGlobalUpdate = true, true
		case "dryrun":
			cfg.DryRun = true
		case "nonested":
			cfg.DisableNestedTransaction = true
		case "queryfields":
			cfg.QueryFields = true
		case "initialized":
			cfg.Initialized = true
		case "allowglobal":
			cfg.AllowGlobalUpdate = true
		case "logger":
			cfg.Logger = logger.Discard
		}
	}
	return h.Session(&cfg), done
}

// runOp: the operation on its own derived handle, then the end of its context
func runOp(h *gorm.DB, base *gorm.DB, op Op, panics *[]string, pmu *sync.Mutex) OpResult {
	hh, done := withSess(h, op.Sess)
	defer done()
	return execOp(hh, base, op, panics, pmu)
}

// one flag per field of gorm.Session
var sessFlags = []string{"newdb", "ctx", "skiphooks", "prep", "skipdeftx", "batch", "fullsave", "nowfunc", "propunscoped", "dryrun", "nonested", "queryfields", "initialized", "allowglobal", "logger"}

// sessCombo: one option, a pair (every pair occurs), now and then three
func sessCombo(r *lib.Rng) string {
	switch r.Intn(10) {
	case 0:
		return "wctx"
	case 1:
		return "debug"
	case 2, 3:
		return sessFlags[r.Intn(len(sessFlags))]
	}
	n := 2
	if r.Chance(1, 5) {
		n = 3
	}
	pick := map[string]bool{}
	var out []string
	if r.Chance(1, 3) { // a fresh session + one more option: where a copy of the parent's state is easiest to forget
		pick["newdb"] = true
		out = append(out, "newdb")
	}
	for len(out) < n {
		f := sessFlags[r.Intn(len(sessFlags))]
		if f == "dryrun" && r.Chance(2, 3) {
			continue // keeps most operations effective
		}
		if !pick[f] {
			pick[f] = true
			out = append(out, f)
		}
	}
	sort.Strings(out)
	return strings.Join(out, "+")
}


// ownRows: the goroutine's own id range, in the form op.Cond asks for
func ownRows(h *gorm.DB, op Op) *gorm.DB {
	switch op.Cond {
	case "struct": // non-zero fields of a struct of the model type + the range
		rec := bareRec(op.T, 0)
		rec.Elem().FieldByName("Name").SetString(op.Name)
		return h.Where(between, op.Lo, op.Hi).Where(rec.Interface())
	case "map":
		return h.Where(between, op.Lo, op.Hi).Where(map[string]interface{}{"name": op.Name})
	case "ids":
		return h.Where(between, op.Lo, op.Hi).Where([]int64{op.Lo, op.Lo + 1, op.Lo + 2, op.Lo + 3})
	case "not":
		return h.Where(between, op.Lo, op.Hi).Not("name = ?", op.Name)
	case "or":
		return h.Where(h.Session(&gorm.Session{NewDB: true}).Where("id BETWEEN ? AND ?", op.Lo, op.Lo+1).Or("id BETWEEN ? AND ?", op.Lo+2, op.Hi))
	}
	return h.Where(between, op.Lo, op.Hi)
}

var condKinds = []string{"struct", "map", "ids", "not", "or"}

// sprinkle: session options, condition forms and Row() on a share of the operations of a generated
// spec (the same in the concurrent and in the serial run: they are part of the spec)
func sprinkle(r *lib.Rng, spec *DBSpec) {
	defer func() {
		for _, p := range spec.Programs {
			for _, op := range p {
				if strings.Contains(op.Sess, "prep") && spec.Conns < spec.G {
					spec.Conns = spec.G // see genSessMix
				}
			}
		}
	}()
	for g := range spec.Programs {
		for i := range spec.Programs[g] {
			op := &spec.Programs[g][i]
			switch {
			case op.Kind == "tx":
				if !spec.PrepareStmt && !spec.SessionPrep && r.Chance(1, 3) {
					op.Sess = "prepintx"
				}
			case r.Chance(1, 4):
				op.Sess = sessCombo(r)
			}
			if op.Kind == "find" && r.Chance(1, 3) {
				op.Cond = condKinds[r.Intn(len(condKinds))]
				if op.Name == "" {
					op.Name = "n1"
				}
			}
			if op.Kind == "count" && r.Chance(1, 3) {
				op.Kind = "row_count"
			}
			if op.Kind == "find" && op.Cond == "" && r.Chance(1, 4) {
				op.Kind = "table_find"
			}
		}
	}
}

// genBadDB: database operations on models whose parse FAILS in the relation phase (BadP: the only
// relation is malformed; BadQ: a well-formed has-many, then the malformed one), next to good models.
// Alone every operation on such a model returns the parse error and runs no SQL; the failed entry is
// removed from the cache, so EVERY operation on it is a first use again.  Step by step behind the spin
// barrier all goroutines use the same failing model at the same moment (the kinds differ), the namer
// sleeps in ColumnName (between the second look-up and LoadOrStore), so that one goroutine publishes
// and the others find its entry in LoadOrStore or in one of the two look-ups; good-model steps in between.
func genBadDB(r *lib.Rng, g int) DBSpec {
	bp, bk, bq, bqk := poolByName["BadP"], poolByName["BadK"], poolByName["BadQ"], poolByName["BadQKid"]
	singles := Families["single"]
	u := singles[r.Intn(len(singles))]
	spec := DBSpec{G: g, Cold: true, PrepareStmt: r.Bool(), Conns: 4, Types: []int{bp, bk, u, bq, bqk}, NoMigrate: []int{bp, bq}}
	if spec.PrepareStmt {
		spec.Conns = g
	}
	steps := 14
	stepT := make([]int, steps)
	for k := range stepT {
		switch {
		case k%4 == 3:
			stepT[k] = lib.Pick(r, []int{bk, u, bqk})
		default:
			stepT[k] = lib.Pick(r, []int{bp, bp, bq})
		}
	}
	d := 0
	if r.Chance(3, 4) {
		d = 60 + 20*r.Intn(12)
	}
	for gi := 0; gi < g; gi++ {
		base := int64(gi) * idSpan
		lo, hi := base+1, base+idSpan-1
		var prog []Op
		next := int64(0)
		for k, t := range stepT {
			if Pool[t].Bad {
				kind := []string{"find", "create", "count", "first", "update", "delete", "updates", "create_batch"}[(gi+k+r.Intn(2))%8]
				next++
				prog = append(prog, Op{Kind: kind, T: t, ID: base + next, IDs: []int64{base + 500 + next, base + 600 + next}, Name: "b", Val: 1, Lo: lo, Hi: hi})
			} else if k%8 == 3 {
				next++
				prog = append(prog, Op{Kind: "create", T: t, ID: base + next, Name: "k", Val: 2})
			} else {
				prog = append(prog, Op{Kind: "find", T: t, Lo: lo, Hi: hi})
			}
		}
		spec.Programs = append(spec.Programs, prog)
		if d > 0 {
			spec.ColDelays = append(spec.ColDelays, []int{d + 10*r.Intn(5)})
		}
	}
	spec.SyncOps = steps
	return spec
}

// genAssocFirst: the FIRST use of a relation in Association mode (Find / Count / Delete / Clear / Replace
// build their conditions from the shared schema.Relationship: Relationship.ToQueryConditions) and
// through Delete with Select(<association>), by all goroutines at the same moment.  Every goroutine
// first creates its own parents with nested children (that path never asks the relation for query
// conditions); then, relation by relation and step by step behind the spin barrier, every goroutine
// runs an association operation on its OWN parent: the first such step of a relation is the first
// time anybody asks it for conditions.  Parent values of these steps carry the primary key only
// (Bare), so that nothing but gorm's own code runs between the barrier and the first use.  has one /
// has many / many2many relations of every family (polymorphic, self-referential, soft-delete children,
// embedded ones too); cold (the creates are the first use of the types) or warm handle.
func genAssocFirst(r *lib.Rng, i, g int, thorough bool) DBSpec {
	type pr struct {
		t   int
		rel RelDesc
	}
	byFam := map[string][]pr{}
	var fams []string
	for _, d := range Pool {
		if d.Bad || d.Family == "bad" {
			continue
		}
		for _, rl := range okRels(d.Idx, "has_many", "has_one", "many2many") {
			if len(byFam[d.Family]) == 0 {
				fams = append(fams, d.Family)
			}
			byFam[d.Family] = append(byFam[d.Family], pr{d.Idx, rl})
		}
	}
	sort.Strings(fams)
	fam := fams[(i+r.Intn(2)*7)%len(fams)]
	prs := append([]pr{}, byFam[fam]...)
	lib.Shuffle(r, prs)
	if len(prs) > 3 {
		prs = prs[:3]
	}
	spec := DBSpec{G: g, Cold: r.Bool(), PrepareStmt: r.Chance(1, 3), Conns: 4, Types: append([]int{}, Families[fam]...)}
	if spec.PrepareStmt {
		spec.Conns = g
	}
	nPar := int64(4)
	firstKinds := []string{"assoc_count", "assoc_find", "delete_select", "assoc_clear", "assoc_count", "assoc_delete", "assoc_find", "assoc_replace"}
	rot := r.Intn(len(firstKinds))
	laterKinds := []string{"assoc_count", "assoc_find", "assoc_append", "assoc_find", "assoc_count", "delete_select"}
	later := 3
	if thorough {
		later = 6
	}
	for gi := 0; gi < g; gi++ {
		base := int64(gi) * idSpan
		lo, hi := base+1, base+idSpan-1
		var prog []Op
		next := int64(1000)
		kidsOf := map[int64][]int64{}
		// parents with nested children: parent j of pair p has id base + 10*p + j
		for p, x := range prs {
			many := x.rel.Kind != "has_one"
			for j := int64(1); j <= nPar; j++ {
				id := base + int64(10*(p+1)) + j
				n := 1
				if many {
					n = 2 + int(j%2)
				}
				var kids []int64
				for k := 0; k < n; k++ {
					next++
					kids = append(kids, base+next)
				}
				kidsOf[id] = kids
				prog = append(prog, Op{Kind: "create", T: x.t, ID: id, Name: fmt.Sprintf("p%d", j), Val: j, Rel: x.rel.Field, RelT: x.rel.To, Kids: kids})
			}
		}
		for p, x := range prs {
			many := x.rel.Kind != "has_one"
			par := func(j int64) int64 { return base + int64(10*(p+1)) + j }
			mk := func(kind string, j int64, bare bool) Op {
				op := Op{Kind: kind, T: x.t, ID: par(j), Rel: x.rel.Field, RelT: x.rel.To, Lo: lo, Hi: hi, Name: "a", Bare: bare}
				switch kind {
				case "assoc_delete":
					op.Kids = kidsOf[par(j)][:1]
				case "assoc_replace", "assoc_append":
					next++
					op.Kids = []int64{base + next}
					if many && kind == "assoc_replace" {
						next++
						op.Kids = append(op.Kids, base+next)
					}
					op.Bare = false
				}
				return op
			}
			// the first use of the relation: everybody at once, kinds rotate over the goroutines
			prog = append(prog, mk(firstKinds[(gi+rot+p)%len(firstKinds)], 1, true))
			prog = append(prog, mk("assoc_count", 2, true), mk("assoc_find", 2, gi%2 == 0))
			for k := 0; k < later; k++ {
				prog = append(prog, mk(laterKinds[(gi+k+p)%len(laterKinds)], 3+int64(k%2), k%2 == 0))
			}
			prog = append(prog, Op{Kind: "find", T: x.rel.To, Lo: lo, Hi: hi})
		}
		spec.Programs = append(spec.Programs, prog)
	}
	spec.SyncOps = len(spec.Programs[0])
	return spec
}

// genSessMix: hooked and plain models; about half of the operations run on handle.Session(<one, two or
// three options>), the others plainly on the shared handle, so that whatever an option combination
// leaves behind in the shared handle shows in somebody's plain operation (hooks, context, pool).
func genSessMix(r *lib.Rng, g int, thorough bool) DBSpec {
	hk := poolByName["HkDoc"]
	singles := Families["single"]
	u := singles[r.Intn(len(singles))]
	// Conns = G: with a prepared-statement store and fewer connections than goroutines gorm can
	// deadlock (known finding preparestmt-tx-pool-smaller-than-goroutines)
	spec := DBSpec{G: g, Cold: r.Chance(1, 3), PrepareStmt: r.Chance(1, 4), Conns: g, Types: []int{hk, poolByName["TbDoc"], u}}
	steps := 10
	if thorough {
		steps = 24
	}
	for gi := 0; gi < g; gi++ {
		base := int64(gi) * idSpan
		lo, hi := base+1, base+idSpan-1
		var prog []Op
		next := int64(0)
		for k := 0; k < steps; k++ {
			t := lib.Pick(r, []int{hk, hk, u})
			var op Op
			switch r.Intn(5) {
			case 0, 1:
				next++
				op = Op{Kind: "create", T: t, ID: base + next, Name: fmt.Sprintf("n%d", next), Val: next}
			case 2:
				op = Op{Kind: "find", T: t, Lo: lo, Hi: hi}
			case 3:
				op = Op{Kind: "update", T: t, ID: base + 1 + int64(r.Intn(int(next)+1)), Val: int64(100 + k)}
			default:
				op = Op{Kind: "first", T: t, ID: base + 1, Lo: lo, Hi: hi}
			}
			if k%4 == 3 {
				// outer block with a nested block; the nested one fails half of the time (alone: only
				// its own rows are rolled back)
				next += 2
				op = Op{Kind: "tx", T: t, Fail: r.Chance(1, 5), Sub: []Op{
					{Kind: "create", T: t, ID: base + next - 1, Name: "outer", Val: next},
					{Kind: "tx", T: t, Fail: r.Bool(), Sub: []Op{{Kind: "create", T: t, ID: base + next, Name: "inner", Val: next}}},
					{Kind: "find", T: t, Lo: lo, Hi: hi}}}
			}
			if r.Bool() {
				op.Sess = sessCombo(r)
			}
			prog = append(prog, op)
		}
		spec.Programs = append(spec.Programs, prog)
	}
	spec.SyncOps = 3
	return spec
}

// genJoinReaders: rows read through Joins("Rel") (association join: the columns of the joined model are
// scanned through the pools of ITS fields) by all goroutines at the same moment, step by step behind
// the spin barrier; every row and every joined row has values of its own.
func genJoinReaders(r *lib.Rng, g int, thorough bool) DBSpec {
	type jr struct {
		t   int
		rel RelDesc
	}
	var cands []jr
	for _, d := range Pool {
		if d.Bad || d.Family == "bad" {
			continue
		}
		for _, rl := range okRels(d.Idx, "belongs_to", "has_one") {
			if rl.To != d.Idx && Pool[rl.To].Family == d.Family {
				cands = append(cands, jr{d.Idx, rl})
			}
		}
	}
	c := cands[r.Intn(len(cands))]
	spec := DBSpec{G: g, Cold: r.Chance(1, 3), PrepareStmt: r.Bool(), Conns: 4, Types: append([]int{}, Families[Pool[c.t].Family]...)}
	if spec.PrepareStmt {
		spec.Conns = g
	}
	steps := 10
	if thorough {
		steps = 24
	}
	for gi := 0; gi < g; gi++ {
		base := int64(gi) * idSpan
		lo, hi := base+1, base+idSpan-1
		var prog []Op
		for k := int64(1); k <= 3; k++ {
			if c.rel.Kind == "belongs_to" {
				prog = append(prog, Op{Kind: "create", T: c.rel.To, ID: base + k, Name: fmt.Sprintf("o%d", k), Val: k},
					Op{Kind: "create", T: c.t, ID: base + k, Name: fmt.Sprintf("c%d", k), Val: k, FK: c.rel.FK, Par: base + k})
			} else {
				prog = append(prog, Op{Kind: "create", T: c.t, ID: base + k, Name: fmt.Sprintf("o%d", k), Val: k},
					Op{Kind: "create", T: c.rel.To, ID: base + k, Name: fmt.Sprintf("c%d", k), Val: k, FK: c.rel.FK, Par: base + k})
			}
		}
		for k := 0; k < steps; k++ {
			prog = append(prog, Op{Kind: "joins", T: c.t, Rel: c.rel.Field, RelT: c.rel.To, Lo: lo, Hi: hi})
		}
		spec.Programs = append(spec.Programs, prog)
	}
	spec.SyncOps = len(spec.Programs[0])
	return spec
}
