// genproto.go: generator of protocol rounds.
package main

import "verifharness/lib"

func genProto(r *lib.Rng, g int, thorough bool) ProtoSpec {
	var seed []int
	fams := relFamilies()
	pick := func(name string) {
		seed = append(seed, Families[name]...)
	}
	mode := r.Intn(100)
	warm := false
	switch {
	case mode < 55: // one family with relations
		f := fams[r.Intn(len(fams))]
		for hasM2M(f) {
			f = fams[r.Intn(len(fams))]
		}
		pick(f)
	case mode < 70: // two families
		for k := 0; k < 2; k++ {
			f := fams[r.Intn(len(fams))]
			for hasM2M(f) {
				f = fams[r.Intn(len(fams))]
			}
			pick(f)
		}
	case mode < 80: // unrelated singles only
		s := Families["single"]
		for k := 0; k < 3; k++ {
			seed = append(seed, s[r.Intn(len(s))])
		}
	case mode < 90: // error path: BadP / BadK / BadQ only (BadOuter only alone, see below)
		if r.Bool() {
			seed = append(seed, poolByName["BadP"], poolByName["BadK"])
		} else {
			// the malformed relation comes after a well-formed one (a nested Parse precedes the failure)
			seed = append(seed, poolByName["BadQ"])
			if r.Bool() {
				seed = append(seed, poolByName["BadP"])
			}
		}
	default: // BadOuter: its result depends on the schedule once BadP is parsed concurrently
		seed = append(seed, poolByName["BadOuter"])
		g = 1
	}
	if r.Chance(1, 4) {
		s := Families["single"]
		seed = append(seed, s[r.Intn(len(s))])
	}
	types := closureOf(seed)
	bad := false
	for _, t := range types {
		if Pool[t].Bad {
			bad = true
		}
	}
	if bad && g > 4 {
		g = 2 + r.Intn(3) // the error path (delete + re-parse) makes the witness search expensive
	}
	if !bad && r.Chance(1, 5) {
		warm = true
	}
	spec := ProtoSpec{G: g, Warm: warm, Types: types}
	maxCalls := 3
	if thorough {
		maxCalls = 5
	}
	same := r.Chance(3, 10)
	first := r.Intn(len(types))
	// together: every goroutine starts with the SAME type and sleeps in its first ColumnName callback,
	// i.e. between the second cache look-up and LoadOrStore: all of them are past the second look-up
	// before anybody publishes, one wins, all the others take the LoadOrStore-loser path (for a type
	// whose parse fails the winner's error is found AFTER publication: the losers must report it too)
	together := !warm && g >= 2 && r.Chance(1, 4)
	if bad && g >= 2 {
		together = r.Chance(2, 3)
	}
	if together {
		same = true
		if bad {
			// a type whose own relation is malformed
			var bt []int
			for i, t := range types {
				if Pool[t].Bad && Pool[t].Name != "BadOuter" {
					bt = append(bt, i)
				}
			}
			if len(bt) > 0 {
				first = bt[r.Intn(len(bt))]
			}
		}
	}
	for i := 0; i < g; i++ {
		n := 1 + r.Intn(maxCalls)
		var p []int
		for k := 0; k < n; k++ {
			t := r.Intn(len(types))
			if k == 0 {
				if same {
					t = first
				} else {
					t = (first + i) % len(types) // different goroutines start with different types
				}
			}
			p = append(p, t)
		}
		spec.Programs = append(spec.Programs, p)
		var d []int
		nd := 1 + r.Intn(6)
		for k := 0; k < nd; k++ {
			switch r.Intn(5) {
			case 0:
				d = append(d, -1)
			case 1:
				d = append(d, 0)
			default:
				d = append(d, 20*(1+r.Intn(25)))
			}
		}
		if together {
			// k = 0 is TableName (between the two look-ups), k = 1 the first ColumnName
			d = append([]int{[]int{-1, 0, 20}[r.Intn(3)], 300 + 20*r.Intn(20)}, d...)
		}
		spec.Delays = append(spec.Delays, d)
	}
	return spec
}

// hasM2M: families with a many2many relation (the join-table parse is a nested PUBLIC Parse on a
// reflect.StructOf type, which the protocol model does not contain) stay out of the protocol rounds
func hasM2M(fam string) bool {
	for _, t := range Families[fam] {
		for _, r := range Pool[t].Rels {
			if r.Kind == "many2many" {
				return true
			}
		}
	}
	return false
}
