// ref.go: a Go twin of the Coq model C07_Model.step (same program counters, same atomic
// steps) used ONLY to search a witness schedule for an observed coarse trace.  It is not
// trusted: the schedule it finds is replayed inside Coq by C07_Check (run cfg init sched) and
// the visible projection of the replayed trace is compared there with the observed events.
package main

import (
	"fmt"
	"strings"
)

const (
	kLoad1 = iota
	kBuild
	kLoad2
	kStore
	kRel
	kNest
	kGuess
	kDelete
	kClose
	kWait
	kRet
)

type mFrame struct {
	Ty, K       int
	S, I, FS, R int // own schema, relation index, FieldSchema, returned/waited schema
	Own         int // kWait: own schema or -1
	Ok          bool
}
type mThread struct {
	Stack []mFrame // last element = top
	Todo  []int
	NRet  int
}
type mSchema struct {
	Ty, Owner   int
	Closed, Err bool
	NRel        int
}
type mState struct {
	Cache []int // per type: schema id or -1
	Sch   []mSchema
	Thr   []mThread
}

type vis struct {
	Kind string
	G, T int
	Sid  int
	Err  bool
}

func (st *mState) clone() *mState {
	n := &mState{Cache: append([]int(nil), st.Cache...), Sch: append([]mSchema(nil), st.Sch...), Thr: make([]mThread, len(st.Thr))}
	for i, t := range st.Thr {
		n.Thr[i] = mThread{Stack: append([]mFrame(nil), t.Stack...), Todo: t.Todo, NRet: t.NRet}
	}
	return n
}

func (st *mState) key(idx int, sid2pid map[int]int) string {
	var sb strings.Builder
	fmt.Fprintf(&sb, "%d|%v|", idx, st.Cache)
	for s := range st.Sch {
		if p, ok := sid2pid[s]; ok {
			fmt.Fprintf(&sb, "%d>%d,", s, p)
		}
	}
	for _, s := range st.Sch {
		fmt.Fprintf(&sb, "%d.%d.%v.%v.%d;", s.Ty, s.Owner, s.Closed, s.Err, s.NRel)
	}
	for _, t := range st.Thr {
		fmt.Fprintf(&sb, "|%d:", len(t.Todo))
		for _, f := range t.Stack {
			fmt.Fprintf(&sb, "%d.%d.%d.%d.%d.%d.%d.%v;", f.Ty, f.K, f.S, f.I, f.FS, f.R, f.Own, f.Ok)
		}
	}
	return sb.String()
}

func mInitial(cfg [][]protoRel, progs [][]int, warm bool) *mState {
	st := &mState{Cache: make([]int, len(cfg))}
	for t := range cfg {
		st.Cache[t] = -1
		if warm {
			st.Cache[t] = t
			st.Sch = append(st.Sch, mSchema{Ty: t, Closed: true, NRel: len(cfg[t])})
		}
	}
	for _, p := range progs {
		st.Thr = append(st.Thr, mThread{Todo: p})
	}
	return st
}

// mStep performs one step of goroutine g IN PLACE; it returns false if g is not enabled.
func mStep(cfg [][]protoRel, st *mState, g int) (ok bool, v *vis) {
	th := &st.Thr[g]
	if len(th.Stack) == 0 {
		if len(th.Todo) == 0 {
			return false, nil
		}
		t := th.Todo[0]
		th.Todo = th.Todo[1:]
		th.Stack = []mFrame{{Ty: t, K: kLoad1}}
		return true, &vis{Kind: "start", G: g, T: t}
	}
	f := &th.Stack[len(th.Stack)-1]
	t := f.Ty
	deliver := func(r int) *vis {
		e := st.Sch[r].Err
		th.Stack = th.Stack[:len(th.Stack)-1]
		if len(th.Stack) == 0 {
			th.NRet++
			return &vis{Kind: "ret", G: g, T: t, Sid: r, Err: e}
		}
		p := &th.Stack[len(th.Stack)-1]
		if e {
			st.Sch[p.S].Err = true
			p.K = kDelete
		} else {
			p.K = kGuess
			p.FS = r
		}
		return nil
	}
	switch f.K {
	case kLoad1:
		if w := st.Cache[t]; w >= 0 {
			f.K, f.Own, f.R = kWait, -1, w
		} else {
			f.K = kBuild
		}
	case kBuild:
		st.Sch = append(st.Sch, mSchema{Ty: t, Owner: g})
		f.K, f.S = kLoad2, len(st.Sch)-1
		return true, &vis{Kind: "build", G: g, T: t}
	case kLoad2:
		if w := st.Cache[t]; w >= 0 {
			f.K, f.Own, f.R = kWait, f.S, w
		} else {
			f.K = kStore
		}
	case kStore:
		if w := st.Cache[t]; w >= 0 {
			f.K, f.Own, f.R = kWait, f.S, w
		} else {
			st.Cache[t] = f.S
			f.K, f.I = kRel, 0
		}
	case kRel:
		if f.I >= len(cfg[t]) {
			f.K, f.R = kClose, f.S
		} else {
			r := cfg[t][f.I]
			if fs := st.Cache[r.To]; fs >= 0 {
				f.K, f.FS, f.Ok = kGuess, fs, r.Ok
			} else {
				f.K, f.Ok = kNest, r.Ok
				th.Stack = append(th.Stack, mFrame{Ty: r.To, K: kLoad1})
			}
		}
	case kNest:
		return false, nil
	case kGuess:
		if f.Ok {
			st.Sch[f.S].NRel++
			f.K, f.I = kRel, f.I+1
		} else {
			st.Sch[f.S].Err = true
			f.K = kDelete
		}
	case kDelete:
		st.Cache[t] = -1
		f.K, f.R = kClose, f.S
	case kClose:
		st.Sch[f.S].Closed = true
		f.K = kRet
	case kWait:
		if !st.Sch[f.R].Closed {
			return false, nil
		}
		if f.Own >= 0 {
			f.K, f.S = kClose, f.Own
		} else {
			f.K = kRet
		}
	case kRet:
		return true, deliver(f.R)
	}
	return true, nil
}

func (st *mState) finished() bool {
	for _, t := range st.Thr {
		if len(t.Stack) > 0 || len(t.Todo) > 0 {
			return false
		}
	}
	return true
}

// local: the next step of g touches nothing another goroutine can observe before a later
// shared step of g, so it can be taken at once without branching
func (st *mState) localNext(g int) bool {
	th := &st.Thr[g]
	if len(th.Stack) == 0 {
		return false
	}
	f := &th.Stack[len(th.Stack)-1]
	switch f.K {
	case kGuess:
		return true
	case kWait:
		return st.Sch[f.R].Closed
	case kRet:
		return len(th.Stack) > 1
	}
	return false
}

type witnessSearch struct {
	cfg    [][]protoRel
	events []PEvent
	memo   map[string]bool
	nodes  int
	budget int
	sched  []int
}

func matches(v *vis, e PEvent, sid2pid map[int]int, pid2sid map[int]int) bool {
	if v.Kind != e.Kind || v.G != e.G || v.T != e.Type {
		return false
	}
	if v.Kind == "ret" {
		if v.Err != e.Err {
			return false
		}
		p, ok1 := sid2pid[v.Sid]
		s, ok2 := pid2sid[e.Pid]
		if ok1 != ok2 || (ok1 && (p != e.Pid || s != v.Sid)) {
			return false
		}
	}
	return true
}

func (w *witnessSearch) dfs(st *mState, idx int, sid2pid, pid2sid map[int]int) bool {
	w.nodes++
	if w.nodes > w.budget {
		return false
	}
	// eager local steps
	base := len(w.sched)
	for progress := true; progress; {
		progress = false
		for g := range st.Thr {
			for st.localNext(g) {
				mStep(w.cfg, st, g)
				w.sched = append(w.sched, g)
				progress = true
			}
		}
	}
	if idx == len(w.events) && st.finished() {
		return true
	}
	k := st.key(idx, sid2pid)
	if w.memo[k] {
		w.sched = w.sched[:base]
		return false
	}
	order := make([]int, 0, len(st.Thr))
	if idx < len(w.events) {
		order = append(order, w.events[idx].G)
	}
	for g := range st.Thr {
		if idx >= len(w.events) || g != w.events[idx].G {
			order = append(order, g)
		}
	}
	for _, g := range order {
		n := st.clone()
		ok, v := mStep(w.cfg, n, g)
		if !ok {
			continue
		}
		nidx := idx
		var addS, addP = -1, -1
		if v != nil {
			if idx >= len(w.events) || !matches(v, w.events[idx], sid2pid, pid2sid) {
				continue
			}
			if v.Kind == "ret" {
				if _, ok := sid2pid[v.Sid]; !ok {
					sid2pid[v.Sid], pid2sid[w.events[idx].Pid] = w.events[idx].Pid, v.Sid
					addS, addP = v.Sid, w.events[idx].Pid
				}
			}
			nidx++
		}
		mark := len(w.sched)
		w.sched = append(w.sched, g)
		if w.dfs(n, nidx, sid2pid, pid2sid) {
			return true
		}
		w.sched = w.sched[:mark]
		if addS >= 0 {
			delete(sid2pid, addS)
			delete(pid2sid, addP)
		}
		if w.nodes > w.budget {
			break
		}
	}
	w.memo[k] = true
	w.sched = w.sched[:base]
	return false
}

// findWitness searches a schedule of the model whose visible events are exactly the observed
// ones.  exhausted=true means the budget ran out (no verdict).
func findWitness(cfg [][]protoRel, progs [][]int, warm bool, events []PEvent, budget int) (sched []int, found, exhausted bool, nodes int) {
	w := &witnessSearch{cfg: cfg, events: events, memo: map[string]bool{}, budget: budget}
	st := mInitial(cfg, progs, warm)
	found = w.dfs(st, 0, map[int]int{}, map[int]int{})
	return w.sched, found, !found && w.nodes > w.budget, w.nodes
}
