// proto.go: protocol rounds.  G goroutines call the PUBLIC schema.Parse on ONE shared, fresh
// sync.Map (exactly what Statement.Parse does with Config.cacheStore) and the coarse order of
// their calls is recorded: start of a call, "build" (namer.TableName is called right after the
// first cache miss), return (with the identity of the returned *Schema, its error, and whether
// its initialized channel was closed at that moment).  Events are stamped with the monotonic
// clock in per-goroutine logs (no lock, no atomic: the instrumentation adds no happens-before
// edge that could hide a race) and merged by time stamp.  Every goroutine passes its OWN namer
// value, so a callback knows its goroutine without any shared state; the namer also injects the
// delays of the spec (they widen the windows between the protocol steps).
package main

import (
	"reflect"
	"runtime"
	"sort"
	"strings"
	"sync"
	"time"
	"unsafe"

	"gorm.io/gorm/schema"
)

type ProtoSpec struct {
	G        int
	Warm     bool
	Types    []int   // pool indices, closed under relations; dense model type id = position here
	Programs [][]int // per goroutine: dense type ids to Parse, in order
	Delays   [][]int // per goroutine: microseconds slept at its k-th namer callback (cyclic); 0 = Gosched; <0 = nothing
}

type PEvent struct {
	T      int64  `json:"t"` // ns since the barrier
	G      int    `json:"g"`
	Kind   string `json:"kind"` // start | build | ret
	Type   int    `json:"type"` // dense type id
	Pid    int    `json:"pid"`  // ret: identity of the returned schema (numbered by first appearance)
	Err    bool   `json:"err"`
	Closed bool   `json:"closed"`     // ret: initialized was closed when Parse returned
	RelCl  bool   `json:"rel_closed"` // ret: the schemas of all its relations were closed too
	ptr    *schema.Schema
}

type PRes struct {
	Err     bool `json:"err"`
	NRel    int  `json:"nrel"`
	NFields int  `json:"nfields"`
}

type ProtoObs struct {
	Events []PEvent
	Conc   [][]PRes
	Serial [][]PRes
	Hang   bool
	MinGap int64 // smallest time difference between consecutive events of different goroutines (ns)
}

// protoCfg is the model configuration of a spec: per dense type, its relation fields in
// declaration order (dense target, relation well formed).
type protoRel struct {
	To int
	Ok bool
}

func relOK(t, j int) bool {
	// BadOuter.BadP is a well-formed belongs-to: BadOuter fails only because the nested
	// Parse(BadP) fails
	return Pool[t].Rels[j].OK || Pool[t].Name == "BadOuter"
}

func protoCfg(types []int) [][]protoRel {
	dense := map[int]int{}
	for i, t := range types {
		dense[t] = i
	}
	cfg := make([][]protoRel, len(types))
	for i, t := range types {
		for j, r := range Pool[t].Rels {
			cfg[i] = append(cfg[i], protoRel{dense[r.To], relOK(t, j)})
		}
	}
	return cfg
}

// closureOf closes a set of pool indices under relations (stable order: first appearance).
func closureOf(seed []int) []int {
	seen := map[int]bool{}
	var out []int
	var visit func(int)
	visit = func(t int) {
		if seen[t] {
			return
		}
		seen[t] = true
		out = append(out, t)
		for _, r := range Pool[t].Rels {
			visit(r.To)
		}
	}
	for _, t := range seed {
		visit(t)
	}
	return out
}

func chanClosed(s *schema.Schema) bool {
	f := reflect.ValueOf(s).Elem().FieldByName("initialized")
	ch := *(*chan struct{})(unsafe.Pointer(f.UnsafeAddr()))
	select {
	case <-ch:
		return true
	default:
		return false
	}
}

func ownRelations(s *schema.Schema) (n int, allClosed bool) {
	allClosed = true
	s.Relationships.Mux.RLock()
	defer s.Relationships.Mux.RUnlock()
	for name, rel := range s.Relationships.Relations {
		if strings.HasPrefix(name, "_") {
			continue
		}
		n++
		if rel.FieldSchema != nil && !chanClosed(rel.FieldSchema) {
			allClosed = false
		}
	}
	return
}

type pNamer struct {
	schema.NamingStrategy
	g      int
	rt     *protoRT
	k      int
	delays []int
}

type protoRT struct {
	base  time.Time
	dense map[string]int
	logs  [][]PEvent
}

func (n *pNamer) pause() {
	if n.g < 0 || len(n.delays) == 0 {
		return
	}
	d := n.delays[n.k%len(n.delays)]
	n.k++
	switch {
	case d > 0:
		time.Sleep(time.Duration(d) * time.Microsecond)
	case d == 0:
		runtime.Gosched()
	}
}

func (n *pNamer) TableName(s string) string {
	r := n.NamingStrategy.TableName(s)
	if n.g >= 0 {
		if t, ok := n.rt.dense[s]; ok {
			n.rt.logs[n.g] = append(n.rt.logs[n.g], PEvent{T: time.Since(n.rt.base).Nanoseconds(), G: n.g, Kind: "build", Type: t})
		}
	}
	n.pause()
	return r
}

func (n *pNamer) ColumnName(table, column string) string {
	r := n.NamingStrategy.ColumnName(table, column)
	n.pause()
	return r
}

func protoCall(rt *protoRT, nm *pNamer, cache *sync.Map, t int, pool int, record bool) PRes {
	if record {
		rt.logs[nm.g] = append(rt.logs[nm.g], PEvent{T: time.Since(rt.base).Nanoseconds(), G: nm.g, Kind: "start", Type: t})
	}
	s, err := schema.Parse(Pool[pool].New(), cache, nm)
	var res PRes
	res.Err = err != nil
	ev := PEvent{G: nm.g, Kind: "ret", Type: t, Err: err != nil, ptr: s}
	if s != nil {
		ev.Closed = chanClosed(s)
	}
	if record {
		ev.T = time.Since(rt.base).Nanoseconds()
	}
	if s != nil && ev.Closed {
		res.NFields = len(s.Fields)
		res.NRel, ev.RelCl = ownRelations(s)
	}
	if record {
		rt.logs[nm.g] = append(rt.logs[nm.g], ev)
	}
	return res
}

func runProto(spec *ProtoSpec) ProtoObs {
	var obs ProtoObs
	dense := map[string]int{}
	for i, t := range spec.Types {
		dense[Pool[t].Name] = i
	}
	// serial reference: same programs, one after the other, on a fresh cache
	{
		rt := &protoRT{base: time.Now(), dense: dense, logs: make([][]PEvent, spec.G)}
		cache := &sync.Map{}
		for g := 0; g < spec.G; g++ {
			nm := &pNamer{g: -1, rt: rt}
			var rs []PRes
			for _, t := range spec.Programs[g] {
				rs = append(rs, protoCall(rt, nm, cache, t, spec.Types[t], false))
			}
			obs.Serial = append(obs.Serial, rs)
		}
	}
	rt := &protoRT{dense: dense, logs: make([][]PEvent, spec.G)}
	cache := &sync.Map{}
	if spec.Warm {
		nm := &pNamer{g: -1, rt: rt}
		for _, t := range spec.Types {
			schema.Parse(Pool[t].New(), cache, nm)
		}
	}
	obs.Conc = make([][]PRes, spec.G)
	start := make(chan struct{})
	var wg sync.WaitGroup
	for g := 0; g < spec.G; g++ {
		wg.Add(1)
		go func(g int) {
			defer wg.Done()
			nm := &pNamer{g: g, rt: rt}
			if g < len(spec.Delays) {
				nm.delays = spec.Delays[g]
			}
			<-start
			var rs []PRes
			for _, t := range spec.Programs[g] {
				rs = append(rs, protoCall(rt, nm, cache, t, spec.Types[t], true))
			}
			obs.Conc[g] = rs
		}(g)
	}
	rt.base = time.Now()
	close(start)
	done := make(chan struct{})
	go func() { wg.Wait(); close(done) }()
	select {
	case <-done:
	case <-time.After(30 * time.Second):
		obs.Hang = true
		return obs
	}
	for g := range rt.logs {
		obs.Events = append(obs.Events, rt.logs[g]...)
	}
	sort.SliceStable(obs.Events, func(i, j int) bool { return obs.Events[i].T < obs.Events[j].T })
	pids := map[*schema.Schema]int{}
	obs.MinGap = 1 << 62
	for i := range obs.Events {
		e := &obs.Events[i]
		if e.Kind == "ret" {
			if _, ok := pids[e.ptr]; !ok {
				pids[e.ptr] = len(pids)
			}
			e.Pid = pids[e.ptr]
		}
		if i > 0 && obs.Events[i-1].G != e.G && e.T-obs.Events[i-1].T < obs.MinGap {
			obs.MinGap = e.T - obs.Events[i-1].T
		}
	}
	return obs
}
