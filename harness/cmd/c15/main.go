// c15: read paths agree; FindInBatches visits every row once, in key order.
// Runs generated chains on real gorm + SQLite and writes, per case, the input as executed
// and the rows every read path returned, as Gallina terms for C15_Check.check_case.
package main

import (
	"database/sql"
	"encoding/json"
	"errors"
	"fmt"
	"os"
	"reflect"
	"sort"
	"strings"

	"gorm.io/driver/sqlite"
	"gorm.io/gorm"
	"gorm.io/gorm/clause"

	"verifharness/gdb"
	"verifharness/lib"
)

type Item struct {
	ID int64 `gorm:"primaryKey"`
	V  int64
	N  *int64 // NULL in every third row
	// KeyCopy: a column whose name has two words (key_copy), equal to the key
	KeyCopy int64
	// Rank: a column whose name is an SQL keyword (order), equal to v
	Rank int64 `gorm:"column:order"`
}

// CK: a model with a composite primary key (single-record finders whose destination carries a key)
type CK struct {
	A string `gorm:"primaryKey"`
	B int64  `gorm:"primaryKey;autoIncrement:false"`
	V int64
}

type Row struct {
	ID int64 `json:"id"`
	V  int64 `json:"v"`
}

type Cond struct {
	Kind string `json:"kind"` // all | mod | gt | none | ormodgt | seq
	A    int64  `json:"a"`
	B    int64  `json:"b"`
	C    int64  `json:"c"`
	// kind seq: Where(First) followed by Where / Or / Not calls
	First *ACond    `json:"first,omitempty"`
	Seq   []SeqCall `json:"seq,omitempty"`
}

// ACond is one raw condition of a seq chain.
type ACond struct {
	K string `json:"k"` // mod | gt | lt | vgt
	A int64  `json:"a"`
	B int64  `json:"b"`
}
type SeqCall struct {
	Call string `json:"call"` // where | or | not
	A    ACond  `json:"a"`
}

func (a ACond) sql() (string, []interface{}) {
	switch a.K {
	case "mod":
		return "id % ? = ?", []interface{}{a.A, a.B}
	case "gt":
		return "id > ?", []interface{}{a.A}
	case "lt":
		return "id < ?", []interface{}{a.A}
	}
	return "v > ?", []interface{}{a.A}
}
func gACond(a ACond) string {
	switch a.K {
	case "mod":
		return lib.App("AMod", lib.Z(a.A), lib.Z(a.B))
	case "gt":
		return lib.App("AGt", lib.Z(a.A))
	case "lt":
		return lib.App("ALt", lib.Z(a.A))
	}
	return lib.App("AVGt", lib.Z(a.A))
}
func genACond(r *lib.Rng) ACond {
	switch r.Intn(4) {
	case 0:
		m := int64(r.Range(2, 3))
		return ACond{K: "mod", A: m, B: int64(r.Intn(int(m)))}
	case 1:
		return ACond{K: "gt", A: int64(r.Range(0, 12))}
	case 2:
		return ACond{K: "lt", A: int64(r.Range(2, 14))}
	}
	return ACond{K: "vgt", A: int64(r.Range(0, 6))}
}

type Lop struct {
	Kind string `json:"kind"` // limit | offset
	N    int64  `json:"n"`
}

type Input struct {
	Tbl  []Row  `json:"tbl"`
	Cond Cond   `json:"cond"`
	Ord  string `json:"ord"` // none | id_asc | id_desc | v_asc
	Lops []Lop  `json:"lops"`
	BS   int64  `json:"bs"` // 0 = FindInBatches not run
	// PtrBatch: FindInBatches fills a slice of pointers instead of a slice of structs
	PtrBatch bool `json:"ptr_batch,omitempty"`
	// SelNull: the select-columns comparison uses Select("n"), one nullable column (known finding)
	SelNull bool `json:"sel_null,omitempty"`
	// OrdVia: how the ordering reaches the statement: "" Order("id desc") | expr
	// Clauses(clause.OrderBy{Expression}) | reorder (an earlier Order(v) replaced by a Reorder column) |
	// column Order(clause.OrderByColumn{...})
	OrdVia string `json:"ord_via,omitempty"`
	// SelCols: the Select list of the field-by-field reads, (name the driver reports, source column);
	// empty = no Select
	SelCols [][2]string `json:"sel_cols,omitempty"`
}

type Obs struct {
	Find      []Row   `json:"find"`
	FindRA    int64   `json:"find_ra"`
	Maps      []Row   `json:"maps"`
	Rows      []Row   `json:"rows"`
	Scan      []Row   `json:"scan"`
	PluckID   []int64 `json:"pluck_id"`
	PluckV    []int64 `json:"pluck_v"`
	Count     int64   `json:"count"`
	First     *Row    `json:"first"`
	Last      *Row    `json:"last"`
	Take      *Row    `json:"take"`
	Batches   [][]Row `json:"batches"`
	BatchesRA int64   `json:"batches_ra"`
	Ptrs      []Row   `json:"ptrs"`
	Array     []Row   `json:"array"`
	// Find into a slice that already holds records and has spare capacity (a reused destination)
	Reused   []Row  `json:"reused"`
	ReusedRA int64  `json:"reused_ra"`
	Single   *Row   `json:"single"`
	SingleRA int64  `json:"single_ra"`
	Prim     *int64 `json:"prim"`
	PrimRA   int64  `json:"prim_ra"`
	// Find into a slice of maps that already holds one map (a reused destination: gorm appends);
	// First into such a slice: ErrRecordNotFound?
	ReusedMaps    []Row    `json:"reused_maps"`
	ReusedMapsRA  int64    `json:"reused_maps_ra"`
	ReusedFirstNF bool     `json:"reused_first_nf"`
	ScanMaps      []Row    `json:"scan_maps"`
	ScanMapsRA    int64    `json:"scan_maps_ra"`
	RowsMaps      []Row    `json:"rows_maps"`
	FirstMap      *Row     `json:"first_map"`
	LastMap       *Row     `json:"last_map"`
	TakeMap       *Row     `json:"take_map"`
	Errs          []string `json:"errs"`
	// Count against Find under a Select of columns (-1 = not run: chain has limit / offset)
	SelCount int64 `json:"sel_count"`
	SelFind  int64 `json:"sel_find"`
	SelMaps  int64 `json:"sel_maps"`
	// SelList: Statement.Selects of that comparison
	SelList []string `json:"sel_list"`
	// composite-key table and the single-record finders into destinations carrying a key
	CKRows   [][3]int64 `json:"ck_rows"`   // a, b, v
	CKProbes [][5]int64 `json:"ck_probes"` // finder (0 first 1 take 2 last), a, b, found (0/1; 2 = another error), v
	// one inline primary key given to the finders: First / Take / Last (nil = not found) and Find
	InlKey  int64  `json:"inl_key"`
	Inl     []*Row `json:"inl"`
	InlFind []Row  `json:"inl_find"`
	// pagination idiom on a reusable handle: Count, then Limit(2).Find continued from Count's result;
	// and the same page without the Count
	CPage  []Row `json:"c_page"`
	Page   []Row `json:"page"`
	CPageN int64 `json:"c_page_n"`
	// two sibling chains of one reusable parent that carries three tie orderings, built before
	// either runs: one adds Order("id"), the other Order("id desc")
	SibAsc  []Row `json:"sib_asc"`
	SibDesc []Row `json:"sib_desc"`
	// Find through gorm's own LIMIT / OFFSET rendering (GRun false: statement not valid SQLite)
	GFind []Row `json:"g_find"`
	GRun  bool  `json:"g_run"`
	// the chain under SelCols read into []Item (the five fields in schema order, nil = nil pointer) and
	// into []map (every entry, nil = nil)
	SelRecs    [][]*int64          `json:"sel_recs"`
	SelMapRecs []map[string]*int64 `json:"sel_map_recs"`
}

func chain(db *gorm.DB, in Input) *gorm.DB {
	tx := db.Session(&gorm.Session{})
	switch in.Cond.Kind {
	case "mod":
		tx = tx.Where("items.id % ? = ?", in.Cond.A, in.Cond.B)
	case "gt":
		tx = tx.Where("items.id > ?", in.Cond.A)
	case "none":
		tx = tx.Where("1 = 0")
	case "ormodgt":
		tx = tx.Where("items.id % ? = ?", in.Cond.A, in.Cond.B).Or("items.id > ?", in.Cond.C)
	case "seq":
		q, a := in.Cond.First.sql()
		tx = tx.Where(q, a...)
		for _, c := range in.Cond.Seq {
			q, a := c.A.sql()
			switch c.Call {
			case "or":
				tx = tx.Or(q, a...)
			case "not":
				tx = tx.Not(q, a...)
			default:
				tx = tx.Where(q, a...)
			}
		}
	}
	col := map[string]clause.OrderByColumn{
		"id_asc":  {Column: clause.Column{Name: "id"}},
		"id_desc": {Column: clause.Column{Name: "id"}, Desc: true},
		"v_asc":   {Column: clause.Column{Name: "v"}},
	}[in.Ord]
	text := map[string]string{"id_asc": "id", "id_desc": "id desc", "v_asc": "v"}[in.Ord]
	if in.Ord != "none" && in.Ord != "" {
		switch in.OrdVia {
		case "expr":
			tx = tx.Clauses(clause.OrderBy{Expression: clause.Expr{SQL: text}})
		case "reorder":
			col.Reorder = true
			tx = tx.Order("v desc").Order(col)
		case "column":
			tx = tx.Order(col)
		default:
			tx = tx.Order(text)
		}
	}
	for _, l := range in.Lops {
		if l.Kind == "limit" {
			tx = tx.Limit(int(l.N))
		} else {
			tx = tx.Offset(int(l.N))
		}
	}
	return tx
}

func toRows(items []Item) []Row {
	out := make([]Row, len(items))
	for i, it := range items {
		out[i] = Row{it.ID, it.V}
	}
	return out
}

// mapRow: a row delivered as a map: every column is present, NULL is nil, n and key_copy hold what
// the table holds for that id; complaints go to errs
func mapRow(m map[string]interface{}, where string, errs *[]string) Row {
	for _, c := range []string{"id", "v", "n", "key_copy"} {
		if _, ok := m[c]; !ok {
			*errs = append(*errs, fmt.Sprintf("%s: the map of a row has no entry for column %s: %v", where, c, m))
			return Row{asInt(m["id"]), asInt(m["v"])}
		}
	}
	id := asInt(m["id"])
	if id%3 == 0 {
		if m["n"] != nil {
			*errs = append(*errs, fmt.Sprintf("%s: row %d: n is NULL, the map holds %v", where, id, m["n"]))
		}
	} else if m["n"] == nil || asInt(deref(m["n"])) != id {
		*errs = append(*errs, fmt.Sprintf("%s: row %d: n = %d, the map holds %v", where, id, id, m["n"]))
	}
	if asInt(m["key_copy"]) != id {
		*errs = append(*errs, fmt.Sprintf("%s: row %d: key_copy = %d, the map holds %v", where, id, id, m["key_copy"]))
	}
	return Row{id, asInt(m["v"])}
}

func deref(v interface{}) interface{} {
	if p, ok := v.(*int64); ok && p != nil {
		return *p
	}
	return v
}

func asInt(v interface{}) int64 {
	switch x := v.(type) {
	case int64:
		return x
	case int:
		return int64(x)
	case int32:
		return int64(x)
	case uint64:
		return int64(x)
	case float64:
		return int64(x)
	case []byte:
		var n int64
		fmt.Sscan(string(x), &n)
		return n
	case string:
		var n int64
		fmt.Sscan(x, &n)
		return n
	}
	return -999999
}

// dbGeneric: a handle on the same database whose LIMIT clause is rendered by gorm's own
// clause.Limit.Build (the SQLite dialector installs its own builder for that clause).
var dbGeneric *gorm.DB

func run(db *gorm.DB, in Input) (o Obs) {
	defer func() {
		// a panic inside gorm is an observation of this case, not the end of the run
		if r := recover(); r != nil {
			o.Errs = append(o.Errs, fmt.Sprint("panic: ", r))
			if o.Batches == nil {
				o.Batches = [][]Row{}
			}
		}
	}()
	fail := func(where string, err error) {
		if err != nil {
			o.Errs = append(o.Errs, where+": "+err.Error())
		}
	}
	// table contents
	fail("reset", db.Exec("DELETE FROM items").Error)
	if len(in.Tbl) > 0 {
		items := make([]Item, len(in.Tbl))
		for i, r := range in.Tbl {
			items[i] = Item{ID: r.ID, V: r.V, KeyCopy: r.ID, Rank: r.V}
			if r.ID%3 != 0 {
				n := r.ID
				items[i].N = &n
			}
		}
		fail("insert", db.Create(&items).Error)
	}
	// Find into structs
	var items []Item
	res := chain(db, in).Find(&items)
	fail("find", res.Error)
	o.Find, o.FindRA = toRows(items), res.RowsAffected
	// Find into maps
	var maps []map[string]interface{}
	fail("maps", chain(db, in).Model(&Item{}).Find(&maps).Error)
	o.Maps = []Row{}
	for _, m := range maps {
		o.Maps = append(o.Maps, mapRow(m, "Find into maps", &o.Errs))
	}
	// Rows + ScanRows
	o.Rows = []Row{}
	rows, err := chain(db, in).Model(&Item{}).Rows()
	fail("rows", err)
	if err == nil {
		for rows.Next() {
			var it Item
			fail("scanrows", db.ScanRows(rows, &it))
			o.Rows = append(o.Rows, Row{it.ID, it.V})
		}
		rows.Close()
	}
	// Scan
	var scanned []Item
	fail("scan", chain(db, in).Model(&Item{}).Scan(&scanned).Error)
	o.Scan = toRows(scanned)
	{
		// Scan into a slice of another struct type (only the matching columns): same rows, same order
		type dto struct {
			ID int64
			V  int64
		}
		var ds []dto
		fail("scan_dto", chain(db, in).Model(&Item{}).Scan(&ds).Error)
		same := len(ds) == len(o.Scan)
		for i := 0; same && i < len(ds); i++ {
			same = ds[i].ID == o.Scan[i].ID && ds[i].V == o.Scan[i].V
		}
		if !same {
			o.Errs = append(o.Errs, fmt.Sprintf("Scan into another struct type: %v, Scan into the model: %v", ds, o.Scan))
		}
	}
	// further destination kinds: slice of pointers, array, one struct, one primitive
	{
		var ptrs []*Item
		fail("ptrs", chain(db, in).Find(&ptrs).Error)
		o.Ptrs = []Row{}
		for _, p := range ptrs {
			o.Ptrs = append(o.Ptrs, Row{p.ID, p.V})
		}
		reused := make([]Item, 3, 8)
		for i := range reused {
			reused[i] = Item{ID: -3 - int64(i), V: -3}
		}
		r0 := chain(db, in).Find(&reused)
		fail("reused", r0.Error)
		o.Reused, o.ReusedRA = toRows(reused), r0.RowsAffected
		// an array that already holds records (a reused destination): every slot that is not
		// zero afterwards is reported as a row
		var arr [16]Item
		for i := range arr {
			arr[i] = Item{ID: -7 - int64(i), V: -7}
		}
		r := chain(db, in).Find(&arr)
		fail("array", r.Error)
		o.Array = []Row{}
		for i := range arr {
			if arr[i].ID != 0 {
				o.Array = append(o.Array, Row{arr[i].ID, arr[i].V})
			}
		}
		if want := r.RowsAffected; r.Error == nil && want <= int64(len(arr)) && int64(len(o.Array)) != want {
			o.Errs = append(o.Errs, fmt.Sprintf("array: RowsAffected=%d, %d non-zero slots", want, len(o.Array)))
		}
		var one Item
		r = chain(db, in).Find(&one)
		fail("single", r.Error)
		o.SingleRA = r.RowsAffected
		if r.RowsAffected > 0 {
			o.Single = &Row{one.ID, one.V}
		}
		var prim int64 = -12345
		r = chain(db, in).Model(&Item{}).Select("id").Scan(&prim)
		fail("prim", r.Error)
		o.PrimRA = r.RowsAffected
		if r.RowsAffected > 0 {
			o.Prim = &prim
		}
		// every other primitive destination kind gorm lists reports the same value and count
		if r.Error == nil {
			var (
				vi   int
				vi8  int8
				vi16 int16
				vi32 int32
				vu   uint
				vu8  uint8
				vu16 uint16
				vu32 uint32
				vu64 uint64
				vf32 float32
				vf64 float64
				vs   string
				vn   sql.NullInt64
			)
			for _, d := range []interface{}{&vi, &vi8, &vi16, &vi32, &vu, &vu8, &vu16, &vu32, &vu64, &vf32, &vf64, &vs, &vn} {
				r2 := chain(db, in).Model(&Item{}).Select("id").Scan(d)
				got := fmt.Sprint(reflect.ValueOf(d).Elem().Interface())
				if nv, ok := d.(*sql.NullInt64); ok {
					got = fmt.Sprint(nv.Int64)
				}
				want := "0"
				if o.Prim != nil {
					want = fmt.Sprint(*o.Prim)
				}
				if vs == "" && d == interface{}(&vs) {
					got = "0"
					if o.Prim != nil {
						got = ""
					}
				}
				if r2.Error != nil || r2.RowsAffected != o.PrimRA || (o.Prim != nil && got != want) {
					o.Errs = append(o.Errs, fmt.Sprintf("Scan into %T: %v (RowsAffected %d, error %v), into int64: %s (%d)", d, got, r2.RowsAffected, r2.Error, want, o.PrimRA))
				}
				if len(o.Find) > 0 {
					r3 := chain(db, in).Model(&Item{}).Select("id").Take(d)
					if r3.Error != nil || r3.RowsAffected != 1 {
						o.Errs = append(o.Errs, fmt.Sprintf("Take into %T: RowsAffected %d, error %v", d, r3.RowsAffected, r3.Error))
					}
				}
			}
		}
	}
	// slice-of-maps destinations through Scan and Rows+ScanRows; single-record finders into a map
	{
		var ms []map[string]interface{}
		r := chain(db, in).Model(&Item{}).Scan(&ms)
		fail("scan_maps", r.Error)
		o.ScanMapsRA = r.RowsAffected
		o.ScanMaps = []Row{}
		for _, m := range ms {
			o.ScanMaps = append(o.ScanMaps, mapRow(m, "Scan into maps", &o.Errs))
		}
		{
			pre := []map[string]interface{}{{"id": int64(-9), "v": int64(-9)}}
			r := chain(db, in).Model(&Item{}).Find(&pre)
			fail("reused_maps", r.Error)
			o.ReusedMapsRA = r.RowsAffected
			o.ReusedMaps = []Row{}
			for _, m := range pre {
				o.ReusedMaps = append(o.ReusedMaps, Row{asInt(m["id"]), asInt(m["v"])})
			}
			pre = []map[string]interface{}{{"id": int64(-9), "v": int64(-9)}}
			r = chain(db, in).Model(&Item{}).First(&pre)
			o.ReusedFirstNF = errors.Is(r.Error, gorm.ErrRecordNotFound)
			if r.Error != nil && !o.ReusedFirstNF {
				fail("reused_maps_first", r.Error)
			}
		}
		o.RowsMaps = []Row{}
		rows, err := chain(db, in).Model(&Item{}).Rows()
		fail("rows_maps", err)
		if err == nil {
			for rows.Next() {
				var one []map[string]interface{}
				fail("scanrows_maps", db.ScanRows(rows, &one))
				for _, m := range one {
					o.RowsMaps = append(o.RowsMaps, mapRow(m, "ScanRows into maps", &o.Errs))
				}
			}
			rows.Close()
		}
		singleMap := func(name string, f func(tx *gorm.DB, dst *map[string]interface{}) *gorm.DB) *Row {
			m := map[string]interface{}{}
			r := f(chain(db, in).Model(&Item{}), &m)
			if errors.Is(r.Error, gorm.ErrRecordNotFound) {
				return nil
			}
			fail(name, r.Error)
			if r.Error == nil && r.RowsAffected != 1 {
				o.Errs = append(o.Errs, fmt.Sprintf("%s: RowsAffected=%d", name, r.RowsAffected))
			}
			row := mapRow(m, name, &o.Errs)
			return &row
		}
		o.FirstMap = singleMap("first_map", func(tx *gorm.DB, d *map[string]interface{}) *gorm.DB { return tx.First(d) })
		o.LastMap = singleMap("last_map", func(tx *gorm.DB, d *map[string]interface{}) *gorm.DB { return tx.Last(d) })
		o.TakeMap = singleMap("take_map", func(tx *gorm.DB, d *map[string]interface{}) *gorm.DB { return tx.Take(d) })
		// one map used for two reads: the second read decides every entry
		if o.FirstMap != nil && o.LastMap != nil {
			m := map[string]interface{}{}
			fail("reuse_first", chain(db, in).Model(&Item{}).First(&m).Error)
			fail("reuse_last", chain(db, in).Model(&Item{}).Last(&m).Error)
			if got := mapRow(m, "Last into the map First had filled", &o.Errs); got != *o.LastMap {
				o.Errs = append(o.Errs, fmt.Sprintf("Last into the map First had filled: %v, Last into a fresh map: %v", got, *o.LastMap))
			}
		}
		// Scan as the first call on a reusable handle
		h := chain(db, in).Model(&Item{}).Session(&gorm.Session{})
		var hs []Item
		hr := h.Scan(&hs)
		fail("handle_scan", hr.Error)
		if hr.Error == nil && (hr.RowsAffected != int64(len(hs)) || fmt.Sprint(toRows(hs)) != fmt.Sprint(o.Scan)) {
			o.Errs = append(o.Errs, fmt.Sprintf("Scan on a Session handle: RowsAffected=%d rows=%v, Scan at the end of the chain: %v", hr.RowsAffected, toRows(hs), o.Scan))
		}
		var hm []map[string]interface{}
		hr = h.Scan(&hm)
		fail("handle_scan_maps", hr.Error)
		if hr.Error == nil && (hr.RowsAffected != int64(len(hm)) || len(hm) != len(o.Scan)) {
			o.Errs = append(o.Errs, fmt.Sprintf("Scan into maps on a Session handle: RowsAffected=%d, %d maps, %d rows", hr.RowsAffected, len(hm), len(o.Scan)))
		}
	}
	// Pluck
	o.PluckID, o.PluckV = []int64{}, []int64{}
	pr := chain(db, in).Model(&Item{}).Pluck("id", &o.PluckID)
	fail("pluck_id", pr.Error)
	if pr.Error == nil && pr.RowsAffected != int64(len(o.PluckID)) {
		o.Errs = append(o.Errs, fmt.Sprintf("pluck: RowsAffected=%d for %d values", pr.RowsAffected, len(o.PluckID)))
	}
	fail("pluck_v", chain(db, in).Model(&Item{}).Pluck("v", &o.PluckV).Error)
	// Pluck on a chain that already carries a Select: the plucked column decides
	for _, sel := range [][]interface{}{{"id", "v"}, {"v"}, {"key_copy", "n", "v"}} {
		var vs []int64
		if err := chain(db, in).Model(&Item{}).Select(sel[0], sel[1:]...).Pluck("v", &vs).Error; err != nil {
			o.Errs = append(o.Errs, fmt.Sprintf("pluck after Select%v: %v", sel, err))
		} else if fmt.Sprint(vs) != fmt.Sprint(o.PluckV) && len(vs)+len(o.PluckV) > 0 {
			o.Errs = append(o.Errs, fmt.Sprintf("pluck after Select%v: %v, plain Pluck: %v", sel, vs, o.PluckV))
		}
	}
	// Count (compared only for chains without limit/offset)
	o.Count = -1
	if len(in.Lops) == 0 {
		fail("count", chain(db, in).Model(&Item{}).Count(&o.Count).Error)
	}
	// First / Last / Take
	single := func(name string, f func(tx *gorm.DB, dst *Item) *gorm.DB) *Row {
		var it Item
		r := f(chain(db, in), &it)
		if errors.Is(r.Error, gorm.ErrRecordNotFound) {
			if r.RowsAffected != 0 {
				o.Errs = append(o.Errs, fmt.Sprintf("%s: not found with RowsAffected=%d", name, r.RowsAffected))
			}
			return nil
		}
		fail(name, r.Error)
		if r.Error == nil && r.RowsAffected != 1 {
			o.Errs = append(o.Errs, fmt.Sprintf("%s: RowsAffected=%d", name, r.RowsAffected))
		}
		return &Row{it.ID, it.V}
	}
	o.First = single("first", func(tx *gorm.DB, d *Item) *gorm.DB { return tx.First(d) })
	o.Last = single("last", func(tx *gorm.DB, d *Item) *gorm.DB { return tx.Last(d) })
	o.Take = single("take", func(tx *gorm.DB, d *Item) *gorm.DB { return tx.Take(d) })
	// FindInBatches
	o.Batches = [][]Row{}
	if in.BS > 0 {
		var batch []Item
		var pbatch []*Item
		var dest interface{} = &batch
		if in.PtrBatch {
			dest = &pbatch
		}
		r := chain(db, in).FindInBatches(dest, int(in.BS), func(tx *gorm.DB, n int) error {
			if in.PtrBatch {
				batch = batch[:0]
				for _, p := range pbatch {
					batch = append(batch, *p)
				}
			}
			if len(o.Batches) > len(in.Tbl)+3 {
				return fmt.Errorf("runaway: more batches than rows")
			}
			if n != len(o.Batches)+1 {
				o.Errs = append(o.Errs, fmt.Sprintf("batch number %d at position %d", n, len(o.Batches)+1))
			}
			if tx.RowsAffected != int64(len(batch)) {
				o.Errs = append(o.Errs, fmt.Sprintf("batch RowsAffected %d for %d rows", tx.RowsAffected, len(batch)))
			}
			o.Batches = append(o.Batches, toRows(batch))
			return nil
		})
		fail("batches", r.Error)
		o.BatchesRA = r.RowsAffected
		// the same batches from a chain that joins another table with an id column (the cursor
		// condition of the later batches must name the model's own key)
		if (in.Ord == "none" || in.Ord == "") && in.Cond.Kind != "seq" && r.Error == nil {
			var jb []Item
			got := [][]Row{}
			jr := chain(db, in).Joins("JOIN items AS t2 ON t2.id = items.id").FindInBatches(&jb, int(in.BS), func(tx *gorm.DB, n int) error {
				if len(got) > len(in.Tbl)+3 {
					return fmt.Errorf("runaway: more batches than rows")
				}
				got = append(got, toRows(jb))
				return nil
			})
			if jr.Error != nil {
				o.Errs = append(o.Errs, "batches over a joined chain: "+jr.Error.Error())
			} else if fmt.Sprint(got) != fmt.Sprint(o.Batches) || jr.RowsAffected != o.BatchesRA {
				o.Errs = append(o.Errs, fmt.Sprintf("batches over a joined chain: %v (RowsAffected %d), without the join: %v (%d)", got, jr.RowsAffected, o.Batches, o.BatchesRA))
			}
		}
	}
	moreShapes(db, in, &o)
	genericLimit(in, &o)
	selectedColumns(db, in, &o)
	fieldByField(db, in, &o)
	compositeKeys(db, in, &o)
	inlineAndSiblings(db, in, &o)
	return o
}

// moreShapes: result columns renamed by MapColumns reach every destination kind; Pluck of a column
// whose name is a keyword through a Table-only chain; Omit on a chain whose table is not the model's
// default one (an alias). Complaints go to Errs.
func moreShapes(db *gorm.DB, in Input, o *Obs) {
	// MapColumns: v is delivered as key_copy's neighbour "vv" in maps as in structs
	{
		type vv struct {
			ID int64
			VV int64 `gorm:"column:vv"`
		}
		var ss []vv
		var ms []map[string]interface{}
		e1 := chain(db, in).Model(&Item{}).MapColumns(map[string]string{"v": "vv"}).Scan(&ss).Error
		e2 := chain(db, in).Model(&Item{}).MapColumns(map[string]string{"v": "vv"}).Find(&ms).Error
		if e1 != nil || e2 != nil {
			o.Errs = append(o.Errs, fmt.Sprintf("MapColumns: %v / %v", e1, e2))
		} else {
			a, b := []Row{}, []Row{}
			for _, x := range ss {
				a = append(a, Row{x.ID, x.VV})
			}
			for _, m := range ms {
				if _, ok := m["v"]; ok {
					o.Errs = append(o.Errs, "MapColumns: a map row still has the unmapped key v")
					break
				}
				b = append(b, Row{asInt(m["id"]), asInt(m["vv"])})
			}
			if fmt.Sprint(a) != fmt.Sprint(o.Find) || fmt.Sprint(b) != fmt.Sprint(o.Find) {
				o.Errs = append(o.Errs, fmt.Sprintf("MapColumns: structs %v, maps %v, Find %v", a, b, o.Find))
			}
		}
	}
	if (in.Cond.Kind == "" || in.Cond.Kind == "all") && len(in.Lops) == 0 && (in.Ord == "none" || in.Ord == "") && len(in.Tbl) > 0 {
		// an ordering given as an expression, then First / Last / FindInBatches: they order by key
		lo, hi := in.Tbl[0].ID, in.Tbl[0].ID
		for _, r := range in.Tbl {
			if r.ID < lo {
				lo = r.ID
			}
			if r.ID > hi {
				hi = r.ID
			}
		}
		ex := func() *gorm.DB {
			return db.Model(&Item{}).Clauses(clause.OrderBy{Expression: clause.Expr{SQL: "v desc, id desc"}})
		}
		var f, l Item
		e1, e2 := ex().First(&f).Error, ex().Last(&l).Error
		if e1 != nil || e2 != nil || f.ID != lo || l.ID != hi {
			o.Errs = append(o.Errs, fmt.Sprintf("expression ordering: First %d (%v), Last %d (%v); lowest / highest key %d / %d", f.ID, e1, l.ID, e2, lo, hi))
		}
		var batch []Item
		seen := []int64{}
		e3 := ex().FindInBatches(&batch, 2, func(*gorm.DB, int) error {
			for _, b := range batch {
				seen = append(seen, b.ID)
			}
			if len(seen) > 4*len(in.Tbl)+4 {
				return fmt.Errorf("runaway")
			}
			return nil
		}).Error
		sortedIDs := []int64{}
		for _, r := range in.Tbl {
			sortedIDs = append(sortedIDs, r.ID)
		}
		sort.Slice(sortedIDs, func(i, j int) bool { return sortedIDs[i] < sortedIDs[j] })
		if e3 != nil || fmt.Sprint(seen) != fmt.Sprint(sortedIDs) {
			o.Errs = append(o.Errs, fmt.Sprintf("expression ordering: FindInBatches delivered %v (%v), keys %v", seen, e3, sortedIDs))
		}
	}
	if in.Cond.Kind == "" || in.Cond.Kind == "all" {
		if len(in.Lops) == 0 && (in.Ord == "none" || in.Ord == "") {
			// a Table-only chain (no Model): Pluck of the keyword-named column
			var viaTable, viaModel []int64
			e1 := db.Table("items").Order("id").Pluck("order", &viaTable).Error
			e2 := db.Model(&Item{}).Order("id").Pluck("order", &viaModel).Error
			if e1 != nil || e2 != nil || fmt.Sprint(viaTable) != fmt.Sprint(viaModel) {
				o.Errs = append(o.Errs, fmt.Sprintf("Pluck(\"order\"): through Table %v (%v), through Model %v (%v)", viaTable, e1, viaModel, e2))
			}
			// Omit on a chain whose table is an alias of the model's table
			var viaAlias []Item
			var n int64
			e3 := db.Table("items as i").Omit("n").Order("id").Find(&viaAlias).Error
			e4 := db.Table("items as i").Omit("n").Model(&Item{}).Count(&n).Error
			if e3 != nil || e4 != nil || int64(len(viaAlias)) != n || len(viaAlias) != len(in.Tbl) {
				o.Errs = append(o.Errs, fmt.Sprintf("Omit on an aliased table: Find %d rows (%v), Count %d (%v), table %d", len(viaAlias), e3, n, e4, len(in.Tbl)))
			}
		}
	}
}

// genericLimit: the same Find through gorm's generic LIMIT / OFFSET rendering. A statement with an
// OFFSET but no LIMIT is not valid SQLite and is only inspected, not run.
func genericLimit(in Input, o *Obs) {
	o.GFind, o.GRun = []Row{}, false
	if dbGeneric == nil {
		return
	}
	var probe []Item
	st := chain(dbGeneric, in).Session(&gorm.Session{DryRun: true}).Find(&probe).Statement
	sql := st.SQL.String()
	if strings.Contains(sql, "OFFSET") && !strings.Contains(sql, "LIMIT") {
		return
	}
	var items []Item
	if err := chain(dbGeneric, in).Find(&items).Error; err != nil {
		o.Errs = append(o.Errs, "generic limit: "+err.Error()+" ["+sql+"]")
		return
	}
	o.GFind, o.GRun = toRows(items), true
}

// inlineAndSiblings: finders with one inline primary key; Count followed by a page read continued
// from its result; sibling chains of a reusable parent with several orderings.
func inlineAndSiblings(db *gorm.DB, in Input, o *Obs) {
	fail := func(where string, err error) {
		if err != nil {
			o.Errs = append(o.Errs, where+": "+err.Error())
		}
	}
	o.Inl, o.InlFind, o.CPage, o.Page, o.SibAsc, o.SibDesc = []*Row{}, []Row{}, []Row{}, []Row{}, []Row{}, []Row{}
	o.CPageN = -1
	if len(in.Lops) == 0 {
		// a key that exists in the table (matching the chain or not) or no key at all
		o.InlKey = int64(len(in.Tbl)/2*3 + 1)
		if len(in.Tbl) > 0 {
			o.InlKey = in.Tbl[(len(in.Tbl)+int(in.BS))%len(in.Tbl)].ID
			if (len(in.Tbl)+int(in.BS))%5 == 0 {
				o.InlKey = 9999
			}
		}
		for _, f := range []func(tx *gorm.DB, d *Item) *gorm.DB{
			func(tx *gorm.DB, d *Item) *gorm.DB { return tx.First(d, o.InlKey) },
			func(tx *gorm.DB, d *Item) *gorm.DB { return tx.Take(d, o.InlKey) },
			func(tx *gorm.DB, d *Item) *gorm.DB { return tx.Last(d, o.InlKey) },
		} {
			var it Item
			r := f(chain(db, in), &it)
			switch {
			case errors.Is(r.Error, gorm.ErrRecordNotFound):
				o.Inl = append(o.Inl, nil)
			case r.Error != nil:
				fail("inline finder", r.Error)
				o.Inl = append(o.Inl, nil)
			default:
				o.Inl = append(o.Inl, &Row{it.ID, it.V})
			}
		}
		var items []Item
		fail("inline find", chain(db, in).Find(&items, o.InlKey).Error)
		o.InlFind = toRows(items)
	}
	// pagination on a reusable handle
	h := chain(db, in).Session(&gorm.Session{})
	{
		var items []Item
		fail("page", h.Limit(2).Find(&items).Error)
		o.Page = toRows(items)
		var n int64
		var citems []Item
		// Count is called on the reusable handle itself (it carries the Model), and the page read
		// continues from what Count returned
		hm := chain(db, in).Model(&Item{}).Session(&gorm.Session{})
		fail("count+page", hm.Count(&n).Limit(2).Find(&citems).Error)
		o.CPage, o.CPageN = toRows(citems), n
	}
	// siblings of a parent with three tie orderings (chains without an ordering of their own)
	if in.Ord == "none" {
		in2 := in
		parent := chain(db, in2).Order("v - v").Order("id - id").Order("0 + 0").Session(&gorm.Session{})
		asc := parent.Order("id")
		desc := parent.Order("id desc")
		var a, d []Item
		fail("sibling asc", asc.Find(&a).Error)
		fail("sibling desc", desc.Find(&d).Error)
		o.SibAsc, o.SibDesc = toRows(a), toRows(d)
	}
}

// selectedColumns: with a Select on the chain Count still equals the number of rows Find returns
// (structs and maps); chains without limit / offset only. Violations are reported through Errs.
func selectedColumns(db *gorm.DB, in Input, o *Obs) {
	o.SelCount, o.SelFind, o.SelMaps = -1, -1, -1
	if len(in.Lops) > 0 {
		return
	}
	sels := [][]interface{}{{"n", "v"}, {"v", "n"}, {[]string{"n", "v"}}, {"n, v"}, {"v"}, {"id", "n"}, {"key_copy"}, {"KeyCopy"}, {"key_copy", "v"}}
	sel := sels[(len(in.Tbl)+int(in.BS))%len(sels)]
	if in.SelNull {
		sel = []interface{}{"n"}
	}
	o.SelList = []string{}
	for _, a := range sel {
		switch v := a.(type) {
		case string:
			o.SelList = append(o.SelList, v)
		case []string:
			o.SelList = append(o.SelList, v...)
		}
	}
	var cnt int64
	if err := chain(db, in).Model(&Item{}).Select(sel[0], sel[1:]...).Count(&cnt).Error; err != nil {
		o.Errs = append(o.Errs, "sel_count: "+err.Error())
		return
	}
	var items []Item
	if err := chain(db, in).Select(sel[0], sel[1:]...).Find(&items).Error; err != nil {
		o.Errs = append(o.Errs, "sel_find: "+err.Error())
		return
	}
	var maps []map[string]interface{}
	if err := chain(db, in).Model(&Item{}).Select(sel[0], sel[1:]...).Find(&maps).Error; err != nil {
		o.Errs = append(o.Errs, "sel_maps: "+err.Error())
		return
	}
	o.SelCount, o.SelFind, o.SelMaps = cnt, int64(len(items)), int64(len(maps))
}

// selMenu: the Select lists of the field-by-field reads: a reordered subset, the nullable column, a
// column delivered under the name of another (the later column wins), a duplicate name, the
// keyword-named column, a name no field has
var selMenu = [][][2]string{
	nil,
	{{"v", "v"}, {"id", "id"}},
	{{"id", "id"}, {"n", "n"}},
	{{"n", "n"}, {"id", "id"}, {"v", "key_copy"}},
	{{"id", "id"}, {"v", "v"}, {"v", "id"}},
	{{"order", "order"}, {"key_copy", "key_copy"}},
	{{"zz", "v"}, {"id", "id"}},
	{{"key_copy", "v"}, {"n", "id"}, {"key_copy", "key_copy"}},
}

func genSel(r *lib.Rng, ord string) [][2]string {
	for {
		s := lib.Pick(r, selMenu)
		ok := true
		for _, c := range s {
			// (ORDER BY v would mean the output column of that name)
			if ord == "v_asc" && c[0] != c[1] {
				ok = false
			}
		}
		if ok {
			return s
		}
	}
}

func fieldByField(db *gorm.DB, in Input, o *Obs) {
	o.SelRecs, o.SelMapRecs = [][]*int64{}, []map[string]*int64{}
	sel := func(tx *gorm.DB) *gorm.DB {
		if len(in.SelCols) == 0 {
			return tx
		}
		var args []interface{}
		for _, c := range in.SelCols {
			if c[0] == c[1] {
				args = append(args, c[1])
			} else {
				args = append(args, c[1]+" AS "+c[0])
			}
		}
		return tx.Select(args[0], args[1:]...)
	}
	var items []Item
	if err := sel(chain(db, in)).Find(&items).Error; err != nil {
		o.Errs = append(o.Errs, "fields_find: "+err.Error())
	}
	p := func(v int64) *int64 { return &v }
	for _, it := range items {
		o.SelRecs = append(o.SelRecs, []*int64{p(it.ID), p(it.V), it.N, p(it.KeyCopy), p(it.Rank)})
	}
	var maps []map[string]interface{}
	if err := sel(chain(db, in).Model(&Item{})).Find(&maps).Error; err != nil {
		o.Errs = append(o.Errs, "fields_maps: "+err.Error())
	}
	for _, m := range maps {
		rec := map[string]*int64{}
		for k, v := range m {
			v = deref(v)
			if pv, ok := v.(*int64); v == nil || (ok && pv == nil) {
				rec[k] = nil
			} else {
				rec[k] = p(asInt(v))
			}
		}
		o.SelMapRecs = append(o.SelMapRecs, rec)
	}
}

func gVal(v *int64) string {
	if v == nil {
		return "None"
	}
	return "(Some " + lib.Z(*v) + ")"
}

var itemCols = []string{"id", "v", "n", "key_copy", "order"}

func gRec(rec []*int64) string {
	parts := []string{}
	for i, v := range rec {
		parts = append(parts, lib.Pair(lib.Str(itemCols[i]), gVal(v)))
	}
	return "[" + strings.Join(parts, "; ") + "]"
}

func gMapRec(m map[string]*int64) string {
	keys := []string{}
	for k := range m {
		keys = append(keys, k)
	}
	sort.Strings(keys)
	parts := []string{}
	for _, k := range keys {
		parts = append(parts, lib.Pair(lib.Str(k), gVal(m[k])))
	}
	return "[" + strings.Join(parts, "; ") + "]"
}

// compositeKeys: First / Take / Last into a destination that carries a composite key return that
// row, and ErrRecordNotFound exactly when no row has the key.
func compositeKeys(db *gorm.DB, in Input, o *Obs) {
	o.CKRows, o.CKProbes = [][3]int64{}, [][5]int64{}
	db.Exec("DELETE FROM cks")
	seen := map[[2]int64]bool{}
	for _, r := range in.Tbl {
		a, b := r.ID%2, r.ID/2%3+1 // (zero is no key value)
		if seen[[2]int64{a, b}] {
			continue
		}
		seen[[2]int64{a, b}] = true
		if err := db.Create(&CK{A: []string{"eu", "us"}[a], B: b, V: r.V}).Error; err != nil {
			o.Errs = append(o.Errs, "ck_insert: "+err.Error())
			return
		}
		o.CKRows = append(o.CKRows, [3]int64{a, b, r.V})
	}
	if len(o.CKRows) == 0 {
		return
	}
	finders := []func(tx *gorm.DB, d *CK) *gorm.DB{
		func(tx *gorm.DB, d *CK) *gorm.DB { return tx.First(d) },
		func(tx *gorm.DB, d *CK) *gorm.DB { return tx.Take(d) },
		func(tx *gorm.DB, d *CK) *gorm.DB { return tx.Last(d) },
	}
	for a := int64(0); a < 2; a++ {
		for b := int64(1); b <= 3; b++ {
			for fi, f := range finders {
				d := CK{A: []string{"eu", "us"}[a], B: b}
				r := f(db.Session(&gorm.Session{}), &d)
				switch {
				case r.Error == nil && d.B == b && d.A == []string{"eu", "us"}[a]:
					o.CKProbes = append(o.CKProbes, [5]int64{int64(fi), a, b, 1, d.V})
				case errors.Is(r.Error, gorm.ErrRecordNotFound):
					o.CKProbes = append(o.CKProbes, [5]int64{int64(fi), a, b, 0, 0})
				default:
					// another row than the one asked for, or another error
					o.CKProbes = append(o.CKProbes, [5]int64{int64(fi), a, b, 2, d.V})
				}
			}
		}
	}
}

// ---- Gallina printing ----

func gRow(r Row) string     { return lib.Pair(lib.Z(r.ID), lib.Z(r.V)) }
func gRows(rs []Row) string { return lib.ListOf(rs, gRow) }
func gORow(r *Row) string {
	if r == nil {
		return "None"
	}
	return "(Some " + gRow(*r) + ")"
}
func gOZ(p *int64) string {
	if p == nil {
		return "None"
	}
	return "(Some " + lib.Z(*p) + ")"
}
func gCond(c Cond) string {
	switch c.Kind {
	case "mod":
		return lib.App("CMod", lib.Z(c.A), lib.Z(c.B))
	case "gt":
		return lib.App("CGt", lib.Z(c.A))
	case "none":
		return "CNone"
	case "ormodgt":
		return lib.App("COrModGt", lib.Z(c.A), lib.Z(c.B), lib.Z(c.C))
	case "seq":
		return lib.App("CSeq", gACond(*c.First), lib.ListOf(c.Seq, func(s SeqCall) string {
			k := map[string]string{"where": "KWhere", "or": "KOr", "not": "KNot"}[s.Call]
			return lib.Pair(k, gACond(s.A))
		}))
	}
	return "CAll"
}
func gOrd(o string) string {
	return map[string]string{"none": "OrdNone", "id_asc": "OrdIdAsc", "id_desc": "OrdIdDesc", "v_asc": "OrdVAsc"}[o]
}
func gLop(l Lop) string {
	if l.Kind == "limit" {
		return lib.App("OLimit", lib.Z(l.N))
	}
	return lib.App("OOffset", lib.Z(l.N))
}

func term(in Input, o Obs) string {
	tbl := append([]Row(nil), in.Tbl...)
	sort.Slice(tbl, func(i, j int) bool { return tbl[i].ID < tbl[j].ID })
	return lib.App("mk_case",
		gRows(tbl), gCond(in.Cond), gOrd(in.Ord), lib.ListOf(in.Lops, gLop), lib.Z(in.BS),
		gRows(o.Find), lib.Z(o.FindRA), gRows(o.Maps), gRows(o.Rows), gRows(o.Scan),
		lib.ZList(o.PluckID), lib.ZList(o.PluckV), lib.Z(o.Count),
		gORow(o.First), gORow(o.Last), gORow(o.Take),
		lib.ListOf(o.Batches, gRows), lib.Z(o.BatchesRA),
		gRows(o.Ptrs), gRows(o.Array), gRows(o.Reused), lib.Z(o.ReusedRA), gORow(o.Single), lib.Z(o.SingleRA), gOZ(o.Prim), lib.Z(o.PrimRA),
		gRows(o.ReusedMaps), lib.Z(o.ReusedMapsRA), lib.Bool(o.ReusedFirstNF),
		gRows(o.ScanMaps), lib.Z(o.ScanMapsRA), gRows(o.RowsMaps), gORow(o.FirstMap), gORow(o.LastMap), gORow(o.TakeMap),
		lib.Z(int64(len(o.Errs))),
		lib.Z(o.SelCount), lib.Z(o.SelFind), lib.Z(o.SelMaps),
		lib.ListOf(o.CKRows, func(r [3]int64) string { return lib.Pair(lib.Pair(lib.Z(r[0]), lib.Z(r[1])), lib.Z(r[2])) }),
		lib.ListOf(o.CKProbes, func(p [5]int64) string {
			return lib.Pair(lib.Pair(lib.Z(p[0]), lib.Pair(lib.Z(p[1]), lib.Z(p[2]))), lib.Pair(lib.Z(p[3]), lib.Z(p[4])))
		}),
		lib.Z(o.InlKey), lib.ListOf(o.Inl, gORow), gRows(o.InlFind),
		gRows(o.CPage), gRows(o.Page), lib.Z(o.CPageN), gRows(o.SibAsc), gRows(o.SibDesc),
		lib.Bool(o.GRun), gRows(o.GFind),
		lib.ListOf(in.SelCols, func(c [2]string) string { return lib.Pair(lib.Str(c[0]), lib.Str(c[1])) }),
		lib.ListOf(o.SelRecs, gRec), lib.ListOf(o.SelMapRecs, gMapRec), lib.ListOf(o.SelList, lib.Str))
}

// ---- generation ----

func genTable(r *lib.Rng, n int) []Row {
	tbl := make([]Row, n)
	id := int64(0)
	vs := make([]int64, n)
	for i := range vs {
		vs[i] = int64(10 * (i + 1))
	}
	lib.Shuffle(r, vs)
	for i := 0; i < n; i++ {
		id += int64(1 + r.Intn(3))
		tbl[i] = Row{id, vs[i]}
	}
	// inserted in random order: the table's key order must not depend on insertion order
	lib.Shuffle(r, tbl)
	return tbl
}

func genLops(r *lib.Rng, edge bool) []Lop {
	n := r.Pick3()
	var out []Lop
	for i := 0; i < n; i++ {
		var v int64
		switch {
		case edge && r.Chance(1, 3):
			v = lib.Pick(r, []int64{0, -1, -5, 1})
		case r.Chance(1, 8):
			v = -1
		case r.Chance(1, 10):
			v = 0
		default:
			v = int64(r.Range(1, 9))
		}
		kind := "limit"
		if r.Bool() {
			kind = "offset"
		}
		out = append(out, Lop{kind, v})
	}
	return out
}

func genCond(r *lib.Rng) Cond {
	if r.Chance(1, 4) {
		// Where(a).{Where|Or|Not}(b)...: 1..3 further calls, an Or in any position
		f := genACond(r)
		c := Cond{Kind: "seq", First: &f}
		for i, n := 0, r.Range(1, 3); i < n; i++ {
			c.Seq = append(c.Seq, SeqCall{Call: []string{"where", "or", "or", "not"}[r.Intn(4)], A: genACond(r)})
		}
		return c
	}
	if r.Chance(1, 5) {
		m := int64(r.Range(2, 3))
		return Cond{Kind: "ormodgt", A: m, B: int64(r.Intn(int(m))), C: int64(r.Range(2, 14))}
	}
	switch r.Intn(6) {
	case 0, 1:
		return Cond{Kind: "all"}
	case 2, 3:
		m := int64(r.Range(2, 3))
		return Cond{Kind: "mod", A: m, B: int64(r.Intn(int(m)))}
	case 4:
		return Cond{Kind: "gt", A: int64(r.Range(0, 12))}
	}
	return Cond{Kind: "none"}
}

func shape(in Input) string {
	var sb strings.Builder
	fmt.Fprintf(&sb, "n%d|%s%d,%d,%d|%s|", len(in.Tbl), in.Cond.Kind, in.Cond.A, in.Cond.B, in.Cond.C, in.Ord)
	for _, l := range in.Lops {
		fmt.Fprintf(&sb, "%s%d,", l.Kind[:1], l.N)
	}
	fmt.Fprintf(&sb, "|bs%d%v|%s", in.BS, in.PtrBatch, in.OrdVia)
	return sb.String()
}

// sig: known-finding signature of the INPUT.
func sig(in Input) string {
	if in.SelNull && len(in.Lops) == 0 {
		return "count-of-single-nullable-selected-column"
	}
	return ""
}

func main() {
	a := lib.ParseArgs()
	db, _, _, err := gdb.Open(gdb.Opt{})
	lib.Must(err)
	lib.Must(db.AutoMigrate(&Item{}, &CK{}))
	if sqlDB, err := db.DB(); err == nil {
		if g, err := gorm.Open(sqlite.Dialector{Conn: sqlDB}, &gorm.Config{Logger: db.Logger}); err == nil {
			delete(g.ClauseBuilders, "LIMIT")
			dbGeneric = g
		}
	}
	out := lib.NewOut(a.Out, "C15")

	add := func(kind string, in Input) {
		o := run(db, in)
		nontriv := len(o.Find) > 0 && len(o.Find) < len(in.Tbl) || len(o.Batches) > 1
		out.Add(lib.Case{Term: term(in, o), JSON: map[string]interface{}{"input": in, "observed": o},
			Sig: sig(in), Kind: kind, Shape: shape(in), Nontriv: nontriv})
		out.Count("table_size", fmt.Sprint(len(in.Tbl)))
		out.Count("cond", in.Cond.Kind)
		out.Count("ordering", in.Ord)
		out.Count("lops", fmt.Sprint(len(in.Lops)))
		out.Count("batch_size", fmt.Sprint(in.BS))
		out.Count("batches_delivered", fmt.Sprint(len(o.Batches)))
		out.Count("errors", fmt.Sprint(len(o.Errs)))
		sl := "none"
		if len(in.SelCols) > 0 {
			sl = ""
			for _, c := range in.SelCols {
				sl += c[1] + ">" + c[0] + " "
			}
		}
		out.Count("select_list_of_field_reads", sl)
	}

	if a.Replay != "" {
		b, err := os.ReadFile(a.Replay)
		lib.Must(err)
		var c struct {
			Case struct {
				Input Input `json:"input"`
			} `json:"case"`
		}
		lib.Must(json.Unmarshal(b, &c))
		add("replay", c.Case.Input)
		lib.Must(out.Flush())
		return
	}
	for _, f := range lib.CorpusFiles(a.Corpus) {
		b, err := os.ReadFile(f)
		lib.Must(err)
		var c struct {
			Case struct {
				Input Input `json:"input"`
			} `json:"case"`
		}
		lib.Must(json.Unmarshal(b, &c))
		add("corpus", c.Case.Input)
	}

	r := lib.NewRng(a.Seed)
	if a.Tier == "thorough" {
		// bounded-exhaustive grid over table size x batch size x limit x offset, on two
		// conditions, plus the random stream below
		lims := []int64{-99, -1, 0, 1, 2, 3, 4, 5, 7, 8}
		offs := []int64{-99, -1, 0, 1, 2, 3, 6}
		for n := 0; n <= 10; n++ {
			tbl := genTable(r, n)
			for bs := int64(1); bs <= 5; bs++ {
				for _, l := range lims {
					for _, of := range offs {
						var lops []Lop
						if l != -99 {
							lops = append(lops, Lop{"limit", l})
						}
						if of != -99 {
							lops = append(lops, Lop{"offset", of})
						}
						c := Cond{Kind: "all"}
						if (n+int(bs)+int(l)+int(of))%3 == 0 {
							c = Cond{Kind: "mod", A: 2, B: 1}
						}
						add("grid", Input{Tbl: tbl, Cond: c, Ord: "none", Lops: lops, BS: bs, PtrBatch: (n+int(bs))%4 == 1})
					}
				}
			}
		}
	}
	// the known shape: Count over a Select of one nullable column
	for n := 3; n <= 6; n++ {
		add("known-shape", Input{Tbl: genTable(r, n), Cond: Cond{Kind: "all"}, Ord: "none", SelNull: true})
	}
	budget := 500
	if a.Tier == "thorough" {
		budget = 4000
	}
	if a.N > 0 {
		budget = a.N
	}
	for i := 0; i < budget; i++ {
		edge := r.Chance(15, 100)
		n := r.Range(0, 12)
		if edge && r.Bool() {
			n = lib.Pick(r, []int{0, 1, 2})
		} else if r.Chance(1, 12) {
			n = r.Range(17, 20) // more rows than the array destination has slots
		}
		in := Input{Tbl: genTable(r, n), Cond: genCond(r), Lops: genLops(r, edge)}
		in.Ord = lib.Pick(r, []string{"none", "none", "id_asc", "id_desc", "v_asc"})
		in.OrdVia = lib.Pick(r, []string{"", "", "reorder", "column"}) // (an OrderBy EXPRESSION is dropped by any later Order, e.g. the one First / Last add: not generated)
		if in.Ord == "none" && in.Cond.Kind == "seq" {
			// without ORDER BY the row order is the database's choice, and SQLite answers an OR of
			// two key ranges index by index: such chains always carry an explicit order
			for _, c := range in.Cond.Seq {
				if c.Call == "or" {
					in.Ord = "id_asc"
				}
			}
		}
		if in.Ord == "none" || in.Ord == "id_asc" {
			if r.Chance(4, 5) {
				in.BS = int64(r.Range(1, 6))
				if edge && r.Bool() {
					in.BS = lib.Pick(r, []int64{1, int64(n), int64(n + 1), 20})
					if in.BS < 1 {
						in.BS = 1
					}
				}
				in.PtrBatch = r.Chance(1, 3)
			}
		}
		in.SelCols = genSel(r, in.Ord)
		kind := "main"
		if edge {
			kind = "edge"
		}
		add(kind, in)
	}
	out.Extra["rule"] = "cases = (table of 0..12 rows with gapped keys inserted in random order) x condition {all, id%m=r, id>k, none} x ordering {none,id,id desc,v} x 0..3 Limit/Offset calls (positive, zero, negative) x batch size; FindInBatches only on primary-key orderings; distinct = distinct (size,cond,ordering,lops,bs) shapes; non-trivial = Find returns a strict non-empty subset of the table or more than one batch is delivered"
	lib.Must(out.Flush())
}
