// c09: an Update or Delete without any condition never executes.
// Enumerates chains of condition-free calls (and random chains with real conditions) x every
// update/delete finisher x plain and soft-delete models x AllowGlobalUpdate off / by config /
// by session x model value with and without primary key, on real gorm + SQLite through the
// recording driver.
package main

import (
	"context"
	"encoding/json"
	"errors"
	"fmt"
	"os"
	"strings"

	"gorm.io/gorm"
	"gorm.io/gorm/clause"
	"gorm.io/gorm/logger"

	"verifharness/gdb"
	"verifharness/lib"
	"verifharness/recdrv"
	"verifharness/whr"
)

// Step is one chain call: either a condition call (Call != nil) or a decoration.
type Step struct {
	Deco string    `json:"deco,omitempty"` // order limit unscoped select omit table scopes empty_slice
	Call *whr.Call `json:"call,omitempty"`
	// Scope (with Call): the call reaches the chain through Scopes(...): 1 a scope applies it,
	// 2 a scope registers a second scope that applies it
	Scope int `json:"scope,omitempty"`
}

type Input struct {
	Soft       bool   `json:"soft"`
	Allow      string `json:"allow"`       // off | config | session
	Finisher   string `json:"finisher"`    // update updates_map updates_struct update_column update_columns delete
	PK         int64  `json:"pk"`          // 0 = model value without primary key
	QueryFirst bool   `json:"query_first"` // Count on the same handle before the write
	// ReadKind: what QueryFirst runs through the handle: "" Count | noop_update UpdateColumns of an
	// empty map (sends nothing). AfterRead: how the write handle is derived from the used handle:
	// "" the handle itself | session Session(&Session{}) | with_context WithContext(ctx)
	// Wrap: begin = the chain becomes a handle (Session) and the finisher runs on handle.Begin(),
	// which is rolled back afterwards
	Wrap      string `json:"wrap,omitempty"`
	ReadKind  string `json:"read_kind,omitempty"`
	AfterRead string `json:"after_read,omitempty"`
	// Target: how the rows' table / model value reach the finisher.
	//  "" (model): Model(&T{ID:pk}) + finisher, Delete(&T{ID:pk})
	//  table_only: Table("t") and no model at all (no schema is parsed): Update / Updates(map) /
	//              UpdateColumn(s) / Delete(nil) / Delete(&map)
	//  model_dest: Model(&T{ID:pk}).Delete(&T{}) - the key comes from the Model value, not from Dest
	//  slice:      Model(&[]T{{ID:pk},{ID:pk+1}}) + update finisher, Delete(&[]T{...}); pk 0 = every
	//              element without key
	Target string `json:"target,omitempty"`
	// InlineLast: the last step, a Where call, is given to Delete as its inline condition instead
	InlineLast bool       `json:"inline_last,omitempty"`
	Atoms      []whr.Atom `json:"atoms"`
	Steps      []Step     `json:"steps"`
}

type Obs struct {
	Missing  bool             `json:"missing"`
	OtherErr string           `json:"other_err"`
	Execs    int              `json:"execs"` // exec / query / prepare driver calls
	TxEvents string           `json:"tx_events"`
	Changed  bool             `json:"changed"`
	Texts    map[int][]string `json:"texts"`
}

// AO / AOS: plain and soft-delete owners of a polymorphic has-many (target assoc_select)
type AToy struct {
	ID        int64 `gorm:"primaryKey"`
	Name      string
	OwnerID   int64
	OwnerType string
	DeletedAt gorm.DeletedAt
}
type AO struct {
	ID   int64 `gorm:"primaryKey"`
	Name string
	Mark int64
	Toys []AToy `gorm:"polymorphic:Owner"`
	Kids []AKid `gorm:"foreignKey:OwnerID"`
	Tags []ATag `gorm:"many2many:ao_tags"`
}
type ATag struct {
	ID   int64 `gorm:"primaryKey"`
	Name string
}
type AOS struct {
	ID        int64 `gorm:"primaryKey"`
	Name      string
	Mark      int64
	DeletedAt gorm.DeletedAt
	Toys      []AToy `gorm:"polymorphic:Owner"`
	Tags      []ATag `gorm:"many2many:aos_tags"`
}
type AKid struct {
	ID      int64 `gorm:"primaryKey"`
	OwnerID int64
	Name    string
}

// TH / THS: the plain and soft-delete tables through model types that declare every update and
// delete hook (target hooked): the hooks do nothing, the guard must decide as without them
type TH struct {
	ID   int64 `gorm:"primaryKey"`
	Age  int64
	Name string
	Nick *string
	Mark int64
}

func (TH) TableName() string            { return "ts" }
func (*TH) BeforeSave(*gorm.DB) error   { return nil }
func (*TH) BeforeUpdate(*gorm.DB) error { return nil }
func (*TH) AfterUpdate(*gorm.DB) error  { return nil }
func (*TH) AfterSave(*gorm.DB) error    { return nil }
func (*TH) BeforeDelete(*gorm.DB) error { return nil }
func (*TH) AfterDelete(*gorm.DB) error  { return nil }

type THS struct {
	ID        int64 `gorm:"primaryKey"`
	Age       int64
	Name      string
	Nick      *string
	Mark      int64
	DeletedAt gorm.DeletedAt
}

func (THS) TableName() string            { return "tss" }
func (*THS) BeforeSave(*gorm.DB) error   { return nil }
func (*THS) BeforeUpdate(*gorm.DB) error { return nil }
func (*THS) AfterUpdate(*gorm.DB) error  { return nil }
func (*THS) AfterSave(*gorm.DB) error    { return nil }
func (*THS) BeforeDelete(*gorm.DB) error { return nil }
func (*THS) AfterDelete(*gorm.DB) error  { return nil }

// T2S: the soft-delete table through a model with TWO soft-delete columns (target soft2)
type T2S struct {
	ID        int64 `gorm:"primaryKey"`
	Age       int64
	Name      string
	Nick      *string
	Mark      int64
	DeletedAt gorm.DeletedAt
	Archived  gorm.DeletedAt `gorm:"column:archived_at"`
}

func (T2S) TableName() string { return "tss" }

// TCK: the plain table through a model whose primary key is (id, age)
type TCK struct {
	ID   int64 `gorm:"primaryKey;autoIncrement:false"`
	Age  int64 `gorm:"primaryKey;autoIncrement:false"`
	Name string
	Nick *string
	Mark int64
}

func (TCK) TableName() string { return "ts" }

func dumpAssoc(db *gorm.DB) string {
	var sb strings.Builder
	for _, q := range []string{"SELECT id, name, owner_id, IFNULL(deleted_at,'') FROM a_toys ORDER BY id", "SELECT id, name, mark, '' FROM aos ORDER BY id",
		"SELECT id, name, mark, IFNULL(deleted_at,'') FROM ao_ss ORDER BY id", "SELECT id, name, owner_id, '' FROM a_kids ORDER BY id",
		"SELECT ao_id, a_tag_id, '', '' FROM ao_tags ORDER BY 1, 2", "SELECT aos_id, a_tag_id, '', '' FROM aos_tags ORDER BY 1, 2", "SELECT id, name, '', '' FROM a_tags ORDER BY id"} {
		rows, err := db.Raw(q).Rows()
		if err != nil {
			return "ERR " + err.Error()
		}
		for rows.Next() {
			var a, b, c, d string
			rows.Scan(&a, &b, &c, &d)
			sb.WriteString(a + "|" + b + "|" + c + "|" + d + ";")
		}
		rows.Close()
		sb.WriteString("#")
	}
	return sb.String()
}

var names = []string{"a", "b", "ab", "c d", "x"}
var nicks = []string{"n1", "n2", "a"}

type env struct {
	dbs map[string]*gorm.DB // allow config -> handle
	rec map[string]*recdrv.Recorder
}

func dump(db *gorm.DB, table string) string {
	var sb strings.Builder
	rows, err := db.Raw("SELECT id, age, name, mark, " + map[bool]string{true: "deleted_at", false: "0"}[table != "ts"] + " FROM " + table + " ORDER BY id").Rows()
	if err != nil {
		return "ERR " + err.Error()
	}
	defer rows.Close()
	for rows.Next() {
		var id, age, mark int64
		var name string
		var d *string
		rows.Scan(&id, &age, &name, &mark, &d)
		ds := ""
		if d != nil {
			ds = *d
		}
		fmt.Fprintf(&sb, "%d|%d|%s|%d|%s;", id, age, name, mark, ds)
	}
	return sb.String()
}

func (e *env) run(in Input) Obs {
	var o Obs
	whr.UseSoft = in.Soft
	key := "off"
	if in.Allow == "config" {
		key = "config"
	}
	db, rec := e.dbs[key], e.rec[key]
	table := whr.Table()
	if in.Target == "softzero" {
		table = "tsz"
	}
	byID := map[int]whr.Atom{}
	for _, a := range in.Atoms {
		byID[a.ID] = a
	}
	db.Exec("DELETE FROM " + table)
	for i := 1; i <= 5; i++ {
		db.Exec("INSERT INTO "+table+" (id, age, name, mark) VALUES (?,?,?,0)", i, i%3, names[i%len(names)])
	}
	if len(in.Atoms) > 0 {
		base := func() *gorm.DB { return db.Session(&gorm.Session{}).Unscoped() }
		o.Texts, _ = whr.DiscoverTexts(db, base, in.Atoms)
	}
	before := dump(db, table)
	if in.Target == "assoc_select" {
		for _, t := range []string{"a_toys", "aos", "ao_ss", "a_kids", "ao_tags", "aos_tags", "a_tags"} {
			db.Exec("DELETE FROM " + t)
		}
		for i := 1; i <= 2; i++ {
			db.Exec("INSERT INTO aos (id, name, mark) VALUES (?,?,0)", i, "o")
			db.Exec("INSERT INTO ao_ss (id, name, mark) VALUES (?,?,0)", i, "o")
			db.Exec("INSERT INTO a_toys (id, name, owner_id, owner_type) VALUES (?,?,?,?)", i, "t", i, "aos")
			db.Exec("INSERT INTO a_toys (id, name, owner_id, owner_type) VALUES (?,?,?,?)", i+10, "t", i, "ao_ss")
			db.Exec("INSERT INTO a_kids (id, name, owner_id) VALUES (?,?,?)", i, "k", i)
			db.Exec("INSERT INTO a_tags (id, name) VALUES (?,?)", i, "g")
			db.Exec("INSERT INTO ao_tags (ao_id, a_tag_id) VALUES (?,?)", i, i)
			db.Exec("INSERT INTO aos_tags (aos_id, a_tag_id) VALUES (?,?)", i, i)
		}
		before = dumpAssoc(db)
	}
	tx := db.Session(&gorm.Session{})
	if in.Allow == "session" {
		tx = db.Session(&gorm.Session{AllowGlobalUpdate: true})
	}
	var inline []interface{}
	for i, s := range in.Steps {
		if s.Call != nil {
			if in.InlineLast && i == len(in.Steps)-1 && s.Call.Kind == "where" && in.Finisher == "delete" && in.Target == "" {
				q, args := s.Call.Unit.QueryArgs(db, byID)
				inline = append([]interface{}{q}, args...)
				continue
			}
			call := *s.Call
			switch s.Scope {
			case 1:
				tx = tx.Scopes(func(d *gorm.DB) *gorm.DB { return call.Apply(db, d, byID) })
			case 2:
				tx = tx.Scopes(func(d *gorm.DB) *gorm.DB {
					return d.Scopes(func(d2 *gorm.DB) *gorm.DB { return call.Apply(db, d2, byID) })
				})
			default:
				tx = call.Apply(db, tx, byID)
			}
			continue
		}
		switch s.Deco {
		case "order":
			tx = tx.Order("id")
		case "limit":
			tx = tx.Limit(1)
		case "unscoped":
			tx = tx.Unscoped()
		case "select":
			tx = tx.Select("mark")
		case "omit":
			tx = tx.Omit("name")
		case "omit_pk":
			// Select / Omit naming the key column restrict the assignments, never the conditions
			tx = tx.Omit("id")
		case "omit_pk_field":
			tx = tx.Omit("ID", "Name")
		case "select_pk":
			tx = tx.Select("id", "mark")
		case "table":
			tx = tx.Table(table)
		case "scopes":
			tx = tx.Scopes(func(d *gorm.DB) *gorm.DB { return d })
		case "empty_slice":
			tx = tx.Where([]int64{})
		case "where_used_group":
			// a grouped condition whose sub-builder carries no condition of its own but was already
			// used for a read
			sub := db.Model(model0(in))
			var n int64
			sub.Count(&n)
			tx = tx.Where(sub)
		case "empty_array":
			tx = tx.Where([0]int64{})
		case "not_empty_array":
			tx = tx.Not([0]int64{})
		case "or_empty_array":
			tx = tx.Or(&[0]int64{})
		case "offset":
			tx = tx.Offset(1)
		case "distinct":
			tx = tx.Distinct()
		case "group":
			tx = tx.Group("age")
		case "joins_raw":
			tx = tx.Joins("LEFT JOIN " + table + " AS t2 ON t2.id = " + table + ".id")
		case "returning":
			tx = tx.Clauses(clause.Returning{})
		case "locking":
			tx = tx.Clauses(clause.Locking{Strength: "UPDATE"})
		case "with_context":
			tx = tx.WithContext(context.Background())
		case "set":
			tx = tx.Set("c09:key", 1)
		case "scope_empty_where":
			tx = tx.Scopes(func(d *gorm.DB) *gorm.DB { return d.Where("").Where(map[string]interface{}{}) })
		case "clauses_empty_where":
			tx = tx.Clauses(clause.Where{})
		case "session_pu":
			tx = tx.Session(&gorm.Session{PropagateUnscoped: true})
		case "session_misc":
			tx = tx.Session(&gorm.Session{SkipHooks: true, QueryFields: true, FullSaveAssociations: true})
		case "session_plain":
			tx = tx.Session(&gorm.Session{})
		case "session_dryrun":
			// nothing is sent either way; a chain without condition is still refused
			tx = tx.Session(&gorm.Session{DryRun: true})
		}
	}
	if in.QueryFirst {
		// the same (non-Session) handle is first used for a read, then for the write
		var n int64
		tx = tx.Model(model0(in))
		if in.ReadKind == "noop_update" {
			tx.UpdateColumns(map[string]interface{}{})
		} else {
			tx.Count(&n)
		}
		switch in.AfterRead {
		case "session":
			tx = tx.Session(&gorm.Session{})
		case "with_context":
			tx = tx.WithContext(context.Background())
		case "unscoped":
			tx = tx.Unscoped()
		}
	}
	model := func() interface{} {
		if in.Soft {
			return &whr.TS{ID: in.PK}
		}
		return &whr.T{ID: in.PK}
	}
	var res *gorm.DB
	dumpDB := db
	if in.Wrap == "begin" {
		tx = tx.Session(&gorm.Session{}).Begin()
		// (single connection: the state is read through the transaction, which is rolled back
		// before run returns)
		// (a fresh, never dry handle bound to the transaction's connection)
		dumpDB = db.Session(&gorm.Session{NewDB: true, Context: context.Background()})
		dumpDB.Statement.ConnPool = tx.Statement.ConnPool
		defer tx.Rollback()
	}
	rec.Reset()
	if in.Target != "" {
		res = runTarget(tx, in, table)
	} else {
		switch in.Finisher {
		case "update":
			res = tx.Model(model()).Update("mark", 7)
		case "updates_map":
			res = tx.Model(model()).Updates(map[string]interface{}{"mark": 7})
		case "updates_struct":
			if in.Soft {
				res = tx.Model(model()).Updates(whr.TS{Mark: 7})
			} else {
				res = tx.Model(model()).Updates(whr.T{Mark: 7})
			}
		case "updates_struct_nomodel":
			// the updating struct itself is the model value (zero primary key unless PK is set)
			if in.Soft {
				res = tx.Updates(&whr.TS{ID: in.PK, Mark: 7})
			} else {
				res = tx.Updates(&whr.T{ID: in.PK, Mark: 7})
			}
		case "updates_structval_nomodel":
			// the same by value: the value is the model but not addressable
			if in.Soft {
				res = tx.Updates(whr.TS{ID: in.PK, Mark: 7})
			} else {
				res = tx.Updates(whr.T{ID: in.PK, Mark: 7})
			}
		case "update_columns_struct_nomodel":
			if in.Soft {
				res = tx.UpdateColumns(&whr.TS{ID: in.PK, Mark: 7})
			} else {
				res = tx.UpdateColumns(&whr.T{ID: in.PK, Mark: 7})
			}
		case "update_pk":
			// the update values name the primary-key column: still no condition
			res = tx.Model(model()).Update("id", 77)
		case "updates_map_pk":
			res = tx.Model(model()).Updates(map[string]interface{}{"id": 77, "mark": 7})
		case "update_columns_pk":
			res = tx.Model(model()).UpdateColumns(map[string]interface{}{"id": 77, "mark": 7})
		case "updates_struct_pk":
			if in.Soft {
				res = tx.Model(model()).Updates(whr.TS{ID: 77, Mark: 7})
			} else {
				res = tx.Model(model()).Updates(whr.T{ID: 77, Mark: 7})
			}
		case "updates_structptr_pk":
			// the update value is a pointer to another value of the model's own type: its key is
			// an assignment, not a condition
			if in.Soft {
				res = tx.Model(model()).Updates(&whr.TS{ID: 77, Mark: 7})
			} else {
				res = tx.Model(model()).Updates(&whr.T{ID: 77, Mark: 7})
			}
		case "update_columns_structptr_pk":
			if in.Soft {
				res = tx.Model(model()).UpdateColumns(&whr.TS{ID: 77, Mark: 7})
			} else {
				res = tx.Model(model()).UpdateColumns(&whr.T{ID: 77, Mark: 7})
			}
		case "update_column":
			res = tx.Model(model()).UpdateColumn("mark", 7)
		case "update_columns":
			res = tx.Model(model()).UpdateColumns(map[string]interface{}{"mark": 7})
		case "delete":
			res = tx.Delete(model(), inline...)
		case "delete_value":
			// the value is passed by value, not by pointer
			if in.Soft {
				res = tx.Delete(whr.TS{ID: in.PK})
			} else {
				res = tx.Delete(whr.T{ID: in.PK})
			}
		case "delete_value_slice":
			if in.Soft {
				res = tx.Delete([]whr.TS{{ID: in.PK}})
			} else {
				res = tx.Delete([]whr.T{{ID: in.PK}})
			}
		case "delete_value_model":
			if in.Soft {
				res = tx.Model(whr.TS{}).Delete(whr.TS{ID: in.PK})
			} else {
				res = tx.Model(whr.T{}).Delete(whr.T{ID: in.PK})
			}
		case "update_softcol":
			// the update names the soft-delete column itself (a restore): still an ordinary update
			res = tx.Model(model()).Update("deleted_at", nil)
		case "updates_map_softcol":
			res = tx.Model(model()).Updates(map[string]interface{}{"deleted_at": nil, "mark": 7})
		case "update_columns_softcol":
			res = tx.Model(model()).UpdateColumns(map[string]interface{}{"deleted_at": nil})
		case "delete_inline_empty_array":
			res = tx.Delete(model(), [0]int64{})
		case "delete_inline_empty_slice":
			res = tx.Delete(model(), []int64{})
		}
	}
	evs := rec.Snapshot()
	for _, ev := range evs {
		switch ev.Kind {
		case "exec", "query", "prepare", "stmt_exec", "stmt_query":
			o.Execs++
		case "begin", "commit", "rollback":
			o.TxEvents += ev.Kind[:1]
		}
	}
	if res.Error != nil {
		if errors.Is(res.Error, gorm.ErrMissingWhereClause) {
			o.Missing = true
		} else {
			o.OtherErr = res.Error.Error()
		}
	}
	if in.Target == "assoc_select" {
		o.Changed = dumpAssoc(dumpDB) != before
	} else {
		o.Changed = dump(dumpDB, table) != before
	}
	return o
}

// runTarget issues the finisher for the non-default ways of naming the target rows.
func runTarget(tx *gorm.DB, in Input, table string) *gorm.DB {
	upd := func(tx *gorm.DB) *gorm.DB {
		switch in.Finisher {
		case "update":
			return tx.Update("mark", 7)
		case "updates_map":
			return tx.Updates(map[string]interface{}{"mark": 7})
		case "update_column":
			return tx.UpdateColumn("mark", 7)
		case "update_columns":
			return tx.UpdateColumns(map[string]interface{}{"mark": 7})
		}
		return nil
	}
	switch in.Target {
	case "table_only":
		tx = tx.Table(table)
		switch in.Finisher {
		case "delete":
			return tx.Delete(nil)
		case "delete_map":
			return tx.Delete(&map[string]interface{}{})
		}
		return upd(tx)
	case "model_dest":
		if in.Soft {
			return tx.Model(&whr.TS{ID: in.PK}).Delete(&whr.TS{})
		}
		return tx.Model(&whr.T{ID: in.PK}).Delete(&whr.T{})
	case "softzero":
		// a soft-delete column with a zero value of its own (live rows hold it instead of NULL)
		m := &whr.TSZ{ID: in.PK}
		if in.Finisher == "delete" {
			return tx.Delete(m)
		}
		return upd(tx.Model(m))
	case "composite":
		// a model of the plain table whose key is (id, age): the row named has age 0, a legitimate
		// value of a key part
		m := &TCK{ID: in.PK}
		if in.Finisher == "delete" {
			return tx.Delete(m)
		}
		if in.Finisher == "delete_model_dest" {
			return tx.Model(m).Delete(&TCK{})
		}
		return upd(tx.Model(m))
	case "soft2":
		m := &T2S{ID: in.PK}
		if in.Finisher == "delete" {
			return tx.Delete(m)
		}
		return upd(tx.Model(m))
	case "model_slice_dest":
		// the key (if any) is in a slice given to Model, the deleted value carries none
		if in.Soft {
			sl := &[]whr.TS{{}, {}}
			if in.PK != 0 {
				sl = &[]whr.TS{{ID: in.PK}, {}}
			} else if len(in.Steps)%2 == 1 {
				sl = &[]whr.TS{}
			}
			return tx.Model(sl).Delete(&whr.TS{})
		}
		sl := &[]whr.T{{}, {}}
		if in.PK != 0 {
			sl = &[]whr.T{{ID: in.PK}, {}}
		} else if len(in.Steps)%2 == 1 {
			sl = &[]whr.T{}
		}
		return tx.Model(sl).Delete(&whr.T{})
	case "hooked":
		var m interface{} = &TH{ID: in.PK}
		if in.Soft {
			m = &THS{ID: in.PK}
		}
		if in.Finisher == "delete" {
			return tx.Delete(m)
		}
		return upd(tx.Model(m))
	case "assoc_select":
		// the owner's associations are selected for deletion / saving together with it
		var owner interface{} = &AO{ID: in.PK}
		if in.Soft {
			owner = &AOS{ID: in.PK}
		}
		sel := tx.Select(clause.Associations)
		if in.Finisher == "delete_toys" {
			sel = tx.Select("Toys")
		}
		if in.Finisher == "delete_tags" {
			sel = tx.Select("Tags")
		}
		switch in.Finisher {
		case "delete", "delete_toys", "delete_tags":
			return sel.Delete(owner)
		case "updates_map":
			return sel.Model(owner).Updates(map[string]interface{}{"mark": 7})
		}
		return sel.Model(owner).Update("mark", 7)
	case "slice_late", "slice_ptrs_late", "array_late":
		// the key (if any) is in a later element only
		var sl interface{}
		switch {
		case in.Target == "slice_late" && in.Soft:
			sl = &[]whr.TS{{}, {ID: in.PK}}
		case in.Target == "slice_late":
			sl = &[]whr.T{{}, {ID: in.PK}, {}}
		case in.Target == "slice_ptrs_late" && in.Soft:
			sl = &[]*whr.TS{{}, {}, {ID: in.PK}}
		case in.Target == "slice_ptrs_late":
			sl = &[]*whr.T{{}, {ID: in.PK}}
		case in.Soft:
			sl = &[2]whr.TS{{}, {ID: in.PK}}
		default:
			sl = &[2]whr.T{{}, {ID: in.PK}}
		}
		if in.Finisher == "delete" {
			return tx.Delete(sl)
		}
		if in.Finisher == "delete_model_dest" {
			if in.Soft {
				return tx.Model(sl).Delete(&whr.TS{})
			}
			return tx.Model(sl).Delete(&whr.T{})
		}
		return upd(tx.Model(sl))
	case "slice":
		var sl interface{}
		k2 := in.PK
		if k2 != 0 {
			k2++
		}
		if in.Soft {
			sl = &[]whr.TS{{ID: in.PK}, {ID: k2}}
		} else {
			sl = &[]whr.T{{ID: in.PK}, {ID: k2}}
		}
		if in.Finisher == "delete" {
			return tx.Delete(sl)
		}
		return upd(tx.Model(sl))
	}
	panic("unknown target " + in.Target)
}

// sig: known-finding signature. An empty clause.Where object passes the guard; the statement is
// then refused by the database (known finding). The signature covers exactly that outcome: if any
// row changed the case carries no signature and is a violation.
func sig(in Input, o Obs) string {
	for _, s := range in.Steps {
		if s.Deco == "clauses_empty_where" && !o.Changed {
			return "empty-where-clause-object"
		}
	}
	// a used handle of the soft-delete model as grouped condition: its automatic filter is counted
	// as a condition (known finding); only the soft-delete model, only the scoped chain
	if in.Soft && !hasUnscoped(in.Steps) && hasDeco(in.Steps, "where_used_group") && !o.Missing {
		return "used-handle-as-group"
	}
	return ""
}

func model0(in Input) interface{} {
	if in.Soft {
		return &whr.TS{}
	}
	return &whr.T{}
}

func hasDeco(steps []Step, deco string) bool {
	for _, s := range steps {
		if s.Deco == deco {
			return true
		}
	}
	return false
}

func hasSelect(steps []Step) bool {
	return hasDeco(steps, "select") || hasDeco(steps, "select_pk")
}

func hasUnscoped(steps []Step) bool {
	for _, s := range steps {
		if s.Deco == "unscoped" {
			return true
		}
	}
	return false
}

// keyVals: the values gorm reads key conditions from for this input (the deleted value and the Model
// value when it is another one; the Model value for updates), reduced to their key fields: per
// record one flag per key field, true = the field holds its zero value. Coq runs the model of
// gorm's key-condition code (C09_Keys) on them.
func keyVals(in Input) (del bool, vals string) {
	del = strings.HasPrefix(in.Finisher, "delete")
	z := func(k int64) string { return lib.Bool(k == 0) }
	rec := func(fs ...string) string { return "[" + strings.Join(fs, "; ") + "]" }
	st := func(r string) string { return lib.App("VStruct", r) }
	sl := func(rs ...string) string { return lib.App("VSlice", "["+strings.Join(rs, "; ")+"]") }
	list := func(vs ...string) string { return "[" + strings.Join(vs, "; ") + "]" }
	switch in.Target {
	case "table_only":
		return del, "[]" // no schema: no key fields
	case "model_dest":
		return del, list(st(rec("true")), st(rec(z(in.PK))))
	case "composite":
		if in.Finisher == "delete_model_dest" {
			return del, list(st(rec("true", "true")), st(rec(z(in.PK), "true")))
		}
		return del, list(st(rec(z(in.PK), "true")))
	case "model_slice_dest":
		m := sl(rec("true"), rec("true"))
		if in.PK != 0 {
			m = sl(rec("false"), rec("true"))
		} else if len(in.Steps)%2 == 1 {
			m = sl()
		}
		return del, list(st(rec("true")), m)
	case "slice":
		k2 := in.PK
		if k2 != 0 {
			k2++
		}
		return del, list(sl(rec(z(in.PK)), rec(z(k2))))
	case "slice_late", "slice_ptrs_late", "array_late":
		m := sl(rec("true"), rec(z(in.PK)))
		if in.Target == "slice_late" && !in.Soft {
			m = sl(rec("true"), rec(z(in.PK)), rec("true"))
		}
		if in.Target == "slice_ptrs_late" && in.Soft {
			m = sl(rec("true"), rec("true"), rec(z(in.PK)))
		}
		if in.Finisher == "delete_model_dest" {
			return del, list(st(rec("true")), m)
		}
		return del, list(m)
	}
	if in.Finisher == "delete_value_slice" {
		return del, list(sl(rec(z(in.PK))))
	}
	if in.Finisher == "updates_struct_nomodel" || in.Finisher == "update_columns_struct_nomodel" {
		// the update value is the model itself: the loop over the schema's columns, each with what
		// Select / Omit say about it
		sel := selState(in.Steps)
		cols := []string{}
		names := []string{"id", "age", "name", "nick", "mark"}
		if in.Soft {
			names = append(names, "deleted_at")
		}
		for _, c := range names {
			zero := c != "mark" && !(c == "id" && in.PK != 0)
			cols = append(cols, lib.App("mk_col", lib.Bool(c == "id"), lib.Bool(zero), sel[c]))
		}
		return del, list(lib.App("VSelf", "["+strings.Join(cols, "; ")+"]"))
	}
	return del, list(st(rec(z(in.PK))))
}

// selState: what Statement.SelectAndOmitColumns yields for the columns of the test models after the
// chain's Select / Omit decorations (a later Select replaces an earlier one, likewise Omit)
func selState(steps []Step) map[string]string {
	var selects, omits []string
	for _, s := range steps {
		switch s.Deco {
		case "select":
			selects = []string{"mark"}
		case "select_pk":
			selects = []string{"id", "mark"}
		case "omit":
			omits = []string{"name"}
		case "omit_pk":
			omits = []string{"id"}
		case "omit_pk_field":
			omits = []string{"id", "name"}
		}
	}
	out := map[string]string{}
	for _, c := range []string{"id", "age", "name", "nick", "mark", "deleted_at"} {
		out[c] = "None"
	}
	for _, c := range selects {
		out[c] = "(Some true)"
	}
	for _, c := range omits {
		out[c] = "(Some false)"
	}
	return out
}

func term(in Input, o Obs) string {
	byID := map[int]whr.Atom{}
	for _, a := range in.Atoms {
		byID[a.ID] = a
	}
	calls := []whr.Call{}
	for _, s := range in.Steps {
		if s.Call != nil {
			calls = append(calls, *s.Call)
		} else if s.Deco == "empty_slice" || s.Deco == "empty_array" || s.Deco == "where_used_group" {
			calls = append(calls, whr.Call{Kind: "where", Unit: whr.Unit{Form: "empty_map"}})
		} else if s.Deco == "not_empty_array" {
			calls = append(calls, whr.Call{Kind: "not", Unit: whr.Unit{Form: "empty_map"}})
		} else if s.Deco == "or_empty_array" {
			calls = append(calls, whr.Call{Kind: "or", Unit: whr.Unit{Form: "empty_map"}})
		}
	}
	kdel, kvals := keyVals(in)
	return lib.App("mk_case", whr.GTable(in.Atoms, o.Texts), whr.GCalls(calls, byID),
		lib.Bool(in.Soft), lib.Bool(in.Allow != "off"), lib.Bool(hasUnscoped(in.Steps) || in.AfterRead == "unscoped"), lib.Bool(kdel), kvals,
		lib.Bool(o.Missing), lib.Z(int64(o.Execs)), lib.Bool(o.Changed), lib.Bool(o.OtherErr != ""),
		lib.ListOf([]byte(o.TxEvents), func(b byte) string { return lib.Z(int64(strings.IndexByte("bcr", b))) }),
		whr.GArgsOfCalls(calls, byID))
}

func shape(in Input) string {
	var sb strings.Builder
	fmt.Fprintf(&sb, "%v|%s|%s|%v|%v|%s|%v|", in.Soft, in.Allow, in.Finisher, in.PK != 0, in.QueryFirst, in.Target+"/"+in.ReadKind+"/"+in.AfterRead, in.InlineLast)
	for _, s := range in.Steps {
		if s.Call != nil {
			sb.WriteString(whr.Shape([]whr.Call{*s.Call}))
		} else {
			sb.WriteString(s.Deco + ";")
		}
	}
	return sb.String()
}

func emptyCall(kind, form string) Step {
	return Step{Call: &whr.Call{Kind: kind, Unit: whr.Unit{Form: form}}}
}

func alphabet() []Step {
	return []Step{
		emptyCall("where", "empty_string"), emptyCall("where", "empty_map"), emptyCall("where", "empty_struct"),
		emptyCall("not", "empty_map"), emptyCall("not", "empty_string"), emptyCall("or", "empty_string"), emptyCall("or", "empty_struct"),
		{Call: &whr.Call{Kind: "where", Unit: whr.Unit{Form: "empty_map", Via: "mapss"}}},
		{Call: &whr.Call{Kind: "where", Unit: whr.Unit{Form: "empty_map", Via: "nilmap"}}},
		{Call: &whr.Call{Kind: "not", Unit: whr.Unit{Form: "empty_struct", Via: "slice"}}},
		{Call: &whr.Call{Kind: "where", Unit: whr.Unit{Form: "group"}}},
		{Call: &whr.Call{Kind: "or", Unit: whr.Unit{Form: "group"}}},
		{Deco: "empty_slice"}, {Deco: "empty_array"}, {Deco: "not_empty_array"}, {Deco: "or_empty_array"}, {Deco: "order"}, {Deco: "limit"}, {Deco: "unscoped"}, {Deco: "select"}, {Deco: "omit"}, {Deco: "omit_pk"}, {Deco: "omit_pk_field"}, {Deco: "select_pk"}, {Deco: "table"}, {Deco: "scopes"},
		{Deco: "session_pu"}, {Deco: "session_misc"}, {Deco: "session_plain"}, {Deco: "session_dryrun"},
		{Deco: "offset"}, {Deco: "distinct"}, {Deco: "group"}, {Deco: "joins_raw"}, {Deco: "returning"}, {Deco: "locking"},
		{Deco: "with_context"}, {Deco: "set"}, {Deco: "scope_empty_where"},
	}
}

var finishers = []string{"update", "updates_map", "updates_struct", "updates_struct_nomodel", "updates_structval_nomodel", "update_columns_struct_nomodel", "update_column", "update_columns", "delete",
	"delete_inline_empty_array", "delete_inline_empty_slice", "delete_value", "delete_value_slice", "delete_value_model"}

// finishers that make sense on the soft-delete model only
var softFinishers = []string{"update_softcol", "updates_map_softcol", "update_columns_softcol"}

// update values that name the primary-key column: generated only where the chain must be rejected
// (executed on several rows they end in a UNIQUE violation, which is not this property's business)
var pkFinishers = []string{"update_pk", "updates_map_pk", "update_columns_pk", "updates_struct_pk", "updates_structptr_pk", "update_columns_structptr_pk"}
var allows = []string{"off", "config", "session"}
var targets = []struct {
	name string
	fins []string
	pks  []int64
	thin int // non-empty chains: one more sampling factor (complete for the empty chain)
}{
	{"table_only", []string{"update", "updates_map", "update_column", "update_columns", "delete", "delete_map"}, []int64{0}, 0},
	{"model_dest", []string{"delete"}, []int64{0, 3}, 0},
	{"slice", []string{"update", "updates_map", "update_column", "update_columns", "delete"}, []int64{0, 3}, 0},
	// (an Update whose Select names only associations has nothing to set and sends nothing: not
	// generated)
	{"assoc_select", []string{"delete", "delete_toys", "delete_tags"}, []int64{0, 1}, 0},
	{"hooked", []string{"update", "updates_map", "update_column", "update_columns", "delete"}, []int64{0, 3}, 0},
	{"model_slice_dest", []string{"delete"}, []int64{0, 3}, 0},
	{"soft2", []string{"update", "updates_map", "update_column", "update_columns", "delete"}, []int64{0, 3}, 0},
	{"softzero", []string{"update", "updates_map", "update_column", "update_columns", "delete"}, []int64{0, 3}, 0},
	{"composite", []string{"update", "updates_map", "update_column", "delete", "delete_model_dest"}, []int64{0, 3}, 0},
	{"slice_late", []string{"update", "updates_map", "update_column", "update_columns", "delete", "delete_model_dest"}, []int64{0, 3}, 4},
	{"slice_ptrs_late", []string{"update", "updates_map", "update_column", "update_columns", "delete"}, []int64{0, 3}, 4},
	{"array_late", []string{"update", "update_columns", "delete"}, []int64{0, 3}, 4},
}

func main() {
	a := lib.ParseArgs()
	e := &env{dbs: map[string]*gorm.DB{}, rec: map[string]*recdrv.Recorder{}}
	for _, k := range []string{"off", "config"} {
		db, rec, _, err := gdb.Open(gdb.Opt{Config: &gorm.Config{AllowGlobalUpdate: k == "config", Logger: logger.Discard}})
		lib.Must(err)
		lib.Must(db.AutoMigrate(&whr.T{}, &whr.TS{}, &AO{}, &AOS{}, &AToy{}, &AKid{}, &ATag{}, &T2S{}, &whr.TSZ{}))
		e.dbs[k], e.rec[k] = db, rec
	}
	out := lib.NewOut(a.Out, "C09")
	out.PerFile = 300
	add := func(kind string, in Input) {
		if in.Target == "table_only" || strings.HasPrefix(in.Finisher, "delete_value") || in.Finisher == "updates_structval_nomodel" {
			// RETURNING into a destination that is not a model value is outside this property
			// (gorm scans into Statement.ReflectValue.Addr(), which a map value does not have)
			for _, s := range in.Steps {
				if s.Deco == "returning" {
					return
				}
			}
		}
		if hasDeco(in.Steps, "select_pk") && (in.Finisher == "updates_struct" || in.Finisher == "updates_structval_nomodel" || in.Target == "assoc_select") {
			// (a selected key column of a struct update value that is not the model is ASSIGNED, zero
			// value included: `SET id = 0` on several rows ends in a UNIQUE violation, not this property's
			// matter; Select on the association owners means the associations)
			return
		}
		o := func() (o Obs) {
			defer func() {
				if p := recover(); p != nil {
					o.OtherErr = fmt.Sprintf("panic inside gorm: %v", p)
					if os.Getenv("C09_DEBUG") != "" {
						b, _ := json.Marshal(in)
						fmt.Fprintf(os.Stderr, "PANIC %v on %s\n", p, b)
					}
				}
			}()
			return e.run(in)
		}()
		eff := in.PK != 0
		for _, s := range in.Steps {
			if s.Call != nil && !whr.IsEmptyUnit(s.Call.Unit) {
				eff = true
			}
		}
		out.Add(lib.Case{Term: term(in, o), JSON: map[string]interface{}{"input": in, "observed": o},
			Sig: sig(in, o), Kind: kind, Shape: shape(in), Nontriv: len(in.Steps) > 0})
		out.Count("finisher", in.Finisher)
		out.Count("target", "model"+in.Target)
		out.Count("allow", in.Allow)
		out.Count("soft", fmt.Sprint(in.Soft))
		out.Count("effective_condition", fmt.Sprint(eff))
		out.Count("rejected", fmt.Sprint(o.Missing))
		out.Count("steps", fmt.Sprint(len(in.Steps)))
		out.Count("tx_events", o.TxEvents)
		if o.OtherErr != "" {
			out.Count("other_error", o.OtherErr)
		}
	}
	load := func(f string) Input {
		b, err := os.ReadFile(f)
		lib.Must(err)
		var c struct {
			Case struct {
				Input Input `json:"input"`
			} `json:"case"`
		}
		lib.Must(json.Unmarshal(b, &c))
		return c.Case.Input
	}
	if a.Replay != "" {
		add("replay", load(a.Replay))
		lib.Must(out.Flush())
		return
	}
	for _, f := range lib.CorpusFiles(a.Corpus) {
		add("corpus", load(f))
	}
	r := lib.NewRng(a.Seed)
	al := alphabet()
	// enumerated condition-free chains
	maxLen, keep := 2, 9 // quick: every chain of length <= 2, one configuration in `keep` sampled
	if a.Tier == "thorough" {
		maxLen, keep = 3, 6
	}
	var chains [][]Step
	var rec func(cur []Step)
	rec = func(cur []Step) {
		chains = append(chains, append([]Step{}, cur...))
		if len(cur) == maxLen {
			return
		}
		for _, s := range al {
			rec(append(cur, s))
		}
	}
	rec(nil)
	for _, ch := range chains {
		for _, f := range append(append([]string{}, finishers...), softFinishers...) {
			for _, soft := range []bool{false, true} {
				if !soft && strings.HasSuffix(f, "_softcol") {
					continue
				}
				if strings.HasSuffix(f, "_softcol") && hasSelect(ch) {
					continue // (Select("mark") leaves nothing to set: no statement, no error)
				}
				if soft && strings.HasPrefix(f, "delete_value") {
					continue // (a soft delete writes the stamp into the value: gorm wants a pointer)
				}
				for _, al := range allows {
					for _, pk := range []int64{0, 3} {
						// length <= 1 chains: every configuration; longer: a sampled fraction
						if len(ch) > 1 && !r.Chance(1, keep*3) {
							continue
						}
						add("enum", Input{Soft: soft, Allow: al, Finisher: f, PK: pk, Steps: ch})
						if f == "delete" && len(ch) > 0 && ch[len(ch)-1].Call != nil && ch[len(ch)-1].Call.Kind == "where" {
							add("enum", Input{Soft: soft, Allow: al, Finisher: f, PK: pk, Steps: ch, InlineLast: true})
						}
						// read-then-write on one chain handle is documented misuse once a statement is
						// actually built from it (the SELECT's FROM clause stays); it is generated only
						// where the write must be rejected before anything is built
						if len(ch) <= 1 && pk == 0 && al == "off" && !strings.HasSuffix(f, "_nomodel") {
							add("enum", Input{Soft: soft, Allow: al, Finisher: f, PK: pk, Steps: ch, QueryFirst: true})
							for _, rk := range []string{"", "noop_update"} {
								for _, ar := range []string{"session", "with_context", "unscoped"} {
									add("enum", Input{Soft: soft, Allow: al, Finisher: f, PK: pk, Steps: ch, QueryFirst: true, ReadKind: rk, AfterRead: ar})
								}
							}
							add("enum", Input{Soft: soft, Allow: al, Finisher: f, PK: pk, Steps: ch, QueryFirst: true, ReadKind: "noop_update"})
						}
					}
				}
			}
		}
		for _, f := range pkFinishers {
			if hasSelect(ch) || hasDeco(ch, "omit_pk") || hasDeco(ch, "omit_pk_field") {
				break // Select("mark") / Omit("id") leave nothing to set: no statement, no error
			}
			for _, soft := range []bool{false, true} {
				if len(ch) > 1 && !r.Chance(1, keep) {
					continue
				}
				add("enum", Input{Soft: soft, Allow: "off", Finisher: f, Steps: ch})
			}
		}
		// the other ways of naming the target rows
		for _, tg := range targets {
			for _, f := range tg.fins {
				for _, soft := range []bool{false, true} {
					if soft && tg.name == "table_only" {
						continue // no schema, hence no soft delete
					}
					if soft && tg.name == "composite" {
						continue // (a model of the plain table)
					}
					if !soft && (tg.name == "soft2" || tg.name == "softzero") {
						continue // (the two-column model is a soft-delete model)
					}
					for _, al := range allows {
						for _, pk := range tg.pks {
							if len(ch) > 1 && !r.Chance(1, keep*3) {
								continue
							}
							if len(ch) > 0 && tg.thin > 0 && !r.Chance(1, tg.thin) {
								continue
							}
							add("enum", Input{Soft: soft, Allow: al, Finisher: f, PK: pk, Steps: ch, Target: tg.name})
						}
					}
				}
			}
		}
	}
	// the known shape: an empty clause.Where object handed over through Clauses()
	for _, f := range []string{"update", "updates_map", "update_columns", "delete"} {
		for _, soft := range []bool{false, true} {
			for _, extra := range [][]Step{nil, {{Deco: "unscoped"}}, {emptyCall("where", "empty_map")}} {
				add("known-shape", Input{Soft: soft, Allow: "off", Finisher: f, Steps: append([]Step{{Deco: "clauses_empty_where"}}, extra...)})
			}
		}
	}
	// a grouped condition whose sub-builder was already used for a read (second known shape on the
	// soft-delete model: the read's automatic filter travels into the group as if it were a condition)
	for _, f := range []string{"update", "updates_map", "update_columns", "delete"} {
		for _, soft := range []bool{false, true} {
			for _, extra := range [][]Step{nil, {{Deco: "order"}}, {emptyCall("where", "empty_map")}} {
				add("known-shape", Input{Soft: soft, Allow: "off", Finisher: f, Steps: append([]Step{{Deco: "where_used_group"}}, extra...)})
			}
		}
	}
	// a read through the handle (Count), then a real DELETE through the same handle, with exactly one
	// real condition: plain models and Unscoped soft-delete models
	for i := 0; i < 24; i++ {
		in := Input{Soft: i%2 == 0, Allow: lib.Pick(r, []string{"off", "off", "session"}), Finisher: "delete", QueryFirst: true}
		in.Atoms = whr.GenAtoms(r, names, nicks)
		g := whr.NewGen(r, in.Atoms)
		if in.Soft {
			in.Steps = append(in.Steps, Step{Deco: "unscoped"})
		}
		in.Steps = append(in.Steps, Step{Call: &whr.Call{Kind: lib.Pick(r, []string{"where", "where", "not"}), Unit: g.GenUnit(1, false, false)}})
		if i%3 == 0 {
			in.Steps = append(in.Steps, lib.Pick(r, []Step{{Deco: "order"}, {Deco: "limit"}, {Deco: "session_plain"}, {Deco: "with_context"}, {Deco: "session_dryrun"}}))
		}
		add("read-then-delete", in)
	}
	// one condition on zero values only, in every Go value that carries it (typed maps with blank /
	// zero / nil values, column + value, Valuers, a struct with its zero columns selected): a non-empty
	// map is a condition, whatever its values
	{
		atoms := whr.ZeroValueAtoms()
		fins := []string{"update", "updates_map", "updates_struct", "update_column", "update_columns", "delete"}
		n := 0
		for _, u := range whr.ZeroValueUnits() {
			for _, k := range []string{"where", "not", "or"} {
				for _, soft := range []bool{false, true} {
					for j := 0; j < 2; j++ {
						n++
						in := Input{Soft: soft, Allow: "off", Finisher: fins[n%len(fins)], Atoms: atoms,
							Steps: []Step{{Call: &whr.Call{Kind: k, Unit: u}}}}
						if j == 1 {
							in.Steps = append([]Step{lib.Pick(r, al)}, in.Steps...)
						}
						add("zero-value-condition", in)
						if in.Finisher == "delete" && k == "where" {
							in.InlineLast = true
							add("zero-value-condition", in)
						}
					}
				}
			}
		}
	}
	// random chains with at least one real condition mixed with condition-free calls
	budget := 500
	if a.Tier == "thorough" {
		budget = 5000
	}
	if a.N > 0 {
		budget = a.N
	}
	for i := 0; i < budget; i++ {
		in := Input{Soft: r.Bool(), Allow: lib.Pick(r, []string{"off", "off", "config", "session"}), Finisher: lib.Pick(r, finishers)}
		if in.Soft && r.Chance(1, 6) {
			in.Finisher = lib.Pick(r, softFinishers)
		}
		if in.Soft && strings.HasPrefix(in.Finisher, "delete_value") {
			in.Finisher = "delete"
		}
		if in.Finisher == "updates_structval_nomodel" {
			// (a model passed by value is not addressable: its key is ALSO assigned, `SET id = 3`; on the
			// several rows an Or chain selects that is a UNIQUE violation, not this property's matter: the
			// by-value form stays with the enumerated condition-free chains)
			in.Finisher = "updates_struct_nomodel"
		}
		softcol := strings.HasSuffix(in.Finisher, "_softcol")
		if r.Chance(1, 4) {
			in.PK = 3
		}
		if r.Chance(1, 4) {
			tg := lib.Pick(r, targets[:3]) // (assoc_select has its own tables: enumerated chains only)
			in.Target, in.Finisher = tg.name, lib.Pick(r, tg.fins)
			if tg.name == "table_only" {
				in.Soft, in.PK = false, 0
			}
		}
		in.Atoms = whr.GenAtoms(r, names, nicks)
		g := whr.NewGen(r, in.Atoms)
		n := r.Range(1, 4)
		for j := 0; j < n; j++ {
			if r.Chance(1, 2) {
				in.Steps = append(in.Steps, lib.Pick(r, al))
				continue
			}
			k := lib.Pick(r, []string{"where", "where", "or", "not"})
			u := g.GenUnit(1, r.Bool(), true)
			in.Steps = append(in.Steps, Step{Call: &whr.Call{Kind: k, Unit: u}})
		}
		if in.Target == "table_only" {
			var calls []whr.Call
			for _, st := range in.Steps {
				if st.Call != nil {
					calls = append(calls, *st.Call)
				}
			}
			if whr.UsesPrimaryKeyValue(calls) {
				in.Target = "" // a bare key value needs a schema to name its column
				in.Finisher = "delete"
			}
		}
		selfJoin := false
		for _, st := range in.Steps {
			if st.Deco == "joins_raw" {
				selfJoin = true // (the read would fail on its own: unqualified columns under a self join)
			}
		}
		if in.Finisher == "delete" && in.Target == "" && !selfJoin && r.Chance(1, 3) {
			// a read through the handle first (Count), then the Delete through the same handle; only
			// where the Delete is a real DELETE (a soft delete is an UPDATE and inherits the read's
			// FROM clause, which SQLite refuses: misuse of a chain handle, not this property's matter)
			in.QueryFirst = true
			in.AfterRead = lib.Pick(r, []string{"", "session", "with_context"})
			if in.Soft && !hasUnscoped(in.Steps) {
				in.Steps = append([]Step{{Deco: "unscoped"}}, in.Steps...)
			}
		}
		if in.Finisher == "delete" && in.Target == "" && !in.QueryFirst && r.Bool() {
			in.InlineLast = true // takes effect when the last step is a Where call
		}
		if !in.QueryFirst && in.Target == "" && r.Chance(1, 6) {
			in.Wrap = "begin"
		}
		if softcol && hasSelect(in.Steps) {
			in.Finisher = "update" // (Select("mark") leaves the soft-delete column nothing to set)
		}
		if !in.InlineLast && !in.QueryFirst && r.Chance(1, 4) {
			// one condition call travels through a scope (plain or composed)
			for i := range in.Steps {
				if in.Steps[i].Call != nil && in.Steps[i].Call.Kind == "where" {
					in.Steps[i].Scope = r.Range(1, 2)
					break
				}
			}
		}
		add("main", in)
	}
	out.Extra["rule"] = "enumerated: every chain of condition-free calls (empty string / map / struct / slice through Where, Not, Or; Order, Limit, Unscoped, Select, Omit, Table, Scopes) up to the tier's length x 6 update/delete finishers x plain/soft-delete model x AllowGlobalUpdate off/config/session x model value with/without primary key (length <= 1 complete, longer chains a seeded sample of the configurations); random: chains mixing those calls with real conditions of every C02 unit form; distinct = (configuration, chain shape); non-trivial = chain has at least one call"
	lib.Must(out.Flush())
}
