// c10: a write touches only permitted, selected columns of exactly the targeted rows.
// A fixed family of six hand-written model types covers every permission tag (<-:create, <-:update,
// <-:false, <-, ->, ->:false, ->;<-:create, -, -:migration, -:all, <-:create,update) and the
// auto-time variants (time.Time / unix seconds / milliseconds, by name and by tag, with and without
// write permission).  Each case runs ONE write finisher of real gorm on a 4-row SQLite table and
// observes the cell-by-cell difference of the table (raw SELECT through database/sql): which cell
// changed, and whether to the pinned NowFunc value or to the payload's value.
package main

import (
	"context"
	"database/sql"
	"encoding/json"
	"fmt"
	"os"
	"reflect"
	"sort"
	"strings"
	"time"

	"gorm.io/gorm"
	"gorm.io/gorm/clause"

	"verifharness/gdb"
	"verifharness/lib"
)

// ---- the model types -------------------------------------------------------------------------

type M1 struct {
	ID        uint `gorm:"primaryKey"`
	Name      string
	Age       int64
	Note      string
	CreatedAt time.Time
	UpdatedAt time.Time
}
type M2 struct {
	ID        uint   `gorm:"primaryKey"`
	A         string `gorm:"<-:create"`
	B         string `gorm:"<-:update"`
	C         string `gorm:"<-:false"`
	D         string `gorm:"->"`
	E         int64  `gorm:"->:false"`
	F         string
	N         int64 `gorm:"<-"`
	UpdatedAt time.Time
}
type M3 struct {
	ID        uint   `gorm:"primaryKey"`
	G         string `gorm:"-"`
	H         string `gorm:"-:migration"`
	I         string `gorm:"-:all"`
	J         int64
	K         string `gorm:"->;<-:create"`
	CreatedAt time.Time
	UpdatedAt time.Time
}
type M4 struct {
	ID        uint `gorm:"primaryKey"`
	Name      string
	CreatedAt int64
	UpdatedAt int64     `gorm:"autoUpdateTime:milli"`
	Touched   time.Time `gorm:"autoUpdateTime"`
	Made      int64     `gorm:"autoCreateTime"`
}
type M5 struct {
	ID        uint `gorm:"primaryKey"`
	Name      string
	Age       int64     `gorm:"<-:update"`
	CreatedAt time.Time `gorm:"<-:create"`
	UpdatedAt time.Time `gorm:"<-:create"`
	Seen      time.Time `gorm:"autoUpdateTime;->"`
}
type M6 struct {
	ID        uint   `gorm:"primaryKey"`
	FullName  string `gorm:"column:full_nm"`
	Age       int64  `gorm:"column:years;<-:update"`
	Nick      string `gorm:"column:nick;<-:create"`
	Zip       string `gorm:"<-:create,update"`
	UpdatedAt time.Time
}

// M7: composite primary key, one member named ID (so Schema.PrioritizedPrimaryField is set); the four
// stored rows share key members pairwise: (1,en) (1,fr) (2,en) (2,fr)
type M7 struct {
	ID        uint   `gorm:"primaryKey;autoIncrement:false"`
	Locale    string `gorm:"primaryKey"`
	Title     string
	Views     int64
	UpdatedAt time.Time
}

// M1 has every save/create/update hook; they do nothing, so hook-running finishers go through the hook
// dispatch (callMethod) and the diff shows that nothing else is written
func (m *M1) BeforeSave(tx *gorm.DB) error   { hookCalls++; return nil }
func (m *M1) BeforeCreate(tx *gorm.DB) error { hookCalls++; return nil }
func (m *M1) AfterCreate(tx *gorm.DB) error  { hookCalls++; return nil }
func (m *M1) BeforeUpdate(tx *gorm.DB) error { hookCalls++; return nil }
func (m *M1) AfterUpdate(tx *gorm.DB) error  { hookCalls++; return nil }
func (m *M1) AfterSave(tx *gorm.DB) error    { hookCalls++; return nil }

var hookCalls int

func (M7) TableName() string { return "t7" }
func (M1) TableName() string { return "t1" }
func (M2) TableName() string { return "t2" }
func (M3) TableName() string { return "t3" }
func (M4) TableName() string { return "t4" }
func (M5) TableName() string { return "t5" }
func (M6) TableName() string { return "t6" }

// FDesc: what the harness author wrote for a field (NOT read back from gorm's parsed schema).
type FDesc struct {
	ColTag bool   `json:"coltag"`           // an explicit column: tag
	DBDef  bool   `json:"dbdef"`            // default:(expr) — a database-side default gorm does not parse
	GoType string `json:"gotype,omitempty"` // generated types: Go type of the field when not the default of its kind
	//   int kinds: "" int64 | int | int32 | uint | uint32 | uint64 ; time kind: "" time.Time | ptime *time.Time
	LitDef bool   `json:"litdef,omitempty"` // default:0 / default:'' — a literal default equal to the zero value (changes nothing)
	Name   string `json:"name"`
	Col    string `json:"col"`  // physical column of the hand-made table (exists even for ignored fields)
	Kind   string `json:"kind"` // int | str | time | unix | milli
	Dash   string `json:"dash"` // "" | - | all | migration
	RO     string `json:"ro"`   // "" | -> | ->:false
	RW     string `json:"rw"`   // "" | <- | create | update | false | create,update
	PK     bool   `json:"pk"`
	Auto   string `json:"auto"` // "" | create | update
	// generated types: Ptr = the field is a pointer (*int64 / *string / *bool; kind bool exists as a pointer only);
	// Place = where the field lives in the Go struct: "" top level (after the key) | first the struct's first
	// field (before the key) | emb inside an anonymous embedded struct | embtag inside a struct field tagged
	// `gorm:"embedded"`
	Ptr   bool   `json:"ptr,omitempty"`
	Place string `json:"place,omitempty"`
}
type TDesc struct {
	Table   string
	Type    reflect.Type
	Fields  []FDesc
	Dynamic bool // built with reflect.StructOf: the table name is given with Table(...)
}

var types = []TDesc{
	{Table: "t1", Type: reflect.TypeOf(M1{}), Fields: []FDesc{
		{Name: "ID", Col: "id", Kind: "int", PK: true}, {Name: "Name", Col: "name", Kind: "str"},
		{Name: "Age", Col: "age", Kind: "int"}, {Name: "Note", Col: "note", Kind: "str"},
		{Name: "CreatedAt", Col: "created_at", Kind: "time", Auto: "create"},
		{Name: "UpdatedAt", Col: "updated_at", Kind: "time", Auto: "update"}}},
	{Table: "t2", Type: reflect.TypeOf(M2{}), Fields: []FDesc{
		{Name: "ID", Col: "id", Kind: "int", PK: true},
		{Name: "A", Col: "a", Kind: "str", RW: "create"}, {Name: "B", Col: "b", Kind: "str", RW: "update"},
		{Name: "C", Col: "c", Kind: "str", RW: "false"}, {Name: "D", Col: "d", Kind: "str", RO: "->"},
		{Name: "E", Col: "e", Kind: "int", RO: "->:false"}, {Name: "F", Col: "f", Kind: "str"},
		{Name: "N", Col: "n", Kind: "int", RW: "<-"},
		{Name: "UpdatedAt", Col: "updated_at", Kind: "time", Auto: "update"}}},
	{Table: "t3", Type: reflect.TypeOf(M3{}), Fields: []FDesc{
		{Name: "ID", Col: "id", Kind: "int", PK: true},
		{Name: "G", Col: "g", Kind: "str", Dash: "-"}, {Name: "H", Col: "h", Kind: "str", Dash: "migration"},
		{Name: "I", Col: "i", Kind: "str", Dash: "all"}, {Name: "J", Col: "j", Kind: "int"},
		{Name: "K", Col: "k", Kind: "str", RO: "->", RW: "create"},
		{Name: "CreatedAt", Col: "created_at", Kind: "time", Auto: "create"},
		{Name: "UpdatedAt", Col: "updated_at", Kind: "time", Auto: "update"}}},
	{Table: "t4", Type: reflect.TypeOf(M4{}), Fields: []FDesc{
		{Name: "ID", Col: "id", Kind: "int", PK: true}, {Name: "Name", Col: "name", Kind: "str"},
		{Name: "CreatedAt", Col: "created_at", Kind: "unix", Auto: "create"},
		{Name: "UpdatedAt", Col: "updated_at", Kind: "milli", Auto: "update"},
		{Name: "Touched", Col: "touched", Kind: "time", Auto: "update"},
		{Name: "Made", Col: "made", Kind: "unix", Auto: "create"}}},
	{Table: "t5", Type: reflect.TypeOf(M5{}), Fields: []FDesc{
		{Name: "ID", Col: "id", Kind: "int", PK: true}, {Name: "Name", Col: "name", Kind: "str"},
		{Name: "Age", Col: "age", Kind: "int", RW: "update"},
		{Name: "CreatedAt", Col: "created_at", Kind: "time", RW: "create", Auto: "create"},
		{Name: "UpdatedAt", Col: "updated_at", Kind: "time", RW: "create", Auto: "update"},
		{Name: "Seen", Col: "seen", Kind: "time", RO: "->", Auto: "update"}}},
	{Table: "t6", Type: reflect.TypeOf(M6{}), Fields: []FDesc{
		{Name: "ID", Col: "id", Kind: "int", PK: true}, {Name: "FullName", Col: "full_nm", ColTag: true, Kind: "str"},
		{Name: "Age", Col: "years", ColTag: true, Kind: "int", RW: "update"}, {Name: "Nick", Col: "nick", ColTag: true, Kind: "str", RW: "create"},
		{Name: "Zip", Col: "zip", Kind: "str", RW: "create,update"},
		{Name: "UpdatedAt", Col: "updated_at", Kind: "time", Auto: "update"}}},
	{Table: "t7", Type: reflect.TypeOf(M7{}), Fields: []FDesc{
		{Name: "ID", Col: "id", Kind: "int", PK: true}, {Name: "Locale", Col: "locale", Kind: "str", PK: true},
		{Name: "Title", Col: "title", Kind: "str"}, {Name: "Views", Col: "views", Kind: "int"},
		{Name: "UpdatedAt", Col: "updated_at", Kind: "time", Auto: "update"}}},
}

var locales = []string{"", "en", "fr"} // key member code 0 = zero value

func isComposite(t TDesc) bool {
	n := 0
	for _, f := range t.Fields {
		if f.PK {
			n++
		}
	}
	return n > 1
}

// keyOf: the primary-key member values of stored row [rid] (single key: the row id itself;
// composite: (1,en) (1,fr) (2,en) (2,fr)), as Go values and as Z codes
func keyOf(t TDesc, f FDesc, rid int64) (interface{}, int64) {
	if !isComposite(t) {
		return rid, rid
	}
	if f.Kind == "str" {
		c := int64(2 - rid%2) // rid 1,3 -> en ; 2,4 -> fr
		return locales[c], c
	}
	return (rid + 1) / 2, (rid + 1) / 2
}

// ---- generated model types (random per-field permission tags) ----------------------------------

func gormTag(f FDesc, defaultCol string) string {
	var parts []string
	if f.PK {
		parts = append(parts, "primaryKey")
	}
	if f.ColTag {
		parts = append(parts, "column:"+f.Col)
	}
	if f.LitDef {
		if f.Kind == "str" {
			parts = append(parts, "default:''")
		} else {
			parts = append(parts, "default:0")
		}
	}
	if f.DBDef {
		if f.Kind == "str" {
			parts = append(parts, "default:(lower('NONE'))")
		} else {
			parts = append(parts, "default:(1+1)")
		}
	}
	switch f.Dash {
	case "-":
		parts = append(parts, "-")
	case "all":
		parts = append(parts, "-:all")
	case "migration":
		parts = append(parts, "-:migration")
	}
	switch f.RO {
	case "->":
		parts = append(parts, "->")
	case "->:false":
		parts = append(parts, "->:false")
	}
	switch f.RW {
	case "<-":
		parts = append(parts, "<-")
	case "":
	default:
		parts = append(parts, "<-:"+f.RW)
	}
	byName := f.Name == "CreatedAt" || f.Name == "UpdatedAt"
	switch {
	case f.Auto == "update" && f.Kind == "milli":
		parts = append(parts, "autoUpdateTime:milli")
	case f.Auto == "update" && f.Kind == "nano":
		parts = append(parts, "autoUpdateTime:nano")
	case f.Auto == "create" && f.Kind == "nano":
		parts = append(parts, "autoCreateTime:nano")
	case f.Auto == "create" && !byName:
		parts = append(parts, "autoCreateTime")
	case f.Auto == "update" && !byName:
		parts = append(parts, "autoUpdateTime")
	}
	return strings.Join(parts, ";")
}

var dynCache = map[string]TDesc{}

func dynType(table string, fields []FDesc) TDesc {
	b, _ := json.Marshal(fields)
	key := table + string(b)
	if t, ok := dynCache[key]; ok {
		return t
	}
	var sf, first, emb, box []reflect.StructField
	for _, f := range fields {
		var ty reflect.Type
		switch {
		case f.PK:
			ty = reflect.TypeOf(uint(0))
		case f.Kind == "bool":
			ty = reflect.TypeOf(false)
		case f.Kind == "str":
			ty = reflect.TypeOf("")
		case f.Kind == "time" && f.GoType == "ptime":
			ty = reflect.TypeOf(&time.Time{})
		case f.Kind == "time":
			ty = reflect.TypeOf(time.Time{})
		default:
			ty = map[string]reflect.Type{"": reflect.TypeOf(int64(0)), "int": reflect.TypeOf(int(0)), "int32": reflect.TypeOf(int32(0)),
				"uint": reflect.TypeOf(uint(0)), "uint32": reflect.TypeOf(uint32(0)), "uint64": reflect.TypeOf(uint64(0))}[f.GoType]
		}
		def := strings.ToLower(f.Name)
		if f.Name == "CreatedAt" {
			def = "created_at"
		} else if f.Name == "UpdatedAt" {
			def = "updated_at"
		}
		if f.Ptr {
			ty = reflect.PtrTo(ty)
		}
		fld := reflect.StructField{Name: f.Name, Type: ty, Tag: reflect.StructTag(`gorm:"` + gormTag(f, def) + `"`)}
		switch f.Place {
		case "first":
			first = append(first, fld)
		case "emb":
			emb = append(emb, fld)
		case "embtag":
			box = append(box, fld)
		default:
			sf = append(sf, fld)
		}
	}
	sf = append(first, sf...)
	if len(emb) > 0 {
		sf = append(sf, reflect.StructField{Name: "Emb", Type: reflect.StructOf(emb), Anonymous: true})
	}
	if len(box) > 0 {
		sf = append(sf, reflect.StructField{Name: "Box", Type: reflect.StructOf(box), Tag: `gorm:"embedded"`})
	}
	t := TDesc{Table: table, Type: reflect.StructOf(sf), Fields: fields, Dynamic: true}
	dynCache[key] = t
	return t
}

func typeOf(in Input) TDesc {
	if in.Dyn != nil {
		return dynType(in.DynTable, in.Dyn)
	}
	return types[in.Type]
}

// modelOf: the type of the statement's Model value: the table's type, a narrower view of it (Input.View), or
// none at all (Input.NoSchema: no fields)
func modelOf(in Input) TDesc {
	t := typeOf(in)
	switch {
	case in.NoSchema:
		return TDesc{Table: t.Table, Dynamic: true}
	case in.View != nil:
		var fs []FDesc
		for _, j := range in.View {
			fs = append(fs, t.Fields[j])
		}
		return dynType(t.Table, fs)
	}
	return t
}
func inView(in Input, j int) bool {
	if in.NoSchema {
		return false
	}
	if in.View == nil {
		return true
	}
	for _, k := range in.View {
		if k == j {
			return true
		}
	}
	return false
}

// convType picks the Go type of a conventional (by name) or tagged tracked time field: every admissible one
func convType(r *lib.Rng, f *FDesc) {
	switch f.Kind {
	case "time":
		if r.Chance(1, 3) {
			f.GoType = "ptime"
		}
	case "unix": // seconds fit every integer type
		f.GoType = lib.Pick(r, []string{"", "int", "int32", "uint", "uint32", "uint64"})
	case "milli", "nano":
		f.GoType = lib.Pick(r, []string{"", "uint64"})
	}
}

var dynCount int

// genType draws a model type: key, 3-6 data fields with random permission tags (any combination of
// the "-", "->" and "<-" settings), optional tracked time fields with random kinds and permissions.
func genType(r *lib.Rng) (string, []FDesc) {
	dynCount++
	fs := []FDesc{{Name: "ID", Col: "id", Kind: "int", PK: true}}
	perm := func(f *FDesc) {
		if r.Chance(1, 4) {
			f.Dash = lib.Pick(r, []string{"-", "all", "migration"})
		}
		if r.Chance(1, 4) {
			f.RO = lib.Pick(r, []string{"->", "->:false"})
		}
		if r.Chance(2, 5) {
			f.RW = lib.Pick(r, []string{"<-", "create", "update", "false", "create,update"})
		}
	}
	n := r.Range(3, 6)
	for i := 1; i <= n; i++ {
		f := FDesc{Name: fmt.Sprintf("F%d", i), Col: fmt.Sprintf("f%d", i), Kind: lib.Pick(r, []string{"str", "int"})}
		if r.Chance(1, 4) {
			f.Col, f.ColTag = fmt.Sprintf("c_%d", i), true
		}
		perm(&f)
		// a database-side default only on fields gorm keeps a data type for ("-" / "-:all" clear it and the
		// field then never reaches FieldsWithDefaultDBValue, whatever "<-" says: contradictory tags, not generated)
		// ... and not on a field that is not readable ("->:false"): gorm.Scan dereferences a nil field for the
		// RETURNING column of such a field in its ON CONFLICT DO NOTHING mode (nil-pointer panic in Save(&slice) /
		// batch upserts; reported to the lead as a crash of the read-back path, not a C10 matter)
		f.DBDef = f.Dash == "" && f.RO != "->:false" && r.Chance(1, 4)
		f.LitDef = !f.DBDef && r.Chance(1, 5)
		// pointer-typed fields (*int64, *string, *bool; no defaults on them) and fields that live in an embedded
		// struct (anonymous, or a struct field tagged `embedded`): gorm reaches those through its general accessor
		switch {
		case r.Chance(1, 5):
			f.Place = "emb"
		case r.Chance(1, 8):
			f.Place = "embtag"
		}
		mkPtr := func(f *FDesc) {
			f.Ptr, f.DBDef, f.LitDef = true, false, false
			if r.Chance(1, 3) {
				f.Kind = "bool"
			}
		}
		if r.Chance(1, 4) || (f.Place != "" && r.Chance(1, 3)) {
			mkPtr(&f)
		}
		fs = append(fs, f)
	}
	if r.Chance(1, 4) { // one data field is the struct's FIRST field (before the key), a pointer half of the time
		f := &fs[1+r.Intn(n)]
		f.Place = "first"
		if !f.Ptr && r.Bool() {
			f.Ptr, f.DBDef, f.LitDef = true, false, false
		}
	}
	embTracked := r.Chance(1, 4) // the tracked time fields live in an embedded struct (like gorm.Model's)
	if r.Chance(2, 3) {
		f := FDesc{Name: "CreatedAt", Col: "created_at", Kind: lib.Pick(r, []string{"time", "time", "unix"}), Auto: "create"}
		convType(r, &f)
		if r.Chance(1, 3) {
			perm(&f)
		}
		if embTracked {
			f.Place = "emb"
		}
		fs = append(fs, f)
	}
	if r.Chance(3, 4) {
		f := FDesc{Name: "UpdatedAt", Col: "updated_at", Kind: lib.Pick(r, []string{"time", "time", "unix", "unix", "milli", "nano"}), Auto: "update"}
		convType(r, &f)
		if r.Chance(1, 3) {
			perm(&f)
		}
		if embTracked {
			f.Place = "emb"
		}
		fs = append(fs, f)
	}
	if r.Chance(1, 4) {
		f := FDesc{Name: "Touched", Col: "touched", Kind: lib.Pick(r, []string{"time", "unix", "nano"}), Auto: lib.Pick(r, []string{"update", "create"})}
		if r.Chance(1, 3) {
			perm(&f)
		}
		fs = append(fs, f)
	}
	return fmt.Sprintf("d%d", dynCount), fs
}

// ---- inputs ------------------------------------------------------------------------------------

// SItem: one Select/Omit argument. Form: star | field | col | tabcol | tabstar | unknown.
type SItem struct {
	Form  string `json:"form"`
	Field int    `json:"field"`
}

// PV: one payload entry: field index, spelling of the map key (col | field), zero value or not.
// (PV.Form: how a map value is passed in an update: "" plain | expr gorm.Expr("(?)", v) | sub a subquery SELECT ?)
type PV struct {
	Form  string `json:"form,omitempty"`
	Field int    `json:"field"`
	Spell string `json:"spell,omitempty"`
	Zero  bool   `json:"zero"`
	Nil   bool   `json:"nil,omitempty"` // pointer fields: the payload's pointer is nil (else it points to the zero / non-zero value)
}
type Row struct {
	ID int64 `json:"id"` // 0 = let the database assign
	PV []PV  `json:"pv"` // struct payload: every non-key field exactly once
}
type Input struct {
	Dyn        []FDesc `json:"dyn,omitempty"` // a generated model type (reflect.StructOf); nil = types[Type]
	DynTable   string  `json:"dyn_table,omitempty"`
	Type       int     `json:"type"`
	Kind       string  `json:"kind"` // create | create_batch | create_map | upsert_all | upsert_cols | upsert_nothing | save | update | updates_struct | updates_map | update_column | update_columns_struct | update_columns_map
	Selects    []SItem `json:"selects"`
	Omits      []SItem `json:"omits"`
	Rows       []Row   `json:"rows"`                  // struct payload(s); map payload = Rows[0].PV with spellings
	ModelKey   int64   `json:"model_key"`             // Model(&T{ID: k}), 0 = Model(&T{})
	ModelSlice []int64 `json:"model_slice,omitempty"` // Model(&[]T{{ID: k}, ...}) (0 = key-less element); nil = a struct
	ModelLoc   int64   `json:"model_loc"`             // composite key: Model(&T{ID: k, Locale: locales[ModelLoc]})
	WhereIDs   []int64 `json:"where_ids"`             // Where("rid IN ?", rows); nil = no Where
	HasWhere   bool    `json:"has_where"`
	Cols       []int   `json:"cols"`  // upsert_cols: DoUpdates columns (field indexes)
	Batch      int     `json:"batch"` // create_batch: CreateInBatches size (0 = Create(&slice))
	Ptr        bool    `json:"ptr"`   // updates_struct: pass a pointer to the payload struct
	// foc_assign / foi_assign: [Model(&T{}).]Where(rows).[Attrs(map).]Assign(map = Rows[0]).FirstOrCreate/FirstOrInit
	ChainModel bool   `json:"chain_model"`
	NoReturn   bool   `json:"no_returning"`         // dialector without RETURNING
	MapPtr     bool   `json:"map_ptr,omitempty"`    // create_map: Create(&m); create_maps: Create(ms) by value
	BatchMode  string `json:"batch_mode,omitempty"` // create_batch: "" CreateInBatches/Create | session: Session{CreateBatchSize}
	Returning  bool   `json:"returning,omitempty"`  // updates: Clauses(clause.Returning{}) on the chain
	// CloneStep: what stands between Select/Omit and the finisher: "" nothing | session Session(&Session{}) |
	// ctx WithContext | tx Begin() ... Commit() ; CloneAt: "end" after Omit | "mid" between Model/Where and Select
	CloneStep string `json:"clone_step,omitempty"`
	CloneAt   string `json:"clone_at,omitempty"`
	Attrs     *Row   `json:"attrs,omitempty"`
	// map updates whose keys the statement's schema does not know: View = the fields (indexes, key included) of
	// the narrower struct passed as Model (the other columns of the table are raw keys); NoSchema = no Model at
	// all, Table(t).Where(..).[Select][Omit].Updates(map)
	View     []int `json:"view,omitempty"`
	NoSchema bool  `json:"no_schema,omitempty"`
	// Prior: map updates made EARLIER through the same handle (the chain value the measured finisher is called on);
	// the table is restored in between, so that the diff shows what the measured finisher alone writes
	Prior []PriorOp `json:"prior,omitempty"`
	// Patch: updates_struct / update_columns_struct: the value handed to Updates / UpdateColumns is a struct of
	// ANOTHER type than the Model (a patch / DTO type mapped onto the same columns): the key plus the listed fields
	// of the table's type, each with its OWN permission tags
	Patch []PatchF `json:"patch,omitempty"`
}
type PriorOp struct {
	Kind string `json:"kind"` // update | updates_map | update_column | update_columns_map
	Row  Row    `json:"row"`
}
type PatchF struct {
	Field int    `json:"field"`
	Dash  string `json:"dash"`
	RO    string `json:"ro"`
	RW    string `json:"rw"`
}

// patchOf: the type of the value handed to Updates / UpdateColumns (Input.Patch), nil fields = the table's type
func patchOf(in Input) TDesc {
	t := typeOf(in)
	fs := []FDesc{t.Fields[0]}
	for _, pf := range in.Patch {
		f := t.Fields[pf.Field]
		f.Dash, f.RO, f.RW, f.DBDef, f.LitDef = pf.Dash, pf.RO, pf.RW, false, false
		fs = append(fs, f)
	}
	return dynType(t.Table+"_patch", fs)
}
type Cell struct {
	Row  int64  `json:"row"`
	Col  string `json:"col"`
	Kind string `json:"kind"` // now | pay | oth
}
type PF struct { // a field as gorm parsed it
	Name      string `json:"name"`
	DBName    string `json:"dbname"`
	Creatable bool   `json:"creatable"`
	Updatable bool   `json:"updatable"`
	Readable  bool   `json:"readable"`
}
type Obs struct {
	Cells  []Cell `json:"cells"`
	Err    string `json:"err"`
	RA     int64  `json:"ra"`
	Parsed []PF   `json:"parsed"`
	VParsed []PF  `json:"vparsed,omitempty"` // the patch type's fields as gorm parsed them
	Setup  string `json:"setup_err,omitempty"`
}

var base = time.Date(2021, 1, 1, 0, 0, 0, 0, time.UTC)
var nowT = base.Add(1000 * time.Second)
var stored = []int64{1, 2, 3, 4}

const intDefault = -7
const strDefault = "dflt"

var timeDefault = time.Date(1999, 1, 1, 0, 0, 0, 0, time.UTC)

func fmtTime(t time.Time) string { return t.UTC().Format(time.RFC3339Nano) }

// value of field j (kind k) in the payload: a non-zero value unlike anything stored, or the zero value
func payValue(f FDesc, j int, zero bool) interface{} {
	switch f.Kind {
	case "bool": // a *bool payload is nil or points to false (stored rows hold true)
		return false
	case "int", "unix", "milli", "nano":
		if zero {
			return int64(0)
		}
		return int64(500 + j)
	case "str":
		if zero {
			return ""
		}
		return fmt.Sprintf("n%d", j)
	}
	if zero {
		return time.Time{}
	}
	return base.Add(time.Duration(700+j) * time.Second)
}

// mapValue: the value a map payload (or Update(col, v)) carries for field j: like the struct payload, the zero
// value of a *time.Time field is the nil pointer
func mapValue(f FDesc, j int, pv PV) interface{} {
	if pv.Zero && f.GoType == "ptime" {
		return (*time.Time)(nil)
	}
	if pv.Nil {
		return nil
	}
	return payValue(f, j, pv.Zero)
}

// gormZero: is the payload's value of field f zero for gorm (a pointer field: nil; else the zero value)?
func gormZero(f FDesc, pv PV) bool {
	if f.Ptr {
		return pv.Nil
	}
	return pv.Zero
}

// payRepr: how the payload's value of field j reads back (the zero value of a *time.Time is NULL)
func payRepr(f FDesc, j int, pv PV) string {
	if pv.Zero && f.GoType == "ptime" || pv.Nil {
		return "NULL"
	}
	if f.Kind == "bool" {
		return "0"
	}
	return repr(payValue(f, j, pv.Zero))
}
func repr(v interface{}) string {
	switch x := v.(type) {
	case nil:
		return "NULL"
	case time.Time:
		return fmtTime(x)
	case []byte:
		return string(x)
	}
	return fmt.Sprint(v)
}
func storedValue(f FDesc, j int, id int64) interface{} {
	switch f.Kind {
	case "bool":
		return int64(1)
	case "int", "unix", "milli", "nano":
		return int64(100 + 10*id + int64(j))
	case "str":
		return fmt.Sprintf("s%d_%d", id, j)
	}
	return base.Add(time.Duration(10*id+int64(j)) * time.Second)
}
func nowRepr(f FDesc) string {
	switch f.Kind {
	case "unix":
		return fmt.Sprint(nowT.Unix())
	case "milli":
		return fmt.Sprint(nowT.UnixMilli())
	case "nano":
		return fmt.Sprint(nowT.UnixNano())
	case "time":
		return fmtTime(nowT)
	}
	return "<never>"
}

// ---- database ------------------------------------------------------------------------------------

type env struct {
	db      *gorm.DB
	sql     *sql.DB
	created map[string]bool
}

// openEnv: SQLite as it is (INSERT/UPDATE ... RETURNING) or made to look too old for RETURNING (the
// Create callback then uses Exec + LastInsertId and back-fills the keys itself)
func openEnv(noReturning bool) *env {
	db, _, sqlDB, err := gdb.Open(gdb.Opt{NoReturning: noReturning, Config: &gorm.Config{NowFunc: func() time.Time { return nowT }}})
	lib.Must(err)
	e := &env{db: db, sql: sqlDB, created: map[string]bool{}}
	for _, t := range types {
		e.createTable(t)
	}
	return e
}

func (e *env) createTable(t TDesc) {
	if e.created[t.Table] {
		return
	}
	e.created[t.Table] = true
	{
		var cols, pks []string
		for _, f := range t.Fields {
			switch {
			case f.PK && isComposite(t):
				pks = append(pks, f.Col)
				cols = append(cols, f.Col+map[string]string{"str": " text"}[f.Kind]+map[string]string{"int": " integer"}[f.Kind])
			case f.PK:
				cols = append(cols, f.Col+" integer PRIMARY KEY")
			case f.Kind == "str":
				cols = append(cols, fmt.Sprintf("%s text DEFAULT '%s'", f.Col, strDefault))
			case f.Kind == "time":
				cols = append(cols, fmt.Sprintf("%s datetime DEFAULT '%s'", f.Col, "1999-01-01 00:00:00+00:00"))
			default:
				cols = append(cols, fmt.Sprintf("%s integer DEFAULT %d", f.Col, intDefault))
			}
		}
		cols = append(cols, "rid integer") // stable row identity for the diff (not a field of the model type)
		if len(pks) > 0 {
			cols = append(cols, "PRIMARY KEY ("+strings.Join(pks, ",")+")")
		}
		_, err := e.sql.Exec("CREATE TABLE " + t.Table + " (" + strings.Join(cols, ", ") + ")")
		lib.Must(err)
	}
}

func (e *env) restore(t TDesc) error {
	if _, err := e.sql.Exec("DELETE FROM " + t.Table); err != nil {
		return err
	}
	for _, id := range stored {
		var cols, qs []string
		var args []interface{}
		for j, f := range t.Fields {
			cols = append(cols, f.Col)
			qs = append(qs, "?")
			if f.PK {
				v, _ := keyOf(t, f, id)
				args = append(args, v)
			} else {
				args = append(args, storedValue(f, j, id))
			}
		}
		cols, qs, args = append(cols, "rid"), append(qs, "?"), append(args, id)
		if _, err := e.sql.Exec("INSERT INTO "+t.Table+" ("+strings.Join(cols, ",")+") VALUES ("+strings.Join(qs, ",")+")", args...); err != nil {
			return err
		}
	}
	return nil
}

func (e *env) dump(t TDesc) (map[int64]map[string]string, error) {
	var cols []string
	for _, f := range t.Fields {
		cols = append(cols, f.Col)
	}
	cols = append(cols, "rid")
	rows, err := e.sql.Query("SELECT " + strings.Join(cols, ",") + " FROM " + t.Table + " ORDER BY id")
	if err != nil {
		return nil, err
	}
	defer rows.Close()
	out := map[int64]map[string]string{}
	nnew := int64(0)
	for rows.Next() {
		vals := make([]interface{}, len(cols))
		ptrs := make([]interface{}, len(cols))
		for i := range vals {
			ptrs[i] = &vals[i]
		}
		if err := rows.Scan(ptrs...); err != nil {
			return nil, err
		}
		m := map[string]string{}
		for i, f := range t.Fields {
			m[f.Col] = repr(vals[i])
		}
		// stored rows keep their identity [rid] even if the key is rewritten; rows inserted by the
		// case have rid NULL and are numbered 1001, 1002, ... in key order
		id, ok := vals[len(vals)-1].(int64)
		if !ok {
			nnew++
			id = 1000 + nnew
		}
		out[id] = m
	}
	return out, rows.Err()
}

// ---- running one case ---------------------------------------------------------------------------

func itemString(t TDesc, s SItem) string {
	switch s.Form {
	case "star":
		return "*"
	case "field":
		return t.Fields[s.Field].Name
	case "col":
		return t.Fields[s.Field].Col
	case "tabcol":
		return t.Table + "." + t.Fields[s.Field].Col
	case "tabstar":
		return t.Table + ".*"
	case "weird":
		return "upper(nosuch)"
	}
	return "nosuch"
}

func buildStruct(t TDesc, r Row) reflect.Value { return buildStructAs(t.Type, t, r) }

// buildStructAs: the payload as a value of Go type [typ] (the table's type or a patch type over the same field names)
func buildStructAs(typ reflect.Type, t TDesc, r Row) reflect.Value {
	p := reflect.New(typ)
	v := p.Elem()
	v.FieldByName("ID").SetUint(uint64(r.ID))
	for _, pv := range r.PV {
		f := t.Fields[pv.Field]
		fv := v.FieldByName(f.Name) // (promoted through the anonymous embedded struct)
		if f.Place == "embtag" {
			fv = v.FieldByName("Box").FieldByName(f.Name)
		}
		if f.Ptr {
			if pv.Nil {
				continue
			}
			fv.Set(reflect.New(fv.Type().Elem()))
			fv = fv.Elem()
		}
		switch x := payValue(f, pv.Field, pv.Zero).(type) {
		case bool:
			fv.SetBool(x)
		case int64:
			if k := fv.Kind(); k == reflect.Uint || k == reflect.Uint32 || k == reflect.Uint64 {
				fv.SetUint(uint64(x))
			} else {
				fv.SetInt(x)
			}
		case string:
			fv.SetString(x)
		case time.Time:
			if fv.Kind() == reflect.Ptr {
				if !pv.Zero {
					fv.Set(reflect.ValueOf(&x))
				}
			} else {
				fv.Set(reflect.ValueOf(x))
			}
		}
	}
	return p
}

var rawDB *gorm.DB // handle used to build subquery values

func formed(pv PV, v interface{}) interface{} {
	switch pv.Form {
	case "expr":
		return gorm.Expr("(?)", v)
	case "sub":
		return rawDB.Raw("SELECT ?", v)
	}
	return v
}

func buildMap(t TDesc, r Row) map[string]interface{} {
	m := map[string]interface{}{}
	for _, pv := range r.PV {
		f := t.Fields[pv.Field]
		k := f.Col
		if pv.Spell == "field" {
			k = f.Name
		}
		m[k] = formed(pv, mapValue(f, pv.Field, pv))
	}
	return m
}

func run(e *env, in Input) (o Obs) {
	defer func() {
		if p := recover(); p != nil { // gorm panicked: reported as an error of the finisher, the table is diffed no more
			o.Err = fmt.Sprint("PANIC: ", p)
			o.Cells = []Cell{}
			fmt.Fprintln(os.Stderr, "gorm panicked:", p, "on", in.Kind)
			b, _ := json.Marshal(in)
			fmt.Fprintln(os.Stderr, string(b))
		}
	}()
	rawDB = e.db
	t := typeOf(in)
	e.createTable(t)
	if err := e.restore(t); err != nil {
		o.Setup = err.Error()
		return o
	}
	before, err := e.dump(t)
	if err != nil {
		o.Setup = err.Error()
		return o
	}
	// gorm's own reading of the tags (compared with the model's perm_of)
	mt := modelOf(in)
	if !in.NoSchema {
		st := &gorm.Statement{DB: e.db}
		if mt.Dynamic {
			st.Table = mt.Table
		}
		if err := st.Parse(reflect.New(mt.Type).Interface()); err != nil {
			o.Setup = err.Error()
			return o
		}
		for _, f := range mt.Fields {
			pf := st.Schema.FieldsByName[f.Name]
			if pf == nil {
				o.Setup = "gorm parsed no field " + f.Name
				return o
			}
			o.Parsed = append(o.Parsed, PF{f.Name, pf.DBName, pf.Creatable, pf.Updatable, pf.Readable})
		}
	}

	if in.Patch != nil {
		vt := patchOf(in)
		st := &gorm.Statement{DB: e.db, Table: vt.Table}
		if err := st.Parse(reflect.New(vt.Type).Interface()); err != nil {
			o.Setup = err.Error()
			return o
		}
		for _, f := range vt.Fields {
			pf := st.Schema.FieldsByName[f.Name]
			if pf == nil {
				o.Setup = "gorm parsed no patch field " + f.Name
				return o
			}
			o.VParsed = append(o.VParsed, PF{f.Name, pf.DBName, pf.Creatable, pf.Updatable, pf.Readable})
		}
	}

	tx := e.db.Session(&gorm.Session{})
	if t.Dynamic {
		tx = tx.Table(t.Table)
	}
	model := reflect.New(t.Type)
	if in.View != nil {
		model = reflect.New(mt.Type)
	}
	model.Elem().FieldByName("ID").SetUint(uint64(in.ModelKey))
	if isComposite(t) {
		model.Elem().FieldByName("Locale").SetString(locales[in.ModelLoc])
	}
	isUpdate := strings.HasPrefix(in.Kind, "update")
	if in.ModelSlice != nil {
		sl := reflect.MakeSlice(reflect.SliceOf(t.Type), len(in.ModelSlice), len(in.ModelSlice))
		for i, k := range in.ModelSlice {
			sl.Index(i).FieldByName("ID").SetUint(uint64(k))
		}
		p := reflect.New(sl.Type())
		p.Elem().Set(sl)
		tx = tx.Model(p.Interface())
	} else if in.NoSchema {
		// no Model: the statement runs on Table(t.Table) alone
	} else if isUpdate || in.Kind == "create_map" || in.Kind == "create_maps" || in.ChainModel {
		tx = tx.Model(model.Interface())
	}
	if in.Returning {
		tx = tx.Clauses(clause.Returning{})
	}
	if in.HasWhere {
		tx = tx.Where("rid IN ?", in.WhereIDs) // rid = identity of the stored row (= its key for single-key types)
	}
	var began *gorm.DB
	cloneStep := func() {
		switch in.CloneStep {
		case "session":
			tx = tx.Session(&gorm.Session{})
		case "ctx":
			tx = tx.WithContext(context.Background())
		case "tx":
			tx = tx.Begin()
			began = tx
		}
	}
	if in.CloneAt == "mid" {
		cloneStep()
	}
	if len(in.Selects) > 0 {
		var rest []interface{}
		for _, s := range in.Selects[1:] {
			rest = append(rest, itemString(t, s))
		}
		tx = tx.Select(itemString(t, in.Selects[0]), rest...)
	}
	if len(in.Omits) > 0 {
		var os []string
		for _, s := range in.Omits {
			os = append(os, itemString(t, s))
		}
		tx = tx.Omit(os...)
	}
	if in.CloneAt != "mid" {
		cloneStep()
	}
	defer func() { // a transaction opened as clone step and still open (a panic): give the connection back
		if began != nil {
			began.Rollback()
		}
	}()
	mapUpdate := func(kind string, row Row) *gorm.DB {
		switch kind {
		case "update", "update_column":
			pv := row.PV[0]
			f := t.Fields[pv.Field]
			k := f.Col
			if pv.Spell == "field" {
				k = f.Name
			}
			if kind == "update" {
				return tx.Update(k, formed(pv, mapValue(f, pv.Field, pv)))
			}
			return tx.UpdateColumn(k, formed(pv, mapValue(f, pv.Field, pv)))
		case "updates_map":
			return tx.Updates(buildMap(t, row))
		}
		return tx.UpdateColumns(buildMap(t, row))
	}
	for _, pr := range in.Prior {
		// an earlier write through the same handle; the table is put back afterwards
		if r := mapUpdate(pr.Kind, pr.Row); r.Error != nil {
			o.Setup = "prior update failed: " + r.Error.Error()
			return o
		}
		if err := e.restore(t); err != nil {
			o.Setup = err.Error()
			return o
		}
	}
	var res *gorm.DB
	switch in.Kind {
	case "create":
		if in.Batch > 0 { // CreateInBatches of a single struct falls back to Create
			res = tx.CreateInBatches(buildStruct(t, in.Rows[0]).Interface(), in.Batch)
		} else {
			res = tx.Create(buildStruct(t, in.Rows[0]).Interface())
		}
	case "save_slice":
		sl := reflect.MakeSlice(reflect.SliceOf(t.Type), 0, len(in.Rows))
		for _, r := range in.Rows {
			sl = reflect.Append(sl, buildStruct(t, r).Elem())
		}
		p := reflect.New(sl.Type())
		p.Elem().Set(sl)
		res = tx.Save(p.Interface())
	case "create_batch":
		sl := reflect.MakeSlice(reflect.SliceOf(t.Type), 0, len(in.Rows))
		for _, r := range in.Rows {
			sl = reflect.Append(sl, buildStruct(t, r).Elem())
		}
		p := reflect.New(sl.Type())
		p.Elem().Set(sl)
		switch {
		case in.Batch > 0 && in.BatchMode == "session":
			res = tx.Session(&gorm.Session{CreateBatchSize: in.Batch}).Create(p.Interface())
		case in.Batch > 0:
			res = tx.CreateInBatches(p.Interface(), in.Batch)
		default:
			res = tx.Create(p.Interface())
		}
	case "create_map":
		m := buildMap(t, in.Rows[0])
		if in.Rows[0].ID != 0 {
			m["id"] = in.Rows[0].ID
		}
		if in.MapPtr {
			res = tx.Create(&m)
		} else {
			res = tx.Create(m)
		}
	case "create_maps":
		ms := []map[string]interface{}{}
		for _, r := range in.Rows {
			m := buildMap(t, r)
			if r.ID != 0 {
				m["id"] = r.ID
			}
			ms = append(ms, m)
		}
		if in.MapPtr {
			res = tx.Create(ms) // the slice of maps by value
		} else {
			res = tx.Create(&ms)
		}
	case "foc_assign", "foi_assign":
		if in.Attrs != nil {
			tx = tx.Attrs(buildMap(t, *in.Attrs))
		}
		tx = tx.Assign(buildMap(t, in.Rows[0]))
		dest := reflect.New(t.Type).Interface()
		if in.Kind == "foc_assign" {
			res = tx.FirstOrCreate(dest)
		} else {
			res = tx.FirstOrInit(dest)
		}
	case "upsert_all":
		res = tx.Clauses(clause.OnConflict{UpdateAll: true}).Create(buildStruct(t, in.Rows[0]).Interface())
	case "upsert_nothing":
		res = tx.Clauses(clause.OnConflict{DoNothing: true}).Create(buildStruct(t, in.Rows[0]).Interface())
	case "upsert_cols":
		var cs []string
		for _, j := range in.Cols {
			cs = append(cs, t.Fields[j].Col)
		}
		res = tx.Clauses(clause.OnConflict{Columns: []clause.Column{{Name: "id"}}, DoUpdates: clause.AssignmentColumns(cs)}).
			Create(buildStruct(t, in.Rows[0]).Interface())
	case "save":
		if in.Ptr { // Save(&ptr): pointer to pointer
			pp := reflect.New(reflect.PtrTo(t.Type))
			pp.Elem().Set(buildStruct(t, in.Rows[0]))
			res = tx.Save(pp.Interface())
		} else {
			res = tx.Save(buildStruct(t, in.Rows[0]).Interface())
		}
	case "update":
		pv := in.Rows[0].PV[0]
		f := t.Fields[pv.Field]
		k := f.Col
		if pv.Spell == "field" {
			k = f.Name
		}
		res = tx.Update(k, formed(pv, mapValue(f, pv.Field, pv)))
	case "update_column":
		pv := in.Rows[0].PV[0]
		f := t.Fields[pv.Field]
		k := f.Col
		if pv.Spell == "field" {
			k = f.Name
		}
		res = tx.UpdateColumn(k, formed(pv, mapValue(f, pv.Field, pv)))
	case "updates_struct", "update_columns_struct":
		p := buildStruct(t, in.Rows[0])
		if in.Patch != nil {
			p = buildStructAs(patchOf(in).Type, t, in.Rows[0])
		}
		var arg interface{} = p.Elem().Interface()
		if in.Ptr {
			arg = p.Interface()
		}
		if in.Kind == "updates_struct" {
			res = tx.Updates(arg)
		} else {
			res = tx.UpdateColumns(arg)
		}
	case "updates_map":
		res = tx.Updates(buildMap(t, in.Rows[0]))
	case "update_columns_map":
		res = tx.UpdateColumns(buildMap(t, in.Rows[0]))
	default:
		o.Setup = "unknown kind " + in.Kind
		return o
	}
	if res.Error != nil {
		o.Err = res.Error.Error()
	}
	o.RA = res.RowsAffected
	if began != nil { // end the transaction before the table is read back on the single connection
		if res.Error != nil {
			began.Rollback()
		} else {
			began.Commit()
		}
		began = nil
	}

	after, err := e.dump(t)
	if err != nil {
		o.Setup = err.Error()
		return o
	}
	// payload per row id (for the "pay" classification)
	payOf := func(id int64) (map[int]PV, int64) { // field -> payload entry ; payload key
		m := map[int]PV{}
		if len(in.Rows) == 0 {
			return m, 0
		}
		pick := in.Rows[0]
		fresh := in.Rows
		if in.Kind == "save_slice" { // stored keys are updated in place, the other elements become the new rows
			fresh = nil
			for _, r := range in.Rows {
				if _, isStored := before[r.ID]; isStored {
					if r.ID == id {
						pick = r
					}
				} else {
					fresh = append(fresh, r)
				}
			}
		}
		if id > 1000 && int(id-1001) < len(fresh) {
			pick = fresh[id-1001]
		}
		for _, pv := range pick.PV {
			m[pv.Field] = pv
		}
		return m, pick.ID
	}
	var ids []int64
	for id := range after {
		ids = append(ids, id)
	}
	o.Cells = []Cell{}
	for id := range before {
		if _, ok := after[id]; !ok {
			o.Cells = append(o.Cells, Cell{id, "<row deleted>", "oth"})
		}
	}
	sort.Slice(ids, func(i, j int) bool { return ids[i] < ids[j] })
	// columns in the order of the model's fields, then the columns the model does not know, by name
	var order, rest []int
	for j := range t.Fields {
		if inView(in, j) {
			order = append(order, j)
		} else {
			rest = append(rest, j)
		}
	}
	sort.Slice(rest, func(a, b int) bool { return t.Fields[rest[a]].Col < t.Fields[rest[b]].Col })
	order = append(order, rest...)
	for _, id := range ids {
		old, existed := before[id]
		pay, payID := payOf(id)
		for _, j := range order {
			f := t.Fields[j]
			nv := after[id][f.Col]
			if existed {
				if old[f.Col] == nv {
					continue
				}
			} else {
				if f.PK {
					continue // a new row necessarily has its key
				}
				if nv == repr(int64(intDefault)) && f.Kind != "str" && f.Kind != "time" || nv == strDefault && f.Kind == "str" ||
					nv == fmtTime(timeDefault) && f.Kind == "time" {
					continue // still the table's DEFAULT: the column was not in the INSERT
				}
			}
			kind := "oth"
			if nv == nowRepr(f) {
				kind = "now"
			} else if pv, ok := pay[j]; ok && nv == payRepr(f, j, pv) {
				kind = "pay"
			} else if f.PK && nv == fmt.Sprint(payID) {
				kind = "pay"
			}
			o.Cells = append(o.Cells, Cell{id, f.Col, kind})
		}
	}
	return o
}

// ---- Gallina ---------------------------------------------------------------------------------------

func gOptS(s string, m map[string]string) string {
	if s == "" {
		return "None"
	}
	return "(Some " + m[s] + ")"
}
func gField(f FDesc) string {
	dash := gOptS(f.Dash, map[string]string{"-": "DDash", "all": "DAll", "migration": "DMigration"})
	ro := gOptS(f.RO, map[string]string{"->": "true", "->:false": "false"})
	rw := gOptS(f.RW, map[string]string{"<-": "WAll", "create": "WCreate", "update": "WUpdate", "false": "WFalse", "create,update": "WCreateUpdate"})
	auto := map[string]string{"": "ANone", "create": "ACreate", "update": "AUpdate"}[f.Auto]
	return lib.App("mk_field", lib.Str(f.Name), lib.Str(f.Col), lib.Bool(f.ColTag), lib.Bool(f.DBDef), dash, ro, rw, lib.Bool(f.PK), auto)
}
func gItem(t TDesc, s SItem) string {
	switch s.Form {
	case "star":
		return "SStar"
	case "field":
		return lib.App("SName", lib.Str(t.Fields[s.Field].Name))
	case "col":
		return lib.App("SName", lib.Str(t.Fields[s.Field].Col))
	case "tabcol":
		return lib.App("STab", lib.Str(t.Table), lib.Str(t.Fields[s.Field].Col))
	case "tabstar":
		return lib.App("STabStar", lib.Str(t.Table))
	case "weird":
		return lib.App("SName", lib.Str("upper(nosuch)"))
	}
	return lib.App("SName", lib.Str("nosuch"))
}
func gPV(t TDesc, pv PV, asMap bool) string {
	f := t.Fields[pv.Field]
	k := f.Name
	if asMap && pv.Spell != "field" {
		k = f.Col
	}
	return lib.Pair(lib.Str(k), lib.Bool(gormZero(f, pv)))
}
func gRow(t TDesc, r Row, asMap bool) string {
	pvs := append([]PV(nil), r.PV...)
	if asMap && r.ID != 0 { // Create(map) with an explicit key: "id" is one more map key
		pvs = append(pvs, PV{Field: 0, Spell: "col", Zero: false})
	}
	if asMap { // gorm iterates map payloads in sorted key order
		key := func(p PV) string {
			if p.Spell == "field" {
				return t.Fields[p.Field].Name
			}
			return t.Fields[p.Field].Col
		}
		sort.SliceStable(pvs, func(i, j int) bool { return key(pvs[i]) < key(pvs[j]) })
	}
	return lib.Pair(lib.Z(r.ID), lib.ListOf(pvs, func(p PV) string { return gPV(t, p, asMap) }))
}
func isMapKind(k string) bool {
	switch k {
	case "create_map", "create_maps", "foc_assign", "foi_assign", "update", "updates_map", "update_column", "update_columns_map":
		return true
	}
	return false
}
func gKind(in Input, t TDesc) string {
	switch in.Kind {
	case "create":
		return "OCreate"
	case "create_batch":
		return "OCreateBatch"
	case "create_map":
		return "OCreateMap"
	case "create_maps":
		return "OCreateMaps"
	case "foc_assign":
		return "OFocAssign"
	case "foi_assign":
		return "OFoiAssign"
	case "upsert_all":
		return "OUpsertAll"
	case "upsert_nothing":
		return "OUpsertNothing"
	case "upsert_cols":
		return lib.App("OUpsertCols", lib.ListOf(in.Cols, func(j int) string { return lib.Str(t.Fields[j].Col) }))
	case "save":
		return "OSave"
	case "save_slice":
		return "OSaveSlice"
	case "update", "updates_map":
		return "OUpdatesMap"
	case "update_column", "update_columns_map":
		return "OUpdateColumnsMap"
	case "updates_struct":
		return "OUpdatesStruct"
	}
	return "OUpdateColumnsStruct"
}
func gCell(c Cell) string {
	k := map[string]string{"now": "KNow", "pay": "KPay", "oth": "KOther"}[c.Kind]
	return lib.App("mk_cell", lib.Z(c.Row), lib.Str(c.Col), k)
}
func gPF(p PF) string {
	return lib.App("mk_pf", lib.Str(p.Name), lib.Str(p.DBName), lib.Bool(p.Creatable), lib.Bool(p.Updatable), lib.Bool(p.Readable))
}
func term(in Input, o Obs) string {
	t := typeOf(in)
	asMap := isMapKind(in.Kind)
	where := "None"
	if in.HasWhere {
		where = "(Some " + lib.ZList(in.WhereIDs) + ")"
	}
	return lib.App("mk_case", lib.Str(t.Table), lib.ListOf(modelOf(in).Fields, gField), gKind(in, t),
		lib.ListOf(in.Selects, func(s SItem) string { return gItem(t, s) }),
		lib.ListOf(in.Omits, func(s SItem) string { return gItem(t, s) }),
		lib.ListOf(in.Rows, func(r Row) string { return gRow(t, r, asMap) }),
		lib.ListOf(stored, func(rid int64) string {
			var ks []int64
			for _, f := range t.Fields {
				if f.PK {
					_, c := keyOf(t, f, rid)
					ks = append(ks, c)
				}
			}
			return lib.Pair(lib.Z(rid), lib.ZList(ks))
		}), func() string {
			if in.ModelSlice != nil {
				return lib.App("MSlice", lib.ZList(in.ModelSlice))
			}
			if isComposite(t) {
				return lib.App("MStruct", lib.ZList([]int64{in.ModelKey, in.ModelLoc}))
			}
			return lib.App("MStruct", lib.ZList([]int64{in.ModelKey}))
		}(), where,
		func() string { // the value's own type (a patch struct), if it is not the model's
			if in.Patch == nil {
				return "None"
			}
			return "(Some " + lib.ListOf(patchOf(in).Fields, gField) + ")"
		}(),
		lib.ListOf(in.Prior, func(pr PriorOp) string {
			return lib.Pair(lib.Bool(pr.Kind == "update_column" || pr.Kind == "update_columns_map"), gRow(t, pr.Row, true))
		}),
		lib.ListOf(o.Cells, gCell), lib.Bool(o.Err != ""), lib.ListOf(o.Parsed, gPF), lib.ListOf(o.VParsed, gPF), lib.Bool(o.Setup != ""))
}

// ---- generation ------------------------------------------------------------------------------------

var kinds = []string{"save_slice", "create_batch", "create_maps", "create_maps", "foc_assign", "foc_assign", "foi_assign", "create", "create_batch", "create_map", "upsert_all", "upsert_cols", "upsert_nothing", "save",
	"update", "updates_struct", "updates_map", "update_column", "update_columns_struct", "update_columns_map"}

func nonKey(t TDesc) []int {
	var out []int
	for j, f := range t.Fields {
		if !f.PK {
			out = append(out, j)
		}
	}
	return out
}

// permOf: the permission flags of a field, used ONLY to keep generated inputs inside the stated
// domain (explicit DoUpdates lists, known-finding signature); the checker never sees it.
func permOf(f FDesc) (creatable, updatable bool) {
	c, u := true, true
	if f.Dash == "-" || f.Dash == "all" {
		c, u = false, false
	}
	if f.RO != "" {
		c, u = false, false
	}
	switch f.RW {
	case "<-", "create,update":
		c, u = true, true
	case "create":
		c, u = true, false
	case "update":
		c, u = false, true
	case "false":
		c, u = false, false
	}
	return c, u
}

func hasColumn(f FDesc) bool { return f.ColTag || f.Dash != "-" && f.Dash != "all" }

func genItems(r *lib.Rng, t TDesc, n int, allowStar bool, edge bool) []SItem {
	var out []SItem
	for i := 0; i < n; i++ {
		j := lib.Pick(r, nonKey(t))
		form := lib.Pick(r, []string{"field", "col", "col", "field", "tabcol"})
		if allowStar && r.Chance(1, 6) {
			form = lib.Pick(r, []string{"star", "star", "tabstar"})
		}
		if edge && r.Chance(1, 6) {
			form = lib.Pick(r, []string{"unknown", "weird"})
		}
		out = append(out, SItem{form, j})
	}
	return out
}

// ptrState: a pointer field's payload is nil (1/3), points to the zero value (1/3) or to a non-zero value; a *bool
// never points to true (the stored rows hold true, the write would not show)
func ptrState(r *lib.Rng, f FDesc, pv *PV) {
	if !f.Ptr {
		return
	}
	pv.Nil = r.Chance(1, 3)
	pv.Zero = r.Bool() || f.Kind == "bool"
	if pv.Nil {
		pv.Zero = true
	}
}

// structRow: a payload with every non-key field, zero with probability pz; tracked time fields are
// left zero (the usual way to use them) unless edge
func structRow(r *lib.Rng, t TDesc, id int64, pzNum, pzDen int, edge bool) Row {
	row := Row{ID: id}
	for _, j := range nonKey(t) {
		f := t.Fields[j]
		zero := r.Chance(pzNum, pzDen)
		if f.Auto != "" && !(edge && r.Chance(1, 3)) {
			zero = true
		}
		pv := PV{Field: j, Zero: zero}
		ptrState(r, f, &pv)
		row.PV = append(row.PV, pv)
	}
	return row
}

var mapRowUpdate bool // the map is an update payload: value forms and column-less fields (by Go name) allowed

func mapRow(r *lib.Rng, t TDesc, id int64, n int, edge bool) Row {
	row := Row{ID: id}
	cand := []int{}
	for _, j := range nonKey(t) {
		f := t.Fields[j]
		if !hasColumn(f) && !(mapRowUpdate && edge) {
			continue // map keys name existing columns (a column-less field may be named, by its Go name, in updates)
		}
		if f.Auto != "" && !(edge && r.Chance(1, 4)) && !r.Chance(1, 6) {
			continue // a map names a tracked time field now and then (more often in the edge stream)
		}
		cand = append(cand, j)
	}
	lib.Shuffle(r, cand)
	if n > len(cand) {
		n = len(cand)
	}
	for _, j := range cand[:n] {
		sp := "col"
		if r.Chance(1, 3) {
			sp = "field"
		}
		if !hasColumn(t.Fields[j]) {
			sp = "field"
		}
		pv := PV{Field: j, Spell: sp, Zero: r.Chance(1, 3)}
		if mapRowUpdate && r.Chance(1, 4) {
			pv.Form = lib.Pick(r, []string{"expr", "sub"})
		}
		ptrState(r, t.Fields[j], &pv)
		row.PV = append(row.PV, pv)
	}
	return row
}

var out_stale bool // the last generated input is a stale-copy struct update under a narrowing Select

func genInput(r *lib.Rng, edge bool, dyn *Input) Input {
	out_stale = false
	in := Input{Type: r.Intn(len(types)), Kind: lib.Pick(r, kinds)}
	if dyn != nil {
		in.Dyn, in.DynTable = dyn.Dyn, dyn.DynTable
	}
	t := typeOf(in)
	comp := isComposite(t)
	if comp { // composite key: updates only, Select/Omit over non-key fields without '*'
		in.Kind = lib.Pick(r, []string{"update", "updates_struct", "updates_map", "update_column", "update_columns_struct", "update_columns_map"})
	}
	// Select / Omit
	switch r.Intn(10) {
	case 0, 1, 2, 3: // none
	case 4, 5:
		in.Selects = genItems(r, t, r.Range(1, 3), !comp, edge)
	case 6, 7:
		in.Omits = genItems(r, t, r.Range(1, 2), false, edge)
	default:
		in.Selects = genItems(r, t, r.Range(1, 3), !comp, edge)
		in.Omits = genItems(r, t, 1, false, edge)
	}
	freshID := func() int64 {
		if r.Chance(1, 3) {
			return 0
		}
		return int64(7 + r.Intn(3))
	}
	switch in.Kind {
	case "create":
		in.Rows = []Row{structRow(r, t, freshID(), 1, 3, edge)}
		if r.Chance(1, 5) {
			in.Batch = r.Range(1, 2)
		}
	case "create_batch":
		n := r.Range(2, 3)
		auto := r.Chance(1, 3) // keys assigned by the database
		for i := 0; i < n; i++ {
			id := int64(7 + i)
			if auto {
				id = 0
			}
			in.Rows = append(in.Rows, structRow(r, t, id, 1, 3, edge))
		}
		if !auto && edge && r.Chance(1, 4) {
			in.Rows[n-1].ID = int64(1 + r.Intn(4)) // a stored key: the whole (batched) create must fail
		}
		if r.Bool() {
			in.Batch = r.Range(1, 3)
		}
		// fields with a database-side default: every element carries a value, or none does (an element
		// without a value would need the dialect's DEFAULT placeholder, which SQLite lacks: the mixed
		// case is kept for single-statement batches of the edge stream and must fail as a whole)
		for _, j := range nonKey(t) {
			if !t.Fields[j].DBDef || (edge && in.Batch == 0 && r.Chance(1, 3)) {
				continue
			}
			z := r.Chance(1, 4)
			if !z && len(in.Selects) == 0 && r.Chance(1, 3) {
				in.Omits = append(in.Omits, SItem{lib.Pick(r, []string{"field", "col"}), j}) // Omit of a defaulted column
			}
			for i := range in.Rows {
				for k := range in.Rows[i].PV {
					if in.Rows[i].PV[k].Field == j {
						in.Rows[i].PV[k].Zero = z
					}
				}
			}
		}
	case "save_slice":
		// 2-3 elements, stored keys (ascending) and fresh keys (ascending); no Select (the key must be inserted)
		in.Selects = nil
		var idsS, idsF []int64
		for _, id := range stored {
			if r.Chance(2, 5) {
				idsS = append(idsS, id)
			}
		}
		for _, id := range []int64{7, 8, 9} {
			if r.Chance(1, 3) {
				idsF = append(idsF, id)
			}
		}
		all := append(idsS, idsF...)
		if len(all) == 0 {
			all = []int64{2, 8}
		}
		if len(all) > 3 {
			all = all[:3]
		}
		lib.Shuffle(r, all)
		{ // fresh keys ascending in slice order (new rows are matched to elements in key order)
			var fr []int64
			for _, id := range all {
				if id > 4 {
					fr = append(fr, id)
				}
			}
			sort.Slice(fr, func(i, j int) bool { return fr[i] < fr[j] })
			k := 0
			for i, id := range all {
				if id > 4 {
					all[i] = fr[k]
					k++
				}
			}
		}
		for _, id := range all {
			in.Rows = append(in.Rows, structRow(r, t, id, 1, 3, edge))
		}
		for _, j := range nonKey(t) { // database-side defaults: a value in every element or in none
			if !t.Fields[j].DBDef {
				continue
			}
			z := r.Chance(1, 3)
			for i := range in.Rows {
				for k := range in.Rows[i].PV {
					if in.Rows[i].PV[k].Field == j {
						in.Rows[i].PV[k].Zero = z
					}
				}
			}
		}
	case "create_map":
		in.Rows = []Row{mapRow(r, t, freshID(), r.Range(1, 4), edge)}
		if len(in.Rows[0].PV) == 0 {
			in.Kind = "create"
			in.Rows = []Row{structRow(r, t, freshID(), 1, 3, edge)}
		}
	case "create_maps":
		// a batch of 2-3 maps naming the same fields, each key independently in column or field spelling
		first := mapRow(r, t, 0, r.Range(1, 4), edge)
		if len(first.PV) == 0 {
			in.Kind = "create"
			in.Rows = []Row{structRow(r, t, freshID(), 1, 3, edge)}
			break
		}
		explicit := r.Bool()
		for i, n := 0, r.Range(2, 3); i < n; i++ {
			row := Row{}
			if explicit {
				row.ID = int64(7 + i)
			}
			for _, pv := range first.PV {
				sp := "col"
				if r.Bool() {
					sp = "field"
				}
				npv := PV{Field: pv.Field, Spell: sp, Zero: r.Chance(1, 4)}
				ptrState(r, t.Fields[pv.Field], &npv)
				row.PV = append(row.PV, npv)
			}
			in.Rows = append(in.Rows, row)
		}
	case "foc_assign", "foi_assign":
		// the chain's Where matches 2-3 stored rows; FirstOrCreate/FirstOrInit finds the first of them
		in.Selects, in.Omits = nil, nil
		in.Rows = []Row{mapRow(r, t, 0, r.Range(1, 3), edge)}
		if len(in.Rows[0].PV) == 0 {
			in.Kind, in.Rows = "create", []Row{structRow(r, t, freshID(), 1, 3, edge)}
			break
		}
		if r.Chance(1, 3) {
			a := mapRow(r, t, 0, r.Range(1, 2), edge)
			if len(a.PV) > 0 {
				in.Attrs = &a
			}
		}
		in.ChainModel = r.Chance(3, 5)
		in.HasWhere = true
		ids := append([]int64(nil), stored...)
		lib.Shuffle(r, ids)
		in.WhereIDs = ids[:r.Range(2, 3)]
		sort.Slice(in.WhereIDs, func(i, j int) bool { return in.WhereIDs[i] < in.WhereIDs[j] })
		if edge && r.Bool() {
			in.WhereIDs = in.WhereIDs[:1]
		}
	case "upsert_all", "upsert_nothing", "upsert_cols":
		id := int64(1 + r.Intn(4)) // collides
		if r.Chance(1, 4) {
			id = freshID()
		}
		in.Rows = []Row{structRow(r, t, id, 1, 4, edge)}
		if in.Kind == "upsert_cols" {
			in.Selects, in.Omits = nil, nil // the listed columns must be among the inserted ones
			// DoUpdates columns: an explicit clause, restricted to columns with create AND update
			// permission (the clause is raw SQL for gorm; see props.d "not covered")
			var ok []int
			for _, j := range nonKey(t) {
				f := t.Fields[j]
				if c, u := permOf(f); hasColumn(f) && c && u && !f.DBDef { // listed columns must be inserted ones
					ok = append(ok, j)
				}
			}
			lib.Shuffle(r, ok)
			if len(ok) == 0 { // a generated type may have no such column
				in.Kind = "upsert_all"
			} else {
				in.Cols = ok[:r.Range(1, len(ok))]
			}
		}
	case "save":
		id := int64(1 + r.Intn(4))
		if r.Chance(1, 5) {
			id = freshID()
		}
		in.Rows = []Row{structRow(r, t, id, 1, 3, edge)}
		in.Ptr = r.Chance(1, 4)
	default: // updates
		mapRowUpdate = true
		switch in.Kind {
		case "update", "update_column":
			in.Rows = []Row{mapRow(r, t, 0, 1, edge)}
		case "updates_map", "update_columns_map":
			in.Rows = []Row{mapRow(r, t, 0, r.Range(1, 4), edge)}
		}
		mapRowUpdate = false
		if len(in.Rows) == 1 && len(in.Rows[0].PV) == 0 { // no column a map may name
			in.Rows = nil
			if in.Kind == "update" || in.Kind == "updates_map" {
				in.Kind = "updates_struct"
			} else {
				in.Kind = "update_columns_struct"
			}
		}
		switch {
		case in.Rows != nil:
		default:
			in.Rows = []Row{structRow(r, t, 0, 1, 2, edge)}
			in.Ptr = r.Chance(1, 3)
			// a stale loaded copy: the struct carries NON-ZERO tracked time fields (2 of 5 struct
			// updates), half of them under a narrowing Select that names data fields only
			if r.Chance(2, 5) {
				hasAuto := false
				for i := range in.Rows[0].PV {
					if t.Fields[in.Rows[0].PV[i].Field].Auto != "" {
						in.Rows[0].PV[i].Zero = false
						hasAuto = true
					}
				}
				if hasAuto && r.Bool() {
					var data []int
					for _, j := range nonKey(t) {
						if t.Fields[j].Auto == "" {
							data = append(data, j)
						}
					}
					if len(data) > 0 {
						in.Selects = nil
						for i, n := 0, r.Range(1, 2); i < n; i++ {
							in.Selects = append(in.Selects, SItem{lib.Pick(r, []string{"field", "col"}), lib.Pick(r, data)})
						}
						if r.Chance(2, 3) {
							in.Omits = nil
						}
						out_stale = true
					}
				}
			}
		}
		// map updates with keys the statement's schema does not know (1 in 4 on generated types): the Model is a
		// narrower VIEW struct of the table (at least one given key is no field of it), or there is no Model at all
		// (Table(t).Where(..).Updates(map)); Select / Omit keep their forms except "tbl.*" (and "*" in Omit)
		if in.Dyn != nil && !comp && isMapKind(in.Kind) && len(in.Rows) == 1 && len(in.Rows[0].PV) > 0 && r.Chance(1, 4) {
			pvs := in.Rows[0].PV
			if r.Chance(1, 3) {
				in.NoSchema = true
			} else {
				out := pvs[r.Intn(len(pvs))].Field
				in.View = []int{0}
				for _, j := range nonKey(t) {
					if j != out && r.Chance(3, 5) {
						in.View = append(in.View, j)
					}
				}
			}
			for i := range pvs {
				if !inView(in, pvs[i].Field) {
					pvs[i].Spell = "col" // a raw key is the column's name
				}
			}
			if len(in.Selects) == 0 && len(in.Omits) == 0 || r.Chance(1, 3) { // a restricting Select / an Omit over the given keys
				it := SItem{lib.Pick(r, []string{"col", "col", "tabcol"}), pvs[r.Intn(len(pvs))].Field}
				if r.Chance(2, 3) {
					in.Selects, in.Omits = []SItem{it}, nil
					if r.Bool() {
						in.Selects = append(in.Selects, SItem{"col", lib.Pick(r, nonKey(t))})
					}
				} else {
					in.Selects, in.Omits = nil, []SItem{it}
				}
			}
			fix := func(items []SItem, sel bool) {
				for i := range items {
					f := items[i].Form
					if f == "tabstar" || (f == "star" && !sel) {
						items[i].Form = "col"
					}
					if in.NoSchema && f != "col" && f != "unknown" && f != "weird" {
						items[i].Form = "col" // without a schema a name is taken literally: plain column names only
					}
				}
			}
			fix(in.Selects, true)
			fix(in.Omits, false)
		}
		// target rows: a strict subset through the model key and/or a Where
		switch r.Intn(3) {
		case 0:
			in.ModelKey = int64(1 + r.Intn(4))
		case 1:
			in.HasWhere = true
		default:
			in.ModelKey = int64(1 + r.Intn(4))
			in.HasWhere = true
		}
		if edge && r.Chance(1, 4) {
			in.ModelKey = 9 // no such row
		}
		if !comp && r.Chance(1, 4) {
			// a slice model: 2-3 elements mixing key-less and keyed ones in every order, together with a
			// Where matching more rows than the slice's keys
			in.ModelKey = 0
			n := r.Range(2, 3)
			for i := 0; i < n; i++ {
				k := int64(0)
				if r.Chance(3, 5) {
					k = int64(1 + r.Intn(4))
				}
				in.ModelSlice = append(in.ModelSlice, k)
			}
			in.HasWhere = true
		}
		if comp {
			// the model value carries the whole key (one row), or only one member (two rows share it)
			in.ModelKey, in.ModelLoc = int64(1+r.Intn(2)), int64(1+r.Intn(2))
			switch r.Intn(5) {
			case 0:
				in.ModelLoc = 0
			case 1:
				in.ModelKey = 0
			}
			in.HasWhere = r.Chance(1, 3)
		}
		if in.NoSchema {
			in.ModelKey, in.ModelSlice, in.HasWhere = 0, nil, true
		}
		if in.View != nil && in.ModelSlice != nil {
			in.ModelSlice, in.ModelKey = nil, int64(1+r.Intn(4))
		}
		if in.HasWhere {
			for _, id := range stored {
				if r.Bool() {
					in.WhereIDs = append(in.WhereIDs, id)
				}
			}
			if len(in.WhereIDs) == 0 {
				in.WhereIDs = []int64{int64(1 + r.Intn(4))}
			}
			if len(in.WhereIDs) == 4 {
				in.WhereIDs = in.WhereIDs[:3]
			}
		}
	}
	// a struct update whose value is of ANOTHER struct type than the Model (1 in 3 of the struct updates, single-key
	// types): a patch type over the same columns; tracked time fields keep the model's tags, a data field is dropped
	// (1/5) or carries no tag, the model's tags or freshly drawn ones
	if (in.Kind == "updates_struct" || in.Kind == "update_columns_struct") && !comp && len(in.Rows) == 1 && r.Chance(1, 3) {
		var keep []PV
		in.Patch = []PatchF{}
		for _, pv := range in.Rows[0].PV {
			f := t.Fields[pv.Field]
			pf := PatchF{Field: pv.Field, Dash: f.Dash, RO: f.RO, RW: f.RW}
			if f.Auto == "" {
				switch r.Intn(5) {
				case 0:
					continue
				case 1:
					pf.Dash, pf.RO, pf.RW = "", "", ""
				case 2:
				default:
					pf.Dash, pf.RO, pf.RW = "", "", ""
					if r.Chance(1, 6) {
						pf.Dash = lib.Pick(r, []string{"-", "all", "migration"})
					}
					if r.Chance(1, 3) {
						pf.RO = lib.Pick(r, []string{"->", "->:false"})
					}
					if r.Chance(1, 2) {
						pf.RW = lib.Pick(r, []string{"<-", "create", "update", "false", "create,update"})
					}
				}
			}
			in.Patch = append(in.Patch, pf)
			keep = append(keep, pv)
		}
		in.Rows[0].PV = keep
	}
	// dimensions independent of the finisher
	in.NoReturn = r.Chance(1, 3)
	// a statement-cloning step between the chain and the finisher; more often before the finishers that extend the
	// Select list themselves (Save)
	if r.Chance(2, 5) || (strings.HasPrefix(in.Kind, "save") && r.Chance(1, 3)) {
		in.CloneStep = lib.Pick(r, []string{"session", "ctx", "tx"})
		in.CloneAt = lib.Pick(r, []string{"end", "end", "mid"})
	}
	isUpd := strings.HasPrefix(in.Kind, "update")
	switch in.Kind {
	case "create_map":
		in.MapPtr = r.Bool()
	case "create_maps":
		// the slice of maps BY VALUE only without RETURNING: with RETURNING gorm fails to scan the returned
		// keys into a non-pointer []map (Scan error, or a reflect panic) and rolls the insert back — reported
		// to the lead as a defect of the Create path (C03), not a C10 matter
		in.MapPtr = in.NoReturn && r.Bool()
	case "create_batch":
		if in.Batch > 0 && r.Chance(1, 3) {
			in.BatchMode = "session"
		}
		if edge && in.Batch == 0 && r.Chance(1, 8) {
			in.Rows = nil // an empty slice: ErrEmptySlice, nothing written
		}
	}
	if in.Kind == "create_maps" && edge && r.Chance(1, 8) {
		in.Rows = nil
	}
	if isUpd && !in.NoReturn && !in.NoSchema && r.Chance(1, 4) {
		in.Returning = true
	}
	if isUpd && edge && r.Chance(1, 6) {
		// neither a key in the model value nor a condition: ErrMissingWhereClause, nothing written
		in.ModelKey, in.ModelLoc, in.ModelSlice, in.HasWhere, in.WhereIDs = 0, 0, nil, false, nil
	}
	// handle reuse: 1-2 earlier map updates (Update / Updates(map) / UpdateColumn / UpdateColumns(map), own keys and
	// values) through the very handle the measured update is called on, 1 update in 3.  Not inside an open transaction
	// (the table is put back through the only connection) and not on a statement without any condition (the
	// refused earlier update would leave its error on the handle)
	unconditional := in.ModelKey == 0 && in.ModelLoc == 0 && !in.HasWhere
	for _, k := range in.ModelSlice {
		unconditional = unconditional && k == 0
	}
	// Under RETURNING an update scans the returned rows into the Model value (that is what the clause is for), so an
	// earlier update would hand the measured one a different model key: there the Model carries a (single) key already
	keyed := in.ModelSlice == nil && in.ModelKey != 0 && !comp
	if isUpd && in.CloneStep != "tx" && !unconditional && (!in.Returning || keyed) && r.Chance(1, 3) {
		mapRowUpdate = true
		for i, n := 0, r.Range(1, 2); i < n; i++ {
			pk := lib.Pick(r, []string{"update", "update", "updates_map", "update_column", "update_columns_map"})
			// a column update sets SkipHooks on the handle's statement for good: only before column updates
			if in.Kind != "update_column" && in.Kind != "update_columns_struct" && in.Kind != "update_columns_map" {
				pk = lib.Pick(r, []string{"update", "update", "updates_map"})
			}
			n := 1
			if pk == "updates_map" || pk == "update_columns_map" {
				n = r.Range(1, 3)
			}
			row := mapRow(r, t, 0, n, false)
			for j := range row.PV {
				if !inView(in, row.PV[j].Field) {
					row.PV[j].Spell = "col"
				}
			}
			if len(row.PV) > 0 {
				in.Prior = append(in.Prior, PriorOp{pk, row})
			}
		}
		mapRowUpdate = false
		if len(in.Prior) > 0 && keyed && !in.NoReturn && !in.NoSchema && r.Bool() {
			in.Returning = true // the handle carries Clauses(clause.Returning{}) through all of its updates
		}
	}
	return in
}

func shape(in Input) string {
	var sb strings.Builder
	if in.Dyn != nil {
		for _, f := range in.Dyn {
			fmt.Fprintf(&sb, "%s%s%s%s%s,", f.Kind[:1], f.Dash, f.RO, f.RW, f.Auto)
		}
	}
	fmt.Fprintf(&sb, "t%d|%s|sel:", in.Type+1, in.Kind)
	for _, s := range in.Selects {
		fmt.Fprintf(&sb, "%s%d,", s.Form[:1], s.Field)
	}
	sb.WriteString("|om:")
	for _, s := range in.Omits {
		fmt.Fprintf(&sb, "%s%d,", s.Form[:1], s.Field)
	}
	sb.WriteString("|p:")
	for _, row := range in.Rows {
		for _, pv := range row.PV {
			z := "n"
			if pv.Zero {
				z = "z"
			}
			fmt.Fprintf(&sb, "%d%s%s,", pv.Field, z, pv.Spell)
		}
	}
	fmt.Fprintf(&sb, "|nr%v mp%v bm%s rt%v cl%s%s v%v ns%v", in.NoReturn, in.MapPtr, in.BatchMode, in.Returning, in.CloneStep, in.CloneAt, in.View, in.NoSchema)
	fmt.Fprintf(&sb, "|k%d.%d%v|w%v%d|c%v", in.ModelKey, in.ModelLoc, in.ModelSlice, in.HasWhere, len(in.WhereIDs), in.Cols)
	for _, pr := range in.Prior {
		fmt.Fprintf(&sb, "|pr:%s", pr.Kind)
		for _, pv := range pr.Row.PV {
			fmt.Fprintf(&sb, "%d,", pv.Field)
		}
	}
	if in.Patch != nil {
		sb.WriteString("|patch:")
		for _, pf := range in.Patch {
			fmt.Fprintf(&sb, "%d%s%s%s,", pf.Field, pf.Dash, pf.RO, pf.RW)
		}
	}
	return sb.String()
}

// trackedKeyUnselected: the shape of the fixed finding map-tracked-key-unselected (/repo commit
// cef6815): a hook-running map update (Update / Updates(map)) whose map names a tracked update-time
// field with update permission while a non-empty Select list does not name it and no Omit names it.
// Such cases are generated on purpose (stream tracked-key-unselected).
func trackedKeyUnselected(in Input) bool {
	if in.Kind != "update" && in.Kind != "updates_map" || len(in.Selects) == 0 {
		return false
	}
	t := typeOf(in)
	namesField := func(items []SItem, j int) bool {
		for _, s := range items {
			switch s.Form {
			case "star", "tabstar":
				return true
			case "field", "col", "tabcol":
				if s.Field == j {
					return true
				}
			}
		}
		return false
	}
	for _, pv := range in.Rows[0].PV {
		f := t.Fields[pv.Field]
		_, updatable := permOf(f)
		if f.Auto == "update" && hasColumn(f) && updatable && !namesField(in.Selects, pv.Field) && !namesField(in.Omits, pv.Field) {
			return true
		}
	}
	return false
}

// lastKeyless: the shape of the fixed finding slice-model-last-keyless (/repo commit 049875c): a slice
// model with a keyed element and a key-less LAST element. Generated on purpose (stream slice-last-keyless).
func lastKeyless(in Input) bool {
	if n := len(in.ModelSlice); n > 0 && in.ModelSlice[n-1] == 0 {
		for _, k := range in.ModelSlice {
			if k != 0 {
				return true
			}
		}
	}
	return false
}

// sig: no known finding is open for C10.
func sig(in Input) string { return "" }

func main() {
	a := lib.ParseArgs()
	envs := map[bool]*env{false: openEnv(false), true: openEnv(true)}
	out := lib.NewOut(a.Out, "C10")
	out.PerFile = 250

	add := func(kind string, in Input) {
		o := run(envs[in.NoReturn], in)
		nontriv := len(o.Cells) > 0 && (len(in.Selects)+len(in.Omits) > 0 || in.Type != 0 || in.Dyn != nil)
		out.Add(lib.Case{Term: term(in, o), JSON: map[string]interface{}{"input": in, "observed": o},
			Sig: sig(in), Kind: kind, Shape: shape(in), Nontriv: nontriv})
		out.Count("finisher", in.Kind)
		if in.Dyn != nil {
			out.Count("model_type", "generated")
			for _, f := range in.Dyn {
				if f.DBDef {
					c, _ := permOf(f)
					out.Count("db_default_field", fmt.Sprintf("%s creatable=%v", in.Kind, c))
				}
				out.Count("generated_field_tags", "dash="+f.Dash+" ro="+f.RO+" rw="+f.RW)
			}
		} else {
			out.Count("model_type", fmt.Sprintf("M%d", in.Type+1))
			if in.ModelSlice != nil {
				pat := ""
				for _, k := range in.ModelSlice {
					if k == 0 {
						pat += "z"
					} else {
						pat += "k"
					}
				}
				out.Count("slice_model(k=keyed,z=key-less)", pat)
			}
			if isComposite(typeOf(in)) {
				out.Count("composite_model_key", fmt.Sprintf("id=%v locale=%v where=%v", in.ModelKey != 0, in.ModelLoc != 0, in.HasWhere))
			}
		}
		out.Count("selects", fmt.Sprint(len(in.Selects)))
		out.Count("omits", fmt.Sprint(len(in.Omits)))
		for _, s := range append(append([]SItem(nil), in.Selects...), in.Omits...) {
			out.Count("item_form", s.Form)
		}
		out.Count("changed_cells", fmt.Sprint(len(o.Cells)))
		out.Count("dialect_returning", fmt.Sprint(!in.NoReturn))
		out.Count("clone_step", in.CloneStep+"@"+in.CloneAt)
		if len(in.Prior) > 0 {
			out.Count("handle_reuse", fmt.Sprintf("%d earlier updates, returning=%v", len(in.Prior), in.Returning))
		}
		if in.Patch != nil {
			out.Count("patch_type_value", in.Kind)
		}
		if in.NoSchema {
			out.Count("raw_keys", "no schema: "+in.Kind)
		} else if in.View != nil {
			out.Count("raw_keys", "view struct: "+in.Kind)
		}
		{
			t := typeOf(in)
			for _, row := range in.Rows {
				for _, pv := range row.PV {
					if f := t.Fields[pv.Field]; f.Ptr || f.Place != "" {
						st := "value"
						if f.Ptr {
							st = map[bool]string{true: "nil", false: map[bool]string{true: "pointer to zero", false: "pointer to non-zero"}[pv.Zero]}[pv.Nil]
						}
						pl := f.Place
						if pl == "" {
							pl = "top"
						}
						out.Count("pointer_embedded_payload", fmt.Sprintf("%s %s: %s", map[bool]string{true: "map", false: "struct"}[isMapKind(in.Kind)], pl, st))
					}
				}
			}
		}
		if in.Dyn != nil {
			for _, f := range in.Dyn {
				if f.Auto != "" {
					out.Count("tracked_field_type", f.Name+":"+f.Kind+":"+f.GoType)
				}
			}
		}
		for _, row := range in.Rows {
			for _, pv := range row.PV {
				if pv.Form != "" {
					out.Count("map_value_form", pv.Form)
				}
			}
		}
		out.Count("error", fmt.Sprint(o.Err != ""))
		if o.Err != "" {
			msg := o.Err
			if len(msg) > 60 {
				msg = msg[:60]
			}
			out.Count("error_text", msg)
		}
		if o.Setup != "" {
			out.Count("setup_error", o.Setup)
		}
	}
	readCase := func(f string) Input {
		b, err := os.ReadFile(f)
		lib.Must(err)
		var c struct {
			Case struct {
				Input Input `json:"input"`
			} `json:"case"`
		}
		lib.Must(json.Unmarshal(b, &c))
		return c.Case.Input
	}
	if a.Replay != "" {
		add("replay", readCase(a.Replay))
		lib.Must(out.Flush())
		return
	}
	for _, f := range lib.CorpusFiles(a.Corpus) {
		add("corpus", readCase(f))
	}
	r := lib.NewRng(a.Seed)
	budget := 1500
	if a.Tier == "thorough" {
		budget = 30000
	}
	if a.N > 0 {
		budget = a.N
	}
	var dyn *Input
	for i := 0; i < budget; i++ {
		edge := r.Chance(15, 100)
		kind := "main"
		if edge {
			kind = "edge"
		}
		// half of the cases run on generated model types (reflect.StructOf) with random per-field
		// permission tags; a fresh type every 8 such cases
		var d *Input
		if r.Bool() {
			if dyn == nil || r.Chance(1, 8) {
				tbl, fs := genType(r)
				dyn = &Input{Dyn: fs, DynTable: tbl}
			}
			d = dyn
		}
		in := genInput(r, edge, d)
		if trackedKeyUnselected(in) {
			kind = "tracked-key-unselected"
		}
		if out_stale {
			kind = "stale-copy-narrow-select"
		}
		if lastKeyless(in) {
			kind = "slice-last-keyless"
		}
		if in.View != nil || in.NoSchema {
			kind = "raw-keys"
		}
		if in.Patch != nil {
			kind = "patch-type"
		}
		if len(in.Prior) > 0 {
			kind = "handle-reuse"
		}
		add(kind, in)
	}
	out.Extra["rule"] = "a case = one write finisher (Create, Create(&slice)/CreateInBatches, Create from map, upsert UpdateAll / DoUpdates(cols) / DoNothing, Save (also of a pointer to the pointer), Save of a slice mixing stored and fresh keys, Update, Updates struct|map, UpdateColumn, UpdateColumns struct|map, Create(&[]map) with per-key column/field spelling, [Model(&T{}).]Where(2-3 rows).Assign(map).FirstOrCreate|FirstOrInit on a found record) on one of six fixed hand-written model types or (half of the cases) on a GENERATED model type built with reflect.StructOf: key + 3-6 string/int fields, each with an independent random choice of '-' / '-:all' / '-:migration', '->' / '->:false' and '<-' / '<-:create' / '<-:update' / '<-:false' / '<-:create,update', default or custom column, a database-side default `default:(expr)` on 1/4 of the fields, 1/4 of the data fields pointer-typed (*int64, *string, *bool; payload nil / pointer to the zero value / pointer to a non-zero value), fields placed inside an anonymous embedded struct, inside a struct field tagged `embedded` or as the struct's FIRST field (before the key), optional CreatedAt / UpdatedAt / Touched tracked fields of every admissible Go type (time.Time, *time.Time, int, int32, int64, uint, uint32, uint64; seconds by name or tag, milli / nano by tag) with random permissions. The fixed types (together they carry every permission tag <-:create <-:update <-:false <- -> ->:false ->;<-:create - -:migration -:all <-:create,update, custom column names, and auto-time fields as time.Time / unix seconds / milliseconds with and without write permission)) x random Select/Omit lists (0-3 items: '*', 'tbl.*', struct-field spelling, column spelling, 'tbl.col', unknown name) x a statement-cloning step (Session, WithContext, Begin...Commit) between the chain / Select / Omit and the finisher in 2/5 of the cases x payload with zero and non-zero entries (struct: every field; map: 1-4 keys in column or field spelling) x model key (a struct, or a slice of 2-3 structs mixing keyed and key-less elements in every order, always with a Where) and/or Where(row IN subset) selecting a strict subset of the 4 stored rows; the seventh fixed type M7 has a COMPOSITE primary key (ID, Locale) whose stored rows share members pairwise, updated through model values carrying the whole key or one member. Observed: the cell-by-cell diff of the table (raw SELECT) with each changed cell classified now / payload value / other, and gorm's parsed permission flags. Stream raw-keys (1 map update in 4 on generated types): the Model is a narrower VIEW struct of the table (some given key is no field of it) or there is no Model at all (Table(t).Where(..).[Select][Omit].Updates(map) / Update / UpdateColumn(s)), under a restricting Select or an Omit over the given keys; there `tbl.*` in Select and `*` / `tbl.*` in Omit are not generated and a schema-less statement gets plain column names only. Round 7: 1 update in 3 is preceded by 1-2 earlier map updates (Update / Updates(map) / UpdateColumn / UpdateColumns(map), own keys and values) through the very handle it is called on, the table put back in between (under RETURNING only with a keyed Model value, since the clause scans the returned row into it; a column update sets SkipHooks on the handle for good, so column updates precede column updates only; not inside an open transaction, not on unconditional statements); 1 struct update in 3 on single-key types hands Updates / UpdateColumns a struct of ANOTHER type than the Model (a patch type over the same columns: the key, the tracked time fields with the model's tags, each data field dropped, untagged, tagged like the model's or with freshly drawn permission tags). Domain: map keys name existing columns and (for updates) never the primary key; DoUpdates(cols) runs without Select/Omit; the struct payload is of the model type with a zero key; updates always carry a model key or a Where; explicit DoUpdates lists name only columns with create and update permission. distinct = distinct (type, finisher, select, omit, payload zero pattern and spelling, targeting); non-trivial = some cell changed and (a Select/Omit is present or the type carries permission tags)."
	lib.Must(out.Flush())
}
