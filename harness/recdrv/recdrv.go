// Package recdrv is a database/sql driver that wraps mattn/go-sqlite3 and records every
// driver call (kind, connection, statement text, bound values, the tag carried by the
// context), can fail a chosen call, can park calls for schedule control, and counts the
// transactions and statements that are open.
package recdrv

import (
	"context"
	"database/sql"
	"database/sql/driver"
	"errors"
	"fmt"
	"strings"
	"sync"

	sqlite3 "github.com/mattn/go-sqlite3"
)

type ctxKey struct{}

// TagKey is the context key under which a harness stores a string tag; the recorder
// copies ctx.Value(TagKey) into every event so that C18 can see whose context a call got.
var TagKey = ctxKey{}

// Event is one driver call.
type Event struct {
	Seq    int           // index in the log, from 0
	Kind   string        // open begin commit rollback prepare exec query stmt_exec stmt_query stmt_close conn_close
	Conn   int           // connection id
	Tx     int           // transaction id the call belongs to (0 = none)
	Stmt   int           // prepared statement id (0 = none)
	Query  string        // statement text
	Args   []interface{} // bound values
	Tag    string        // context tag ("" if the context has none)
	CtxErr bool          // the context was already done when the call arrived
	Err    string        // error returned ("" = ok)
}

func (e Event) String() string {
	return fmt.Sprintf("#%d %s c%d tx%d s%d %q %v tag=%q err=%q", e.Seq, e.Kind, e.Conn, e.Tx, e.Stmt, e.Query, e.Args, e.Tag, e.Err)
}

// ErrInjected is the base of every injected fault.
var ErrInjected = errors.New("verif: injected driver fault")

// Recorder is shared by all connections of one sql.DB.
type Recorder struct {
	mu        sync.Mutex
	Events    []Event
	nextConn  int
	nextTx    int
	nextStmt  int
	OpenTx    int
	OpenStmts int
	OpenConns int
	// Fault, if set, is consulted (under the lock) before each call is forwarded; a non-nil
	// result is returned instead of performing the call. idx counts only "faultable" calls
	// (begin/commit/rollback/prepare/exec/query/stmt_exec/stmt_query) since the last Reset.
	Fault func(idx int, e *Event) error
	// Gate, if set, is called WITHOUT the lock before a call is forwarded and may block
	// (schedule control). It gets the event as recorded so far.
	Gate func(e Event)
	// After, if set, is called without the lock once the call returned.
	After func(e Event)
	// FakeVersion makes "select sqlite_version()" answer this string (to switch the
	// dialector to its non-RETURNING configuration).
	FakeVersion string
	faultIdx    int
	Recording   bool
}

func NewRecorder() *Recorder { return &Recorder{Recording: true} }

// Reset clears the log and the fault index (open counters are kept).
func (r *Recorder) Reset() {
	r.mu.Lock()
	r.Events = nil
	r.faultIdx = 0
	r.mu.Unlock()
}

// Snapshot returns a copy of the log.
func (r *Recorder) Snapshot() []Event {
	r.mu.Lock()
	defer r.mu.Unlock()
	return append([]Event(nil), r.Events...)
}

func (r *Recorder) Counters() (openTx, openStmts, openConns int) {
	r.mu.Lock()
	defer r.mu.Unlock()
	return r.OpenTx, r.OpenStmts, r.OpenConns
}

func faultable(kind string) bool {
	switch kind {
	case "begin", "commit", "rollback", "prepare", "exec", "query", "stmt_exec", "stmt_query":
		return true
	}
	return false
}

func tagOf(ctx context.Context) (string, bool) {
	if ctx == nil {
		return "", false
	}
	t, _ := ctx.Value(TagKey).(string)
	return t, ctx.Err() != nil
}

func namedToIface(args []driver.NamedValue) []interface{} {
	out := make([]interface{}, len(args))
	for i, a := range args {
		out[i] = a.Value
	}
	return out
}

// start records the call and decides on an injected fault; returns the event index.
func (r *Recorder) start(ctx context.Context, e Event) (int, error) {
	e.Tag, e.CtxErr = tagOf(ctx)
	r.mu.Lock()
	var ferr error
	if faultable(e.Kind) {
		if r.Fault != nil {
			ferr = r.Fault(r.faultIdx, &e)
		}
		r.faultIdx++
	}
	idx := -1
	if r.Recording {
		e.Seq = len(r.Events)
		if ferr != nil {
			e.Err = ferr.Error()
		}
		r.Events = append(r.Events, e)
		idx = e.Seq
	}
	gate := r.Gate
	r.mu.Unlock()
	if gate != nil && ferr == nil {
		gate(e)
	}
	return idx, ferr
}

func (r *Recorder) finish(idx int, err error) {
	r.mu.Lock()
	var e Event
	if idx >= 0 && idx < len(r.Events) {
		if err != nil {
			r.Events[idx].Err = err.Error()
		}
		e = r.Events[idx]
	}
	after := r.After
	r.mu.Unlock()
	if after != nil {
		after(e)
	}
}

// ---------------------------------------------------------------------------

// Connector opens wrapped connections; use sql.OpenDB(recdrv.NewConnector(dsn, rec)).
type Connector struct {
	DSN string
	Rec *Recorder
	drv *sqlite3.SQLiteDriver
}

func NewConnector(dsn string, rec *Recorder) *Connector {
	return &Connector{DSN: dsn, Rec: rec, drv: &sqlite3.SQLiteDriver{}}
}

// Open is a convenience: a *sql.DB on a fresh recorder.
func Open(dsn string) (*sql.DB, *Recorder) {
	rec := NewRecorder()
	return sql.OpenDB(NewConnector(dsn, rec)), rec
}

func (c *Connector) Connect(ctx context.Context) (driver.Conn, error) {
	raw, err := c.drv.Open(c.DSN)
	if err != nil {
		return nil, err
	}
	c.Rec.mu.Lock()
	c.Rec.nextConn++
	id := c.Rec.nextConn
	c.Rec.OpenConns++
	c.Rec.mu.Unlock()
	return &conn{raw: raw.(*sqlite3.SQLiteConn), id: id, rec: c.Rec}, nil
}

func (c *Connector) Driver() driver.Driver { return drv{c} }

type drv struct{ c *Connector }

func (d drv) Open(name string) (driver.Conn, error) { return d.c.Connect(context.Background()) }

type conn struct {
	raw *sqlite3.SQLiteConn
	id  int
	rec *Recorder
	tx  int // current transaction id
}

var (
	_ driver.ConnBeginTx        = (*conn)(nil)
	_ driver.ConnPrepareContext = (*conn)(nil)
	_ driver.ExecerContext      = (*conn)(nil)
	_ driver.QueryerContext     = (*conn)(nil)
	_ driver.Pinger             = (*conn)(nil)
	_ driver.SessionResetter    = (*conn)(nil)
)

func (c *conn) Ping(ctx context.Context) error { return c.raw.Ping(ctx) }

func (c *conn) ResetSession(ctx context.Context) error { return nil }

func (c *conn) Prepare(query string) (driver.Stmt, error) {
	return c.PrepareContext(context.Background(), query)
}

func (c *conn) Begin() (driver.Tx, error) {
	return c.BeginTx(context.Background(), driver.TxOptions{})
}

func (c *conn) Close() error {
	idx, _ := c.rec.start(nil, Event{Kind: "conn_close", Conn: c.id})
	err := c.raw.Close()
	c.rec.mu.Lock()
	c.rec.OpenConns--
	c.rec.mu.Unlock()
	c.rec.finish(idx, err)
	return err
}

func (c *conn) BeginTx(ctx context.Context, opts driver.TxOptions) (driver.Tx, error) {
	c.rec.mu.Lock()
	c.rec.nextTx++
	txid := c.rec.nextTx
	c.rec.mu.Unlock()
	idx, ferr := c.rec.start(ctx, Event{Kind: "begin", Conn: c.id, Tx: txid})
	if ferr != nil {
		return nil, ferr
	}
	t, err := c.raw.BeginTx(ctx, opts)
	c.rec.finish(idx, err)
	if err != nil {
		return nil, err
	}
	c.tx = txid
	c.rec.mu.Lock()
	c.rec.OpenTx++
	c.rec.mu.Unlock()
	return &tx{raw: t, c: c, id: txid}, nil
}

type tx struct {
	raw  driver.Tx
	c    *conn
	id   int
	done bool
}

func (t *tx) end(kind string, f func() error) error {
	idx, ferr := t.c.rec.start(nil, Event{Kind: kind, Conn: t.c.id, Tx: t.id})
	if ferr != nil {
		// an injected COMMIT/ROLLBACK failure: the real transaction is rolled back so the
		// connection is reusable, as a server that failed the commit would do.
		if !t.done {
			t.raw.Rollback()
			t.finishTx()
		}
		return ferr
	}
	err := f()
	t.c.rec.finish(idx, err)
	if !t.done {
		t.finishTx()
	}
	return err
}

func (t *tx) finishTx() {
	t.done = true
	t.c.tx = 0
	t.c.rec.mu.Lock()
	t.c.rec.OpenTx--
	t.c.rec.mu.Unlock()
}

func (t *tx) Commit() error   { return t.end("commit", t.raw.Commit) }
func (t *tx) Rollback() error { return t.end("rollback", t.raw.Rollback) }

func (c *conn) fakeVersion(query string) (string, bool) {
	if c.rec.FakeVersion != "" && strings.EqualFold(strings.TrimSpace(query), "select sqlite_version()") {
		return "select '" + c.rec.FakeVersion + "'", true
	}
	return query, false
}

func (c *conn) ExecContext(ctx context.Context, query string, args []driver.NamedValue) (driver.Result, error) {
	idx, ferr := c.rec.start(ctx, Event{Kind: "exec", Conn: c.id, Tx: c.tx, Query: query, Args: namedToIface(args)})
	if ferr != nil {
		return nil, ferr
	}
	res, err := c.raw.ExecContext(ctx, query, args)
	c.rec.finish(idx, err)
	return res, err
}

func (c *conn) QueryContext(ctx context.Context, query string, args []driver.NamedValue) (driver.Rows, error) {
	q, _ := c.fakeVersion(query)
	idx, ferr := c.rec.start(ctx, Event{Kind: "query", Conn: c.id, Tx: c.tx, Query: query, Args: namedToIface(args)})
	if ferr != nil {
		return nil, ferr
	}
	rows, err := c.raw.QueryContext(ctx, q, args)
	c.rec.finish(idx, err)
	return rows, err
}

func (c *conn) PrepareContext(ctx context.Context, query string) (driver.Stmt, error) {
	c.rec.mu.Lock()
	c.rec.nextStmt++
	sid := c.rec.nextStmt
	c.rec.mu.Unlock()
	idx, ferr := c.rec.start(ctx, Event{Kind: "prepare", Conn: c.id, Tx: c.tx, Stmt: sid, Query: query})
	if ferr != nil {
		return nil, ferr
	}
	s, err := c.raw.PrepareContext(ctx, query)
	c.rec.finish(idx, err)
	if err != nil {
		return nil, err
	}
	c.rec.mu.Lock()
	c.rec.OpenStmts++
	c.rec.mu.Unlock()
	return &stmt{raw: s.(*sqlite3.SQLiteStmt), c: c, id: sid, query: query}, nil
}

type stmt struct {
	raw    *sqlite3.SQLiteStmt
	c      *conn
	id     int
	query  string
	closed bool
}

var (
	_ driver.StmtExecContext  = (*stmt)(nil)
	_ driver.StmtQueryContext = (*stmt)(nil)
)

func (s *stmt) Close() error {
	idx, _ := s.c.rec.start(nil, Event{Kind: "stmt_close", Conn: s.c.id, Stmt: s.id, Query: s.query})
	err := s.raw.Close()
	if !s.closed {
		s.closed = true
		s.c.rec.mu.Lock()
		s.c.rec.OpenStmts--
		s.c.rec.mu.Unlock()
	}
	s.c.rec.finish(idx, err)
	return err
}

func (s *stmt) NumInput() int { return s.raw.NumInput() }

func toNamed(args []driver.Value) []driver.NamedValue {
	out := make([]driver.NamedValue, len(args))
	for i, a := range args {
		out[i] = driver.NamedValue{Ordinal: i + 1, Value: a}
	}
	return out
}

func (s *stmt) Exec(args []driver.Value) (driver.Result, error) {
	return s.ExecContext(context.Background(), toNamed(args))
}
func (s *stmt) Query(args []driver.Value) (driver.Rows, error) {
	return s.QueryContext(context.Background(), toNamed(args))
}

func (s *stmt) ExecContext(ctx context.Context, args []driver.NamedValue) (driver.Result, error) {
	idx, ferr := s.c.rec.start(ctx, Event{Kind: "stmt_exec", Conn: s.c.id, Tx: s.c.tx, Stmt: s.id, Query: s.query, Args: namedToIface(args)})
	if ferr != nil {
		return nil, ferr
	}
	res, err := s.raw.ExecContext(ctx, args)
	s.c.rec.finish(idx, err)
	return res, err
}

func (s *stmt) QueryContext(ctx context.Context, args []driver.NamedValue) (driver.Rows, error) {
	idx, ferr := s.c.rec.start(ctx, Event{Kind: "stmt_query", Conn: s.c.id, Tx: s.c.tx, Stmt: s.id, Query: s.query, Args: namedToIface(args)})
	if ferr != nil {
		return nil, ferr
	}
	rows, err := s.raw.QueryContext(ctx, args)
	s.c.rec.finish(idx, err)
	return rows, err
}
