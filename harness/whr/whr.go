// Package whr: generators shared by the C02 / C08 / C09 harnesses — atoms over a small table,
// boolean trees printed as raw SQL with hostile formatting, condition units in every form gorm
// accepts, chains of Where/Not/Or calls, and their Gallina terms for Where_Model.
package whr

import (
	"database/sql"
	"fmt"
	"reflect"
	"sort"
	"strings"

	"gorm.io/gorm"
	"gorm.io/gorm/clause"

	"verifharness/lib"
)

// Atom is one comparison on the test table. ID is its atom id in Coq; NegID the id of the atom
// gorm renders when it negates the structured form (NegationBuild).
type Atom struct {
	ID    int      `json:"id"`
	Col   string   `json:"col"`
	Op    string   `json:"op"` // eq neq lt gt lte gte in like isnull
	IsStr bool     `json:"is_str"`
	I     int64    `json:"i"`
	S     string   `json:"s"`
	IL    []int64  `json:"il"`
	SL    []string `json:"sl"`
	// Null (string in-lists): the list ends with a NULL element
	Null bool `json:"null,omitempty"`
}

func (a Atom) NegID() int { return a.ID + 50 }

func sqlLit(s string) string { return "'" + strings.ReplaceAll(s, "'", "''") + "'" }

// explained literal, as gorm's logger.ExplainSQL prints it for the SQLite dialector
func explLit(s string) string { return "\"" + strings.ReplaceAll(s, "\"", "\"\"") + "\"" }

// RawText: the atom written by a user as SQL with inline literals.
func (a Atom) RawText() string {
	switch a.Op {
	case "inempty":
		// IN over an empty list: gorm writes (NULL), never true
		return a.Col + " IN (NULL)"
	case "isnull":
		return a.Col + " IS NULL"
	case "in":
		parts := []string{}
		if a.IsStr {
			for _, s := range a.SL {
				parts = append(parts, sqlLit(s))
			}
			if a.Null {
				parts = append(parts, "NULL")
			}
		} else {
			for _, i := range a.IL {
				parts = append(parts, fmt.Sprint(i))
			}
		}
		return a.Col + " IN (" + strings.Join(parts, ",") + ")"
	}
	op := map[string]string{"eq": "=", "neq": "<>", "lt": "<", "gt": ">", "lte": "<=", "gte": ">=", "like": "LIKE"}[a.Op]
	if a.IsStr {
		return a.Col + " " + op + " " + sqlLit(a.S)
	}
	return fmt.Sprintf("%s %s %d", a.Col, op, a.I)
}

// TmplText: the atom as a template with one placeholder (`?` or `@name`), and its argument.
func (a Atom) TmplText(named bool) (tmpl, explained string, arg interface{}, name string) {
	name = fmt.Sprintf("p%d", a.ID)
	ph := "?"
	if named {
		ph = "@" + name
	}
	switch a.Op {
	case "inempty":
		return a.Col + " IN " + ph, a.Col + " IN (NULL)", a.emptyList(), name
	case "isnull":
		return a.Col + " IS NULL", a.Col + " IS NULL", nil, ""
	case "in":
		if a.IsStr {
			parts := []string{}
			for _, s := range a.SL {
				parts = append(parts, explLit(s))
			}
			if a.Null {
				parts = append(parts, "NULL")
				return a.Col + " IN " + ph, a.Col + " IN (" + strings.Join(parts, ",") + ")", a.listWithNull(), name
			}
			return a.Col + " IN " + ph, a.Col + " IN (" + strings.Join(parts, ",") + ")", a.SL, name
		}
		parts := []string{}
		for _, i := range a.IL {
			parts = append(parts, fmt.Sprint(i))
		}
		return a.Col + " IN " + ph, a.Col + " IN (" + strings.Join(parts, ",") + ")", a.IL, name
	}
	op := map[string]string{"eq": "=", "neq": "<>", "lt": "<", "gt": ">", "lte": "<=", "gte": ">=", "like": "LIKE"}[a.Op]
	if a.IsStr {
		return a.Col + " " + op + " " + ph, a.Col + " " + op + " " + explLit(a.S), a.S, name
	}
	return a.Col + " " + op + " " + ph, fmt.Sprintf("%s %s %d", a.Col, op, a.I), a.I, name
}

// Expression: the atom as a clause.* value.
func (a Atom) Expression() clause.Expression {
	var v interface{} = a.I
	if a.IsStr {
		v = a.S
	}
	switch a.Op {
	case "eq":
		return clause.Eq{Column: a.Col, Value: v}
	case "neq":
		return clause.Neq{Column: a.Col, Value: v}
	case "lt":
		return clause.Lt{Column: a.Col, Value: v}
	case "gt":
		return clause.Gt{Column: a.Col, Value: v}
	case "lte":
		return clause.Lte{Column: a.Col, Value: v}
	case "gte":
		return clause.Gte{Column: a.Col, Value: v}
	case "like":
		return clause.Like{Column: a.Col, Value: v}
	case "isnull":
		return clause.Eq{Column: a.Col, Value: a.nullValue()}
	case "inempty":
		return clause.IN{Column: a.Col, Values: []interface{}{}}
	case "in":
		vals := []interface{}{}
		if a.IsStr {
			for _, s := range a.SL {
				vals = append(vals, s)
			}
			if a.Null {
				vals = append(vals, nil)
			}
		} else {
			for _, i := range a.IL {
				vals = append(vals, i)
			}
		}
		return clause.IN{Column: a.Col, Values: vals}
	}
	panic("op")
}

// MapValue: the atom as a map entry (eq / isnull / in only).
// StructOK: the atom can be a field of a struct condition: an equality whose value is not the
// zero value of its field (a pointer field pointing at "" is not zero).
func (a Atom) StructOK() bool {
	return a.Op == "eq" && a.Col != "id" && (a.Col == "nick" || a.IsStr && a.S != "" || !a.IsStr && a.I != 0)
}
func (a Atom) MapOK() bool {
	return a.Op == "eq" || a.Op == "isnull" || a.Op == "in" || a.Op == "inempty"
}
func (a Atom) emptyList() interface{} {
	if a.IsStr {
		return []string{}
	}
	return []int64{}
}
func (a Atom) MapValue() interface{} {
	switch a.Op {
	case "inempty":
		return a.emptyList()
	case "isnull":
		return a.nullValue()
	case "in":
		if a.IsStr && a.Null {
			return a.listWithNull()
		}
		if a.IsStr {
			return a.SL
		}
		return a.IL
	}
	if a.IsStr {
		return a.S
	}
	return a.I
}

// listWithNull: the string list followed by a nil element (only []interface{} can hold it)
func (a Atom) listWithNull() []interface{} {
	out := []interface{}{}
	for _, s := range a.SL {
		out = append(out, s)
	}
	return append(out, nil)
}

// nullValue: the Go value that says NULL for an IS NULL atom: nil, or (atoms with an odd id) a
// driver.Valuer whose value is NULL
func (a Atom) nullValue() interface{} {
	if a.ID%2 == 1 {
		return sql.NullString{}
	}
	return nil
}

// ---- boolean trees printed as raw SQL ----

type BTree struct {
	Kind string   `json:"k"` // atom and or not
	Atom int      `json:"a,omitempty"`
	Kids []*BTree `json:"c,omitempty"`
}

func GenTree(r *lib.Rng, atoms []Atom, depth int) *BTree {
	if depth == 0 || r.Chance(2, 5) {
		return &BTree{Kind: "atom", Atom: lib.Pick(r, atoms).ID}
	}
	switch r.Intn(5) {
	case 0:
		return &BTree{Kind: "not", Kids: []*BTree{GenTree(r, atoms, depth-1)}}
	case 1, 2:
		n := r.Range(2, 3)
		t := &BTree{Kind: "and"}
		for i := 0; i < n; i++ {
			t.Kids = append(t.Kids, GenTree(r, atoms, depth-1))
		}
		return t
	default:
		n := r.Range(2, 3)
		t := &BTree{Kind: "or"}
		for i := 0; i < n; i++ {
			t.Kids = append(t.Kids, GenTree(r, atoms, depth-1))
		}
		return t
	}
}

func (t *BTree) HasConnective() bool { return t.Kind == "and" || t.Kind == "or" }

// Style of one raw rendering.
type Style struct {
	Args  string // inline | qmark | named
	WS    []string
	Cases []string
	Paren int // chance (in 10) of redundant parentheses
}

var wsAll = []string{" ", " ", " ", "  ", "\t", "\n", " \t"}

func kw(r *lib.Rng, word string, hostile bool) string {
	if !hostile {
		return word
	}
	switch r.Intn(4) {
	case 0:
		return strings.ToLower(word)
	case 1:
		return strings.ToUpper(word[:1]) + strings.ToLower(word[1:])
	case 2:
		return strings.ToLower(word[:1]) + word[1:]
	}
	return word
}

func ws(r *lib.Rng, hostile bool) string {
	if !hostile {
		return " "
	}
	return lib.Pick(r, wsAll)
}

// Print renders the tree twice in lock-step: tmpl (what is passed to gorm) and txt (what the
// statement looks like once gorm's Explain has inlined the arguments).
type Printed struct {
	Tmpl string
	Txt  string
	Args []interface{}
	// ArgKinds[i]: the Go value that carries Args[i]: "" as is | nullstr sql.NullString |
	// nullint sql.NullInt64 | bytes []byte | ptr pointer to the value
	ArgKinds []string
	Named    map[string]interface{}
}

func PrintTree(r *lib.Rng, t *BTree, byID map[int]Atom, argStyle string, hostile bool) Printed {
	p := Printed{Named: map[string]interface{}{}}
	var rec func(t *BTree, prec int) (string, string)
	// prec: 0 = top/OR context, 1 = AND context, 2 = NOT context
	rec = func(t *BTree, prec int) (string, string) {
		var a, b string
		switch t.Kind {
		case "atom":
			at := byID[t.Atom]
			switch argStyle {
			case "inline":
				a = at.RawText()
				b = a
			default:
				tm, ex, arg, name := at.TmplText(argStyle == "named")
				a, b = tm, ex
				if at.Op != "isnull" {
					if argStyle == "named" {
						p.Named[name] = arg
					} else {
						kind := ""
						switch {
						case (at.Op == "in" || at.Op == "inempty") && r.Chance(1, 2):
							// the list placeholder inside parentheses: gorm expands it in place
							a = strings.Replace(a, "IN ?", "IN (?)", 1)
						case (at.Op == "in" || at.Op == "inempty") && r.Chance(1, 3):
							// the list as []interface{} (Statement.AddVar has an arm of its own for it)
							kind = "ifaceslice"
						case at.Op == "in" || at.Op == "inempty":
						case !r.Chance(1, 4):
						case at.IsStr:
							// ([]byte is left to C01: SQLite compares a BLOB with TEXT as unequal)
							kind = lib.Pick(r, []string{"nullstr", "ptr"})
						default:
							kind = lib.Pick(r, []string{"nullint", "ptr"})
						}
						p.Args = append(p.Args, arg)
						p.ArgKinds = append(p.ArgKinds, kind)
					}
				}
			}
			if hostile && r.Chance(1, 10) {
				a, b = "("+a+")", "("+b+")"
			}
			return a, b
		case "not":
			ka, kb := rec(t.Kids[0], 2)
			n := kw(r, "NOT", hostile)
			w := ws(r, hostile)
			return n + w + ka, n + w + kb
		}
		word, myprec := "AND", 1
		if t.Kind == "or" {
			word, myprec = "OR", 0
		}
		for i, k := range t.Kids {
			ka, kb := rec(k, myprec)
			if i > 0 {
				sep := ws(r, hostile) + kw(r, word, hostile) + ws(r, hostile)
				a += sep
				b += sep
			}
			a += ka
			b += kb
		}
		if myprec < prec || (hostile && r.Chance(1, 8)) {
			a, b = "("+a+")", "("+b+")"
		}
		return a, b
	}
	p.Tmpl, p.Txt = rec(t, 0)
	return p
}

// ---- units and chains ----

type CExpr struct {
	Kind string   `json:"k"` // atom raw and or not
	Atom int      `json:"a,omitempty"`
	Tmpl string   `json:"tmpl,omitempty"`
	Kids []*CExpr `json:"c,omitempty"`
}

type Unit struct {
	Form    string                 `json:"form"` // raw rawargs named map struct expr group empty_string empty_map empty_struct
	Tmpl    string                 `json:"tmpl,omitempty"`
	Txt     string                 `json:"txt,omitempty"`
	Args    []interface{}          `json:"args,omitempty"`
	Named   map[string]interface{} `json:"named,omitempty"`
	Members []int                  `json:"members,omitempty"` // atom ids (map: sorted by column name; struct: schema order)
	// Via: the Go value that carries the unit to gorm when it is not the default one.
	//  map:    "" map[string]interface{} | colarg Where("col", v) | mapss map[string]string |
	//          mapii map[interface{}]interface{} | pk Where(k) | pkstr Where("k") | pkstrsign Where("+k") |
	//          pkslice Where([]int64) | pkargs Where(k1, k2, ...) (several bare keys as separate arguments)
	//  expr:   "" | args (a clause.And of >= 2 operands given as separate arguments: Where(x, y, ...))
	//  struct: "" | sel (the members' columns selected by name: zero values count) | slicesel (the same
	//          through a slice of one struct) |
	//          slice (a slice of structs, Elems = members per element)
	//  named:  "" map | sqlnamed sql.Named(...) arguments | structarg / structptr a struct (pointer) whose fields are the arguments
	//  empty_map: "" | mapss | nilmap ; empty_struct: "" | slice ; group with no calls: empty group
	Via   string  `json:"via,omitempty"`
	Elems [][]int `json:"elems,omitempty"`
	// ArgKinds: see Printed.ArgKinds (raw units with ? arguments)
	ArgKinds []string `json:"arg_kinds,omitempty"`
	CE       *CExpr   `json:"ce,omitempty"`
	Calls    []Call   `json:"calls,omitempty"`
	Tree     *BTree   `json:"tree,omitempty"`
}

type Call struct {
	Kind   string `json:"kind"` // where not or
	Inline bool   `json:"inline,omitempty"`
	Unit   Unit   `json:"unit"`
}

// T is the plain test model; TS the same with a soft-delete column.
type T struct {
	ID   int64 `gorm:"primaryKey"`
	Age  int64
	Name string
	Nick *string
	Mark int64
}

func (T) TableName() string { return "ts" }

// TS is T with a soft-delete column (C08, C09).
type TS struct {
	ID        int64 `gorm:"primaryKey"`
	Age       int64
	Name      string
	Nick      *string
	Mark      int64
	DeletedAt gorm.DeletedAt
}

func (TS) TableName() string { return "tss" }

// The other ways a model can declare its soft-delete column; all map to table tss.
// TSP: pointer-typed field.
type TSP struct {
	ID        int64 `gorm:"primaryKey"`
	Age       int64
	Name      string
	Nick      *string
	Mark      int64
	DeletedAt *gorm.DeletedAt
}

func (TSP) TableName() string { return "tss" }

// SoftPart carries the column for TSE.
type SoftPart struct {
	DeletedAt gorm.DeletedAt
}

// TSE: the field comes from an embedded struct.
type TSE struct {
	ID   int64 `gorm:"primaryKey"`
	Age  int64
	Name string
	Nick *string
	Mark int64
	SoftPart
}

func (TSE) TableName() string { return "tss" }

// TSN: the field has another name and names its column by tag.
type TSN struct {
	ID      int64 `gorm:"primaryKey"`
	Age     int64
	Name    string
	Nick    *string
	Mark    int64
	Removed gorm.DeletedAt `gorm:"column:deleted_at"`
}

func (TSN) TableName() string { return "tss" }

// TSZ: the column has a non-NULL zero value: live rows hold '1970-01-01 00:00:01' (own table).
type TSZ struct {
	ID        int64 `gorm:"primaryKey"`
	Age       int64
	Name      string
	Nick      *string
	Mark      int64
	DeletedAt gorm.DeletedAt `gorm:"zeroValue:1970-01-01 00:00:01;default:'1970-01-01 00:00:01'"`
}

func (TSZ) TableName() string { return "tsz" }

// TSW / TSC / TSR: the soft-delete column carries a field permission: write-only (never read back),
// create-only (not updatable by Updates / Save), read-only. The soft delete itself does not depend
// on them.
type TSW struct {
	ID        int64 `gorm:"primaryKey"`
	Age       int64
	Name      string
	Nick      *string
	Mark      int64
	DeletedAt gorm.DeletedAt `gorm:"->:false;<-"`
}

func (TSW) TableName() string { return "tss" }

type TSC struct {
	ID        int64 `gorm:"primaryKey"`
	Age       int64
	Name      string
	Nick      *string
	Mark      int64
	DeletedAt gorm.DeletedAt `gorm:"<-:create"`
}

func (TSC) TableName() string { return "tss" }

type TSR struct {
	ID        int64 `gorm:"primaryKey"`
	Age       int64
	Name      string
	Nick      *string
	Mark      int64
	DeletedAt gorm.DeletedAt `gorm:"->"`
}

func (TSR) TableName() string { return "tss" }

// ZeroValueLive is what the column of a live TSZ row holds.
const ZeroValueLive = "1970-01-01 00:00:01"

// SoftVariants: name -> zero value of the model type.
var SoftVariants = map[string]interface{}{"": TS{}, "ptr": TSP{}, "embedded": TSE{}, "named": TSN{}, "zerovalue": TSZ{},
	"writeonly": TSW{}, "createonly": TSC{}, "readonly": TSR{}}

// SoftVariant selects the soft-delete model NewModel / NewSlice / Table use (with UseSoft).
var SoftVariant string

// NewOne / NewSlice / IDsOf / IDOf: reflection helpers so that a harness can run one protocol over
// every variant.
func NewSoftOne(variant string) interface{} {
	return reflect.New(reflect.TypeOf(SoftVariants[variant])).Interface()
}
func NewSoftSlice(variant string) interface{} {
	return reflect.New(reflect.SliceOf(reflect.TypeOf(SoftVariants[variant]))).Interface()
}
func IDOf(one interface{}) int64 {
	return reflect.Indirect(reflect.ValueOf(one)).FieldByName("ID").Int()
}
func IDsOf(slicePtr interface{}) []int64 {
	v := reflect.Indirect(reflect.ValueOf(slicePtr))
	out := []int64{}
	for i := 0; i < v.Len(); i++ {
		out = append(out, v.Index(i).FieldByName("ID").Int())
	}
	return out
}

// UseSoft selects the model the struct units, destinations and Model() calls use.
var UseSoft bool

func Table() string {
	if UseSoft {
		if SoftVariant == "zerovalue" {
			return "tsz"
		}
		return "tss"
	}
	return "ts"
}

// NewModel returns a pointer to a zero model value, NewSlice a pointer to an empty slice.
func NewModel() interface{} {
	if UseSoft {
		return NewSoftOne(SoftVariant)
	}
	return &T{}
}
func NewSlice() interface{} {
	if UseSoft {
		return NewSoftSlice(SoftVariant)
	}
	return &[]T{}
}

// IDs extracts the primary keys from a slice filled by Find.
func IDs(slice interface{}) []int64 {
	out := []int64{}
	switch v := slice.(type) {
	case *[]T:
		for _, x := range *v {
			out = append(out, x.ID)
		}
	case *[]TS:
		for _, x := range *v {
			out = append(out, x.ID)
		}
	}
	return out
}

// StructCond builds the struct condition in the selected model type.
func StructCond(members []Atom) interface{} {
	t := StructOf(members)
	if UseSoft {
		return &TS{Age: t.Age, Name: t.Name, Nick: t.Nick}
	}
	return &t
}

// StructOf builds the struct condition for eq-atoms on distinct columns with non-zero values.
func StructOf(members []Atom) T {
	var t T
	for _, a := range members {
		switch a.Col {
		case "age":
			t.Age = a.I
		case "name":
			t.Name = a.S
		case "nick":
			s := a.S
			t.Nick = &s
		}
	}
	return t
}

// StructSlice: a slice of struct conditions (every non-zero field of every element is ANDed).
func StructSlice(elems [][]int, byID map[int]Atom) interface{} {
	if UseSoft {
		out := []TS{}
		for _, e := range elems {
			ms := []Atom{}
			for _, id := range e {
				ms = append(ms, byID[id])
			}
			t := StructOf(ms)
			out = append(out, TS{Age: t.Age, Name: t.Name, Nick: t.Nick})
		}
		return out
	}
	out := []T{}
	for _, e := range elems {
		ms := []Atom{}
		for _, id := range e {
			ms = append(ms, byID[id])
		}
		out = append(out, StructOf(ms))
	}
	return out
}

var structOrder = map[string]int{"age": 0, "name": 1, "nick": 2}

func (ce *CExpr) Build(byID map[int]Atom) clause.Expression {
	switch ce.Kind {
	case "atom":
		return byID[ce.Atom].Expression()
	case "raw":
		return clause.Expr{SQL: ce.Tmpl}
	}
	kids := make([]clause.Expression, len(ce.Kids))
	for i, k := range ce.Kids {
		kids[i] = k.Build(byID)
	}
	switch ce.Kind {
	case "and":
		return clause.And(kids...)
	case "or":
		return clause.Or(kids...)
	}
	return clause.Not(kids...)
}

// Apply adds the call to a gorm chain.
func (c Call) Apply(db *gorm.DB, tx *gorm.DB, byID map[int]Atom) *gorm.DB {
	q, args := c.Unit.QueryArgs(db, byID)
	switch c.Kind {
	case "where":
		return tx.Where(q, args...)
	case "not":
		return tx.Not(q, args...)
	}
	return tx.Or(q, args...)
}

func asInt64(v interface{}) int64 {
	switch x := v.(type) {
	case int64:
		return x
	case int:
		return int64(x)
	case float64:
		return int64(x)
	}
	return 0
}

// wrapValue: the Go value of the given kind that carries v to gorm.
func wrapValue(v interface{}, kind string) interface{} {
	switch kind {
	case "nullstr":
		return sql.NullString{String: fmt.Sprint(v), Valid: true}
	case "bytes":
		return []byte(fmt.Sprint(v))
	case "nullint":
		return sql.NullInt64{Int64: asInt64(v), Valid: true}
	case "ptr":
		if s, ok := v.(string); ok {
			return &s
		}
		n := asInt64(v)
		return &n
	case "ifaceslice":
		rv := reflect.ValueOf(v)
		if rv.Kind() != reflect.Slice {
			return v
		}
		out := make([]interface{}, rv.Len())
		for i := range out {
			out[i] = rv.Index(i).Interface()
		}
		return out
	}
	return v
}

// namedStruct: the named arguments as the fields of a struct value (NamedExpr reads exported fields)
func namedStruct(named map[string]interface{}, ptr bool) interface{} {
	keys := []string{}
	for k := range named {
		keys = append(keys, k)
	}
	sort.Strings(keys)
	fields := []reflect.StructField{}
	for _, k := range keys {
		fields = append(fields, reflect.StructField{Name: k, Type: reflect.TypeOf(named[k])})
	}
	st := reflect.New(reflect.StructOf(fields))
	for i, k := range keys {
		st.Elem().Field(i).Set(reflect.ValueOf(named[k]))
	}
	if ptr {
		return st.Interface()
	}
	return st.Elem().Interface()
}

// ExportNamed: placeholders @p<k> become @P<k> so that a struct can carry the arguments
func (u *Unit) ExportNamed() {
	m := map[string]interface{}{}
	for k, v := range u.Named {
		m["P"+k[1:]] = v
		u.Tmpl = strings.ReplaceAll(u.Tmpl, "@"+k, "@P"+k[1:])
	}
	u.Named = m
}
func wrapArgs(args []interface{}, kinds []string) []interface{} {
	if len(kinds) != len(args) {
		return args
	}
	out := make([]interface{}, len(args))
	for i, a := range args {
		out[i] = wrapValue(a, kinds[i])
	}
	return out
}

// QueryArgs: the (query, args...) pair passed to Where/Not/Or/Find.
func (u Unit) QueryArgs(db *gorm.DB, byID map[int]Atom) (interface{}, []interface{}) {
	switch u.Form {
	case "raw", "rawargs", "empty_string":
		return u.Tmpl, wrapArgs(u.Args, u.ArgKinds)
	case "named":
		if u.Via == "sqlnamed" {
			keys := []string{}
			for k := range u.Named {
				keys = append(keys, k)
			}
			sort.Strings(keys)
			args := []interface{}{}
			for _, k := range keys {
				args = append(args, sql.Named(k, u.Named[k]))
			}
			return u.Tmpl, args
		}
		if u.Via == "structarg" || u.Via == "structptr" {
			return u.Tmpl, []interface{}{namedStruct(u.Named, u.Via == "structptr")}
		}
		return u.Tmpl, []interface{}{u.Named}
	case "map", "empty_map":
		switch u.Via {
		case "colarg":
			a := byID[u.Members[0]]
			return a.Col, []interface{}{a.MapValue()}
		case "mapss":
			m := map[string]string{}
			for _, id := range u.Members {
				m[byID[id].Col] = byID[id].S
			}
			return m, nil
		case "mapii":
			m := map[interface{}]interface{}{}
			for _, id := range u.Members {
				m[byID[id].Col] = byID[id].MapValue()
			}
			return m, nil
		case "pk":
			return byID[u.Members[0]].I, nil
		case "pkstr":
			return fmt.Sprint(byID[u.Members[0]].I), nil
		case "pkstrsign":
			// a numeric string with an explicit sign is a primary key too
			return fmt.Sprintf("%+d", byID[u.Members[0]].I), nil
		case "pkslice":
			return byID[u.Members[0]].IL, nil
		case "pkargs":
			// the keys as separate bare arguments: Where(k1, k2, ...)
			il := byID[u.Members[0]].IL
			rest := []interface{}{}
			for _, k := range il[1:] {
				rest = append(rest, k)
			}
			return il[0], rest
		case "nilmap":
			return map[string]interface{}(nil), nil
		}
		m := map[string]interface{}{}
		for _, id := range u.Members {
			a := byID[id]
			m[a.Col] = a.MapValue()
			if a.Op == "eq" {
				switch {
				case u.Via == "valuer" && a.IsStr:
					m[a.Col] = wrapValue(a.S, "nullstr")
				case u.Via == "valuer":
					m[a.Col] = wrapValue(a.I, "nullint")
				case u.Via == "bytes" && a.IsStr:
					m[a.Col] = wrapValue(a.S, "bytes")
				}
			}
		}
		return m, nil
	case "struct", "empty_struct":
		if u.Via == "slice" {
			return StructSlice(u.Elems, byID), nil
		}
		ms := []Atom{}
		for _, id := range u.Members {
			ms = append(ms, byID[id])
		}
		if u.Via == "sel" || u.Via == "slicesel" {
			// select exactly the members' columns, alternating column and field spelling
			var cols []interface{}
			for i, a := range ms {
				if i%2 == 0 {
					cols = append(cols, a.Col)
				} else {
					cols = append(cols, strings.ToUpper(a.Col[:1])+a.Col[1:])
				}
			}
			if u.Via == "slicesel" {
				// the same condition carried by a slice with one element
				ids := []int{}
				for _, a := range ms {
					ids = append(ids, a.ID)
				}
				return StructSlice([][]int{ids}, byID), cols
			}
			return StructCond(ms), cols
		}
		return StructCond(ms), nil
	case "expr":
		if u.Via == "args" && u.CE.Kind == "and" && len(u.CE.Kids) >= 2 {
			// the operands of the AND as separate arguments: BuildCondition combines them with clause.And
			rest := []interface{}{}
			for _, k := range u.CE.Kids[1:] {
				rest = append(rest, k.Build(byID))
			}
			return u.CE.Kids[0].Build(byID), rest
		}
		return u.CE.Build(byID), nil
	case "group":
		inner := db.Session(&gorm.Session{NewDB: true})
		for _, c := range u.Calls {
			inner = c.Apply(db, inner, byID)
		}
		return inner, nil
	}
	panic("form " + u.Form)
}

// ---- generation ----

type Gen struct {
	R     *lib.Rng
	Atoms []Atom
	ByID  map[int]Atom
}

func NewGen(r *lib.Rng, atoms []Atom) *Gen {
	g := &Gen{R: r, Atoms: atoms, ByID: map[int]Atom{}}
	for _, a := range atoms {
		g.ByID[a.ID] = a
	}
	return g
}

func (g *Gen) eqAtomsDistinctCols(n int, forStruct bool) []int {
	byCol := map[string][]Atom{}
	for _, a := range g.Atoms {
		if forStruct {
			if a.StructOK() {
				byCol[a.Col] = append(byCol[a.Col], a)
			}
		} else if a.MapOK() {
			byCol[a.Col] = append(byCol[a.Col], a)
		}
	}
	cols := []string{}
	for c := range byCol {
		cols = append(cols, c)
	}
	sort.Strings(cols)
	lib.Shuffle(g.R, cols)
	if n > len(cols) {
		n = len(cols)
	}
	cols = cols[:n]
	if forStruct {
		sort.Slice(cols, func(i, j int) bool { return structOrder[cols[i]] < structOrder[cols[j]] })
	} else {
		sort.Strings(cols)
	}
	out := []int{}
	for _, c := range cols {
		out = append(out, lib.Pick(g.R, byCol[c]).ID)
	}
	return out
}

func (g *Gen) GenCExpr(depth int) *CExpr {
	r := g.R
	if r.Chance(1, 8) {
		// clause.Expr{SQL: ...} with inline literals as an operand
		t := GenTree(r, g.Atoms, 1)
		p := PrintTree(r, t, g.ByID, "inline", r.Bool())
		return &CExpr{Kind: "raw", Tmpl: p.Tmpl}
	}
	if depth == 0 || r.Chance(1, 2) {
		return &CExpr{Kind: "atom", Atom: g.pickPlain().ID}
	}
	kind := lib.Pick(r, []string{"and", "or", "or", "not"})
	n := r.Range(1, 3)
	if kind == "not" {
		// clause.Not(x, y) used as an expression is not the chain method Not the property is
		// about; only the unambiguous single-operand form is generated
		n = 1
	}
	ce := &CExpr{Kind: kind}
	for i := 0; i < n; i++ {
		k := g.GenCExpr(depth - 1)
		// clause.Or(x) with one operand is gorm's "OR x" connective marker, not a disjunction:
		// inside clause.And its meaning is an idiom the property does not define
		if kind == "and" && k.Kind == "or" && len(k.Kids) == 1 {
			k = k.Kids[0]
		}
		// clause.Not(clause.And(raw...)) without a structured operand: same known reading
		// question as Not over an AND group; kept out of the expression generator
		if kind == "not" && k.Kind == "and" {
			anyAtom := false
			for _, kk := range k.Kids {
				if kk.Kind == "atom" {
					anyAtom = true
				}
			}
			if !anyAtom {
				k = &CExpr{Kind: "atom", Atom: g.pickPlain().ID}
			}
		}
		ce.Kids = append(ce.Kids, k)
	}
	return ce
}

// pickPlain: an atom other than IN over an empty list (whose negation gorm renders IS NOT NULL:
// kept out of every place where it could end up negated structurally).
func (g *Gen) pickPlain() Atom {
	for {
		a := lib.Pick(g.R, g.Atoms)
		if a.Op != "inempty" {
			return a
		}
	}
}

// NegatesEmptyIn: a Not call (or a group under Not, at any depth) holds a map unit with an IN over
// an empty list.
func NegatesEmptyIn(cs []Call, byID map[int]Atom, under bool) bool {
	for _, c := range cs {
		neg := under || c.Kind == "not"
		if neg {
			for _, id := range c.Unit.Members {
				if byID[id].Op == "inempty" {
					return true
				}
			}
		}
		if NegatesEmptyIn(c.Unit.Calls, byID, neg) {
			return true
		}
	}
	return false
}

// GenUnit draws a unit. hostile: random case / whitespace / redundant parentheses in raw text.
func (g *Gen) GenUnit(depth int, hostile bool, allowGroup bool) Unit {
	r := g.R
	forms := []string{"raw", "raw", "rawargs", "named", "map", "struct", "expr"}
	if allowGroup {
		forms = append(forms, "group", "group")
	}
	form := lib.Pick(r, forms)
	switch form {
	case "raw", "rawargs", "named":
		t := GenTree(r, g.Atoms, depth)
		style := map[string]string{"raw": "inline", "rawargs": "qmark", "named": "named"}[form]
		p := PrintTree(r, t, g.ByID, style, hostile)
		if form == "named" && len(p.Named) == 0 {
			form = "raw"
		}
		if form == "rawargs" && len(p.Args) == 0 {
			form = "raw"
		}
		u := Unit{Form: form, Tmpl: p.Tmpl, Txt: p.Txt, Args: p.Args, ArgKinds: p.ArgKinds, Named: p.Named, Tree: t}
		if form == "named" {
			switch r.Intn(6) {
			case 0, 1:
				u.Via = "sqlnamed"
			case 2:
				u.Via = "structarg"
				u.ExportNamed()
			case 3:
				u.Via = "structptr"
				u.ExportNamed()
			}
		}
		return u
	case "map":
		return g.mapUnit(r.Range(1, 3))
	case "struct":
		if r.Chance(1, 3) {
			if ms := g.eqAtomsAnyValue(r.Range(1, 2)); len(ms) > 0 {
				return Unit{Form: "struct", Via: lib.Pick(r, []string{"sel", "sel", "slicesel"}), Members: ms}
			}
		}
		ms := g.eqAtomsDistinctCols(r.Range(1, 2), true)
		if len(ms) == 0 {
			return g.mapUnit(1)
		}
		if r.Chance(1, 5) {
			e2 := g.eqAtomsDistinctCols(1, true)
			return Unit{Form: "struct", Via: "slice", Elems: [][]int{ms, e2}, Members: append(append([]int{}, ms...), e2...)}
		}
		return Unit{Form: "struct", Members: ms}
	case "expr":
		u := Unit{Form: "expr", CE: g.GenCExpr(2)}
		if u.CE.Kind == "and" && len(u.CE.Kids) >= 2 && r.Chance(1, 3) {
			u.Via = "args"
		}
		return u
	}
	n := r.Range(1, 3)
	u := Unit{Form: "group"}
	for i := 0; i < n; i++ {
		k := "where"
		if i > 0 {
			k = lib.Pick(r, []string{"where", "or", "or", "not"})
		} else if r.Chance(1, 5) {
			k = "not"
		}
		u.Calls = append(u.Calls, Call{Kind: k, Unit: g.GenUnit(depth-1, hostile, false)})
	}
	return u
}

// mapUnit: a map-like unit of n members and one of the Go values that carry it.
func (g *Gen) mapUnit(n int) Unit {
	r := g.R
	u := Unit{Form: "map", Members: g.eqAtomsDistinctCols(n, false)}
	if !r.Chance(1, 2) {
		return u
	}
	allStr := true
	for _, id := range u.Members {
		a := g.ByID[id]
		if !(a.Op == "eq" && a.IsStr) {
			allStr = false
		}
	}
	if allStr && r.Bool() {
		u.Via = "mapss"
		return u
	}
	if r.Chance(1, 4) {
		u.Via = "valuer" // eq members travel as sql.NullString / sql.NullInt64
		return u
	}
	if len(u.Members) == 1 {
		a := g.ByID[u.Members[0]]
		switch {
		case a.Col == "id" && a.Op == "eq":
			u.Via = lib.Pick(r, []string{"pk", "pk", "pkstr", "pkstrsign", "colarg"})
		case a.Col == "id" && a.Op == "in":
			u.Via = lib.Pick(r, []string{"pkslice", "pkargs", "pkargs", "colarg"})
		default:
			u.Via = lib.Pick(r, []string{"colarg", "colarg", "mapii"})
		}
	}
	return u
}

// eqAtomsAnyValue: up to n equality atoms on distinct non-key columns, zero values allowed, in
// schema order (for struct conditions whose columns are selected by name).
func (g *Gen) eqAtomsAnyValue(n int) []int {
	byCol := map[string][]Atom{}
	for _, a := range g.Atoms {
		if a.Op == "eq" && a.Col != "id" {
			byCol[a.Col] = append(byCol[a.Col], a)
		}
	}
	cols := []string{}
	for c := range byCol {
		cols = append(cols, c)
	}
	sort.Strings(cols)
	lib.Shuffle(g.R, cols)
	if n > len(cols) {
		n = len(cols)
	}
	cols = cols[:n]
	sort.Slice(cols, func(i, j int) bool { return structOrder[cols[i]] < structOrder[cols[j]] })
	out := []int{}
	for _, c := range cols {
		out = append(out, lib.Pick(g.R, byCol[c]).ID)
	}
	return out
}

func EmptyUnit(r *lib.Rng) Unit {
	switch r.Intn(7) {
	case 0:
		return Unit{Form: "empty_string", Tmpl: ""}
	case 1:
		return Unit{Form: "empty_map"}
	case 2:
		return Unit{Form: "empty_map", Via: "mapss"}
	case 3:
		return Unit{Form: "empty_map", Via: "nilmap"}
	case 4:
		return Unit{Form: "empty_struct", Via: "slice"}
	case 5:
		return Unit{Form: "group"} // a sub-builder without conditions
	}
	return Unit{Form: "empty_struct"}
}

// ---- Gallina ----

func GTable(atoms []Atom, texts map[int][]string) string {
	ids := []int{}
	for id := range texts {
		ids = append(ids, id)
	}
	sort.Ints(ids)
	items := []string{}
	for _, id := range ids {
		items = append(items, lib.Pair(lib.Nat(id), lib.ListOf(texts[id], lib.Str)))
	}
	return lib.List(items)
}

func gMembers(ms []int, byID map[int]Atom) string {
	return lib.ListOf(ms, func(id int) string { return lib.Pair(lib.Nat(id), lib.Nat(byID[id].NegID())) })
}

func (ce *CExpr) G(byID map[int]Atom) string {
	switch ce.Kind {
	case "atom":
		return lib.App("CAtom", lib.Nat(ce.Atom), lib.Nat(byID[ce.Atom].NegID()))
	case "raw":
		return lib.App("CRaw", lib.Str(ce.Tmpl), lib.Str(ce.Tmpl))
	}
	kids := lib.ListOf(ce.Kids, func(k *CExpr) string { return k.G(byID) })
	return lib.App(map[string]string{"and": "CAndE", "or": "COrE", "not": "CNotE"}[ce.Kind], kids)
}

func (u Unit) G(byID map[int]Atom) string {
	switch u.Form {
	case "raw", "rawargs", "empty_string":
		return lib.App("URaw", lib.Str(u.Tmpl), lib.Str(u.Txt))
	case "named":
		return lib.App("UNamed", lib.Str(u.Tmpl), lib.Str(u.Txt))
	case "map", "empty_map":
		return lib.App("UMap", gMembers(u.Members, byID))
	case "struct", "empty_struct":
		return lib.App("UStruct", gMembers(u.Members, byID))
	case "expr":
		return lib.App("UExpr", u.CE.G(byID))
	}
	return lib.App("UGroup", GCalls(u.Calls, byID))
}

func GCalls(cs []Call, byID map[int]Atom) string {
	return lib.ListOf(cs, func(c Call) string {
		k := map[string]string{"where": "KWhere", "not": "KNot", "or": "KOr"}[c.Kind]
		return lib.Pair(k, c.Unit.G(byID))
	})
}

// Shape: canonical structure of a chain (forms and connectives, not values).
func Shape(cs []Call) string {
	var sb strings.Builder
	var ush func(u Unit)
	ush = func(u Unit) {
		sb.WriteString(u.Form)
		switch u.Form {
		case "raw", "rawargs", "named":
			sb.WriteString(u.Via)
			sb.WriteString(treeShape(u.Tree))
		case "map", "struct", "empty_map", "empty_struct":
			fmt.Fprintf(&sb, "%d%s", len(u.Members), u.Via)
		case "expr":
			sb.WriteString(u.Via)
			sb.WriteString(ceShape(u.CE))
		case "group":
			sb.WriteString("[")
			for _, c := range u.Calls {
				sb.WriteString(c.Kind[:1])
				ush(c.Unit)
			}
			sb.WriteString("]")
		}
	}
	for _, c := range cs {
		sb.WriteString(c.Kind[:1])
		if c.Inline {
			sb.WriteString("i")
		}
		ush(c.Unit)
		sb.WriteString(";")
	}
	return sb.String()
}

func treeShape(t *BTree) string {
	if t == nil {
		return ""
	}
	if t.Kind == "atom" {
		return "a"
	}
	s := t.Kind[:1] + "("
	for _, k := range t.Kids {
		s += treeShape(k)
	}
	return s + ")"
}

func ceShape(c *CExpr) string {
	if c.Kind == "atom" || c.Kind == "raw" {
		return c.Kind[:1]
	}
	s := c.Kind[:1] + "("
	for _, k := range c.Kids {
		s += ceShape(k)
	}
	return s + ")"
}

// HasTopConnectiveOutsideSpaces reports whether a raw template contains an AND/OR keyword that
// gorm's " AND " / " OR " substring test misses (used only for known-finding signatures).
func MissedConnective(tmpl string, tree *BTree) bool {
	if tree == nil || !tree.HasConnective() {
		return false
	}
	u := strings.ToUpper(tmpl)
	return !(strings.Contains(u, " AND ") || strings.Contains(u, " OR "))
}

// atomUnit: does the unit build to a single structured condition (one with NegationBuild)?
func atomUnit(u Unit) bool {
	switch u.Form {
	case "map", "struct":
		return len(u.Members) == 1
	case "expr":
		return u.CE.Kind == "atom"
	}
	return false
}

// UsesPrimaryKeyValue: some unit (at any depth) is a bare primary-key value, which gorm can only
// turn into a condition when the statement has a schema.
func UsesPrimaryKeyValue(cs []Call) bool {
	for _, c := range cs {
		if strings.HasPrefix(c.Unit.Via, "pk") || UsesPrimaryKeyValue(c.Unit.Calls) {
			return true
		}
	}
	return false
}

// IsEmptyUnit: the unit adds no condition.
func IsEmptyUnit(u Unit) bool { return emptyUnit(u) }

func emptyUnit(u Unit) bool {
	return u.Form == "empty_string" || u.Form == "empty_map" || u.Form == "empty_struct" || u.Form == "group" && len(u.Calls) == 0
}

// NotOfAndGroupNoAtom: a Not call (at any depth) whose unit is AND-combined (a group of >= 2
// Where/Not calls, clause.And of >= 2 operands, or a group whose only member is such a unit: gorm
// unwraps it) and none of whose members is a single structured condition: gorm renders
// NOT (a AND b) instead of "every member false".
func NotOfAndGroupNoAtom(cs []Call) bool {
	for _, c := range cs {
		u := c.Unit
		if u.Form == "group" && NotOfAndGroupNoAtom(u.Calls) {
			return true
		}
		if c.Kind == "not" && andCombinedNoAtom(u) {
			return true
		}
	}
	return false
}

func andCombinedNoAtom(u Unit) bool {
	switch u.Form {
	case "group":
		n, anyAtom, anyOr := 0, false, false
		var only Call
		for _, m := range u.Calls {
			if emptyUnit(m.Unit) {
				continue
			}
			n++
			only = m
			if m.Kind == "or" && n > 1 {
				anyOr = true
			}
			if m.Kind == "where" && atomUnit(m.Unit) {
				anyAtom = true
			}
		}
		if n >= 2 && !anyOr && !anyAtom {
			return true
		}
		// a group of one Where call is that call's unit
		return n == 1 && only.Kind == "where" && andCombinedNoAtom(only.Unit)
	case "expr":
		if u.CE.Kind == "and" && len(u.CE.Kids) >= 2 {
			for _, k := range u.CE.Kids {
				if k.Kind == "atom" {
					return false
				}
			}
			return true
		}
	}
	return false
}

// WhereText: the WHERE part of the SELECT gorm builds for the chain (DryRun), arguments inlined
// by the dialector's Explain. "" when there is no WHERE.
func WhereText(db *gorm.DB, tx *gorm.DB, conds ...interface{}) (string, error) {
	st := tx.Session(&gorm.Session{DryRun: true}).Find(NewSlice(), conds...).Statement
	if st.Error != nil {
		return "", st.Error
	}
	full := db.Dialector.Explain(st.SQL.String(), st.Vars...)
	i := strings.Index(full, " WHERE ")
	if i < 0 {
		return "", nil
	}
	return full[i+len(" WHERE "):], nil
}

func addText(m map[int][]string, id int, t string) {
	if t == "" {
		return
	}
	for _, x := range m[id] {
		if x == t {
			return
		}
	}
	m[id] = append(m[id], t)
}

// DiscoverTexts renders every atom alone through gorm in each form (and its negation through
// Not) and returns the accepted texts per atom id. base must be a handle WITHOUT soft-delete
// scope effects on the text (use Unscoped for soft-delete models).
func DiscoverTexts(db *gorm.DB, base func() *gorm.DB, atoms []Atom) (map[int][]string, []error) {
	texts := map[int][]string{}
	var errs []error
	rec := func(id int, tx *gorm.DB) {
		t, err := WhereText(db, tx)
		if err != nil {
			errs = append(errs, err)
		}
		addText(texts, id, t)
	}
	for _, a := range atoms {
		addText(texts, a.ID, a.RawText())
		_, ex, _, _ := a.TmplText(false)
		addText(texts, a.ID, ex)
		rec(a.ID, base().Where(a.Expression()))
		rec(a.NegID(), base().Not(a.Expression()))
		if a.MapOK() {
			rec(a.ID, base().Where(map[string]interface{}{a.Col: a.MapValue()}))
			rec(a.NegID(), base().Not(map[string]interface{}{a.Col: a.MapValue()}))
		}
		if a.StructOK() {
			rec(a.ID, base().Where(StructCond([]Atom{a})))
			rec(a.NegID(), base().Not(StructCond([]Atom{a})))
		}
		if a.Op == "eq" && a.Col != "id" {
			// struct condition with its column selected: zero values count too
			rec(a.ID, base().Where(StructCond([]Atom{a}), a.Col))
			rec(a.NegID(), base().Not(StructCond([]Atom{a}), a.Col))
		}
		if a.Col == "id" && a.Op == "eq" {
			rec(a.ID, base().Where(a.I))
			rec(a.NegID(), base().Not(a.I))
			rec(a.ID, base().Where(fmt.Sprint(a.I)))
			rec(a.NegID(), base().Not(fmt.Sprint(a.I)))
			rec(a.ID, base().Where(fmt.Sprintf("%+d", a.I)))
			rec(a.NegID(), base().Not(fmt.Sprintf("%+d", a.I)))
		}
		if a.Col == "id" && a.Op == "in" {
			rec(a.ID, base().Where(a.IL))
			rec(a.NegID(), base().Not(a.IL))
			if len(a.IL) >= 2 {
				q, args := Unit{Form: "map", Via: "pkargs", Members: []int{a.ID}}.QueryArgs(db, map[int]Atom{a.ID: a})
				rec(a.ID, base().Where(q, args...))
				rec(a.NegID(), base().Not(q, args...))
			}
		}
	}
	return texts, errs
}

// NoIDAtoms: keep conditions on the primary key out of GenAtoms (harnesses whose oracle relates
// rows that differ in their key only).
var NoIDAtoms bool

// GenAtoms draws 4..7 atoms with pairwise non-prefix texts.
func GenAtoms(r *lib.Rng, names, nicks []string) []Atom {
	var out []Atom
	seen := map[string]bool{}
	n := r.Range(4, 7)
	for len(out) < n {
		a := Atom{ID: len(out) + 1}
		switch r.Intn(13) {
		case 12:
			// IN over an empty list, on the nullable column (never together with its IS NULL
			// atom: gorm negates both to IS NOT NULL)
			a.Col, a.Op, a.IsStr = "nick", "inempty", true
			clashNull := false
			for _, b := range out {
				if b.Col == "nick" && b.Op == "isnull" {
					clashNull = true
				}
			}
			if clashNull {
				continue
			}
		case 10:
			if NoIDAtoms {
				continue
			}
			a.Col, a.Op, a.I = "id", "eq", int64(r.Range(1, 8))
			if r.Chance(1, 8) {
				a.I = -int64(r.Range(1, 3)) // a key no row has, with a sign
			}
		case 11:
			if NoIDAtoms {
				continue
			}
			a.Col, a.Op, a.IL = "id", "in", []int64{int64(r.Range(1, 4)), int64(r.Range(5, 9))}
		case 0, 1:
			a.Col, a.Op, a.I = "age", "eq", int64(r.Range(0, 5))
		case 2:
			a.Col, a.Op, a.I = "age", lib.Pick(r, []string{"lt", "gt", "neq", "lte", "gte"}), int64(r.Range(1, 4))
		case 3:
			a.Col, a.Op, a.IL = "age", "in", []int64{int64(r.Range(0, 2)), int64(r.Range(3, 5))}
		case 4, 5:
			a.Col, a.Op, a.IsStr, a.S = "name", "eq", true, lib.Pick(r, names)
		case 6:
			a.Col, a.Op, a.IsStr, a.S = "name", "like", true, lib.Pick(r, []string{"a%", "%b", "%c%", "a_", "_", "AB", "C D", "x"}) // with and without %: _ wildcard, letter case
		case 7:
			a.Col, a.Op = "nick", "isnull"
			clashEmpty := false
			for _, b := range out {
				if b.Op == "inempty" {
					clashEmpty = true
				}
			}
			if clashEmpty {
				continue
			}
		case 8:
			a.Col, a.Op, a.IsStr, a.S = "nick", "eq", true, lib.Pick(r, nicks)
			if r.Chance(1, 3) {
				a.S = "" // a pointer field pointing at the zero value still is a condition
			}
		case 9:
			a.Col, a.Op, a.IsStr, a.SL = "name", "in", true, []string{lib.Pick(r, names), lib.Pick(r, names)}
			a.Null = r.Chance(1, 4)
		}
		key := a.RawText()
		// no atom text may be a prefix of another (the lexer takes the longest match)
		clash := false
		for k := range seen {
			if strings.HasPrefix(k, key) || strings.HasPrefix(key, k) {
				clash = true
			}
		}
		// an atom and the negation gorm renders for another atom must not share a text
		// (`age` <> 4 is both "neq 4" and the NegationBuild of "eq 4"; likewise lt/gte, gt/lte)
		compl := map[string]string{"eq": "neq", "neq": "eq", "lt": "gte", "gte": "lt", "gt": "lte", "lte": "gt"}
		if c, ok := compl[a.Op]; ok {
			for _, b := range out {
				if b.Col == a.Col && b.Op == c && b.I == a.I && b.S == a.S {
					clash = true
				}
			}
		}
		if clash {
			continue
		}
		seen[key] = true
		out = append(out, a)
	}
	return out
}

// TruthTables asks SQLite for the truth value of every atom (and negated atom) in every row of
// the table, rows in id order: "T" / "F" / "U".
func TruthTables(db *gorm.DB, table string, atoms []Atom, texts map[int][]string) (map[int][]string, []error) {
	out := map[int][]string{}
	var errs []error
	truth := func(id int, text string) {
		rows, err := db.Raw("SELECT (" + text + ") FROM " + table + " ORDER BY id").Rows()
		if err != nil {
			errs = append(errs, err)
			return
		}
		defer rows.Close()
		for rows.Next() {
			var v *int64
			rows.Scan(&v)
			switch {
			case v == nil:
				out[id] = append(out[id], "U")
			case *v != 0:
				out[id] = append(out[id], "T")
			default:
				out[id] = append(out[id], "F")
			}
		}
	}
	for _, a := range atoms {
		truth(a.ID, a.RawText())
		if ts := texts[a.NegID()]; len(ts) > 0 {
			truth(a.NegID(), ts[0])
		}
	}
	return out, errs
}

// GRows prints per-row valuations: [(id, [(atom, tv); ...]); ...].
func GRows(ids []int64, truth map[int][]string) string {
	aids := []int{}
	for id := range truth {
		aids = append(aids, id)
	}
	sort.Ints(aids)
	rows := make([]string, len(ids))
	for i, id := range ids {
		vals := []string{}
		for _, a := range aids {
			if i < len(truth[a]) {
				vals = append(vals, lib.Pair(lib.Nat(a), map[string]string{"T": "TT", "F": "TF", "U": "TU"}[truth[a][i]]))
			}
		}
		rows[i] = lib.Pair(lib.Z(id), lib.List(vals))
	}
	return lib.List(rows)
}

// ---- pattern stream: a catalogue of small units that exercise every parenthesisation and
// negation decision, placed under every call kind at every position of a short chain ----

func (g *Gen) rawUnit(kind string, style string, hostile bool) Unit {
	a, b := lib.Pick(g.R, g.Atoms).ID, lib.Pick(g.R, g.Atoms).ID
	t := &BTree{Kind: kind, Kids: []*BTree{{Kind: "atom", Atom: a}, {Kind: "atom", Atom: b}}}
	p := PrintTree(g.R, t, g.ByID, style, hostile)
	form := map[string]string{"inline": "raw", "qmark": "rawargs", "named": "named"}[style]
	if form == "named" && len(p.Named) == 0 || form == "rawargs" && len(p.Args) == 0 {
		form = "raw"
	}
	return Unit{Form: form, Tmpl: p.Tmpl, Txt: p.Txt, Args: p.Args, ArgKinds: p.ArgKinds, Named: p.Named, Tree: t}
}

func (g *Gen) atomUnit() Unit {
	if ms := g.eqAtomsDistinctCols(1, false); len(ms) > 0 && g.R.Bool() {
		return Unit{Form: "map", Members: ms}
	}
	return Unit{Form: "expr", CE: &CExpr{Kind: "atom", Atom: g.pickPlain().ID}}
}

// Catalogue returns the interesting units (fresh random atoms/formatting each call).
func (g *Gen) Catalogue() []Unit {
	ce := func(kind string, kids ...*CExpr) *CExpr { return &CExpr{Kind: kind, Kids: kids} }
	at := func() *CExpr { return &CExpr{Kind: "atom", Atom: g.pickPlain().ID} }
	rawce := func(kind string) *CExpr {
		u := g.rawUnit(kind, "inline", false)
		return &CExpr{Kind: "raw", Tmpl: u.Tmpl}
	}
	grp := func(cs ...Call) Unit { return Unit{Form: "group", Calls: cs} }
	w := func(u Unit) Call { return Call{Kind: "where", Unit: u} }
	o := func(u Unit) Call { return Call{Kind: "or", Unit: u} }
	n := func(u Unit) Call { return Call{Kind: "not", Unit: u} }
	return []Unit{
		g.rawUnit("or", "inline", false), g.rawUnit("and", "inline", false),
		g.rawUnit("or", "inline", true), g.rawUnit("or", "named", false), g.rawUnit("or", "qmark", true),
		g.atomUnit(), {Form: "map", Members: g.eqAtomsDistinctCols(2, false)},
		{Form: "expr", CE: ce("and", at(), at())}, {Form: "expr", CE: ce("or", at(), at())},
		{Form: "expr", CE: ce("and", at(), rawce("or"))}, {Form: "expr", CE: ce("or", rawce("and"), at())},
		{Form: "expr", CE: ce("not", at())}, {Form: "expr", CE: ce("not", rawce("or"))},
		// AND-combined units one of whose members is a self-contained alternative (b OR c), as one
		// clause.And value and as separate arguments
		{Form: "expr", CE: ce("and", at(), ce("or", at(), at()))},
		{Form: "expr", Via: "args", CE: ce("and", at(), ce("or", at(), at()))},
		{Form: "expr", CE: ce("and", ce("or", at(), at()), at())},
		{Form: "expr", Via: "args", CE: ce("and", at(), ce("or", at(), at(), at()), at())},
		{Form: "expr", Via: "args", CE: ce("and", at(), at())},
		grp(w(g.atomUnit()), w(g.rawUnit("or", "inline", false))),
		grp(w(g.rawUnit("or", "named", false)), w(g.atomUnit())),
		grp(w(g.atomUnit()), o(g.atomUnit())),
		grp(w(g.rawUnit("and", "inline", false)), o(g.rawUnit("or", "inline", false))),
		grp(n(g.atomUnit()), w(g.rawUnit("or", "inline", false))),
		grp(w(g.atomUnit()), w(g.atomUnit()), o(g.rawUnit("or", "qmark", false))),
		grp(w(Unit{Form: "map", Members: g.eqAtomsDistinctCols(2, false)})),
		grp(o(g.rawUnit("or", "inline", false))),
	}
}

// PatternChains: every catalogue unit under every call kind, alone, after a Where(atom),
// before a Where(atom), and between two; leading Or only when allowLeadingOr.
func (g *Gen) PatternChains(allowLeadingOr bool) [][]Call {
	var out [][]Call
	cat := g.Catalogue()
	for _, u := range cat {
		for _, k := range []string{"where", "not", "or"} {
			c := Call{Kind: k, Unit: u}
			pre := Call{Kind: "where", Unit: g.atomUnit()}
			post := Call{Kind: lib.Pick(g.R, []string{"where", "where", "or"}), Unit: g.atomUnit()}
			if k != "or" || allowLeadingOr {
				out = append(out, []Call{c}, []Call{c, post})
			}
			out = append(out, []Call{pre, c}, []Call{pre, c, post})
		}
	}
	return out
}

// InlinePatternChains: every catalogue unit as the inline condition of the finisher, alone and after
// a Where(atom) / Not(atom) (C02: Find / First / Take / Last / Delete receive it as their condition
// argument, the other finishers as a last Where).
func (g *Gen) InlinePatternChains() [][]Call {
	var out [][]Call
	for _, u := range g.Catalogue() {
		c := Call{Kind: "where", Unit: u, Inline: true}
		pre := Call{Kind: lib.Pick(g.R, []string{"where", "where", "not"}), Unit: g.atomUnit()}
		out = append(out, []Call{c}, []Call{pre, c})
	}
	// a lone clause.Or(x) / clause.And(clause.Or(x, y)) as inline condition
	at := func() *CExpr { return &CExpr{Kind: "atom", Atom: g.pickPlain().ID} }
	for _, ce := range []*CExpr{{Kind: "or", Kids: []*CExpr{at()}}, {Kind: "or", Kids: []*CExpr{at(), at()}},
		{Kind: "and", Kids: []*CExpr{{Kind: "or", Kids: []*CExpr{at(), at()}}}}} {
		c := Call{Kind: "where", Unit: Unit{Form: "expr", CE: ce}, Inline: true}
		out = append(out, []Call{{Kind: "where", Unit: g.atomUnit()}, c})
	}
	return out
}

// FullAtoms: one atom of every operator, with bounds that occur in the data (ages 0..5), so that
// every NegationBuild (<> / >= / <= / > / < / NOT LIKE / NOT IN / IS NOT NULL) is exercised on
// boundary rows.
func FullAtoms(r *lib.Rng) []Atom {
	return []Atom{
		{ID: 1, Col: "age", Op: "eq", I: int64(r.Range(0, 1))},
		{ID: 2, Col: "age", Op: "neq", I: 5},
		{ID: 3, Col: "age", Op: "lt", I: 2},
		{ID: 4, Col: "age", Op: "gt", I: 3},
		{ID: 5, Col: "age", Op: "lte", I: int64(r.Range(1, 2))}, // never 3: `<= 3` is the negation gorm renders for atom 4
		{ID: 6, Col: "age", Op: "gte", I: 4},
		{ID: 7, Col: "name", Op: "like", IsStr: true, S: "a%"},
		{ID: 8, Col: "age", Op: "in", IL: []int64{1, 4}},
		{ID: 9, Col: "nick", Op: "isnull"},
	}
}

// NegationChains: Not over every atom as a clause expression, as a map/struct entry where the
// form allows it, and inside a two-member group with another atom.
func (g *Gen) NegationChains() [][]Call {
	var out [][]Call
	for _, a := range g.Atoms {
		e := Unit{Form: "expr", CE: &CExpr{Kind: "atom", Atom: a.ID}}
		out = append(out, []Call{{Kind: "not", Unit: e}})
		if a.MapOK() {
			out = append(out, []Call{{Kind: "not", Unit: Unit{Form: "map", Members: []int{a.ID}}}})
		}
		b := lib.Pick(g.R, g.Atoms)
		o := Unit{Form: "expr", CE: &CExpr{Kind: "atom", Atom: b.ID}}
		out = append(out, []Call{{Kind: "not", Unit: Unit{Form: "group", Calls: []Call{{Kind: "where", Unit: e}, {Kind: "where", Unit: o}}}}})
		out = append(out, []Call{{Kind: "where", Unit: o}, {Kind: "not", Unit: Unit{Form: "expr", CE: &CExpr{Kind: "and", Kids: []*CExpr{{Kind: "atom", Atom: a.ID}, {Kind: "atom", Atom: b.ID}}}}}})
	}
	// Not over an AND-combined unit one of whose members is a self-contained alternative
	// clause.Or(b, c): every member false, the alternative negated as a whole; the alternative in
	// every position, the unit as one clause.And value and as separate arguments
	for i, a := range g.Atoms {
		b, c := lib.Pick(g.R, g.Atoms), lib.Pick(g.R, g.Atoms)
		at := func(x Atom) *CExpr { return &CExpr{Kind: "atom", Atom: x.ID} }
		or := &CExpr{Kind: "or", Kids: []*CExpr{at(b), at(c)}}
		kids := []*CExpr{at(a), or}
		switch i % 3 {
		case 1:
			kids = []*CExpr{or, at(a)}
		case 2:
			kids = []*CExpr{at(a), or, at(lib.Pick(g.R, g.Atoms))}
		}
		u := Unit{Form: "expr", CE: &CExpr{Kind: "and", Kids: kids}}
		if i%2 == 1 {
			u.Via = "args"
		}
		out = append(out, []Call{{Kind: "not", Unit: u}})
		out = append(out, []Call{{Kind: "where", Unit: Unit{Form: "expr", CE: at(lib.Pick(g.R, g.Atoms))}}, {Kind: "not", Unit: u}})
	}
	// Not over a group of three or four members, Where/Or in every arrangement (the first member
	// is a Where): all members structured, and once more with one raw member
	for n := 3; n <= 4; n++ {
		for mask := 0; mask < 1<<(n-1); mask++ {
			for _, withRaw := range []bool{false, true} {
				var calls []Call
				for i := 0; i < n; i++ {
					k := "where"
					if i > 0 && mask>>(i-1)&1 == 1 {
						k = "or"
					}
					a := lib.Pick(g.R, g.Atoms)
					u := Unit{Form: "expr", CE: &CExpr{Kind: "atom", Atom: a.ID}}
					if withRaw && i == n-1 {
						u = g.rawUnit(lib.Pick(g.R, []string{"and", "or"}), "inline", false)
					}
					calls = append(calls, Call{Kind: k, Unit: u})
				}
				out = append(out, []Call{{Kind: "not", Unit: Unit{Form: "group", Calls: calls}}})
			}
		}
	}
	return out
}

// ---- key-form stream: the primary key as a condition unit in every Go value that can carry it ----

// WithKeyAtoms makes sure the atoms hold an `id = k` and an `id IN (k1, k2, k3)` atom (appended with
// the next free ids when missing; maxID = number of rows).
func WithKeyAtoms(r *lib.Rng, atoms []Atom, maxID int) []Atom {
	out := append([]Atom{}, atoms...)
	hasEq, hasIn := false, false
	for _, a := range out {
		if a.Col == "id" && a.Op == "eq" {
			hasEq = true
		}
		if a.Col == "id" && a.Op == "in" {
			hasIn = true
		}
	}
	next := 0
	for _, a := range out {
		if a.ID > next {
			next = a.ID
		}
	}
	if !hasEq {
		for {
			k := int64(r.Range(1, maxID))
			clash := false
			for _, a := range out {
				// (`id IN (1,5)` must not start with the text of `id = 1`... they differ in the operator: no clash)
				if a.Col == "id" && a.Op == "eq" && a.I == k {
					clash = true
				}
			}
			if !clash {
				next++
				out = append(out, Atom{ID: next, Col: "id", Op: "eq", I: k})
				break
			}
		}
	}
	if !hasIn {
		next++
		n := r.Range(2, 4)
		il := []int64{}
		for len(il) < n {
			k := int64(r.Range(1, maxID))
			dup := false
			for _, x := range il {
				if x == k {
					dup = true
				}
			}
			if !dup {
				il = append(il, k)
			}
		}
		out = append(out, Atom{ID: next, Col: "id", Op: "in", IL: il})
	}
	return out
}

// KeyFormChains: the key unit in every form (bare key as int / numeric string / signed string,
// slice of keys, several bare keys as separate arguments, column + value, map) under every call
// kind: alone, after a Where, before a Where / Or, and as the inline condition of the finisher.
func (g *Gen) KeyFormChains() [][]Call {
	var out [][]Call
	var eq, in *Atom
	for i := range g.Atoms {
		a := g.Atoms[i]
		if a.Col == "id" && a.Op == "eq" && eq == nil {
			eq = &g.Atoms[i]
		}
		if a.Col == "id" && a.Op == "in" && in == nil {
			in = &g.Atoms[i]
		}
	}
	var units []Unit
	if eq != nil {
		for _, via := range []string{"pk", "pkstr", "pkstrsign", "colarg", "", "mapii"} {
			units = append(units, Unit{Form: "map", Via: via, Members: []int{eq.ID}})
		}
	}
	if in != nil {
		for _, via := range []string{"pkslice", "pkargs", "colarg", ""} {
			units = append(units, Unit{Form: "map", Via: via, Members: []int{in.ID}})
		}
	}
	other := func() Unit {
		for {
			u := g.atomUnit()
			id := 0
			if u.Form == "map" {
				id = u.Members[0]
			} else {
				id = u.CE.Atom
			}
			if g.ByID[id].Col != "id" {
				return u
			}
		}
	}
	for _, u := range units {
		for _, k := range []string{"where", "not", "or"} {
			c := Call{Kind: k, Unit: u}
			pre := Call{Kind: "where", Unit: other()}
			post := Call{Kind: lib.Pick(g.R, []string{"where", "or"}), Unit: other()}
			if k != "or" {
				out = append(out, []Call{c}, []Call{c, post})
			}
			out = append(out, []Call{pre, c})
			if k == "where" {
				ci := c
				ci.Inline = true
				out = append(out, []Call{ci}, []Call{pre, ci})
			}
		}
	}
	return out
}

// ZeroValueAtoms: equality atoms whose value is the zero value of its Go type (a struct condition
// would skip them; every map form and a selected struct column must keep them).
func ZeroValueAtoms() []Atom {
	return []Atom{
		{ID: 1, Col: "age", Op: "eq", I: 0},
		{ID: 2, Col: "name", Op: "eq", IsStr: true, S: ""},
		{ID: 3, Col: "nick", Op: "eq", IsStr: true, S: ""},
		{ID: 4, Col: "nick", Op: "isnull"},
		{ID: 5, Col: "mark", Op: "eq", I: 0},
	}
}

// ZeroValueUnits: every Go value that carries a condition on zero values only: typed maps
// (map[string]interface{}, map[string]string, map[interface{}]interface{}) with one and with two
// entries, column + value, values behind a driver.Valuer, and a struct whose zero columns are
// selected by name. atoms = ZeroValueAtoms().
func ZeroValueUnits() []Unit {
	m := func(via string, ms ...int) Unit { return Unit{Form: "map", Via: via, Members: ms} }
	return []Unit{
		m("", 1), m("", 2), m("", 3), m("", 4), m("", 1, 2), m("", 1, 4),
		m("mapss", 2), m("mapss", 3), m("mapss", 2, 3),
		m("mapii", 1), m("mapii", 2), m("mapii", 4),
		m("colarg", 1), m("colarg", 2), m("colarg", 4),
		m("valuer", 1), m("valuer", 2),
		{Form: "struct", Via: "sel", Members: []int{1}}, {Form: "struct", Via: "sel", Members: []int{2}},
		{Form: "struct", Via: "sel", Members: []int{1, 2}}, {Form: "struct", Via: "slicesel", Members: []int{2}},
	}
}

// ---- the Go values of map / struct / key units as C02_Args reads them ----

func (a Atom) arity() int {
	switch a.Op {
	case "in":
		if a.IsStr {
			n := len(a.SL)
			if a.Null {
				n++
			}
			return n
		}
		return len(a.IL)
	case "inempty":
		return 0
	}
	return 1
}

func gField(zero, selected bool) string {
	return lib.App("mk_gf", lib.Bool(zero), lib.Bool(selected), "true")
}

// structFields: the fields of the struct condition StructCond builds for the members, in schema
// order (id, age, name, nick, mark and, for the soft-delete model, deleted_at); selected: the
// members' columns are selected by name
func structFields(members []int, byID map[int]Atom, selected bool) string {
	zero := map[string]bool{"id": true, "age": true, "name": true, "nick": true, "mark": true}
	sel := map[string]bool{}
	for _, id := range members {
		a := byID[id]
		switch a.Col {
		case "age":
			zero["age"] = a.I == 0
		case "name":
			zero["name"] = a.S == ""
		case "nick":
			zero["nick"] = false // a non-nil pointer
		}
		sel[a.Col] = selected
	}
	fs := []string{}
	for _, c := range []string{"id", "age", "name", "nick", "mark"} {
		fs = append(fs, gField(zero[c], sel[c]))
	}
	if UseSoft {
		fs = append(fs, gField(true, false))
	}
	return lib.List(fs)
}

// GArgs: the unit's Go values as a `list garg` and the arities of the conditions its members stand
// for; ok = false for the forms BuildCondition's value loop does not see (string SQL, column +
// value, expressions, groups).
func (u Unit) GArgs(byID map[int]Atom) (args string, arities string, ok bool) {
	ars := []string{}
	for _, id := range u.Members {
		ars = append(ars, lib.Nat(byID[id].arity()))
	}
	arities = lib.List(ars)
	rep := func(s string, n int) []string {
		out := []string{}
		for i := 0; i < n; i++ {
			out = append(out, s)
		}
		return out
	}
	switch u.Form {
	case "map", "empty_map":
		switch u.Via {
		case "colarg":
			return "", "", false
		case "mapss":
			bl := []string{}
			for _, id := range u.Members {
				bl = append(bl, lib.Bool(byID[id].S == ""))
			}
			return lib.List([]string{lib.App("AMapSS", lib.List(bl))}), arities, true
		case "mapii":
			return lib.List([]string{lib.App("AMapII", arities)}), arities, true
		case "pk":
			return "[ABare]", arities, true
		case "pkstr", "pkstrsign":
			return "[AStr]", arities, true
		case "pkslice":
			return lib.List([]string{lib.App("ABares", lib.Nat(len(byID[u.Members[0]].IL)))}), arities, true
		case "pkargs":
			return lib.List(rep("ABare", len(byID[u.Members[0]].IL))), arities, true
		}
		return lib.List([]string{lib.App("AMapSI", arities)}), arities, true
	case "struct", "empty_struct":
		switch u.Via {
		case "slice":
			rs := []string{}
			for _, e := range u.Elems {
				rs = append(rs, structFields(e, byID, false))
			}
			return lib.List([]string{lib.App("AStructs", lib.List(rs))}), arities, true
		case "sel":
			return lib.List(append([]string{lib.App("AStruct", structFields(u.Members, byID, true))}, rep("AStr", len(u.Members))...)), arities, true
		case "slicesel":
			return lib.List(append([]string{lib.App("AStructs", lib.List([]string{structFields(u.Members, byID, true)}))}, rep("AStr", len(u.Members))...)), arities, true
		}
		return lib.List([]string{lib.App("AStruct", structFields(u.Members, byID, false))}), arities, true
	}
	return "", "", false
}

// GArgsOfCalls: (args, arities) of every map / struct / key unit of the chain, nested groups included.
func GArgsOfCalls(cs []Call, byID map[int]Atom) string {
	items := []string{}
	var walk func(cs []Call)
	walk = func(cs []Call) {
		for _, c := range cs {
			if a, ar, ok := c.Unit.GArgs(byID); ok {
				items = append(items, lib.Pair(a, ar))
			}
			walk(c.Unit.Calls)
		}
	}
	walk(cs)
	return lib.List(items)
}
