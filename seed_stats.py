#!/usr/bin/env python3
"""seed_stats.py: per round of seeded changes, what the check of that time did at the FIRST confirmed run
(work/seedres_<prop>.jsonl is append-only) and what the committed check does at the latest run."""
import glob, json, re, collections
first = collections.defaultdict(collections.Counter); last = collections.defaultdict(collections.Counter)
for f in sorted(glob.glob('/verif/work/seedres_C??.jsonl')):
    runs = collections.OrderedDict()
    for l in open(f):
        for part in re.split(r'(?<=\})\s*(?=\{"prop")', l.strip()):
            try: r = json.loads(part)
            except Exception: continue
            n = r['dir'].rstrip('/').split('/')[-1]
            if n.isdigit(): runs.setdefault((r['prop'], int(n)), []).append(r)
    for (p, n), rs in runs.items():
        conf = [r for r in rs if r.get('applies') == 'yes' and r.get('demo_with_patch') == 'fail']
        if not conf: continue
        rnd = (n - 1) // 3 + 1
        def v(r): return 'missed' if r['check_caught'] != 'yes' else ('noinput' if r['no_failing_input_found'] == 'yes' else 'caught')
        first[rnd][v(conf[0])] += 1; last[rnd][v(conf[-1])] += 1
print('round | changes | first run: caught / broken tie only / missed | latest run: caught / broken tie only / missed')
for rnd in sorted(first):
    a, b = first[rnd], last[rnd]
    print('%5d | %7d | %d / %d / %d | %d / %d / %d' % (rnd, sum(a.values()), a['caught'], a['noinput'], a['missed'], b['caught'], b['noinput'], b['missed']))
