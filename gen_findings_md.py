#!/usr/bin/env python3
"""design_src/90_findings.md (section 9) from known_findings.json and /repo's fix: commits."""
import json, os, subprocess
R = os.path.dirname(os.path.abspath(__file__))
kf = json.load(open(os.path.join(R, "known_findings.json")))
log = subprocess.check_output(["git", "-C", "/repo", "log", "--reverse", "--format=%h\t%s"]).decode().splitlines()
fixes = [l.split("\t", 1) for l in log if "\tfix:" in l]
out = ["## 9. Defects found in gorm: repaired and recorded\n",
       "Every entry below was reproduced on the real code by a check of this framework (or by the",
       "throw-away scratch runs of the design phase) before it was repaired or recorded. Source of",
       "truth: `known_findings.json` (generated from `known_findings.d/`) and `git -C /repo log`.\n",
       "### 9.1 Repaired: `fix:` commits in /repo (%d)\n" % len(fixes),
       "| commit | what was wrong (subject of the commit) | properties whose checks pin it |",
       "|---|---|---|"]
by_commit = {}
for e in kf:
    if e.get("status") == "fixed" and e.get("commit"):
        by_commit.setdefault(e["commit"][:7], set()).add(e["property"])
for h, subj in fixes:
    props = sorted(by_commit.get(h[:7], []))
    out.append("| %s | %s | %s |" % (h, subj.replace("fix: ", "").replace("|", "\\|"), ", ".join(props) or "(see §8)"))
out.append("\nEach fix was followed by switching the owning model to the code as it is now, keeping the")
out.append("failing input in `corpus/`, and confirming the check turns red again with the fix reverted.\n")
known = [e for e in kf if e.get("status") == "known"]
seen = set()
out.append("### 9.2 Recorded, not repaired: known findings (%d signatures)\n" % len({(e['property'], e['signature']) for e in known if '+' not in e['signature']}))
out.append("Not repaired because the repair is not small (it restructures behaviour, or gorm's own tests pin")
out.append("the current behaviour) or the defect lies outside `/repo`. Each has a narrow signature computed")
out.append("from the input only and its exact input under `corpus/`.\n")
out.append("| property | signature | what fails |")
out.append("|---|---|---|")
for e in sorted(known, key=lambda e: (e["property"], e["signature"])):
    if "+" in e["signature"] or (e["property"], e["signature"]) in seen:
        continue
    seen.add((e["property"], e["signature"]))
    out.append("| %s | `%s` | %s |" % (e["property"], e["signature"], e["what"].replace("|", "\\|").replace("\n", " ")[:600]))
open(os.path.join(R, "design_src", "90_findings.md"), "w").write("\n".join(out) + "\n")
print("90_findings.md:", len(fixes), "fixes,", len(seen), "known")
