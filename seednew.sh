#!/bin/bash
# seednew.sh <prop> <n...> : seedtest over /tmp/brk_out_<prop>/<n>; appends to work/seedres_<prop>.jsonl
P=$1; shift
for n in "$@"; do d=/tmp/brk_out_$P/$n; [ -f $d/patch.diff ] || continue; /verif/seedtest.sh $P $d | tail -1 >> /verif/work/seedres_$P.jsonl; done
