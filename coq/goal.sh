#!/bin/sh
# goal.sh <file.v> <line> : print the proof state after <line> (debug helper)
f=$1; n=$2; d=$(dirname "$f"); b=$(basename "$f" .v)
head -n "$n" "$f" > "$d/Tmp_$b.v"; echo "Show. Abort All." >> "$d/Tmp_$b.v"
coqc -R "$(dirname "$0")/theories" Verif "$d/Tmp_$b.v" 2>&1 | head -${3:-60}; rm -f "$d"/Tmp_$b.* "$d"/.Tmp_$b.*
