(* Where_Spec.v — the expressions a chain builds mean what the property says (C02, stage 2):
   for chains in the domain [calls_dom], the value of the rendered WHERE equals the value of
   the specification [spec_chain], for every row valuation. *)
From Verif Require Import Base Sem Where_Model Where_Proofs Where_Render Where_Sem C09_Proofs.

Local Arguments wrap_of : simpl never.
Local Arguments lex : simpl never.
Local Arguments parse : simpl never.
Local Arguments wrap_test : simpl never.
Local Arguments String.eqb : simpl never.

(* ---------- specification side: precedence reading as [pe] ---------- *)
Lemma sev_and_snoc v l s : sev v (SAnd (l ++ [s])) = tv_and (sev v (SAnd l)) (sev v s).
Proof.
  cbn [sev]. rewrite map_app. cbn [map]. induction (map (sev v) l) as [|x r IH]; cbn.
  - destruct (sev v s); reflexivity.
  - rewrite IH. apply tv_and_assoc.
Qed.

Lemma sev_or_groups v : forall r cur,
  sev v (SOr (map SAnd (or_groups r cur)))
  = pe (map (fun p => (fst p, sev v (snd p))) r) (sev v (SAnd (rev cur))).
Proof.
  induction r as [|[b s] r IH]; intros cur.
  - cbn [or_groups map pe]. cbn [sev map fold_right]. apply tv_or_TF_r.
  - cbn [or_groups map pe fst snd]. destruct b.
    + cbn [map]. change (sev v (SOr (SAnd (rev cur) :: map SAnd (or_groups r [s]))))
        with (tv_or (sev v (SAnd (rev cur))) (sev v (SOr (map SAnd (or_groups r [s]))))).
      rewrite IH. cbn [rev app]. f_equal. f_equal. cbn. apply tv_and_TT_r.
    + rewrite IH. cbn [rev]. rewrite sev_and_snoc. reflexivity.
Qed.

Lemma sev_prec_sem v b s r :
  sev v (prec_sem ((b, s) :: r)) = pe (map (fun p => (fst p, sev v (snd p))) r) (sev v s).
Proof.
  unfold prec_sem. rewrite sev_or_groups. cbn [rev app]. f_equal. cbn. apply tv_and_TT_r.
Qed.

(* ---------- the simulation relation between built expressions and spec sequence ---------- *)
Definition R (v : nat -> tv) (e : expr) (p : bool * sem) : Prop :=
  okx e = true /\ closedx e = true /\ is_single_or e = fst p /\ dx v e = sev v (snd p).

Lemma val_list_R v : forall l sq, Forall2 (R v) l sq -> l <> [] ->
  exists b s r, sq = (b, s) :: r /\ val_list v l = sev v (prec_sem ((b, s) :: r)).
Proof.
  intros l sq H Hne. destruct H as [|e [b s] l' sq' He Hr]; [congruence|].
  exists b, s, sq'. split; [reflexivity|]. rewrite sev_prec_sem. cbn [val_list].
  destruct He as [_ [_ [_ Hd]]]. cbn [snd] in Hd. rewrite Hd. f_equal.
  clear -Hr. induction Hr as [|x [bx sx] l sq Hx _ IH]; [reflexivity|].
  destruct Hx as [_ [_ [Hs Hd]]]. cbn [map fst snd] in *. rewrite Hs, Hd, IH. reflexivity.
Qed.

Lemma R_oksL v l sq : Forall2 (R v) l sq -> oksL l = true.
Proof.
  induction 1 as [|e p l sq [H1 [H2 _]] _ IH]; [reflexivity|]. cbn. rewrite H1, H2, IH. reflexivity.
Qed.
