(* Where_Spec.v — the expressions a chain builds mean what the property says (C02, stage 2):
   for chains in the domain [calls_dom], the value of the rendered WHERE equals the value of
   the specification [spec_chain], for every row valuation. *)
From Verif Require Import Base Sem Where_Model Where_Proofs Where_Render Where_Sem C09_Proofs.

Local Arguments wrap_of : simpl never.
Local Arguments lex : simpl never.
Local Arguments parse : simpl never.
Local Arguments wrap_test : simpl never.
Local Arguments String.eqb : simpl never.

(* ---------- specification side: precedence reading as [pe] ---------- *)
Lemma sev_and_snoc v l s : sev v (SAnd (l ++ [s])) = tv_and (sev v (SAnd l)) (sev v s).
Proof.
  cbn [sev]. rewrite map_app. cbn [map]. induction (map (sev v) l) as [|x r IH]; cbn.
  - destruct (sev v s); reflexivity.
  - rewrite IH. apply tv_and_assoc.
Qed.

Lemma sev_or_groups v : forall r cur,
  sev v (SOr (map SAnd (or_groups r cur)))
  = pe (map (fun p => (fst p, sev v (snd p))) r) (sev v (SAnd (rev cur))).
Proof.
  induction r as [|[b s] r IH]; intros cur.
  - cbn [or_groups map pe]. cbn [sev map fold_right]. apply tv_or_TF_r.
  - cbn [or_groups map pe fst snd]. destruct b.
    + cbn [map]. change (sev v (SOr (SAnd (rev cur) :: map SAnd (or_groups r [s]))))
        with (tv_or (sev v (SAnd (rev cur))) (sev v (SOr (map SAnd (or_groups r [s]))))).
      rewrite IH. cbn [rev app]. f_equal. f_equal. cbn. apply tv_and_TT_r.
    + rewrite IH. cbn [rev]. rewrite sev_and_snoc. reflexivity.
Qed.

Lemma sev_prec_sem v b s r :
  sev v (prec_sem ((b, s) :: r)) = pe (map (fun p => (fst p, sev v (snd p))) r) (sev v s).
Proof.
  unfold prec_sem. rewrite sev_or_groups. cbn [rev app]. f_equal. cbn. apply tv_and_TT_r.
Qed.

(* ---------- the simulation relation between built expressions and spec sequence ---------- *)
Definition R (v : nat -> tv) (e : expr) (p : bool * sem) : Prop :=
  okx e = true /\ closedx e = true /\ is_single_or e = fst p /\ dx v e = sev v (snd p).

Lemma val_list_R v : forall l sq, Forall2 (R v) l sq -> l <> [] ->
  exists b s r, sq = (b, s) :: r /\ val_list v l = sev v (prec_sem ((b, s) :: r)).
Proof.
  intros l sq H Hne. destruct H as [|e [b s] l' sq' He Hr]; [congruence|].
  exists b, s, sq'. split; [reflexivity|]. rewrite sev_prec_sem. cbn [val_list].
  destruct He as [_ [_ [_ Hd]]]. cbn [snd] in Hd. rewrite Hd. f_equal.
  clear -Hr. induction Hr as [|x [bx sx] l sq Hx _ IH]; [reflexivity|].
  destruct Hx as [_ [_ [Hs Hd]]]. cbn [map fst snd] in *. rewrite Hs, Hd, IH. reflexivity.
Qed.

Lemma R_oksL v l sq : Forall2 (R v) l sq -> oksL l = true.
Proof.
  induction 1 as [|e p l sq [H1 [H2 _]] _ IH]; [reflexivity|]. cbn. rewrite H1, H2, IH. reflexivity.
Qed.

(* ---------- the domain of the theorem ---------- *)
(* raw SQL that gorm parenthesises, or that is a single factor anyway *)
Definition detectable (tbl : atom_table) (tmpl txt : string) : bool :=
  match lex tbl txt with
  | Some ts => match parse ts with
               | Some e => wrap_test tmpl || is_singleF e
               | None => false
               end
  | None => false
  end.

Definition flat (tbl : atom_table) (u : unit_) : bool :=
  match u with
  | URaw tmpl txt => String.eqb tmpl "" || detectable tbl tmpl txt
  | UNamed tmpl txt => detectable tbl tmpl txt
  | UMap _ | UStruct _ => true
  | UExpr (CAtom _ _) => true
  | _ => false
  end.

Definition is_single_cor (c : cexpr) : bool := match c with COrE [_] => true | _ => false end.
Definition is_cand (c : cexpr) : bool := match c with CAndE _ => true | _ => false end.
Definition is_xand (e : expr) : bool := match e with XAnd _ => true | _ => false end.

Fixpoint cpairs (c : cexpr) : list (nat * nat) :=
  match c with
  | CAtom a na => [(a, na)]
  | CRaw _ _ => []
  | CAndE l => flat_map cpairs l
  | COrE l => flat_map cpairs l
  | CNotE l => flat_map cpairs l
  end.

(* expression nests inside the theorem's domain: raw leaves that gorm parenthesises (or single
   factors), non-empty And / Or, no single-operand clause.Or (gorm's OR marker) directly under
   clause.And, clause.Not over one operand that is not a clause.And *)
Fixpoint cdom (tbl : atom_table) (c : cexpr) : bool :=
  match c with
  | CAtom _ _ => true
  | CRaw tmpl txt => detectable tbl tmpl txt
  | CAndE l => match l with [] => false | _ => true end && forallb (fun x => cdom tbl x && negb (is_single_cor x)) l
  | COrE l => match l with [] => false | _ => true end && forallb (cdom tbl) l
  | CNotE l => match l with [x] => cdom tbl x && negb (is_cand x) | _ => false end
  end.


(* groups of Where/Or calls over domain units, Not only over flat units *)
Fixpoint dom (tbl : atom_table) (u : unit_) : bool :=
  match u with
  | UGroup cs =>
    (fix go (l : list (ckind * unit_)) : bool :=
       match l with
       | [] => true
       | (k, u') :: r => dom tbl u' && (match k with KNot => flat tbl u' | _ => true end) && go r
       end) cs
  | _ => flat tbl u
  end.
Fixpoint calls_dom (tbl : atom_table) (cs : list call) : bool :=
  match cs with
  | [] => true
  | (k, u) :: r => dom tbl u && (match k with KNot => flat tbl u | _ => true end) && calls_dom tbl r
  end.
Lemma dom_group tbl cs : dom tbl (UGroup cs) = calls_dom tbl cs.
Proof. induction cs as [|[k u] r IH]; [reflexivity|]. cbn [calls_dom]. rewrite <- IH. reflexivity. Qed.

(* negated atoms mean the Kleene negation of their atom *)
Definition neg_pairs_ok (v : nat -> tv) (ms : list (nat * nat)) : Prop :=
  forall p, In p ms -> v (snd p) = tv_not (v (fst p)).
Lemma neg_pairs_app v a b : neg_pairs_ok v (a ++ b) -> neg_pairs_ok v a /\ neg_pairs_ok v b.
Proof. intros H. split; intros p Hp; apply H, in_or_app; auto. Qed.
Fixpoint unit_pairs (u : unit_) : list (nat * nat) :=
  match u with
  | UMap ms | UStruct ms => ms
  | UExpr c => cpairs c
  | UGroup cs => (fix go (l : list (ckind * unit_)) : list (nat * nat) :=
                    match l with [] => [] | (_, u') :: r => unit_pairs u' ++ go r end) cs
  | _ => []
  end.
Fixpoint calls_pairs (cs : list call) : list (nat * nat) :=
  match cs with [] => [] | (_, u) :: r => unit_pairs u ++ calls_pairs r end.
Lemma unit_pairs_group cs : unit_pairs (UGroup cs) = calls_pairs cs.
Proof. induction cs as [|[k u] r IH]; [reflexivity|]. cbn [calls_pairs]. rewrite <- IH. reflexivity. Qed.

(* ---------- expressions built from atoms ---------- *)
Definition atoms_of (ms : list (nat * nat)) : list expr := map (fun p => XAtom (fst p) (snd p)) ms.

Lemma closed_atom a na : closedx (XAtom a na) = true.
Proof. reflexivity. Qed.
Lemma oksL_atoms ms : oksL (atoms_of ms) = true.
Proof. induction ms as [|p r IH]; [reflexivity|]. cbn. exact IH. Qed.
Lemma no_or_atoms ms : existsb is_single_or (atoms_of ms) = false.
Proof. induction ms as [|p r IH]; [reflexivity|]. cbn. exact IH. Qed.
Lemma all_atoms ms : ms <> [] -> existsb is_atom (atoms_of ms) = true.
Proof. destruct ms; [congruence|reflexivity]. Qed.

Lemma val_list_atoms v : forall ms, ms <> [] ->
  val_list v (atoms_of ms) = sev v (SAnd (map (fun p => SAtom (fst p)) ms)).
Proof.
  intros ms Hne. destruct ms as [|p r]; [congruence|]. cbn [atoms_of map val_list].
  rewrite pe_no_or.
  2:{ clear. induction r as [|x r IH]; [reflexivity|]. cbn. exact IH. }
  rewrite dx_atom. cbn [sev map]. generalize (v (fst p)). clear Hne p.
  induction r as [|x r IH]; intros acc; cbn [map fold_left fold_right snd sev].
  - rewrite tv_and_TT_r. reflexivity.
  - rewrite IH, dx_atom. cbn [fold_right]. rewrite tv_and_assoc. reflexivity.
Qed.

(* every member negated on its own: (na1 AND na2 ...) *)
Lemma evT_negs_atoms v : forall ms, neg_pairs_ok v ms ->
  evT v (negsT (atoms_of ms)) = sev v (SAnd (map (fun p => SNot (SAtom (fst p))) ms)).
Proof.
  induction ms as [|p r IH]; intros Hn; [reflexivity|].
  cbn [atoms_of map negsT]. rewrite evT_cons. cbn [evF sev map fold_right].
  rewrite (Hn p (or_introl eq_refl)). f_equal.
  apply IH. intros q Hq. apply Hn. right. exact Hq.
Qed.

(* ---------- parse trees and their [sem] ---------- *)
Section FexpInd.
  Variable P : fexp -> Prop.
  Hypothesis Hatom : forall a, P (FAtom a).
  Hypothesis Hnot : forall f, P f -> P (FNot f).
  Hypothesis Hpar : forall e, Forall (Forall P) e -> P (FPar e).
  Fixpoint fexp_ind' (f : fexp) : P f :=
    match f with
    | FAtom a => Hatom a
    | FNot g => Hnot g (fexp_ind' g)
    | FPar e =>
      Hpar e ((fix goE (e : list (list fexp)) : Forall (Forall P) e :=
                 match e with
                 | [] => Forall_nil _
                 | t :: r => Forall_cons t ((fix goT (t : list fexp) : Forall P t :=
                                               match t with
                                               | [] => Forall_nil _
                                               | f :: r' => Forall_cons f (fexp_ind' f) (goT r')
                                               end) t) (goE r)
                 end) e)
    end.
End FexpInd.

Lemma evF_sem v : forall f, evF v f = sev v (sem_of_F f).
Proof.
  induction f as [a|g IH|e IH] using fexp_ind'; [reflexivity|cbn; rewrite IH; reflexivity|].
  cbn [evF sem_of_F sev]. rewrite map_map. f_equal.
  induction IH as [|t r Ht _ IHr]; [reflexivity|]. cbn [map]. rewrite IHr. f_equal.
  cbn [sev]. rewrite map_map. f_equal.
  induction Ht as [|f r' Hf _ IHt]; [reflexivity|]. cbn [map]. rewrite Hf, IHt. reflexivity.
Qed.
Lemma evE_sem v e : evE v e = sev v (sem_of_E e).
Proof.
  unfold evE, sem_of_E. cbn [sev]. rewrite map_map. f_equal.
  induction e as [|t r IH]; [reflexivity|]. cbn [map]. rewrite IH. f_equal.
  unfold evT. cbn [sev]. rewrite map_map. f_equal.
  induction t as [|f r' IHt]; [reflexivity|]. cbn [map]. rewrite evF_sem, IHt. reflexivity.
Qed.

(* ---------- flat units ---------- *)
Definition first_ok (v : nat -> tv) (e : expr) : Prop :=
  match e with
  | XAnd (x :: _) => is_single_or x = false
  | XAtom a na => v na = tv_not (v a)       (* the negated atom is the Kleene negation *)
  | _ => True
  end.
Definition unit_result (v : nat -> tv) (conds : list expr) (mm : option (sem * sem)) : Prop :=
  (conds = [] /\ mm = None) \/
  exists e m n nx, conds = [e] /\ mm = Some (m, n) /\
    okx e = true /\ closedx e = true /\ is_or e = false /\ first_ok v e /\ dx v e = sev v m /\
    mk_not [e] = Some nx /\
    okx nx = true /\ closedx nx = true /\ is_or nx = false /\ dx v nx = sev v n.

Lemma not_single_raw v e : okx e = true -> closedx e = true -> existsb is_atom [e] = false ->
  okx (XNot [e]) = true /\ closedx (XNot [e]) = true /\ dx v (XNot [e]) = tv_not (dx v e).
Proof.
  intros Hok Hc Ha. rewrite okx_not. cbn [oksL]. rewrite Hok, Hc. split; [reflexivity|].
  unfold closedx, dx. rewrite toE_not. cbn [tl existsb] in *. rewrite Ha. cbn [andb].
  split; [apply orb_true_r|]. rewrite evE_single, evT_single. cbn [evF]. rewrite evF_item by exact Hc. reflexivity.
Qed.

Lemma raw_unit_result v tbl (mk : bool -> list tok -> expr) tmpl txt :
  (mk = XRaw \/ mk = XNamed) -> detectable tbl tmpl txt = true ->
  forall ts et, lex tbl txt = Some ts -> parse ts = Some et ->
  unit_result v [mk (wrap_test tmpl) ts] (Some (sem_of_E et, SNot (sem_of_E et))).
Proof.
  intros Hmk Hd ts et Hl Hp. unfold detectable in Hd. rewrite Hl, Hp in Hd.
  set (e := mk (wrap_test tmpl) ts).
  assert (Hok : okx e = true) by (destruct Hmk; subst mk; cbn; rewrite Hp; reflexivity).
  assert (HtoE : toE e = et) by (destruct Hmk; subst mk; cbn; unfold raw_tree; rewrite Hp; reflexivity).
  assert (Hw : wrap_of e = wrap_test tmpl) by (destruct Hmk; subst mk; reflexivity).
  assert (Hc : closedx e = true) by (unfold closedx; rewrite Hw, HtoE; exact Hd).
  assert (Hnor : is_or e = false) by (destruct Hmk; subst mk; reflexivity).
  assert (Hna : existsb is_atom [e] = false) by (destruct Hmk; subst mk; reflexivity).
  assert (Hmn : mk_not [e] = Some (XNot [e])) by (destruct Hmk; subst mk; reflexivity).
  destruct (not_single_raw v e Hok Hc Hna) as [H1 [H2 H3]].
  right. exists e, (sem_of_E et), (SNot (sem_of_E et)), (XNot [e]).
  repeat split; try assumption; try reflexivity.
  - destruct Hmk; subst mk; exact I.
  - unfold dx. rewrite HtoE. apply evE_sem.
  - rewrite H3. unfold dx. rewrite HtoE, evE_sem. reflexivity.
Qed.

Lemma atoms_unit_result v ms : neg_pairs_ok v ms ->
  unit_result v (olist (mk_and (atoms_of ms)))
    (match ms with
     | [] => None
     | [p] => Some (SAtom (fst p), SNot (SAtom (fst p)))
     | _ => Some (SAnd (map (fun p => SAtom (fst p)) ms), SAnd (map (fun p => SNot (SAtom (fst p))) ms))
     end).
Proof.
  intros Hn. destruct ms as [|p [|q r]].
  - left. split; reflexivity.
  - right. cbn [atoms_of map mk_and is_or olist]. exists (XAtom (fst p) (snd p)), (SAtom (fst p)), (SNot (SAtom (fst p))), (XNot [XAtom (fst p) (snd p)]).
    repeat split; try reflexivity.
    + exact (Hn p (or_introl eq_refl)).
    + apply dx_atom.
    + unfold dx. rewrite toE_not. cbn. rewrite (Hn p (or_introl eq_refl)). destruct (v (fst p)); reflexivity.
  - right. set (ms := p :: q :: r) in *. set (l := atoms_of ms).
    assert (Hl2 : gt1 l = true) by reflexivity.
    exists (XAnd l), (SAnd (map (fun p => SAtom (fst p)) ms)), (SAnd (map (fun p => SNot (SAtom (fst p))) ms)), (XNot l).
    assert (Hoks : oksL l = true) by apply oksL_atoms.
    assert (Hat : existsb is_atom l = true) by reflexivity.
    assert (Hnoor : existsb is_single_or (tl l) = false) by apply (no_or_atoms (q :: r)).
    repeat split; try reflexivity.
    + rewrite okx_and. exact Hoks.
    + rewrite dx_and by assumption. apply val_list_atoms. discriminate.
    + rewrite okx_not. exact Hoks.
    + unfold closedx. rewrite toE_not, Hat, Hnoor, Hl2. apply orb_true_r.
    + unfold dx. rewrite toE_not, Hat, Hnoor, Hl2.
      cbn [andb negb]. rewrite evE_single, evT_single, evF_par, evE_single.
      apply evT_negs_atoms. exact Hn.
Qed.

Lemma flat_unit v tbl u conds mm :
  flat tbl u = true -> neg_pairs_ok v (unit_pairs u) ->
  build_cond tbl u = Some conds -> umean tbl u = Some mm -> unit_result v conds mm.
Proof.
  intros Hf Hn Hb Hm. destruct u as [tmpl txt|tmpl txt|ms|ms|c|cs]; cbn [flat] in Hf; try discriminate.
  - cbn in Hb, Hm. destruct (String.eqb tmpl "") eqn:Ee.
    + inversion Hb; inversion Hm; subst. left. tauto.
    + cbn in Hf. pose proof Hf as Hd. unfold detectable in Hd.
      destruct (lex tbl txt) as [ts|] eqn:El; [|discriminate].
      destruct (parse ts) as [et|] eqn:Ep; [|discriminate].
      inversion Hb; inversion Hm; subst. apply (raw_unit_result v tbl XRaw tmpl txt); auto.
  - cbn in Hb, Hm. pose proof Hf as Hd. unfold detectable in Hd.
    destruct (lex tbl txt) as [ts|] eqn:El; [|discriminate].
    destruct (parse ts) as [et|] eqn:Ep; [|discriminate].
    inversion Hb; inversion Hm; subst. apply (raw_unit_result v tbl XNamed tmpl txt); auto.
  - cbn in Hb, Hm, Hn. inversion Hb; subst. pose proof (atoms_unit_result v ms Hn) as H.
    destruct ms as [|p [|q r]]; inversion Hm; subst; exact H.
  - cbn in Hb, Hm, Hn. inversion Hb; subst. pose proof (atoms_unit_result v ms Hn) as H.
    destruct ms as [|p [|q r]]; inversion Hm; subst; exact H.
  - destruct c as [a na| | | |]; try discriminate. cbn in Hb, Hm, Hn. inversion Hb; inversion Hm; subst.
    exact (atoms_unit_result v [(a, na)] Hn).
Qed.

(* ---------- clause expression nests ---------- *)
Section CExpr.
Variable tbl : atom_table.
Variable v : nat -> tv.

Fixpoint cxs_top (l : list cexpr) : option (list expr) :=
  match l with
  | [] => Some []
  | c :: r => match cx tbl c, cxs_top r with
              | Some o, Some l' => Some (olist o ++ l')
              | _, _ => None
              end
  end.
Fixpoint csems_top (l : list cexpr) : option (list sem) :=
  match l with
  | [] => Some []
  | c :: r => match csem tbl c, csems_top r with Some s, Some l' => Some (s :: l') | _, _ => None end
  end.

Lemma cx_and l : cx tbl (CAndE l) = match cxs_top l with Some l' => Some (mk_and l') | None => None end.
Proof.
  cbn [cx]. replace ((fix cxs (l0 : list cexpr) : option (list expr) :=
     match l0 with
     | [] => Some []
     | c :: r => match cx tbl c with
                 | Some o => match cxs r with Some l' => Some (olist o ++ l') | None => None end
                 | None => None
                 end
     end) l) with (cxs_top l); [reflexivity|].
  induction l as [|c r IH]; [reflexivity|]. cbn [cxs_top]. rewrite IH. reflexivity.
Qed.
Lemma cx_or l : cx tbl (COrE l) = match cxs_top l with Some l' => Some (mk_or l') | None => None end.
Proof.
  cbn [cx]. replace ((fix cxs (l0 : list cexpr) : option (list expr) :=
     match l0 with
     | [] => Some []
     | c :: r => match cx tbl c with
                 | Some o => match cxs r with Some l' => Some (olist o ++ l') | None => None end
                 | None => None
                 end
     end) l) with (cxs_top l); [reflexivity|].
  induction l as [|c r IH]; [reflexivity|]. cbn [cxs_top]. rewrite IH. reflexivity.
Qed.
Lemma cx_not l : cx tbl (CNotE l) = match cxs_top l with Some l' => Some (mk_not l') | None => None end.
Proof.
  cbn [cx]. replace ((fix cxs (l0 : list cexpr) : option (list expr) :=
     match l0 with
     | [] => Some []
     | c :: r => match cx tbl c with
                 | Some o => match cxs r with Some l' => Some (olist o ++ l') | None => None end
                 | None => None
                 end
     end) l) with (cxs_top l); [reflexivity|].
  induction l as [|c r IH]; [reflexivity|]. cbn [cxs_top]. rewrite IH. reflexivity.
Qed.

Lemma csem_and l : csem tbl (CAndE l) = match csems_top l with Some l' => Some (SAnd l') | None => None end.
Proof.
  cbn [csem]. replace ((fix csems (l0 : list cexpr) : option (list sem) :=
     match l0 with
     | [] => Some []
     | c :: r => match csem tbl c with
                 | Some s => match csems r with Some l' => Some (s :: l') | None => None end
                 | None => None
                 end
     end) l) with (csems_top l); [reflexivity|].
  induction l as [|c r IH]; [reflexivity|]. cbn [csems_top]. rewrite IH. reflexivity.
Qed.
Lemma csem_or l : csem tbl (COrE l) = match csems_top l with Some l' => Some (SOr l') | None => None end.
Proof.
  cbn [csem]. replace ((fix csems (l0 : list cexpr) : option (list sem) :=
     match l0 with
     | [] => Some []
     | c :: r => match csem tbl c with
                 | Some s => match csems r with Some l' => Some (s :: l') | None => None end
                 | None => None
                 end
     end) l) with (csems_top l); [reflexivity|].
  induction l as [|c r IH]; [reflexivity|]. cbn [csems_top]. rewrite IH. reflexivity.
Qed.
Lemma csems_fix l : (fix csems (l0 : list cexpr) : option (list sem) :=
     match l0 with
     | [] => Some []
     | c :: r => match csem tbl c with
                 | Some s => match csems r with Some l' => Some (s :: l') | None => None end
                 | None => None
                 end
     end) l = csems_top l.
Proof. induction l as [|c r IH]; [reflexivity|]. cbn [csems_top]. rewrite IH. reflexivity. Qed.

Lemma csem_not1 x : is_cand x = false ->
  csem tbl (CNotE [x]) = match csem tbl x with Some s => Some (SNot s) | None => None end.
Proof.
  intros Hx.
  assert (H : csem tbl (CNotE [x]) = match csems_top [x] with
                                     | Some [s] => Some (SNot s)
                                     | Some l' => Some (SAnd (map SNot l'))
                                     | None => None
                                     end).
  { destruct x as [a na|tmpl txt|l|l|l]; try discriminate; cbn [csem csems_top]; rewrite ?csems_fix;
    repeat match goal with |- context [match ?X with _ => _ end] =>
      lazymatch X with context [match _ with _ => _ end] => fail | _ => destruct X end end; reflexivity. }
  rewrite H. cbn [csems_top]. destruct (csem tbl x); reflexivity.
Qed.

Section CexprInd.
  Variable P : cexpr -> Prop.
  Hypothesis Hatom : forall a na, P (CAtom a na).
  Hypothesis Hraw : forall t x, P (CRaw t x).
  Hypothesis Hand : forall l, Forall P l -> P (CAndE l).
  Hypothesis Hor : forall l, Forall P l -> P (COrE l).
  Hypothesis Hnot : forall l, Forall P l -> P (CNotE l).
  Fixpoint cexpr_ind' (c : cexpr) : P c :=
    let go := fix go (l : list cexpr) : Forall P l :=
      match l with [] => Forall_nil _ | e :: r => Forall_cons e (cexpr_ind' e) (go r) end in
    match c with
    | CAtom a na => Hatom a na
    | CRaw t x => Hraw t x
    | CAndE l => Hand l (go l)
    | COrE l => Hor l (go l)
    | CNotE l => Hnot l (go l)
    end.
End CexprInd.

(* what holds of the expression a nest builds *)
Definition Pc (c : cexpr) : Prop :=
  cdom tbl c = true -> neg_pairs_ok v (cpairs c) ->
  exists e s, cx tbl c = Some (Some e) /\ csem tbl c = Some s /\
    okx e = true /\ closedx e = true /\ dx v e = sev v s /\
    is_single_or e = is_single_cor c /\ first_ok v e /\
    (is_cand c = false -> is_xand e = false).

(* members of a list, all satisfying [Pc] *)
Definition Rm (e : expr) (s : sem) : Prop :=
  okx e = true /\ closedx e = true /\ dx v e = sev v s.

Lemma members l : Forall Pc l -> forallb (cdom tbl) l = true -> neg_pairs_ok v (flat_map cpairs l) ->
  exists es ss, cxs_top l = Some es /\ csems_top l = Some ss /\ Forall2 Rm es ss /\
    Forall2 (fun c e => is_single_or e = is_single_cor c /\ first_ok v e /\ (is_cand c = false -> is_xand e = false)) l es.
Proof.
  induction 1 as [|c r Hc _ IH]; intros Hd Hn.
  - exists [], []. repeat split; constructor.
  - cbn [forallb] in Hd. apply andb_prop in Hd. destruct Hd as [Hdc Hdr].
    cbn [flat_map] in Hn. apply neg_pairs_app in Hn. destruct Hn as [Hnc Hnr].
    destruct (Hc Hdc Hnc) as (e & s & Hx & Hs & H1 & H2 & H3 & H4 & H5 & H6).
    destruct (IH Hdr Hnr) as (es & ss & Hxs & Hss & HR & HF).
    exists (e :: es), (s :: ss). cbn [cxs_top csems_top]. rewrite Hx, Hs, Hxs, Hss. cbn [olist app].
    repeat split; constructor; try assumption; repeat split; assumption.
Qed.

Lemma Rm_oksL es ss : Forall2 Rm es ss -> oksL es = true.
Proof. induction 1 as [|e s es ss [H1 [H2 _]] _ IH]; [reflexivity|]. cbn. rewrite H1, H2, IH. reflexivity. Qed.

Lemma pe_all_and : forall es ss, Forall2 Rm es ss -> forallb (fun e => negb (is_single_or e)) es = true ->
  forall acc, pe (map (fun e => (is_single_or e, dx v e)) es) acc = tv_and acc (sev v (SAnd ss)).
Proof.
  induction 1 as [|e s es ss [_ [_ Hd]] _ IH]; intros Hf acc.
  - cbn. symmetry. apply tv_and_TT_r.
  - cbn [forallb] in Hf. apply andb_prop in Hf. destruct Hf as [He Hr]. apply negb_true_iff in He.
    cbn [map pe]. rewrite He, Hd, (IH Hr). cbn [sev map fold_right]. rewrite tv_and_assoc. reflexivity.
Qed.
Lemma val_all_and es ss : Forall2 Rm es ss -> forallb (fun e => negb (is_single_or e)) es = true ->
  es <> [] -> val_list v es = sev v (SAnd ss).
Proof.
  intros H Hf Hne. destruct H as [|e s es ss [_ [_ Hd]] Hr]; [congruence|].
  cbn [forallb] in Hf. apply andb_prop in Hf. destruct Hf as [_ Hf].
  cbn [val_list]. rewrite (pe_all_and es ss Hr Hf), Hd. reflexivity.
Qed.
Lemma evE_orsE es ss : Forall2 Rm es ss -> evE v (orsE es) = sev v (SOr ss).
Proof.
  induction 1 as [|e s es ss [_ [Hc Hd]] _ IH]; [reflexivity|].
  cbn [orsE]. rewrite evE_cons, evT_single, (evF_item v e Hc), Hd, IH. reflexivity.
Qed.

Lemma all_cexpr : forall c, Pc c.
Proof.
  induction c as [a na|tmpl txt|l IH|l IH|l IH] using cexpr_ind'; intros Hd Hn.
  - (* atom *)
    exists (XAtom a na), (SAtom a). repeat split; try reflexivity.
    + apply dx_atom.
    + exact (Hn (a, na) (or_introl eq_refl)).
  - (* raw *)
    cbn [cdom] in Hd. pose proof Hd as Hdet. unfold detectable in Hdet.
    destruct (lex tbl txt) as [ts|] eqn:El; [|discriminate].
    destruct (parse ts) as [et|] eqn:Ep; [|discriminate].
    exists (XRaw (wrap_test tmpl) ts), (sem_of_E et).
    assert (HtoE : toE (XRaw (wrap_test tmpl) ts) = et) by (cbn; unfold raw_tree; rewrite Ep; reflexivity).
    repeat split; try reflexivity.
    + cbn [cx]. rewrite El. reflexivity.
    + cbn [csem]. rewrite El, Ep. reflexivity.
    + cbn. rewrite Ep. reflexivity.
    + unfold closedx. rewrite HtoE. exact Hdet.
    + unfold dx. rewrite HtoE. apply evE_sem.
  - (* And *)
    cbn [cdom] in Hd. apply andb_prop in Hd. destruct Hd as [Hne Hall].
    assert (Hdom : forallb (cdom tbl) l = true).
    { clear -Hall. induction l as [|x r IHr]; [reflexivity|]. cbn in *. apply andb_prop in Hall. destruct Hall as [Hx Hr].
      apply andb_prop in Hx. destruct Hx as [Hx _]. rewrite Hx, (IHr Hr). reflexivity. }
    assert (Hnsc : forallb (fun x => negb (is_single_cor x)) l = true).
    { clear -Hall. induction l as [|x r IHr]; [reflexivity|]. cbn in *. apply andb_prop in Hall. destruct Hall as [Hx Hr].
      apply andb_prop in Hx. destruct Hx as [_ Hx]. rewrite Hx, (IHr Hr). reflexivity. }
    cbn [cpairs] in Hn.
    destruct (members l IH Hdom Hn) as (es & ss & Hxs & Hss & HR & HF).
    assert (Hnso : forallb (fun e => negb (is_single_or e)) es = true).
    { clear -HF Hnsc. induction HF as [|c e l es [H1 _] _ IHf]; [reflexivity|]. cbn in *.
      apply andb_prop in Hnsc. destruct Hnsc as [Hc Hr]. rewrite H1, Hc, (IHf Hr). reflexivity. }
    rewrite cx_and, csem_and, Hxs, Hss.
    destruct HR as [|e1 s1 es' ss' He1 HR']; [destruct l; [discriminate|inversion HF]|].
    destruct HR' as [|e2 s2 es'' ss'' He2 HR''].
    + (* one member *)
      destruct He1 as [Hok [Hcl Hdx]].
      assert (Hso : is_single_or e1 = false).
      { cbn in Hnso. rewrite andb_true_r in Hnso. apply negb_true_iff in Hnso. exact Hnso. }
      assert (Hsev : sev v (SAnd [s1]) = sev v s1) by (cbn; apply tv_and_TT_r).
      cbn [mk_and]. destruct (is_or e1) eqn:Eor.
      * exists (XAnd [e1]), (SAnd [s1]).
        split; [reflexivity|]. split; [reflexivity|]. split; [rewrite okx_and; exact Hok|].
        split; [exact Hcl|]. split; [rewrite dx_and_single, Hsev; exact Hdx|].
        split; [reflexivity|]. split; [exact Hso|]. intros; discriminate.
      * exists e1, (SAnd [s1]). inversion HF as [|c0 e0 l0 es0 [Hf1 [Hf2 Hf3]] HF0]; subst.
        split; [reflexivity|]. split; [reflexivity|]. split; [exact Hok|].
        split; [exact Hcl|]. split; [rewrite Hsev; exact Hdx|].
        split; [exact Hso|]. split; [exact Hf2|]. intros; discriminate.
    + (* several members *)
      set (es := e1 :: e2 :: es'') in *. set (ss := s1 :: s2 :: ss'') in *.
      assert (HRall : Forall2 Rm es ss) by (constructor; [exact He1|constructor; [exact He2|exact HR'']]).
      exists (XAnd es), (SAnd ss).
      split; [reflexivity|]. split; [reflexivity|].
      split; [rewrite okx_and; exact (Rm_oksL es ss HRall)|].
      split; [unfold closedx; rewrite toE_and; apply orb_true_r|].
      split; [rewrite dx_and by (try exact (Rm_oksL es ss HRall); reflexivity);
              apply val_all_and; [exact HRall|exact Hnso|discriminate]|].
      split; [reflexivity|].
      split; [cbn in Hnso; apply andb_prop in Hnso; destruct Hnso as [H1 _]; apply negb_true_iff in H1; exact H1|].
      intros; discriminate.
  - (* Or *)
    cbn [cdom] in Hd. apply andb_prop in Hd. destruct Hd as [Hne Hdom].
    cbn [cpairs] in Hn.
    destruct (members l IH Hdom Hn) as (es & ss & Hxs & Hss & HR & HF).
    rewrite cx_or, csem_or, Hxs, Hss.
    destruct HR as [|e1 s1 es' ss' He1 HR']; [destruct l; [discriminate|inversion HF]|].
    destruct HR' as [|e2 s2 es'' ss'' He2 HR''].
    + destruct He1 as [Hok [Hcl Hdx]].
      exists (XOr [e1]), (SOr [s1]). inversion HF as [|c0 e0 l0 es0 _ HF0]; subst. inversion HF0; subst.
      split; [reflexivity|]. split; [reflexivity|]. split; [rewrite okx_or; exact Hok|].
      split; [exact Hcl|]. split; [rewrite dx_or_single, Hdx; cbn; symmetry; apply tv_or_TF_r|].
      split; [reflexivity|]. split; [exact I|]. intros _; reflexivity.
    + set (es := e1 :: e2 :: es'') in *. set (ss := s1 :: s2 :: ss'') in *.
      assert (HRall : Forall2 Rm es ss) by (constructor; [exact He1|constructor; [exact He2|exact HR'']]).
      exists (XOr es), (SOr ss).
      assert (Hl : exists c1 c2 r, l = c1 :: c2 :: r).
      { inversion HF as [|c1 ? l1 ? _ HF1]; subst. inversion HF1 as [|c2 ? l2 ? _ HF2]; subst. eauto. }
      destruct Hl as (c1 & c2 & r & ->).
      split; [reflexivity|]. split; [reflexivity|].
      split; [rewrite okx_or; exact (Rm_oksL es ss HRall)|].
      split; [unfold closedx; rewrite toE_or; apply orb_true_r|].
      split; [unfold dx; rewrite toE_or; unfold es at 1; rewrite evE_single, evT_single, evF_par; exact (evE_orsE es ss HRall)|].
      split; [reflexivity|]. split; [exact I|]. intros _; reflexivity.
  - (* Not *)
    cbn [cdom] in Hd. destruct l as [|x [|y r]]; try discriminate.
    apply andb_prop in Hd. destruct Hd as [Hdx Hnc]. apply negb_true_iff in Hnc.
    cbn [cpairs flat_map] in Hn. rewrite app_nil_r in Hn.
    inversion IH as [|? ? Hx _]; subst.
    destruct (Hx Hdx Hn) as (e & s & Hcx & Hcs & Hok & Hcl & Hdv & Hso & Hfo & Hxa).
    specialize (Hxa Hnc).
    rewrite cx_not, (csem_not1 x Hnc), Hcs. cbn [cxs_top]. rewrite Hcx. cbn [olist app].
    assert (Hmk : mk_not [e] = Some (XNot [e])) by (destruct e; try reflexivity; discriminate).
    rewrite Hmk. exists (XNot [e]), (SNot s).
    destruct (is_atom e) eqn:Ea.
    + destruct e as [a na| | | | |]; try discriminate. cbn [first_ok] in Hfo.
      split; [reflexivity|]. split; [reflexivity|]. split; [reflexivity|]. split; [reflexivity|].
      split; [unfold dx; rewrite toE_not; cbn; rewrite Hfo; rewrite <- Hdv; rewrite dx_atom; destruct (v a); reflexivity|].
      split; [reflexivity|]. split; [exact I|]. intros _; reflexivity.
    + assert (Hna : existsb is_atom [e] = false) by (cbn; rewrite Ea; reflexivity).
      destruct (not_single_raw v e Hok Hcl Hna) as [H1 [H2 H3]].
      split; [reflexivity|]. split; [reflexivity|]. split; [exact H1|]. split; [exact H2|].
      split; [rewrite H3, Hdv; reflexivity|].
      split; [reflexivity|]. split; [exact I|]. intros _; reflexivity.
Qed.
End CExpr.

(* a clause expression nest given to Where / Or (not to the chain method Not) *)
Definition unit_res0 (v : nat -> tv) (conds : list expr) (mm : option (sem * sem)) : Prop :=
  exists e m n, conds = [e] /\ mm = Some (m, n) /\
    okx e = true /\ closedx e = true /\ is_or e = false /\ first_ok v e /\ dx v e = sev v m.

Lemma expr_unit v tbl c conds mm :
  cdom tbl c = true -> is_single_cor c = false -> neg_pairs_ok v (cpairs c) ->
  build_cond tbl (UExpr c) = Some conds -> umean tbl (UExpr c) = Some mm -> unit_res0 v conds mm.
Proof.
  intros Hd Hs Hn Hb Hm.
  destruct (all_cexpr tbl v c Hd Hn) as (e & s & Hcx & Hcs & Hok & Hcl & Hdx & Hso & Hfo & _).
  cbn [build_cond] in Hb. rewrite Hcx in Hb. cbn [olist mk_and] in Hb.
  cbn [umean] in Hm. rewrite Hcs in Hm. inversion Hm; subst mm; clear Hm.
  rewrite Hs in Hso.
  destruct (is_or e) eqn:Eor; cbn [olist] in Hb; inversion Hb; subst conds; clear Hb.
  - eexists (XAnd [e]), s, _. split; [reflexivity|]. split; [reflexivity|].
    split; [rewrite okx_and; exact Hok|]. split; [exact Hcl|]. split; [reflexivity|].
    split; [exact Hso|]. rewrite dx_and_single. exact Hdx.
  - eexists e, s, _. split; [reflexivity|]. split; [reflexivity|].
    split; [exact Hok|]. split; [exact Hcl|]. split; [exact Eor|]. split; [exact Hfo|]. exact Hdx.
Qed.

(* ---------- groups and chains ---------- *)
Lemma build_cond_group tbl cs :
  build_cond tbl (UGroup cs) =
  match build_chain_from tbl [] cs with
  | None => None
  | Some [] => Some []
  | Some wh => Some (olist (mk_and (olist (mk_and (match wh with [XOr l] => [XAnd l] | _ => wh end)))))
  end.
Proof.
  cbn [build_cond].
  assert (H : forall cs acc,
    (fix chain (acc : list expr) (cs : list (ckind * unit_)) : option (list expr) :=
       match cs with
       | [] => Some acc
       | (k, u) :: r =>
         match build_cond tbl u with
         | None => None
         | Some [] => chain acc r
         | Some conds =>
           chain (acc ++ match k with
                         | KWhere => conds
                         | KNot => olist (mk_not conds)
                         | KOr => match mk_and conds with Some a => [XOr [a]] | None => [] end
                         end) r
         end
       end) acc cs = build_chain_from tbl acc cs).
  { clear cs. induction cs as [|[k u] r IH]; intros acc; [reflexivity|].
    cbn [build_chain_from]. destruct (build_cond tbl u) as [[|c0 conds]|]; [apply IH|apply IH|reflexivity]. }
  rewrite H. reflexivity.
Qed.

Definition seq_of (lm : list (ckind * (sem * sem))) : list (bool * sem) :=
  map (fun kmn => match kmn with
                  | (KWhere, (m, _)) => (false, m)
                  | (KNot, (_, n)) => (false, n)
                  | (KOr, (m, _)) => (true, m)
                  end) lm.

Lemma umean_group tbl cs :
  umean tbl (UGroup cs) =
  match mean_calls tbl cs with
  | None => None
  | Some [] => Some None
  | Some [(KNot, (_, n))] => Some (Some (n, SNot n))
  | Some [(_, (m, n))] => Some (Some (m, n))
  | Some l =>
    let m := prec_sem (seq_of l) in
    let has_or := existsb (fun kmn => match fst kmn with KOr => true | _ => false end) (tl l) in
    let n := if negb has_or && gt1 l then SAnd (map (fun bs => SNot (snd bs)) (seq_of l)) else SNot m in
    Some (Some (m, n))
  end.
Proof.
  cbn [umean].
  assert (H : forall cs,
    (fix chain (cs : list (ckind * unit_)) : option (list (ckind * (sem * sem))) :=
       match cs with
       | [] => Some []
       | (k, u) :: r =>
         match umean tbl u, chain r with
         | Some None, Some l => Some l
         | Some (Some mn), Some l => Some ((k, mn) :: l)
         | _, _ => None
         end
       end) cs = mean_calls tbl cs).
  { clear cs. induction cs as [|[k u] r IH]; [reflexivity|]. cbn [mean_calls]. rewrite IH. reflexivity. }
  rewrite H. reflexivity.
Qed.

Lemma chain_seq_mean tbl cs : chain_seq tbl cs = option_map seq_of (mean_calls tbl cs).
Proof.
  induction cs as [|[k u] r IH]; [reflexivity|]. cbn [chain_seq mean_calls]. rewrite IH.
  destruct (umean tbl u) as [[[m n]|]|]; destruct (mean_calls tbl r); try reflexivity; destruct k; reflexivity.
Qed.

(* the relation, with the facts needed to go through Where.Build *)
Definition R' (v : nat -> tv) (e : expr) (p : bool * sem) : Prop :=
  R v e p /\ is_or e = fst p /\ first_ok v e.

(* ---- the chain method Not over a clause-expression nest ---- *)
(* the unknown value is its own negation: the structural facts of [all_cexpr] need no valuation *)
Definition vU : nat -> tv := fun _ => TU.
Lemma neg_pairs_vU ms : neg_pairs_ok vU ms.
Proof. intros p _. reflexivity. Qed.

(* ---- clause.And with one operand is that operand ---- *)
Lemma cpairs_strip : forall c, cpairs (cstrip c) = cpairs c.
Proof.
  induction c as [a na|tmpl txt|l IH|l IH|l IH] using cexpr_ind'; try reflexivity.
  destruct l as [|x [|y r]]; try reflexivity.
  inversion IH as [|? ? Hx _]; subst. cbn [cstrip cpairs flat_map]. rewrite app_nil_r. exact Hx.
Qed.

Lemma cdom_strip tbl : forall c, cdom tbl c = true -> is_single_cor c = false ->
  cdom tbl (cstrip c) = true /\ is_single_cor (cstrip c) = false.
Proof.
  induction c as [a na|tmpl txt|l IH|l IH|l IH] using cexpr_ind'; intros Hd Hs; try (split; assumption).
  destruct l as [|x [|y r]]; try (split; assumption).
  inversion IH as [|? ? Hx _]; subst. cbn [cstrip].
  cbn [cdom forallb] in Hd. rewrite andb_true_r in Hd. cbn [andb] in Hd.
  apply andb_prop in Hd. destruct Hd as [Hdx Hsx]. apply negb_true_iff in Hsx.
  apply Hx; assumption.
Qed.

(* the stripped nest is never a single-operand clause.And *)
Lemma strip_shape : forall c, match cstrip c with CAndE [_] => False | _ => True end.
Proof.
  induction c as [a na|tmpl txt|l IH|l IH|l IH] using cexpr_ind'; try exact I.
  destruct l as [|x [|y r]]; try exact I.
  inversion IH as [|? ? Hx _]; subst. cbn [cstrip]. exact Hx.
Qed.

(* what Where / Not / Or receive is the same for the nest and for the stripped nest *)
Lemma build_strip tbl : forall c, cdom tbl c = true ->
  build_cond tbl (UExpr c) = build_cond tbl (UExpr (cstrip c)).
Proof.
  induction c as [a na|tmpl txt|l IH|l IH|l IH] using cexpr_ind'; intros Hd; try reflexivity.
  destruct l as [|x [|y r]]; try reflexivity.
  inversion IH as [|? ? Hx _]; subst. cbn [cstrip].
  cbn [cdom forallb] in Hd. rewrite andb_true_r in Hd. cbn [andb] in Hd.
  apply andb_prop in Hd. destruct Hd as [Hdx _].
  rewrite <- (Hx Hdx).
  destruct (all_cexpr tbl vU x Hdx (neg_pairs_vU _)) as (ex & sx & Hcx & _).
  cbn [build_cond]. rewrite cx_and. cbn [cxs_top]. rewrite Hcx. cbn [olist app mk_and].
  destruct (is_or ex) eqn:E; cbn [olist mk_and is_or]; [reflexivity|]. rewrite E. reflexivity.
Qed.

(* the value of the nest and of the stripped nest *)
Lemma csem_strip tbl v : forall c, cdom tbl c = true ->
  forall s s', csem tbl c = Some s -> csem tbl (cstrip c) = Some s' -> sev v s = sev v s'.
Proof.
  induction c as [a na|tmpl txt|l IH|l IH|l IH] using cexpr_ind'; intros Hd s s' Hs Hs';
    try (cbn [cstrip] in Hs'; rewrite Hs in Hs'; inversion Hs'; reflexivity).
  destruct l as [|x [|y r]]; try (cbn [cstrip] in Hs'; rewrite Hs in Hs'; inversion Hs'; reflexivity).
  inversion IH as [|? ? Hx _]; subst. cbn [cstrip] in Hs'.
  cbn [cdom forallb] in Hd. rewrite andb_true_r in Hd. cbn [andb] in Hd.
  apply andb_prop in Hd. destruct Hd as [Hdx _].
  rewrite csem_and in Hs. cbn [csems_top] in Hs.
  destruct (csem tbl x) as [sx|] eqn:Ex; [|discriminate]. inversion Hs; subst s.
  cbn [sev map fold_right]. rewrite tv_and_TT_r. exact (Hx Hdx sx s' eq_refl Hs').
Qed.

(* every member negated *)
Lemma negs_Rm v : forall es ss, Forall2 (Rm v) es ss -> Forall (first_ok v) es ->
  evT v (negsT es) = sev v (SAnd (map SNot ss)).
Proof.
  induction 1 as [|e s es ss [_ [Hc Hd]] _ IH]; intros Hf; [reflexivity|].
  inversion Hf as [|? ? Hfe Hfr]; subst.
  cbn [negsT map]. rewrite evT_cons, (IH Hfr).
  change (sev v (SAnd (SNot s :: map SNot ss))) with (tv_and (tv_not (sev v s)) (sev v (SAnd (map SNot ss)))).
  f_equal. rewrite <- Hd.
  destruct e as [a na| | | | |]; try (cbn [evF]; rewrite evF_item by exact Hc; reflexivity).
  cbn [evF]. cbn [first_ok] in Hfe. rewrite Hfe, dx_atom. reflexivity.
Qed.

Lemma no_single_or_members (Q : cexpr -> expr -> Prop) : forall l es,
  Forall2 (fun c e => is_single_or e = is_single_cor c /\ Q c e) l es ->
  forallb (fun x => negb (is_single_cor x)) l = true -> existsb is_single_or es = false.
Proof.
  induction 1 as [|c e l es [H1 _] _ IH]; intros Hn; [reflexivity|].
  cbn [forallb] in Hn. apply andb_prop in Hn. destruct Hn as [Hc Hr]. apply negb_true_iff in Hc.
  cbn [existsb]. rewrite H1, Hc. exact (IH Hr).
Qed.

Lemma first_ok_members v (Q1 Q2 : cexpr -> expr -> Prop) : forall l es,
  Forall2 (fun c e => Q1 c e /\ first_ok v e /\ Q2 c e) l es -> Forall (first_ok v) es.
Proof. induction 1 as [|c e l es [_ [H2 _]] _ IH]; constructor; assumption. Qed.

(* nests the chain method Not can be applied to inside the domain: the built expression is not an
   AND of several members, or one of the members has a structured negation *)
Definition nneg (tbl : atom_table) (c : cexpr) : bool :=
  match build_cond tbl (UExpr c) with
  | Some [XAnd ((_ :: _ :: _) as l)] => existsb is_atom l
  | Some [_] => true
  | _ => false
  end.

Lemma expr_unit_not v tbl c e m n :
  cdom tbl c = true -> is_single_cor c = false -> neg_pairs_ok v (cpairs c) -> nneg tbl c = true ->
  build_cond tbl (UExpr c) = Some [e] -> umean tbl (UExpr c) = Some (Some (m, n)) ->
  exists nx, mk_not [e] = Some nx /\ okx nx = true /\ closedx nx = true /\ is_or nx = false /\
             dx v nx = sev v n.
Proof.
  intros Hd Hs Hn Hng Hb Hm.
  destruct (cdom_strip tbl c Hd Hs) as [Hd' Hs'].
  unfold nneg in Hng. rewrite Hb in Hng.
  rewrite (build_strip tbl c Hd) in Hb.
  rewrite <- cpairs_strip in Hn.
  (* the Not-reading is defined on the stripped nest *)
  cbn [umean] in Hm. destruct (csem tbl c) as [s|] eqn:Ecs; [|discriminate].
  pose proof (strip_shape c) as Hshape.
  remember (cstrip c) as c' eqn:Ec'.
  destruct (all_cexpr tbl v c' Hd' Hn) as (e0 & s' & Hcx & Hcs' & Hok & Hcl & Hdx & Hso & Hfo & Hxa).
  assert (Hsev : sev v s = sev v s') by (subst c'; exact (csem_strip tbl v c Hd s s' Ecs Hcs')).
  rewrite Hcs' in Hm.
  cbn [build_cond] in Hb. rewrite Hcx in Hb. cbn [olist mk_and] in Hb.
  destruct c' as [a na|tmpl txt|l|l|l].
  - (* atom *)
    cbn [cx] in Hcx. inversion Hcx; subst e0. cbn [is_or olist] in Hb. inversion Hb; subst e.
    inversion Hm; subst m n. cbn [csem] in Hcs'. inversion Hcs'; subst s'.
    exists (XNot [XAtom a na]). cbn [first_ok] in Hfo.
    split; [reflexivity|]. split; [reflexivity|]. split; [reflexivity|]. split; [reflexivity|].
    cbn [sev]. rewrite Hsev. cbn [sev].
    unfold dx. rewrite toE_not. cbn. rewrite Hfo. destruct (v a); reflexivity.
  - (* raw *)
    specialize (Hxa eq_refl).
    assert (Hna : is_atom e0 = false).
    { cbn [cx] in Hcx. destruct (lex tbl txt); [|discriminate]. inversion Hcx; reflexivity. }
    assert (Hor : is_or e0 = false).
    { cbn [cx] in Hcx. destruct (lex tbl txt); [|discriminate]. inversion Hcx; reflexivity. }
    rewrite Hor in Hb. cbn [olist] in Hb. inversion Hb; subst e. inversion Hm; subst m n.
    assert (Hmk : mk_not [e0] = Some (XNot [e0])) by (destruct e0; try reflexivity; discriminate).
    assert (Hna1 : existsb is_atom [e0] = false) by (cbn; rewrite Hna; reflexivity).
    destruct (not_single_raw v e0 Hok Hcl Hna1) as [H1 [H2 H3]].
    exists (XNot [e0]). split; [exact Hmk|]. split; [exact H1|]. split; [exact H2|]. split; [reflexivity|].
    cbn [sev]. rewrite Hsev, H3, Hdx. reflexivity.
  - (* And: several members (a single one was stripped) *)
    cbn [cdom] in Hd'. apply andb_prop in Hd'. destruct Hd' as [Hne Hall].
    assert (Hdom : forallb (cdom tbl) l = true).
    { clear -Hall. induction l as [|x r IHr]; [reflexivity|]. cbn in *. apply andb_prop in Hall. destruct Hall as [Hx Hr].
      apply andb_prop in Hx. destruct Hx as [Hx _]. rewrite Hx, (IHr Hr). reflexivity. }
    assert (Hnsc : forallb (fun x => negb (is_single_cor x)) l = true).
    { clear -Hall. induction l as [|x r IHr]; [reflexivity|]. cbn in *. apply andb_prop in Hall. destruct Hall as [Hx Hr].
      apply andb_prop in Hx. destruct Hx as [_ Hx]. rewrite Hx, (IHr Hr). reflexivity. }
    cbn [cpairs] in Hn.
    assert (HPc : Forall (Pc tbl v) l) by (apply Forall_forall; intros x _; apply all_cexpr).
    destruct (members tbl v l HPc Hdom Hn) as (es & ss & Hxs & Hss & HR & HF).
    rewrite cx_and, Hxs in Hcx. rewrite csem_and, Hss in Hcs'. inversion Hcs'; subst s'.
    destruct l as [|x [|y r]]; [discriminate|exact (False_ind _ Hshape)|].
    inversion HF as [|? e1 ? es1 Hf1 HF1]; subst. inversion HF1 as [|? e2 ? es2 Hf2 HF2]; subst.
    cbn [mk_and] in Hcx. inversion Hcx; subst e0. cbn [is_or olist] in Hb. inversion Hb; subst e.
    cbn [existsb] in Hng.
    inversion Hm; subst m n.
    set (es := e1 :: e2 :: es2) in *.
    assert (Hnso : existsb is_single_or (tl es) = false).
    { cbn [forallb] in Hnsc. apply andb_prop in Hnsc. destruct Hnsc as [_ Hnsc].
      unfold es. cbn [tl]. exact (no_single_or_members _ _ _ HF1 Hnsc). }
    assert (Hfo' : Forall (first_ok v) es).
    { exact (first_ok_members v _ _ _ _ HF). }
    assert (Hat : existsb is_atom es = true) by exact Hng.
    exists (XNot es). split; [reflexivity|].
    split; [rewrite okx_not; exact (Rm_oksL v es ss HR)|].
    split; [unfold closedx; rewrite toE_not, Hat, Hnso; apply orb_true_r|].
    split; [reflexivity|].
    unfold dx. rewrite toE_not, Hat, Hnso. cbn [andb negb gt1 es].
    rewrite evE_single, evT_single, evF_par, evE_single. exact (negs_Rm v es ss HR Hfo').
  - (* Or *)
    specialize (Hxa eq_refl).
    rewrite cx_or in Hcx. destruct (cxs_top tbl l) as [es|] eqn:Exs; [|discriminate].
    destruct es as [|e1 es']; [discriminate|]. cbn [mk_or] in Hcx. inversion Hcx; subst e0.
    cbn [is_or olist] in Hb. inversion Hb; subst e. inversion Hm; subst m n.
    assert (Hna1 : existsb is_atom [XOr (e1 :: es')] = false) by reflexivity.
    destruct (not_single_raw v _ Hok Hcl Hna1) as [H1 [H2 H3]].
    exists (XNot [XOr (e1 :: es')]). split; [reflexivity|]. split; [exact H1|]. split; [exact H2|]. split; [reflexivity|].
    cbn [sev]. rewrite Hsev, H3, Hdx. reflexivity.
  - (* Not *)
    rewrite cx_not in Hcx. destruct (cxs_top tbl l) as [es|] eqn:Exs; [|discriminate].
    assert (Hform : exists k, e0 = XNot k).
    { destruct es as [|e1 [|e2 r]]; cbn [mk_not] in Hcx.
      - discriminate.
      - destruct e1; inversion Hcx; subst; eexists; reflexivity.
      - destruct e1; inversion Hcx; subst; eexists; reflexivity. }
    destruct Hform as [k ->].
    cbn [is_or olist] in Hb. inversion Hb; subst e. inversion Hm; subst m n.
    assert (Hna1 : existsb is_atom [XNot k] = false) by reflexivity.
    destruct (not_single_raw v _ Hok Hcl Hna1) as [H1 [H2 H3]].
    exists (XNot [XNot k]). split; [reflexivity|]. split; [exact H1|]. split; [exact H2|]. split; [reflexivity|].
    cbn [sev]. rewrite Hsev, H3, Hdx. reflexivity.
Qed.

(* units the chain method Not can be applied to inside the theorem's domain: flat units, and
   groups with at least two effective members that either contain an OR alternative (negated as a
   whole) or have a member with a structured negation (every member negated); the remaining
   group shape is the known finding of 9.2 *)
Definition negatable (tbl : atom_table) (u : unit_) : bool :=
  match u with
  | UGroup cs =>
    match build_chain tbl cs with
    | Some ((_ :: _ :: _) as wh) => existsb is_single_or (tl wh) || existsb is_atom wh
    | _ => false
    end
  | UExpr c => flat tbl u || (cdom tbl c && negb (is_single_cor c) && nneg tbl c)
  | _ => flat tbl u
  end.

Definition group_first_ok (tbl : atom_table) (cs : list call) : bool :=
  match build_chain tbl cs with Some (e :: _) => negb (is_single_or e) | _ => true end.
Fixpoint domx (tbl : atom_table) (u : unit_) : bool :=
  match u with
  | UGroup cs =>
    group_first_ok tbl cs &&
    (fix go (l : list (ckind * unit_)) : bool :=
       match l with
       | [] => true
       | (k, u') :: r => domx tbl u' && (match k with KNot => negatable tbl u' | _ => true end) && go r
       end) cs
  | UExpr c => flat tbl u || (cdom tbl c && negb (is_single_cor c))
  | _ => flat tbl u
  end.
Fixpoint calls_domx (tbl : atom_table) (cs : list call) : bool :=
  match cs with
  | [] => true
  | (k, u) :: r => domx tbl u && (match k with KNot => negatable tbl u | _ => true end) && calls_domx tbl r
  end.
Lemma domx_group tbl cs : domx tbl (UGroup cs) = group_first_ok tbl cs && calls_domx tbl cs.
Proof.
  cbn [domx]. f_equal. induction cs as [|[k u] r IH]; [reflexivity|]. cbn [calls_domx]. rewrite <- IH. reflexivity.
Qed.

Definition unit_res (v : nat -> tv) (isflat : bool) (conds : list expr) (mm : option (sem * sem)) : Prop :=
  (conds = [] /\ mm = None) \/
  exists e m n, conds = [e] /\ mm = Some (m, n) /\
    okx e = true /\ closedx e = true /\ is_or e = false /\ first_ok v e /\ dx v e = sev v m /\
    (isflat = true -> exists nx, mk_not [e] = Some nx /\
       okx nx = true /\ closedx nx = true /\ is_or nx = false /\ dx v nx = sev v n).

Definition Punit (v : nat -> tv) (tbl : atom_table) (u : unit_) : Prop :=
  forall conds mm, domx tbl u = true -> neg_pairs_ok v (unit_pairs u) ->
  build_cond tbl u = Some conds -> umean tbl u = Some mm -> unit_res v (negatable tbl u) conds mm.


Lemma closedx_single_or e : closedx (XOr [e]) = closedx e.
Proof. reflexivity. Qed.
Lemma closedx_single_and e : closedx (XAnd [e]) = closedx e.
Proof. reflexivity. Qed.

Lemma chain_R v tbl : forall cs acc exprs lm,
  Forall (fun c => Punit v tbl (snd c)) cs -> calls_domx tbl cs = true ->
  neg_pairs_ok v (calls_pairs cs) ->
  build_chain_from tbl acc cs = Some exprs -> mean_calls tbl cs = Some lm ->
  exists new, exprs = acc ++ new /\ Forall2 (R' v) new (seq_of lm).
Proof.
  induction cs as [|[k u] r IH]; intros acc exprs lm HP Hd Hn Hb Hm.
  - inversion Hb; inversion Hm; subst. exists []. rewrite app_nil_r. split; [reflexivity|constructor].
  - inversion HP as [|? ? Hu HPr]; subst. cbn [snd] in Hu.
    cbn [calls_domx] in Hd. apply andb_prop in Hd. destruct Hd as [Hd Hdr]. apply andb_prop in Hd. destruct Hd as [Hdu Hk].
    cbn [calls_pairs] in Hn. apply neg_pairs_app in Hn. destruct Hn as [Hnu Hnr].
    cbn [build_chain_from mean_calls] in Hb, Hm.
    destruct (build_cond tbl u) as [conds|] eqn:Eb; [|discriminate].
    destruct (umean tbl u) as [mm|] eqn:Em; [|discriminate].
    destruct (mean_calls tbl r) as [lr|] eqn:Er; [|destruct mm; discriminate].
    destruct (Hu conds mm Hdu Hnu Eb Em) as [[-> ->]|[e [m [n [-> [-> [Hok [Hc [Hnor [Hfo [Hdx Hneg]]]]]]]]]]].
    + inversion Hm; subst. exact (IH _ _ _ HPr Hdr Hnr Hb eq_refl).
    + inversion Hm; subst. destruct k.
      * destruct (IH _ _ _ HPr Hdr Hnr Hb eq_refl) as [new [-> HF]]. exists (e :: new).
        rewrite <- app_assoc. split; [reflexivity|]. constructor; [|exact HF].
        repeat split; cbn [fst snd]; try assumption. destruct e; try reflexivity; discriminate.
      * destruct (Hneg Hk) as [nx [Hmk [Hokn [Hcn [Hnorn Hdn]]]]]. rewrite Hmk in Hb. cbn [olist] in Hb.
        destruct (IH _ _ _ HPr Hdr Hnr Hb eq_refl) as [new [-> HF]]. exists (nx :: new).
        rewrite <- app_assoc. split; [reflexivity|]. constructor; [|exact HF].
        repeat split; cbn [fst snd]; try assumption.
        -- destruct nx; try reflexivity; discriminate.
        -- destruct nx; try exact I; exfalso; cbn in Hmk; destruct e; inversion Hmk.
      * cbn [mk_and] in Hb. rewrite Hnor in Hb.
        destruct (IH _ _ _ HPr Hdr Hnr Hb eq_refl) as [new [-> HF]]. exists (XOr [e] :: new).
        rewrite <- app_assoc. split; [reflexivity|]. constructor; [|exact HF].
        repeat split; cbn [fst snd]; try assumption; try reflexivity.
Qed.


(* ---------- every unit of the domain ---------- *)
Lemma R'_oksL v l sq : Forall2 (R' v) l sq -> oksL l = true.
Proof.
  induction 1 as [|e p l sq [[H1 [H2 _]] _] _ IH]; [reflexivity|]. cbn. rewrite H1, H2, IH. reflexivity.
Qed.
Lemma R'_R v l sq : Forall2 (R' v) l sq -> Forall2 (R v) l sq.
Proof. induction 1 as [|e p l sq [H _] _ IH]; constructor; assumption. Qed.

Lemma flat_to_res v b conds mm :
  unit_result v conds mm -> unit_res v b conds mm.
Proof.
  intros [H|H]; [left; exact H|].
  destruct H as (e & m & n & nx & -> & -> & H1 & H2 & H3 & H4 & H5 & H6 & H7 & H8 & H9 & H10).
  right. exists e, m, n. repeat split; try assumption. intros _. exists nx. tauto.
Qed.

Lemma seq_of_cons k m n l : seq_of ((k, (m, n)) :: l) =
  (match k with KWhere => (false, m) | KNot => (false, n) | KOr => (true, m) end) :: seq_of l.
Proof. destruct k; reflexivity. Qed.

Lemma closedx_not_multi l : gt1 l = true -> closedx (XNot l) = true.
Proof.
  intros Hg. unfold closedx. rewrite toE_not, Hg.
  destruct (existsb is_atom l && negb (existsb is_single_or (tl l))); apply orb_true_r.
Qed.

Lemma hasor_eq v : forall lm l, Forall2 (R' v) l (seq_of lm) ->
  existsb is_single_or l = existsb (fun kmn : ckind * (sem * sem) => match fst kmn with KOr => true | _ => false end) lm.
Proof.
  induction lm as [|[k [m n]] lm IH]; intros l H; inversion H as [|e p l' sq' He Hr]; subst; [reflexivity|].
  cbn [existsb fst]. rewrite (IH _ Hr). destruct He as [[_ [_ [Hs _]]] _]. rewrite Hs. destruct k; reflexivity.
Qed.

Lemma negs_R v : forall l sq, Forall2 (R' v) l sq ->
  evT v (negsT l) = sev v (SAnd (map (fun bs : bool * sem => SNot (snd bs)) sq)).
Proof.
  induction 1 as [|e p l sq He _ IH]; [reflexivity|].
  destruct He as [[_ [Hc [_ Hd]]] [_ Hf]].
  cbn [negsT map]. rewrite evT_cons, IH.
  change (sev v (SAnd (SNot (snd p) :: map (fun bs : bool * sem => SNot (snd bs)) sq)))
    with (tv_and (tv_not (sev v (snd p))) (sev v (SAnd (map (fun bs : bool * sem => SNot (snd bs)) sq)))).
  f_equal. rewrite <- Hd.
  destruct e as [a na| | | | |]; try (cbn [evF]; rewrite evF_item by exact Hc; reflexivity).
  cbn [evF]. cbn [first_ok] in Hf. rewrite Hf, dx_atom. reflexivity.
Qed.

Lemma all_units v tbl : forall u, Punit v tbl u.
Proof.
  induction u as [tmpl txt|tmpl txt|ms|ms|c|cs IH] using unit_ind'; intros conds mm Hd Hn Hb Hm;
    [apply flat_to_res; eapply flat_unit; [exact Hd|exact Hn|exact Hb|exact Hm] .. | |].
  { (* clause expression *)
    cbn [domx] in Hd. destruct (flat tbl (UExpr c)) eqn:Ef.
    - apply flat_to_res; eapply flat_unit; [exact Ef|exact Hn|exact Hb|exact Hm].
    - cbn [orb] in Hd. apply andb_prop in Hd. destruct Hd as [Hd Hs]. apply negb_true_iff in Hs.
      destruct (expr_unit v tbl c conds mm Hd Hs Hn Hb Hm) as (e & m & n & -> & -> & H1 & H2 & H3 & H4 & H5).
      right. exists e, m, n. repeat split; try assumption.
      cbn [negatable]. rewrite Ef, Hd, Hs. cbn [orb andb negb]. intros Hng.
      exact (expr_unit_not v tbl c e m n Hd Hs Hn Hng Hb Hm). }
  (* group *)
  rewrite domx_group in Hd. apply andb_prop in Hd. destruct Hd as [Hfirst Hd].
  rewrite unit_pairs_group in Hn. rewrite build_cond_group in Hb. rewrite umean_group in Hm.
  destruct (build_chain_from tbl [] cs) as [wh|] eqn:Ew; [|discriminate].
  destruct (mean_calls tbl cs) as [lm|] eqn:El; [|discriminate].
  destruct (chain_R v tbl cs [] wh lm IH Hd Hn Ew El) as [new [Hnew HF]]. cbn [app] in Hnew. subst new.
  unfold group_first_ok, build_chain in Hfirst. rewrite Ew in Hfirst.
  cbn [flat]. remember (seq_of lm) as sq eqn:Hsq0 in HF. destruct HF as [|x p wh' lm' Hx HF'].
  - (* no effective member *)
    destruct lm; [|discriminate]. inversion Hb; inversion Hm; subst. left. tauto.
  - destruct lm as [|[k [m n]] lm0]; [discriminate|]. rewrite seq_of_cons in Hsq0. inversion Hsq0; subst; clear Hsq0.
    destruct Hx as [[Hokx [Hcx [Hsx Hdx]]] [Horx Hfx]]. cbn [fst snd] in *.
    remember (seq_of lm0) as sq1 eqn:Hsq1 in HF'. destruct HF' as [|y q wh'' lm'' Hy HF''].
    + (* exactly one effective member *)
      destruct lm0; [|discriminate]. right.
      destruct k; cbn [fst] in *.
      * (* Where *) assert (Hwh : (match [x] with [XOr l] => [XAnd l] | _ => [x] end) = [x]) by (destruct x; try reflexivity; discriminate).
        rewrite Hwh in Hb. cbn [mk_and olist] in Hb. rewrite Horx in Hb. cbn [olist mk_and] in Hb. rewrite Horx in Hb.
        inversion Hb; inversion Hm; subst. exists x, m, n. repeat split; try assumption.
        unfold negatable, build_chain. rewrite Ew. discriminate.
      * (* Not *) assert (Hwh : (match [x] with [XOr l] => [XAnd l] | _ => [x] end) = [x]) by (destruct x; try reflexivity; discriminate).
        rewrite Hwh in Hb. cbn [mk_and olist] in Hb. rewrite Horx in Hb. cbn [olist mk_and] in Hb. rewrite Horx in Hb.
        inversion Hb; inversion Hm; subst. exists x, n, (SNot n). repeat split; try assumption.
        unfold negatable, build_chain. rewrite Ew. discriminate.
      * (* Or: the group would start with an OR alternative: excluded by group_first_ok *)
        destruct x as [| | | |l|]; try discriminate. destruct l as [|a [|? ?]]; discriminate.
    + (* at least two effective members: AND/OR list in parentheses *)
      right.
      assert (Hb' : conds = [XAnd (x :: y :: wh'')]) by (destruct x; cbn in Hb; inversion Hb; reflexivity).
      clear Hb. subst conds. set (wh := x :: y :: wh'') in *.
      assert (HFall : Forall2 (R' v) wh (seq_of ((k, (m, n)) :: lm0))).
      { rewrite seq_of_cons. constructor; [repeat split; assumption|]. rewrite <- Hsq1. constructor; assumption. }
      assert (Hoks : oksL wh = true) by (eapply R'_oksL; exact HFall).
      destruct lm0 as [|kmn lm1]; [discriminate|].
      destruct (val_list_R v wh _ (R'_R _ _ _ HFall) ltac:(discriminate)) as [b0 [s0 [r0 [Hsq Hval]]]].
      set (lmf := (k, (m, n)) :: kmn :: lm1) in *.
      set (M := prec_sem (seq_of lmf)).
      set (has_or := existsb (fun kmn0 : ckind * (sem * sem) => match fst kmn0 with KOr => true | _ => false end) (tl lmf)).
      set (N := if negb has_or && gt1 lmf then SAnd (map (fun bs : bool * sem => SNot (snd bs)) (seq_of lmf)) else SNot M).
      assert (Hmm : mm = Some (M, N)) by (unfold lmf in *; destruct k; inversion Hm; reflexivity).
      subst mm.
      exists (XAnd wh), M, N.
      assert (HdxA : dx v (XAnd wh) = sev v M).
      { rewrite dx_and by (exact Hoks || reflexivity). rewrite Hval, <- Hsq. reflexivity. }
      repeat split; try reflexivity; try discriminate.
      * rewrite okx_and. exact Hoks.
      * unfold wh. cbn [first_ok]. destruct (is_single_or x); [discriminate Hfirst|reflexivity].
      * exact HdxA.
      * (* the chain method Not over this group *)
        intros Hneg. unfold negatable, build_chain in Hneg. rewrite Ew in Hneg. fold wh in Hneg.
        change (match wh with _ :: _ :: _ => existsb is_single_or (tl wh) || existsb is_atom wh | _ => false end)
          with (existsb is_single_or (tl wh) || existsb is_atom wh) in Hneg.
        exists (XNot wh). split; [reflexivity|].
        assert (Hor : existsb is_single_or (tl wh) = has_or).
        { unfold has_or, lmf, wh. cbn [tl]. apply (hasor_eq v). rewrite <- Hsq1. constructor; assumption. }
        split; [rewrite okx_not; exact Hoks|].
        split; [apply closedx_not_multi; reflexivity|].
        split; [reflexivity|].
        unfold dx. rewrite toE_not.
        destruct (existsb is_atom wh && negb (existsb is_single_or (tl wh))) eqn:Eflag.
        -- (* every member negated *)
           apply andb_prop in Eflag. destruct Eflag as [_ Eno]. apply negb_true_iff in Eno.
           replace (gt1 wh) with true by reflexivity.
           rewrite evE_single, evT_single, evF_par, evE_single.
           rewrite (negs_R v wh _ HFall).
           unfold N. rewrite <- Hor, Eno. reflexivity.
        -- (* negated as a whole *)
           assert (Eor : existsb is_single_or (tl wh) = true).
           { destruct (existsb is_single_or (tl wh)); [reflexivity|].
             cbn [orb] in Hneg. rewrite Hneg in Eflag. discriminate. }
           assert (HtoE : match wh with [] => FPar [] | [e] => itemF e | e :: r => FPar (grpE r [itemF e]) end
                          = FPar (toE_list wh)) by reflexivity.
           rewrite HtoE, evE_single, evT_single.
           change (evF v (FNot (FPar (toE_list wh)))) with (tv_not (evE v (toE_list wh))).
           rewrite evE_toE_list by (apply oksL_allclosed, Hoks || discriminate).
           rewrite Hval, <- Hsq. unfold N. rewrite <- Hor, Eor. reflexivity.
Qed.

(* ---------- the whole chain ---------- *)
Lemma evE_par1 v e : evE v [[FPar e]] = evE v e.
Proof. rewrite evE_single, evT_single. reflexivity. Qed.

Lemma dx_and_list v l : l <> [] -> dx v (XAnd l) = evE v (toE_list l).
Proof.
  intros Hne. unfold dx. rewrite toE_and. destruct l as [|e [|e2 r]]; [congruence|reflexivity|].
  apply evE_par1.
Qed.

Lemma swap_first_id l : match l with x :: _ => is_single_or x = false | [] => True end -> swap_first l = l.
Proof. destruct l as [|x r]; [reflexivity|]. intros H. unfold swap_first. cbn. rewrite H. reflexivity. Qed.

(* MAIN (C02): for every chain in the domain, the WHERE gorm renders parses under SQL precedence
   and means, for every row valuation, the property's logical combination of the units. *)
Theorem chain_semantics v tbl cs exprs s :
  calls_domx tbl cs = true -> neg_pairs_ok v (calls_pairs cs) ->
  build_chain tbl cs = Some exprs -> spec_chain tbl cs = Some s ->
  match exprs with e :: _ => is_single_or e = false | [] => True end ->   (* first call is not Or *)
  exprs <> [] ->
  ok_where exprs = true /\
  forall E, parse (where_tokens exprs) = Some E -> evE v E = sev v s.
Proof.
  intros Hd Hn Hb Hs Hfirst Hne.
  unfold spec_chain in Hs. rewrite chain_seq_mean in Hs.
  destruct (mean_calls tbl cs) as [lm|] eqn:El; [|discriminate]. cbn [option_map] in Hs. inversion Hs; subst; clear Hs.
  assert (HP : Forall (fun c => Punit v tbl (snd c)) cs) by (apply Forall_forall; intros c _; apply all_units).
  destruct (chain_R v tbl cs [] exprs lm HP Hd Hn Hb El) as [new [Hnew HF]]. cbn [app] in Hnew. subst new.
  assert (Hval : ok_list (swap_first (match exprs with [XAnd l] => l | _ => exprs end)) = true /\
                 evE v (toE_list (swap_first (match exprs with [XAnd l] => l | _ => exprs end))) = sev v (prec_sem (seq_of lm))).
  { destruct HF as [|x p r sq Hx HF']; [congruence|].
    destruct Hx as [[Hokx [Hcx [Hsx Hdx]]] [Horx Hfx]].
    destruct HF' as [|y q r' sq' Hy HF''].
    - (* a single expression *)
      assert (Hsem : dx v x = sev v (prec_sem [p])).
      { rewrite Hdx. destruct p as [b s0]. rewrite sev_prec_sem. reflexivity. }
      destruct x as [a na|w ts|w ts|l|l|l]; cbn [first_ok] in Hfx;
        try (rewrite swap_first_id by exact Hfirst; split; [exact Hokx|exact Hsem]).
      (* lone AndConditions: Where.Build unwraps it *)
      destruct l as [|x0 l0]; [discriminate Hokx|].
      rewrite swap_first_id by exact Hfx. rewrite okx_and in Hokx. split; [exact Hokx|].
      rewrite <- dx_and_list by discriminate. exact Hsem.
    - (* several expressions *)
      assert (Hl : (match x :: y :: r' with [XAnd l] => l | _ => x :: y :: r' end) = x :: y :: r') by (destruct x; reflexivity).
      rewrite Hl. rewrite swap_first_id by exact Hfirst.
      assert (HFall : Forall2 (R' v) (x :: y :: r') (p :: q :: sq')).
      { constructor; [repeat split; assumption|]. constructor; assumption. }
      assert (Hoks : oksL (x :: y :: r') = true) by (eapply R'_oksL; exact HFall).
      split; [exact Hoks|].
      rewrite evE_toE_list by (apply oksL_allclosed, Hoks || discriminate).
      destruct (val_list_R v _ _ (R'_R _ _ _ HFall) ltac:(discriminate)) as [b0 [s0 [r0 [Hsq Hv]]]].
      rewrite Hv, <- Hsq. reflexivity. }
  destruct Hval as [Hok Hev]. unfold ok_where, where_exprs_built. split; [exact Hok|].
  intros E Hp. rewrite (where_parses exprs Hok) in Hp. inversion Hp; subst.
  unfold toE_where, where_exprs_built. exact Hev.
Qed.
