(* C07_Errs.v — the ERROR a Parse call returns, under any interleaving (C07_Model.step).
   "Each returns the same result (error included) as when it runs alone":
     - the error a call reports is the error of the schema it returns (whichever of the three
       wait sites it went through), and that error never changes after the return;
     - a type with a malformed relation of its own fails for every caller, always;
     - a type from which no malformed relation can be reached never fails, for any caller;
     - in between (a well-formed type that reaches a malformed one) the outcome depends on the
       schedule: getOrParse takes an unfinished cache entry without waiting and without its error
       (witness in C07_Errs2).
   Technique: a second invariant E, preserved by every step given the protocol invariant inv. *)
From Verif Require Import Base C07_Model C07_Proofs C07_Proofs2 C07_Proofs4 C07_Proofs5.

Section Errs.
Variable cfg : config.
Notation inv := (inv cfg).

Definition malformed (t : ty) : Prop := exists r, In r (rels cfg t) /\ r_ok r = false.

Inductive tainted : ty -> Prop :=
| T_here t : malformed t -> tainted t
| T_step t r : In r (rels cfg t) -> tainted (r_to r) -> tainted t.

(* the ok flag a frame carries is the one of the configuration *)
Definition pc_cfg (f : frame) : Prop :=
  match f_pc f with
  | PNest _ i ok | PGuess _ i _ ok => exists r, nth_error (rels cfg (f_ty f)) i = Some r /\ ok = r_ok r
  | _ => True
  end.

(* a frame directly above a frame waiting in getOrParse parses the target of that relation *)
Definition link (f p : frame) : Prop :=
  match f_pc p with
  | PNest _ i _ => exists r, nth_error (rels cfg (f_ty p)) i = Some r /\ f_ty f = r_to r
  | _ => True
  end.

Fixpoint linked (stk : list frame) : Prop :=
  match stk with
  | f :: below => match below with p :: _ => link f p | [] => True end /\ linked below
  | [] => True
  end.

Definition stack_ok (stk : list frame) : Prop := Forall pc_cfg stk /\ linked stk.

Definition rec_ok (r : srec) : Prop :=
  (forall j x, j < length (s_rel r) -> nth_error (rels cfg (s_ty r)) j = Some x -> r_ok x = true) /\
  (s_err r = true -> tainted (s_ty r)).

Definition E_thr (thr : tid -> thread) : Prop := forall g, stack_ok (t_stack (thr g)).
Definition E_sch (sch : sid -> srec) : Prop := forall s, rec_ok (sch s).
Definition E (st : state) : Prop := E_thr (st_thr st) /\ E_sch (st_sch st).

Lemma E_thr_upd thr g th : E_thr thr -> stack_ok (t_stack th) -> E_thr (upd thr g th).
Proof. intros H Hs g'. unfold upd. destruct (Nat.eqb g' g); [exact Hs|apply H]. Qed.

Lemma E_sch_upd sch s r : E_sch sch -> rec_ok r -> E_sch (upd sch s r).
Proof. intros H Hr s'. unfold upd. destruct (Nat.eqb s' s); [exact Hr|apply H]. Qed.

Lemma rec_ok_closed r : rec_ok r -> rec_ok (set_closed r).
Proof. destruct r; exact (fun H => H). Qed.
Lemma rec_ok_pub r c : rec_ok r -> rec_ok (set_pub r c).
Proof. destruct r; exact (fun H => H). Qed.
Lemma rec_ok_err r : rec_ok r -> tainted (s_ty r) -> rec_ok (set_err r).
Proof. destruct r; intros [A _] T. split; [exact A|intros _; exact T]. Qed.
Lemma rec_ok_add r fs :
  rec_ok r -> (forall x, nth_error (rels cfg (s_ty r)) (length (s_rel r)) = Some x -> r_ok x = true) ->
  rec_ok (add_rel r fs).
Proof.
  destruct r as [t o d c e rl p]; unfold rec_ok, add_rel; cbn. intros [A B] H. split; [|exact B].
  intros j x Hj. rewrite app_length in Hj. cbn in Hj.
  destruct (Nat.eq_dec j (length rl)) as [->|Ne]; [apply H|apply A; lia].
Qed.
Lemma rec_ok_new t g d : rec_ok (mk_s t g d false false [] 0).
Proof. split; cbn; [intros; lia|discriminate]. Qed.

Lemma stack_top_pc f below p' :
  stack_ok (f :: below) -> pc_cfg (mk_f (f_ty f) p' (f_born f)) ->
  stack_ok (mk_f (f_ty f) p' (f_born f) :: below).
Proof.
  intros [F L] Hp. inversion F; subst. split; [constructor; assumption|].
  cbn in *. destruct L as [L1 L2]. split; [|exact L2]. destruct below; [trivial|exact L1].
Qed.

Lemma E_initial progs : E (initial progs).
Proof.
  split.
  - intro g. cbn. split; [constructor|exact I].
  - intro s. cbn. split; cbn; [intros; lia|discriminate].
Qed.

Ltac norm := unfold with_ev, with_thr, with_sch, with_cache, with_nsch;
  cbn [st_cache st_sch st_nsch st_thr st_nthr st_clk st_trace].

Ltac top Hs Hst := unfold set_top; rewrite Hs; cbn [t_stack]; apply stack_top_pc; [exact Hst|exact Logic.I].

Lemma E_step st g st' : inv st -> E st -> step cfg st g = Some st' -> E st'.
Proof.
  intros Iv [Ht Hc]. unfold step.
  destruct (Nat.ltb_spec g (st_nthr st)) as [Hg|]; [|discriminate]. cbn [negb].
  pose proof (Ht g) as Hst.
  destruct (t_stack (st_thr st g)) as [|f below] eqn:Hs.
  { destruct (t_todo (st_thr st g)) as [|t todo]; [discriminate|]. intro H; inversion H; subst st'.
    norm. split; [|exact Hc]. apply E_thr_upd; [exact Ht|]. cbn. split; [repeat constructor|cbn; auto]. }
  destruct (top_frame cfg _ _ _ _ Iv Hs) as (Hf & Hbelow & _).
  destruct Hf as (_ & _ & _ & Hf).
  destruct (f_pc f) eqn:Epc.
  - (* PLoad1 *)
    destruct (st_cache st (f_ty f)); intro H; inversion H; subst st'; norm;
      (split; [|exact Hc]); (apply E_thr_upd; [exact Ht|]); top Hs Hst.
  - (* PBuild *)
    intro H; inversion H; subst st'; norm. split.
    + apply E_thr_upd; [exact Ht|]. top Hs Hst.
    + apply E_sch_upd; [exact Hc|apply rec_ok_new].
  - (* PLoad2 *)
    destruct (st_cache st (f_ty f)); intro H; inversion H; subst st'; norm;
      (split; [|exact Hc]); (apply E_thr_upd; [exact Ht|]); top Hs Hst.
  - (* PStore *)
    destruct (st_cache st (f_ty f)); intro H; inversion H; subst st'; norm.
    + split; [|exact Hc]. apply E_thr_upd; [exact Ht|]. top Hs Hst.
    + split; [apply E_thr_upd; [exact Ht|]; top Hs Hst|].
      apply E_sch_upd; [exact Hc|]. apply rec_ok_pub, Hc.
  - (* PRel *)
    destruct (nth_error (rels cfg (f_ty f)) i) as [r|] eqn:En.
    + destruct (st_cache st (r_to r)) as [fs|].
      * intro H; inversion H; subst st'; norm. split; [|exact Hc]. apply E_thr_upd; [exact Ht|].
        unfold set_top; rewrite Hs; cbn [t_stack]. apply stack_top_pc; [exact Hst|].
        unfold pc_cfg. cbn. exists r. auto.
      * intro H; inversion H; subst st'; norm. split; [|exact Hc]. apply E_thr_upd; [exact Ht|].
        unfold set_top; rewrite Hs; cbn [t_stack].
        assert (Hp : stack_ok (mk_f (f_ty f) (PNest s i (r_ok r)) (f_born f) :: below)).
        { apply stack_top_pc; [exact Hst|]. unfold pc_cfg. cbn. exists r. auto. }
        destruct Hp as [Fp Lp]. split; [constructor; [exact Logic.I|exact Fp]|].
        cbn [linked]. split; [|exact Lp]. unfold link. cbn. exists r. auto.
    + intro H; inversion H; subst st'; norm. split; [|exact Hc]. apply E_thr_upd; [exact Ht|]. top Hs Hst.
  - (* PNest *) discriminate.
  - (* PGuess *)
    destruct Hf as ((Mi & _ & _ & _ & Len) & Hi & _). destruct Mi as (_ & Ty & _).
    destruct Hst as [Fst Lst]. pose proof (Forall_inv Fst) as Pf.
    unfold pc_cfg in Pf. rewrite Epc in Pf. destruct Pf as (r & En & Eok).
    destruct ok; intro H; inversion H; subst st'; norm.
    + split.
      * apply E_thr_upd; [exact Ht|]. top Hs (conj Fst Lst).
      * apply E_sch_upd; [exact Hc|]. apply rec_ok_add; [apply Hc|].
        rewrite Ty, Len. intros x Ex. rewrite En in Ex. inversion Ex; subst x. auto.
    + split.
      * apply E_thr_upd; [exact Ht|]. top Hs (conj Fst Lst).
      * apply E_sch_upd; [exact Hc|]. apply rec_ok_err; [apply Hc|].
        rewrite Ty. apply T_here. exists r. split; [eapply nth_error_In; eauto|auto].
  - (* PDelete *)
    intro H; inversion H; subst st'; norm. split; [|exact Hc]. apply E_thr_upd; [exact Ht|]. top Hs Hst.
  - (* PClose *)
    intro H; inversion H; subst st'; norm. split.
    + apply E_thr_upd; [exact Ht|]. top Hs Hst.
    + apply E_sch_upd; [exact Hc|]. apply rec_ok_closed, Hc.
  - (* PWait *)
    destruct (s_closed (st_sch st w)); [|discriminate].
    destruct own; intro H; inversion H; subst st'; norm;
      (split; [|exact Hc]); (apply E_thr_upd; [exact Ht|]); top Hs Hst.
  - (* PRet *)
    intro H; inversion H; subst st'. unfold deliver. rewrite Hs.
    destruct below as [|p rest].
    { norm. split; [|exact Hc]. apply E_thr_upd; [exact Ht|]. cbn. split; [constructor|exact Logic.I]. }
    destruct Hst as [Fst Lst]. pose proof (Forall_inv_tail Fst) as Fb.
    pose proof (Forall_inv Fb) as Pp. pose proof (Forall_inv_tail Fb) as Frest.
    cbn [linked] in Lst. destruct Lst as (Lfp & Lp).
    destruct (f_pc p) eqn:Epp; try (split; [exact Ht|exact Hc]).
    unfold pc_cfg in Pp. rewrite Epp in Pp. unfold link in Lfp. rewrite Epp in Lfp.
    destruct Lfp as (r0 & En0 & Ety).
    cbn [frames_ok] in Hbelow. destruct Hbelow as [Hp _]. destruct Hp as (_ & _ & _ & Hp). rewrite Epp in Hp.
    destruct Hp as (((_ & Tys & _) & _) & _).
    destruct Hf as (_ & Tyr & _).
    assert (Lp' : forall q, linked (mk_f (f_ty p) q (f_born p) :: rest)).
    { intro q. cbn [linked] in *. destruct Lp as [L1 L2]. split; [|exact L2]. destruct rest; [trivial|exact L1]. }
    destruct (s_err (st_sch st r)) eqn:Er; norm.
    + split.
      * apply E_thr_upd; [exact Ht|]. cbn [t_stack]. split; [constructor; [exact Logic.I|exact Frest]|apply Lp'].
      * apply E_sch_upd; [exact Hc|]. apply rec_ok_err; [apply Hc|].
        rewrite Tys. apply T_step with (r := r0); [eapply nth_error_In; eauto|].
        rewrite <- Ety, <- Tyr. apply Hc. exact Er.
    + split; [|exact Hc]. apply E_thr_upd; [exact Ht|]. cbn [t_stack].
      split; [constructor; [|exact Frest]|apply Lp']. unfold pc_cfg. cbn. exact Pp.
Qed.

Lemma E_run sched : forall st st', inv st -> E st -> run cfg st sched = Some st' -> E st'.
Proof.
  induction sched as [|g r IH]; cbn; intros st st' Iv He H; [inversion H; subst; exact He|].
  destruct (step cfg st g) as [st1|] eqn:Es; [|discriminate].
  apply (IH st1 st'); [eapply step_inv; eauto|eapply E_step; eauto|exact H].
Qed.

Lemma reach_E progs sched st : run cfg (initial progs) sched = Some st -> E st.
Proof. apply E_run; [apply inv_initial|apply E_initial]. Qed.

(* ---- consequences ------------------------------------------------------------------- *)
(* the error a call reports is the error of the schema it returns, now and ever after *)
Lemma ret_err_is_schemas st g rr :
  inv st -> In rr (t_rets (st_thr st g)) -> rt_err rr = s_err (st_sch st (rt_sid rr)).
Proof. intros Iv Hin. destruct (rets_ok cfg _ _ _ Iv Hin) as (_ & _ & _ & _ & _ & _ & _ & J). now rewrite J. Qed.

Lemma all_ok_of_prefix (l : list relf) :
  (forall j x, j < length l -> nth_error l j = Some x -> r_ok x = true) ->
  forall r, In r l -> r_ok r = true.
Proof.
  intros H r Hin. destruct (In_nth_error _ _ Hin) as [j Ej].
  apply (H j r); [|exact Ej]. apply nth_error_Some. congruence.
Qed.

Lemma malformed_fails st g rr :
  inv st -> E st -> In rr (t_rets (st_thr st g)) -> malformed (rt_ty rr) -> rt_err rr = true.
Proof.
  intros Iv [_ Hc] Hin (r & Hr & Hok).
  destruct (rets_ok cfg _ _ _ Iv Hin) as (_ & _ & _ & A & B & C & D & J).
  destruct (rt_err rr) eqn:Er; [reflexivity|exfalso].
  pose proof (i_D _ _ Iv _ A B D) as Cm. unfold complete in Cm. specialize (Cm J).
  destruct (Hc (rt_sid rr)) as [Pre _]. rewrite C in Pre, Cm. rewrite Cm in Pre.
  rewrite (all_ok_of_prefix _ Pre r Hr) in Hok. discriminate.
Qed.

Lemma error_means_tainted st g rr :
  inv st -> E st -> In rr (t_rets (st_thr st g)) -> rt_err rr = true -> tainted (rt_ty rr).
Proof.
  intros Iv [_ Hc] Hin Er.
  destruct (rets_ok cfg _ _ _ Iv Hin) as (_ & _ & _ & _ & _ & C & _ & J).
  rewrite <- C. apply Hc. congruence.
Qed.
End Errs.
