(* C08_Write.v — the WHERE clause of an Update / Delete statement of a soft-delete model whose
   Model / Delete value names records by key.  No proofs here (C08_WriteProofs.v).
   Modelled code: callbacks/update.go Update (the schema's UpdateClauses are added BEFORE
   ConvertToAssignments appends the key conditions of the Model value: Statement.AddClause ->
   Where.MergeClause appends), soft_delete.go SoftDeleteDeleteClause.ModifyStatement (the key
   conditions of the Delete value and of the Model value are appended first, THEN the query clause
   groups everything and appends the filter). *)
From Verif Require Import Base Sem Where_Model.

(* [user]: the expressions the chain supplied; [keys]: the key conditions taken from the records
   (`id` = ?, `id` IN (..), (`k1`,`k2`) IN ((..),(..)): clause.Eq / clause.IN values, i.e. atoms) *)
Definition update_exprs (live nlive : nat) (user keys : list expr) : list expr :=
  soft_delete_exprs live nlive user ++ keys.
Definition delete_exprs (live nlive : nat) (user keys : list expr) : list expr :=
  soft_delete_exprs live nlive (user ++ keys).

(* Unscoped: no filter, the key conditions are simply appended *)
Definition unscoped_write_exprs (user keys : list expr) : list expr := user ++ keys.
