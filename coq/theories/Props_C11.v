(* Props_C11.v — property C11: ONLY theorem statements, each closed by [exact] of a lemma of
   C11_Proofs*, followed by Print Assumptions.  [to_string_key] is utils.ToStringKey as it is on the
   tree; the functions named here are the ones C11_Check.check_case evaluates on every run. *)
From Verif Require Import Base C11_Model C11_Proofs C11_Proofs2.
Open Scope Z_scope.

(* Preload, one hop, every relation kind that matches on key columns (has one, has many, belongs to,
   polymorphic, self-referential; single, composite, string keys; any number of parents, duplicates
   included): each parent receives exactly the rows whose key equals its own AS VALUES and that pass
   the conditions and the soft-delete scope - provided ToStringKey decides value equality on the
   keys present.  This hypothesis is forced: see c11_refuted_*. *)
Theorem c11_preload_partial : forall h ps cs,
  keys_faithful to_string_key ps (map c_key cs) ->
  preload_hop to_string_key h ps cs = Some (norm_single (h_single h) (attach h ps cs)).
Proof. exact (preload_hop_attach to_string_key). Qed.
Print Assumptions c11_preload_partial.

(* nested path A.B: the rows fetched for A are exactly the rows owned by some parent, and hop B
   attaches to each of them exactly its own rows *)
Theorem c11_nested_partial : forall h1 h2 ps cs1 cs2,
  let f := filter (owned h1 ps) cs1 in
  keys_faithful to_string_key ps (map c_key cs1) ->
  keys_faithful to_string_key (map c_key2 f) (map c_key cs2) ->
  preload_nested to_string_key h1 h2 ps cs1 cs2 =
  (Some (norm_single (h_single h1) (attach h1 ps cs1)), map c_uid f,
   Some (norm_single (h_single h2) (attach h2 (map c_key2 f) cs2))).
Proof. exact (preload_nested_attach to_string_key). Qed.
Print Assumptions c11_nested_partial.

(* Association().Find: for ONE owner, unconditionally exactly its rows *)
Theorem c11_assoc_find_one : forall h kp cs,
  assoc_find to_string_key h [kp] cs = map c_uid (filter (belongs h kp) cs).
Proof. exact (assoc_find_single_owner to_string_key). Qed.
Print Assumptions c11_assoc_find_one.

(* ... for several owners: exactly the rows owned by one of them, when owner keys that print alike
   are equal as values *)
Theorem c11_assoc_find_partial : forall h ps cs,
  parents_injective to_string_key ps ->
  assoc_find to_string_key h ps cs = map c_uid (filter (owned h ps) cs).
Proof. exact (assoc_find_owned to_string_key). Qed.
Print Assumptions c11_assoc_find_partial.

(* association Joins: the ON clause compares values; (parents loaded from the table have keys) *)
Theorem c11_joins : forall h ps cs,
  Forall (fun kp => all_zero kp = false) ps -> joins_model h ps cs = attach h ps cs.
Proof. exact joins_model_attach. Qed.
Print Assumptions c11_joins.

(* the full statement is FALSE of the code on the tree: three witnesses, each replayed on real gorm
   (corpus/C11) *)
Theorem c11_refuted_separator :
  preload_hop to_string_key hop_many sep_ps sep_cs = Some [[201]; [201]] /\
  attach hop_many sep_ps sep_cs = [[201]; [202]].
Proof. exact refuted_separator. Qed.
Print Assumptions c11_refuted_separator.

Theorem c11_refuted_nil :
  preload_hop to_string_key hop_one nil_ps nil_cs = Some [[]; []] /\
  preload_hop to_string_key hop_one (rev nil_ps) nil_cs = Some [[301]; [301]] /\
  attach hop_one nil_ps nil_cs = [[]; [301]].
Proof. exact refuted_nil. Qed.
Print Assumptions c11_refuted_nil.

Theorem c11_refuted_zero :
  preload_hop to_string_key hop_many zero_ps zero_cs = None /\
  attach hop_many zero_ps zero_cs = [[201]; [202]].
Proof. exact refuted_zero. Qed.
Print Assumptions c11_refuted_zero.

Theorem c11_refuted : exists h ps cs,
  preload_hop to_string_key h ps cs <> Some (norm_single (h_single h) (attach h ps cs)).
Proof. exact refuted_all. Qed.
Print Assumptions c11_refuted.

Theorem c11_refuted_assoc_find :
  assoc_find to_string_key hop_many sep_ps sep_cs = [201] /\
  map c_uid (filter (owned hop_many sep_ps) sep_cs) = [201; 202].
Proof. exact refuted_assoc_find. Qed.
Print Assumptions c11_refuted_assoc_find.
