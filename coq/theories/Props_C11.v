(* Props_C11.v — property C11: ONLY theorem statements, each closed by [exact] of a lemma of
   C11_Proofs*, followed by Print Assumptions.  [to_string_key] is utils.ToStringKey as it is on the
   tree (with escapeKeyPart, fix 5d340d3); preload_hop / preload_m2m / preload_nested / assoc_find /
   joins_model and (C11_Scan, second part of this file) find_m2m_recs / plain_recs / joins_recs are the
   functions C11_Check.check_case evaluates on every run.
   [typed ks1 ks2]: corresponding key columns have the same SQL type (schema typing) - the only
   hypothesis on keys; nothing is assumed about their contents. *)
From Verif Require Import Base C11_Model C11_Proofs C11_Proofs2 C11_Proofs3 C11_Proofs4 C11_Proofs5
  C11_Scan C11_ScanProofs.
Open Scope Z_scope.

(* Preload, one hop, every relation kind that matches on key columns (has one, has many, belongs to,
   polymorphic, self-referential; single, composite, string keys; any number of parents, duplicates
   included; NULL parts; conditions; soft-delete scope): each parent receives exactly the rows whose
   key equals its own AS VALUES and that pass the conditions and the scope, for ALL key values. *)
Theorem c11_preload : forall h ps cs,
  typed ps (map c_key cs) ->
  preload_hop to_string_key h ps cs = Some (norm_single (h_single h) (attach h ps cs)).
Proof. exact preload_total. Qed.
Print Assumptions c11_preload.

(* many-to-many: the join-table hop attaches to each parent exactly the targets linked to it by a
   join row whose columns equal the parent's and the target's keys as values, each once *)
Theorem c11_m2m : forall h ps js cs,
  typed ps (map fst js) -> typed (map snd js) (map c_key cs) ->
  (forall j, In j js -> all_zero (snd j) = false) -> join_rows_unique ps js cs ->
  preload_m2m to_string_key h ps js cs = Some (attach_m2m h ps js cs).
Proof. exact preload_m2m_total. Qed.
Print Assumptions c11_m2m.

(* nested path A.B: the rows fetched for A are exactly the rows owned by some parent, and hop B
   attaches to each of them exactly its own rows *)
Theorem c11_nested : forall h1 h2 ps cs1 cs2,
  let f := filter (owned h1 ps) cs1 in
  typed ps (map c_key cs1) -> typed (map c_key2 f) (map c_key cs2) ->
  preload_nested to_string_key h1 h2 ps cs1 cs2 =
  (Some (norm_single (h_single h1) (attach h1 ps cs1)), map c_uid f,
   Some (norm_single (h_single h2) (attach h2 (map c_key2 f) cs2))).
Proof. exact preload_nested_total. Qed.
Print Assumptions c11_nested.

(* Association().Find over one or several owners: exactly the rows owned by one of them *)
Theorem c11_assoc_find : forall h ps cs,
  (forall k1 k2, In k1 ps -> In k2 ps -> compat k1 k2) ->
  assoc_find to_string_key h ps cs = map c_uid (filter (owned h ps) cs).
Proof. exact assoc_find_total. Qed.
Print Assumptions c11_assoc_find.

Theorem c11_assoc_find_one : forall h kp cs,
  assoc_find to_string_key h [kp] cs = map c_uid (filter (belongs h kp) cs).
Proof. exact (assoc_find_single_owner to_string_key). Qed.
Print Assumptions c11_assoc_find_one.

(* the reason: the identity key decides SQL value equality on every typed set of keys *)
Theorem c11_key_faithful : forall ps cs,
  typed ps cs -> keys_faithful to_string_key ps cs.
Proof. exact key_faithful. Qed.
Print Assumptions c11_key_faithful.

(* the matching loop itself is correct for ANY encoding that is faithful on the keys present *)
Theorem c11_preload_generic : forall tsk h ps cs,
  keys_faithful tsk ps (map c_key cs) ->
  preload_hop tsk h ps cs = Some (norm_single (h_single h) (attach h ps cs)).
Proof. exact preload_hop_attach. Qed.
Print Assumptions c11_preload_generic.

(* association Joins: the ON clause compares values in SQL (modelled as such: correspondence only);
   it agrees with Preload's attachment whenever the parents have non-zero keys *)
Theorem c11_joins_sql : forall h ps cs, joins_model h ps cs = attach_sql h ps cs.
Proof. exact joins_model_sql. Qed.
Print Assumptions c11_joins_sql.

Theorem c11_joins : forall h ps cs,
  Forall (fun kp => all_zero kp = false) ps -> joins_model h ps cs = attach h ps cs.
Proof. exact joins_model_attach. Qed.
Print Assumptions c11_joins.

(* ---- about the PREVIOUS code (utils.ToStringKey before fix 5d340d3), kept as a record of why the
   fix was needed; [to_string_key_prev] is not evaluated by the checker ---- *)
Theorem c11_prev_refuted_separator :
  preload_hop to_string_key_prev hop_many sep_ps sep_cs = Some [[201]; [201]] /\
  attach hop_many sep_ps sep_cs = [[201]; [202]].
Proof. exact refuted_separator. Qed.
Print Assumptions c11_prev_refuted_separator.

Theorem c11_prev_refuted_nil :
  preload_hop to_string_key_prev hop_one nil_ps nil_cs = Some [[]; []] /\
  preload_hop to_string_key_prev hop_one (rev nil_ps) nil_cs = Some [[301]; [301]] /\
  attach hop_one nil_ps nil_cs = [[]; [301]].
Proof. exact refuted_nil. Qed.
Print Assumptions c11_prev_refuted_nil.

Theorem c11_prev_refuted_zero :
  preload_hop to_string_key_prev hop_many zero_ps zero_cs = None /\
  attach hop_many zero_ps zero_cs = [[201]; [202]].
Proof. exact refuted_zero. Qed.
Print Assumptions c11_prev_refuted_zero.

(* the fix left every key free of '\', '_', the string "nil" and by-value zeros as it printed before *)
Theorem c11_encoding_unchanged : forall k,
  forallb plain_part k = true -> to_string_key k = to_string_key_prev k.
Proof. exact encoding_unchanged. Qed.
Print Assumptions c11_encoding_unchanged.

(* non-vacuity: the three former witnesses are typed inputs, and the current code is right on them *)
Example c11_former_witnesses :
  preload_hop to_string_key hop_many sep_ps sep_cs = Some (attach hop_many sep_ps sep_cs) /\
  preload_hop to_string_key hop_one nil_ps nil_cs = Some (attach hop_one nil_ps nil_cs) /\
  preload_hop to_string_key hop_many zero_ps zero_cs = Some (attach hop_many zero_ps zero_cs).
Proof. repeat split; vm_compute; reflexivity. Qed.

Example c11_typed_instance : typed sep_ps (map c_key sep_cs).
Proof.
  intros k1 k2 H1 H2. cbn in H1, H2.
  repeat (destruct H1 as [H1|H1]; [subst k1|]); try destruct H1;
  (destruct H2 as [H2|H2]; repeat (destruct H2 as [H2|H2]; [subst k2|]); try destruct H2);
  repeat constructor.
Qed.

Example c11_test_expectations :
  to_string_key [KStr "a"] = "a"%string /\
  to_string_key [KInt 1; KInt 2; KInt 3] = "1_2_3"%string /\
  to_string_key [KInt 1; KNil; KInt 3] = "1_nil_3"%string.
Proof. exact encoding_keeps_tests. Qed.

(* ================= the RECORDS handed out (C11_Scan: SELECT list + scan.go) =================
   [find_m2m_recs], [plain_recs], [joins_recs] are evaluated by check_case on every case against what the
   attached records hold in memory, column for column.  [mcols] = the related model's columns, [rows] = its
   stored rows by uid; nothing is assumed about the column names of the join table. *)

(* many2many Association().Find (related JOIN join_table): the column list names the related model's own
   columns when the session asks for QueryFields (association.go buildCondition) or the FROM clause carries
   joins (callbacks/query.go) - either suffices - and then every record returned IS the stored related
   row, once per (row, join row) pair of the ON clause, WHATEVER columns the join table has *)
Theorem c11_find_m2m_records : forall qf fj h ps js jcols jrows cs mcols rows,
  qf || fj = true -> NoDup mcols -> rows_wf mcols rows ->
  find_m2m_recs to_string_key (names_model qf false fj) h ps js jcols jrows cs mcols rows
  = find_m2m_rows to_string_key h ps js jrows cs rows.
Proof. exact find_m2m_recs_named. Qed.
Print Assumptions c11_find_m2m_records.

(* with neither (`SELECT *`) this holds only when the join table shares no column name with the model *)
Theorem c11_find_m2m_star_partial : forall h ps js jcols jrows cs mcols rows,
  NoDup mcols -> rows_wf mcols rows -> (forall c, In c jcols -> ~ In c mcols) ->
  find_m2m_recs to_string_key (names_model false false false) h ps js jcols jrows cs mcols rows
  = find_m2m_rows to_string_key h ps js jrows cs rows.
Proof. exact (find_m2m_recs_star to_string_key). Qed.
Print Assumptions c11_find_m2m_star_partial.

(* ... and is false otherwise: a join model with its own `id` hands its value to the related record *)
Theorem c11_scan_star_refuted :
  scan_plain ["id"; "title"]%string
    (select_row (names_model false false false) ["id"; "title"]%string [VInt 2; VText "b2"]
                [("id"%string, VInt 4); ("reader_id"%string, VInt 1)])
  = [VInt 4; VText "b2"].
Proof. exact scan_star_collides. Qed.
Print Assumptions c11_scan_star_refuted.

(* Scan itself: with the model's columns named, the record is the model's row whatever else is joined *)
Theorem c11_scan_named : forall mcols mvals extra,
  NoDup mcols -> length mvals = length mcols ->
  scan_plain mcols (select_row true mcols mvals extra) = mvals.
Proof. exact scan_named. Qed.
Print Assumptions c11_scan_named.

(* Preload and has-kind Association().Find (one table): the records are the stored rows *)
Theorem c11_preload_records : forall mcols rows uids,
  NoDup mcols -> rows_wf mcols rows -> plain_recs mcols rows uids = rows_of rows uids.
Proof. exact plain_recs_rows. Qed.
Print Assumptions c11_preload_records.

(* association Joins, scan.go's aliased columns: a LEFT JOIN row whose joined part holds a row with at
   least one non-NULL column (its key) gives the relation a struct that IS that row - also when the
   leading columns are NULL -, whatever columns [pre] the parent and other relations contribute *)
Theorem c11_joins_scan_row : forall a mcols pre vs,
  NoDup mcols -> length vs = length mcols -> forallb is_null vs = false ->
  (forall cv, In cv pre -> match strip_alias a (fst cv) with
                           | Some c => is_col c mcols = false
                           | None => True
                           end) ->
  scan_joined a mcols (pre ++ joined_part a mcols (Some vs)) = Some vs.
Proof. exact scan_joined_row. Qed.
Print Assumptions c11_joins_scan_row.

(* ... and when no row satisfies the ON clause the relation stays nil *)
Theorem c11_joins_scan_none : forall a mcols pre,
  (forall cv, In cv pre -> match strip_alias a (fst cv) with
                           | Some c => is_col c mcols = false
                           | None => True
                           end) ->
  scan_joined a mcols (pre ++ joined_part a mcols None) = None.
Proof. exact scan_joined_none. Qed.
Print Assumptions c11_joins_scan_none.

Theorem c11_joins_records : forall a mcols rows uids,
  NoDup mcols -> rows_wf mcols rows -> rows_keyed rows ->
  joins_recs a mcols rows uids = rows_of rows uids.
Proof. exact joins_recs_rows. Qed.
Print Assumptions c11_joins_records.

(* non-vacuity: a joined row whose first column is NULL (seeded change 10's shape) *)
Example c11_joins_scan_instance :
  scan_joined "One"%string ["lbl"; "id"; "uid"]%string
    ([("k"%string, VInt 1)] ++ joined_part "One"%string ["lbl"; "id"; "uid"]%string (Some [VNull; VInt 7; VInt 301]))
  = Some [VNull; VInt 7; VInt 301].
Proof. reflexivity. Qed.
