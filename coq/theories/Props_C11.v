(* Props_C11.v — property C11: ONLY theorem statements, each closed by [exact] of a lemma of
   C11_Proofs*, followed by Print Assumptions.  [to_string_key] is utils.ToStringKey as it is on the
   tree; the functions named here are the ones C11_Check.check_case evaluates on every run. *)
From Verif Require Import Base C11_Model C11_Proofs C11_Proofs2 C11_Proofs3 C11_Proofs4 C11_Proofs5.
Open Scope Z_scope.

(* Preload, one hop, every relation kind that matches on key columns (has one, has many, belongs to,
   polymorphic, self-referential; single, composite, string keys; any number of parents, duplicates
   included): each parent receives exactly the rows whose key equals its own AS VALUES and that pass
   the conditions and the soft-delete scope - provided ToStringKey decides value equality on the
   keys present.  This hypothesis is forced: see c11_refuted_*. *)
Theorem c11_preload_partial : forall h ps cs,
  keys_faithful to_string_key ps (map c_key cs) ->
  preload_hop to_string_key h ps cs = Some (norm_single (h_single h) (attach h ps cs)).
Proof. exact (preload_hop_attach to_string_key). Qed.
Print Assumptions c11_preload_partial.

(* the exact sufficient condition for the hypothesis, on the current tree: no string part contains
   '_' or is the text "nil", no by-value integer part is 0, and corresponding parts have the same
   column type.  Each clause is necessary for the conclusion in general: c11_refuted_separator /
   _nil / _zero drop exactly one of them. *)
Theorem c11_key_faithful_when : forall ps cs,
  (forall k, In k ps \/ In k cs -> clean_key k = true) ->
  (forall k1 k2, In k1 ps -> In k2 ps \/ In k2 cs -> compat k1 k2) ->
  keys_faithful to_string_key ps cs.
Proof. exact faithful_when. Qed.
Print Assumptions c11_key_faithful_when.

(* many-to-many: the join-table hop attaches to each parent exactly the targets linked to it by a
   join row whose columns equal the parent's and the target's keys as values, each once *)
Theorem c11_m2m_partial : forall h ps js cs,
  keys_faithful to_string_key ps (map fst js) ->
  keys_faithful to_string_key (map snd js) (map c_key cs) ->
  (forall j, In j js -> all_zero (snd j) = false) ->
  join_rows_unique ps js cs ->
  preload_m2m to_string_key h ps js cs = Some (attach_m2m h ps js cs).
Proof. exact (preload_m2m_attach to_string_key). Qed.
Print Assumptions c11_m2m_partial.

(* nested path A.B: the rows fetched for A are exactly the rows owned by some parent, and hop B
   attaches to each of them exactly its own rows *)
Theorem c11_nested_partial : forall h1 h2 ps cs1 cs2,
  let f := filter (owned h1 ps) cs1 in
  keys_faithful to_string_key ps (map c_key cs1) ->
  keys_faithful to_string_key (map c_key2 f) (map c_key cs2) ->
  preload_nested to_string_key h1 h2 ps cs1 cs2 =
  (Some (norm_single (h_single h1) (attach h1 ps cs1)), map c_uid f,
   Some (norm_single (h_single h2) (attach h2 (map c_key2 f) cs2))).
Proof. exact (preload_nested_attach to_string_key). Qed.
Print Assumptions c11_nested_partial.

(* Association().Find: for ONE owner, unconditionally exactly its rows *)
Theorem c11_assoc_find_one : forall h kp cs,
  assoc_find to_string_key h [kp] cs = map c_uid (filter (belongs h kp) cs).
Proof. exact (assoc_find_single_owner to_string_key). Qed.
Print Assumptions c11_assoc_find_one.

(* ... for several owners: exactly the rows owned by one of them, when owner keys that print alike
   are equal as values *)
Theorem c11_assoc_find_partial : forall h ps cs,
  parents_injective to_string_key ps ->
  assoc_find to_string_key h ps cs = map c_uid (filter (owned h ps) cs).
Proof. exact (assoc_find_owned to_string_key). Qed.
Print Assumptions c11_assoc_find_partial.

(* association Joins: the ON clause compares values in SQL (modelled as such: correspondence only);
   it agrees with Preload's attachment whenever the parents have non-zero keys *)
Theorem c11_joins_sql : forall h ps cs, joins_model h ps cs = attach_sql h ps cs.
Proof. exact joins_model_sql. Qed.
Print Assumptions c11_joins_sql.

Theorem c11_joins : forall h ps cs,
  Forall (fun kp => all_zero kp = false) ps -> joins_model h ps cs = attach h ps cs.
Proof. exact joins_model_attach. Qed.
Print Assumptions c11_joins.

(* the full statement is FALSE of the code on the tree: three witnesses, each replayed on real gorm
   (corpus/C11) *)
Theorem c11_refuted_separator :
  preload_hop to_string_key hop_many sep_ps sep_cs = Some [[201]; [201]] /\
  attach hop_many sep_ps sep_cs = [[201]; [202]].
Proof. exact refuted_separator. Qed.
Print Assumptions c11_refuted_separator.

Theorem c11_refuted_nil :
  preload_hop to_string_key hop_one nil_ps nil_cs = Some [[]; []] /\
  preload_hop to_string_key hop_one (rev nil_ps) nil_cs = Some [[301]; [301]] /\
  attach hop_one nil_ps nil_cs = [[]; [301]].
Proof. exact refuted_nil. Qed.
Print Assumptions c11_refuted_nil.

Theorem c11_refuted_zero :
  preload_hop to_string_key hop_many zero_ps zero_cs = None /\
  attach hop_many zero_ps zero_cs = [[201]; [202]].
Proof. exact refuted_zero. Qed.
Print Assumptions c11_refuted_zero.

Theorem c11_refuted : exists h ps cs,
  preload_hop to_string_key h ps cs <> Some (norm_single (h_single h) (attach h ps cs)).
Proof. exact refuted_all. Qed.
Print Assumptions c11_refuted.

Theorem c11_refuted_assoc_find :
  assoc_find to_string_key hop_many sep_ps sep_cs = [201] /\
  map c_uid (filter (owned hop_many sep_ps) sep_cs) = [201; 202].
Proof. exact refuted_assoc_find. Qed.
Print Assumptions c11_refuted_assoc_find.

(* the proposed patch of utils.ToStringKey (escape '\' and '_' in string parts, print the string
   "nil" as "\nil", print zero numbers as numbers): with it the statement is total - only schema
   typing of corresponding key parts remains - and keys free of '\', '_', "nil" and by-value zeros
   print exactly as before (utils_test.go's expectations "a", "1_2_3", "1_nil_3" are kept). *)
Theorem c11_fixed_total : forall h ps cs,
  (forall k1 k2, In k1 ps -> In k2 ps \/ In k2 (map c_key cs) -> compat k1 k2) ->
  preload_hop to_string_key_fixed h ps cs = Some (norm_single (h_single h) (attach h ps cs)).
Proof. exact preload_fixed_total. Qed.
Print Assumptions c11_fixed_total.

Theorem c11_fixed_unchanged : forall k,
  forallb plain_part k = true -> to_string_key_fixed k = to_string_key k.
Proof. exact fixed_unchanged. Qed.
Print Assumptions c11_fixed_unchanged.

(* non-vacuity *)
Example c11_faithful_instance :
  keys_faithful to_string_key
    [[KStr "a"; KStr "b"]; [KStr "a"; KStr "c"]; [KStr "a"; KStr "b"]]
    [[KPStr "a"; KPStr "b"]; [KNil; KPStr "c"]; [KPStr "x y"; KPStr "c"]].
Proof. exact faithful_instance. Qed.

Example c11_fixed_repairs_witnesses :
  preload_hop to_string_key_fixed hop_many sep_ps sep_cs = Some (attach hop_many sep_ps sep_cs) /\
  preload_hop to_string_key_fixed hop_one nil_ps nil_cs = Some (attach hop_one nil_ps nil_cs) /\
  preload_hop to_string_key_fixed hop_many zero_ps zero_cs = Some (attach hop_many zero_ps zero_cs).
Proof. repeat split; vm_compute; reflexivity. Qed.
