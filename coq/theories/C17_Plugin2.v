(* C17_Plugin2.v — the plugin domain, part 2: what the simple insertion procedure guarantees about
   the order of the names (sides, stability of what is already placed). *)
From Verif Require Import Base C17_Model C17_Check C17_Proofs C17_Plugin.
From Coq Require Import Permutation.
Open Scope string_scope.
Open Scope list_scope.

(* a is placed before b: some cut of the list has a on the left and b on the right *)
Definition ord (l : list string) (a b : string) : Prop :=
  exists l1 l2, l = l1 ++ l2 /\ In a l1 /\ In b l2.

Lemma insert_at_app_l : forall (l1 l2 : list string) k x,
  k <= length l1 -> insert_at (l1 ++ l2) k x = insert_at l1 k x ++ l2.
Proof.
  intros l1 l2 k x H. unfold insert_at. rewrite firstn_app, skipn_app.
  replace (k - length l1) with 0 by lia. cbn. rewrite app_nil_r, <- app_assoc. reflexivity.
Qed.

Lemma insert_at_app_r : forall (l1 l2 : list string) k x,
  length l1 <= k -> insert_at (l1 ++ l2) k x = l1 ++ insert_at l2 (k - length l1) x.
Proof.
  intros l1 l2 k x H. unfold insert_at. rewrite firstn_app, skipn_app.
  rewrite firstn_all2 by lia. rewrite skipn_all2 by lia. cbn. now rewrite <- app_assoc.
Qed.

Lemma insert_at_end : forall (l : list string) x, insert_at l (length l) x = l ++ [x].
Proof. intros l x. unfold insert_at. now rewrite firstn_all, skipn_all. Qed.

Lemma insert_at_split : forall (p q : list string) t n,
  insert_at (p ++ t :: q) (length p) n = p ++ n :: t :: q.
Proof.
  intros p q t n. rewrite insert_at_app_r by lia. rewrite Nat.sub_diag. reflexivity.
Qed.

Lemma ord_insert : forall l a b k x, ord l a b -> ord (insert_at l k x) a b.
Proof.
  intros l a b k x (l1 & l2 & -> & Ha & Hb).
  destruct (le_lt_dec k (length l1)) as [H|H].
  - rewrite insert_at_app_l by exact H. exists (insert_at l1 k x), l2. split; [reflexivity|]. split; [|exact Hb].
    apply in_insert_at. right. exact Ha.
  - rewrite insert_at_app_r by lia. exists l1, (insert_at l2 (k - length l1) x). split; [reflexivity|]. split; [exact Ha|].
    apply in_insert_at. right. exact Hb.
Qed.

Lemma filter_insert_at : forall (p : string -> bool) l k x,
  p x = false -> filter p (insert_at l k x) = filter p l.
Proof.
  intros p l k x H. unfold insert_at. rewrite filter_app. cbn. rewrite H.
  rewrite <- filter_app, firstn_skipn. reflexivity.
Qed.

(* ------------------------------------------------------------------ one callback *)
Lemma simple_cb_shape : forall sorted c s',
  simple_cb sorted c = Some s' ->
  (In (cb_name c) sorted /\ s' = sorted)
  \/ (~ In (cb_name c) sorted /\ exists k, s' = insert_at sorted k (cb_name c)).
Proof.
  intros sorted c s'. unfold simple_cb, simple_before, simple_after, simple_finish.
  set (n := cb_name c). intro H.
  destruct (in_dec string_dec n sorted) as [Hin|Hout].
  - left. split; [exact Hin|]. revert H.
    destruct (rindex_some _ _ Hin) as [ci Eci].
    assert (Ea : absent sorted n = false) by (apply absent_false, Hin).
    destruct (is_none (cb_before c)).
    + destruct (is_none (cb_after c)); [rewrite Ea; now intros [= <-]|].
      destruct (rindex sorted (cb_after c)) as [si|]; [|rewrite Ea; now intros [= <-]].
      rewrite Eci. destruct (Nat.ltb ci si); [discriminate|]. rewrite Ea. now intros [= <-].
    + destruct (rindex sorted (cb_before c)) as [si|].
      * rewrite Eci. destruct (Nat.ltb si ci); [discriminate|].
        destruct (is_none (cb_after c)); [rewrite Ea; now intros [= <-]|].
        destruct (rindex sorted (cb_after c)) as [si'|]; [|rewrite Ea; now intros [= <-]].
        rewrite Eci. destruct (Nat.ltb ci si'); [discriminate|]. rewrite Ea. now intros [= <-].
      * destruct (is_none (cb_after c)); [rewrite Ea; now intros [= <-]|].
        destruct (rindex sorted (cb_after c)) as [si'|]; [|rewrite Ea; now intros [= <-]].
        rewrite Eci. destruct (Nat.ltb ci si'); [discriminate|]. rewrite Ea. now intros [= <-].
  - right. split; [exact Hout|]. revert H.
    assert (Eci : rindex sorted n = None) by (apply rindex_none, Hout).
    assert (Ea : absent sorted n = true) by (apply absent_true, Hout).
    assert (Tail : forall s1, (s1 = sorted \/ exists k, s1 = insert_at sorted k n) ->
              forall s2, (match (if is_none (cb_after c) then Some s1
                                 else match rindex s1 (cb_after c) with
                                      | Some sidx => match rindex s1 n with
                                                     | None => Some (s1 ++ [n])
                                                     | Some cidx => if Nat.ltb cidx sidx then None else Some s1
                                                     end
                                      | None => Some s1
                                      end) with
                          | None => None
                          | Some s2 => Some (if absent s2 n then s2 ++ [n] else s2)
                          end) = Some s2 -> exists k, s2 = insert_at sorted k n).
    { intros s1 Hs1 s2.
      destruct Hs1 as [->|[k ->]].
      - assert (Ea' : absent (sorted ++ [n]) n = false) by (apply absent_false, in_app_iff; right; left; reflexivity).
        destruct (is_none (cb_after c)).
        + rewrite Ea. intros [= <-]. exists (length sorted). symmetry. apply insert_at_end.
        + destruct (rindex sorted (cb_after c)).
          * rewrite Eci, Ea'. intros [= <-]. exists (length sorted). symmetry. apply insert_at_end.
          * rewrite Ea. intros [= <-]. exists (length sorted). symmetry. apply insert_at_end.
      - assert (Hin' : In n (insert_at sorted k n)) by (apply in_insert_at; left; reflexivity).
        destruct (rindex_some _ _ Hin') as [ci Eci'].
        assert (Ea' : absent (insert_at sorted k n) n = false) by (apply absent_false, Hin').
        destruct (is_none (cb_after c)); [rewrite Ea'; intros [= <-]; eauto|].
        destruct (rindex (insert_at sorted k n) (cb_after c)) as [si|].
        + rewrite Eci'. destruct (Nat.ltb ci si); [discriminate|]. rewrite Ea'. intros [= <-]. eauto.
        + rewrite Ea'. intros [= <-]. eauto. }
    destruct (is_none (cb_before c)).
    + intro H. apply (Tail sorted (or_introl eq_refl) s' H).
    + destruct (rindex sorted (cb_before c)) as [si|].
      * rewrite Eci. intro H. apply (Tail _ (or_intror (ex_intro _ si eq_refl)) s' H).
      * intro H. apply (Tail sorted (or_introl eq_refl) s' H).
Qed.

Lemma nth_error_same_index : forall (l : list string) i a b,
  nth_error l i = Some a -> nth_error l i = Some b -> a = b.
Proof. intros. congruence. Qed.

(* the callback lands before the (already placed) callback it asked to precede *)
Lemma simple_cb_before_side : forall sorted c s',
  simple_cb sorted c = Some s' -> ~ In (cb_name c) sorted ->
  In (cb_before c) sorted -> is_none (cb_before c) = false ->
  ord s' (cb_name c) (cb_before c).
Proof.
  intros sorted c s' H Hout Ht Hn.
  unfold simple_cb in H. destruct (simple_before sorted c) as [s1|] eqn:E1; [|discriminate].
  unfold simple_before in E1. rewrite Hn in E1.
  destruct (rindex_some _ _ Ht) as [si Esi]. rewrite Esi in E1.
  assert (Ec : rindex sorted (cb_name c) = None) by (apply rindex_none, Hout). rewrite Ec in E1.
  injection E1 as <-.
  destruct (nth_error_split _ _ (rindex_nth _ _ _ Esi)) as (p & q & -> & <-).
  rewrite insert_at_split in H.
  set (s1 := p ++ cb_name c :: cb_before c :: q) in *.
  assert (O1 : ord s1 (cb_name c) (cb_before c)).
  { exists (p ++ [cb_name c]), (cb_before c :: q). split; [unfold s1; now rewrite <- app_assoc|].
    split; [apply in_app_iff; right; left; reflexivity|left; reflexivity]. }
  assert (Hin1 : In (cb_name c) s1) by (unfold s1; apply in_app_iff; right; left; reflexivity).
  (* nothing more is inserted *)
  destruct (simple_after s1 c) as [s2|] eqn:E2; [|discriminate]. injection H as <-.
  assert (E : s2 = s1).
  { unfold simple_after in E2. destruct (is_none (cb_after c)); [now injection E2|].
    destruct (rindex s1 (cb_after c)) as [si|]; [|now injection E2].
    destruct (rindex_some _ _ Hin1) as [ci Eci]. rewrite Eci in E2.
    destruct (Nat.ltb ci si); [discriminate|now injection E2]. }
  subst s2. unfold simple_finish.
  assert (Ea : absent s1 (cb_name c) = false) by (apply absent_false, Hin1). now rewrite Ea.
Qed.

Lemma simple_before_cases : forall sorted c s1,
  simple_before sorted c = Some s1 -> s1 = sorted \/ exists k, s1 = insert_at sorted k (cb_name c).
Proof.
  intros sorted c s1. unfold simple_before.
  destruct (is_none (cb_before c)); [intros [= <-]; auto|].
  destruct (rindex sorted (cb_before c)) as [si|]; [|intros [= <-]; auto].
  destruct (rindex sorted (cb_name c)) as [ci|].
  - destruct (Nat.ltb si ci); [discriminate|intros [= <-]; auto].
  - intros [= <-]. eauto.
Qed.

(* ... and after the (already placed) callback it asked to follow *)
Lemma simple_cb_after_side : forall sorted c s',
  simple_cb sorted c = Some s' ->
  In (cb_after c) sorted -> is_none (cb_after c) = false -> cb_after c <> cb_name c ->
  ord s' (cb_after c) (cb_name c).
Proof.
  intros sorted c s' H Ht Hn Hne.
  unfold simple_cb in H. destruct (simple_before sorted c) as [s1|] eqn:E1; [|discriminate].
  assert (Ht1 : In (cb_after c) s1) by (eapply simple_before_grows; eauto).
  destruct (simple_after s1 c) as [s2|] eqn:E2; [|discriminate]. injection H as <-.
  unfold simple_after in E2. rewrite Hn in E2.
  destruct (rindex_some _ _ Ht1) as [si Esi]. rewrite Esi in E2.
  destruct (rindex s1 (cb_name c)) as [ci|] eqn:Eci.
  - destruct (Nat.ltb ci si) eqn:El; [discriminate|]. injection E2 as <-.
    apply Nat.ltb_ge in El.
    assert (Hlt : si < ci).
    { destruct (Nat.eq_dec si ci) as [->|]; [|lia].
      exfalso. apply Hne. eapply nth_error_same_index; eapply rindex_nth; eauto. }
    destruct (nth_error_split _ _ (rindex_nth _ _ _ Eci)) as (p & q & Es1 & Hp).
    assert (Hinp : In (cb_after c) p).
    { pose proof (rindex_nth _ _ _ Esi) as Hnth. rewrite Es1 in Hnth.
      rewrite nth_error_app1 in Hnth by lia. eapply nth_error_In, Hnth. }
    unfold simple_finish.
    assert (Ea : absent s1 (cb_name c) = false) by (apply absent_false; eapply rindex_in; eauto).
    rewrite Ea. exists p, (cb_name c :: q). split; [exact Es1|]. split; [exact Hinp|left; reflexivity].
  - injection E2 as <-. unfold simple_finish.
    assert (Ea : absent (s1 ++ [cb_name c]) (cb_name c) = false)
      by (apply absent_false, in_app_iff; right; left; reflexivity).
    rewrite Ea. exists s1, [cb_name c]. split; [reflexivity|]. split; [exact Ht1|left; reflexivity].
Qed.

(* ------------------------------------------------------------------ the loop *)
Lemma simple_loop_props : forall cs sorted s,
  simple_loop sorted cs = Some s -> NoDup sorted ->
  NoDup s /\ incl sorted s
  /\ (forall a b, ord sorted a b -> ord s a b)
  /\ (forall c, In c cs -> In (cb_name c) s)
  /\ incl s (sorted ++ map cb_name cs)
  /\ (forall p : string -> bool, (forall c, In c cs -> p (cb_name c) = false \/ In (cb_name c) sorted) ->
        filter p s = filter p sorted).
Proof.
  induction cs as [|c cs IH]; intros sorted s H Hnd; cbn [simple_loop] in H.
  - injection H as <-. repeat split; auto using incl_refl.
    + intros c [].
    + rewrite app_nil_r. apply incl_refl.
  - destruct (simple_cb sorted c) as [s1|] eqn:E1; [|discriminate].
    assert (Shape := simple_cb_shape _ _ _ E1).
    assert (Hnd1 : NoDup s1).
    { destruct Shape as [[_ ->]|[Hout [k ->]]]; [exact Hnd|apply nodup_insert_at; assumption]. }
    assert (Hin1 : In (cb_name c) s1).
    { destruct Shape as [[Hin ->]|[_ [k ->]]]; [exact Hin|apply in_insert_at; left; reflexivity]. }
    destruct (IH s1 s H Hnd1) as (N & G & O & A & U & F).
    assert (G1 : incl sorted s1) by (eapply simple_cb_grows; eauto).
    repeat split.
    + exact N.
    + eapply incl_tran; eassumption.
    + intros a b Hab. apply O. destruct Shape as [[_ ->]|[_ [k ->]]]; [exact Hab|apply ord_insert, Hab].
    + intros x [<-|Hx]; [apply G, Hin1|apply A, Hx].
    + intros y Hy. apply U in Hy. apply in_app_iff in Hy. destruct Hy as [Hy|Hy].
      * destruct Shape as [[_ ->]|[_ [k ->]]].
        -- apply in_app_iff. left. exact Hy.
        -- apply in_insert_at in Hy. destruct Hy as [->|Hy]; apply in_app_iff; [right; left; reflexivity|left; exact Hy].
      * apply in_app_iff. right. right. exact Hy.
    + intros p Hp. rewrite F.
      * destruct Shape as [[_ ->]|[Hout [k ->]]]; [reflexivity|]. apply filter_insert_at.
        destruct (Hp c (or_introl eq_refl)) as [E|E]; [exact E|contradiction].
      * intros x Hx. destruct (Hp x (or_intror Hx)) as [E|E]; [left; exact E|right; apply G1, E].
Qed.

Lemma simple_loop_sides : forall pre c post sorted s,
  simple_loop sorted (pre ++ c :: post) = Some s -> NoDup sorted ->
  ~ In (cb_name c) sorted -> ~ In (cb_name c) (map cb_name pre) ->
  (In (cb_before c) sorted -> is_none (cb_before c) = false -> ord s (cb_name c) (cb_before c))
  /\ (In (cb_after c) sorted -> is_none (cb_after c) = false -> cb_after c <> cb_name c ->
      ord s (cb_after c) (cb_name c)).
Proof.
  intros pre c post sorted s H Hnd Hs Hp.
  rewrite simple_loop_app in H. destruct (simple_loop sorted pre) as [s0|] eqn:E0; [|discriminate].
  cbn [simple_loop] in H. destruct (simple_cb s0 c) as [s1|] eqn:E1; [|discriminate].
  destruct (simple_loop_props _ _ _ E0 Hnd) as (N0 & G0 & _ & _ & U0 & _).
  assert (Hout0 : ~ In (cb_name c) s0).
  { intro Hin. apply U0 in Hin. apply in_app_iff in Hin. tauto. }
  assert (N1 : NoDup s1).
  { destruct (simple_cb_shape _ _ _ E1) as [[_ ->]|[Hout [k ->]]]; [exact N0|apply nodup_insert_at; assumption]. }
  destruct (simple_loop_props _ _ _ H N1) as (_ & _ & O1 & _).
  split.
  - intros Ht Hn. apply O1. eapply simple_cb_before_side; eauto.
  - intros Ht Hn Hne. apply O1. eapply simple_cb_after_side; eauto.
Qed.

(* ------------------------------------------------------------------ from cuts to the checker's positions *)
Lemma pos_prefix : forall f l1 l2 a,
  map fst f = l1 ++ l2 -> In a l1 -> exists i, pos f a = Some i /\ i < length l1.
Proof.
  induction f as [|x f IH]; intros l1 l2 a E Ha; cbn in E.
  - destruct l1; [destruct Ha|discriminate].
  - destruct l1 as [|y l1]; [destruct Ha|]. cbn in E. injection E as Ex E. cbn [pos].
    destruct (String.eqb (fst x) a) eqn:Eq.
    + exists 0. split; [reflexivity|cbn; lia].
    + destruct Ha as [Ha|Ha]; [apply String.eqb_neq in Eq; congruence|].
      destruct (IH l1 l2 a E Ha) as (i & -> & Hi). exists (Datatypes.S i). split; [reflexivity|cbn; lia].
Qed.

Lemma pos_suffix : forall f l1 l2 b,
  map fst f = l1 ++ l2 -> ~ In b l1 -> In b l2 -> exists j, pos f b = Some j /\ length l1 <= j.
Proof.
  induction f as [|x f IH]; intros l1 l2 b E Hb1 Hb2; cbn in E.
  - destruct l1; [destruct l2; [destruct Hb2|discriminate]|discriminate].
  - destruct l1 as [|y l1].
    + cbn in E. exists (match pos (x :: f) b with Some j => j | None => 0 end).
      assert (Hin : In b (map fst (x :: f))) by (change (In b (fst x :: map fst f)); rewrite E; exact Hb2).
      clear - Hin. split; [|cbn; lia].
      induction (x :: f) as [|z g IHg]; [destruct Hin|]. cbn [pos].
      destruct (String.eqb (fst z) b) eqn:Eq; [reflexivity|].
      destruct Hin as [Hin|Hin]; [apply String.eqb_neq in Eq; cbn in Hin; congruence|].
      specialize (IHg Hin). destruct (pos g b); [reflexivity|discriminate].
    + cbn in E. injection E as Ex E. cbn [pos].
      destruct (String.eqb (fst x) b) eqn:Eq.
      * apply String.eqb_eq in Eq. exfalso. apply Hb1. left. congruence.
      * destruct (IH l1 l2 b E (fun H => Hb1 (or_intror H)) Hb2) as (j & -> & Hj).
        exists (Datatypes.S j). split; [reflexivity|cbn; lia].
Qed.

Lemma ord_fires : forall f a b,
  NoDup (map fst f) -> ord (map fst f) a b -> fires_before f a b = true.
Proof.
  intros f a b Hnd (l1 & l2 & E & Ha & Hb).
  assert (Hb1 : ~ In b l1).
  { rewrite E in Hnd. intro H.
    clear - Hnd H Hb. induction l1 as [|x l1 IH]; [destruct H|].
    cbn in Hnd. inversion Hnd; subst. destruct H as [->|H]; [|apply IH; assumption].
    apply H2. apply in_app_iff. right. exact Hb. }
  destruct (pos_prefix f l1 l2 a E Ha) as (i & Ei & Hi).
  destruct (pos_suffix f l1 l2 b E Hb1 Hb) as (j & Ej & Hj).
  unfold fires_before. rewrite Ei, Ej. apply Nat.ltb_lt. lia.
Qed.
