(* C14_QuietProofs.v — the refined semantics of C14_Quiet.v: its runs are runs of the model, it has no
   deadlock, and at a quiet point a goroutine of the programs is blocked only behind a Prepare call
   that is with the driver, or (pool-level use) behind a pending Stmt.Close of the statement it was
   handed. *)
From Verif Require Import Base C14_Model C14_Quiet C14_Proofs2 C14_Proofs3.

Definition reachQ (progs : list (list op)) (q : qstate) : Prop :=
  exists g sched, runQ (initQ g progs) sched = Some q.

(* ---- every refined step is a step of the model, or a stutter ------------------------------ *)
Lemma liftQ_inv q r q' l : liftQ q r = Some (q', l) -> r = Some (q_s q', l) /\ q_pend q' = q_pend q.
Proof. unfold liftQ. destruct r as [[s' l']|]; [|discriminate]. intro H; inversion H; subst; auto. Qed.

Inductive qstep_kind (q : qstate) (t : nat) (c : choice) (q' : qstate) (l : option vev) : Prop :=
| QAnnounce th st : nth_error (s_thr (q_s q)) t = Some th -> pend_of q t = None ->
    closing_stmt (q_s q) th = Some st -> q' = mkQ (q_s q) ((t, st) :: q_pend q) -> l = None -> c = CNone ->
    qstep_kind q t c q' l
| QClose st : pend_of q t = Some st -> in_flight (q_s q) st = false ->
    stepL (q_s q) t c = Some (q_s q', l) -> q_pend q' = unpend t (q_pend q) -> qstep_kind q t c q' l
| QPlain th : nth_error (s_thr (q_s q)) t = Some th -> pend_of q t = None -> closing_stmt (q_s q) th = None ->
    stepL (q_s q) t c = Some (q_s q', l) -> q_pend q' = q_pend q -> qstep_kind q t c q' l.

Lemma is_tau_inv c : is_tau c = true -> c = CNone.
Proof. destruct c; cbn; congruence. Qed.

Lemma stepQ_inv q t c q' l : stepQ q t c = Some (q', l) -> qstep_kind q t c q' l.
Proof.
  unfold stepQ. destruct (nth_error (s_thr (q_s q)) t) as [th|] eqn:Ht; [|discriminate].
  destruct (pend_of q t) as [st|] eqn:Ep.
  - destruct (is_tau c); [|discriminate]. destruct (in_flight (q_s q) st) eqn:Ef; [discriminate|].
    destruct (stepL (q_s q) t c) as [[s' l']|] eqn:E; [|discriminate].
    intro H; inversion H; subst. eapply QClose; eauto.
  - destruct (closing_stmt (q_s q) th) as [st|] eqn:Ec.
    + destruct (is_tau c) eqn:Et; [|discriminate]. intro H; inversion H; subst.
      eapply QAnnounce; eauto using is_tau_inv.
    + assert (G : liftQ q (stepL (q_s q) t c) = Some (q', l) -> qstep_kind q t c q' l).
      { intro H. apply liftQ_inv in H. destruct H as [H1 H2]. eapply QPlain; eauto. }
      destruct (t_pc th); try exact G.
      destruct (negb (cur_tx th) && close_pending q s); [discriminate | exact G].
Qed.

Lemma stepL_step s t c s' l : stepL s t c = Some (s', l) -> step s t c = Some s'.
Proof. unfold step. intros ->. reflexivity. Qed.

Lemma runQ_reach progs sched : forall q0 q1,
  reach progs (q_s q0) -> runQ q0 sched = Some q1 -> reach progs (q_s q1).
Proof.
  induction sched as [|[t c] r IH]; intros q0 q1 Hr H; cbn in H.
  - inversion H; subst; exact Hr.
  - unfold stepQs in H. destruct (stepQ q0 t c) as [[q2 l]|] eqn:E; [|discriminate].
    apply (IH q2 q1); [|exact H].
    destruct (stepQ_inv _ _ _ _ _ E) as [th st _ _ _ -> _ _ | st _ _ Hs _ | th _ _ _ Hs _].
    + exact Hr.
    + eapply reach_step; [exact Hr | eapply stepL_step; exact Hs].
    + eapply reach_step; [exact Hr | eapply stepL_step; exact Hs].
Qed.

(* the state part of a reachable refined state is a reachable state of the model: every invariant
   and theorem about [reach] holds of it *)
Lemma reachQ_reach progs q : reachQ progs q -> reach progs (q_s q).
Proof.
  intros [g [sched H]]. eapply runQ_reach; [|exact H]. exists g, []. reflexivity.
Qed.

Lemma runQ_app q a b : runQ q (a ++ b) = match runQ q a with Some q1 => runQ q1 b | None => None end.
Proof.
  revert q; induction a as [|[t c] a IH]; intro q; cbn; [reflexivity|].
  destruct (stepQs q t c); [apply IH | reflexivity].
Qed.

Lemma reachQ_ind (progs : list (list op)) (P : qstate -> Prop) :
  (forall g, P (initQ g progs)) ->
  (forall q t c q' l, reachQ progs q -> P q -> stepQ q t c = Some (q', l) -> P q') ->
  forall q, reachQ progs q -> P q.
Proof.
  intros H0 Hs q [g [sched R]].
  assert (G : forall sched q0 q1, reachQ progs q0 -> P q0 -> runQ q0 sched = Some q1 -> P q1).
  { clear -Hs. induction sched as [|[t c] r IH]; intros q0 q1 Hq HP Hr; cbn in Hr.
    - inversion Hr; subst; exact HP.
    - unfold stepQs in Hr. destruct (stepQ q0 t c) as [[q2 l]|] eqn:E; [|discriminate].
      eapply (IH q2); [| |exact Hr].
      + destruct Hq as [g [s0 R0]]. exists g, (s0 ++ [(t, c)]). rewrite runQ_app, R0. cbn.
        unfold stepQs. rewrite E. reflexivity.
      + eapply Hs; eauto. }
  eapply G; eauto. exists g, []. reflexivity.
Qed.

(* ---- a step of goroutine t leaves the other goroutines alone --------------------------------- *)
Lemma step_keeps_others s t th c s' l u thu :
  nth_error (s_thr s) t = Some th -> step_th s t th c = Some (s', l) ->
  u <> t -> nth_error (s_thr s) u = Some thu -> nth_error (s_thr s') u = Some thu.
Proof.
  intros Ht H Hne Hu.
  step_cases H.
  all: autorewrite with st; norm_thr.
  all: apply nth_error_app_upd_old; assumption.
Qed.

Lemma stepL_keeps_others s t c s' l u thu :
  stepL s t c = Some (s', l) -> u <> t -> nth_error (s_thr s) u = Some thu -> nth_error (s_thr s') u = Some thu.
Proof.
  intro H. apply stepL_inv in H. destruct H as [th [Ht H]]. eapply step_keeps_others; eauto.
Qed.

(* ---- goroutines inside Stmt.Close are closer goroutines ------------------------------------ *)
Definition closer_pc (p : pc) : bool := match p with C1 _ | D0 _ => true | _ => false end.
Definition pendOK (q : qstate) : Prop :=
  forall u st, In (u, st) (q_pend q) ->
  exists thu, nth_error (s_thr (q_s q)) u = Some thu /\ closer_pc (t_pc thu) = true.

Lemma pend_of_none q t : pend_of q t = None -> forall u st, In (u, st) (q_pend q) -> u <> t.
Proof.
  unfold pend_of. destruct (find _ (q_pend q)) as [p|] eqn:F; [discriminate|]. intros _ u st Hi ->.
  pose proof (find_none _ _ F _ Hi) as H. cbn in H. rewrite Nat.eqb_refl in H. discriminate.
Qed.

Lemma pend_of_some q t st : pend_of q t = Some st -> In (t, st) (q_pend q).
Proof.
  unfold pend_of. destruct (find _ (q_pend q)) as [[a b]|] eqn:F; [|discriminate].
  intro H; inversion H; subst. apply find_some in F. destruct F as [F1 F2]. cbn in F2.
  apply Nat.eqb_eq in F2. subst. exact F1.
Qed.

Lemma in_pend_of q u st : In (u, st) (q_pend q) -> exists st', pend_of q u = Some st'.
Proof.
  intro Hi. unfold pend_of. destruct (find (fun p => fst p =? u) (q_pend q)) as [p|] eqn:F; [eauto|].
  pose proof (find_none _ _ F _ Hi) as H. cbn in H. rewrite Nat.eqb_refl in H. discriminate.
Qed.

Lemma closing_closer s th st : closing_stmt s th = Some st -> closer_pc (t_pc th) = true.
Proof. unfold closing_stmt, closer_pc. destruct (t_pc th); try discriminate; auto. Qed.

Lemma pendOK_step q t c q' l : pendOK q -> stepQ q t c = Some (q', l) -> pendOK q'.
Proof.
  intros I H. destruct (stepQ_inv _ _ _ _ _ H) as [th st Ht Hp Hc -> _ _ | st Hp _ Hs Hq | th Ht Hp _ Hs Hq].
  - intros u st' [Hi|Hi]; cbn [q_s].
    + inversion Hi; subst. exists th. split; [exact Ht | eapply closing_closer; eauto].
    + exact (I _ _ Hi).
  - intros u st' Hi. rewrite Hq in Hi. unfold unpend in Hi. apply filter_In in Hi. destruct Hi as [Hi Hne].
    cbn in Hne. apply negb_true_iff, Nat.eqb_neq in Hne.
    destruct (I _ _ Hi) as [thu [Hu Hcl]]. exists thu. split; [|exact Hcl].
    eapply stepL_keeps_others; eauto.
  - intros u st' Hi. rewrite Hq in Hi. pose proof (pend_of_none _ _ Hp _ _ Hi) as Hne.
    destruct (I _ _ Hi) as [thu [Hu Hcl]]. exists thu. split; [|exact Hcl].
    eapply stepL_keeps_others; eauto.
Qed.

Lemma pendOK_reach progs q : reachQ progs q -> pendOK q.
Proof.
  apply reachQ_ind.
  - intros g u st [].
  - intros q0 t c q1 l _ I H. eapply pendOK_step; eauto.
Qed.

(* ---- no deadlock in the refined semantics ---------------------------------------------------- *)
Lemma closer_tau s t th : closer_pc (t_pc th) = true -> exists x, step_th s t th CNone = Some x.
Proof.
  unfold step_th, closer_pc. destruct (t_pc th); try discriminate; intros _.
  - unfold a_C1, goto. cbn. destruct (e_stmt (ent s e)); eauto.
  - unfold a_D0. cbn. eauto.
Qed.

Lemma in_flight_ex s st : in_flight s st = true ->
  exists x thx, nth_error (s_thr s) x = Some thx /\ t_pc thx = X1 st.
Proof.
  unfold in_flight. intro H. apply existsb_exists in H. destruct H as [thx [Hi Hr]].
  apply In_nth_error in Hi. destruct Hi as [x Hx]. exists x, thx. split; [exact Hx|].
  unfold reads in Hr. destruct (t_pc thx); try discriminate. apply andb_prop in Hr. destruct Hr as [Hr _].
  apply Nat.eqb_eq in Hr. subst. reflexivity.
Qed.

(* a goroutine that is not a closer is not inside Stmt.Close *)
Lemma not_closer_not_pending q t th :
  pendOK q -> nth_error (s_thr (q_s q)) t = Some th -> closer_pc (t_pc th) = false ->
  pend_of q t = None /\ closing_stmt (q_s q) th = None.
Proof.
  intros I Ht Hc. split.
  - destruct (pend_of q t) as [st|] eqn:E; [|reflexivity]. apply pend_of_some in E.
    destruct (I _ _ E) as [thu [Hu Hcl]]. rewrite Ht in Hu. inversion Hu; subst. congruence.
  - destruct (closing_stmt (q_s q) th) as [st|] eqn:E; [|reflexivity]. apply closing_closer in E. congruence.
Qed.

Lemma stepQ_plain q t th c :
  pendOK q -> nth_error (s_thr (q_s q)) t = Some th -> closer_pc (t_pc th) = false ->
  (forall st, t_pc th <> X0 st) -> stepQ q t c = liftQ q (stepL (q_s q) t c).
Proof.
  intros I Ht Hc Hx. destruct (not_closer_not_pending _ _ _ I Ht Hc) as [Hp Hcl].
  unfold stepQ; cbv zeta. rewrite Ht, Hp, Hcl. destruct (t_pc th) eqn:E; try reflexivity.
  exfalso. eapply Hx; reflexivity.
Qed.

Lemma x1_returns q x thx st : pendOK q -> nth_error (s_thr (q_s q)) x = Some thx -> t_pc thx = X1 st ->
  stepQ q x CExecOk <> None.
Proof.
  intros I Hx Hp. rewrite (stepQ_plain q x thx); auto.
  - unfold stepL. rewrite Hx. unfold step_th. rewrite Hp. cbn. discriminate.
  - rewrite Hp. reflexivity.
  - intros st'. rewrite Hp. discriminate.
Qed.

Lemma no_deadlockQ progs q : reachQ progs q -> all_done (q_s q) = false -> exists t c, stepQ q t c <> None.
Proof.
  intros Hr Hnd. pose proof (pendOK_reach _ _ Hr) as I.
  destruct (q_pend q) as [|[u st] rest] eqn:Ep.
  - (* nobody inside Stmt.Close: a step of the model is a step here (a closer announces itself instead) *)
    destruct (no_deadlock progs (q_s q) (reachQ_reach _ _ Hr) Hnd) as [t [c H]].
    unfold step in H. destruct (stepL (q_s q) t c) as [[s' l]|] eqn:E; [|congruence].
    pose proof E as E0. apply stepL_inv in E0. destruct E0 as [th [Ht _]].
    destruct (closing_stmt (q_s q) th) as [st|] eqn:Ec.
    + exists t, CNone. unfold stepQ; cbv zeta. rewrite Ht. unfold pend_of. rewrite Ep. cbn [find]. rewrite Ec.
      cbn. discriminate.
    + exists t, c. unfold stepQ; cbv zeta. rewrite Ht. unfold pend_of, close_pending. rewrite Ep. cbn [find existsb].
      rewrite Ec, andb_false_r, E. destruct (t_pc th); cbn; discriminate.
  - (* somebody is inside Stmt.Close: it closes, or the execution it waits for returns *)
    assert (Hi : In (u, st) (q_pend q)) by (rewrite Ep; left; reflexivity).
    destruct (I _ _ Hi) as [thu [Hu Hcl]]. destruct (in_pend_of _ _ _ Hi) as [st' Hp].
    destruct (in_flight (q_s q) st') eqn:Ef.
    + destruct (in_flight_ex _ _ Ef) as [x [thx [Hx Hpx]]]. exists x, CExecOk. eapply x1_returns; eauto.
    + exists u, CNone. unfold stepQ; cbv zeta. rewrite Hu, Hp. cbn [is_tau]. rewrite Ef.
      destruct (closer_tau (q_s q) u thu Hcl) as [[s' l] Hs]. unfold stepL. rewrite Hu, Hs. discriminate.
Qed.

(* ---- who runs the programs, who is a closer ------------------------------------------------- *)
Definition bg_pc (p : pc) : bool := match p with Idle | C0 _ | C1 _ | D0 _ => true | _ => false end.
Definition closer3 (p : pc) : bool := match p with C0 _ | C1 _ | D0 _ => true | _ => false end.

(* goroutines 0..n-1 run the programs and never run closer code; the others are closers (no
   operations of their own) *)
Definition rolesOK (n : nat) (s : state) : Prop :=
  n <= length (s_thr s) /\
  forall t th, nth_error (s_thr s) t = Some th ->
    (t < n -> closer3 (t_pc th) = false) /\ (n <= t -> bg_pc (t_pc th) = true /\ t_ops th = []).

Lemma rolesOK_step n s t th c s' l :
  nth_error (s_thr s) t = Some th -> step_th s t th c = Some (s', l) -> rolesOK n s -> rolesOK n s'.
Proof.
  intros Ht H [Hn R]. destruct (R _ _ Ht) as [Ra Rb].
  assert (Hlt : t < length (s_thr s)) by (apply nth_error_Some; congruence).
  step_cases H.
  all: unfold rolesOK; autorewrite with st; norm_thr.
  all: (split; [rewrite app_length, upd_length; lia|]).
  all: match goal with |- forall t0 th0, nth_error _ t0 = Some th0 -> @?Q t0 th0 =>
         apply (thr_all Q _ _ _ _ _ Ht) end;
    [ cbn [t_pc t_ops set_pc finish closer3 bg_pc]; split;
      [ intro Hl; first [reflexivity | (specialize (Ra Hl); cbn in Ra; discriminate Ra)]
      | intro Hl; destruct (Rb Hl) as [Rb1 Rb2]; cbn in Rb1;
        first [ discriminate Rb1 | discriminate Rb2
              | (split; [reflexivity | first [exact Rb2 | (rewrite Rb2; reflexivity) | reflexivity]]) ] ]
    | intros t' th' _ Hn'; exact (R _ _ Hn')
    | intros t' th' Hi Hl; split; [intro; lia|]; intros _; spawned_false Hi; auto ].
Qed.

Lemma rolesOK_init g progs : rolesOK (length progs) (init_g g progs).
Proof.
  split; cbn; [rewrite map_length; lia|].
  intros t th H. rewrite nth_error_map in H. destruct (nth_error progs t) eqn:E; inversion H; subst. cbn.
  split; [reflexivity|]. intro Hl. apply nth_error_None in Hl. congruence.
Qed.

Lemma rolesOK_reach progs s : reach progs s -> rolesOK (length progs) s.
Proof.
  apply reach_ind; [intro g; apply rolesOK_init|].
  intros s0 t c s1 I H. apply step_inv in H. destruct H as [th [l [Ht H]]]. eapply rolesOK_step; eauto.
Qed.

(* ---- what a goroutine can be waiting for --------------------------------------------------- *)
Definition drv_pc (p : pc) : bool := match p with P9w _ | X1 _ => true | _ => false end.

Ltac tau_enabled H :=
  try match goal with |- exists x, ?f _ _ _ _ = Some x => unfold f end;
  try match goal with |- exists x, ?f _ _ _ _ _ = Some x => unfold f end;
  try match goal with |- exists x, ?f _ _ _ _ _ _ = Some x => unfold f end;
  unfold goto, ret; cbv beta zeta; cbn [is_tau]; try rewrite H;
  repeat match goal with
         | |- exists x, match ?y with _ => _ end = Some x => destruct y eqn:?; try discriminate
         | |- exists x, (if ?y then _ else _) = Some x => destruct y eqn:?; try discriminate
         end;
  solve [eexists; reflexivity].

(* an action that [can_step] and is not the return of a driver call is enabled without the driver *)
Lemma tau_sound s t th : can_step s th = true -> drv_pc (t_pc th) = false ->
  exists x, step_th s t th CNone = Some x.
Proof.
  unfold can_step, step_th, drv_pc. destruct (t_pc th) eqn:E; intros H Hd; try discriminate Hd.
  all: tau_enabled H.
Qed.

Lemma in_seq0 t n : In t (seq 0 n) <-> t < n.
Proof. rewrite in_seq. lia. Qed.

Section Quiet.
  Variable progs : list (list op).
  Variable q : qstate.
  Hypothesis Hreach : reachQ progs q.
  Hypothesis Hquiet : quiet_on (actors progs) q = true.
  Let s := q_s q.

  (* a goroutine of the programs that is not idle cannot move *)
  Lemma quiet_blocked t th : nth_error (s_thr s) t = Some th -> bg_pc (t_pc th) = false ->
    stepQ q t CNone = None.
  Proof.
    intros Ht Hb.
    destruct (rolesOK_reach _ _ (reachQ_reach _ _ Hreach)) as [_ R]. destruct (R _ _ Ht) as [_ Rb].
    assert (Hl : t < length progs).
    { destruct (Nat.lt_ge_cases t (length progs)) as [|Hge]; [assumption|].
      destruct (Rb Hge) as [Rb1 _]. fold s in Rb1. congruence. }
    unfold quiet_on in Hquiet. rewrite forallb_forall in Hquiet.
    specialize (Hquiet t (proj2 (in_seq0 _ _) Hl)). fold s in Hquiet.
    unfold thr in Hquiet. rewrite (nth_error_nth _ _ _ Ht) in Hquiet.
    assert (Hi : is_idle (t_pc th) = false) by (destruct (t_pc th); try reflexivity; discriminate Hb).
    rewrite Hi in Hquiet. cbn in Hquiet. unfold blockedQ in Hquiet.
    destruct (stepQ q t CNone); [discriminate | reflexivity].
  Qed.

  Lemma quiet_no_tau t th : nth_error (s_thr s) t = Some th -> bg_pc (t_pc th) = false ->
    (forall st, t_pc th <> X0 st) -> step_th s t th CNone = None.
  Proof.
    intros Ht Hb Hx. pose proof (quiet_blocked _ _ Ht Hb) as H.
    rewrite (stepQ_plain q t th) in H; auto.
    - unfold liftQ in H. fold s in H. unfold stepL in H. rewrite Ht in H.
      destruct (step_th s t th CNone) as [[s' l]|]; [discriminate | reflexivity].
    - eapply pendOK_reach; eauto.
    - destruct (t_pc th); try reflexivity; discriminate Hb.
  Qed.

  Lemma quiet_lock_free : lock_free s = true.
  Proof.
    destruct (invA_reach _ _ (reachQ_reach _ _ Hreach)) as [W1 W2 R O]. fold s in W1, W2, R, O.
    destruct (s_w s) as [tw|] eqn:Ew.
    { destruct (W1 _ eq_refl) as [th [Ht Hh]].
      assert (C : can_step s th = true) by (unfold can_step; destruct (t_pc th); try discriminate Hh; reflexivity).
      destruct (tau_sound s tw th C) as [x Hx]; [destruct (t_pc th); try discriminate Hh; reflexivity|].
      rewrite (quiet_no_tau tw th) in Hx; [discriminate | exact Ht | | ].
      - destruct (t_pc th); try discriminate Hh; reflexivity.
      - intros st E. rewrite E in Hh. discriminate Hh. }
    destruct (s_r s) as [|r] eqn:Er.
    2:{ assert (Hp : 0 < cnt is_p1 (s_thr s)) by lia.
        destruct (cnt_pos_ex _ _ Hp) as [t [th [Ht Hf]]]. unfold is_p1 in Hf.
        assert (E : t_pc th = P1) by (destruct (t_pc th); try discriminate Hf; reflexivity).
        assert (C : can_step s th = true) by (unfold can_step; rewrite E; reflexivity).
        destruct (tau_sound s t th C) as [x Hx]; [rewrite E; reflexivity|].
        rewrite (quiet_no_tau t th) in Hx; [discriminate | exact Ht | rewrite E; reflexivity | rewrite E; discriminate]. }
    unfold lock_free. rewrite Ew, Er. reflexivity.
  Qed.

  (* the classification *)
  Lemma stuck_classified t : In t (stuck_on (actors progs) q) ->
    (exists e u thu, t_pc (thr s t) = P3 e /\ e_done (ent s e) = false /\
                     nth_error (s_thr s) u = Some thu /\ t_pc thu = P9w e /\ u <> t)
    \/ (exists st, t_pc (thr s t) = X0 st /\ cur_tx (thr s t) = false /\ close_pending q st = true).
  Proof.
    intro Hi. unfold stuck_on in Hi. apply filter_In in Hi. destruct Hi as [Hin Hb]. fold s in Hb.
    apply andb_prop in Hb. destruct Hb as [Hpk Hbl]. apply negb_true_iff in Hpk.
    apply in_seq0 in Hin.
    destruct (nth_error (s_thr s) t) as [th|] eqn:Ht.
    2:{ unfold thr in Hpk. rewrite (nth_error_None _ _) in Ht. rewrite nth_overflow in Hpk by exact Ht. discriminate Hpk. }
    assert (Eth : thr s t = th) by (unfold thr; apply nth_error_nth; exact Ht). rewrite Eth in *.
    destruct (rolesOK_reach _ _ (reachQ_reach _ _ Hreach)) as [_ R]. fold s in R.
    destruct (R _ _ Ht) as [Ra _]. specialize (Ra Hin).
    assert (Hbg : bg_pc (t_pc th) = false).
    { destruct (t_pc th); try reflexivity; try discriminate Ra; discriminate Hpk. }
    pose proof (pendOK_reach _ _ Hreach) as I.
    pose proof quiet_lock_free as Hfree.
    destruct (invA_reach _ _ (reachQ_reach _ _ Hreach)) as [_ _ _ O]. fold s in O.
    assert (Hcl : closer_pc (t_pc th) = false) by (destruct (t_pc th); try reflexivity; discriminate Ra).
    destruct (not_closer_not_pending _ _ _ I Ht Hcl) as [Hp Hc]. fold s in Hc.
    (* the use of a statement behind a pending Close *)
    destruct (t_pc th) eqn:Epc.
    15:{ right. exists s0. split; [reflexivity|].
         unfold blockedQ, stepQ in Hbl; cbv zeta in Hbl. fold s in Hbl. rewrite Ht, Hp, Hc, Epc in Hbl.
         destruct (negb (cur_tx th) && close_pending q s0) eqn:Eb.
         - apply andb_prop in Eb. destruct Eb as [E1 E2]. apply negb_true_iff in E1. auto.
         - unfold stepL in Hbl. rewrite Ht in Hbl. unfold step_th in Hbl. rewrite Epc in Hbl.
           unfold a_X0, ret in Hbl. cbn in Hbl. destruct (negb (cur_tx th) && memb s0 (s_closed s)); discriminate Hbl. }
    all: try discriminate Hpk; try discriminate Ra.
    all: (assert (Hn : step_th s t th CNone = None)
           by (apply quiet_no_tau; [exact Ht | rewrite Epc; reflexivity | rewrite Epc; discriminate])).
    all: (assert (Cs : can_step s th = false)
           by (destruct (can_step s th) eqn:C; [|reflexivity];
               destruct (tau_sound s t th C) as [x Hx]; [rewrite Epc; reflexivity | congruence])).
    all: unfold can_step in Cs; rewrite Epc in Cs; try rewrite Hfree in Cs; try discriminate Cs.
    - (* P0 *) destruct (lock_free_inv _ Hfree) as [Hw _]. rewrite Hw in Cs. discriminate Cs.
    - (* P3 e: waiting for [prepared]; the owner of the channel cannot move either: it is with the driver *)
      left.
      assert (Hlt : e < length (s_ents s)).
      { destruct (Nat.lt_ge_cases e (length (s_ents s))) as [|Hge]; [assumption|].
        unfold ent in Cs. rewrite nth_overflow in Cs by exact Hge. discriminate Cs. }
      destruct (O e Hlt Cs) as [u [thu [Hu Ho]]].
      assert (Hbu : bg_pc (t_pc thu) = false) by (destruct (t_pc thu); try discriminate Ho; reflexivity).
      assert (Hxu : forall st, t_pc thu <> X0 st) by (intros st E; rewrite E in Ho; discriminate Ho).
      pose proof (quiet_no_tau u thu Hu Hbu Hxu) as Hnu.
      pose proof (owner_can_step s thu e Hfree Ho) as Cu.
      destruct (drv_pc (t_pc thu)) eqn:Ed.
      2:{ destruct (tau_sound s u thu Cu Ed) as [x Hx]. congruence. }
      exists e, u, thu. repeat split; auto.
      + destruct (t_pc thu); try discriminate Ed; try discriminate Ho. inversion Ho; subst. reflexivity.
      + intros ->. rewrite Ht in Hu. inversion Hu; subst. rewrite Epc in Ho. discriminate Ho.
  Qed.
End Quiet.

(* ---- corollary: only a use of a statement ever waits; Reset and Close never do ------------- *)
Lemma stuck_is_use progs q t :
  reachQ progs q -> quiet_on (actors progs) q = true -> In t (stuck_on (actors progs) q) ->
  match t_pc (thr (q_s q) t) with P3 _ | X0 _ => True | _ => False end.
Proof.
  intros Hr Hq Hi. destruct (stuck_classified progs q Hr Hq t Hi) as [[e [u [thu [E _]]]]|[st [E _]]];
    rewrite E; exact I.
Qed.

(* ---- non-vacuity: both kinds of wait are reachable ------------------------------------------ *)
Definition taus (t n : nat) : list (nat * choice) := repeat (t, CNone) n.
(* goroutine 0 is inside the driver's Prepare of text 0, goroutine 1 found its entry and waits *)
Definition w8_progs : list (list op) := [[OExec 0 false true]; [OExec 0 false true]].
Definition w8_sched : list (nat * choice) := taus 0 6 ++ taus 1 3.
(* goroutine 0 executes the cached statement (inside the driver), goroutine 1 was handed the same
   statement, goroutine 2 reset the cache and returned, the closer it spawned is inside Stmt.Close *)
Definition w9_progs : list (list op) := [[OExec 0 false true]; [OExec 0 false true]; [OReset]].
Definition w9_sched : list (nat * choice) :=
  taus 0 6 ++ [(0, CPrepOk)] ++ taus 0 4 ++ taus 1 4 ++ taus 2 4 ++ taus 3 2.

Lemma w8_instance : exists q, runQ (initQ true w8_progs) w8_sched = Some q
  /\ quiet_on (actors w8_progs) q = true /\ stuck_on (actors w8_progs) q = [1]
  /\ t_pc (thr (q_s q) 0) = P9w 0 /\ t_pc (thr (q_s q) 1) = P3 0.
Proof. vm_compute. eexists. repeat split; reflexivity. Qed.

Lemma w9_instance : exists q, runQ (initQ true w9_progs) w9_sched = Some q
  /\ quiet_on (actors w9_progs) q = true /\ stuck_on (actors w9_progs) q = [1]
  /\ t_pc (thr (q_s q) 0) = X1 0 /\ t_pc (thr (q_s q) 1) = X0 0 /\ t_pc (thr (q_s q) 2) = Idle
  /\ q_pend q = [(3, 0)].
Proof. vm_compute. eexists. repeat split; reflexivity. Qed.
