(* C08_Check.v — correspondence checker for C08 (soft delete). *)
From Verif Require Export Base Sem Where_Model.
From Verif Require Import Where_Render.
From Verif Require Export C08_Hist C08_Assoc C08_Write.

Record case := mk_case {
  c_atoms : atom_table;
  c_chain : list call;
  c_live : nat;                        (* atom id of `deleted_at IS NULL` *)
  c_rows : list (Z * valuation);       (* live rows and their soft-deleted twins (id + 100) *)
  c_live_ids : list Z;
  o_where : string;
  o_find : list Z; o_pluck : list Z; o_rows : list Z;
  o_cfind : list Z;                   (* Find continued from the result of Count (pagination idiom) *)
  o_count : Z; o_first : option Z;
  o_batches : list (list Z);
  n_find : list Z; n_count : Z; n_first : option Z;       (* same chain, twins physically removed *)
  o_update : list Z; n_update : list Z; o_update_twins : list Z;
  o_del : list Z; n_del : list Z; o_del_twins : list Z; o_del_again : list Z;
  o_unscoped_find : list Z; n_unscoped_find : list Z; o_unscoped_del : list Z;
  o_assoc : list (list Z); n_assoc : list (list Z);
  o_uassoc : list (list Z); n_uassoc : list (list Z); (* the same paths under Unscoped *)   (* preload / association lookups / joins of soft-delete models, with and without twins *)
  o_errs : Z;
  (* a history of creates, scoped / Unscoped deletes and updates, reads (C08_Hist.v): the table it
     starts from, its steps, and per step what the caller observed and the table afterwards *)
  h_init : hstate; h_ops : list hop;
  h_obs : list (list Z); h_states : list hstate;
  (* the kids of the association fixture: (id, age) of every live row of the case *)
  a_kids : list (Z * Z);
  (* the chain's Update through a Model value / Delete of a value naming records by key (C08_Write):
     the atom of the key condition (0 = not run), the WHERE texts of the two statements, the rows
     that changed with and without the marked copies *)
  c_wkey : nat; o_upd_where : string; o_del_where : string;
  o_kupd : list Z; n_kupd : list Z; o_kdel : list Z; n_kdel : list Z
}.

Definition tok_eqb (a b : tok) : bool :=
  match a, b with
  | TAtom x, TAtom y => Nat.eqb x y
  | TAnd, TAnd | TOr, TOr | TNot, TNot | TL, TL | TR, TR => true
  | _, _ => false
  end.

Definition model_tokens (c : case) : option (list tok) :=
  match build_chain (c_atoms c) (c_chain c) with
  | Some exprs => Some (where_tokens (soft_delete_exprs (c_live c) (c_live c + 50) exprs))
  | None => None
  end.

(* hypothesis of theorem c08_filter_is_conjunct, evaluated on the expressions of this case *)
Definition theorem_applies (c : case) : bool :=
  match build_chain (c_atoms c) (c_chain c) with
  | Some exprs => ok_where (soft_delete_exprs (c_live c) (c_live c + 50) exprs)
  | None => false
  end.

Definition model_agrees (c : case) : bool :=
  match model_tokens c, lex (c_atoms c) (o_where c) with
  | Some mt, Some ot =>
    theorem_applies c &&
    list_eqb tok_eqb mt ot
    && match parse ot with
       | Some e => zlist_eqb (rows_where (c_rows c) (fun v => evE v e)) (o_find c)
       | None => false
       end
  | _, _ => false
  end.

Definition subset (a b : list Z) : bool := forallb (fun x => existsb (Z.eqb x) b) a.
Definition oz_eqb := option_eqb Z.eqb.
Fixpoint merge_sorted (fuel : nat) (a b : list Z) : list Z :=
  match fuel with
  | O => a ++ b
  | S f => match a, b with
           | [], _ => b
           | _, [] => a
           | x :: a', y :: b' => if (x <=? y)%Z then x :: merge_sorted f a' b else y :: merge_sorted f a b'
           end
  end.

Definition leading_or (c : case) : bool :=
  match chain_seq (c_atoms c) (c_chain c) with
  | Some ((b, _) :: _) => b
  | _ => false
  end.

(* the property: the marked twins might as well not exist *)
Definition spec_holds (c : case) : bool :=
  (o_errs c =? 0)%Z
  (* reads: same as on the table without twins; only live rows *)
  && zlist_eqb (o_find c) (n_find c) && subset (o_find c) (c_live_ids c)
  && (o_count c =? n_count c)%Z && (o_count c =? Z.of_nat (List.length (o_find c)))%Z
  && oz_eqb (o_first c) (n_first c) && oz_eqb (o_first c) (hd_error (o_find c))
  && zlist_eqb (o_pluck c) (o_find c) && zlist_eqb (o_rows c) (o_find c) && zlist_eqb (o_cfind c) (o_find c)
  && zlist_eqb (List.concat (o_batches c)) (o_find c)
  (* writes: exactly the matching live rows change, twins are byte-identical afterwards *)
  && zlist_eqb (o_update c) (n_update c) && zlist_eqb (o_update c) (o_find c)
  && match o_update_twins c with [] => true | _ => false end
  && zlist_eqb (o_del c) (n_del c) && zlist_eqb (o_del c) (o_find c)
  && match o_del_twins c with [] => true | _ => false end
  && match o_del_again c with [] => true | _ => false end
  (* Unscoped: the marked rows are visible again (a twin is selected iff its live original is);
     Delete removes physically.  For chains that do not start with Or the chain means the same
     with and without the soft-delete scope. *)
  && zlist_eqb (o_unscoped_find c)
       (merge_sorted (List.length (n_unscoped_find c) * 2 + 2) (n_unscoped_find c)
                     (map (fun i => (i + 100)%Z) (n_unscoped_find c)))
  && (leading_or c || zlist_eqb (n_unscoped_find c) (n_find c))
  && zlist_eqb (o_unscoped_del c) (o_unscoped_find c)
  (* association join, preload and association lookups: as if the marked rows did not exist *)
  && list_eqb zlist_eqb (o_assoc c) (n_assoc c)
  (* under Unscoped every path sees a twin exactly where it sees the original *)
  && list_eqb zlist_eqb (o_uassoc c)
       (map (fun l => merge_sorted (List.length l * 2 + 2) l (map (fun i => (i + 100)%Z) l)) (n_uassoc c)).

(* ---- histories ---- *)
Definition hrow_eqb (a b : hrow) : bool :=
  (hid a =? hid b)%Z && (hval a =? hval b)%Z && option_eqb Z.eqb (hdel a) (hdel b).
Definition hstate_eqb := list_eqb hrow_eqb.
Definition prow_eqb (a b : prow) : bool := (fst a =? fst b)%Z && (snd a =? snd b)%Z.

(* the model's run, step by step *)
Fixpoint hsteps (s : hstate) (ops : list hop) : list (list Z * hstate) :=
  match ops with
  | [] => []
  | o :: r => let (s1, ob) := hstep s o in (ob, s1) :: hsteps s1 r
  end.
Definition hist_model_agrees (c : case) : bool :=
  let ms := hsteps (h_init c) (h_ops c) in
  list_eqb zlist_eqb (map fst ms) (h_obs c) && list_eqb hstate_eqb (map snd ms) (h_states c).

(* the property on what gorm did: a caller who never says Unscoped sees, step by step, what the
   plain table shows; scoped steps never remove a row and leave marked rows byte-identical *)
Fixpoint hist_spec (prev : hstate) (pl : list prow) (ops : list hop) (obs : list (list Z)) (sts : list hstate) : bool :=
  match ops, obs, sts with
  | [], [], [] => true
  | o :: r, ob :: obs', st :: sts' =>
    let (pl1, pob) := pstep pl o in
    list_eqb prow_eqb (erase st) pl1
    && (negb (is_scoped o) ||
        (zlist_eqb ob pob
         && zlist_eqb (map hid st) (map hid prev ++ match o with OCreate i _ => [i] | _ => [] end)
         && forallb (fun r => live r || existsb (hrow_eqb r) st) prev))
    && hist_spec st pl1 r obs' sts'
  | _, _, _ => false
  end.
Definition hist_spec_holds (c : case) : bool :=
  hist_spec (h_init c) (erase (h_init c)) (h_ops c) (h_obs c) (h_states c).

(* ---- association paths: the model of C08_Assoc on the fixture the harness builds from the case's
   rows, with and without the marked copies, scoped and Unscoped ([] = paths not run on this case) ---- *)
Definition assoc_model_agrees (c : case) : bool :=
  match o_assoc c with
  | [] => true
  | _ =>
    list_eqb zlist_eqb (firstn scoped_len (o_assoc c)) (scoped_paths true (a_kids c))
    && list_eqb zlist_eqb (firstn scoped_len (n_assoc c)) (scoped_paths false (a_kids c))
    && list_eqb zlist_eqb (firstn unscoped_len (o_uassoc c)) (unscoped_paths true (a_kids c))
    && list_eqb zlist_eqb (firstn unscoped_len (n_uassoc c)) (unscoped_paths false (a_kids c))
  end.

(* ---- write statements with key conditions (C08_Write): token structure of both WHERE texts, the
   hypotheses of the theorems, and the rows SQLite changed = the meaning of the parsed text ---- *)
Definition write_model_agrees (c : case) : bool :=
  match c_wkey c with
  | O => true
  | k =>
    match build_chain (c_atoms c) (c_chain c), lex (c_atoms c) (o_upd_where c), lex (c_atoms c) (o_del_where c) with
    | Some exprs, Some ut, Some dt =>
      let keys := [XAtom k (k + 50)] in
      let ue := update_exprs (c_live c) (c_live c + 50) exprs keys in
      let de := delete_exprs (c_live c) (c_live c + 50) exprs keys in
      ok_where ue && ok_where de
      && list_eqb tok_eqb (where_tokens ue) ut && list_eqb tok_eqb (where_tokens de) dt
      && match parse ut, parse dt with
         | Some eu, Some ed =>
           zlist_eqb (rows_where (c_rows c) (fun v => evE v eu)) (o_kupd c)
           && zlist_eqb (rows_where (c_rows c) (fun v => evE v ed)) (o_kdel c)
         | _, _ => false
         end
    | _, _, _ => false
    end
  end.
(* the property: the keyed writes change what they change without the marked copies, live rows only *)
Definition write_spec_holds (c : case) : bool :=
  zlist_eqb (o_kupd c) (n_kupd c) && subset (o_kupd c) (c_live_ids c)
  && zlist_eqb (o_kdel c) (n_kdel c) && subset (o_kdel c) (c_live_ids c).

Definition check_case (c : case) : N :=
  code_of (model_agrees c && hist_model_agrees c && assoc_model_agrees c && write_model_agrees c)
          (spec_holds c && hist_spec_holds c && write_spec_holds c).
