(* Props_C07.v — property C07 (one shared handle used from many goroutines, including first
   use): ONLY theorem statements about C07_Model.step/run — the functions C07_Check evaluates —
   each closed by a lemma of C07_Proofs*.  The model is the schema-cache protocol of
   schema.ParseWithSpecialTableName / getOrParse; a state is reachable by ANY list of goroutine
   ids (any interleaving), for any number of goroutines, any programs of Parse calls and any
   relation graph [cfg] (acyclic or cyclic, with or without malformed relations). *)
From Verif Require Import Base C07_Model C07_Proofs C07_Proofs4 C07_Proofs5 C07_Proofs6 C07_Proofs7 C07_Patch C07_Errs C07_ErrSpec C07_Errs2.

(* Every return of a public Parse(T) happens after close(initialized) of the schema it returns;
   that schema is of type T and, unless it carries an error, all relations of T are installed. *)
Theorem c07_parse_waits : forall cfg progs sched st g rr,
  run cfg (initial progs) sched = Some st -> In rr (t_rets (st_thr st g)) ->
  rt_closed rr = true /\ rt_sty rr = rt_ty rr /\
  (rt_err rr = false -> rt_nrel rr = length (rels cfg (rt_ty rr))).
Proof. intros. eapply parse_waits; eauto. eapply reach_inv; eauto. Qed.
Print Assumptions c07_parse_waits.

(* One winner per type: all error-free returns for a type, by any goroutines at any time,
   deliver the same schema, and it is the one the cache holds. *)
Theorem c07_single_winner : forall cfg progs sched st g1 g2 r1 r2,
  run cfg (initial progs) sched = Some st ->
  In r1 (t_rets (st_thr st g1)) -> In r2 (t_rets (st_thr st g2)) ->
  rt_ty r1 = rt_ty r2 -> rt_err r1 = false -> rt_err r2 = false -> rt_sid r1 = rt_sid r2.
Proof. intros. eapply single_winner; eauto. eapply reach_inv; eauto. Qed.
Print Assumptions c07_single_winner.

Theorem c07_return_is_cache_entry : forall cfg progs sched st g rr,
  run cfg (initial progs) sched = Some st -> In rr (t_rets (st_thr st g)) -> rt_err rr = false ->
  st_cache st (rt_ty rr) = Some (rt_sid rr).
Proof. intros. eapply ret_is_cached; eauto. eapply reach_inv; eauto. Qed.
Print Assumptions c07_return_is_cache_entry.

(* No deadlock, for acyclic AND cyclic relation graphs, with or without parse errors: in every
   reachable state either every goroutine has finished its program or some goroutine can step. *)
Theorem c07_no_deadlock : forall cfg progs sched st,
  run cfg (initial progs) sched = Some st ->
  all_finished st = true \/ some_enabled cfg st = true.
Proof. intros. eapply no_deadlock. eapply reach_inv; eauto. Qed.
Print Assumptions c07_no_deadlock.

(* a run that cannot be extended is complete: given that parsing terminates (runs are finite),
   every goroutine gets every answer *)
Theorem c07_maximal_run_complete : forall cfg progs sched st,
  run cfg (initial progs) sched = Some st -> some_enabled cfg st = false -> all_finished st = true.
Proof.
  intros cfg progs sched st H Hn. destruct (no_deadlock cfg st (reach_inv cfg _ _ _ H)) as [F|E]; [exact F|].
  rewrite E in Hn. discriminate.
Qed.
Print Assumptions c07_maximal_run_complete.

(* The same three facts from a warm cache. *)
Theorem c07_warm_invariant : forall cfg progs sched st,
  run cfg (warm cfg progs) sched = Some st ->
  (all_finished st = true \/ some_enabled cfg st = true) /\
  forall g rr, In rr (t_rets (st_thr st g)) -> rt_closed rr = true /\ rt_sty rr = rt_ty rr.
Proof.
  intros cfg progs sched st H.
  assert (I : inv cfg st) by (eapply run_inv; [apply inv_warm|exact H]).
  split; [now apply no_deadlock|]. intros g rr Hin. destruct (parse_waits _ _ _ _ I Hin). tauto.
Qed.
Print Assumptions c07_warm_invariant.

(* REFUTED: "a goroutine never builds a relation against a schema another goroutine is still
   initialising".  getOrParse returns a cache hit without waiting: with A has-many B, B
   belongs-to A, goroutine 0 on Parse(A) and goroutine 1 on Parse(B), B's relation to A is
   guessed against A's schema while goroutine 0 has not closed it. *)
Theorem c07_getorparse_caveat_refuted :
  ~ (forall cfg progs sched st, run cfg (initial progs) sched = Some st -> hazard st = false).
Proof.
  intro H. destruct hazard_reachable as (st & R & Hz). rewrite (H _ _ _ _ R) in Hz. discriminate.
Qed.
Print Assumptions c07_getorparse_caveat_refuted.

(* REFUTED: "when Parse(T) returns, the schemas of T's relations are initialised too". *)
Theorem c07_related_initialised_refuted :
  ~ (forall cfg progs sched st g rr, run cfg (initial progs) sched = Some st ->
       In rr (t_rets (st_thr st g)) -> rt_err rr = false -> rt_relclosed rr = true).
Proof.
  intro H. destruct shallow_return_reachable as (st & rr & R & Hin & _ & Er & Rc).
  rewrite (H _ _ _ _ _ _ R Hin Er) in Rc. discriminate.
Qed.
Print Assumptions c07_related_initialised_refuted.

(* PARTIAL: the hazard needs two goroutines ... *)
Theorem c07_no_hazard_single_partial : forall cfg progs sched st,
  length progs <= 1 -> run cfg (initial progs) sched = Some st -> hazard st = false.
Proof.
  intros cfg progs sched st Hn H.
  exact (hazard_single cfg sched (initial progs) st (inv_initial cfg progs) Hn eq_refl H).
Qed.
Print Assumptions c07_no_hazard_single_partial.

(* ... and related model types. *)
Theorem c07_no_hazard_unrelated_partial : forall cfg progs sched st,
  (forall t, rels cfg t = []) -> run cfg (initial progs) sched = Some st -> hazard st = false.
Proof.
  intros cfg progs sched st Hn H.
  exact (hazard_unrelated cfg sched (initial progs) st (inv_initial cfg progs) Hn eq_refl H).
Qed.
Print Assumptions c07_no_hazard_unrelated_partial.

(* ... and a cold cache: once every configured type is parsed (warm), no goroutine ever guesses a
   relation again, for any number of goroutines *)
Theorem c07_no_hazard_warm_partial : forall cfg progs sched st,
  run cfg (warm cfg progs) sched = Some st -> hazard st = false.
Proof.
  intros cfg progs sched st H.
  exact (hazard_warm cfg sched (warm cfg progs) st (inv_warm cfg progs) (W_warm cfg progs) eq_refl H).
Qed.
Print Assumptions c07_no_hazard_warm_partial.

(* ---- the proposed fix (one parse mutex per cacheStore, C07_Patch.pstep), at model level ---- *)
(* every run with the lock is a run of the original protocol (parse_waits, single_winner apply) *)
Theorem c07_patched_runs_are_runs : forall cfg progs sched ps,
  prun cfg (pinitial progs) sched = Some ps ->
  exists sched', run cfg (initial progs) sched' = Some (p_st ps).
Proof. intros cfg progs sched ps H. exact (prun_run cfg sched (pinitial progs) ps H). Qed.
Print Assumptions c07_patched_runs_are_runs.

(* with the lock the hazard is unreachable: any goroutines, any relation graph, any schedule *)
Theorem c07_patched_no_hazard : forall cfg progs sched ps,
  prun cfg (pinitial progs) sched = Some ps -> hazard (p_st ps) = false.
Proof.
  intros cfg progs sched ps H.
  exact (phazard cfg sched (pinitial progs) ps (inv_initial cfg progs) (Q_initial progs) eq_refl H).
Qed.
Print Assumptions c07_patched_no_hazard.

(* and the lock introduces no deadlock *)
Theorem c07_patched_no_deadlock : forall cfg progs sched ps,
  prun cfg (pinitial progs) sched = Some ps ->
  all_finished (p_st ps) = true \/ psome_enabled cfg ps = true.
Proof.
  intros cfg progs sched ps H.
  destruct (prun_inv cfg sched (pinitial progs) ps (inv_initial cfg progs) (Q_initial progs) H) as [I Hq].
  now apply pno_deadlock.
Qed.
Print Assumptions c07_patched_no_deadlock.

(* ---- "the same result (error included) as alone": the error a Parse call returns ---------- *)
(* Whichever way a call obtained its schema (first look-up, second look-up, LoadOrStore loser,
   own build), the error it reports is the error the returned schema carries ... *)
Theorem c07_return_error_is_schemas : forall cfg progs sched st g rr,
  run cfg (initial progs) sched = Some st -> In rr (t_rets (st_thr st g)) ->
  rt_err rr = s_err (st_sch st (rt_sid rr)).
Proof. exact ret_error_is_schemas. Qed.
Print Assumptions c07_return_error_is_schemas.

(* ... and that error never changes after the return, however the run goes on. *)
Theorem c07_return_error_stable : forall cfg progs sched sched' st st' g rr,
  run cfg (initial progs) sched = Some st -> run cfg st sched' = Some st' ->
  In rr (t_rets (st_thr st g)) -> In rr (t_rets (st_thr st' g)) ->
  s_err (st_sch st' (rt_sid rr)) = s_err (st_sch st (rt_sid rr)).
Proof. exact ret_error_stable. Qed.
Print Assumptions c07_return_error_stable.

(* A model type with a malformed relation of its own fails for EVERY caller, in every schedule,
   with any number of goroutines: nobody gets a nil error, first use or not. *)
Theorem c07_malformed_fails_for_everyone : forall cfg progs sched st g rr,
  run cfg (initial progs) sched = Some st -> In rr (t_rets (st_thr st g)) ->
  malformed cfg (rt_ty rr) -> rt_err rr = true.
Proof. exact malformed_fails_always. Qed.
Print Assumptions c07_malformed_fails_for_everyone.

(* A model type from which no malformed relation is reachable never fails, for any caller. *)
Theorem c07_untainted_never_fails : forall cfg progs sched st g rr,
  run cfg (initial progs) sched = Some st -> In rr (t_rets (st_thr st g)) ->
  ~ tainted cfg (rt_ty rr) -> rt_err rr = false.
Proof. exact untainted_never_fails. Qed.
Print Assumptions c07_untainted_never_fails.

(* PARTIAL "same error as alone": any two returns for such a type - e.g. one of a lone call, one
   of a call among any number of concurrent first users - carry the same error. *)
Theorem c07_error_as_alone_partial : forall cfg progs1 sched1 st1 g1 rr1 progs2 sched2 st2 g2 rr2,
  run cfg (initial progs1) sched1 = Some st1 -> In rr1 (t_rets (st_thr st1 g1)) ->
  run cfg (initial progs2) sched2 = Some st2 -> In rr2 (t_rets (st_thr st2 g2)) ->
  rt_ty rr1 = rt_ty rr2 ->
  malformed cfg (rt_ty rr1) \/ ~ tainted cfg (rt_ty rr1) ->
  rt_err rr1 = rt_err rr2.
Proof. exact error_as_alone. Qed.
Print Assumptions c07_error_as_alone_partial.

(* REFUTED without that hypothesis: a well-formed type that belongs to a malformed one fails alone
   (the nested Parse fails) and succeeds next to a goroutine that has published the malformed type
   and not yet found its error - getOrParse takes the cache entry as it is (the known hazard). *)
Theorem c07_error_as_alone_refuted :
  ~ (forall cfg progs1 sched1 st1 g1 rr1 progs2 sched2 st2 g2 rr2,
       run cfg (initial progs1) sched1 = Some st1 -> In rr1 (t_rets (st_thr st1 g1)) ->
       run cfg (initial progs2) sched2 = Some st2 -> In rr2 (t_rets (st_thr st2 g2)) ->
       rt_ty rr1 = rt_ty rr2 -> rt_err rr1 = rt_err rr2).
Proof.
  intro H. destruct outer_alone_fails as (st1 & rr1 & R1 & _ & L1 & T1 & E1).
  destruct outer_next_to_succeeds as (st2 & rr2 & R2 & _ & L2 & T2 & E2).
  assert (I1 : In rr1 (t_rets (st_thr st1 0))) by (rewrite L1; left; reflexivity).
  assert (I2 : In rr2 (t_rets (st_thr st2 1))) by (rewrite L2; left; reflexivity).
  pose proof (H _ _ _ _ _ _ _ _ _ _ _ R1 I1 R2 I2 (eq_trans T1 (eq_sym T2))) as X. congruence.
Qed.
Print Assumptions c07_error_as_alone_refuted.

(* from a warm cache of a configuration without malformed relations nobody ever gets an error *)
Theorem c07_warm_no_errors : forall cfg progs sched st g rr,
  well_formed_cfg cfg -> run cfg (warm cfg progs) sched = Some st -> In rr (t_rets (st_thr st g)) ->
  rt_err rr = false.
Proof. exact warm_no_errors. Qed.
Print Assumptions c07_warm_no_errors.

(* the classification C07_Check evaluates on every observed return is the one of the theorems *)
Theorem c07_checked_classes : forall cfg t,
  (malformedb cfg t = true <-> malformed cfg t) /\ (taintedb cfg t = true -> tainted cfg t).
Proof. intros cfg t. split; [apply malformedb_spec|apply taintedb_sound]. Qed.
Print Assumptions c07_checked_classes.

(* non-vacuity: the cyclic graph A<->B<->C, two goroutines, a complete run *)
Example c07_instance :
  exists st, run [[mk_rel 1 true]; [mk_rel 0 true; mk_rel 2 true]; [mk_rel 1 true]]
                 (initial [[0; 2]; [1]])
                 [0;0;0;0;0;1;1;1;1;1;1;1;0;0;0;0;0;0;0;0;0;0;0;0;0;0;0;1;1;1;1;1] = Some st
             /\ all_finished st = true /\ hazard st = true.
Proof. eexists. split; [vm_compute; reflexivity|split; vm_compute; reflexivity]. Qed.

(* non-vacuity of the patched theorems: A<->B, both goroutines complete, nobody saw an unfinished
   foreign schema; and mu.Lock() really blocks: after goroutine 0 took the lock, goroutine 1
   (also past its first Load) cannot step *)
Example c07_patched_instance :
  (exists ps, prun cfg_ab (pinitial [[0]; [1]])
               [0;0;0;1;1;0;0;0;0;0;0;0;0;0;0;0;0;0;0;0;0;0;1;1;1;1;1;1] = Some ps
             /\ all_finished (p_st ps) = true /\ hazard (p_st ps) = false /\ p_lock ps = None)
  /\ (exists ps, prun cfg_ab (pinitial [[0]; [1]]) [0;0;0;1;1] = Some ps
                 /\ p_lock ps = Some 0 /\ pstep cfg_ab ps 1 = None /\ pstep cfg_ab ps 0 <> None).
Proof.
  split; eexists; (split; [vm_compute; reflexivity|]); repeat split; try (vm_compute; reflexivity).
  vm_compute. discriminate.
Qed.
