(* C11_Proofs2.v — Association().Find, nested paths (generic in the encoding), and witnesses showing
   that the PREVIOUS utils.ToStringKey (before fix 5d340d3) was not faithful to value equality. *)
From Verif Require Import Base C11_Model C11_Proofs.
Open Scope nat_scope.

Section Generic2.
Variable tsk : key -> string.

Definition parents_injective (ps : list key) : Prop :=
  forall k1 k2, In k1 ps -> In k2 ps -> all_zero k1 = false -> all_zero k2 = false ->
                tsk k1 = tsk k2 -> kvals k1 = kvals k2.

(* the children that belong to one of the owners *)
Definition owned (h : hop) (ps : list key) (c : child) : bool := existsb (fun kp => belongs h kp c) ps.

Lemma bool_iff_eq (a b : bool) : (a = true <-> b = true) -> a = b.
Proof.
  destruct a, b; intros [H1 H2]; auto.
  symmetry. apply H1. reflexivity.
Qed.

Lemma fetch_owned h ps cs :
  parents_injective ps ->
  fetch h (snd (identity_map tsk ps)) cs = filter (owned h ps) cs.
Proof.
  intro H1. unfold fetch. apply filter_ext. intro c. apply bool_iff_eq.
  rewrite andb_true_iff, (in_list_iff tsk ps (c_key c) H1). unfold owned. rewrite existsb_exists. split.
  - intros [[kp [A [B E]]] Ok]. exists kp. split; [exact A|]. unfold belongs. rewrite B, E, Ok. reflexivity.
  - intros [kp [A Bl]]. unfold belongs in Bl. apply andb_prop in Bl. destruct Bl as [Bl Ok].
    apply andb_prop in Bl. destruct Bl as [Z E]. split; [|exact Ok].
    exists kp. repeat split; auto. destruct (all_zero kp); [discriminate | reflexivity].
Qed.

(* Association(rel).Find(&out, conds) over one or several owners returns exactly the rows that
   belong to one of them, each once, in table order *)
Theorem assoc_find_owned h ps cs :
  parents_injective ps ->
  assoc_find tsk h ps cs = map c_uid (filter (owned h ps) cs).
Proof. intro H. unfold assoc_find. rewrite fetch_owned by exact H. reflexivity. Qed.

(* one owner: no hypothesis at all *)
Theorem assoc_find_single_owner h kp cs :
  assoc_find tsk h [kp] cs = map c_uid (filter (belongs h kp) cs).
Proof.
  rewrite assoc_find_owned.
  - f_equal. apply filter_ext. intro c. unfold owned. cbn. apply orb_false_r.
  - intros k1 k2 [<-|[]] [<-|[]] _ _ _. reflexivity.
Qed.

Lemma fetched_hop_owned h ps cs :
  parents_injective ps -> fetched_hop tsk h ps cs = filter (owned h ps) cs.
Proof.
  intro H1. unfold fetched_hop. rewrite <- (fetch_owned h ps cs H1).
  destruct (snd (identity_map tsk ps)) eqn:E; [|reflexivity].
  unfold fetch. cbn. induction cs; cbn; auto.
Qed.

(* nested path "A.B": hop B runs on the rows fetched for A *)
Theorem preload_nested_attach h1 h2 ps cs1 cs2 :
  let f := filter (owned h1 ps) cs1 in
  keys_faithful tsk ps (map c_key cs1) ->
  keys_faithful tsk (map c_key2 f) (map c_key cs2) ->
  preload_nested tsk h1 h2 ps cs1 cs2 =
  (Some (norm_single (h_single h1) (attach h1 ps cs1)),
   map c_uid f,
   Some (norm_single (h_single h2) (attach h2 (map c_key2 f) cs2))).
Proof.
  intros f F1 F2. unfold preload_nested.
  rewrite (fetched_hop_owned h1 ps cs1 (proj1 F1)). fold f.
  rewrite (preload_hop_attach tsk h1 ps cs1 F1), (preload_hop_attach tsk h2 (map c_key2 f) cs2 F2).
  reflexivity.
Qed.

End Generic2.

(* ------------------------------------------------------------------ *)
(* association Joins: the LEFT JOIN's ON clause is the value comparison itself *)
Theorem joins_model_sql h ps cs : joins_model h ps cs = attach_sql h ps cs.
Proof. reflexivity. Qed.

Theorem joins_model_attach h ps cs :
  Forall (fun kp => all_zero kp = false) ps ->
  joins_model h ps cs = attach h ps cs.
Proof.
  intro H. unfold joins_model, attach. apply map_ext_in. intros kp Hk.
  rewrite Forall_forall in H. f_equal. apply filter_ext. intro c. unfold belongs. rewrite (H kp Hk). reflexivity.
Qed.

(* ------------------------------------------------------------------ *)
(* witnesses about the PREVIOUS encoding (utils.ToStringKey before fix 5d340d3): with it the
   hypothesis of preload_hop_attach could not be dropped.  Historical; the checker never evaluates
   to_string_key_prev. *)
Open Scope Z_scope.
Definition hop_many := mk_hop false CAll false None.
Definition hop_one := mk_hop true CAll false None.

(* ("a_b","c") and ("a","b_c") *)
Definition sep_ps : list key := [[KStr "a_b"; KStr "c"]; [KStr "a"; KStr "b_c"]].
Definition sep_cs : list child :=
  [mk_child 201 [KPStr "a_b"; KPStr "c"] 1 false "" []; mk_child 202 [KPStr "a"; KPStr "b_c"] 2 false "" []].

Lemma refuted_separator :
  preload_hop to_string_key_prev hop_many sep_ps sep_cs = Some [[201]; [201]] /\
  attach hop_many sep_ps sep_cs = [[201]; [202]].
Proof. split; vm_compute; reflexivity. Qed.

(* owners with foreign keys (NULL,"x") and ("nil","x"); target ("nil","x") *)
Definition nil_ps : list key := [[KNil; KPStr "x"]; [KPStr "nil"; KPStr "x"]].
Definition nil_cs : list child := [mk_child 301 [KStr "nil"; KStr "x"] 1 false "" []].

Lemma refuted_nil :
  preload_hop to_string_key_prev hop_one nil_ps nil_cs = Some [[]; []] /\
  preload_hop to_string_key_prev hop_one (rev nil_ps) nil_cs = Some [[301]; [301]] /\
  attach hop_one nil_ps nil_cs = [[]; [301]].
Proof. repeat split; vm_compute; reflexivity. Qed.

(* parent (0,"x") by value, child foreign key (&0,"x") through pointers *)
Definition zero_ps : list key := [[KInt 0; KStr "x"]; [KInt 1; KStr "x"]].
Definition zero_cs : list child :=
  [mk_child 201 [KPInt 0; KPStr "x"] 1 false "" []; mk_child 202 [KPInt 1; KPStr "x"] 2 false "" []].

Lemma refuted_zero :
  preload_hop to_string_key_prev hop_many zero_ps zero_cs = None /\
  attach hop_many zero_ps zero_cs = [[201]; [202]].
Proof. split; vm_compute; reflexivity. Qed.

Lemma refuted_all :
  exists h ps cs, preload_hop to_string_key_prev h ps cs <> Some (norm_single (h_single h) (attach h ps cs)).
Proof. exists hop_many, sep_ps, sep_cs. vm_compute. discriminate. Qed.

(* Association().Find over several owners inherits the IN-list dedupe: the second owner's rows are lost *)
Lemma refuted_assoc_find :
  assoc_find to_string_key_prev hop_many sep_ps sep_cs = [201] /\
  map c_uid (filter (owned hop_many sep_ps) sep_cs) = [201; 202].
Proof. split; vm_compute; reflexivity. Qed.
