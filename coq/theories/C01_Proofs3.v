(* C01_Proofs3.v — the template scanners: bound values and the [goodp] invariant of what
   Expr.Build / NamedExpr.Build write; the renumbering of an already built sub-query gives back
   the pieces it started from. *)
From Verif Require Import Base C01_Model C01_Stmt C01_Spec C01_Proofs C01_Proofs2.

Definition arg_good (a : argr) : Prop := goodp (a_var a) = true /\ goodp (a_par a) = true.

Lemma ceq_refl : forall c, ceq c c = true.
Proof. intro c. unfold ceq. apply Ascii.eqb_refl. Qed.
Lemma ceq_eq : forall a b, ceq a b = true -> a = b.
Proof. intros a b H. apply Ascii.eqb_eq. exact H. Qed.

Lemma contains_cons_false : forall c x r, contains_c c (x :: r) = false -> ceq c x = false /\ contains_c c r = false.
Proof. intros c x r H. cbn in H. apply orb_false_elim in H. exact H. Qed.

(* ------------------------------------------------------------------ *)
(* Expr.Build                                                           *)
Lemma expr_scan_nil_vars : forall wop bs ap, vars_of (expr_scan wop bs [] ap) = [].
Proof.
  induction bs as [|c r IH]; intro ap; [reflexivity|].
  cbn [expr_scan]. destruct (ceq c "?"); cbn [vars_of]; apply IH.
Qed.

Definition sel_vars (wop : bool) (f : bool) (a : argr) : list scalar :=
  vars_of (if f || wop then a_par a else a_var a).

Lemma expr_scan_vars : forall wop bs args ap, count_c "?" bs = length args ->
  vars_of (expr_scan wop bs args ap) = List.concat (zipw (sel_vars wop) (paren_flags bs ap) args).
Proof.
  induction bs as [|c r IH]; intros args ap H.
  - destruct args; [reflexivity | discriminate].
  - cbn [expr_scan paren_flags]. cbn [count_c] in H. rewrite ceq_sym in H.
    destruct (ceq c "?") eqn:E.
    + destruct args as [|a args']; [discriminate|]. cbn [length] in H.
      cbn [zipw List.concat]. rewrite vars_of_app. unfold sel_vars at 1. f_equal.
      apply IH. lia.
    + cbn [vars_of]. apply IH. exact H.
Qed.

Lemma expr_scan_after_q : forall wop r args ap,
  match r with d :: _ => negb (is_digit d || ceq d "?" || ceq d "@") | [] => true end = true ->
  count_c "?" r = length args -> sdp (expr_scan wop r args ap) = false.
Proof.
  intros wop [|d r] args ap H Hc.
  - destruct args; [reflexivity | discriminate].
  - apply negb_true_iff in H. apply orb_false_elim in H. destruct H as [H H3].
    apply orb_false_elim in H. destruct H as [H1 H2].
    cbn [expr_scan]. rewrite H2. cbn. exact H1.
Qed.

Lemma expr_scan_goodq : forall wop bs args ap,
  count_c "?" bs = length args -> after_q_ok bs = true ->
  contains_c "$" bs = false -> contains_c "@" bs = false ->
  Forall arg_good args -> goodq (expr_scan wop bs args ap) = true.
Proof.
  induction bs as [|c r IH]; intros args ap Hc Hq Hd Ha Hg.
  - destruct args; [reflexivity | discriminate].
  - apply contains_cons_false in Hd. destruct Hd as [Hd1 Hd2].
    apply contains_cons_false in Ha. destruct Ha as [Ha1 Ha2].
    cbn [after_q_ok] in Hq. apply andb_prop in Hq. destruct Hq as [Hq1 Hq2].
    cbn [expr_scan]. cbn [count_c] in Hc. rewrite ceq_sym in Hc.
    destruct (ceq c "?") eqn:E.
    + destruct args as [|a args']; [discriminate|]. cbn [length] in Hc.
      inversion Hg as [|? ? [Hg1 Hg2] Hg']; subst.
      apply goodq_app.
      * destruct (ap || wop); apply goodq_of_p; assumption.
      * apply IH; try assumption. lia.
      * apply expr_scan_after_q; [exact Hq1 | lia].
    + apply goodq_pc; [|apply IH; assumption].
      unfold plain_char. rewrite (ceq_sym "?"), E, Hd1, Ha1. reflexivity.
Qed.

Lemma expr_scan_sdp : forall wop bs args ap,
  count_c "?" bs = length args -> after_q_ok bs = true -> sd bs = false ->
  Forall arg_good args -> sdp (expr_scan wop bs args ap) = false.
Proof.
  intros wop [|c r] args ap Hc Hq Hs Hg.
  - destruct args; [reflexivity | discriminate].
  - cbn [after_q_ok] in Hq. apply andb_prop in Hq. destruct Hq as [Hq1 Hq2].
    cbn [expr_scan]. cbn [count_c] in Hc. rewrite ceq_sym in Hc.
    destruct (ceq c "?") eqn:E.
    + destruct args as [|a args']; [discriminate|]. cbn [length] in Hc.
      inversion Hg as [|? ? [Hg1 Hg2] Hg']; subst.
      apply sdp_app.
      * destruct (ap || wop); apply sdp_of_p; assumption.
      * apply expr_scan_after_q; [exact Hq1 | lia].
    + cbn. exact Hs.
Qed.

Lemma expr_scan_goodp : forall wop bs args ap,
  count_c "?" bs = length args -> after_q_ok bs = true -> sd bs = false ->
  contains_c "$" bs = false -> contains_c "@" bs = false ->
  Forall arg_good args -> goodp (expr_scan wop bs args ap) = true.
Proof.
  intros. apply goodp_of_q; [apply expr_scan_goodq | apply expr_scan_sdp]; assumption.
Qed.

(* ------------------------------------------------------------------ *)
(* NamedExpr.Build                                                      *)

(* without '@' in the text the named scanner is the plain one *)
Lemma name_end_not_lparen : forall c, is_name_end c = true -> ceq c "(" = false.
Proof. intros [[] [] [] [] [] [] [] []]; cbn; intro H; try reflexivity; discriminate. Qed.
Lemma name_end_plain : forall c, is_name_end c = true -> plain_char c = true /\ is_digit c = false /\ ceq c "?" = false.
Proof. intros [[] [] [] [] [] [] [] []]; cbn; intro H; try discriminate; auto. Qed.

Lemma named_scan_positional : forall nm bs args name ap,
  count_c "?" bs = length args -> contains_c "@" bs = false ->
  named_scan nm bs args false name ap = expr_scan false bs args ap.
Proof.
  induction bs as [|c r IH]; intros args name ap Hc Ha.
  - destruct args; [reflexivity | discriminate].
  - apply contains_cons_false in Ha. destruct Ha as [Ha1 Ha2].
    cbn [named_scan expr_scan]. cbn [count_c] in Hc. rewrite ceq_sym in Hc.
    rewrite (ceq_sym c "@"), Ha1. cbn [andb].
    destruct (is_name_end c) eqn:En.
    + destruct (name_end_plain c En) as (_ & _ & Eq). rewrite Eq in *. cbn [app].
      rewrite (name_end_not_lparen c En). f_equal. apply IH; assumption.
    + destruct (ceq c "?") eqn:E.
      * destruct args as [|a args']; [discriminate|]. cbn [length] in Hc.
        rewrite orb_false_r. f_equal. apply IH; [lia | assumption].
      * f_equal. apply IH; assumption.
Qed.

Definition cur_of (inname : bool) (name : la) : option la := if inname then Some name else None.
Definition name_vars (nm : list (string * pieces)) (n : la) : list scalar :=
  match lookup_last nm (l2s n) None with Some p => vars_of p | None => [] end.

Lemma flush_vars : forall nm name, vars_of (flush_name nm name) = name_vars nm name.
Proof.
  intros nm name. unfold flush_name, name_vars.
  destruct (lookup_last nm (l2s name) None); [reflexivity|]. cbn. apply vars_of_ptext.
Qed.

Lemma named_scan_vars : forall nm bs args inname name ap,
  contains_c "?" bs = false ->
  vars_of (named_scan nm bs args inname name ap) = flat_map (name_vars nm) (names_in bs (cur_of inname name)).
Proof.
  induction bs as [|c r IH]; intros args inname name ap Hq.
  - destruct inname; cbn; [rewrite flush_vars, List.app_nil_r|]; reflexivity.
  - apply contains_cons_false in Hq. destruct Hq as [Hq1 Hq2]. rewrite ceq_sym in Hq1.
    cbn [named_scan names_in]. rewrite Hq1.
    destruct inname; cbn [negb andb cur_of].
    + rewrite andb_false_r.
      destruct (is_name_end c).
      * rewrite vars_of_app, flush_vars. cbn [vars_of flat_map]. f_equal.
        rewrite (IH args false [] false Hq2). reflexivity.
      * rewrite (IH args true (name ++ [c]) ap Hq2). reflexivity.
    + rewrite andb_true_r. destruct (ceq c "@").
      * rewrite (IH args true [] ap Hq2). reflexivity.
      * destruct (is_name_end c); cbn [app vars_of].
        -- rewrite (IH args false [] false Hq2). reflexivity.
        -- rewrite (IH args false name (ceq c "(") Hq2). reflexivity.
Qed.

Definition name_good (nm : list (string * pieces)) (n : la) : Prop :=
  exists p, lookup_last nm (l2s n) None = Some p /\ goodp p = true.

Lemma flush_good : forall nm name, name_good nm name -> goodp (flush_name nm name) = true.
Proof. intros nm name [p [E G]]. unfold flush_name. rewrite E. exact G. Qed.

Lemma named_scan_goodq : forall nm bs args inname name ap,
  contains_c "?" bs = false -> contains_c "$" bs = false ->
  Forall (name_good nm) (names_in bs (cur_of inname name)) ->
  goodq (named_scan nm bs args inname name ap) = true
  /\ ((inname = false -> sd bs = false) -> sdp (named_scan nm bs args inname name ap) = false).
Proof.
  induction bs as [|c r IH]; intros args inname name ap Hq Hd Hn.
  - destruct inname; cbn in *.
    + inversion Hn; subst. split; [apply goodq_of_p | intros _; apply sdp_of_p]; apply flush_good; assumption.
    + split; auto.
  - apply contains_cons_false in Hq. destruct Hq as [Hq1 Hq2]. rewrite ceq_sym in Hq1.
    apply contains_cons_false in Hd. destruct Hd as [Hd1 Hd2].
    cbn [named_scan]. cbn [names_in] in Hn. rewrite Hq1.
    destruct inname; cbn [negb andb cur_of] in *.
    + rewrite andb_false_r.
      destruct (is_name_end c) eqn:En.
      * inversion Hn as [|? ? Hn1 Hn2]; subst.
        destruct (name_end_plain c En) as (Hp & Hdg & _).
        destruct (IH args false [] false Hq2 Hd2 Hn2) as [G _].
        split.
        -- apply goodq_app; [apply goodq_of_p, flush_good; assumption | apply goodq_pc; assumption | exact Hdg].
        -- intros _. apply sdp_app; [apply sdp_of_p, flush_good; assumption | exact Hdg].
      * destruct (IH args true (name ++ [c]) ap Hq2 Hd2 Hn) as [G S]. split; [exact G|].
        intros _. apply S. discriminate.
    + rewrite andb_true_r. destruct (ceq c "@") eqn:Ea.
      * destruct (IH args true [] ap Hq2 Hd2 Hn) as [G S]. split; [exact G|].
        intros _. apply S. discriminate.
      * assert (Hp : plain_char c = true).
        { unfold plain_char. rewrite (ceq_sym "?"), Hq1, Hd1, (ceq_sym "@"), Ea. reflexivity. }
        destruct (is_name_end c) eqn:En; cbn [app].
        -- destruct (IH args false [] false Hq2 Hd2 Hn) as [G _]. split; [apply goodq_pc; assumption|].
           intros _. cbn. apply (name_end_plain c En).
        -- destruct (IH args false name (ceq c "(") Hq2 Hd2 Hn) as [G _]. split; [apply goodq_pc; assumption|].
           intros S. cbn. apply S. reflexivity.
Qed.

(* ------------------------------------------------------------------ *)
(* the renumbering of an already built sub-query                        *)
Lemma prefix_app : forall p rest, prefix p (p ++ rest) = true.
Proof. induction p as [|c p IH]; intro rest; [reflexivity|]. cbn. rewrite ceq_refl. apply IH. Qed.
Lemma skipn_app_length : forall (p rest : la), skipn (length p) (p ++ rest) = rest.
Proof. induction p as [|c p IH]; intro rest; [reflexivity|]. cbn. apply IH. Qed.

(* "?" dialect: strings.Replace(sql, "?", "?", 1) *)
Lemma replace_first_same : forall s p, replace_first s p p = s.
Proof.
  induction s as [|c r IH]; intro p; [reflexivity|].
  cbn [replace_first]. destruct (prefix p (c :: r)) eqn:E; [|f_equal; apply IH].
  clear IH. revert E. generalize (c :: r). clear c r.
  induction p as [|a p IHp]; intros s E; [reflexivity|].
  destruct s as [|b s]; [discriminate|]. cbn in E. apply andb_prop in E. destruct E as [E1 E2].
  apply ceq_eq in E1. subst b. cbn. f_equal. apply IHp. exact E2.
Qed.
Lemma unbind_qmark : forall k txt i, unbind false txt i k = txt.
Proof.
  induction k as [|k IH]; intros txt i; [reflexivity|].
  cbn [unbind bind_text]. rewrite replace_first_same. apply IH.
Qed.

(* "$n" dialect: the first j values already turned back into "?" *)
Fixpoint render_mix (j : nat) (i : N) (ps : pieces) : la :=
  match ps with
  | [] => []
  | PC c :: r => c :: render_mix j i r
  | PV _ :: r => match j with
                 | S j' => "?"%char :: render_mix j' (N.succ i) r
                 | O => ("$"%char :: dec_n i) ++ render_from true (N.succ i) r
                 end
  | PH _ :: r => match j with
                 | S j' => render_mix j' (N.succ i) r
                 | O => render_from true (N.succ i) r
                 end
  end.
Lemma render_mix_0 : forall ps i, render_mix 0 i ps = render_from true i ps.
Proof. induction ps as [|[c|v|v] r IH]; intro i; cbn; try rewrite IH; reflexivity. Qed.
Lemma render_mix_all : forall ps j i, (length (vars_of ps) <= j)%nat -> render_mix j i ps = render_from false i ps.
Proof.
  induction ps as [|[c|v|v] r IH]; intros j i H; cbn [render_mix render_from vars_of length] in *.
  - reflexivity.
  - f_equal. apply IH. exact H.
  - destruct j as [|j']; [lia|]. cbn. f_equal. apply IH. lia.
  - destruct j as [|j']; [lia|]. apply IH. lia.
Qed.

Lemma replace_step : forall ps j i,
  no_char "$" ps = true -> no_hidden ps = true -> (j < length (vars_of ps))%nat ->
  replace_first (render_mix j i ps) ("$"%char :: dec_n (i + N.of_nat j)) ["?"%char] = render_mix (S j) i ps.
Proof.
  induction ps as [|p r IH]; intros j i Hc Hh Hj; [cbn in Hj; lia|].
  unfold no_char, no_hidden in Hc, Hh. cbn [existsb] in Hc, Hh.
  rewrite negb_orb in Hc, Hh. apply andb_prop in Hc; destruct Hc as [Hc1 Hc2].
  apply andb_prop in Hh; destruct Hh as [Hh1 Hh2].
  destruct p as [c|v|v]; [| |discriminate].
  - cbn [is_pc] in Hc1. apply negb_true_iff in Hc1.
    cbn [render_mix replace_first prefix]. rewrite Hc1. cbn [andb]. f_equal.
    apply IH; assumption.
  - cbn [vars_of length] in Hj. destruct j as [|j'].
    + cbn [render_mix]. rewrite N.add_0_r.
      change (("$"%char :: dec_n i) ++ render_from true (N.succ i) r)
        with ("$"%char :: (dec_n i ++ render_from true (N.succ i) r)).
      cbn [replace_first].
      change ("$"%char :: dec_n i ++ render_from true (N.succ i) r)
        with (("$"%char :: dec_n i) ++ render_from true (N.succ i) r).
      rewrite prefix_app, skipn_app_length. cbn [app]. rewrite render_mix_0. reflexivity.
    + cbn [render_mix replace_first prefix]. replace (ceq "$" "?") with false by reflexivity. cbn [andb]. f_equal.
      replace (i + N.of_nat (S j'))%N with (N.succ i + N.of_nat j')%N by lia.
      apply IH; try assumption. lia.
Qed.

Lemma unbind_numbered : forall ps k j,
  no_char "$" ps = true -> no_hidden ps = true -> (j + k = length (vars_of ps))%nat ->
  unbind true (render_mix j 1 ps) (1 + N.of_nat j) k = render_from false 1 ps.
Proof.
  intros ps k. induction k as [|k IH]; intros j Hc Hh Hk.
  - cbn [unbind]. apply render_mix_all. lia.
  - cbn [unbind bind_text]. rewrite replace_step by (assumption || lia).
    replace (N.succ (1 + N.of_nat j)) with (1 + N.of_nat (S j))%N by lia.
    apply IH; try assumption. lia.
Qed.

(* no empty []byte value stands right after '(' (the scanner would bind NULL for it) *)
Fixpoint nbap (ap : bool) (ps : pieces) : bool :=
  match ps with
  | [] => true
  | PC c :: r => nbap (ceq c "(") r
  | PV s :: r => (negb ap || nonempty_bytes s) && nbap ap r
  | _ :: r => nbap ap r
  end.

Lemma rescan_same : forall ps n ap,
  no_char "?" ps = true -> no_hidden ps = true -> nbap ap ps = true ->
  expr_scan false (render_from false n ps) (map scalar_argr (vars_of ps)) ap = ps.
Proof.
  induction ps as [|p r IH]; intros n ap Hc Hh Hb; [reflexivity|].
  unfold no_char, no_hidden in Hc, Hh. cbn [existsb] in Hc, Hh.
  rewrite negb_orb in Hc, Hh. apply andb_prop in Hc; destruct Hc as [Hc1 Hc2].
  apply andb_prop in Hh; destruct Hh as [Hh1 Hh2].
  destruct p as [c|v|v]; [| |discriminate].
  - cbn [is_pc] in Hc1. apply negb_true_iff in Hc1. rewrite ceq_sym in Hc1.
    cbn [render_from vars_of expr_scan]. rewrite Hc1. f_equal. apply IH; assumption.
  - cbn [render_from vars_of map app expr_scan]. replace (ceq "?" "?") with true by reflexivity.
    rewrite orb_false_r.
    cbn [nbap] in Hb. apply andb_prop in Hb. destruct Hb as [Hb1 Hb2].
    destruct ap.
    + cbn [negb orb] in Hb1. replace (a_par (scalar_argr v)) with [PV v].
      * cbn [app]. f_equal. apply IH; assumption.
      * destruct v; try reflexivity. cbn in Hb1 |- *. destruct (s2l s); [discriminate | reflexivity].
    + cbn [a_var scalar_argr app]. f_equal. apply IH; assumption.
Qed.

Lemma contains_render_false : forall c ps n, no_char c ps = true -> ceq c "?" = false ->
  contains_c c (render_from false n ps) = false.
Proof.
  intros c ps. induction ps as [|p r IH]; intros n Hc Hq; [reflexivity|].
  unfold no_char in Hc. cbn [existsb] in Hc. rewrite negb_orb in Hc.
  apply andb_prop in Hc; destruct Hc as [Hc1 Hc2].
  destruct p as [d|v|v]; cbn [render_from app contains_c].
  - cbn [is_pc] in Hc1. apply negb_true_iff in Hc1. rewrite Hc1. apply IH; assumption.
  - rewrite Hq. apply IH; assumption.
  - apply IH; assumption.
Qed.

Lemma rebuild_same : forall numbered ps,
  goodq ps = true -> nbap false ps = true -> rebuild_sub numbered ps = ps.
Proof.
  intros numbered ps G Hb. apply goodq_elim in G. destruct G as (g1 & g2 & g3 & g4 & g5).
  unfold rebuild_sub.
  assert (T : unbind numbered (render numbered ps) 1 (length (vars_of ps)) = render_from false 1 ps).
  { destruct numbered.
    - unfold render. rewrite <- render_mix_0. apply (unbind_numbered ps (length (vars_of ps)) 0); auto.
    - apply unbind_qmark. }
  rewrite T. unfold raw_scan.
  rewrite contains_render_false by (assumption || reflexivity).
  apply rescan_same; assumption.
Qed.

Lemma nbap_no_bytes : forall ps ap, forallb nonempty_bytes (vars_of ps) = true -> nbap ap ps = true.
Proof.
  induction ps as [|p r IH]; intros ap H; [reflexivity|].
  destruct p as [c|v|v]; cbn [vars_of forallb nbap] in *.
  - apply IH. exact H.
  - apply andb_prop in H. destruct H as [H1 H2]. rewrite H1, orb_true_r. apply IH. exact H2.
  - apply andb_prop in H. destruct H as [H1 H2]. apply IH. exact H2.
Qed.
