(* C07_Writes.v — statement-level half of C07, on the HEAP model of C06 (C06_Model.v).
   Goroutines that each derive a chain from ONE reusable parent handle and run a finisher share,
   at statement level, exactly the backing arrays that existed when they started.  Which of those
   cells does a goroutine WRITE, and which can another one READ?
   Definitions only.  Theorems (C07_WritesProofs.v), to be imported by Props_C07:
     c07_disjoint_writes            parent with fromj_full: no goroutine writes a cell another can read or write
     c07_no_shared_writes           parent with fromj_full: the shared write set of every program is empty
     c07_shared_writes_classified   any parent: a shared write is a spare cell of its FROM-joins array
     c07_chain_methods_write_private  chain methods never write a shared cell
     c07_fromjoins_refuted          witness (reachable state) of the remaining shared write
     c07_swap_private_now           the former Where.Build witness has no shared write since 12bf8b8
     c07_reachable_parent_wf        the well-formedness hypothesis holds for every handle of every history *)
From Verif Require Export Base C06_Model.
Open Scope nat_scope.

(* a goroutine's program on the shared handle: chain methods, then one finisher *)
Definition prog := (list op * fin)%type.

Section Run.
Variable grow : field -> nat -> nat -> nat.
Variable md : field -> bool.

Fixpoint chain_ops (s : mstmt) (ops : list op) : cmd mstmt :=
  match ops with
  | [] => ret s
  | o :: r => s1 <- chain_op grow md s o ;; chain_ops s1 r
  end.

(* DB.getInstance on the reusable parent (clone = 1: an empty statement; clone = 2:
   Statement.clone of the parent's), the chain on that private instance, the finisher *)
Definition goroutine (par : mstmt) (newdb : bool) (pr : prog) : cmd (mstmt * (list Z * list Z)) :=
  c <- (if newdb then ret new_stmt else stmt_clone par) ;;
  s1 <- chain_ops c (fst pr) ;;
  finish grow md s1 (snd pr).

(* every cell written while the program ran ... *)
Definition writes_of (h : heap) (par : mstmt) (newdb : bool) (pr : prog) : wset :=
  snd (goroutine par newdb pr h).
(* ... restricted to the arrays that existed when it started: the memory other goroutines see *)
Definition shared_writes (h : heap) (par : mstmt) (newdb : bool) (pr : prog) : wset :=
  filter (fun x => fst x <? length h) (writes_of h par newdb pr).
End Run.

(* the cells a chain derived from the parent can read: the visible part of the parent's slices *)
Definition reads (par : mstmt) (l i : nat) : Prop :=
  exists f n c, sl par f = SArr l n c /\ i < n.

(* a parent whose FROM joins (a caller's clause.From{Joins}) have no spare capacity: BuildQuerySQL's
   fromClause.Joins = append(fromClause.Joins, ...) then always reallocates.  (Since /repo 12bf8b8
   Where.Build swaps on a private copy, so nothing is required of WHERE / HAVING any more.) *)
Definition fromj_full (par : mstmt) : Prop := slen (sl par FFromj) = scap (sl par FFromj).

(* the one remaining kind of shared write: a spare cell of the parent's FROM-joins array *)
Definition fromj_spare_cell (par : mstmt) (l i : nat) : Prop :=
  exists n c, sl par FFromj = SArr l n c /\ n <= i /\ n < c.

(* the statement of handle p in a state reached by a history *)
Definition parent_stmt (st : state) (p : nat) : mstmt :=
  get_stmt (st_stmts st) (fst (nth p (st_handles st) (0, 1))).
