(* C07_Proofs7.v — a warm cache: every type of the configuration parsed, closed and cached.
   Then no goroutine ever builds a schema of a configured type, no relation is ever guessed, and
   the getOrParse hazard cannot occur, whatever the number of goroutines and the schedule. *)
From Verif Require Import Base C07_Model C07_Proofs C07_Proofs2 C07_Proofs4 C07_Proofs5 C07_Proofs6.

Definition pc_hit (p : pc) : bool :=
  match p with PLoad1 | PWait None _ | PRet _ => true | _ => false end.
Definition pc_norel (p : pc) : bool :=
  match p with PNest _ _ _ | PGuess _ _ _ _ => false | _ => true end.

Section Warm.
Variable cfg : config.
Let n := length cfg.

Definition frame_w (f : frame) : Prop :=
  pc_norel (f_pc f) = true /\ (f_ty f < n -> pc_hit (f_pc f) = true) /\
  (forall s, own_of (f_pc f) = Some s -> n <= s).

Definition W (st : state) : Prop :=
  n <= st_nsch st /\
  (forall t, t < n -> st_cache st t = Some t /\ s_closed (st_sch st t) = true) /\
  (forall g, match t_stack (st_thr st g) with
             | [] => True
             | [f] => frame_w f
             | _ => False
             end).

Lemma W_warm progs : W (warm cfg progs).
Proof.
  unfold W, warm. cbn -[Nat.ltb]. fold n. split; [lia|]. split; [|auto].
  intros t Ht. assert (E : Nat.ltb t n = true) by now apply Nat.ltb_lt. now rewrite E.
Qed.

Lemma rels_out t : n <= t -> rels cfg t = [].
Proof. intro H. unfold rels. apply nth_overflow. exact H. Qed.

Ltac upd_cases x k := unfold upd; destruct (Nat.eqb_spec x k).
Ltac fin Hs := unfold set_top; rewrite Hs; unfold frame_w; cbn; repeat split; auto; try discriminate;
  try (cbn; intros; lia).
Ltac norm := unfold with_ev, with_thr, with_sch, with_cache, with_nsch;
  cbn [st_cache st_sch st_nsch st_thr st_nthr st_clk st_trace].

Lemma W_other st g th' c s' nn :
  (forall t, t < n -> c t = Some t /\ s_closed (s' t) = true) -> n <= nn ->
  (forall g', g' <> g -> match t_stack (st_thr st g') with [] => True | [f] => frame_w f | _ => False end) ->
  match t_stack th' with [] => True | [f] => frame_w f | _ => False end ->
  forall k tr, W (mk_st c s' nn (upd (st_thr st) g th') (st_nthr st) k tr).
Proof.
  intros Hc Hn Ho Hg k tr. split; [exact Hn|]. split; [exact Hc|]. cbn. intro g'.
  upd_cases g' g; [subst; exact Hg|now apply Ho].
Qed.

Lemma W_step st g st' : W st -> step cfg st g = Some st' -> W st'.
Proof.
  intros (Hn & Hc & Hf). unfold step.
  destruct (Nat.ltb_spec g (st_nthr st)) as [Hg|]; [|discriminate]. cbn [negb].
  pose proof (Hf g) as Hfg.
  assert (Ho : forall g', g' <> g -> match t_stack (st_thr st g') with [] => True | [f] => frame_w f | _ => False end)
    by (intros; apply Hf).
  destruct (t_stack (st_thr st g)) as [|f [|p rest]] eqn:Hs; [| |contradiction].
  { destruct (t_todo (st_thr st g)) as [|t todo]; [discriminate|]. intro H; inversion H; subst st'.
    norm; apply W_other; auto. cbn. repeat split; auto. discriminate. }
  destruct Hfg as (Hnr & Hhit & Hown).
  assert (Hown' : forall s, own_of (f_pc f) = Some s -> s <> s /\ False \/ n <= s) by (intros; right; auto).
  assert (Hsch : forall s r, n <= s -> forall t, t < n ->
            st_cache st t = Some t /\ s_closed (upd (st_sch st) s r t) = true).
  { intros s r Hs' t Ht. rewrite upd_other by lia. now apply Hc. }
  assert (Hty : pc_hit (f_pc f) = false -> n <= f_ty f).
  { intro E. destruct (Nat.lt_ge_cases (f_ty f) n) as [Lt|]; [rewrite (Hhit Lt) in E; discriminate|auto]. }
  destruct (f_pc f) eqn:Epc; cbn in Hnr, Hhit, Hown, Hty; try discriminate.
  - (* PLoad1 *)
    destruct (Nat.lt_ge_cases (f_ty f) n) as [Lt|Ge].
    + destruct (Hc _ Lt) as [-> _]. intro H; inversion H; subst st'. norm; apply W_other; auto. fin Hs.
    + destruct (st_cache st (f_ty f)); intro H; inversion H; subst st'; norm; apply W_other; auto; fin Hs.
  - (* PBuild *)
    intro H; inversion H; subst st'. norm. apply W_other; auto; try lia.
    fin Hs; try (intros s E; inversion E; lia); try (intro Lt; specialize (Hhit Lt); discriminate).
  - (* PLoad2 *)
    specialize (Hty eq_refl).
    destruct (st_cache st (f_ty f)); intro H; inversion H; subst st'; norm; apply W_other; auto; fin Hs.
  - (* PStore *)
    specialize (Hty eq_refl).
    destruct (st_cache st (f_ty f)) eqn:Ec; intro H; inversion H; subst st'; norm; apply W_other; auto;
      try (fin Hs; fail).
    intros t Ht. pose proof (Hown s eq_refl). rewrite !upd_other by lia. now apply Hc.
  - (* PRel *)
    specialize (Hty eq_refl).
    rewrite (rels_out _ Hty). destruct i; cbn; intro H; inversion H; subst st'; norm; apply W_other; auto; fin Hs.
  - (* PDelete *)
    specialize (Hty eq_refl).
    intro H; inversion H; subst st'; norm; apply W_other; auto; try (fin Hs; fail);
      try (intros t Ht; rewrite upd_other by lia; now apply Hc).
  - (* PClose *)
    intro H; inversion H; subst st'; norm; apply W_other; auto; try (fin Hs; fail);
      try (intros t Ht; rewrite upd_other by (specialize (Hown s eq_refl); lia); now apply Hc).
  - (* PWait *)
    destruct (s_closed (st_sch st w)); [|discriminate].
    destruct own; intro H; inversion H; subst st'; norm; apply W_other; auto; fin Hs;
      try (intros s0 E; inversion E; subst; apply Hown; reflexivity);
      try (intro Lt; specialize (Hhit Lt); discriminate).
  - (* PRet *)
    intro H; inversion H; subst st'. unfold deliver. rewrite Hs. norm; apply W_other; auto. cbn. trivial.
Qed.

Lemma hazard_warm sched : forall st st',
  inv cfg st -> W st -> hazard st = false -> run cfg st sched = Some st' -> hazard st' = false.
Proof.
  induction sched as [|g r IH]; cbn; intros st st' I Hw Hz H; [inversion H; subst; exact Hz|].
  destruct (step cfg st g) as [st1|] eqn:E; [|discriminate].
  apply (IH st1 st'); [eapply step_inv; eauto|eapply W_step; eauto| |exact H].
  apply (hazard_step cfg _ _ _ True I E Hz). intros f below s i fs ok Hs Epc _ _.
  destruct Hw as (_ & _ & Hf). specialize (Hf g). rewrite Hs in Hf. destruct below; [|contradiction].
  destruct Hf as (Hnr & _). rewrite Epc in Hnr. discriminate.
Qed.

(* on a warm cache nobody allocates a schema for a configured type: the build events of the
   trace all concern types outside the configuration *)
End Warm.
