(* C13_Vals4.v — values set by before-hooks, part 4: Update / Updates (one payload for all targeted rows:
   the LAST value a before-hook asked for is the value every targeted row is updated with). *)
From Verif Require Import Base C13_Model C13_Check C13_Proofs C13_Proofs2 C13_Proofs3 C13_Proofs4 C13_Proofs6 C13_Vals C13_Vals2 C13_Vals3.
Open Scope Z_scope.

(* the value the Update statement will write: the payload *)
Definition payv (c : cx) (s : S) : option Z :=
  match c_dest c with DMap => map_val (s_pay s) | DStruct => Some (s_payS s) | DSelf => None end.

Definition of_type (t : ty) (e : hev) : bool := snd (fst e) =? ty_id t.

(* the payload holds the last value a before-hook of the model type asked for *)
Definition PI (o : op) (c : cx) (s : S) : Prop :=
  s_k s = len (hooks_of (s_tr s)) /\
  forall v, last_set o (of_type (c_ty c)) (hooks_of (s_tr s)) = Some v -> payv c s = Some v.

Definition upd_cx (o : op) (c : cx) : Prop := c_sets c = o_sets o /\ c_dest c <> DSelf.

Lemma set_column_payv : forall c i v s, c_dest c <> DSelf ->
  payv c (set_column c i v s) = Some v /\ s_tr (set_column c i v s) = s_tr s /\ s_k (set_column c i v s) = s_k s.
Proof.
  intros c i v s D. unfold payv, set_column. destruct (c_dest c); try congruence.
  - cbn. rewrite map_val_set. repeat split.
  - destruct (sh_cont (c_shape c)); try destruct (sh_outer_ptr (c_shape c)); cbn -[set_nth_val set_rec_val]; repeat split.
Qed.

Lemma add_err_payv : forall c e s, payv c (add_err e s) = payv c s.
Proof. reflexivity. Qed.

Lemma invoke_PI : forall o c h tag i s, upd_cx o c -> is_before_save_hook h = true ->
  PI o c s -> PI o c (invoke c h tag i s).
Proof.
  intros o c h tag i s (SE & D) BH (K & V). unfold invoke. rewrite BH. cbn [orb andb].
  set (s1 := set_k (s_k s + 1) (emit (THook h (ty_id (c_ty c)) tag (s_pool s)) s)).
  assert (H1 : hooks_of (s_tr s1) = hooks_of (s_tr s) ++ [(h, ty_id (c_ty c), tag)]).
  { subst s1. cbn. rewrite hooks_of_app. reflexivity. }
  assert (LS : last_set o (of_type (c_ty c)) (hooks_of (s_tr s1)) =
               if memz (s_k s) (o_sets o) then Some (1000 + s_k s) else last_set o (of_type (c_ty c)) (hooks_of (s_tr s))).
  { rewrite H1, last_set_snoc. unfold of_type at 1. cbn [fst snd]. rewrite Z.eqb_refl, BH, <- K. reflexivity. }
  assert (R : PI o c (if memz (s_k s) (c_sets c) then set_column c i (1000 + s_k s) s1 else s1)).
  { rewrite SE. destruct (memz (s_k s) (o_sets o)) eqn:M.
    - destruct (set_column_payv c i (1000 + s_k s) s1 D) as (P & T & KK). split.
      + rewrite KK, T, H1, len_app. subst s1. cbn [s_k set_k]. rewrite K. unfold len. cbn. lia.
      + intros v Hv. rewrite T, LS in Hv. inversion Hv; subst. exact P.
    - split.
      + rewrite H1, len_app. subst s1. cbn [s_k set_k]. rewrite K. unfold len. cbn. lia.
      + intros v Hv. rewrite LS in Hv. apply V in Hv. exact Hv. }
  destruct (memz (s_k s) (c_fails c)); [|exact R].
  destruct R as (K' & V'). split; [exact K' | exact V'].
Qed.

Lemma fc_PI : forall o c hs vf tag i s, upd_cx o c -> all_before hs -> PI o c s -> PI o c (snd (fc c hs vf tag i s)).
Proof.
  intros o c hs vf tag i s UC. revert s. induction hs as [|h hs IH]; intros s AB P; [exact P|].
  cbn [fc]. assert (AB' : all_before hs) by (intros h' Hh; apply AB; right; exact Hh).
  destruct (flag (c_ty c) h && in_mset vf (recv_of (c_ty c) h)); [|apply IH; assumption].
  cbn [snd]. apply IH; [exact AB'|]. apply invoke_PI; try assumption. apply AB. left. reflexivity.
Qed.

Lemma loop_PI : forall o c hs recs i s, upd_cx o c -> all_before hs -> PI o c s -> PI o c (loop c hs recs i s).
Proof.
  intros o c hs recs. induction recs as [|r rs IH]; intros i s UC AB P; [exact P|].
  cbn [loop]. destruct (elem_addr (c_shape c) r); [|exact P].
  apply IH; try assumption. apply fc_PI; assumption.
Qed.

Lemma call_method_PI : forall o c hs s, upd_cx o c -> all_before hs -> PI o c s -> PI o c (call_method c hs s).
Proof.
  intros o c hs s UC AB P. unfold call_method. destruct (sh_cont (c_shape c)); try (apply loop_PI; assumption).
  destruct (s_recs s) as [|r l]; [exact P|].
  pose proof (fc_PI o c hs VVal (m_tag r) 0%nat s UC AB P) as A.
  destruct (fc c hs VVal (m_tag r) 0 s) as [called s1]. cbn [snd] in A.
  destruct called; [exact A|].
  destruct (sh_outer_ptr (c_shape c)); [apply fc_PI; assumption | exact P].
Qed.

Lemma hooks_phase_PI : forall o c s, upd_cx o c -> PI o c s -> PI o c (hooks_phase c PBeforeUpdate s).
Proof.
  intros o c s UC P. unfold hooks_phase. destruct (_ && _); [|exact P].
  apply call_method_PI; try assumption. intros h Hh. cbn in Hh. destruct Hh as [<-|[<-|[]]]; reflexivity.
Qed.

(* ---------------------------------------------------------------- the Update statement *)
Lemma has_row_upsert : forall t g g' v tb, has_row t g tb = true -> has_row t g (upsert t g' v tb) = true.
Proof.
  intros t g g' v tb H. unfold has_row, upsert in *. rewrite existsb_app.
  destruct (Z.eqb_spec g g') as [->|NE].
  - apply orb_true_iff. right. cbn. unfold row_is. cbn [fst snd]. rewrite Z.eqb_refl.
    destruct t; reflexivity.
  - apply orb_true_iff. left. apply existsb_exists in H. destruct H as (x & Hx & Rx).
    apply existsb_exists. exists x. split; [|exact Rx]. unfold del_row. apply filter_In. split; [exact Hx|].
    unfold row_is in *. apply andb_prop in Rx. destruct Rx as [R1 R2]. rewrite R1. cbn [andb].
    apply Z.eqb_eq in R2. rewrite R2. destruct (Z.eqb_spec g g'); [congruence | reflexivity].
Qed.

Definition upd_step (t : table) (v : Z) (tb : list row) (r : mrec) : list row :=
  if has_row t (m_tag r) tb then upsert t (m_tag r) v tb else tb.

Lemma fold_update_keeps : forall t v recs tb g, In (t, g, v) tb -> In (t, g, v) (fold_left (upd_step t v) recs tb).
Proof.
  intros t v recs. induction recs as [|x l IH]; intros tb g H; [exact H|].
  cbn [fold_left]. apply IH. unfold upd_step. destruct (has_row t (m_tag x) tb); [|exact H].
  destruct (Z.eq_dec g (m_tag x)) as [->|NE]; [apply upsert_in|].
  apply upsert_keeps; [|exact H]. intro E. apply NE. congruence.
Qed.

Lemma fold_update_in : forall t v recs tb r, In r recs -> has_row t (m_tag r) tb = true ->
  In (t, m_tag r, v) (fold_left (upd_step t v) recs tb).
Proof.
  intros t v recs. induction recs as [|x l IH]; intros tb r H HR; [contradiction|].
  cbn [fold_left]. destruct H as [->|H].
  - apply fold_update_keeps. unfold upd_step. rewrite HR. apply upsert_in.
  - apply IH; [exact H|]. unfold upd_step. destruct (has_row t (m_tag x) tb); [apply has_row_upsert|]; exact HR.
Qed.

Lemma stmt_update_stores : forall c s v g,
  s_err s = [] -> payv c s = Some v -> c_dest c <> DSelf -> In g (map m_tag (s_recs s)) -> has_row (c_table c) g (s_tbl s) = true ->
  In (c_table c, g, v) (s_tbl (stmt_update c s)).
Proof.
  intros c s v g E P D H HR. apply in_map_iff in H. destruct H as (r & <- & H).
  unfold stmt_update. rewrite E. cbn [is_nil negb].
  destruct (s_recs s) as [|x l] eqn:R; [contradiction|]. cbn [s_tbl set_tbl emit set_tr].
  assert (EQ : forall tb recs,
             fold_left (fun tb r => if has_row (c_table c) (m_tag r) tb
                                    then match new_val c s r with Some v => upsert (c_table c) (m_tag r) v tb | None => tb end
                                    else tb) recs tb
             = fold_left (upd_step (c_table c) v) recs tb).
  { intros tb recs. revert tb. induction recs as [|y recs IH]; intro tb; [reflexivity|]. cbn [fold_left]. rewrite IH.
    f_equal. unfold upd_step, new_val. unfold payv in P. destruct (c_dest c); try congruence; [rewrite P; reflexivity | inversion P; reflexivity]. }
  rewrite EQ. apply fold_update_in; assumption.
Qed.

(* ---------------------------------------------------------------- the update pipeline, [run] *)
Lemma save_assoc_nil : forall c t tb sg s, save_assoc c t tb sg [] s = s.
Proof. reflexivity. Qed.

Definition no_assoc_vals (a : assocs) : Prop := a_boss a = [] /\ a_kids a = [] /\ a_pets a = [] /\ a_keepers a = [].

Lemma save_before_none : forall c a s, no_assoc_vals a -> save_before_assoc c a s = s.
Proof. intros c a s (B & _). unfold save_before_assoc. rewrite B. destruct (is_nil (s_err s)); reflexivity. Qed.
Lemma save_after_none : forall c a s, no_assoc_vals a -> save_after_assoc c a s = s.
Proof. intros c a s (_ & K & P & NK). unfold save_after_assoc. rewrite K, P, NK. destruct (is_nil (s_err s)); reflexivity. Qed.

Lemma update_body_vals : forall o c a s v,
  upd_cx o c -> no_assoc_vals a ->
  goodk (c_shape c) (keys s) ->
  uniform_phase (c_shape c) (c_ty c) (fc_hooks PBeforeUpdate) -> uniform_phase (c_shape c) (c_ty c) (fc_hooks PAfterUpdate) ->
  PI o c s ->
  let sf := cu_body c a PBeforeUpdate PAfterUpdate stmt_update s in
  is_nil (s_err sf) = true ->
  last_set o (of_type (c_ty c)) (hooks_of (s_tr sf)) = Some v ->
  forall r, In r (s_recs s) -> has_row (c_table c) (m_tag r) (s_tbl s) = true ->
  In (c_table c, m_tag r, v) (s_tbl sf).
Proof.
  intros o c a s v UC NA G U1 U2 P sf HF LS r IN HR. subst sf. unfold cu_body in *.
  rewrite save_before_none in * by exact NA. rewrite save_after_none in * by exact NA.
  set (tags := map fst (keys s)).
  set (s1 := begin_tx c s) in *.
  pose proof (begin_tx_step (c_fails c) c s) as B. fold s1 in B.
  pose proof (hs_keys' _ _ _ _ B) as K1.
  assert (G1 : goodk (c_shape c) (keys s1)) by (rewrite K1; exact G).
  set (s2 := hooks_phase c PBeforeUpdate s1) in *.
  assert (P1 := hooks_phase_step' c PBeforeUpdate s1 tags G1 U1 ltac:(rewrite K1; reflexivity)). fold s2 in P1.
  pose proof (hs_keys' _ _ _ _ P1) as K2.
  assert (G2 : goodk (c_shape c) (keys s2)) by (rewrite K2; exact G1).
  set (s4 := stmt_update c s2) in *.
  pose proof (stmt_update_step (c_fails c) c s2 G2) as ST. fold s4 in ST.
  pose proof (hs_keys' _ _ _ _ ST) as K4.
  assert (G4 : goodk (c_shape c) (keys s4)) by (rewrite K4; exact G2).
  set (s6 := hooks_phase c PAfterUpdate s4) in *.
  assert (P2 := hooks_phase_step' c PAfterUpdate s4 tags G4 U2 ltac:(rewrite K4, K2, K1; reflexivity)). fold s6 in P2.
  pose proof (commit_step (c_fails c) c s6) as CM.
  pose proof (hstep_err_back _ _ _ _ CM HF) as E6.
  pose proof (hstep_err_back _ _ _ _ P2 E6) as E4.
  pose proof (hstep_err_back _ _ _ _ ST E4) as E2.
  (* the payload at the statement *)
  assert (PI1 : PI o c s1).
  { destruct P as (K & V). destruct B as [_ HB KB _]. unfold PI. rewrite HB, KB, app_nil_r. split; [rewrite K; unfold len; cbn; lia|].
    intros v0 Hv. apply V in Hv. unfold payv in *. subst s1. unfold begin_tx.
    destruct (_ && _); [destruct (s_pool s =? 0)|]; exact Hv. }
  assert (PI2 : PI o c s2) by (apply hooks_phase_PI; assumption).
  (* later events are after-hooks *)
  assert (LS2 : last_set o (of_type (c_ty c)) (hooks_of (s_tr s2)) = Some v).
  { destruct CM as [_ HC _ _]. destruct P2 as [_ HP _ _]. destruct ST as [_ HS _ _].
    rewrite HC, HP, HS, !app_nil_r in LS. rewrite last_set_app_irrelevant in LS; [exact LS|].
    intros e He. apply gated_incl, sched_log_incl in He. cbn [concat] in He. rewrite app_nil_r in He.
    apply ph_event in He. destruct He as (_ & _ & Hh).
    rewrite (after_hooks_not_before _ (or_intror Hh)). apply andb_false_r. }
  destruct PI2 as (_ & V2). specialize (V2 v LS2).
  (* records (by tag) and tables at the statement are those of the start *)
  assert (TG2 : map m_tag (s_recs s2) = map m_tag (s_recs s)) by (rewrite !tags_of_keys, K2, K1; reflexivity).
  assert (Q2 : quietT s s2).
  { eapply quietT_trans; [apply begin_tx_quietT | apply hooks_phase_quietT]. }
  destruct Q2 as [TB2 _].
  assert (ST4 : In (c_table c, m_tag r, v) (s_tbl s4)).
  { apply stmt_update_stores; [apply is_nil_true; exact E2 | exact V2 | apply UC | rewrite TG2; apply in_map; exact IN | rewrite TB2; exact HR]. }
  assert (KP : keepsT (c_table c) s4 (commit_or_rollback c s6)).
  { eapply keepsT_trans; [apply quiet_keeps, hooks_phase_quietT|]. fold s6.
    apply quiet_keeps, commit_quietT. exact HF. }
  destruct (KP HF) as [_ KI]. apply KI. exact ST4.
Qed.

(* Update / Updates with a map or a struct payload, no association values in the payload *)
Theorem run_update_values : forall o, op_ok o -> o_kind o = OUpdate -> no_assoc_vals (o_assocs o) ->
  s_err (run o) = [] ->
  forall v, last_set o (of_type (o_ty o)) (hooks_of (s_tr (run o))) = Some v ->
  forall r, In r (o_recs o) -> has_row TRecs (m_tag r) (o_seed o) = true ->
    In (TRecs, m_tag r, v) (s_tbl (run o)).
Proof.
  intros o (U & OK) KD NA HE v LS r IN HR. unfold run in *.
  destruct (finish_facts o (run_body o (init_state o))) as (FH & FE & _). rewrite FE in HE. rewrite FH in LS.
  rewrite KD in OK. destruct OK as (G & AO & _).
  rewrite finish_tbl by (rewrite HE; reflexivity).
  unfold run_body in *. rewrite KD in *. rewrite update_pipeline_eq in *.
  destruct (init_facts o) as (K0 & _ & H0 & KS & TB).
  apply (update_body_vals o (op_cx o (o_skip o) (upd_dest o)) (o_assocs o) (init_state o) v); try assumption.
  - split; [reflexivity|]. cbn. unfold upd_dest. destruct (o_payvia o); discriminate.
  - rewrite KS. exact G.
  - apply U.
  - apply U.
  - split; [rewrite K0, H0; reflexivity|]. rewrite H0. cbn. discriminate.
  - rewrite HE. reflexivity.
  - unfold init_state. destruct (o_txmode o); exact IN.
  - rewrite TB. exact HR.
Qed.

Theorem run_update_vals_ok : forall o, op_ok o -> o_kind o = OUpdate -> no_assoc_vals (o_assocs o) ->
  s_err (run o) = [] ->
  vals_ok o (hooks_of (s_tr (run o))) (s_tbl (run o)) = true.
Proof.
  intros o OK KD NA HE. pose proof (run_update_values o OK KD NA HE) as RV.
  destruct NA as (B & K & P & _).
  unfold vals_ok, op_pipe. rewrite KD, B, K, P. cbn [andb forallb]. rewrite andb_true_r.
  fold (of_type (o_ty o)).
  destruct (last_set o (of_type (o_ty o)) (hooks_of (s_tr (run o)))) as [v|] eqn:LS; [|reflexivity].
  apply forallb_forall. intros r Hr.
  destruct (has_row TRecs (m_tag r) (o_seed o)) eqn:HR; [|reflexivity]. cbn [negb orb].
  apply in_row_has. apply (RV v eq_refl r Hr HR).
Qed.
