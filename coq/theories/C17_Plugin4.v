(* C17_Plugin4.v — the plugin domain, part 4: every in-domain call of a plugin-style history keeps
   the invariant [pinv]; hence no crash, and handler / sides / built-in order hold after every nil. *)
From Verif Require Import Base C17_Model C17_Check C17_Proofs C17_Proofs2 C17_Proofs3 C17_Plugin C17_Plugin2 C17_Plugin3.
From Coq Require Import Permutation.
Open Scope string_scope.
Open Scope list_scope.

Section Plugin.
Variables BN MN : list string.
Notation tgt := (tgt BN MN).
Notation pinv := (pinv BN MN).

(* the default registration: plain Register calls flagged built-in *)
Definition bi_step (s : step) : Prop :=
  st_builtin s = true /\ st_kind s = KRegister /\ st_before s = "" /\ st_after s = ""
  /\ (st_matched s = true -> In (st_name s) BN /\ In (st_name s) MN).
(* the rest: requests name built-ins (live or not) or names that no call of the history registers *)
Definition user_step (s : step) : Prop :=
  st_builtin s = false /\ tgt (st_before s) /\ tgt (st_after s)
  /\ (st_matched s = true -> In (st_name s) MN)
  /\ (st_kind s = KRegister -> ~ In (st_name s) BN).   (* a removed built-in name is not taken by a user callback *)

Lemma dom_parts : forall r i s,
  r_dom (ref_apply r i s) = true -> r_dom r = true /\ builtin_ok r s = true.
Proof.
  intros r i s. unfold ref_apply. destruct (st_kind s).
  - destruct (negb (st_matched s)); cbn; rewrite ?andb_true_iff; tauto.
  - destruct (is_live (r_live r) (st_name s) && unconstrained s); cbn; rewrite ?andb_true_iff; [tauto|discriminate].
  - destruct (is_live (r_live r) (st_name s) && unconstrained s); cbn; rewrite ?andb_true_iff; [tauto|discriminate].
Qed.

Lemma used_mono : forall r i s, incl (r_used r) (r_used (ref_apply r i s)).
Proof.
  intros r i s. unfold ref_apply. destruct (st_kind s).
  - destruct (negb (st_matched s)); cbn; [apply incl_refl|apply incl_tl, incl_refl].
  - destruct (is_live (r_live r) (st_name s) && unconstrained s); apply incl_refl.
  - destruct (is_live (r_live r) (st_name s) && unconstrained s); apply incl_refl.
Qed.

Lemma builtin_names_app : forall l1 l2, builtin_names (l1 ++ l2) = builtin_names l1 ++ builtin_names l2.
Proof. intros. unfold builtin_names. now rewrite filter_app, map_app. Qed.

Lemma live_names_used : forall p r n, rel p r -> In n (map cb_name (p_cs p)) -> In n (r_used r).
Proof. intros p r n R H. apply (rel_used _ _ R), (rel_names _ _ R), H. Qed.

(* ---- Register *)
Lemma step_register : forall p r B U s i,
  pinv p r B U -> r_dom (ref_apply r i s) = true -> st_kind s = KRegister ->
  (bi_step s \/ (user_step s /\ incl BN (r_used r))) ->
  exists B' U', compile_filter (p_cs p ++ [cb_of_step (p_cs p) s i]) = B' ++ U'
                /\ forall fns, pinv (mk_proc (B' ++ U') fns) (ref_apply r i s) B' U'.
Proof.
  intros p r B U s i I Hdom Hk Hs.
  destruct (dom_parts _ _ _ Hdom) as [Hd0 Hbok].
  pose proof (step_kept p r s i (pi_rel _ _ _ _ _ _ I) Hdom) as K. cbn zeta in K.
  destruct K as (Kn & Kf & Kd & Ku).
  assert (Rel' : forall kept fns, kept = compile_filter (p_cs p ++ [cb_of_step (p_cs p) s i]) ->
                 rel (mk_proc kept fns) (ref_apply r i s)).
  { intros kept fns ->. constructor; cbn; auto. }
  destruct I as [R Hu Hcs Hp HBn HU0 Ht Hbi Hnb Hhid].
  revert Hdom Kn Kf Kd Ku Rel'. unfold ref_apply, cb_of_step. rewrite Hk.
  rewrite compile_filter_plain by (auto using (rel_flags _ _ R); reflexivity). cbn [cb_matched].
  destruct (st_matched s) eqn:Em; cbn [negb].
  2:{ (* guarded out: nothing changes *)
      intros Hdom Kn Kf Kd Ku Rel'. rewrite app_nil_r in *. exists B, U. split; [exact Hcs|]. intro fns.
      constructor; cbn [r_live r_used r_user p_cs].
      - apply Rel'. now rewrite Hcs.
      - exact Hu.
      - reflexivity.
      - exact Hp.
      - exact HBn.
      - intro H. apply HU0. apply orb_false_iff in H. tauto.
      - exact Ht.
      - exact Hbi.
      - exact Hnb.
      - intros e He. destruct (Hhid e He) as (c & Hl & Hh). exists c. now rewrite <- Hcs. }
  intros Hdom Kn Kf Kd Ku Rel'. cbn in Hdom. rewrite !andb_true_iff, negb_true_iff, !orb_false_iff in Hdom.
  destruct Hdom as (_ & (_ & _) & Hmem).
  set (n := st_name s) in *. set (c := mk_cb n (st_before s) (st_after s) false false true i) in *.
  assert (Hfresh : ~ In n (map cb_name (p_cs p))).
  { intro H. apply (rel_names _ _ R) in H. apply is_live_true in H. congruence. }
  assert (Hhid' : forall cs', cs' = p_cs p ->
            forall e, In e (r_live r ++ [mk_entry n (st_before s) (st_after s) i i (st_builtin s)]) ->
            exists x, last_named (cs' ++ [c]) (e_name e) = Some x /\ cb_hid x = e_hid e).
  { intros cs' -> e He. rewrite last_named_snoc. apply in_app_iff in He. destruct He as [He|[<-|[]]].
    - cbn [cb_name c]. destruct (String.eqb n (e_name e)) eqn:Eq.
      + apply String.eqb_eq in Eq. exfalso. apply Hfresh. apply (rel_names _ _ R). rewrite Eq. apply in_map, He.
      + apply Hhid, He.
    - cbn. rewrite String.eqb_refl. eauto. }
  destruct Hs as [(Hb & _ & Hbf & Haf & Hbn)|((Hb & Tb & Ta & Hmn & Hnbn) & HBNu)].
  - (* a built-in registration: no user call yet, U = [] *)
    unfold builtin_ok in Hbok. rewrite Hb in Hbok. cbn in Hbok. rewrite !andb_true_iff, negb_true_iff in Hbok.
    destruct Hbok as (((Hnu & _) & _) & _). specialize (HU0 Hnu). subst U. rewrite app_nil_r in Hcs.
    exists (B ++ [c]), []. split; [rewrite Hcs, app_nil_r; reflexivity|]. intro fns.
    constructor; cbn [r_live r_used r_user p_cs].
    + apply Rel'. now rewrite Hcs, !app_nil_r.
    + intros x [<-|Hx]; [apply Hbn, Em|apply Hu, Hx].
    + reflexivity.
    + intros b Hin. apply in_app_iff in Hin. destruct Hin as [Hin|[<-|[]]]; [apply Hp, Hin|]. split; cbn; assumption.
    + rewrite map_app, builtin_names_app, HBn. cbn. unfold builtin_names at 2. cbn. now rewrite Hb.
    + reflexivity.
    + intros x [].
    + intros e He Heb. apply in_app_iff in He. destruct He as [He|[<-|[]]]; [apply Hbi; assumption|]. cbn. auto.
    + intros e He Heb. apply in_app_iff in He. destruct He as [He|[<-|[]]].
      * destruct (Hnb e He Heb) as (_ & pre & c0 & post & E & _). destruct pre; discriminate.
      * cbn in Heb. congruence.
    + rewrite app_nil_r. apply Hhid'. symmetry. exact Hcs.
  - (* a user registration *)
    exists B, (U ++ [c]). split; [rewrite Hcs, app_assoc; reflexivity|]. intro fns.
    constructor; cbn [r_live r_used r_user p_cs].
    + apply Rel'. now rewrite Hcs, app_assoc.
    + intros x [<-|Hx]; [apply Hmn, Em|apply Hu, Hx].
    + reflexivity.
    + exact Hp.
    + rewrite builtin_names_app, HBn. unfold builtin_names at 2. cbn. rewrite Hb. cbn. now rewrite app_nil_r.
    + rewrite Hb. cbn. rewrite orb_true_r. discriminate.
    + intros x Hx. apply in_app_iff in Hx. destruct Hx as [Hx|[<-|[]]]; [apply Ht, Hx|]. cbn. auto.
    + intros e He Heb. apply in_app_iff in He. destruct He as [He|[<-|[]]]; [apply Hbi; assumption|].
      cbn in Heb. congruence.
    + intros e He Heb. apply in_app_iff in He. destruct He as [He|[<-|[]]].
      * destruct (Hnb e He Heb) as (HnoBN & pre & c0 & post & E & Hrest). split; [exact HnoBN|].
        exists pre, c0, (post ++ [c]). split; [rewrite E, <- app_assoc; reflexivity|exact Hrest].
      * cbn. split; [exact (Hnbn Hk)|].
        exists U, c, []. split; [reflexivity|]. split; [reflexivity|]. split; [|split; reflexivity].
        intro H. apply Hfresh. rewrite Hcs, map_app. apply in_app_iff. right. exact H.
    + rewrite app_assoc. apply Hhid'. symmetry. exact Hcs.
Qed.

(* ---- Replace *)
Lemma builtin_names_update : forall live n i,
  builtin_names (map (fun e => if named n e then mk_entry (e_name e) (e_before e) (e_after e) i (e_reg e) (e_builtin e)
                               else e) live) = builtin_names live.
Proof.
  intros live n i. unfold builtin_names. induction live as [|e live IH]; cbn; [reflexivity|].
  destruct (named n e); cbn; destruct (e_builtin e); cbn; now rewrite IH.
Qed.

Lemma step_replace : forall p r B U s i,
  pinv p r B U -> r_dom (ref_apply r i s) = true -> st_kind s = KReplace ->
  exists B' U', compile_filter (p_cs p ++ [cb_of_step (p_cs p) s i]) = B' ++ U'
                /\ forall fns, pinv (mk_proc (B' ++ U') fns) (ref_apply r i s) B' U'.
Proof.
  intros p r B U s i I Hdom Hk.
  destruct (dom_parts _ _ _ Hdom) as [Hd0 Hbok].
  assert (Hns : forall c, In c (p_cs p) -> nostar c).
  { rewrite (pi_cs _ _ _ _ _ _ I). apply simple_ok_nostar. exact (pinv_simple_ok _ _ _ _ _ _ I). }
  pose proof (step_kept p r s i (pi_rel _ _ _ _ _ _ I) Hdom) as K. cbn zeta in K.
  destruct K as (Kn & Kf & Kd & Ku).
  assert (Rel' : forall kept fns, kept = compile_filter (p_cs p ++ [cb_of_step (p_cs p) s i]) ->
                 rel (mk_proc kept fns) (ref_apply r i s)).
  { intros kept fns ->. constructor; cbn; auto. }
  destruct I as [R Hu Hcs Hp HBn HU0 Ht Hbi Hnb Hhid].
  assert (Hnb0 : st_builtin s = false).
  { unfold builtin_ok in Hbok. rewrite Hk in Hbok. destruct (st_builtin s); [|reflexivity].
    cbn in Hbok. rewrite andb_false_r in Hbok. discriminate. }
  revert Hdom Kn Kf Kd Ku Rel'. unfold ref_apply, cb_of_step. rewrite Hk.
  rewrite (replace_fields_nostar _ s Hns). cbn [fst snd].
  destruct (is_live (r_live r) (st_name s) && unconstrained s) eqn:El; [|discriminate].
  apply andb_true_iff in El. destruct El as [El Eu].
  unfold unconstrained in Eu. rewrite !andb_true_iff in Eu. destruct Eu as ((Eb & Ea) & Em).
  unfold is_none in Eb, Ea. apply String.eqb_eq in Eb, Ea.
  rewrite compile_filter_plain by (auto using (rel_flags _ _ R); reflexivity). cbn [cb_matched]. rewrite Em, Eb, Ea.
  intros Hdom Kn Kf Kd Ku Rel'.
  set (n := st_name s) in *. set (c := mk_cb n "" "" false true true i) in *.
  exists B, (U ++ [c]). split; [rewrite Hcs, app_assoc; reflexivity|]. intro fns.
  constructor; cbn [r_live r_used r_user p_cs].
  - apply Rel'. now rewrite Hcs, app_assoc.
  - exact Hu.
  - reflexivity.
  - exact Hp.
  - now rewrite builtin_names_update.
  - rewrite Hnb0. cbn. rewrite orb_true_r. discriminate.
  - intros x Hx. apply in_app_iff in Hx. destruct Hx as [Hx|[<-|[]]]; [apply Ht, Hx|]. cbn. split; apply tgt_none.
  - intros e He Heb. apply in_map_iff in He. destruct He as (e0 & <- & He0).
    destruct (named n e0); cbn in *; apply (Hbi e0 He0 Heb).
  - intros e He Heb. apply in_map_iff in He. destruct He as (e0 & <- & He0).
    assert (Heb0 : e_builtin e0 = false) by (destruct (named n e0); exact Heb).
    destruct (Hnb e0 He0 Heb0) as (HnoBN & pre & c0 & post & E & Hrest).
    match goal with |- context [if named n e0 then ?x else e0] => set (e' := if named n e0 then x else e0) in * end.
    assert (Sn : e_name e' = e_name e0) by (unfold e'; destruct (named n e0); reflexivity).
    assert (Sb : e_before e' = e_before e0) by (unfold e'; destruct (named n e0); reflexivity).
    assert (Sa : e_after e' = e_after e0) by (unfold e'; destruct (named n e0); reflexivity).
    rewrite Sn, Sb, Sa.
    split; [exact HnoBN|]. exists pre, c0, (post ++ [c]). split; [rewrite E, <- app_assoc; reflexivity|exact Hrest].
  - intros e He. apply in_map_iff in He. destruct He as (e0 & <- & He0).
    rewrite app_assoc, <- Hcs, last_named_snoc. cbn [cb_name c].
    unfold named. destruct (String.eqb (e_name e0) n) eqn:Eq; cbn [e_name e_hid].
    + rewrite String.eqb_sym, Eq. exists c. split; reflexivity.
    + rewrite String.eqb_sym, Eq. apply Hhid, He0.
Qed.

(* ---- Remove *)
Lemma map_filter_name : forall (n : string) (cs : list cb),
  map cb_name (filter (fun x => negb (String.eqb n (cb_name x))) cs)
  = filter (fun m => negb (String.eqb n m)) (map cb_name cs).
Proof.
  intros n cs. induction cs as [|x cs IH]; cbn; [reflexivity|].
  destruct (negb (String.eqb n (cb_name x))); cbn; now rewrite IH.
Qed.

Lemma builtin_names_filter : forall n live,
  builtin_names (filter (fun e => negb (named n e)) live)
  = filter (fun m => negb (String.eqb n m)) (builtin_names live).
Proof.
  intros n live. unfold builtin_names, named. induction live as [|e live IH]; cbn; [reflexivity|].
  rewrite (String.eqb_sym (e_name e) n).
  destruct (String.eqb n (e_name e)) eqn:Eq; cbn; destruct (e_builtin e); cbn; rewrite ?Eq; cbn; now rewrite IH.
Qed.

Lemma step_remove : forall p r B U s i,
  pinv p r B U -> r_dom (ref_apply r i s) = true -> st_kind s = KRemove ->
  exists B' U', compile_filter (p_cs p ++ [cb_of_step (p_cs p) s i]) = B' ++ U'
                /\ forall fns, pinv (mk_proc (B' ++ U') fns) (ref_apply r i s) B' U'.
Proof.
  intros p r B U s i I Hdom Hk.
  destruct (dom_parts _ _ _ Hdom) as [Hd0 Hbok].
  pose proof (step_kept p r s i (pi_rel _ _ _ _ _ _ I) Hdom) as K. cbn zeta in K.
  destruct K as (Kn & Kf & Kd & Ku).
  assert (Rel' : forall kept fns, kept = compile_filter (p_cs p ++ [cb_of_step (p_cs p) s i]) ->
                 rel (mk_proc kept fns) (ref_apply r i s)).
  { intros kept fns ->. constructor; cbn; auto. }
  destruct I as [R Hu Hcs Hp HBn HU0 Ht Hbi Hnb Hhid].
  assert (Hnb0 : st_builtin s = false).
  { unfold builtin_ok in Hbok. rewrite Hk in Hbok. destruct (st_builtin s); [|reflexivity].
    cbn in Hbok. rewrite andb_false_r in Hbok. discriminate. }
  revert Hdom Kn Kf Kd Ku Rel'. unfold ref_apply, cb_of_step. rewrite Hk.
  destruct (is_live (r_live r) (st_name s) && unconstrained s) eqn:El; [|discriminate].
  apply andb_true_iff in El. destruct El as [El Eu].
  unfold unconstrained in Eu. rewrite !andb_true_iff in Eu. destruct Eu as (_ & Em).
  rewrite compile_filter_remove by (auto using (rel_flags _ _ R); reflexivity). cbn [cb_name].
  intros Hdom Kn Kf Kd Ku Rel'.
  set (n := st_name s) in *. set (f := fun x : cb => negb (String.eqb n (cb_name x))) in *.
  exists (filter f B), (filter f U). split; [rewrite Hcs, filter_app; reflexivity|]. intro fns.
  assert (Hne : forall e, In e (filter (fun e => negb (named n e)) (r_live r)) -> In e (r_live r) /\ e_name e <> n).
  { intros e He. apply filter_In in He. destruct He as [He Hn]. split; [exact He|].
    unfold named in Hn. apply negb_true_iff, String.eqb_neq in Hn. exact Hn. }
  constructor; cbn [r_live r_used r_user p_cs].
  - apply Rel'. now rewrite Hcs, filter_app.
  - exact Hu.
  - reflexivity.
  - intros b Hb. apply filter_In in Hb. apply Hp, Hb.
  - unfold f. now rewrite map_filter_name, HBn, builtin_names_filter.
  - rewrite Hnb0. cbn. rewrite orb_true_r. discriminate.
  - intros x Hx. apply filter_In in Hx. apply Ht, Hx.
  - intros e He Heb. apply Hbi; [apply (Hne e He)|exact Heb].
  - intros e He Heb. destruct (Hne e He) as [He0 Hn0].
    destruct (Hnb e He0 Heb) as (HnoBN & pre & c0 & post & E & Ecn & Hpre & Hrest). split; [exact HnoBN|].
    exists (filter f pre), c0, (filter f post). split.
    + rewrite E, filter_app. cbn. unfold f at 2. rewrite Ecn.
      assert (Hx : String.eqb n (e_name e) = false) by (apply String.eqb_neq; congruence). now rewrite Hx.
    + split; [exact Ecn|]. split; [|exact Hrest].
      intro H. apply Hpre. apply in_map_iff in H. destruct H as (x & Hx & Hxin). apply filter_In in Hxin.
      rewrite <- Hx. apply in_map, Hxin.
  - intros e He. destruct (Hne e He) as [He0 Hn0].
    rewrite <- filter_app, <- Hcs, last_named_filter; [apply Hhid, He0|].
    intros x _ Hx. unfold f. apply negb_true_iff, String.eqb_neq. congruence.
Qed.

End Plugin.
