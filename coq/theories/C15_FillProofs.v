(* C15_FillProofs.v — what a record and a map hold after one driver row was scanned into them. *)
From Verif Require Import Base C15_Model C15_Fill.
Open Scope Z_scope.

Lemma get_set_same k v a : get_key k (set_key k v a) = Some v.
Proof.
  induction a as [|[k' v'] r IH]; cbn [set_key get_key].
  - rewrite String.eqb_refl. reflexivity.
  - destruct (String.eqb k k') eqn:E; cbn [get_key]; [rewrite String.eqb_refl; reflexivity|rewrite E; exact IH].
Qed.

Lemma get_set_other k c v a : String.eqb c k = false -> get_key c (set_key k v a) = get_key c a.
Proof.
  intros Hne. induction a as [|[k' v'] r IH]; cbn [set_key get_key].
  - rewrite Hne. reflexivity.
  - destruct (String.eqb k k') eqn:E; cbn [get_key].
    + apply String.eqb_eq in E. subst k'. rewrite Hne. reflexivity.
    + rewrite IH. reflexivity.
Qed.

(* ---- maps ---- *)
Lemma fill_map_get_gen c dr : forall pre,
  get_key c (fill_map pre dr) =
  match last_val c dr with Some v => Some v | None => get_key c pre end.
Proof.
  unfold fill_map, last_val.
  induction dr as [|[k v] r IH] using rev_ind; intros pre; [reflexivity|].
  rewrite !fold_left_app. cbn [fold_left fst snd].
  destruct (String.eqb c k) eqn:E.
  - apply String.eqb_eq in E. subst k. apply get_set_same.
  - rewrite get_set_other by exact E. apply IH.
Qed.

(* ---- structs ---- *)
Lemma fill_struct_get_gen fs c b dr : field_kind fs c = Some b -> forall pre,
  get_key c (fill_struct fs pre dr) =
  match last_val c dr with Some v => Some (norm b v) | None => get_key c pre end.
Proof.
  intros Hf. unfold fill_struct, last_val.
  induction dr as [|[k v] r IH] using rev_ind; intros pre; [reflexivity|].
  rewrite !fold_left_app. cbn [fold_left fst snd]. unfold set_field at 1. cbn [fst snd].
  destruct (String.eqb c k) eqn:E.
  - apply String.eqb_eq in E. subst k. rewrite Hf. rewrite get_set_same. reflexivity.
  - destruct (field_kind fs k) as [bk|].
    + rewrite get_set_other by exact E. apply IH.
    + apply IH.
Qed.

(* a column that names no field changes nothing; a field no column names keeps what it held *)
Lemma fill_struct_other fs c dr : last_val c dr = None -> forall pre,
  get_key c (fill_struct fs pre dr) = get_key c pre.
Proof.
  unfold fill_struct, last_val.
  induction dr as [|[k v] r IH] using rev_ind; intros H pre; [reflexivity|].
  rewrite fold_left_app in *. cbn [fold_left fst snd] in *. unfold set_field at 1. cbn [fst snd].
  destruct (String.eqb c k) eqn:E; [discriminate|].
  destruct (field_kind fs k); [rewrite get_set_other by exact E|]; apply IH; exact H.
Qed.

Lemma fill_struct_not_a_field fs c dr : field_kind fs c = None -> forall pre,
  get_key c (fill_struct fs pre dr) = get_key c pre.
Proof.
  intros Hf. unfold fill_struct.
  induction dr as [|[k v] r IH] using rev_ind; intros pre; [reflexivity|].
  rewrite fold_left_app. cbn [fold_left]. unfold set_field at 1. cbn [fst snd].
  destruct (field_kind fs k) eqn:Ek; [|apply IH].
  destruct (String.eqb c k) eqn:E.
  - apply String.eqb_eq in E. subst k. congruence.
  - rewrite get_set_other by exact E. apply IH.
Qed.

(* MAIN: a record and a map filled from the same driver row agree on every column that names a
   field (a plain field shows NULL as its zero value), whatever they held before, whatever the
   order of the columns, duplicates included (the later column wins in both) *)
Theorem fill_agree fs c b dr pre pre' v :
  field_kind fs c = Some b -> last_val c dr = Some v ->
  get_key c (fill_struct fs pre dr) = Some (norm b v) /\ get_key c (fill_map pre' dr) = Some v.
Proof.
  intros Hf Hl. rewrite (fill_struct_get_gen fs c b dr Hf), fill_map_get_gen, Hl. split; reflexivity.
Qed.

(* the driver row of the fixture: a column selected once carries the table's value *)
Lemma last_val_single c src r : last_val c [(c, col_value src r)] = Some (col_value src r).
Proof. unfold last_val. cbn. rewrite String.eqb_refl. reflexivity. Qed.

(* Pluck of a column = that column of the map / record of the same row *)
Theorem pluck_agrees c r :
  get_key c (fill_map [] (drow_of [(c, c)] r)) = Some (pluck_val (drow_of [(c, c)] r)).
Proof. cbn. rewrite String.eqb_refl. reflexivity. Qed.

(* one record / map / plucked value per row, in the rows' order *)
Lemma recs_length s rs : length (struct_recs s rs) = length rs /\ length (map_recs s rs) = length rs.
Proof. unfold struct_recs, map_recs. rewrite !map_length. split; reflexivity. Qed.

(* ---- Count under a Select (C15_Count) ---- *)
From Verif Require Import C15_Count.

(* Count equals the number of rows Find returns unless ONE column is selected and that column is
   NULL in a matching row *)
Theorem count_sel_agrees selects ms :
  (forall c r, counts_column selects = Some c -> In r ms -> col_value c r <> None) ->
  count_sel selects ms = Z.of_nat (length ms).
Proof.
  intros H. unfold count_sel. destruct (counts_column selects) as [c|] eqn:E; [|reflexivity].
  f_equal. f_equal. induction ms as [|r ms IH]; [reflexivity|]. cbn [filter].
  destruct (col_value c r) eqn:Ev.
  - cbn [length]. f_equal. apply IH. intros c0 r0 Hc Hin. apply H; [exact Hc|right; exact Hin].
  - exfalso. apply (H c r eq_refl (or_introl eq_refl)). exact Ev.
Qed.

(* several selected columns, a column list in one string, no Select: always the number of rows *)
Theorem count_sel_star selects ms : counts_column selects = None -> count_sel selects ms = Z.of_nat (length ms).
Proof. intros H. unfold count_sel. rewrite H. reflexivity. Qed.

(* the hypothesis is needed: the faithful model counts COUNT(n) for Select("n") (known finding) *)
Theorem count_sel_refuted : exists selects ms, count_sel selects ms <> Z.of_nat (length ms).
Proof. exists ["n"%string], [(3, 10); (4, 20)]. vm_compute. discriminate. Qed.
