(* C16_Model.v — Save / Create+OnConflict / FirstOrInit / FirstOrCreate on one table.
   Modelled code (go-gorm/gorm, /repo):
     finisher_api.go   Save, FirstOrInit, FirstOrCreate, assignInterfacesToValue, Create, Find
     chainable_api.go  Where, Attrs, Assign
     gorm.go           Session, WithContext, getInstance (the clone flag 0/1/2)
     statement.go      Statement.clone (copies the clauses and, since /repo commit 2b43abc, attrs and
                       assigns), BuildCondition
                       (struct: non-zero fields, map: every key in sorted order, key-value form)
     callbacks/create.go  ConvertToCreateValues (tracked times filled, OnConflict.UpdateAll expansion)
     callbacks/update.go  ConvertToAssignments (Save: every column; map payload + tracked update time)
     clause/on_conflict.go, soft_delete.go (deleted_at IS NULL on queries and updates)
   The model type is the harness's Acct{ID, Name, Age `default:0`, Email `default:''`, CreatedAt,
   UpdatedAt, DeletedAt}: the two literal zero defaults change nothing on the tree as it is (the column
   is inserted and, under UpdateAll, updated like any other; a zero value is written as the default = zero).
   Times are Z (seconds after a base, 0 = zero time), the pinned NowFunc value is the input [now].
   No proofs here. *)
From Verif Require Import Base.
Open Scope Z_scope.

(* ---- values, columns, records ------------------------------------------------------- *)
Inductive val := VNull | VInt (z : Z) | VStr (s : string).
Inductive col := CId | CName | CAge | CEmail | CCat | CUat | CDel.

Record rec := mk_rec {
  r_id : Z; r_name : string; r_age : Z; r_email : string;
  r_cat : Z;            (* created_at, autoCreateTime *)
  r_uat : Z;            (* updated_at, autoUpdateTime *)
  r_del : option Z      (* deleted_at, gorm.DeletedAt: None = NULL *)
}.
Definition zero_rec := mk_rec 0 "" 0 "" 0 0 None.

Definition val_eqb (a b : val) : bool :=
  match a, b with
  | VNull, VNull => true
  | VInt x, VInt y => x =? y
  | VStr x, VStr y => String.eqb x y
  | _, _ => false
  end.
Definition col_eqb (a b : col) : bool :=
  match a, b with
  | CId, CId | CName, CName | CAge, CAge | CEmail, CEmail | CCat, CCat | CUat, CUat | CDel, CDel => true
  | _, _ => false
  end.
Definition is_zero (v : val) : bool :=
  match v with VNull => true | VInt z => z =? 0 | VStr s => String.eqb s "" end.

Definition get_col (c : col) (r : rec) : val :=
  match c with
  | CId => VInt (r_id r) | CName => VStr (r_name r) | CAge => VInt (r_age r)
  | CEmail => VStr (r_email r) | CCat => VInt (r_cat r) | CUat => VInt (r_uat r)
  | CDel => match r_del r with None => VNull | Some t => VInt t end
  end.

(* schema.Field.Set: nil stores the zero value; a value of the wrong kind is outside the domain
   (gorm reports an error) and leaves the record alone here *)
Definition set_col (c : col) (v : val) (r : rec) : rec :=
  let '(mk_rec i n a e ct ut d) := r in
  match c, v with
  | CId, VInt z => mk_rec z n a e ct ut d
  | CId, VNull => mk_rec 0 n a e ct ut d
  | CName, VStr s => mk_rec i s a e ct ut d
  | CName, VNull => mk_rec i "" a e ct ut d
  | CAge, VInt z => mk_rec i n z e ct ut d
  | CAge, VNull => mk_rec i n 0 e ct ut d
  | CEmail, VStr s => mk_rec i n a s ct ut d
  | CEmail, VNull => mk_rec i n a "" ct ut d
  | CCat, VInt z => mk_rec i n a e z ut d
  | CCat, VNull => mk_rec i n a e 0 ut d
  | CUat, VInt z => mk_rec i n a e ct z d
  | CUat, VNull => mk_rec i n a e ct 0 d
  | CDel, VInt z => mk_rec i n a e ct ut (Some z)
  | CDel, VNull => mk_rec i n a e ct ut None
  | _, _ => r
  end.

Definition set_pairs (ps : list (col * val)) (r : rec) : rec :=
  fold_left (fun r p => set_col (fst p) (snd p) r) ps r.

Definition all_cols : list col := [CId; CName; CAge; CEmail; CCat; CUat; CDel].

(* the non-zero fields of a struct value, in field order (BuildCondition / assignInterfacesToValue) *)
Definition struct_pairs (r : rec) : list (col * val) :=
  filter (fun p => negb (is_zero (snd p))) (map (fun c => (c, get_col c r)) all_cols).

(* ---- tables: rows in primary-key order ----------------------------------------------- *)
Definition table := list rec.
Definition live (r : rec) : bool := match r_del r with None => true | Some _ => false end.

Fixpoint lookup (t : table) (k : Z) : option rec :=
  match t with
  | [] => None
  | r :: t' => if r_id r =? k then Some r else lookup t' k
  end.
Definition has_key (t : table) (k : Z) : bool := match lookup t k with Some _ => true | None => false end.

Fixpoint insert (t : table) (x : rec) : table :=
  match t with
  | [] => [x]
  | r :: t' => if r_id x <? r_id r then x :: t else r :: insert t' x
  end.
Definition upd_where (p : rec -> bool) (f : rec -> rec) (t : table) : table :=
  map (fun r => if p r then f r else r) t.
Definition count_where (p : rec -> bool) (t : table) : Z := Z.of_nat (length (filter p t)).

(* SQLite INTEGER PRIMARY KEY (no AUTOINCREMENT): a missing key becomes max(key)+1 *)
Definition max_id (t : table) : Z := fold_left (fun m r => Z.max m (r_id r)) t 0.
Definition next_id (t : table) : Z := max_id t + 1.

(* ---- conditions ---------------------------------------------------------------------- *)
Inductive cond :=
| CStruct (r : rec)                 (* Where(Acct{...}) : equality on the non-zero fields *)
| CMap (kv : list (col * val))      (* Where(map[string]interface{}{...}) : equality on every key *)
| CAgeGt (k : Z)                    (* Where("age > ?", k) : raw SQL, initialises nothing *)
| CUnscoped.                        (* Unscoped() : no condition; Statement.Unscoped = true, which travels with
                                       the statement exactly like the WHERE clause (getInstance, clone) *)

Definition cond_pairs (c : cond) : list (col * val) :=
  match c with CStruct r => struct_pairs r | CMap kv => kv | CAgeGt _ | CUnscoped => [] end.
Definition pair_holds (r : rec) (p : col * val) : bool := val_eqb (get_col (fst p) r) (snd p).
Definition cond_holds (r : rec) (c : cond) : bool :=
  match c with
  | CAgeGt k => k <? r_age r
  | _ => forallb (pair_holds r) (cond_pairs c)
  end.
Definition conds_hold (cs : list cond) (r : rec) : bool := forallb (cond_holds r) cs.

(* Statement.Unscoped: the soft-delete clauses (deleted_at IS NULL on queries and updates) are left out *)
Definition unscoped (cs : list cond) : bool :=
  existsb (fun c => match c with CUnscoped => true | _ => false end) cs.
Definition visible (cs : list cond) (r : rec) : bool := unscoped cs || live r.

(* Limit(1).Order(primary key) + soft-delete clause: first live (Unscoped: first) matching row in key order *)
Definition first_match (t : table) (cs : list cond) : option rec :=
  find (fun r => visible cs r && conds_hold cs r) t.

(* assignInterfacesToValue(where.Exprs): every Eq of the WHERE clause, in order; the soft-delete
   scope (unless Unscoped) contributes deleted_at = NULL last *)
Definition apply_conds (cs : list cond) (r : rec) : rec :=
  let r' := fold_left (fun r c => set_pairs (cond_pairs c) r) cs r in
  if unscoped cs then r' else set_col CDel VNull r'.

(* ---- Attrs / Assign arguments ---------------------------------------------------------- *)
Inductive arg :=
| AStruct (r : rec)
| AMap (kv : list (col * val))
| AKV (c : col) (v : val).          (* Attrs("name", v): only as the sole argument (domain) *)

Definition arg_pairs (a : arg) : list (col * val) :=
  match a with AStruct r => struct_pairs r | AMap kv => kv | AKV c v => [(c, v)] end.

(* assignInterfacesToValue(values...): a string argument makes the whole list a key-value pair *)
Fixpoint assign_args (l : list arg) (r : rec) : rec :=
  match l with
  | [] => r
  | AKV c v :: _ => set_col c v r
  | a :: l' => assign_args l' (set_pairs (arg_pairs a) r)
  end.

(* FirstOrCreate, found + Assign: BuildCondition(assigns[0], assigns[1:]...) flattened to a map *)
Definition assign_map (l : list arg) : list (col * val) :=
  match l with
  | AKV c v :: _ => [(c, v)]
  | _ => List.concat (map arg_pairs l)
  end.

(* ---- handles: DB.clone and the part of Statement the property is about -------------- *)
Record handle := mk_handle {
  h_clone : N;                 (* 0: chain in progress; 1: fresh statement; 2: clone the statement *)
  h_where : list cond;
  h_attrs : list arg;
  h_assigns : list arg
}.
Definition root : handle := mk_handle 1 [] [] [].

(* Statement.clone.  [keep] = does clone copy attrs/assigns?  The code in /repo: true (the two
   copy blocks added by commit 2b43abc); keep = false is the tree before that fix, kept so that
   Props_C16 can state that the copy is necessary. *)
Definition clone_stmt (keep : bool) (h : handle) : handle :=
  mk_handle (h_clone h) (h_where h)
            (if keep then h_attrs h else []) (if keep then h_assigns h else []).
Definition with_clone (n : N) (h : handle) : handle :=
  mk_handle n (h_where h) (h_attrs h) (h_assigns h).

Definition get_instance (keep : bool) (h : handle) : handle :=
  match h_clone h with
  | 0%N => h
  | 1%N => mk_handle 0 [] [] []
  | _ => with_clone 0 (clone_stmt keep h)
  end.

Inductive cel :=
| EWhere (c : cond)
| EAttrs (a : list arg)
| EAssign (a : list arg)
| ESession                      (* Session(&Session{}) : same *Statement, clone = 2 *)
| ECtx.                         (* WithContext(ctx)    : Statement.clone() at once, clone = 2 *)

Definition apply_cel (keep : bool) (h : handle) (e : cel) : handle :=
  match e with
  | EWhere c => let g := get_instance keep h in
                mk_handle (h_clone g) (h_where g ++ [c]) (h_attrs g) (h_assigns g)
  | EAttrs a => let g := get_instance keep h in
                mk_handle (h_clone g) (h_where g) a (h_assigns g)
  | EAssign a => let g := get_instance keep h in
                 mk_handle (h_clone g) (h_where g) (h_attrs g) a
  | ESession => with_clone 2 h
  | ECtx => with_clone 2 (clone_stmt keep h)
  end.
Definition run_chain (keep : bool) (ch : list cel) : handle := fold_left (apply_cel keep) ch root.

(* ---- finishers ---------------------------------------------------------------------------- *)
Inductive rule :=
| RNothing | RUpdates (cols : list col) | RAll
| RWhere (k : Z) (r : rule)     (* OnConflict.Where: DO UPDATE ... WHERE accts.age < k (the STORED row) *)
| RTarget (k : Z) (r : rule).   (* OnConflict.TargetWhere: ON CONFLICT (id) WHERE age < k DO ... ; with the
                                   non-partial primary-key index the predicate selects nothing *)
Inductive fin :=
| FSave (v : rec)
| FCreateOC (ru : rule) (v : rec)
| FInit (ic : list cond)
| FFoc (ic : list cond)
| FSaveSlice (vs : list rec)
| FSaveOmit (os : list col) (v : rec)    (* Omit(cols...).Save(&v) *)
| FCreateOCSlice (ru : rule) (b : Z) (vs : list rec)
    (* Clauses(OnConflict{...}).Create(&slice) (b = 0) / CreateInBatches(&slice, b) *)
| FCreateU (ru : rule) (tgt : bool) (v : rec)
| FCreateMaps (ru : rule) (ms : list (list (col * val)))
    (* Model(&Acct{}).Clauses(OnConflict{...}).Create(map / *map: one element; []map / *[]map) *)
(* the same finishers on a model type with a COMPOSITE primary key (id, region) — harness type
   Stock{ID, Region, Qty, Note}, encoded in [rec] as (r_id, r_name = region, r_age = qty, r_email = note),
   no tracked times, no soft delete; rows are kept in insertion (rowid) order *)
| FCSave (v : rec)
| FCSaveSlice (vs : list rec)
| FCCreateOC (ru : rule) (v : rec)
| FCFoc (id : Z) (region : string) (attrs_note : option string) (assign_qty : option Z).
    (* Create + OnConflict rule on a table whose e-mails starting with "u" are UNIQUE (second, partial
       unique index of the harness table); tgt = OnConflict.Columns = [id] written explicitly *)   (* Save(&[]Acct{...}): one INSERT ... ON CONFLICT UPDATE ALL, keys handed back *)

(* res_writes = number of INSERT/UPDATE statements sent to the driver (failed ones included) *)
Record result := mk_result { res_ret : rec; res_ra : Z; res_err : bool; res_writes : Z; res_tbl : table }.

(* ConvertToCreateValues: zero tracked times become NowFunc() (also in the caller's struct) *)
Definition fill_times (now : Z) (v : rec) : rec :=
  let '(mk_rec i n a e ct ut d) := v in
  mk_rec i n a e (if ct =? 0 then now else ct) (if ut =? 0 then now else ut) d.
Definition with_id (k : Z) (v : rec) : rec := set_col CId (VInt k) v.
Definition with_uat (now : Z) (v : rec) : rec := set_col CUat (VInt now) v.

(* what ON CONFLICT (id) DO UPDATE writes into the stored row [old], [ex] = the excluded row *)
Fixpoint oc_apply (now : Z) (ru : rule) (ex old : rec) : rec :=
  match ru with
  | RNothing => old
  | RUpdates cols => fold_left (fun o c => set_col c (get_col c ex) o) cols old
  | RAll =>   (* every inserted column but the primary key and autoCreateTime; autoUpdateTime := now *)
      with_uat now (fold_left (fun o c => set_col c (get_col c ex) o) [CName; CAge; CEmail; CDel] old)
  | RWhere k r => if r_age old <? k then oc_apply now r ex old else old
  | RTarget _ r => oc_apply now r ex old
  end.
(* does the conflict branch update the stored row (RowsAffected 1) or leave it (0)? *)
Fixpoint rule_fires (ru : rule) (old : rec) : bool :=
  match ru with
  | RNothing => false
  | RUpdates _ | RAll => true
  | RWhere k r => (r_age old <? k) && rule_fires r old
  | RTarget _ r => rule_fires r old
  end.

(* INSERT ... [ON CONFLICT ...]; [ru] = None: plain Create, a duplicate key is an error *)
Definition create (t : table) (now : Z) (ru : option rule) (v : rec) : result :=
  let v1 := fill_times now v in
  if r_id v1 =? 0 then
    let x := with_id (next_id t) v1 in mk_result x 1 false 1 (insert t x)
  else
    match lookup t (r_id v1), ru with
    | None, _ => mk_result v1 1 false 1 (insert t v1)
    | Some _, None => mk_result v1 0 true 1 t
    | Some old, Some r =>
        if rule_fires r old
        then mk_result v1 1 false 1 (upd_where (fun x => r_id x =? r_id v1) (oc_apply now r v1) t)
        else mk_result v1 0 false 1 t
    end.

(* DB.Save on a struct *)
Definition save (t : table) (now : Z) (v : rec) : result :=
  if r_id v =? 0 then create t now None v
  else
    let v2 := with_uat now v in          (* ConvertToAssignments stores NowFunc() into the struct *)
    let hit := fun x => (r_id x =? r_id v) && live x in
    let n := count_where hit t in
    if 0 <? n
    then mk_result v2 n false 1 (upd_where hit (fun _ => v2) t)   (* SET every column but the key *)
    else let r := create t now (Some RAll) v2 in
         mk_result (res_ret r) (res_ra r) (res_err r) 2 (res_tbl r).                         (* 0 rows: INSERT .. ON CONFLICT UPDATE ALL *)

Definition first_or_init (keep : bool) (t : table) (h : handle) (ic : list cond) : result :=
  let q := get_instance keep h in        (* db.Limit(1): attrs/assigns are read from this statement *)
  let cs := h_where q ++ ic in
  match first_match t cs with
  | Some r => mk_result (assign_args (h_assigns q) r) 1 false 0 t
  | None => mk_result (assign_args (h_assigns q) (assign_args (h_attrs q) (apply_conds cs zero_rec))) 0 false 0 t
  end.

Definition first_or_create (keep : bool) (t : table) (now : Z) (h : handle) (ic : list cond) : result :=
  let tx := get_instance keep h in       (* the statement Create / Updates run on *)
  let cs := h_where h ++ ic in          (* queryTx = db.Session(&Session{}).Limit(1)... *)
  match first_match t cs with            (* attrs/assigns are read from the RECEIVER's statement *)
  | None =>
      create t now None (assign_args (h_assigns h) (assign_args (h_attrs h) (apply_conds cs zero_rec)))
  | Some r =>
      match h_assigns h with
      | [] => mk_result r 0 false 0 t
      | _ =>   (* tx.Model(dest).Updates(map): chain conditions + dest's key + deleted_at IS NULL (unless
                  the chain is Unscoped) *)
          let m := assign_map (h_assigns h) in
          let f := fun x => with_uat now (set_pairs m x) in
          let hit := fun x => conds_hold (h_where tx) x && (r_id x =? r_id r) && visible (h_where tx) x in
          mk_result (f r) (count_where hit t) false 1 (upd_where hit f t)
      end
  end.

(* ---- Omit(cols...).Save(&v): the same UPDATE / upsert with the omitted columns left out ---------- *)
Definition save_cols : list col := [CName; CAge; CEmail; CCat; CUat; CDel].
Definition omitted (os : list col) (c : col) : bool := existsb (col_eqb c) os.
Definition copy_cols (cs : list col) (src dst : rec) : rec :=
  fold_left (fun o c => set_col c (get_col c src) o) cs dst.
Definition kept (os cs : list col) : list col := filter (fun c => negb (omitted os c)) cs.

(* INSERT without the omitted columns (they stay NULL: zero / none), tracked times filled only where
   the column is inserted; ON CONFLICT UPDATE ALL over the inserted columns *)
Definition create_omit (t : table) (now : Z) (os : list col) (upsert : bool) (v : rec) : result :=
  let v1 := copy_cols (kept os [CCat; CUat]) (fill_times now v) v in
  let k := if r_id v1 =? 0 then next_id t else r_id v1 in
  let x := with_id k v1 in
  match (if r_id v1 =? 0 then None else lookup t k) with
  | None => mk_result x 1 false 1 (insert t (with_id k (copy_cols (kept os save_cols) v1 zero_rec)))
  | Some _ =>
      if upsert
      then mk_result x 1 false 1
             (upd_where (fun r => r_id r =? k)
                        (fun old => let o1 := copy_cols (kept os [CName; CAge; CEmail; CDel]) v1 old in
                                    if omitted os CUat then o1 else with_uat now o1) t)
      else mk_result x 0 true 1 t
  end.

Definition save_omit (t : table) (now : Z) (os : list col) (v : rec) : result :=
  if r_id v =? 0 then create_omit t now os false v
  else
    let v2 := if omitted os CUat then v else with_uat now v in
    let hit := fun x => (r_id x =? r_id v) && live x in
    let n := count_where hit t in
    if 0 <? n
    then mk_result v2 n false 1 (upd_where hit (copy_cols (kept os save_cols) v2) t)
    else let r := create_omit t now os true v2 in
         mk_result (res_ret r) (res_ra r) (res_err r) 2 (res_tbl r).

(* ---- a second unique index: e-mails starting with "u" are unique ------------------------------------ *)
Definition uemail (e : string) : bool := String.prefix "u" e.
(* another row (key <> k) already holds the unique e-mail e *)
Definition email_clash (t : table) (k : Z) (e : string) : bool :=
  uemail e && existsb (fun r => negb (r_id r =? k) && String.eqb (r_email r) e) t.
(* ON CONFLICT DO NOTHING without a conflict target tolerates a collision on ANY unique index *)
Fixpoint untargeted_nothing (ru : rule) (tgt : bool) : bool :=
  match ru with
  | RNothing => negb tgt
  | RWhere _ r => untargeted_nothing r tgt
  | _ => false       (* DoUpdates needs a target; UpdateAll gets the key as target; TargetWhere comes with one *)
  end.
Definition create_u (t : table) (now : Z) (ru : rule) (tgt : bool) (v : rec) : result :=
  let v1 := fill_times now v in
  let k := if r_id v1 =? 0 then next_id t else r_id v1 in
  match (if r_id v1 =? 0 then None else lookup t k) with
  | None =>
      if email_clash t k (r_email v1)
      then if untargeted_nothing ru tgt then mk_result v1 0 false 1 t     (* swallowed *)
           else mk_result v1 0 true 1 t                                  (* UNIQUE constraint failed: email *)
      else create t now (Some ru) v
  | Some old =>
      if rule_fires ru old && email_clash t k (r_email (oc_apply now ru v1 old))
      then mk_result v1 0 true 1 t
      else create t now (Some ru) v
  end.

(* DB.Save on a slice: Create with OnConflict{UpdateAll} and gorm:update_track_time — per element the
   same row the struct fallback writes (updated_at := now, zero created_at := now); SQLite processes the
   VALUES rows in order (a zero key becomes max(key)+1 at that moment) and RETURNING hands every row's
   key back into the caller's elements, in order *)
Definition save_slice_run (t : table) (now : Z) (vs : list rec) : table * list rec :=
  fold_left (fun acc v => let r := create (fst acc) now (Some RAll) (with_uat now v) in
                          (res_tbl r, snd acc ++ [res_ret r])) vs (t, []).

(* Create(&slice) with a rule: the VALUES rows in order (CreateInBatches: the same rows over several
   statements of one transaction); RowsAffected counts the rows inserted or updated *)
Definition create_slice_run (t : table) (now : Z) (ru : rule) (vs : list rec) : table * Z :=
  fold_left (fun acc v => let r := create (fst acc) now (Some ru) v in (res_tbl r, snd acc + res_ra r)) vs (t, 0).

(* ---- Create from MAP values ------------------------------------------------------------------------------
   Model(&Acct{}).Clauses(OnConflict{...}).Create(map | *map | []map | *[]map): ConvertToCreateValues takes
   the INSERT's columns from the map keys (a slice: the union of the keys, a missing key is NULL), fills no
   tracked time, and the UpdateAll expansion runs over exactly these columns: every one but the primary key
   and autoCreateTime is set from the excluded row, an autoUpdateTime column among them is set to now; with
   nothing left to set the rule degenerates to DO NOTHING.  A NULL column reads back as the zero value. *)
Definition map_rec (m : list (col * val)) : rec := set_pairs m zero_rec.
Definition named (ks : list col) (c : col) : bool := existsb (col_eqb c) ks.
Definition mall_cols (ks : list col) : list col :=
  filter (fun c => match c with CId | CCat | CUat => false | _ => true end) ks.
Fixpoint moc_apply (now : Z) (ru : rule) (ks : list col) (ex old : rec) : rec :=
  match ru with
  | RNothing => old
  | RUpdates cols => copy_cols cols ex old
  | RAll => let o1 := copy_cols (mall_cols ks) ex old in if named ks CUat then with_uat now o1 else o1
  | RWhere k r => if r_age old <? k then moc_apply now r ks ex old else old
  | RTarget _ r => moc_apply now r ks ex old
  end.
Fixpoint mrule_fires (ru : rule) (ks : list col) (old : rec) : bool :=
  match ru with
  | RNothing => false
  | RUpdates _ => true
  | RAll => match mall_cols ks with [] => named ks CUat | _ => true end
  | RWhere k r => (r_age old <? k) && mrule_fires r ks old
  | RTarget _ r => mrule_fires r ks old
  end.
(* one VALUES row [m] of an INSERT over the columns [ks]; nothing is handed back (res_ret is not observed) *)
Definition create_map (t : table) (now : Z) (ru : rule) (ks : list col) (m : list (col * val)) : result :=
  let ex := map_rec m in
  if r_id ex =? 0 then mk_result zero_rec 1 false 1 (insert t (with_id (next_id t) ex))
  else match lookup t (r_id ex) with
       | None => mk_result zero_rec 1 false 1 (insert t ex)
       | Some old =>
           if mrule_fires ru ks old
           then mk_result zero_rec 1 false 1 (upd_where (fun x => r_id x =? r_id ex) (moc_apply now ru ks ex) t)
           else mk_result zero_rec 0 false 1 t
       end.
Definition map_keys (ms : list (list (col * val))) : list col := flat_map (map fst) ms.
(* UpdateAll over columns that leave nothing to set becomes DO NOTHING; an OnConflict.Where given with it is
   left out of the statement (since /repo commit b84cf7b; before, "DO NOTHING WHERE ..." was rejected by the
   database: fixed finding update-all-nothing-where): the colliding row stays untouched, no error — which is
   what mrule_fires / moc_apply say for RWhere k RAll when RAll has nothing to set. *)
Definition create_maps_run (t : table) (now : Z) (ru : rule) (ms : list (list (col * val))) : table * Z :=
  fold_left (fun acc m => let r := create_map (fst acc) now ru (map_keys ms) m in (res_tbl r, snd acc + res_ra r))
            ms (t, 0).

(* ---- composite primary key (id, region) ---------------------------------------------------------------- *)
Definition ckey_eq (a b : rec) : bool := (r_id a =? r_id b) && String.eqb (r_name a) (r_name b).
Definition clookup (t : table) (v : rec) : option rec := find (ckey_eq v) t.
Definition cupd (t : table) (v : rec) (f : rec -> rec) : table := map (fun r => if ckey_eq v r then f r else r) t.
(* what ON CONFLICT (id, region) DO UPDATE writes: the non-key columns qty, note *)
Fixpoint coc_apply (ru : rule) (ex old : rec) : rec :=
  match ru with
  | RNothing => old
  | RUpdates cols => copy_cols cols ex old
  | RAll => copy_cols [CAge; CEmail] ex old
  | RWhere k r => if r_age old <? k then coc_apply r ex old else old
  | RTarget _ r => coc_apply r ex old
  end.
(* INSERT [... ON CONFLICT ...]: a collision is a row with the SAME (id, region); a row sharing only one
   member is another row *)
Definition ccreate (t : table) (ru : option rule) (v : rec) : result :=
  match clookup t v, ru with
  | None, _ => mk_result v 1 false 1 (t ++ [v])
  | Some _, None => mk_result v 0 true 1 t
  | Some old, Some r => if rule_fires r old
                        then mk_result v 1 false 1 (cupd t v (coc_apply r v))
                        else mk_result v 0 false 1 t
  end.
(* Save(&struct): UPDATE SET qty, note WHERE id = ? AND region = ?; no row: INSERT ... ON CONFLICT UPDATE ALL
   with the default conflict target = ALL primary fields *)
Definition csave_keyed (t : table) (v : rec) : result :=
  match clookup t v with
  | Some _ => mk_result v 1 false 1 (cupd t v (copy_cols [CAge; CEmail] v))
  | None => let r := ccreate t (Some RAll) v in mk_result (res_ret r) (res_ra r) (res_err r) 2 (res_tbl r)
  end.
(* DB.Save looks at EVERY primary field: a value with a zero-valued key member (id 0 or region "") is a new
   record — a plain INSERT, whatever rows share its other member *)
Definition ckey_zero (v : rec) : bool := (r_id v =? 0) || String.eqb (r_name v) "".
Definition csave (t : table) (v : rec) : result :=
  if ckey_zero v then ccreate t None v else csave_keyed t v.
Definition csave_slice (t : table) (vs : list rec) : table * Z :=
  fold_left (fun acc v => let r := ccreate (fst acc) (Some RAll) v in (res_tbl r, snd acc + res_ra r)) vs (t, 0).
(* Where(map{id, region}).[Attrs(map{note})].[Assign(map{qty})].FirstOrCreate(&dest) *)
Definition cfoc (t : table) (id : Z) (region : string) (attrs_note : option string) (assign_qty : option Z) : result :=
  let probe := mk_rec id region 0 "" 0 0 None in
  match clookup t probe with
  | Some r =>
      match assign_qty with
      | None => mk_result r 0 false 0 t
      | Some q => let r' := set_col CAge (VInt q) r in mk_result r' 1 false 1 (cupd t probe (fun _ => r'))
      end
  | None =>
      let x := mk_rec id region (match assign_qty with Some q => q | None => 0 end)
                      (match attrs_note with Some n => n | None => "" end) 0 0 None in
      mk_result x 1 false 1 (t ++ [x])
  end.

Definition step (keep : bool) (t : table) (now : Z) (ch : list cel) (f : fin) : result :=
  let h := run_chain keep ch in
  match f with
  | FSave v => save t now v
  | FCreateOC ru v => create t now (Some ru) v
  | FInit ic => first_or_init keep t h ic
  | FFoc ic => first_or_create keep t now h ic
  | FSaveSlice vs => let run := save_slice_run t now vs in
                     mk_result (last (snd run) zero_rec) (Z.of_nat (length vs)) false 1 (fst run)
  | FSaveOmit os v => save_omit t now os v
  | FCreateU ru tgt v => create_u t now ru tgt v
  | FCreateMaps ru ms => let run := create_maps_run t now ru ms in mk_result zero_rec (snd run) false 1 (fst run)
  | FCSave v => csave t v
  | FCSaveSlice vs => let run := csave_slice t vs in mk_result zero_rec (snd run) false 1 (fst run)
  | FCCreateOC ru v => ccreate t (Some ru) v
  | FCFoc id region a q => cfoc t id region a q
  | FCreateOCSlice ru b vs =>
      let run := create_slice_run t now ru vs in
      let n := Z.of_nat (length vs) in
      mk_result zero_rec (snd run) false (if b <=? 0 then 1 else (n + b - 1) / b) (fst run)
  end.

(* the caller's slice after the call (FSaveSlice only) *)
Definition step_rets (t : table) (now : Z) (f : fin) : list rec :=
  match f with FSaveSlice vs => snd (save_slice_run t now vs) | _ => [] end.

(* the tree as it is: Statement.clone copies attrs and assigns *)
Definition step_repo := step true.
