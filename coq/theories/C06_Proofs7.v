(* C06_Proofs7.v — the ownership invariant over histories and the isolation theorem. *)
From Verif Require Import Base C06_Model C06_Proofs C06_Proofs2 C06_Proofs3 C06_Proofs4 C06_Proofs5 C06_Proofs6.
Open Scope nat_scope.

Ltac incl_tac :=
  let x := fresh "x" in let Hx := fresh "Hx" in
  (intros x Hx; repeat rewrite in_app_iff in *; cbn [In] in *; tauto).

Section Main.
Variable grow : field -> nat -> nat -> nat.
Variable md : field -> bool.
Hypothesis Hmd : forall f, md f = false.

(* ---- finishers ---- *)
Definition p_allscopes (p : pstmt) : pstmt := p_scopes (pcopy (pl p FScopes)) (pset p FScopes None).
Lemma p_allscopes_peq a b : peq a b -> peq (p_allscopes a) (p_allscopes b).
Proof.
  intro H. unfold p_allscopes. rewrite (peq_pcopy _ _ FScopes H) by auto.
  apply fold_p_where_peq. apply peq_pset; auto.
Qed.
Lemma p_prefin_eq p f : p_prefin p f = pB (p_allscopes (p_pro p f)) f.
Proof. reflexivity. Qed.
Lemma p_fin_eq p f : p_fin p f = pD (p_prefin p f) f.
Proof. reflexivity. Qed.

Lemma finish_spec h s f s' out h' w :
  swf h s -> finish grow md s f h = ((s', out), h', w) ->
  exists s4, s' = push_gp s4 (PFin f) /\ ospec (fun p => p_fin p f) h s s4 h' w
             /\ out = render (pnorm (p_prefin (abs h s) f)) f.
Proof.
  intros W E. unfold finish in E.
  binv E as EA E1. binv E1 as EB E2. binv E2 as EC E3. binv E3 as ED E4. binv E4 as EE E5.
  binv E5 as EF E6. apply ret_inv in E6. destruct E6 as (Eso & -> & ->).
  inversion Eso; subst s' out; clear Eso. inversion EF; subst a4 h5 w4; clear EF.
  assert (OA := prologue_spec grow md Hmd _ _ _ _ _ _ W EA).
  assert (OB := exec_scopes_spec grow md Hmd _ _ _ _ _ (os_wf _ _ _ _ _ _ OA) EB).
  assert (OAB := ospec_trans _ _ _ _ _ _ _ _ _ _ p_allscopes_peq OA OB).
  destruct (tail_spec grow _ _ _ _ _ _ _ _ _ _ _ _ (os_wf _ _ _ _ _ _ OAB) EC ED EE) as (OT & RT).
  eexists. split; [reflexivity|]. split.
  - eapply ospec_weaken.
    + eapply ospec_change.
      * apply (ospec_trans _ (fun q => pD (pB q f) f) _ _ _ _ _ _ _ _ (fun a b H => pD_peq _ _ f (pB_peq _ _ f H)) OAB OT).
      * apply peq_refl.
    + incl_tac.
  - rewrite RT. rewrite p_prefin_eq. apply render_peq. apply pB_peq. apply (os_abs _ _ _ _ _ _ OAB).
Qed.

(* ---- the invariant on (heap, statements) ---- *)
Definition hwf (h : heap) (sts : list mstmt) : Prop :=
  forall i, i < length sts -> swf h (get_stmt sts i).
Definition hsep (sts : list mstmt) : Prop :=
  forall i j f l n c n' c', i < length sts -> j < length sts ->
    sl (get_stmt sts i) f = SArr l n c -> sl (get_stmt sts j) f = SArr l n' c' ->
    n = n' /\ (excl f = true -> i = j).
Definition habs (h : heap) (sts : list mstmt) : Prop :=
  forall i, i < length sts -> peq (abs h (get_stmt sts i)) (replay_alone (gp (get_stmt sts i))).
Definition hinv (h : heap) (sts : list mstmt) : Prop := hwf h sts /\ hsep sts /\ habs h sts.

Lemma get_set_same sts i s : i < length sts -> get_stmt (set_stmt sts i s) i = s.
Proof. intro H. unfold get_stmt, set_stmt. apply nth_upd_nth_eq, H. Qed.
Lemma get_set_other sts i j s : i <> j -> get_stmt (set_stmt sts i s) j = get_stmt sts j.
Proof. intro H. unfold get_stmt, set_stmt. apply nth_upd_nth_neq, H. Qed.
Lemma set_stmt_length sts i s : length (set_stmt sts i s) = length sts.
Proof. apply upd_nth_length. Qed.
Lemma get_app_old sts c j : j < length sts -> get_stmt (sts ++ [c]) j = get_stmt sts j.
Proof. intro H. unfold get_stmt. apply app_nth1, H. Qed.
Lemma get_app_new sts c : get_stmt (sts ++ [c]) (length sts) = c.
Proof. unfold get_stmt. rewrite app_nth2, Nat.sub_diag; auto. Qed.

(* mutating statement i by an operation satisfying ospec *)
Lemma hinv_update h sts i s1 s' h' w P :
  hinv h sts -> i < length sts ->
  ospec P h (get_stmt sts i) s1 h' w ->
  (forall a b, peq a b -> peq (P a) (P b)) ->
  (forall f, sl s' f = sl s1 f) -> sc s' = sc s1 ->
  peq (replay_alone (gp s')) (P (replay_alone (gp (get_stmt sts i)))) ->
  hinv h' (set_stmt sts i s').
Proof.
  intros (Hw & Hs & Ha) Li O Cg Esl Esc Egp. set (s := get_stmt sts i) in *.
  assert (X := os_ext _ _ _ _ _ _ O).
  assert (Get : forall j, j < length sts -> j <> i -> get_stmt (set_stmt sts i s') j = get_stmt sts j)
    by (intros; apply get_set_other; auto).
  split; [|split].
  - intros j Lj. rewrite set_stmt_length in Lj. destruct (Nat.eq_dec j i) as [->|N].
    + rewrite get_set_same by auto. intro f. rewrite Esl. apply (os_wf _ _ _ _ _ _ O).
    + rewrite Get by auto. eapply swf_ext; eauto.
  - assert (Key : forall j f l n c n' c', j < length sts -> j <> i ->
              sl s1 f = SArr l n c -> sl (get_stmt sts j) f = SArr l n' c' -> n = n' /\ excl f = false).
    { intros j f l n c n' c' Lj N E1 E2.
      assert (Wj : wf_slice h f (SArr l n' c')) by (rewrite <- E2; apply (Hw j Lj)).
      destruct (os_ev _ _ _ _ _ _ O f) as [E | [E | [F | (Ex & l0 & n0 & n0' & c0 & Ea & Eb & Hn)]]].
      - rewrite E in E1. destruct (Hs i j f _ _ _ _ _ Li Lj E1 E2) as (-> & Hx). split; auto.
        destruct (excl f); auto. exfalso. apply N. symmetry. auto.
      - congruence.
      - rewrite E1 in F. cbn in F. apply wf_slice_lt in Wj. lia.
      - rewrite E1 in Eb. inversion Eb; subst.
        destruct (Hs i j f _ _ _ _ _ Li Lj Ea E2) as (_ & Hx). exfalso. apply N. symmetry. auto. }
    intros j k f l n c n' c' Lj Lk Ej Ek. rewrite set_stmt_length in Lj, Lk.
    destruct (Nat.eq_dec j i) as [->|Nj]; destruct (Nat.eq_dec k i) as [->|Nk].
    + rewrite get_set_same in Ej, Ek by auto. rewrite Ej in Ek. inversion Ek. auto.
    + rewrite get_set_same in Ej by auto. rewrite Get in Ek by auto. rewrite Esl in Ej.
      destruct (Key _ _ _ _ _ _ _ Lk Nk Ej Ek) as (-> & Hx). split; auto. congruence.
    + rewrite get_set_same in Ek by auto. rewrite Get in Ej by auto. rewrite Esl in Ek.
      destruct (Key _ _ _ _ _ _ _ Lj Nj Ek Ej) as (-> & Hx). split; auto. congruence.
    + rewrite Get in Ej, Ek by auto. eapply Hs; eauto.
  - intros j Lj. rewrite set_stmt_length in Lj. destruct (Nat.eq_dec j i) as [->|N].
    + rewrite get_set_same by auto.
      eapply peq_trans; [|apply peq_sym, Egp].
      eapply peq_trans; [|apply Cg, (Ha i Li)].
      eapply peq_trans; [|apply (os_abs _ _ _ _ _ _ O)].
      apply peq_pointwise; [exact Esc | intro f; cbn; rewrite Esl; reflexivity].
    + rewrite Get by auto. eapply peq_trans; [|apply (Ha j Lj)].
      split; [reflexivity|]. intro f. apply (os_frame _ _ _ _ _ _ O f (sl (get_stmt sts j) f)).
      * apply (Hw j Lj).
      * unfold compat. destruct (sl (get_stmt sts j) f) as [|l n c] eqn:Ej; auto.
        fold s. destruct (sl s f) as [|l' n' c'] eqn:Ei; auto. intros ->.
        destruct (Hs j i f _ _ _ _ _ Lj Li Ej Ei) as (-> & Hx). split; auto.
        destruct (excl f); auto. exfalso. apply N. auto.
Qed.

(* heap growth without writes *)
Lemma hinv_ext h h1 sts : hinv h sts -> hext h h1 [] -> hinv h1 sts.
Proof.
  intros (Hw & Hs & Ha) X. split; [|split]; auto.
  - intros i Li. eapply swf_ext; eauto.
  - intros i Li. eapply peq_trans; [|apply (Ha i Li)]. apply peq_pointwise; auto.
    intro f. cbn. eapply rdo_frame; eauto. apply (Hw i Li).
Qed.

(* a new statement that shares only non-appendable slices with existing ones *)
Lemma hinv_push h sts c :
  hinv h sts -> swf h c ->
  (forall j f l n c0 n' c', j < length sts -> sl c f = SArr l n c0 -> sl (get_stmt sts j) f = SArr l n' c' ->
     n = n' /\ excl f = false) ->
  peq (abs h c) (replay_alone (gp c)) ->
  hinv h (sts ++ [c]).
Proof.
  intros (Hw & Hs & Ha) Wc Sc Ac.
  assert (Cases : forall j, j < length (sts ++ [c]) -> (j < length sts /\ get_stmt (sts ++ [c]) j = get_stmt sts j)
                               \/ (j = length sts /\ get_stmt (sts ++ [c]) j = c)).
  { intros j Lj. rewrite app_length in Lj. cbn in Lj. destruct (Nat.eq_dec j (length sts)) as [->|N].
    - right. split; auto. apply get_app_new.
    - left. assert (j < length sts) by lia. split; auto. apply get_app_old; auto. }
  split; [|split].
  - intros j Lj. destruct (Cases j Lj) as [(L & ->) | (-> & ->)]; auto.
  - intros j k f l n c0 n' c' Lj Lk Ej Ek.
    destruct (Cases j Lj) as [(L1 & Q1) | (-> & Q1)]; destruct (Cases k Lk) as [(L2 & Q2) | (-> & Q2)];
      rewrite Q1 in Ej; rewrite Q2 in Ek.
    + eapply Hs; eauto.
    + destruct (Sc _ _ _ _ _ _ _ L1 Ek Ej) as (-> & Hx). split; auto. congruence.
    + destruct (Sc _ _ _ _ _ _ _ L2 Ej Ek) as (-> & Hx). split; auto. congruence.
    + rewrite Ej in Ek. inversion Ek. auto.
  - intros j Lj. destruct (Cases j Lj) as [(L & ->) | (-> & ->)]; auto.
Qed.
End Main.
