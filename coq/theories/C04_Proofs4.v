(* C04_Proofs4.v — the outermost call: Begin, the body, Commit / Rollback, the pool. *)
From Verif Require Import Base C04_Model C04_Check C04_Proofs C04_Proofs2 C04_Proofs3.
Open Scope Z_scope.

(* every transaction that was begun receives a Commit or Rollback before anything else begins *)
Fixpoint bal (o : bool) (l : list txcall) : bool :=
  match l with
  | [] => negb o
  | TBegin ok :: r => if o then false else bal ok r
  | TEnd :: r => bal false r
  end.

Lemma bal_ends : forall l, Forall (eq TEnd) l -> bal false l = true /\ (l <> [] -> bal true l = true).
Proof.
  induction l as [|c l IH]; intro H.
  - split; [reflexivity | intro K; contradiction K; reflexivity].
  - inversion H as [|? ? Hc Hl]; subst. destruct (IH Hl) as [I1 _]. cbn. split; [exact I1 | intros _; exact I1].
Qed.

Lemma existsb_rev : forall (A : Type) (f : A -> bool) l, existsb f (rev l) = existsb f l.
Proof.
  intros A f l; induction l as [|x l IH]; [reflexivity|].
  cbn. rewrite existsb_app, IH. cbn. rewrite orb_false_r. apply orb_comm.
Qed.
Lemma countf_rev : forall k l, countf k (rev l) = countf k l.
Proof.
  intros k l; induction l as [|x l IH]; [reflexivity|].
  cbn [rev]. rewrite countf_app, IH. change (x :: l) with ([x] ++ l). rewrite countf_app. lia.
Qed.
Lemma commit_ok_body : forall nops, forallb body_op nops = true -> commit_ok nops = false.
Proof.
  induction nops as [|[k f] nops IH]; intro H; [reflexivity|].
  cbn in H. apply andb_prop in H. destruct H as [H1 H2]. unfold commit_ok; cbn [existsb fst snd].
  unfold commit_ok in IH. rewrite (IH H2), orb_false_r. unfold body_op in H1; cbn in H1.
  destruct k; try discriminate; reflexivity.
Qed.
Lemma all_fault_forallb : forall l, all_fault l -> forallb (fun e => cls_eqb e (CErr fault_err)) l = true.
Proof.
  intros l H; apply forallb_forall; intros x Hx. unfold all_fault in H. rewrite Forall_forall in H.
  rewrite (H x Hx). apply cls_eqb_refl.
Qed.

Section Logs.
Variable E : env.
Variable C : cfg.
Variable fault : nat -> bool.

Lemma h_stmt_log : forall w h s e n s1, h_stmt fault w h s = (e, n, s1) -> s_txlog s1 = s_txlog s.
Proof.
  intros w h s e n s1 H. unfold h_stmt, issue in H.
  destruct h; [inversion H; reflexivity|].
  destruct (s_dead s); [inversion H; reflexivity|].
  destruct (s_tx s); [|inversion H; reflexivity].
  destruct (fault _); [inversion H; reflexivity|].
  destruct w; inversion H; reflexivity.
Qed.
Lemma h_sp_log : forall b n h s h1 s1, h_sp E C fault b n h s = (h1, s1) -> s_txlog s1 = s_txlog s.
Proof.
  intros b n h s h1 s1 H. unfold h_sp in H.
  destruct (c_nosp C); [inversion H; reflexivity|]. unfold exec_sp, issue in H.
  destruct h as [e|].
  - destruct (c_report C); inversion H; reflexivity.
  - destruct (s_dead s); [destruct (c_report C); inversion H; reflexivity|].
    destruct (s_tx s).
    + destruct (fault _).
      * destruct (c_report C); inversion H; reflexivity.
      * destruct b.
        -- destruct (c_report C); inversion H; reflexivity.
        -- destruct (sq_rbto E n t); destruct (c_report C); inversion H; reflexivity.
    + destruct (c_report C); inversion H; reflexivity.
Qed.

Definition body_log (body : option err -> st -> res * list obs * option err * st) : Prop :=
  forall h s r l h' s', body h s = (r, l, h', s') -> s_txlog s' = s_txlog s.

Lemma nested_log : forall body, body_log body ->
  forall h s r o h' s', nested0 E C fault body h s = (r, o, h', s') -> s_txlog s' = s_txlog s.
Proof.
  intros body HB h s r o h' s' H. unfold nested0 in H.
  destruct (c_nonest C || s_nonest s).
  - destruct (body h s) as [[[r0 l0] h0] s0] eqn:Eb. inversion H; subst. eapply HB; exact Eb.
  - destruct (h_sp E C fault true (NGen (s_gen s)) h (next_gen s)) as [h1 s1] eqn:Es.
    apply h_sp_log in Es. cbn [next_gen s_txlog] in Es.
    destruct h1 as [e|]; [inversion H; subst; exact Es|].
    destruct (body h s1) as [[[r0 l0] h0] s2] eqn:Eb. apply HB in Eb.
    destruct r0.
    + inversion H; subst; congruence.
    + destruct (h_sp E C fault false (NGen (s_gen s)) h (if fault (length (s_ops s2)) then flag_rb s2 else s2)) as [h2 s3] eqn:Er.
      apply h_sp_log in Er. inversion H; subst. rewrite Er. destruct (fault _); cbn; congruence.
    + destruct (h_sp E C fault false (NGen (s_gen s)) h (if fault (length (s_ops s2)) then flag_rb s2 else s2)) as [h2 s3] eqn:Er.
      apply h_sp_log in Er. inversion H; subst. rewrite Er. destruct (fault _); cbn; congruence.
Qed.

Lemma nested_cx_log : forall cx nn body, body_log body ->
  forall h s r o h' s', nested E C fault cx nn body h s = (r, o, h', s') -> s_txlog s' = s_txlog s.
Proof.
  intros cx nn body HB h s r o h' s' H. unfold nested in H.
  destruct (nested0 E C fault body h _) as [[[r0 o0] h0] s0] eqn:En.
  apply (nested_log _ HB) in En. inversion H; subst.
  destruct cx, nn; cbn in *; exact En.
Qed.

Lemma run_body_log : forall p, body_log (run_body E C fault p).
Proof.
  induction p as [o | m chk k IHk | chk k IHk | b IHb chk rcv cx nn k IHk | n k IHk | n k IHk | k IHk];
    intros h s r l h' s' H; cbn [run_body] in H; [| | | | | |apply IHk in H; exact H].
  - destruct o; inversion H; subst; reflexivity.
  - destruct (h_stmt fault (Some m) h s) as [[e n0] s1] eqn:Es. apply h_stmt_log in Es.
    destruct e as [e|]; [destruct chk|].
    + inversion H; subst. exact Es.
    + destruct (run_body E C fault k h s1) as [[[r0 l0] h0] s0] eqn:Ek. apply IHk in Ek. inversion H; subst; congruence.
    + destruct (run_body E C fault k h s1) as [[[r0 l0] h0] s0] eqn:Ek. apply IHk in Ek. inversion H; subst; congruence.
  - destruct (h_stmt fault None h s) as [[e n0] s1] eqn:Es. apply h_stmt_log in Es.
    destruct e as [e|]; [destruct chk|].
    + inversion H; subst. exact Es.
    + destruct (run_body E C fault k h s1) as [[[r0 l0] h0] s0] eqn:Ek. apply IHk in Ek. inversion H; subst; congruence.
    + destruct (run_body E C fault k h s1) as [[[r0 l0] h0] s0] eqn:Ek. apply IHk in Ek. inversion H; subst; congruence.
  - destruct (nested E C fault cx nn (run_body E C fault b) h s) as [[[r0 o0] h1] s1] eqn:En.
    apply (nested_cx_log _ _ _ IHb) in En.
    destruct r0 as [|e0|p0].
    + destruct (run_body E C fault k h1 s1) as [[[r1 l1] h2] s2] eqn:Ek. apply IHk in Ek. inversion H; subst; congruence.
    + destruct chk; [inversion H; subst; exact En|].
      destruct (run_body E C fault k h1 s1) as [[[r1 l1] h2] s2] eqn:Ek. apply IHk in Ek. inversion H; subst; congruence.
    + destruct (recovers rcv p0); [|inversion H; subst; exact En].
      destruct (run_body E C fault k h1 s1) as [[[r1 l1] h2] s2] eqn:Ek. apply IHk in Ek. inversion H; subst; congruence.
  - destruct (h_sp E C fault true (NUser n) h s) as [h1 s1] eqn:Es. apply h_sp_log in Es.
    destruct h1; [inversion H; subst; exact Es|].
    destruct (run_body E C fault k None s1) as [[[r1 l1] h2] s2] eqn:Ek. apply IHk in Ek. inversion H; subst; congruence.
  - destruct (h_sp E C fault false (NUser n) h s) as [h1 s1] eqn:Es. apply h_sp_log in Es.
    destruct h1; [inversion H; subst; exact Es|].
    destruct (run_body E C fault k None s1) as [[[r1 l1] h2] s2] eqn:Ek. apply IHk in Ek. inversion H; subst; congruence.
Qed.

(* Commit / Rollback on the handle (the pool's transaction wrapper does not fail by itself) *)
Hypothesis hard_commit : c_soft C = false.

Lemma h_end_open : forall c h s tx, s_tx s = Some tx ->
  h_end C fault c h s =
  (add_error h (if fault (length (s_ops s)) then Some fault_err else None),
   mkSt (if c && negb (fault (length (s_ops s))) then work tx else s_db s) None
        ((if c then KCommit else KRollback, fault (length (s_ops s))) :: s_ops s)
        (s_gen s) (TEnd :: s_txlog s) (s_fl s) (s_dead s) (s_nonest s)).
Proof.
  intros c h s tx Htx. unfold h_end, tx_end, issue. rewrite hard_commit, andb_false_r.
  cbn [log_tx s_tx s_ops s_db s_gen s_txlog s_fl s_dead s_nonest]. rewrite Htx.
  destruct (fault (length (s_ops s))); destruct c; reflexivity.
Qed.
Lemma h_end_closed : forall c h s, s_tx s = None ->
  h_end C fault c h s = (add_error h (Some (mkErr ETxDone false)), log_tx s TEnd).
Proof. intros c h s Htx. unfold h_end, tx_end. rewrite hard_commit, andb_false_r. cbn [log_tx s_tx]. rewrite Htx. reflexivity. Qed.

Lemma run_extra_closed : forall l h s x s', s_tx s = None -> run_extra C fault l h s = (x, s') ->
  s_db s' = s_db s /\ s_ops s' = s_ops s /\ s_fl s' = s_fl s /\ s_tx s' = None
  /\ exists k, Forall (eq TEnd) k /\ s_txlog s' = k ++ s_txlog s.
Proof.
  induction l as [|c l IH]; intros h s x s' Htx H; cbn [run_extra] in H.
  - inversion H; subst. repeat split; try reflexivity; try assumption. exists []; split; [constructor | reflexivity].
  - rewrite h_end_closed in H by exact Htx.
    destruct (run_extra C fault l (add_error h (Some (mkErr ETxDone false))) (log_tx s TEnd)) as [o s2] eqn:Er.
    inversion H; subst. apply IH in Er; [|exact Htx].
    destruct Er as (A1 & A2 & A3 & A4 & k & K1 & K2). cbn [log_tx s_db s_ops s_fl s_txlog] in *.
    repeat split; try assumption. exists (k ++ [TEnd]). split.
    + apply Forall_app; split; [exact K1 | repeat constructor].
    + rewrite K2, <- app_assoc; reflexivity.
Qed.
End Logs.
