(* C08_AssocProofs.v — the association paths see a related table as if its marked rows did not exist. *)
From Verif Require Import Base C08_Assoc.
Open Scope Z_scope.

Lemma visible_scoped r : visible false r = alive r.
Proof. reflexivity. Qed.
Lemma visible_unscoped r : visible true r = true.
Proof. reflexivity. Qed.

Lemma filter_filter {A} (f g : A -> bool) l : filter f (filter g l) = filter (fun x => g x && f x) l.
Proof.
  induction l as [|a l IH]; [reflexivity|]. cbn [filter].
  destruct (g a); cbn [filter andb]; [destruct (f a); rewrite IH; reflexivity | exact IH].
Qed.
Lemma filter_ext' {A} (f g : A -> bool) l : (forall a, f a = g a) -> filter f l = filter g l.
Proof. intro H. induction l as [|a l IH]; [reflexivity|]. cbn. rewrite H, IH. reflexivity. Qed.

(* has-many lookups without Unscoped = every lookup (scoped or not) on the table without the
   marked rows *)
Lemma children_erase : forall u c tbl p,
  children false c tbl p = children u c (erase_a tbl) p.
Proof.
  intros u c tbl p. unfold children, erase_a. rewrite filter_filter. f_equal.
  apply filter_ext'. intro r. unfold visible. cbn [orb].
  destruct (alive r); [rewrite Bool.orb_true_r|]; reflexivity.
Qed.
Lemma child_count_erase : forall u c tbl p,
  child_count false c tbl p = child_count u c (erase_a tbl) p.
Proof. intros. unfold child_count. rewrite (children_erase u). reflexivity. Qed.

(* a marked row is never reported by a scoped lookup *)
Lemma children_live : forall c tbl p i,
  In i (children false c tbl p) -> exists r, In r tbl /\ a_id r = i /\ alive r = true /\ a_fk r = p /\ c (a_val r) = true.
Proof.
  intros c tbl p i H. unfold children in H. apply in_map_iff in H. destruct H as [r [Hi Hf]].
  apply filter_In in Hf. destruct Hf as [Hin Hc].
  apply andb_prop in Hc. destruct Hc as [Hc H3]. apply andb_prop in Hc. destruct Hc as [H1 H2].
  exists r. repeat split; auto. apply Z.eqb_eq; exact H2.
Qed.
(* and every live matching row is *)
Lemma children_complete : forall u c tbl p r,
  In r tbl -> alive r = true -> a_fk r = p -> c (a_val r) = true -> In (a_id r) (children u c tbl p).
Proof.
  intros u c tbl p r Hin Hl Hf Hc. unfold children. apply in_map. apply filter_In. split; [exact Hin|].
  unfold visible. rewrite Hl, Bool.orb_true_r, Hc, Hf, Z.eqb_refl. reflexivity.
Qed.

Lemma find_filter {A} (f g : A -> bool) l : List.find f (filter g l) = List.find (fun x => g x && f x) l.
Proof.
  induction l as [|a l IH]; [reflexivity|]. cbn [filter List.find].
  destruct (g a); cbn [List.find andb]; [destruct (f a); [reflexivity | exact IH] | exact IH].
Qed.
Lemma find_ext' {A} (f g : A -> bool) l : (forall a, f a = g a) -> List.find f l = List.find g l.
Proof. intro H. induction l as [|a l IH]; [reflexivity|]. cbn. rewrite H, IH. reflexivity. Qed.

(* belongs-to lookups: the same *)
Lemma target_erase : forall u on tbl k, target false on tbl k = target u on (erase_a tbl) k.
Proof.
  intros u on tbl k. unfold target, erase_a. rewrite find_filter. f_equal.
  apply find_ext'. intro r. unfold visible. cbn [orb].
  destruct (alive r); [rewrite Bool.orb_true_r|]; reflexivity.
Qed.
Lemma left_join_erase : forall u on tbl src, left_join false on tbl src = left_join u on (erase_a tbl) src.
Proof. intros. unfold left_join. apply map_ext. intro s. rewrite (target_erase u). reflexivity. Qed.
Lemma inner_join_erase : forall u on tbl src, inner_join false on tbl src = inner_join u on (erase_a tbl) src.
Proof.
  intros. unfold inner_join. f_equal. apply filter_ext'. intro s. rewrite (target_erase u). reflexivity.
Qed.

(* a marked target is never joined *)
Lemma target_live : forall on tbl k i,
  target false on tbl k = Some i -> exists r, In r tbl /\ a_id r = i /\ i = k /\ alive r = true /\ on (a_val r) = true.
Proof.
  intros on tbl k i H. unfold target in H.
  destruct (List.find _ tbl) as [r|] eqn:E; [|discriminate]. cbn in H. injection H as <-.
  apply find_some in E. destruct E as [Hin Hc].
  apply andb_prop in Hc. destruct Hc as [Hc H3]. apply andb_prop in Hc. destruct Hc as [H1 H2].
  exists r. repeat split; auto. apply Z.eqb_eq; exact H2.
Qed.

(* ---- Unscoped: a marked copy is seen exactly where its original is ---- *)
Definition all_live (s : list arow) : Prop := forall r, In r s -> alive r = true.

Lemma children_app : forall u c a b p, children u c (a ++ b) p = children u c a p ++ children u c b p.
Proof. intros. unfold children. rewrite filter_app, map_app. reflexivity. Qed.

Lemma children_twins : forall c t s p,
  children true c (map (twin t) s) p = map (fun i => i + 100) (children true c s p).
Proof.
  intros c t s p. unfold children. induction s as [|r s IH]; [reflexivity|].
  cbn [map filter]. cbn [visible orb twin a_fk a_val a_id andb] in *.
  destruct ((a_fk r =? p) && c (a_val r)); cbn [map]; rewrite IH; reflexivity.
Qed.

Lemma unscoped_children_twins : forall c t s p,
  children true c (s ++ map (twin t) s) p
  = children true c s p ++ map (fun i => i + 100) (children true c s p).
Proof. intros. rewrite children_app, children_twins. reflexivity. Qed.

(* the scoped lookup on the table with twins = the lookup on the table without them *)
Lemma erase_twins : forall t s, all_live s -> erase_a (s ++ map (twin t) s) = s.
Proof.
  intros t s H. unfold erase_a. rewrite filter_app.
  assert (H1 : filter alive s = s).
  { induction s as [|r s IH]; [reflexivity|]. cbn [filter]. rewrite (H r (or_introl eq_refl)).
    f_equal. apply IH. intros x Hx. apply H. right. exact Hx. }
  assert (H2 : filter alive (map (twin t) s) = []).
  { clear. induction s as [|r s IH]; [reflexivity|]. cbn. exact IH. }
  rewrite H1, H2, app_nil_r. reflexivity.
Qed.

Lemma scoped_children_twins : forall c t s p, all_live s ->
  children false c (s ++ map (twin t) s) p = children false c s p.
Proof.
  intros c t s p H. rewrite (children_erase false), erase_twins by exact H. reflexivity.
Qed.
Lemma scoped_target_twins : forall on t s k, all_live s ->
  target false on (s ++ map (twin t) s) k = target false on s k.
Proof. intros on t s k H. rewrite (target_erase false), erase_twins by exact H. reflexivity. Qed.
Lemma scoped_left_join_twins : forall on t s src, all_live s ->
  left_join false on (s ++ map (twin t) s) src = left_join false on s src.
Proof. intros on t s src H. rewrite (left_join_erase false), erase_twins by exact H. reflexivity. Qed.
Lemma scoped_inner_join_twins : forall on t s src, all_live s ->
  inner_join false on (s ++ map (twin t) s) src = inner_join false on s src.
Proof. intros on t s src H. rewrite (inner_join_erase false), erase_twins by exact H. reflexivity. Qed.

(* a source row pointing at a marked copy has no target without Unscoped, and gets the copy with it *)
Lemma target_of_twin_scoped : forall on t s k, all_live s -> (forall r, In r s -> a_id r <> k) ->
  target false on (s ++ map (twin t) s) k = None.
Proof.
  intros on t s k Hl Hk. rewrite scoped_target_twins by exact Hl. unfold target.
  destruct (List.find _ s) as [r|] eqn:E; [|reflexivity].
  apply find_some in E. destruct E as [Hin Hc].
  apply andb_prop in Hc. destruct Hc as [Hc _]. apply andb_prop in Hc. destruct Hc as [_ H2].
  apply Z.eqb_eq in H2. exfalso. exact (Hk r Hin H2).
Qed.
