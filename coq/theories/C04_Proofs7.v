(* C04_Proofs7.v — single write calls outside any block (C04_Single): each is all-or-nothing, reports
   exactly the fault that hit it, and finishes the transaction gorm opened for it. *)
From Verif Require Import Base C04_Model C04_Single C04_Check C04_Proofs C04_Proofs4.
Open Scope Z_scope.

Lemma bal_app : forall l o l', bal o l = true -> bal o (l ++ l') = bal false l'.
Proof.
  induction l as [|c l IH]; intros o l' H.
  - destruct o; [discriminate | reflexivity].
  - destruct c as [ok|]; cbn [app bal] in *.
    + destruct o; [discriminate|]. apply IH; exact H.
    + apply IH; exact H.
Qed.

Lemma countf3_app : forall a b, countf3 (a ++ b) = (countf3 a + countf3 b)%nat.
Proof. intros a b. unfold countf3. rewrite !countf_app. lia. Qed.
Lemma countf3_rev : forall l, countf3 (rev l) = countf3 l.
Proof. intro l. unfold countf3. rewrite !countf_rev. reflexivity. Qed.

Section SingleProofs.
Variable C : cfg.
Variable fault : nat -> bool.
Hypothesis hard_commit : c_soft C = false.

(* no transaction is open on the handle and its context is alive: the state between two calls *)
Definition quiet (s : st) : Prop := s_tx s = None /\ s_dead s = false.

(* what one call does: new driver operations and transaction calls are appended; the transaction it
   began is ended (bal); a call that reports nil made its write durable and no fault hit BEGIN / the
   statement / COMMIT; a call that reports an error reports the fault, left the table as it was, and
   exactly one of its BEGIN / statement / COMMIT was hit *)
Definition step_rel (s s' : st) (r : cls) (w : list Z) : Prop :=
  exists new tl,
    s_ops s' = new ++ s_ops s /\ s_txlog s' = tl ++ s_txlog s /\ bal false (rev tl) = true /\
    quiet s' /\
    (if is_nil r then s_db s' = s_db s ++ w /\ countf3 new = 0%nat
     else is_fault r = true /\ s_db s' = s_db s /\ countf3 new = 1%nat).

Lemma pool_stmt_step : forall w s e n s',
  quiet s -> pool_stmt fault w s = (e, n, s') ->
  step_rel s s' (cls_oe e) (match w with Some m => [m] | None => [] end).
Proof.
  intros w s e n s' [Q1 Q2] H. unfold pool_stmt, issue in H.
  destruct s as [db tx ops gen txlog fl dead nonest]; cbn in *. subst tx dead.
  destruct (fault (length ops)).
  - inversion H; subst. exists [(KStmt, true)], []. cbn. repeat split; reflexivity.
  - destruct w as [m|]; inversion H; subst; exists [(KStmt, false)], []; cbn; repeat split; try reflexivity.
    rewrite app_nil_r; reflexivity.
Qed.

Lemma single_write_step : forall m s c s',
  quiet s -> single_write C fault m s = (c, s') -> step_rel s s' c [m].
Proof.
  intros m s c s' Q H. unfold single_write in H. destruct (c_skipdef C).
  - destruct (pool_stmt fault (Some m) s) as [[e n] s1] eqn:E. inversion H; subst.
    exact (pool_stmt_step (Some m) s e n s' Q E).
  - destruct Q as [Q1 Q2]. unfold issue, h_stmt, h_end, tx_end, issue in H. rewrite hard_commit in H.
    destruct s as [db tx ops gen txlog fl dead nonest]; cbn in *. subst tx dead.
    destruct (fault (length ops)).
    + inversion H; subst. exists [(KBegin, true)], [TBegin false]. cbn. repeat split; reflexivity.
    + cbn in H. destruct (fault (S (length ops))); cbn in H.
      * destruct (fault (S (S (length ops)))); cbn in H; inversion H; subst.
        -- exists [(KRollback, true); (KStmt, true); (KBegin, false)], [TEnd; TBegin true]. cbn. repeat split; reflexivity.
        -- exists [(KRollback, false); (KStmt, true); (KBegin, false)], [TEnd; TBegin true]. cbn. repeat split; reflexivity.
      * destruct (fault (S (S (length ops)))); cbn in H; inversion H; subst.
        -- exists [(KCommit, true); (KStmt, false); (KBegin, false)], [TEnd; TBegin true]. cbn. repeat split; reflexivity.
        -- exists [(KCommit, false); (KStmt, false); (KBegin, false)], [TEnd; TBegin true]. cbn. repeat split; reflexivity.
Qed.

(* any sequence of calls, from any quiet state *)
Definition seq_rel (s s' : st) (o : list obs) : Prop :=
  exists new tl,
    s_ops s' = new ++ s_ops s /\ s_txlog s' = tl ++ s_txlog s /\ bal false (rev tl) = true /\
    quiet s' /\ s_db s' = s_db s ++ single_kept o /\
    forallb is_fault (flat_map stmt_errs o) = true /\
    length (flat_map stmt_errs o) = countf3 new.

Lemma seq_cons : forall s s1 s2 r w x o,
  step_rel s s1 r w -> seq_rel s1 s2 o ->
  stmt_errs x = (if is_nil r then [] else [r]) ->
  single_kept [x] = (if is_nil r then w else []) ->
  seq_rel s s2 (x :: o).
Proof.
  intros s s1 s2 r w x o (n1 & t1 & A1 & A2 & A3 & A4 & A5) (n2 & t2 & B1 & B2 & B3 & B4 & B5 & B6 & B7) Hx Hk.
  exists (n2 ++ n1), (t2 ++ t1).
  rewrite B1, A1, B2, A2, !app_assoc. repeat split; try reflexivity; try apply B4.
  - rewrite rev_app_distr, (bal_app _ _ _ A3). exact B3.
  - change (x :: o) with ([x] ++ o). unfold single_kept in *. rewrite flat_map_app. fold (single_kept o).
    rewrite B5. destruct (is_nil r); destruct A5 as [A5 A6].
    + rewrite A5, Hk, app_assoc. reflexivity.
    + destruct A6 as [A6 _]. rewrite A6, Hk. reflexivity.
  - cbn [flat_map]. rewrite Hx, forallb_app, B6. destruct (is_nil r); [reflexivity|].
    destruct A5 as [A5 _]. cbn. rewrite A5. reflexivity.
  - cbn [flat_map]. rewrite Hx, app_length, B7, countf3_app. destruct (is_nil r); destruct A5 as [A5 A6].
    + rewrite A6. cbn. lia.
    + destruct A6 as [_ A6]. rewrite A6. cbn. lia.
Qed.

Lemma singles_seq : forall l s o s',
  quiet s -> run_singles C fault l s = (o, s') -> seq_rel s s' o.
Proof.
  induction l as [|c l IH]; intros s o s' Q H.
  - cbn in H. inversion H; subst. exists [], []. cbn. rewrite app_nil_r. repeat split; try reflexivity; apply Q.
  - cbn [run_singles] in H. destruct c as [m|m|].
    + destruct (single_write C fault m s) as [r s1] eqn:E1.
      destruct (run_singles C fault l s1) as [o1 s2] eqn:E2. inversion H; subst.
      pose proof (single_write_step m s r s1 Q E1) as S1.
      assert (Q1 : quiet s1) by (destruct S1 as (? & ? & _ & _ & _ & Q1 & _); exact Q1).
      eapply seq_cons; [exact S1 | exact (IH _ _ _ Q1 E2) | reflexivity |].
      destruct r as [|e|p]; reflexivity.
    + destruct (pool_stmt fault (Some m) s) as [[e n] s1] eqn:E1.
      destruct (run_singles C fault l s1) as [o1 s2] eqn:E2. inversion H; subst.
      pose proof (pool_stmt_step (Some m) s e n s1 Q E1) as S1.
      assert (Q1 : quiet s1) by (destruct S1 as (? & ? & _ & _ & _ & Q1 & _); exact Q1).
      eapply seq_cons; [exact S1 | exact (IH _ _ _ Q1 E2) | reflexivity |].
      destruct e; reflexivity.
    + destruct (pool_stmt fault None s) as [[e n] s1] eqn:E1.
      destruct (run_singles C fault l s1) as [o1 s2] eqn:E2. inversion H; subst.
      pose proof (pool_stmt_step None s e n s1 Q E1) as S1.
      assert (Q1 : quiet s1) by (destruct S1 as (? & ? & _ & _ & _ & Q1 & _); exact Q1).
      eapply seq_cons; [exact S1 | exact (IH _ _ _ Q1 E2) | reflexivity |].
      destruct e; reflexivity.
Qed.

(* from the initial state: the statement the checker evaluates *)
Theorem singles_top : forall l db0 o s,
  run_singles C fault l (init_st db0) = (o, s) ->
  s_db s = db0 ++ single_kept o /\
  forallb is_fault (flat_map stmt_errs o) = true /\
  length (flat_map stmt_errs o) = countf3 (rev (s_ops s)) /\
  s_tx s = None /\ bal false (rev (s_txlog s)) = true.
Proof.
  intros l db0 o s H.
  destruct (singles_seq l (init_st db0) o s (conj eq_refl eq_refl) H) as (new & tl & A1 & A2 & A3 & A4 & A5 & A6 & A7).
  cbn [init_st s_ops s_txlog s_db] in *. rewrite app_nil_r in A1, A2.
  rewrite A1, A2, countf3_rev. repeat split; try assumption. apply A4.
Qed.

Theorem single_spec_model : forall (P : list txcall -> Z * Z),
  (forall l, bal false l = true -> P l = (0, 0)) ->
  forall l o s,
  run_singles C fault l (init_st []) = (o, s) ->
  single_spec (mk_case false (Done RetNil) [] [] C None (OC true o CNil CNil) [] [] (s_db s)
                 (fst (P (rev (s_txlog s)))) (snd (P (rev (s_txlog s)))) (rev (s_ops s)) [] (-1) (Some l)) = true.
Proof.
  intros P HP l o s H. destruct (singles_top l [] o s H) as (A1 & A2 & A3 & _ & A5).
  unfold single_spec, single_ok; cbn [o_in_use o_open_tx o_top o_ops o_table].
  rewrite (HP _ A5). cbn [fst snd Z.eqb andb app].
  rewrite A1. cbn [app]. rewrite same_set_refl, A2, A3, Nat.eqb_refl. reflexivity.
Qed.

End SingleProofs.

(* non-vacuity: three calls, the COMMIT of the second write fails: 1 and the raw 3 are durable, 2 is not *)
Definition single_demo := [SWrite 1; SWrite 2; SRead; SExec 3].
Lemma single_demo_ok :
  let '(o, s) := run_singles (mk_cfg false false false true false false false) (fault_at (Some 5%nat)) single_demo (init_st []) in
  o = [OW 1 CNil; OW 2 (CErr fault_err); OR CNil 1; OW 3 CNil] /\ s_db s = [1; 3] /\
  map fst (rev (s_ops s)) = [KBegin; KStmt; KCommit; KBegin; KStmt; KCommit; KStmt; KStmt].
Proof. vm_compute. repeat split; reflexivity. Qed.
