(* C16_Proofs.v — lemmas about the C16 model: tables, Save, upsert rules. *)
From Verif Require Import Base C16_Model C16_Spec.
Open Scope Z_scope.

(* ---- well-formed tables: keys strictly increasing (hence unique) ---------------------- *)
Fixpoint wf_from (lo : Z) (t : table) : Prop :=
  match t with
  | [] => True
  | r :: t' => lo < r_id r /\ wf_from (r_id r) t'
  end.
Definition wf (t : table) : Prop := exists lo, wf_from lo t.

(* the record with tracked times erased: "tracked timestamps aside" *)
Definition strip_ts (r : rec) : rec :=
  mk_rec (r_id r) (r_name r) (r_age r) (r_email r) 0 0 (r_del r).

Lemma wf_from_weaken lo lo' t : lo' <= lo -> wf_from lo t -> wf_from lo' t.
Proof. destruct t as [|r t]; cbn; [auto|]. intros H [H1 H2]; split; [lia|exact H2]. Qed.

Lemma lookup_below lo t k : wf_from lo t -> k <= lo -> lookup t k = None.
Proof.
  revert lo; induction t as [|r t IH]; intros lo Hwf Hk; cbn in *; [reflexivity|].
  destruct Hwf as [H1 H2]. destruct (r_id r =? k) eqn:E; [apply Z.eqb_eq in E; lia|].
  apply (IH (r_id r)); [exact H2|lia].
Qed.

Lemma without_below lo t k : wf_from lo t -> k <= lo -> without k t = t.
Proof.
  unfold without. revert lo; induction t as [|r t IH]; intros lo Hwf Hk; cbn in *; [reflexivity|].
  destruct Hwf as [H1 H2]. destruct (r_id r =? k) eqn:E; [apply Z.eqb_eq in E; lia|].
  cbn. f_equal. apply (IH (r_id r)); [exact H2|lia].
Qed.

Lemma lookup_some t k r : lookup t k = Some r -> In r t /\ r_id r = k.
Proof.
  induction t as [|x t IH]; cbn; [discriminate|].
  destruct (r_id x =? k) eqn:E.
  - intros H; inversion H; subst. apply Z.eqb_eq in E. auto.
  - intros H. destruct (IH H) as [H1 H2]. auto.
Qed.

Lemma lookup_in lo t r : wf_from lo t -> In r t -> lookup t (r_id r) = Some r.
Proof.
  revert lo; induction t as [|x t IH]; intros lo Hwf Hin; cbn in *; [contradiction|].
  destruct Hwf as [H1 H2]. destruct Hin as [->|Hin].
  - now rewrite Z.eqb_refl.
  - destruct (r_id x =? r_id r) eqn:E.
    + apply Z.eqb_eq in E. pose proof (lookup_below _ _ (r_id r) H2) as Hn.
      rewrite (IH _ H2 Hin) in Hn. rewrite E in Hn. specialize (Hn (Z.le_refl _)). discriminate.
    + apply (IH _ H2 Hin).
Qed.

(* ---- insert ---------------------------------------------------------------------------- *)
Lemma lookup_insert_same t x : lookup t (r_id x) = None -> lookup (insert t x) (r_id x) = Some x.
Proof.
  induction t as [|r t IH]; cbn; intros H.
  - now rewrite Z.eqb_refl.
  - destruct (r_id r =? r_id x) eqn:E; [discriminate|].
    destruct (r_id x <? r_id r); cbn.
    + now rewrite Z.eqb_refl.
    + rewrite E. apply IH, H.
Qed.

Lemma lookup_insert_other t x k : k <> r_id x -> lookup (insert t x) k = lookup t k.
Proof.
  intros Hk. induction t as [|r t IH]; cbn.
  - destruct (r_id x =? k) eqn:E; [apply Z.eqb_eq in E; congruence|reflexivity].
  - destruct (r_id x <? r_id r); cbn.
    + destruct (r_id x =? k) eqn:E; [apply Z.eqb_eq in E; congruence|reflexivity].
    + now rewrite IH.
Qed.

Lemma without_insert t x : without (r_id x) (insert t x) = without (r_id x) t.
Proof.
  unfold without. induction t as [|r t IH]; cbn.
  - now rewrite Z.eqb_refl.
  - destruct (r_id x <? r_id r); cbn.
    + now rewrite Z.eqb_refl.
    + rewrite IH. reflexivity.
Qed.

Lemma length_insert t x : length (insert t x) = S (length t).
Proof.
  induction t as [|r t IH]; cbn; [reflexivity|].
  destruct (r_id x <? r_id r); cbn; [reflexivity|now rewrite IH].
Qed.

Lemma wf_insert lo t x : wf_from lo t -> lo < r_id x -> lookup t (r_id x) = None ->
  wf_from lo (insert t x).
Proof.
  revert lo; induction t as [|r t IH]; intros lo Hwf Hlo Hn; cbn in *.
  - auto.
  - destruct Hwf as [H1 H2]. destruct (r_id r =? r_id x) eqn:E; [discriminate|].
    apply Z.eqb_neq in E.
    destruct (r_id x <? r_id r) eqn:L; cbn.
    + apply Z.ltb_lt in L. repeat split; auto.
    + apply Z.ltb_ge in L. split; [exact H1|]. apply IH; [exact H2|lia|exact Hn].
Qed.

(* ---- upd_where ----------------------------------------------------------------------------- *)
Lemma lookup_upd_where p f t k :
  (forall r, p r = true -> r_id (f r) = r_id r) ->
  lookup (upd_where p f t) k = option_map (fun r => if p r then f r else r) (lookup t k).
Proof.
  intros Hf. induction t as [|r t IH]; cbn; [reflexivity|].
  assert (E : r_id (if p r then f r else r) = r_id r).
  { destruct (p r) eqn:P; [apply Hf, P|reflexivity]. }
  rewrite E. destruct (r_id r =? k); [reflexivity|apply IH].
Qed.

Lemma wf_upd_where p f lo t :
  (forall r, p r = true -> r_id (f r) = r_id r) ->
  wf_from lo t -> wf_from lo (upd_where p f t).
Proof.
  intros Hf. revert lo; induction t as [|r t IH]; intros lo Hwf; cbn in *; [exact I|].
  destruct Hwf as [H1 H2].
  assert (E : r_id (if p r then f r else r) = r_id r).
  { destruct (p r) eqn:P; [apply Hf, P|reflexivity]. }
  rewrite E. split; [exact H1|apply IH, H2].
Qed.

Lemma wf_insert' t x : wf t -> lookup t (r_id x) = None -> wf (insert t x).
Proof.
  intros [lo W] Hn. exists (Z.min lo (r_id x - 1)).
  apply wf_insert; [apply (wf_from_weaken lo); [lia|exact W]|lia|exact Hn].
Qed.
Lemma wf_upd' p f t :
  (forall r, p r = true -> r_id (f r) = r_id r) -> wf t -> wf (upd_where p f t).
Proof. intros Hf [lo W]. exists lo. now apply wf_upd_where. Qed.
Lemma lookup_in' t r : wf t -> In r t -> lookup t (r_id r) = Some r.
Proof. intros [lo W]. now apply (lookup_in lo). Qed.
Lemma wf_nil : wf [].
Proof. exists 0. exact I. Qed.

Lemma without_upd_where p f t k :
  (forall r, p r = true -> r_id r = k /\ r_id (f r) = k) ->
  without k (upd_where p f t) = without k t.
Proof.
  unfold without, upd_where. intros Hf. induction t as [|r t IH]; cbn; [reflexivity|].
  destruct (p r) eqn:P.
  - destruct (Hf r P) as [H1 H2]. rewrite H1, H2, Z.eqb_refl. cbn. exact IH.
  - destruct (r_id r =? k); cbn; now rewrite IH.
Qed.

Lemma length_upd_where p f t : length (upd_where p f t) = length t.
Proof. apply map_length. Qed.

Lemma count_pos p t : 0 < count_where p t -> exists r, In r t /\ p r = true.
Proof.
  unfold count_where. destruct (filter p t) as [|r l] eqn:E; cbn; [lia|].
  intros _. exists r. apply filter_In. rewrite E. now left.
Qed.

(* ---- fresh keys --------------------------------------------------------------------------- *)
Lemma fold_max_ge (t : table) m : m <= fold_left (fun m r => Z.max m (r_id r)) t m.
Proof.
  revert m; induction t as [|r t IH]; intros m; cbn; [lia|].
  specialize (IH (Z.max m (r_id r))). lia.
Qed.
Lemma fold_max_in (t : table) m r : In r t -> r_id r <= fold_left (fun m r => Z.max m (r_id r)) t m.
Proof.
  revert m; induction t as [|x t IH]; intros m Hin; cbn in *; [contradiction|].
  destruct Hin as [->|Hin].
  - pose proof (fold_max_ge t (Z.max m (r_id r))). lia.
  - apply IH, Hin.
Qed.
Lemma next_id_fresh t : lookup t (next_id t) = None /\ 0 < next_id t.
Proof.
  unfold next_id, max_id. split.
  - destruct (lookup t _) as [r|] eqn:E; [|reflexivity].
    apply lookup_some in E. destruct E as [Hin Hid].
    pose proof (fold_max_in t 0 r Hin). lia.
  - pose proof (fold_max_ge t 0). lia.
Qed.

(* ---- columns of records -------------------------------------------------------------------- *)
Lemma get_id r : get_col CId r = VInt (r_id r). Proof. reflexivity. Qed.

Lemma get_set_same c ex o : get_col c (set_col c (get_col c ex) o) = get_col c ex.
Proof.
  destruct o as [i n a e ct ut d], ex as [i' n' a' e' ct' ut' d'], c; cbn; try reflexivity.
  destruct d'; reflexivity.
Qed.

Lemma get_set_other c c' v o : col_eqb c c' = false -> get_col c (set_col c' v o) = get_col c o.
Proof. destruct o, c, c', v; cbn; intros H; try reflexivity; discriminate. Qed.

Lemma col_eqb_eq c c' : col_eqb c c' = true <-> c = c'.
Proof. destruct c, c'; cbn; split; intros H; try reflexivity; discriminate. Qed.

Lemma copy_cols_get ex cols c old :
  get_col c (fold_left (fun o c' => set_col c' (get_col c' ex) o) cols old)
  = if mem_col c cols then get_col c ex else get_col c old.
Proof.
  revert old; induction cols as [|c' cols IH]; intros old; cbn; [reflexivity|].
  rewrite IH. destruct (col_eqb c c') eqn:E; cbn.
  - apply col_eqb_eq in E; subst c'. rewrite get_set_same. now destruct (mem_col c cols).
  - rewrite (get_set_other _ _ _ _ E). reflexivity.
Qed.

Lemma r_id_of_get a b : get_col CId a = get_col CId b -> r_id a = r_id b.
Proof. cbn. congruence. Qed.

Lemma fill_times_id now v : r_id (fill_times now v) = r_id v.
Proof. now destruct v. Qed.
Lemma with_uat_id now v : r_id (with_uat now v) = r_id v.
Proof. now destruct v. Qed.
Lemma with_id_id k v : r_id (with_id k v) = k.
Proof. now destruct v. Qed.
Lemma strip_with_uat now v : strip_ts (with_uat now v) = strip_ts v.
Proof. now destruct v. Qed.
Lemma strip_fill_times now v : strip_ts (fill_times now v) = strip_ts v.
Proof. now destruct v. Qed.

Lemma oc_apply_id now ru ex old : r_id ex = r_id old -> r_id (oc_apply now ru ex old) = r_id old.
Proof.
  intros H. induction ru as [|cols| |k r IH|k r IH]; cbn [oc_apply]; [reflexivity| | | |exact IH].
  - apply r_id_of_get. rewrite copy_cols_get. destruct (mem_col CId cols); cbn; congruence.
  - destruct old, ex as [i' n' a' e' ct' ut' d']; destruct d'; reflexivity.
  - destruct (r_age old <? k); [exact IH|reflexivity].
Qed.

Lemma oc_apply_idle now ru ex old : rule_fires ru old = false -> oc_apply now ru ex old = old.
Proof.
  induction ru as [|cols| |k r IH|k r IH]; cbn [oc_apply rule_fires]; intros H; try discriminate; auto.
  destruct (r_age old <? k); [apply IH, H|reflexivity].
Qed.

Lemma strip_oc_all now ex old : r_id ex = r_id old -> strip_ts (oc_apply now RAll ex old) = strip_ts ex.
Proof. destruct old, ex as [i' n' a' e' ct' ut' d']; destruct d'; cbn; intros ->; reflexivity. Qed.

Lemma without_cons k a t :
  without k (a :: t) = if r_id a =? k then without k t else a :: without k t.
Proof. unfold without; cbn. destruct (r_id a =? k); reflexivity. Qed.

(* ---- create -------------------------------------------------------------------------------- *)
(* a stored table is determined, up to tracked times, by the other rows and the row under key k *)
Lemma canonical lo t1 t2 k r1 r2 :
  wf_from lo t1 -> wf_from lo t2 ->
  without k t1 = without k t2 ->
  lookup t1 k = Some r1 -> lookup t2 k = Some r2 -> strip_ts r1 = strip_ts r2 ->
  map strip_ts t1 = map strip_ts t2.
Proof.
  revert lo t2; induction t1 as [|a t1 IH]; intros lo t2 W1 W2 Hwo L1 L2 Hs; [discriminate|].
  destruct t2 as [|b t2]; [discriminate|].
  cbn in W1, W2. destruct W1 as [Wa W1], W2 as [Wb W2].
  rewrite !without_cons in Hwo. cbn [lookup] in L1, L2.
  destruct (r_id a =? k) eqn:Ea; destruct (r_id b =? k) eqn:Eb.
  - inversion L1; inversion L2; subst r1 r2. apply Z.eqb_eq in Ea, Eb.
    rewrite (without_below _ _ _ W1) in Hwo by lia. rewrite (without_below _ _ _ W2) in Hwo by lia.
    cbn. now rewrite Hs, Hwo.
  - apply Z.eqb_eq in Ea. rewrite (without_below _ _ _ W1) in Hwo by lia.
    destruct t1 as [|c t1]; [discriminate|]. inversion Hwo; subst c.
    cbn in W1. destruct W1 as [Wc _].
    rewrite (lookup_below _ _ k W2) in L2 by lia. discriminate.
  - apply Z.eqb_eq in Eb. rewrite (without_below _ _ _ W2) in Hwo by lia.
    destruct t2 as [|c t2]; [discriminate|]. inversion Hwo; subst c.
    cbn in W2. destruct W2 as [Wc _].
    rewrite (lookup_below _ _ k W1) in L1 by lia. discriminate.
  - inversion Hwo; subst b. cbn. f_equal. apply (IH (r_id a) t2); auto.
Qed.

Lemma canonical' t1 t2 k r1 r2 :
  wf t1 -> wf t2 -> without k t1 = without k t2 ->
  lookup t1 k = Some r1 -> lookup t2 k = Some r2 -> strip_ts r1 = strip_ts r2 ->
  map strip_ts t1 = map strip_ts t2.
Proof.
  intros [l1 W1] [l2 W2]. apply (canonical (Z.min l1 l2)).
  - apply (wf_from_weaken l1); [lia|exact W1].
  - apply (wf_from_weaken l2); [lia|exact W2].
Qed.

Section Create.
Variables (t : table) (now : Z).
Hypothesis Hwf : wf t.

Lemma create_fresh ru v : r_id v = 0 ->
  let x := with_id (next_id t) (fill_times now v) in
  create t now ru v = mk_result x 1 false 1 (insert t x)
  /\ lookup t (r_id x) = None /\ 0 < r_id x /\ wf (insert t x).
Proof.
  intros Hz x. unfold create. rewrite fill_times_id, Hz. cbn [Z.eqb].
  destruct (next_id_fresh t) as [Hn Hp].
  assert (Hx : r_id x = next_id t) by apply with_id_id.
  rewrite Hx. repeat split; auto.
  apply wf_insert'; [exact Hwf|now rewrite Hx].
Qed.

Lemma create_absent ru v : r_id v <> 0 -> lookup t (r_id v) = None ->
  create t now ru v = mk_result (fill_times now v) 1 false 1 (insert t (fill_times now v))
  /\ wf (insert t (fill_times now v)).
Proof.
  intros Hp Hn. unfold create. rewrite fill_times_id.
  destruct (r_id v =? 0) eqn:E; [apply Z.eqb_eq in E; lia|]. rewrite Hn. split; [reflexivity|].
  apply wf_insert'; [exact Hwf|now rewrite fill_times_id].
Qed.

Lemma create_conflict ru v old : r_id v <> 0 -> lookup t (r_id v) = Some old ->
  let ex := fill_times now v in
  let r := create t now (Some ru) v in
  res_err r = false /\ res_ret r = ex /\ wf (res_tbl r)
  /\ without (r_id v) (res_tbl r) = without (r_id v) t
  /\ lookup (res_tbl r) (r_id v) = Some (oc_apply now ru ex old)
  /\ length (res_tbl r) = length t.
Proof.
  intros Hp Hl ex r. subst r. unfold create. fold ex.
  assert (Hex : r_id ex = r_id v) by apply fill_times_id.
  rewrite Hex. destruct (r_id v =? 0) eqn:E; [apply Z.eqb_eq in E; lia|]. rewrite Hl.
  destruct (lookup_some _ _ _ Hl) as [Hin Hid].
  assert (Hpres : forall x, (r_id x =? r_id v) = true -> r_id (oc_apply now ru ex x) = r_id x).
  { intros x Hx. apply Z.eqb_eq in Hx. apply oc_apply_id. congruence. }
  destruct (rule_fires ru old) eqn:F; cbn [res_err res_ret res_tbl].
  - repeat split; auto.
    + apply wf_upd'; [exact Hpres|exact Hwf].
    + apply without_upd_where. intros x Hx. split; [now apply Z.eqb_eq|].
      rewrite (Hpres x Hx). now apply Z.eqb_eq.
    + rewrite lookup_upd_where by exact Hpres. rewrite Hl. cbn. now rewrite Hid, Z.eqb_refl.
    + apply length_upd_where.
  - rewrite (oc_apply_idle now ru ex old F). repeat split; auto.
Qed.
End Create.

(* ---- Save ------------------------------------------------------------------------------------ *)
Lemma save_char t now v : wf t -> r_id v <> 0 ->
  let r := save t now v in
  res_err r = false /\ wf (res_tbl r)
  /\ without (r_id v) (res_tbl r) = without (r_id v) t
  /\ (exists row, lookup (res_tbl r) (r_id v) = Some row /\ strip_ts row = strip_ts v)
  /\ strip_ts (res_ret r) = strip_ts v
  /\ (length (res_tbl r) <= S (length t))%nat.
Proof.
  intros Hwf Hp r. subst r. unfold save.
  destruct (r_id v =? 0) eqn:E; [apply Z.eqb_eq in E; lia|].
  set (hit := fun x => (r_id x =? r_id v) && live x).
  set (v2 := with_uat now v).
  assert (Hv2 : r_id v2 = r_id v) by apply with_uat_id.
  destruct (0 <? count_where hit t) eqn:C; cbn [res_err res_tbl res_ret].
  - apply Z.ltb_lt in C. destruct (count_pos _ _ C) as [x [Hin Hx]].
    assert (Hpres : forall y, hit y = true -> r_id ((fun _ => v2) y) = r_id y).
    { intros y Hy. unfold hit in Hy. apply andb_prop in Hy. destruct Hy as [Hy _].
      apply Z.eqb_eq in Hy. congruence. }
    repeat split.
    + apply wf_upd'; [exact Hpres|exact Hwf].
    + apply without_upd_where. intros y Hy. unfold hit in Hy. apply andb_prop in Hy.
      destruct Hy as [Hy _]. apply Z.eqb_eq in Hy. auto.
    + exists v2. split; [|apply strip_with_uat].
      rewrite lookup_upd_where by exact Hpres.
      assert (Hidx : r_id x = r_id v).
      { unfold hit in Hx. apply andb_prop in Hx. destruct Hx as [Hx _]. now apply Z.eqb_eq. }
      rewrite <- Hidx, (lookup_in' _ _ Hwf Hin). cbn. now rewrite Hx.
    + apply strip_with_uat.
    + rewrite length_upd_where. lia.
  - destruct (lookup t (r_id v)) as [old|] eqn:L.
    + rewrite <- Hv2 in L.
      destruct (create_conflict t now Hwf RAll v2 old) as [H1 [H2 [H3 [H4 [H5 H6]]]]]; [lia|exact L|].
      rewrite Hv2 in *. repeat split; auto.
      * exists (oc_apply now RAll (fill_times now v2) old). split; [exact H5|].
        rewrite strip_oc_all.
        -- unfold v2; now rewrite strip_fill_times, strip_with_uat.
        -- rewrite fill_times_id, Hv2. destruct (lookup_some _ _ _ L) as [_ Hid]. congruence.
      * rewrite H2. unfold v2; now rewrite strip_fill_times, strip_with_uat.
      * rewrite H6. lia.
    + rewrite <- Hv2 in L.
      destruct (create_absent t now Hwf (Some RAll) v2) as [H1 H2]; [lia|exact L|].
      rewrite H1. cbn [res_err res_tbl res_ret]. rewrite Hv2 in *.
      assert (Hf : r_id (fill_times now v2) = r_id v) by (now rewrite fill_times_id).
      repeat split; auto.
      * rewrite <- Hf. apply without_insert.
      * exists (fill_times now v2). split.
        -- rewrite <- Hf. apply lookup_insert_same. now rewrite Hf.
        -- unfold v2; now rewrite strip_fill_times, strip_with_uat.
      * unfold v2; now rewrite strip_fill_times, strip_with_uat.
      * rewrite length_insert. lia.
Qed.

Lemma save_idempotent t n1 n2 v : wf t -> r_id v <> 0 ->
  map strip_ts (res_tbl (save (res_tbl (save t n1 v)) n2 v))
  = map strip_ts (res_tbl (save t n1 v)).
Proof.
  intros Hwf Hp.
  destruct (save_char t n1 v Hwf Hp) as [_ [W1 [O1 [[row1 [L1 S1]] _]]]].
  destruct (save_char _ n2 v W1 Hp) as [_ [W2 [O2 [[row2 [L2 S2]] _]]]].
  eapply (canonical' _ _ (r_id v)); eauto. congruence.
Qed.

(* saving the record that Save handed back (key filled in) changes nothing but tracked times *)
Lemma save_zero_key t now v : wf t -> r_id v = 0 ->
  let r := save t now v in
  res_err r = false /\ wf (res_tbl r) /\ 0 < r_id (res_ret r)
  /\ lookup t (r_id (res_ret r)) = None
  /\ res_tbl r = insert t (res_ret r)
  /\ strip_ts (res_ret r) = strip_ts (with_id (r_id (res_ret r)) v).
Proof.
  intros Hwf Hz r. subst r. unfold save. rewrite Hz. cbn [Z.eqb].
  destruct (create_fresh t now Hwf None v Hz) as [H1 [H2 [H3 H4]]].
  rewrite H1. cbn [res_err res_tbl res_ret]. repeat split; auto.
  rewrite with_id_id. destruct v; reflexivity.
Qed.

(* saving a value whose key already holds it (tracked times aside) changes nothing else *)
Lemma save_again t now v row : wf t -> r_id v <> 0 ->
  lookup t (r_id v) = Some row -> strip_ts row = strip_ts v ->
  map strip_ts (res_tbl (save t now v)) = map strip_ts t.
Proof.
  intros Hwf Hp L S.
  destruct (save_char t now v Hwf Hp) as [_ [W1 [O1 [[row1 [L1 S1]] _]]]].
  eapply (canonical' _ _ (r_id v)); eauto. congruence.
Qed.

(* Save of a keyless value, then Save of the record it handed back *)
Lemma save_zero_key_again t n1 n2 v : wf t -> r_id v = 0 ->
  let r := save t n1 v in
  map strip_ts (res_tbl (save (res_tbl r) n2 (res_ret r))) = map strip_ts (res_tbl r).
Proof.
  intros Hwf Hz r. destruct (save_zero_key t n1 v Hwf Hz) as (E & W & P & N & T & S). fold r in E, W, P, N, T, S.
  apply (save_again _ n2 _ (res_ret r)); auto; [lia|]. rewrite T. now apply lookup_insert_same.
Qed.

(* ---- the three OnConflict rules, column by column --------------------------------------------- *)
Fixpoint rule_row (now : Z) (ru : rule) (ex old row : rec) : Prop :=
  match ru with
  | RNothing => row = old
  | RUpdates cols => forall c, get_col c row = if mem_col c cols then get_col c ex else get_col c old
  | RAll => forall c, get_col c row = match c with
                                      | CId | CCat => get_col c old
                                      | CUat => VInt now
                                      | _ => get_col c ex
                                      end
  | RWhere k r => if r_age old <? k then rule_row now r ex old row else row = old
  | RTarget _ r => rule_row now r ex old row
  end.

Lemma oc_apply_rule now ru ex old : r_id ex = r_id old -> rule_row now ru ex old (oc_apply now ru ex old).
Proof.
  intros H. induction ru as [|cols| |k r IH|k r IH]; cbn [rule_row oc_apply]; [reflexivity| | | |exact IH].
  - intros c. apply copy_cols_get.
  - intros c. destruct old, ex as [i' n' a' e' ct' ut' d']; destruct d', c; cbn in *; reflexivity.
  - destruct (r_age old <? k); [exact IH|reflexivity].
Qed.

Lemma upsert_rule t now ru v : wf t -> r_id v <> 0 ->
  let r := create t now (Some ru) v in
  let ex := fill_times now v in
  res_err r = false /\ res_ret r = ex /\ wf (res_tbl r)
  /\ without (r_id v) (res_tbl r) = without (r_id v) t
  /\ match lookup t (r_id v) with
     | None => lookup (res_tbl r) (r_id v) = Some ex /\ length (res_tbl r) = S (length t)
     | Some old => (exists row, lookup (res_tbl r) (r_id v) = Some row /\ rule_row now ru ex old row)
                   /\ length (res_tbl r) = length t
     end.
Proof.
  intros Hwf Hp r ex. subst r. destruct (lookup t (r_id v)) as [old|] eqn:L.
  - destruct (create_conflict t now Hwf ru v old Hp L) as (H1 & H2 & H3 & H4 & H5 & H6).
    repeat split; auto. eexists; split; [exact H5|]. apply oc_apply_rule.
    rewrite fill_times_id. destruct (lookup_some _ _ _ L); congruence.
  - destruct (create_absent t now Hwf (Some ru) v Hp L) as (H1 & H2). rewrite H1.
    cbn [res_err res_ret res_tbl]. fold ex.
    assert (Hf : r_id ex = r_id v) by apply fill_times_id.
    repeat split; auto.
    + rewrite <- Hf. apply without_insert.
    + rewrite <- Hf. apply lookup_insert_same. now rewrite Hf.
    + apply length_insert.
Qed.

Lemma create_wf t now ru v : wf t -> wf (res_tbl (create t now ru v)).
Proof.
  intros Hwf. destruct (Z.eq_dec (r_id v) 0) as [Hz|Hnz].
  - destruct (create_fresh t now Hwf ru v Hz) as (H1 & _ & _ & H4). now rewrite H1.
  - destruct (lookup t (r_id v)) as [old|] eqn:L.
    + destruct ru as [ru|].
      * now destruct (create_conflict t now Hwf ru v old Hnz L) as (_ & _ & H3 & _).
      * unfold create. rewrite fill_times_id. destruct (r_id v =? 0); [|rewrite L; exact Hwf].
        cbn. apply wf_insert'; [exact Hwf|]. rewrite with_id_id. apply next_id_fresh.
    + destruct (create_absent t now Hwf ru v Hnz L) as (H1 & H2). now rewrite H1.
Qed.

Lemma save_wf t now v : wf t -> wf (res_tbl (save t now v)).
Proof.
  intros Hwf. destruct (Z.eq_dec (r_id v) 0) as [Hz|Hnz].
  - now destruct (save_zero_key t now v Hwf Hz) as (_ & W & _).
  - now destruct (save_char t now v Hwf Hnz) as (_ & W & _).
Qed.
