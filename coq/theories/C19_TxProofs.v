(* C19_TxProofs.v — transaction scripts (C19_Tx): a dry run sends transaction control only, at any
   nesting depth; inside a transaction it sends nothing at all; the real run sends, savepoint control
   apart, exactly the statements the dry run exposes. *)
From Verif Require Import Base C01_Model C19_Model C19_Proofs C19_Tx.

(* induction over scripts (steps nest through lists) *)
Section TstepInd.
Variable P : tstep -> Prop.
Hypothesis H_op : forall k b, P (TOp k b).
Hypothesis H_save : forall n, P (TSave n).
Hypothesis H_roll : forall n, P (TRollTo n).
Hypothesis H_block : forall f sw body, Forall P body -> P (TBlock f sw body).
Fixpoint tstep_ind' (t : tstep) : P t :=
  match t with
  | TOp k b => H_op k b
  | TSave n => H_save n
  | TRollTo n => H_roll n
  | TBlock f sw body =>
    H_block f sw body ((fix go (l : list tstep) : Forall P l :=
                          match l with [] => Forall_nil P | x :: r => Forall_cons x (tstep_ind' x) (go r) end) body)
  end.
End TstepInd.

(* the list runner inside [run_step] is [run_steps] *)
Lemma run_list_eq : forall c l intx st,
  (fix run_list (l : list tstep) (intx' : bool) (st : tst) {struct l} : tst :=
     match l with
     | [] => st
     | t' :: r => let st1 := run_step c intx' t' st in
                  if r_err (ts st1) then st1 else run_list r intx' st1
     end) l intx st = run_steps c intx l st.
Proof.
  intros c l. induction l as [|t r IH]; intros intx st; [reflexivity|].
  cbn [run_steps]. cbv zeta. destruct (r_err (ts (run_step c intx t st))); [reflexivity | apply IH].
Qed.

Lemma run_step_block : forall c intx f sw body st,
  run_step c intx (TBlock f sw body) st =
  if intx then
    let n1 := N.succ (tn st) in
    let s1 := raw_exec c (savepoint_sql (sp_name n1)) (ts st) in
    let st2 := run_steps c true body (mk_tst s1 n1 (tshown st)) in
    let e := r_err (ts st2) || f in
    let s3 := if e then raw_exec c (rollback_to_sql (sp_name n1)) (ts st2) else ts st2 in
    mk_tst (keep_err (e && negb sw) s3) (tn st2) (tshown st2)
  else
    let (s1, d) := call EBegin (fresh (ts st)) in
    if d_err d then mk_tst (keep_err (negb sw) s1) (tn st) (tshown st) else
    let st2 := run_steps c true body (mk_tst s1 (tn st) (tshown st)) in
    let e := r_err (ts st2) || f in
    let (s3, d3) := call (if e then ERollback else ECommit) (ts st2) in
    mk_tst (keep_err ((e || d_err d3) && negb sw) s3) (tn st2) (tshown st2).
Proof.
  intros c intx f sw body st. destruct intx; cbn [run_step].
  - rewrite !run_list_eq. reflexivity.
  - destruct (call EBegin (fresh (ts st))) as [s1 d]. destruct (d_err d); [reflexivity|].
    rewrite !run_list_eq. reflexivity.
Qed.

(* ---- DryRun: the log grows by transaction control only; inside a transaction not at all ---- *)
Definition txext (intx : bool) (s s' : rst) : Prop :=
  exists l, r_log s' = r_log s ++ l /\ forallb is_tx_event l = true /\ (intx = true -> l = []).

Lemma txext_refl : forall i s s', r_log s' = r_log s -> txext i s s'.
Proof. intros i s s' E. exists []. rewrite E, app_nil_r. auto. Qed.
Lemma txext_trans : forall i a b d, txext i a b -> txext i b d -> txext i a d.
Proof.
  intros i a b d [l [E [T S]]] [l' [E' [T' S']]]. exists (l ++ l'). rewrite E', E, app_assoc.
  split; [reflexivity|]. split; [rewrite forallb_app, T, T'; reflexivity|].
  intro H. rewrite (S H), (S' H). reflexivity.
Qed.
Lemma txext_weaken : forall i a b, txext true a b -> txext i a b.
Proof. intros i a b [l [E [T S]]]. exists l. rewrite (S eq_refl) in *. auto. Qed.

Lemma quiet_txext : forall c i s s', (i = true -> c_skip c = true) -> quiet c s s' -> txext i s s'.
Proof.
  intros c i s s' Hi [l [E [T S]]]. exists l. split; [exact E|]. split; [exact T|].
  intro H. apply S, Hi, H.
Qed.

Lemma raw_exec_dry : forall c sql s, c_dry c = true -> r_log (raw_exec c sql s) = r_log s.
Proof.
  intros c sql s Hd. unfold raw_exec, keep_err. cbn [r_log].
  destruct (execute_dry_quiet c OpRaw (mk_built sql [] false false false) (fresh s) Hd) as [l [E [T S]]].
  unfold execute in *. cbn [has_tx_callbacks] in *. rewrite Hd in *.
  rewrite main_dry_log by exact Hd. reflexivity.
Qed.

Lemma op_dry : forall c intx k b s, c_dry c = true ->
  txext intx s (execute (op_cfg c intx) k b (fresh s)).
Proof.
  intros c intx k b s Hd.
  apply (txext_trans intx s (fresh s)); [apply txext_refl; reflexivity|].
  apply (quiet_txext (op_cfg c intx)).
  - intro H. unfold op_cfg. cbn [c_skip]. rewrite H. apply orb_true_r.
  - apply execute_dry_quiet. exact Hd.
Qed.

Definition step_dry (c : cfg) (t : tstep) : Prop :=
  forall intx st, txext intx (ts st) (ts (run_step c intx t st)).

Lemma steps_dry : forall c l, Forall (step_dry c) l ->
  forall intx st, txext intx (ts st) (ts (run_steps c intx l st)).
Proof.
  intros c l H. induction H as [|t r Ht Hr IH]; intros intx st; [apply txext_refl; reflexivity|].
  cbn [run_steps]. cbv zeta. destruct (r_err (ts (run_step c intx t st))); [apply Ht|].
  eapply txext_trans; [apply Ht | apply IH].
Qed.

Lemma step_dry_all : forall c t, c_dry c = true -> step_dry c t.
Proof.
  intros c t Hd. induction t as [k b|n|n|f sw body IH] using tstep_ind'; intros intx st.
  - cbn [run_step ts]. eapply txext_trans; [apply (op_dry c intx k b (ts st) Hd)|].
    apply txext_refl. reflexivity.
  - cbn [run_step ts]. apply txext_refl. apply raw_exec_dry. exact Hd.
  - cbn [run_step ts]. apply txext_refl. apply raw_exec_dry. exact Hd.
  - rewrite run_step_block. destruct intx.
    + cbv zeta.
      match goal with |- context [run_steps c true body ?st0] =>
        pose proof (steps_dry c body IH true st0) as B; set (st2 := run_steps c true body st0) in * end.
      cbn [ts] in B.
      assert (E0 : txext true (ts st) (ts st2)).
      { eapply txext_trans; [|exact B]. apply txext_refl. apply raw_exec_dry. exact Hd. }
      eapply txext_trans; [exact E0|]. apply txext_refl. cbn [ts keep_err r_log].
      destruct (r_err (ts st2) || f); [apply raw_exec_dry; exact Hd | reflexivity].
    + unfold call. cbn [fresh r_or r_log].
      set (d := match r_or (ts st) with d :: _ => d | [] => ok_res end).
      destruct (d_err d).
      * cbn [ts keep_err]. exists [EBegin]. cbn [r_log]. repeat split. discriminate.
      * cbv zeta.
        match goal with |- context [run_steps c true body ?st0] =>
          pose proof (steps_dry c body IH true st0) as B; set (st2 := run_steps c true body st0) in * end.
        cbn [ts] in B. destruct B as [l [E [T S]]]. rewrite (S eq_refl), app_nil_r in E. cbn [r_log] in E.
        set (e := r_err (ts st2) || f).
        exists [EBegin; if e then ERollback else ECommit].
        cbn [fst ts keep_err r_log]. rewrite E. rewrite <- app_assoc. cbn [app].
        split; [reflexivity|]. split; [destruct e; reflexivity | discriminate].
Qed.

Lemma script_dry_txext : forall c encl l s0, c_dry c = true ->
  txext false s0 (ts (run_script c encl l s0)).
Proof.
  intros c encl l s0 Hd. unfold run_script. destruct encl.
  - unfold call. set (d := match r_or s0 with d :: _ => d | [] => ok_res end).
    destruct (d_err d).
    + cbn [ts set_err]. exists [EBegin]. cbn [r_log]. repeat split. discriminate.
    + match goal with |- context [run_steps c true l ?st0] =>
        pose proof (steps_dry c l (proj2 (Forall_forall _ _) (fun t _ => step_dry_all c t Hd)) true st0) as B;
        set (st2 := run_steps c true l st0) in * end.
      cbn [ts] in B. destruct B as [l' [E [T S]]]. rewrite (S eq_refl), app_nil_r in E. cbn [r_log] in E.
      exists [EBegin; ERollback]. cbn [ts keep_err r_log fst]. rewrite E, <- app_assoc. cbn [app].
      repeat split. discriminate.
  - exact (steps_dry c l (proj2 (Forall_forall _ _) (fun t _ => step_dry_all c t Hd)) false (mk_tst s0 0 [])).
Qed.

Lemma script_dry_silent : forall skip encl l orc,
  forallb is_tx_event (r_log (ts (run_script (dry_cfg skip) encl l (rst0 orc)))) = true.
Proof.
  intros. destruct (script_dry_txext (dry_cfg skip) encl l (rst0 orc) eq_refl) as [l' [E [T _]]].
  rewrite E. exact T.
Qed.

(* a dry handle that is already inside a transaction: blocks, savepoints and operations on it make no
   driver call at all (whatever SkipDefaultTransaction says) *)
Lemma steps_in_tx_dry_silent : forall c l st, c_dry c = true ->
  r_log (ts (run_steps c true l st)) = r_log (ts st).
Proof.
  intros c l st Hd.
  destruct (steps_dry c l (proj2 (Forall_forall _ _) (fun t _ => step_dry_all c t Hd)) true st) as [l' [E [_ S]]].
  rewrite E, (S eq_refl). apply app_nil_r.
Qed.

(* every operation of a dry script exposes what its builder built (operations that build) *)

