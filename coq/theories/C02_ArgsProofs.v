(* C02_ArgsProofs.v — BuildCondition's value loop loses nothing. *)
From Verif Require Import Base C02_Args.

(* a condition once built stays: the result extends the accumulator *)
Lemma bc_loop_extends : forall args n conds c,
  bc_loop n args conds = Some c -> exists ext, c = conds ++ ext.
Proof.
  induction args as [|a r IH]; intros n conds c H; cbn [bc_loop] in H.
  - inversion H. exists []. rewrite app_nil_r. reflexivity.
  - destruct a as [|ar|bl|ars|ars|fs|rs| | |m].
    + exact (IH _ _ _ H).
    + destruct (IH _ _ _ H) as [e ->]. rewrite <- app_assoc. eexists; reflexivity.
    + destruct (IH _ _ _ H) as [e ->]. rewrite <- app_assoc. eexists; reflexivity.
    + destruct (IH _ _ _ H) as [e ->]. rewrite <- app_assoc. eexists; reflexivity.
    + destruct (IH _ _ _ H) as [e ->]. rewrite <- app_assoc. eexists; reflexivity.
    + destruct (is_restricted fs).
      * inversion H. eexists; reflexivity.
      * destruct (IH _ _ _ H) as [e ->]. rewrite <- app_assoc. eexists; reflexivity.
    + destruct (existsb is_restricted rs).
      * inversion H. eexists; reflexivity.
      * destruct (IH _ _ _ H) as [e ->]. rewrite <- app_assoc. eexists; reflexivity.
    + destruct conds as [|x conds'].
      * destruct (IH _ _ _ H) as [e ->]. eexists; reflexivity.
      * exact (IH _ _ _ H).
    + destruct conds as [|x conds'].
      * destruct (IH _ _ _ H) as [e ->]. eexists; reflexivity.
      * exact (IH _ _ _ H).
    + destruct conds as [|x conds'].
      * destruct (n =? 1)%nat.
        -- destruct (0 <? m)%nat; inversion H. eexists; reflexivity.
        -- destruct (IH _ _ _ H) as [e ->]. eexists; reflexivity.
      * exact (IH _ _ _ H).
Qed.

(* bare keys after the first condition exists add nothing more: the one IN holds them all *)
Lemma bc_loop_bares_tail : forall k n x conds,
  bc_loop n (repeat ABare k) (x :: conds) = Some (x :: conds).
Proof. induction k as [|k IH]; intros; cbn [repeat bc_loop]; [reflexivity | apply IH]. Qed.

(* k >= 1 bare key values given as separate arguments: ONE condition over all k of them *)
Lemma keys_complete : forall k, bc_args (repeat ABare (S k)) = [S k].
Proof.
  intro k. unfold bc_args. rewrite repeat_length. cbn [repeat bc_loop].
  rewrite bc_loop_bares_tail. reflexivity.
Qed.

(* a single slice of keys: one condition over all its elements, none for an empty slice *)
Lemma key_slice_complete : forall n, bc_args [ABares n] = if (0 <? n)%nat then [n] else [].
Proof. intro n. unfold bc_args. cbn. destruct n; reflexivity. Qed.

(* maps: one condition per entry, whatever the values (blank strings, zero numbers, nil) *)
Lemma mapss_complete : forall blanks, bc_args [AMapSS blanks] = map (fun _ => 1%nat) blanks.
Proof. intro b. unfold bc_args. cbn. reflexivity. Qed.
Lemma mapsi_complete : forall ars, bc_args [AMapSI ars] = ars.
Proof. intro a. unfold bc_args. cbn. reflexivity. Qed.
Lemma mapii_complete : forall ars, bc_args [AMapII ars] = ars.
Proof. intro a. unfold bc_args. cbn. reflexivity. Qed.

(* a struct followed by selected column names: exactly the selected fields, zero or not *)
Lemma struct_conds_length : forall restricted fs,
  length (struct_conds restricted fs) =
  length (filter (fun f => (gf_selected f || (negb restricted && gf_readable f)) && (negb (gf_zero f) || gf_selected f)) fs).
Proof.
  intros restricted fs. unfold struct_conds. induction fs as [|f fs IH]; [reflexivity|].
  cbn [flat_map filter]. destruct ((gf_selected f || (negb restricted && gf_readable f)) && (negb (gf_zero f) || gf_selected f)).
  - cbn [app length]. rewrite IH. reflexivity.
  - cbn [app]. exact IH.
Qed.
(* a struct with selected columns (strs = the column names that follow it): exactly the selected
   fields, zero values included, whatever follows *)
Lemma struct_selected : forall fs strs, is_restricted fs = true ->
  length (bc_args (AStruct fs :: strs)) = length (filter gf_selected fs).
Proof.
  intros fs strs Er. unfold bc_args. cbn [bc_loop app]. rewrite Er.
  rewrite struct_conds_length. f_equal. apply filter_ext. intro f.
  cbn [negb andb]. rewrite Bool.orb_false_r.
  destruct (gf_selected f), (gf_zero f); reflexivity.
Qed.
(* a struct alone: exactly its readable non-zero fields *)
Lemma struct_plain : forall fs, is_restricted fs = false ->
  length (bc_args [AStruct fs]) = length (filter (fun f => gf_readable f && negb (gf_zero f)) fs).
Proof.
  intros fs Er. unfold bc_args. cbn [bc_loop app]. rewrite Er.
  rewrite struct_conds_length. f_equal. apply filter_ext_in. intros f Hin.
  assert (Hf : gf_selected f = false).
  { unfold is_restricted in Er. destruct (gf_selected f) eqn:E; [|reflexivity].
    assert (existsb gf_selected fs = true) by (apply existsb_exists; exists f; auto). congruence. }
  rewrite Hf. cbn [negb orb andb]. rewrite Bool.orb_false_r. reflexivity.
Qed.

(* C09's first sentence on the level of Go values: one value builds no condition exactly when it
   is nil, an empty map, an all-zero struct without selected columns, a slice of such, or an empty
   slice of keys *)
Lemma single_empty_iff : forall a, bc_args [a] = [] <-> arg_empty a = true.
Proof.
  intro a. unfold bc_args. destruct a as [|ar|bl|ars|ars|fs|rs| | |m]; cbn [length bc_loop app arg_empty].
  - split; reflexivity.
  - split; discriminate.
  - destruct bl; cbn; split; try reflexivity; discriminate.
  - destruct ars; split; try reflexivity; discriminate.
  - destruct ars; split; try reflexivity; discriminate.
  - destruct (is_restricted fs); destruct (struct_conds _ fs); split; try reflexivity; discriminate.
  - destruct (existsb is_restricted rs); destruct (flat_map _ rs); split; try reflexivity; discriminate.
  - split; discriminate.
  - split; discriminate.
  - cbn. destruct m; cbn; split; try reflexivity; discriminate.
Qed.
