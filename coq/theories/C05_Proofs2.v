(* C05_Proofs2.v — a whole operation (a sequence of pipelines). *)
From Verif Require Import Base C05_Model C05_Check C05_Proofs.

Definition total_stmts (ps : list pipeline) : nat := fold_right (fun b n => (nstmts b + n)%nat) 0%nat ps.

Section Op.
Variable dfault : nat -> bool.
Variable hfault : nat -> bool.

Lemma err_stop_dec : forall s, (s_err s = [] <-> s_stop s = false) -> s_stop s = true -> s_err s <> [].
Proof. intros s [H1 _] Hs He. rewrite (H1 He) in Hs. discriminate. Qed.

Lemma op_gen : forall pipes s, (s_err s = [] <-> s_stop s = false) ->
  let s' := fold_left (run_pipe dfault hfault) pipes s in
  s_open s' = s_open s /\ (ErrInv s -> ErrInv s') /\ s_sid s' = (s_sid s + total_stmts pipes)%nat
  /\ (s_err s' = [] <-> s_stop s' = false)
  /\ (s_stop s = true -> s_err s' = s_err s /\ s_db s' = s_db s /\ s_commits s' = s_commits s /\ s_out s' = s_out s)
  /\ exists j, s_commits s' = (s_commits s + j)%nat /\ (j <= length pipes)%nat
       /\ s_db s' = s_db s ++ seq (s_sid s) (total_stmts (firstn j pipes))
       /\ (s_err s' = [] -> j = length pipes)
       /\ (s_err s' <> [] -> s_stop s = false -> (j < length pipes)%nat).
Proof.
  induction pipes as [|b ps IH]; intros s Hes; cbn [fold_left].
  - cbn. rewrite Nat.add_0_r. repeat split; auto; try apply Hes.
    exists 0%nat. cbn. rewrite Nat.add_0_r, app_nil_r. repeat split; auto.
    intros He Hs. destruct Hes as [_ H2]. contradiction (He (H2 Hs)).
  - destruct (s_stop s) eqn:Hstop.
    + (* already stopped *)
      assert (Hne : s_err s <> []) by (intro K; destruct Hes as [Q _]; discriminate (Q K)).
      destruct (pipe_stopped dfault hfault s b Hstop) as (A1 & A2 & A3 & A4 & A5 & A6 & A7).
      set (s1 := run_pipe dfault hfault s b) in *.
      assert (Hes1 : s_err s1 = [] <-> s_stop s1 = false).
      { rewrite A3, A4. split; intro H; [contradiction (Hne H) | discriminate]. }
      destruct (IH s1 Hes1) as (B1 & B2 & B3 & B4 & B5 & j & C1 & C2 & C3 & C4 & C5). cbv zeta.
      destruct (B5 A4) as (D1 & D2 & D3 & D4).
      split; [congruence|].
      split. { intro H. apply B2. unfold ErrInv in *. rewrite A3, A7. exact H. }
      split. { rewrite B3, A2. cbn [total_stmts fold_right]. fold (total_stmts ps). lia. }
      split; [exact B4|].
      split. { intros _. repeat split; congruence. }
      exists 0%nat. cbn [firstn total_stmts fold_right seq]. rewrite app_nil_r, Nat.add_0_r.
      split; [congruence|]. split; [lia|]. split; [congruence|].
      split. { intro H. rewrite D1, A3 in H. contradiction (Hne H). }
      intros _ K; discriminate.
    + assert (Herr : s_err s = []) by (apply Hes; reflexivity).
      destruct (pipe_facts dfault hfault s b Hstop Herr) as (A1 & A2 & A3 & A4).
      set (s1 := run_pipe dfault hfault s b) in *.
      destruct A4 as [(E1 & E2 & E3 & E4) | (E1 & E2 & E3 & E4)].
      * (* committed: go on *)
        assert (Hes1 : s_err s1 = [] <-> s_stop s1 = false) by (split; intros _; assumption).
        destruct (IH s1 Hes1) as (B1 & B2 & B3 & B4 & B5 & j & C1 & C2 & C3 & C4 & C5). cbv zeta.
        split; [congruence|]. split; [auto|].
        split. { rewrite B3, A2. cbn [total_stmts fold_right]. fold (total_stmts ps). lia. }
        split; [exact B4|]. split; [intro K; discriminate|].
        exists (S j). cbn [firstn length total_stmts fold_right]. fold (total_stmts (firstn j ps)).
        split; [lia|]. split; [lia|].
        split. { rewrite C3, E3, A2, <- app_assoc, <- seq_app. reflexivity. }
        split. { intro H. rewrite (C4 H). reflexivity. }
        intros H _. specialize (C5 H E2). lia.
      * (* failed: nothing more happens *)
        assert (Hes1 : s_err s1 = [] <-> s_stop s1 = false).
        { split; intro H; [contradiction (E1 H) | rewrite E2 in H; discriminate]. }
        destruct (IH s1 Hes1) as (B1 & B2 & B3 & B4 & B5 & j & C1 & C2 & C3 & C4 & C5). cbv zeta.
        destruct (B5 E2) as (D1 & D2 & D3 & D4).
        split; [congruence|]. split; [auto|].
        split. { rewrite B3, A2. cbn [total_stmts fold_right]. fold (total_stmts ps). lia. }
        split; [exact B4|]. split; [intro K; discriminate|].
        exists 0%nat. cbn [firstn total_stmts fold_right seq length]. rewrite app_nil_r, Nat.add_0_r.
        split; [congruence|]. split; [lia|]. split; [congruence|].
        split. { intro H. rewrite D1 in H. contradiction (E1 H). }
        intros _ _. lia.
Qed.

(* THE OPERATION: the durable statements are exactly those of the pipelines that committed,
   which are a prefix of the operation; Error is nil iff every pipeline committed; Error is the
   accumulation of the failed events; no transaction is left open *)
Theorem op_spec : forall pipes db0, let s := run_op dfault hfault pipes db0 in
  s_open s = 0%Z
  /\ s_err s = map ev_errk (filter ev_failed (rev (s_out s)))
  /\ s_db s = db0 ++ seq 0 (total_stmts (firstn (s_commits s) pipes))
  /\ (s_commits s <= length pipes)%nat
  /\ (s_err s = [] -> s_commits s = length pipes)
  /\ (s_err s <> [] -> (s_commits s < length pipes)%nat).
Proof.
  intros pipes db0. unfold run_op.
  assert (H0 : s_err (init_st db0) = [] <-> s_stop (init_st db0) = false) by (split; reflexivity).
  destruct (op_gen pipes (init_st db0) H0) as (B1 & B2 & B3 & B4 & B5 & j & C1 & C2 & C3 & C4 & C5). cbv zeta.
  cbn [init_st s_open s_commits s_db s_sid] in *. cbn [Nat.add] in C1. rewrite C1.
  split; [exact B1|]. split; [apply B2; reflexivity|]. split; [exact C3|]. split; [exact C2|].
  split; [exact C4|]. intro H; apply C5; [exact H | reflexivity].
Qed.

(* ALL OR NOTHING for an operation that is one pipeline (every operation except Save's
   fall-back): nothing failed and every statement is durable, or Error is set and the database
   is exactly as it was *)
Theorem single_pipeline_all_or_nothing : forall b db0, let s := run_op dfault hfault [b] db0 in
  (s_err s = [] /\ s_db s = db0 ++ seq 0 (nstmts b)) \/ (s_err s <> [] /\ s_db s = db0).
Proof.
  intros b db0. destruct (op_spec [b] db0) as (_ & _ & A3 & A4 & A5 & A6). cbv zeta in *.
  set (s := run_op dfault hfault [b] db0) in *.
  destruct (s_err s) as [|x l] eqn:Ee.
  - left. split; [reflexivity|]. rewrite A3, (A5 eq_refl). cbn. rewrite Nat.add_0_r. reflexivity.
  - right. split; [discriminate|]. rewrite A3.
    assert (K : (s_commits s < 1)%nat) by (apply A6; discriminate).
    assert (K0 : s_commits s = 0%nat) by lia. rewrite K0. cbn. apply app_nil_r.
Qed.

Lemma last_map : forall (A B : Type) (f : A -> B) l d d', l <> [] -> last (map f l) d = f (last l d').
Proof.
  intros A B f l d d' H. induction l as [|x l IH]; [contradiction H; reflexivity|].
  destruct l as [|y l]; [reflexivity|]. cbn [map last] in *. apply IH. discriminate.
Qed.

(* THE FAILURE IS REPORTED: Error is non-nil iff some event failed, and then errors.Is finds the
   last failed event's error (the injected fault, or the hook's error) *)
Theorem error_reported : forall pipes db0, let s := run_op dfault hfault pipes db0 in
  let failed := filter ev_failed (rev (s_out s)) in
  (failed = [] -> s_err s = []) /\
  (failed <> [] -> s_err s <> [] /\ last (s_err s) XNil = ev_errk (last failed EMark)).
Proof.
  intros pipes db0. destruct (op_spec pipes db0) as (_ & A2 & _). cbv zeta in *.
  set (s := run_op dfault hfault pipes db0) in *. split.
  - intro H. rewrite A2, H. reflexivity.
  - intro H. split.
    + rewrite A2. intro K. apply H. destruct (filter ev_failed (rev (s_out s))); [reflexivity | discriminate].
    + rewrite A2. apply last_map. exact H.
Qed.

End Op.

(* REFUTED for two pipelines (Save of a record with a preset key that matches no row): a failure
   in the second pipeline leaves the first one's statements durable *)
Lemma two_pipelines_witness :
  exists pipes k, let s := run_op (fault_at (Some k)) (fault_at None) pipes [] in
    s_err s <> [] /\ s_db s <> [] /\ s_db s <> seq 0 (total_stmts pipes) /\ s_open s = 0%Z.
Proof.
  exists [[EOp DStmt false; EOp DStmt false]; [EOp DStmt false; EOp DStmt false]], 6%nat.
  vm_compute. repeat split; discriminate.
Qed.

(* the checker's specification half, evaluated on the model's own output (one pipeline):
   "final dump = dump after the j-th COMMIT" becomes equality of the durable statement sets *)
Definition match_of (s : st) (db0 : list nat) (pipes : list pipeline) : list bool :=
  map (fun j => list_eqb Nat.eqb (s_db s) (db0 ++ seq 0 (total_stmts (firstn j pipes)))) (seq 0 (S (length pipes))).

Lemma nat_list_eqb_refl : forall l, list_eqb Nat.eqb l l = true.
Proof. intro l. apply (list_eqb_spec Nat.eqb Nat.eqb_eq). reflexivity. Qed.
Lemma errk_eqb_refl : forall e, errk_eqb e e = true.
Proof. intros []; reflexivity. Qed.

Theorem spec_holds_model : forall dfault hfault b db0 free df hf,
  let s := run_op dfault hfault [b] db0 in
  spec_holds (mk_case free df hf false (rev (s_out s)) (last (s_err s) XNil) false
                      (match_of s db0 [b]) 0%Z (s_open s) false) = true.
Proof.
  intros dfault hfault b db0 free df hf. cbv zeta.
  destruct (op_spec dfault hfault [b] db0) as (A1 & _).
  destruct (error_reported dfault hfault [b] db0) as (R1 & R2).
  destruct (single_pipeline_all_or_nothing dfault hfault b db0) as [[E1 E2] | [E1 E2]]; cbv zeta in *;
    set (s := run_op dfault hfault [b] db0) in *;
    unfold spec_holds; cbn [o_in_use o_open_tx o_evs o_err o_match c_pre c_natural]; rewrite A1; cbn [Z.eqb andb];
    unfold match_of; cbn [length seq map firstn total_stmts fold_right last nth].
  - (* nothing failed *)
    destruct (filter ev_failed (rev (s_out s))) as [|e fl] eqn:Ef.
    + rewrite E1. cbn [last]. rewrite E2, Nat.add_0_r, nat_list_eqb_refl. reflexivity.
    + destruct (R2 ltac:(discriminate)) as [K _]. contradiction (K E1).
  - destruct (filter ev_failed (rev (s_out s))) as [|e fl] eqn:Ef.
    + contradiction (E1 (R1 eq_refl)).
    + destruct (R2 ltac:(discriminate)) as [_ K]. rewrite K, errk_eqb_refl, E2, app_nil_r, nat_list_eqb_refl. reflexivity.
Qed.

(* THE GUARD DISCIPLINE: once db.Error is set, the rest of the body issues no driver operation *)
Lemma body_silent : forall dfault hfault b s, s_err s <> [] ->
  s_nops (fold_left (step dfault hfault) b s) = s_nops s /\ s_work (fold_left (step dfault hfault) b s) = s_work s.
Proof.
  intros dfault hfault b; induction b as [|e b IH]; intros s Hne; cbn [fold_left]; [split; reflexivity|].
  destruct (step_facts dfault hfault s e) as [_ _ _ _ _ Hm _ _].
  destruct (IH _ (Hm Hne)) as [I1 I2]. rewrite I1, I2.
  destruct e as [[| | |] f | f |]; cbn [step]; try (split; reflexivity).
  - destruct (s_err s) as [|x l]; [contradiction Hne; reflexivity|]. cbn. split; reflexivity.
  - destruct (s_live s); [|split; reflexivity]. cbn. split; reflexivity.
Qed.

Lemma tx_closed : forall dfault hfault pipes db0, s_open (run_op dfault hfault pipes db0) = 0%Z.
Proof. intros dfault hfault pipes db0. exact (proj1 (op_spec dfault hfault pipes db0)). Qed.
