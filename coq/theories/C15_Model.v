(* C15_Model.v — read paths and FindInBatches.
   Modelled code: clause/limit.go (Limit.Build, Limit.MergeClause),
   chainable_api.go (Limit, Offset), finisher_api.go (First/Take/Last prologues,
   Count, FindInBatches loop).  No proofs here. *)
From Verif Require Import Base.
Open Scope Z_scope.

(* ---- LIMIT clause state: clause.Limit{Limit *int; Offset int} ---- *)
Record lstate := { lim : option Z; off : Z }.
Definition l_empty := {| lim := None; off := 0 |}.

(* Limit.MergeClause: [new] is the receiver, [old] the expression already in the clause *)
Definition limit_merge (new old : lstate) : lstate :=
  let l := match new.(lim), old.(lim) with
           | None, Some v => Some v
           | Some 0, Some v => Some v
           | n, _ => n
           end in
  let o := if (new.(off) =? 0) && (0 <? old.(off)) then old.(off)
           else if new.(off) <? 0 then 0 else new.(off) in
  {| lim := l; off := o |}.

Inductive lop := OLimit (n : Z) | OOffset (n : Z).

(* Statement.AddClause: the first LIMIT clause is stored unmerged (no previous expression) *)
Definition apply_lop (st : option lstate) (o : lop) : option lstate :=
  let new := match o with
             | OLimit n => {| lim := Some n; off := 0 |}
             | OOffset n => {| lim := None; off := n |}
             end in
  match st with
  | None => Some new
  | Some old => Some (limit_merge new old)
  end.
Definition apply_lops (ops : list lop) : option lstate := fold_left apply_lop ops None.
Definition st_of (o : option lstate) : lstate := match o with Some s => s | None => l_empty end.

(* Limit.Build: what the rendered LIMIT/OFFSET mean *)
Definition eff_lim (s : lstate) : option Z :=
  match s.(lim) with Some l => if 0 <=? l then Some l else None | None => None end.
Definition eff_off (s : lstate) : Z := if 0 <? s.(off) then s.(off) else 0.

(* reference reading of the property text: "later positive Limit/Offset values override
   earlier ones and negative values cancel them" (zero is left unspecified by the text) *)
Definition ref_lim (ops : list lop) : option Z :=
  fold_left (fun acc o => match o with OLimit n => if 0 <? n then Some n else None | OOffset _ => acc end) ops None.
Definition ref_off (ops : list lop) : Z :=
  fold_left (fun acc o => match o with OOffset n => if 0 <? n then n else 0 | OLimit _ => acc end) ops 0.
Definition nonzero_ops (ops : list lop) : bool :=
  forallb (fun o => match o with OLimit n | OOffset n => negb (n =? 0) end) ops.
(* the text determines the reading as soon as the LAST Limit and the LAST Offset of the chain are
   not zero (earlier zeros are overridden or cancelled like any other earlier value) *)
Definition last_lim (ops : list lop) : option Z :=
  fold_left (fun acc o => match o with OLimit n => Some n | OOffset _ => acc end) ops None.
Definition last_off (ops : list lop) : option Z :=
  fold_left (fun acc o => match o with OOffset n => Some n | OLimit _ => acc end) ops None.
Definition nz (o : option Z) : bool := match o with Some n => negb (n =? 0) | None => true end.
Definition last_nonzero (ops : list lop) : bool := nz (last_lim ops) && nz (last_off ops).
Definition ref_state (ops : list lop) : lstate :=
  {| lim := ref_lim ops; off := ref_off ops |}.

(* ---- tables and queries ---- *)
(* a row is (id, v); [ms] is always the list of rows matching the chain's conditions *)
Definition row := (Z * Z)%type.
Definition rid (r : row) := fst r.

(* atoms of a chain of Where / Or / Not calls, and the calls that follow the first Where *)
Inductive acond := AMod (m r : Z) | AGt (k : Z) | ALt (k : Z) | AVGt (k : Z) | AIdEq (k : Z).
Inductive ckind := KWhere | KOr | KNot.
Definition acond_holds (a : acond) (r : row) : bool :=
  match a with
  | AMod m r0 => (rid r) mod m =? r0
  | AGt k => k <? rid r
  | ALt k => rid r <? k
  | AVGt k => k <? snd r
  | AIdEq k => rid r =? k
  end.
(* SQL reading of Where(a0).k1(a1).k2(a2)...: AND binds tighter than OR; [acc] is the value of the
   finished OR alternatives, [cur] the value of the AND group being read *)
Fixpoint seq_holds (l : list (ckind * acond)) (acc cur : bool) (r : row) : bool :=
  match l with
  | [] => acc || cur
  | (KWhere, a) :: t => seq_holds t acc (cur && acond_holds a r) r
  | (KNot, a) :: t => seq_holds t acc (cur && negb (acond_holds a r)) r
  | (KOr, a) :: t => seq_holds t (acc || cur) (acond_holds a r) r
  end.
Inductive cond := CAll | CMod (m r : Z) | CGt (k : Z) | CNone | COrModGt (m r k : Z)
                | CSeq (a : acond) (l : list (ckind * acond)).
Definition cond_holds (c : cond) (r : row) : bool :=
  match c with
  | CAll => true
  | CMod m r0 => (rid r) mod m =? r0
  | CGt k => k <? rid r
  | CNone => false
  | COrModGt m r0 k => ((rid r) mod m =? r0) || (k <? rid r)   (* Where(..).Or(..) *)
  | CSeq a l => seq_holds l false (acond_holds a r) r
  end.

(* an inline primary key given to a finder is one more Where call at the end of the chain *)
Definition with_key (c : cond) (k : Z) : cond :=
  match c with
  | CAll => CSeq (AIdEq k) []
  | CMod m r => CSeq (AMod m r) [(KWhere, AIdEq k)]
  | CGt g => CSeq (AGt g) [(KWhere, AIdEq k)]
  | CNone => CNone
  | COrModGt m r g => CSeq (AMod m r) [(KOr, AGt g); (KWhere, AIdEq k)]
  | CSeq a l => CSeq a (l ++ [(KWhere, AIdEq k)])
  end.

Inductive ordering := OrdNone | OrdIdAsc | OrdIdDesc | OrdVAsc.

Fixpoint insert_by (key : row -> Z) (x : row) (l : list row) : list row :=
  match l with
  | [] => [x]
  | y :: r => if key x <=? key y then x :: l else y :: insert_by key x r
  end.
Definition sort_by (key : row -> Z) (l : list row) : list row :=
  fold_right (insert_by key) [] l.

(* the table [tbl] is given in primary-key order (rowid order) *)
Definition ordered (o : ordering) (l : list row) : list row :=
  match o with
  | OrdNone | OrdIdAsc => l
  | OrdIdDesc => rev l
  | OrdVAsc => sort_by snd l
  end.

Definition window {A} (s : lstate) (l : list A) : list A :=
  let after := skipn (Z.to_nat (eff_off s)) l in
  match eff_lim s with
  | Some n => firstn (Z.to_nat n) after
  | None => after
  end.

Definition matches (c : cond) (tbl : list row) : list row := filter (cond_holds c) tbl.

(* Find / Rows+ScanRows / Scan / Find into maps: the same statement *)
Definition find (tbl : list row) (c : cond) (o : ordering) (s : lstate) : list row :=
  window s (ordered o (matches c tbl)).

(* Count drops nothing itself; it is compared only when no limit/offset is in the chain *)
Definition count (tbl : list row) (c : cond) : Z := Z.of_nat (length (matches c tbl)).

(* First: Order(pk).Limit(1) on top of the chain; Last: Order(pk desc).Limit(1);
   Take: Limit(1).  The chain ordering precedes the finisher's. *)
Definition limit1 (s : option lstate) : lstate := st_of (apply_lop s (OLimit 1)).
Definition first_ (tbl : list row) (c : cond) (o : ordering) (s : option lstate) : option row :=
  hd_error (window (limit1 s) (ordered o (matches c tbl))).
Definition last_ (tbl : list row) (c : cond) (o : ordering) (s : option lstate) : option row :=
  hd_error (window (limit1 s)
              (match o with
               | OrdNone => rev (matches c tbl)
               | _ => ordered o (matches c tbl)
               end)).
Definition take_ (tbl : list row) (c : cond) (o : ordering) (s : option lstate) : option row :=
  hd_error (window (limit1 s) (ordered o (matches c tbl))).

(* ---- FindInBatches (finisher_api.go), on the matching rows in key order ---- *)
Definition gt_cursor (cur : option Z) (r : row) : bool :=
  match cur with None => true | Some k => k <? rid r end.

Definition last_id (l : list row) : option Z :=
  match rev l with [] => None | r :: _ => Some (rid r) end.

Definition emit (res : list row) : list (list row) := match res with [] => [] | _ => [res] end.

(* one iteration: query = base state [q] with Limit(bs) merged on top, cursor condition added *)
Fixpoint fib_loop (fuel : nat) (ms : list row) (q tx : lstate) (cur : option Z)
         (bs total rows batch : Z) : option (list (list row)) :=
  match fuel with
  | O => None
  | S fuel' =>
    let qs := limit_merge {| lim := Some bs; off := 0 |} q in
    let res := window qs (filter (gt_cursor cur) ms) in
    let n := Z.of_nat (length res) in
    let rows' := rows + n in
    let batch' := batch + 1 in
    if n <? bs then Some (emit res)
    else if (0 <? total) && (total <=? rows') then Some (emit res)
    else
      let bs' := if (0 <? total) && (total / bs =? batch') then total mod bs else bs in
      match fib_loop fuel' ms tx tx (last_id res) bs' total rows' batch' with
      | Some rest => Some (emit res ++ rest)
      | None => None
      end
  end.

Definition find_in_batches (fuel : nat) (ms : list row) (st : option lstate) (bs : Z)
  : option (list (list row)) :=
  match st with
  | None => fib_loop fuel ms l_empty l_empty None bs 0 0 0
  | Some s =>
    if match s.(lim) with Some 0 => true | _ => false end then Some []   (* LIMIT 0: early return *)
    else
    let total := match s.(lim) with Some l => l | None => 0 end in
    let bs1 := if (0 <? total) && (total <? bs) then total else bs in
    let tx := limit_merge {| lim := None; off := -1 |} s in
    fib_loop fuel ms s tx None bs1 total 0 0
  end.

Definition fib_fuel (ms : list row) : nat := S (S (length ms)).
