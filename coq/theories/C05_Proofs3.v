(* C05_Proofs3.v — an operation called on a handle that already carries an error (a vetoing scope,
   AddError on the handle, an unparsable value ...): BeginTransaction's db.Error == nil guard. *)
From Verif Require Import Base C05_Model C05_Check C05_Proofs C05_Proofs2.

Section Pre.
Variable dfault : nat -> bool.
Variable hfault : nat -> bool.

Definition skip_to (s : st) (n : nat) : st :=
  mkSt (s_err s) false (s_stop s) (s_nops s) (s_nhooks s) n (s_work s) (s_db s) (s_commits s) (s_open s) (s_out s).

(* with db.Error set, no hook callback is live and every statement is guarded out: the body only
   passes its statements by *)
Lemma body_guarded : forall b s, s_err s <> [] -> s_live s = false ->
  fold_left (step dfault hfault) b s = skip_to s (s_sid s + nstmts b).
Proof.
  induction b as [|e b IH]; intros [err live stop nops nhooks sid work db commits open out] Hne Hl;
    cbn in Hne, Hl; subst live.
  - unfold skip_to, nstmts; cbn. rewrite Nat.add_0_r. reflexivity.
  - cbn [fold_left]. destruct err as [|x l]; [contradiction Hne; reflexivity|].
    destruct e as [[| | |] f|f|]; cbn [step is_nil s_err s_live s_stop s_nops s_nhooks s_sid s_work s_db s_commits s_open s_out];
      (rewrite IH; [|cbn; discriminate | reflexivity]); unfold skip_to, nstmts; cbn; f_equal; lia.
Qed.

Lemma pipe_pre : forall s b, s_stop s = false -> s_err s <> [] ->
  run_pipe dfault hfault s b
  = mkSt (s_err s) false true (s_nops s) (s_nhooks s) (s_sid s + nstmts b) (s_work s) (s_db s) (s_commits s) (s_open s) (s_out s).
Proof.
  intros s b Hstop Hne. unfold run_pipe. rewrite Hstop.
  destruct (s_err s) as [|x l] eqn:He; [contradiction Hne; reflexivity|]. cbn [is_nil negb].
  rewrite body_guarded; [|cbn; discriminate | reflexivity]. unfold skip_to; cbn. reflexivity.
Qed.

Lemma stopped_fold : forall r s, s_stop s = true ->
  let s' := fold_left (run_pipe dfault hfault) r s in
  s_out s' = s_out s /\ s_nops s' = s_nops s /\ s_nhooks s' = s_nhooks s /\ s_db s' = s_db s
  /\ s_commits s' = s_commits s /\ s_open s' = s_open s /\ s_err s' = s_err s.
Proof.
  induction r as [|b r IH]; intros s H; cbn [fold_left]; [repeat split; reflexivity|].
  assert (E : run_pipe dfault hfault s b
              = mkSt (s_err s) (s_live s) true (s_nops s) (s_nhooks s) (s_sid s + nstmts b) (s_work s) (s_db s) (s_commits s) (s_open s) (s_out s))
    by (unfold run_pipe; rewrite H; reflexivity).
  rewrite E. match goal with |- context [fold_left _ r ?sx] => destruct (IH sx eq_refl) as (A1 & A2 & A3 & A4 & A5 & A6 & A7) end.
  cbv zeta in *. rewrite A1, A2, A3, A4, A5, A6, A7. repeat split; reflexivity.
Qed.

(* REFUSED BEFORE IT STARTED: whatever the operation (any pipelines), whatever faults are armed: no
   driver operation (no BEGIN, no statement), no hook, the database as it was, nothing open, and the
   result's Error is the error the handle carried *)
Theorem failed_before_start : forall pre pipes db0, pre <> [] ->
  let s := run_op_pre dfault hfault pre pipes db0 in
  s_out s = [] /\ s_nops s = 0%nat /\ s_nhooks s = 0%nat /\ s_db s = db0 /\ s_commits s = 0%nat
  /\ s_open s = 0%Z /\ s_err s = pre.
Proof.
  intros pre pipes db0 Hne. unfold run_op_pre. destruct pipes as [|b r]; cbn [fold_left].
  - repeat split; reflexivity.
  - rewrite (pipe_pre (init_pre pre db0) b eq_refl Hne).
    apply stopped_fold. reflexivity.
Qed.

(* the checker's specification half for such a case, on the model's own output *)
Theorem pre_spec_holds_model : forall pipes db0 free df hf,
  let s := run_op_pre dfault hfault [XPre] pipes db0 in
  spec_holds (mk_case free df hf false (rev (s_out s)) (last (s_err s) XNil) false
                      (match_of s db0 pipes) 0%Z (s_open s) true) = true.
Proof.
  intros pipes db0 free df hf. cbv zeta.
  destruct (failed_before_start [XPre] pipes db0 ltac:(discriminate)) as (A1 & A2 & A3 & A4 & A5 & A6 & A7).
  cbv zeta in *. unfold spec_holds; cbn [o_in_use o_open_tx o_evs o_err o_match c_pre c_natural].
  rewrite A6, A7. cbn [Z.eqb andb last]. unfold match_of. cbn [seq map nth firstn total_stmts fold_right].
  rewrite A4, app_nil_r, nat_list_eqb_refl. reflexivity.
Qed.
End Pre.
