(* C01_ShapeCond.v — Statement.BuildCondition commutes with the erasure of values: conditions given
   with the same shape (templates, identifiers, list lengths and kinds, nil-ness; any values) are built
   into condition trees of the same shape.  With c01_text_value_independent: the SQL text of a
   condition is a function of the shape of the arguments as GIVEN, not only of the built tree. *)
From Verif Require Import Base C01_Model C01_Stmt C01_Spec C01_Ind C01_Proofs8 C01_Proofs9.

Lemma map_idem : forall l, Forall (fun v => shape (shape v) = shape v) l -> map shape (map shape l) = map shape l.
Proof. intros l H. induction H as [|x r Hx Hr IH]; [reflexivity|]. cbn [map]. rewrite Hx, IH. reflexivity. Qed.

Lemma shape_idem : forall v, shape (shape v) = shape v.
Proof.
  induction v using val_ind'; cbn [shape]; rewrite ?shape_scalar_idem;
    repeat match goal with
           | H : Forall _ _ |- _ => rewrite (map_idem _ H); clear H
           | H : shape (shape _) = shape _ |- _ => rewrite H; clear H
           end; reflexivity.
Qed.
Lemma map_shape_idem : forall l, map shape (map shape l) = map shape l.
Proof. intro l. apply map_idem. apply Forall_forall. intros x _. apply shape_idem. Qed.

Lemma is_expression_shape : forall v, is_expression (shape v) = is_expression v.
Proof. destruct v; reflexivity. Qed.
Lemma is_or_shape : forall v, is_or (shape v) = is_or v.
Proof. destruct v; reflexivity. Qed.

Lemma mk_and_shape : forall l, map shape (olist (mk_and l)) = olist (mk_and (map shape l)).
Proof.
  intros [|x [|y r]]; [reflexivity| |reflexivity].
  cbn [map mk_and]. rewrite is_or_shape. destruct (is_or x); reflexivity.
Qed.

Lemma bytes_elems_shape : forall l,
  map shape (map (fun c => VS (SInt (Z.of_N (ccode c)))) l)
  = map shape (map (fun c => VS (SInt (Z.of_N (ccode c)))) (map (fun _ => "000"%char) l)).
Proof. intro l. rewrite !map_map. reflexivity. Qed.

Lemma slice_elems_shape : forall v,
  option_map (map shape) (slice_elems (shape v)) = option_map (map shape) (slice_elems v).
Proof.
  destruct v; try reflexivity.
  - destruct s; try reflexivity. cbn [shape shape_scalar slice_elems option_map].
    rewrite s2l_l2s. f_equal. symmetry. apply bytes_elems_shape.
  - cbn [shape slice_elems option_map]. rewrite map_shape_idem. reflexivity.
Qed.

Lemma key_elems_shape : forall v,
  option_map (map shape) (key_elems (shape v)) = option_map (map shape) (key_elems v).
Proof.
  destruct v; try reflexivity. cbn [shape key_elems option_map]. rewrite map_shape_idem. reflexivity.
Qed.

Lemma map_entry_cond_shape : forall x, map shape (map_entry_cond (shape x)) = map shape (map_entry_cond x).
Proof.
  destruct x; try reflexivity. cbn [shape map_entry_cond].
  destruct x; try (cbn [shape map_entry_cond slice_elems map]; rewrite ?shape_scalar_idem, ?map_shape_idem, ?shape_idem; reflexivity).
  - (* VS *) destruct s; cbn [shape shape_scalar map_entry_cond slice_elems map]; try reflexivity.
    rewrite s2l_l2s, map_map. reflexivity.
  - (* VList *) match goal with k : lkind |- _ => destruct k end; cbn [shape map_entry_cond slice_elems map]; rewrite ?map_shape_idem; reflexivity.
Qed.
Lemma struct_field_cond_shape : forall x, map shape (struct_field_cond (shape x)) = map shape (struct_field_cond x).
Proof.
  destruct x; try reflexivity. match goal with z : bool |- _ => destruct z end.
  - reflexivity.
  - cbn [shape struct_field_cond map]. rewrite shape_idem. reflexivity.
Qed.
Lemma flat_map_shape : forall (f : val -> list val) l,
  (forall x, map shape (f (shape x)) = map shape (f x)) ->
  map shape (flat_map f (map shape l)) = map shape (flat_map f l).
Proof.
  intros f l H. induction l as [|x r IH]; [reflexivity|].
  cbn [map flat_map]. rewrite !map_app, H, IH. reflexivity.
Qed.

Definition or_to_and (wh : list val) : list val := match wh with [VOr l'] => [VAnd l'] | _ => wh end.
Lemma or_to_and_shape : forall wh, or_to_and (map shape wh) = map shape (or_to_and wh).
Proof. intros [|w [|w' ws]]; try reflexivity; destruct w; reflexivity. Qed.

(* one turn of the loop of BuildCondition *)
Definition cond_step (nargs : nat) (all : list val) (a : val) (conds : list val) : list val :=
  let a' := match a with VDrv s => VS s | _ => a end in
  match a' with
  | VS SNull => conds
  | VSubN _ _ wh =>
    match wh with
    | [] => conds
    | _ => conds ++ olist (mk_and (or_to_and wh))
    end
  | VRawSub _ _ => conds
  | VMapCond es => conds ++ flat_map map_entry_cond es
  | VStructCond fs => conds ++ flat_map struct_field_cond fs
  | _ =>
    if is_expression a' then conds ++ [a']
    else match conds with
         | _ :: _ => conds
         | [] =>
           match (if (nargs =? 1)%nat then key_elems a' else None) with
           | Some [] => []
           | Some vs => [VIn primary_column vs]
           | None => [VIn primary_column all]
           end
         end
  end.
Lemma gen_conds_step : forall n all a r conds,
  gen_conds n all (a :: r) conds = gen_conds n all r (cond_step n all a conds).
Proof. reflexivity. Qed.

Lemma key_arm_shape : forall n all a conds, 
  map shape (match conds with
             | _ :: _ => conds
             | [] => match (if (n =? 1)%nat then key_elems a else None) with
                     | Some [] => []
                     | Some vs => [VIn primary_column vs]
                     | None => [VIn primary_column all]
                     end
             end)
  = map shape (match map shape conds with
               | _ :: _ => map shape conds
               | [] => match (if (n =? 1)%nat then key_elems (shape a) else None) with
                       | Some [] => []
                       | Some vs => [VIn primary_column vs]
                       | None => [VIn primary_column (map shape all)]
                       end
               end).
Proof.
  intros n all a conds. destruct conds as [|c cs]; [|cbn [map]; rewrite shape_idem, map_shape_idem; reflexivity].
  cbn [map]. destruct (n =? 1)%nat; [|cbn [map shape]; rewrite map_shape_idem; reflexivity].
  pose proof (key_elems_shape a) as E.
  destruct (key_elems a) as [[|x l]|], (key_elems (shape a)) as [[|x' l']|]; cbn [option_map map] in E;
    try discriminate E; try reflexivity.
  - cbn [map shape]. inversion E as [[E1 E2]]. rewrite E1, E2. reflexivity.
  - cbn [map shape]. rewrite map_shape_idem. reflexivity.
Qed.

Lemma cond_step_shape : forall n all a conds,
  map shape (cond_step n all a conds) = map shape (cond_step n (map shape all) (shape a) (map shape conds)).
Proof.
  intros n all a conds.
  destruct a;
    try (unfold cond_step; cbn [shape is_expression]; first
           [ rewrite !map_app; cbn [map shape]; rewrite ?map_shape_idem, ?shape_idem, ?shape_scalar_idem; reflexivity
           | exact (key_arm_shape n all _ conds) ]).
  - (* VS *) destruct s; unfold cond_step; cbn [shape shape_scalar is_expression];
      try exact (key_arm_shape n all (VS _) conds). rewrite map_shape_idem. reflexivity.
  - (* VDrv *) destruct s; unfold cond_step; cbn [shape shape_scalar is_expression];
      try exact (key_arm_shape n all (VS _) conds). rewrite map_shape_idem. reflexivity.
  - (* VSubN *) unfold cond_step. cbn [shape].
    destruct wh as [|w ws]; [cbn [map]; rewrite map_shape_idem; reflexivity|].
    change (shape w :: map shape ws) with (map shape (w :: ws)). cbn [map].
    change (shape w :: map shape ws) with (map shape (w :: ws)).
    rewrite !map_app, map_shape_idem, or_to_and_shape, <- mk_and_shape, map_shape_idem. reflexivity.
  - (* VRawSub *) unfold cond_step. cbn [shape]. rewrite map_shape_idem. reflexivity.
  - (* VMapCond *) unfold cond_step. cbn [shape]. rewrite !map_app, map_shape_idem.
    rewrite (flat_map_shape map_entry_cond l map_entry_cond_shape). reflexivity.
  - (* VStructCond *) unfold cond_step. cbn [shape]. rewrite !map_app, map_shape_idem.
    rewrite (flat_map_shape struct_field_cond l struct_field_cond_shape). reflexivity.
Qed.

Lemma map_shape_eq_step : forall n all a c1 c2, map shape c1 = map shape c2 ->
  map shape (cond_step n all a c1) = map shape (cond_step n all a c2).
Proof.
  intros n all a c1 c2 E. rewrite (cond_step_shape n all a c1), (cond_step_shape n all a c2), E. reflexivity.
Qed.

Lemma gen_conds_same_shape : forall n all l c1 c2, map shape c1 = map shape c2 ->
  map shape (gen_conds n all l c1) = map shape (gen_conds n all l c2).
Proof.
  intros n all l. induction l as [|b q IHq]; intros c1 c2 E; [exact E|].
  rewrite !gen_conds_step. apply IHq. apply map_shape_eq_step. exact E.
Qed.

Lemma gen_conds_shape : forall n all l conds,
  map shape (gen_conds n all l conds) = map shape (gen_conds n (map shape all) (map shape l) (map shape conds)).
Proof.
  intros n all l. induction l as [|a r IH]; intro conds.
  - cbn [gen_conds map]. rewrite map_shape_idem. reflexivity.
  - cbn [map]. rewrite !gen_conds_step, IH.
    apply gen_conds_same_shape. rewrite map_shape_idem. apply cond_step_shape.
Qed.

(* Statement.BuildCondition *)
Lemma build_condition_shape : forall q args,
  map shape (build_condition q args) = map shape (build_condition (shape q) (map shape args)).
Proof.
  intros q args.
  assert (Gn : map shape (olist (mk_and (gen_conds (length (q :: args)) (q :: args) (q :: args) [])))
               = map shape (olist (mk_and (gen_conds (length (shape q :: map shape args)) (shape q :: map shape args)
                                                     (shape q :: map shape args) [])))).
  { rewrite !mk_and_shape. f_equal. f_equal.
    change (shape q :: map shape args) with (map shape (q :: args)). rewrite map_length.
    exact (gen_conds_shape (length (q :: args)) (q :: args) (q :: args) []). }
  unfold build_condition.
  destruct q; try exact Gn.
  (* a Go string: the template decides; it is not a value *)
  cbn [shape]. cbv zeta in Gn. cbn [shape] in Gn.
  assert (Ne : nonempty (map shape args) = nonempty args) by (destruct args; reflexivity).
  rewrite Ne.
  destruct (is_atoi (s2l s)); [exact Gn|].
  destruct (String.eqb s "" && negb (nonempty args)); [reflexivity|].
  destruct (negb (nonempty args) || contains_c "?" (s2l s)); [cbn [map shape]; rewrite map_shape_idem; reflexivity|].
  destruct (contains_c "@" (s2l s)); [cbn [map shape]; rewrite map_shape_idem; reflexivity|].
  destruct (contains_c " " (trim_space (s2l s))); [cbn [map shape]; rewrite map_shape_idem; reflexivity|].
  destruct args as [|a [|b r]]; try exact Gn.
  cbn [map shape]. rewrite shape_idem. reflexivity.
Qed.

(* conditions given with the same shape are built into conditions of the same shape *)
Lemma build_condition_same_shape : forall q args q' args',
  shape q = shape q' -> map shape args = map shape args' ->
  map shape (build_condition q args) = map shape (build_condition q' args').
Proof.
  intros q args q' args' E1 E2.
  rewrite (build_condition_shape q args), (build_condition_shape q' args'), E1, E2. reflexivity.
Qed.
