(* C07_Proofs5.v — consequences of the invariant: returns happen after close and deliver a
   complete schema of the right type; one winner per type; no deadlock (any relation graph). *)
From Verif Require Import Base C07_Model C07_Proofs C07_Proofs2 C07_Proofs3 C07_Proofs4.

Section Cons.
Variable cfg : config.
Notation inv := (inv cfg).

Lemma inv_initial progs : inv (initial progs).
Proof.
  constructor; cbn; try (intros; lia); try discriminate; auto.
Qed.

Lemma inv_warm progs : inv (warm cfg progs).
Proof.
  assert (L : forall s, s < length cfg -> Nat.ltb s (length cfg) = true) by (intros; now apply Nat.ltb_lt).
  constructor; cbn -[Nat.ltb].
  - intros s Hs. destruct (Nat.ltb_spec s (length cfg)); [lia|reflexivity].
  - intros t s. destruct (Nat.ltb_spec t (length cfg)); [|discriminate].
    intro E; inversion E; subst s. rewrite L by assumption. cbn. auto.
  - intros s Hs _ _. unfold complete. cbn -[Nat.ltb]. rewrite L by assumption. cbn.
    intros _. apply map_length.
  - intros s Hs. rewrite L by assumption. cbn -[Nat.ltb]. intros _ _. now rewrite L.
  - intro s. destruct (Nat.ltb s (length cfg)); cbn; lia.
  - intros s Hs. rewrite L by assumption. cbn. discriminate.
  - intro g. repeat split; auto.
Qed.

Lemma reach_inv progs sched st : run cfg (initial progs) sched = Some st -> inv st.
Proof. apply run_inv. apply inv_initial. Qed.

(* ---- returns ---------------------------------------------------------------------- *)
Lemma rets_ok st g rr : inv st -> In rr (t_rets (st_thr st g)) -> ret_ok cfg st rr.
Proof.
  intros I Hin. destruct (i_T _ _ I g) as (_ & _ & R). rewrite Forall_forall in R. now apply R.
Qed.

Lemma parse_waits st g rr :
  inv st -> In rr (t_rets (st_thr st g)) ->
  rt_closed rr = true /\ rt_sty rr = rt_ty rr /\
  (rt_err rr = false -> rt_nrel rr = length (rels cfg (rt_ty rr))).
Proof. intros I Hin. destruct (rets_ok _ _ _ I Hin) as (A & B & C & _). auto. Qed.

Lemma ret_is_cached st g rr :
  inv st -> In rr (t_rets (st_thr st g)) -> rt_err rr = false ->
  st_cache st (rt_ty rr) = Some (rt_sid rr).
Proof.
  intros I Hin Er. destruct (rets_ok _ _ _ I Hin) as (_ & _ & _ & A & B & C & D & E).
  rewrite <- C. apply (i_G _ _ I); auto. congruence.
Qed.

Lemma single_winner st g1 g2 r1 r2 :
  inv st -> In r1 (t_rets (st_thr st g1)) -> In r2 (t_rets (st_thr st g2)) ->
  rt_ty r1 = rt_ty r2 -> rt_err r1 = false -> rt_err r2 = false -> rt_sid r1 = rt_sid r2.
Proof.
  intros I H1 H2 Et E1 E2.
  pose proof (ret_is_cached _ _ _ I H1 E1) as C1. pose proof (ret_is_cached _ _ _ I H2 E2) as C2.
  rewrite Et in C1. congruence.
Qed.

(* ---- no deadlock ------------------------------------------------------------------ *)
Definition blocked (st : state) (g : tid) (f : frame) (below : list frame) (w : sid) : Prop :=
  t_stack (st_thr st g) = f :: below /\ (exists o, f_pc f = PWait o w) /\
  s_closed (st_sch st w) = false.

Lemma any_below_true n p k : k < n -> p k = true -> any_below n p = true.
Proof.
  induction n; cbn; [lia|]. intros Hk Hp. destruct (Nat.eq_dec k n) as [->|Ne].
  - now rewrite Hp.
  - rewrite IHn by (auto; lia). apply orb_true_r.
Qed.

Lemma all_below_false n p : all_below n p = false -> exists k, k < n /\ p k = false.
Proof.
  induction n; cbn; [discriminate|]. destruct (p n) eqn:E; cbn.
  - intro H. destruct (IHn H) as (k & A & B). exists k. split; [lia|exact B].
  - intros _. exists n. split; [lia|exact E].
Qed.

Lemma enabled_or_blocked st g :
  inv st -> g < st_nthr st -> finished_t (st_thr st g) = false ->
  enabled cfg st g = true \/ exists f below w, blocked st g f below w.
Proof.
  intros I Hg Hfin. unfold enabled, step.
  destruct (Nat.ltb_spec g (st_nthr st)) as [_|]; [|lia]. cbn [negb].
  unfold finished_t in Hfin.
  destruct (t_stack (st_thr st g)) as [|f below] eqn:Hs.
  { destruct (t_todo (st_thr st g)); [discriminate|]. now left. }
  destruct (top_frame cfg _ _ _ _ I Hs) as (_ & _ & Hnn).
  destruct (f_pc f) eqn:Epc; try (left; reflexivity).
  - destruct (st_cache st (f_ty f)); now left.
  - destruct (st_cache st (f_ty f)); now left.
  - destruct (st_cache st (f_ty f)); now left.
  - destruct (nth_error (rels cfg (f_ty f)) i); [destruct (st_cache st (r_to r))|]; now left.
  - exfalso. apply Hnn. unfold is_nest. now rewrite Epc.
  - destruct ok; now left.
  - destruct (s_closed (st_sch st w)) eqn:Ecl; [destruct own; now left|].
    right. exists f, below, w. split; [exact Hs|]. split; [now exists own|exact Ecl].
Qed.

Lemma owns_below f below d s :
  owns (f :: below) d s -> d < length below -> exists p, In p below /\ own_of (f_pc p) = Some s.
Proof.
  intros (p & Hn & Ho) Hd. exists p. split; [|exact Ho]. cbn [rev] in Hn.
  rewrite nth_error_app1 in Hn by (now rewrite rev_length).
  apply nth_error_In in Hn. now apply in_rev.
Qed.

(* a goroutine blocked on w: the owner of w is another, unfinished goroutine; if that one is
   blocked too, it was blocked strictly later (its waiting frame was born after w's publication,
   and w was published after the first goroutine's waiting frame was born) *)
Lemma blocked_next st g f below w :
  inv st -> blocked st g f below w ->
  let g' := s_owner (st_sch st w) in
  g' < st_nthr st /\ finished_t (st_thr st g') = false /\
  (below <> [] -> f_born f < s_pub (st_sch st w)) /\
  (forall f' below' w', blocked st g' f' below' w' ->
     below' <> [] /\ s_pub (st_sch st w) < f_born f').
Proof.
  intros I (Hs & (o & Epc) & Ecl) g'.
  destruct (top_frame cfg _ _ _ _ I Hs) as ((_ & _ & _ & F) & _ & _). rewrite Epc in F.
  destruct F as (W1 & W2 & W3 & W4 & _).
  destruct (i_L _ _ I w W1 Ecl) as [Ow Wn]. fold g' in Ow, Wn.
  split; [exact Ow|]. split.
  { unfold finished_t. destruct (t_stack (st_thr st g')); [|reflexivity].
    apply owns_lt in Wn. cbn in Wn. lia. }
  split; [exact W4|].
  intros f' below' w' (Hs' & (o' & Epc') & _). rewrite Hs' in Wn.
  destruct (top_frame cfg _ _ _ _ I Hs') as (Hf' & _ & _).
  destruct (Nat.lt_ge_cases (s_depth (st_sch st w)) (length below')) as [Lt|Ge].
  - destruct (owns_below _ _ _ _ Wn Lt) as (p & Hin & Ho).
    split; [intro; subst; contradiction|]. destruct Hf' as (_ & _ & C & _). eauto.
  - destruct (owns_top _ _ _ _ Wn Ge) as [_ Eo]. rewrite Epc' in Eo. cbn in Eo. subst o'.
    destruct Hf' as (_ & _ & _ & F'). rewrite Epc' in F'. destruct F' as (_ & _ & _ & _ & (_ & P0 & _)).
    lia.
Qed.

Lemma some_enabled_of st g : g < st_nthr st -> enabled cfg st g = true -> some_enabled cfg st = true.
Proof. intros. unfold some_enabled. eapply any_below_true; eauto. Qed.

Lemma chain st : inv st -> forall k g f below w,
  blocked st g f below w -> below <> [] -> st_clk st - f_born f <= k -> some_enabled cfg st = true.
Proof.
  intros I. induction k as [|k IH]; intros g f below w B Hne Hk;
    destruct (blocked_next _ _ _ _ _ I B) as (Ow & Nf & Hb & Hnext);
    destruct (enabled_or_blocked _ _ I Ow Nf) as [En|(f' & below' & w' & B')];
    try (eapply some_enabled_of; eassumption);
    destruct (Hnext _ _ _ B') as [Hne' Hlt]; specialize (Hb Hne);
    destruct B' as (Hs' & X & Y);
    destruct (top_frame cfg _ _ _ _ I Hs') as ((Hborn & _) & _ & _).
  - lia.
  - apply (IH (s_owner (st_sch st w)) f' below' w'); [exact (conj Hs' (conj X Y))|exact Hne'|lia].
Qed.

Theorem no_deadlock st : inv st -> all_finished st = true \/ some_enabled cfg st = true.
Proof.
  intro I. destruct (all_finished st) eqn:Ef; [now left|right].
  apply all_below_false in Ef. destruct Ef as (g & Hg & Nf).
  destruct (enabled_or_blocked _ _ I Hg Nf) as [En|(f & below & w & B)].
  { eapply some_enabled_of; eauto. }
  destruct (blocked_next _ _ _ _ _ I B) as (Ow & Nf' & _ & Hnext).
  destruct (enabled_or_blocked _ _ I Ow Nf') as [En|(f' & below' & w' & B')].
  { eapply some_enabled_of; eauto. }
  destruct (Hnext _ _ _ B') as [Hne' _].
  eapply (chain _ I (st_clk st)); eauto. lia.
Qed.
End Cons.
