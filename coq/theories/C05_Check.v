(* C05_Check.v — correspondence checker for C05.  [model_agrees]: the model, fed with the event
   sequence of the operation's fault-free run and the injected fault, predicts the events of the
   faulted run, the reported error, which recorded database state the final dump equals, and
   the open transactions.  [spec_holds]: the property evaluated on the OBSERVED run only. *)
From Verif Require Export Base C05_Model.

Definition dkind_eqb a b :=
  match a, b with
  | DBegin, DBegin | DStmt, DStmt | DCommit, DCommit | DRollback, DRollback => true
  | _, _ => false
  end.
Definition ev_eqb a b :=
  match a, b with
  | EOp k f, EOp k' f' => dkind_eqb k k' && Bool.eqb f f'
  | EHook f, EHook f' => Bool.eqb f f'
  | EMark, EMark => true
  | _, _ => false
  end.
Definition errk_eqb a b :=
  match a, b with
  | XNil, XNil | XFault, XFault | XHook, XHook | XOther, XOther | XPre, XPre => true
  | _, _ => false
  end.
Definition not_mark (e : ev) := match e with EMark => false | _ => true end.
Definition ev_failed (e : ev) := match e with EOp _ f | EHook f => f | EMark => false end.
Definition ev_errk (e : ev) := match e with EOp _ _ => XFault | EHook _ => XHook | EMark => XNil end.

Record case := mk_case {
  c_free : list ev;                (* events of the fault-free run of the same operation *)
  c_dfault : option nat; c_hfault : option nat;
  c_natural : bool;                (* the operation fails by itself (no injected fault): spec only *)
  (* observed in this run *)
  o_evs : list ev; o_err : errk;
  o_wrapped : bool;                (* informational: enclosing callbacks re-add the nested error *)
  o_match : list bool;             (* final dump = dump after the j-th COMMIT of the fault-free run *)
  o_in_use : Z; o_open_tx : Z;
  (* the operation was called on a handle that already carried an error (AddError on the handle, or a
     scope that vetoes the write); c_free is the fault-free run of the same operation without it *)
  c_pre : bool
}.

Definition model_agrees (c : case) : bool :=
  if c_natural c then true else
  match split_pipes (c_free c) None with
  | None => false    (* the operation is not a sequence of BEGIN .. COMMIT pipelines *)
  | Some pipes =>
    let s := if c_pre c then run_op_pre (fault_at (c_dfault c)) (fault_at (c_hfault c)) [XPre] pipes []
             else run_op (fault_at (c_dfault c)) (fault_at (c_hfault c)) pipes [] in
    list_eqb ev_eqb (rev (s_out s)) (filter not_mark (o_evs c))
    && errk_eqb (last (s_err s) XNil) (o_err c)
    && nth (s_commits s) (o_match c) false
    && Z.eqb (s_open s) (o_open_tx c) && Z.eqb 0 (o_in_use c)
  end.

(* the property: nothing failed -> applied completely, Error nil; something failed -> database
   exactly as before, the failure is in Error; in every case no transaction stays open and no
   connection stays checked out *)
Definition spec_holds (c : case) : bool :=
  Z.eqb (o_in_use c) 0 && Z.eqb (o_open_tx c) 0
  && if c_pre c
     then nth 0 (o_match c) false && errk_eqb (o_err c) XPre   (* refused before it started: unchanged, that error reported *)
     else if c_natural c
     then nth 0 (o_match c) false && negb (errk_eqb (o_err c) XNil)   (* failed by itself: unchanged, reported *)
     else match filter ev_failed (o_evs c) with
     | [] => errk_eqb (o_err c) XNil && last (o_match c) false
     | fl => nth 0 (o_match c) false && errk_eqb (o_err c) (ev_errk (last fl EMark))
     end.

Definition check_case (c : case) : N := code_of (model_agrees c) (spec_holds c).
