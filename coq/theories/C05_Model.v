(* C05_Model.v — executable model of one write operation of gorm as a sequence of pipelines
   (callbacks.go processor.Execute running the registered callbacks in order;
   callbacks/transaction.go BeginTransaction / CommitOrRollbackTransaction; the db.Error == nil
   guard of every callback in callbacks/{create,update,delete,associations}.go; callmethod.go
   running the hooks of one callback for every element without re-checking the error;
   finisher_api.go CreateInBatches wrapping its batches in one Transaction; Save falling back
   to a second Create pipeline).  The event sequence of a concrete operation (driver
   statements, hook invocations, boundaries of the hook callbacks) is taken from the
   implementation's fault-free recorded run.  No proofs here. *)
From Verif Require Export Base.

Inductive dkind := DBegin | DStmt | DCommit | DRollback.
(* an event: a driver operation, a hook invocation (failed?), the start of a callback that
   invokes hooks (before_create, after_create, before_update, ...) *)
Inductive ev := EOp (k : dkind) (f : bool) | EHook (f : bool) | EMark.
(* XPre: an error the handle already carried when the operation started (a vetoing scope, AddError) *)
Inductive errk := XNil | XFault | XHook | XOther | XPre.

(* the body of a pipeline: what happens between BEGIN and COMMIT *)
Definition pipeline := list ev.

Record st := mkSt {
  s_err : list errk;    (* db.Error: the accumulated errors, oldest first ([] = nil) *)
  s_live : bool;        (* the current hook callback passed its db.Error == nil guard *)
  s_stop : bool;        (* a pipeline failed: the operation returns without starting another *)
  s_nops : nat;         (* driver operations issued so far *)
  s_nhooks : nat;       (* hook invocations so far *)
  s_sid : nat;          (* statements of the fault-free sequence passed so far (their identity) *)
  s_work : list nat;    (* statements executed inside the open transaction *)
  s_db : list nat;      (* statements whose effect is durable *)
  s_commits : nat;      (* successful COMMITs *)
  s_open : Z;           (* transactions open *)
  s_out : list ev       (* events that happened, newest first *)
}.

Definition is_stmt (e : ev) : bool := match e with EOp DStmt _ => true | _ => false end.
Definition nstmts (b : pipeline) : nat := length (filter is_stmt b).

Definition init_st (db : list nat) : st := mkSt [] false false 0 0 0 [] db 0 0%Z [].

Section Run.
Variable dfault : nat -> bool.   (* which driver operations (by index) fail *)
Variable hfault : nat -> bool.   (* which hook invocations (by index) return an error *)

Definition is_nil (e : list errk) := match e with [] => true | _ => false end.

(* a driver operation: logged, numbered; returns whether it failed *)
Definition issue (k : dkind) (s : st) : bool * st :=
  let f := dfault (s_nops s) in
  (f, mkSt (if f then s_err s ++ [XFault] else s_err s) (s_live s) (s_stop s) (S (s_nops s)) (s_nhooks s)
           (s_sid s) (s_work s) (s_db s) (s_commits s) (s_open s) (EOp k f :: s_out s)).

Definition step (s : st) (e : ev) : st :=
  match e with
  | EMark =>   (* callbacks.BeforeCreate & co: if db.Error == nil && ... { callMethod(...) } *)
    mkSt (s_err s) (is_nil (s_err s)) (s_stop s) (s_nops s) (s_nhooks s) (s_sid s) (s_work s) (s_db s)
         (s_commits s) (s_open s) (s_out s)
  | EHook _ =>  (* callMethod: every element's hooks run, db.AddError(hook(tx)), no re-check *)
    if s_live s then
      let f := hfault (s_nhooks s) in
      mkSt (if f then s_err s ++ [XHook] else s_err s) true (s_stop s) (s_nops s) (S (s_nhooks s)) (s_sid s)
           (s_work s) (s_db s) (s_commits s) (s_open s) (EHook f :: s_out s)
    else s
  | EOp DStmt _ =>   (* a statement of a callback guarded by db.Error == nil (possibly through
                        Session copying db.Error into a nested Create / Delete) *)
    let s' := mkSt (s_err s) (s_live s) (s_stop s) (s_nops s) (s_nhooks s) (S (s_sid s)) (s_work s) (s_db s)
                   (s_commits s) (s_open s) (s_out s) in
    if is_nil (s_err s) then
      let '(f, s1) := issue DStmt s' in
      if f then s1
      else mkSt (s_err s1) (s_live s1) (s_stop s1) (s_nops s1) (s_nhooks s1) (s_sid s1) (s_work s1 ++ [s_sid s])
                (s_db s1) (s_commits s1) (s_open s1) (s_out s1)
    else s'
  | EOp _ _ => s   (* BEGIN / COMMIT / ROLLBACK do not occur inside a body *)
  end.

(* one pipeline: BeginTransaction; the body; CommitOrRollbackTransaction *)
Definition run_pipe (s : st) (body : pipeline) : st :=
  let nstm := nstmts body in
  if s_stop s then   (* the operation already returned; the statements keep their identity *)
    mkSt (s_err s) (s_live s) true (s_nops s) (s_nhooks s) (s_sid s + nstm) (s_work s) (s_db s) (s_commits s) (s_open s) (s_out s)
  else if negb (is_nil (s_err s)) then
    (* the handle already carries an error when the pipeline starts.  BeginTransaction:
       if !SkipDefaultTransaction && db.Error == nil { .. }: no BEGIN, "gorm:started_transaction" is not
       set; every callback of the body is guarded by db.Error == nil (step); CommitOrRollbackTransaction
       finds nothing started and does nothing; the operation returns the error *)
    let s2 := fold_left step body
                (mkSt (s_err s) false (s_stop s) (s_nops s) (s_nhooks s) (s_sid s) (s_work s) (s_db s) (s_commits s) (s_open s) (s_out s)) in
    mkSt (s_err s2) false true (s_nops s2) (s_nhooks s2) (s_sid s2) (s_work s2) (s_db s2) (s_commits s2) (s_open s2) (s_out s2)
  else
    let '(f, s1) := issue DBegin s in
    if f then   (* db.Error = tx.Error: every callback is guarded out, no transaction was started *)
      mkSt (s_err s1) false true (s_nops s1) (s_nhooks s1) (s_sid s1 + nstm) [] (s_db s1) (s_commits s1) (s_open s1) (s_out s1)
    else
      let s1 := mkSt (s_err s1) false false (s_nops s1) (s_nhooks s1) (s_sid s1) [] (s_db s1) (s_commits s1)
                     (s_open s1 + 1)%Z (s_out s1) in
      let s2 := fold_left step body s1 in
      if is_nil (s_err s2) then
        let '(fc, s3) := issue DCommit s2 in     (* db.Commit() *)
        if fc then mkSt (s_err s3) false true (s_nops s3) (s_nhooks s3) (s_sid s3) [] (s_db s3) (s_commits s3)
                        (s_open s3 - 1)%Z (s_out s3)
        else mkSt (s_err s3) false false (s_nops s3) (s_nhooks s3) (s_sid s3) [] (s_db s3 ++ s_work s3)
                  (S (s_commits s3)) (s_open s3 - 1)%Z (s_out s3)
      else
        let '(_, s3) := issue DRollback s2 in    (* db.Rollback(); its error is added too *)
        mkSt (s_err s3) false true (s_nops s3) (s_nhooks s3) (s_sid s3) [] (s_db s3) (s_commits s3)
             (s_open s3 - 1)%Z (s_out s3).

Definition run_op (pipes : list pipeline) (db : list nat) : st := fold_left run_pipe pipes (init_st db).
(* the same operation called on a handle that already carries the errors [pre] *)
Definition init_pre (pre : list errk) (db : list nat) : st := mkSt pre false false 0 0 0 [] db 0 0%Z [].
Definition run_op_pre (pre : list errk) (pipes : list pipeline) (db : list nat) : st :=
  fold_left run_pipe pipes (init_pre pre db).
End Run.

Definition fault_at (k : option nat) : nat -> bool :=
  fun i => match k with Some k' => Nat.eqb i k' | None => false end.

(* parsing the recorded fault-free sequence into pipelines: (BEGIN body COMMIT)* *)
Definition body_ev (e : ev) : bool :=
  match e with EOp DStmt _ | EHook _ | EMark => true | _ => false end.
Fixpoint split_pipes (l : list ev) (cur : option pipeline) : option (list pipeline) :=
  match l with
  | [] => match cur with None => Some [] | Some _ => None end
  | EOp DBegin false :: r => match cur with None => split_pipes r (Some []) | Some _ => None end
  | EOp DCommit false :: r =>
    match cur with
    | Some b => match split_pipes r None with Some ps => Some (rev b :: ps) | None => None end
    | None => None
    end
  | e :: r =>
    match cur with
    | Some b => if body_ev e && negb (match e with EOp _ true | EHook true => true | _ => false end)
                then split_pipes r (Some (e :: b)) else None
    | None => None
    end
  end.
