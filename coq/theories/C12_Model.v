(* C12_Model.v — association mode: link state, in-memory relation field, and the operations of
   association.go (Append, Replace, Delete, Clear, Count, Find, saveAssociation) with the saving
   callbacks of callbacks/associations.go (upserts of targets / foreign keys / join rows).
   No proofs here.

   Keys are integer primary keys (the key-encoding side of these code paths is C11's subject).
   A handle is db.Model(&owner) (struct) or db.Model(&owners) (slice): the list [os] of owner ids.
   Relation kinds: has one, has many (polymorphic has-many is has-many with the type column folded
   into the owner identity), belongs to, many2many. *)
From Verif Require Import Base.
Open Scope Z_scope.

Inductive kind := KHasOne | KHasMany | KBelongs | KM2M.

(* database + memory *)
Record st := mk_st {
  rows  : list (Z * option Z);   (* has one / has many: child id |-> owner id (foreign key column)
                                    belongs to: OWNER id |-> target id (the owner's foreign key column) *)
  joins : list (Z * Z);          (* many2many: join rows (owner id, target id) *)
  tgt   : list Z;                (* belongs to / many2many: ids of the rows of the target table *)
  mem   : list (list Z)          (* per owner of the handle: ids held by the in-memory relation field *)
}.

Inductive op :=
| OAppend (vs : list (list Z))    (* per owner of the handle: the targets passed for it, in order *)
| OReplace (vs : list (list Z))
| ODelete (ts : list Z)
| OClear
| OAppendNone.                    (* Append() with no target at all *)

Definition memz (x : Z) (l : list Z) : bool := existsb (Z.eqb x) l.
Definition in_os (os : list Z) (f : option Z) : bool :=
  match f with Some o => memz o os | None => false end.

(* ---- primitive statements ---- *)
(* INSERT ... ON CONFLICT (id) DO UPDATE SET fk = excluded.fk *)
Fixpoint upsert (t o : Z) (r : list (Z * option Z)) : list (Z * option Z) :=
  match r with
  | [] => [(t, Some o)]
  | (t', f) :: r' => if t' =? t then (t', Some o) :: r' else (t', f) :: upsert t o r'
  end.
(* UPDATE ... SET fk = v WHERE id = o   (row must exist) *)
Definition set_fk (o : Z) (v : option Z) (r : list (Z * option Z)) : list (Z * option Z) :=
  map (fun p => if fst p =? o then (fst p, v) else p) r.
(* UPDATE ... SET fk = NULL WHERE P *)
Definition null_where (P : Z * option Z -> bool) (r : list (Z * option Z)) : list (Z * option Z) :=
  map (fun p => if P p then (fst p, None) else p) r.
(* DELETE ... WHERE P *)
Definition delete_where {A} (P : A -> bool) (r : list A) : list A := filter (fun p => negb (P p)) r.
(* INSERT ... ON CONFLICT DO NOTHING *)
Definition add_z (t : Z) (l : list Z) : list Z := if memz t l then l else l ++ [t].
Definition add_zs (ts l : list Z) : list Z := fold_left (fun a t => add_z t a) ts l.
Definition memp (p : Z * Z) (l : list (Z * Z)) : bool :=
  existsb (fun q => (fst q =? fst p) && (snd q =? snd p)) l.
Definition add_join (p : Z * Z) (l : list (Z * Z)) : list (Z * Z) := if memp p l then l else l ++ [p].

(* ---- saveAssociation: the in-memory field, then Updates(owner) with the relation selected ---- *)
Definition last_or (d : list Z) (v : list Z) : list Z :=
  match rev v with [] => d | t :: _ => [t] end.
(* appendToRelations *)
Definition new_field (k : kind) (clear : bool) (m v : list Z) : list Z :=
  match k with
  | KHasOne | KBelongs => last_or (if clear then [] else m) v
  | KHasMany | KM2M => (if clear then [] else m) ++ v
  end.
(* SaveBeforeAssociations / SaveAfterAssociations for one owner whose field holds m *)
Definition save_owner (k : kind) (o : Z) (m : list Z) (s : st) : st :=
  match k with
  | KHasOne | KHasMany =>
      mk_st (fold_left (fun r t => upsert t o r) m (rows s)) (joins s) (tgt s) (mem s)
  | KBelongs =>
      match m with
      | t :: _ => mk_st (set_fk o (Some t) (rows s)) (joins s) (add_z t (tgt s)) (mem s)
      | [] => s
      end
  | KM2M =>
      mk_st (rows s) (fold_left (fun j t => add_join (o, t) j) m (joins s)) (add_zs m (tgt s)) (mem s)
  end.

(* the loop over the owners of the handle: field := new_field; Updates(owner) *)
Fixpoint save_loop (k : kind) (clear : bool) (os : list Z) (vs ms : list (list Z)) (s : st)
  : list (list Z) * st :=
  match os, vs, ms with
  | o :: os', v :: vs', m :: ms' =>
      let m' := new_field k clear m v in
      let s' := save_owner k o m' s in
      let '(rest, s'') := save_loop k clear os' vs' ms' s' in
      (m' :: rest, s'')
  | _, _, _ => ([], s)
  end.
Definition save_assoc (k : kind) (clear : bool) (os : list Z) (vs : list (list Z)) (s : st) : st :=
  let '(ms, s') := save_loop k clear os vs (mem s) s in
  mk_st (rows s') (joins s') (tgt s') ms.

(* ---- Replace's second half: detach what is not in the new value ---- *)
Definition detach_others (k : kind) (unscoped : bool) (os : list Z) (vs : list (list Z))
           (oldmem : list (list Z)) (clearing : bool) (s : st) : st :=
  match k with
  | KBelongs =>
      let r := if clearing then null_where (fun p => memz (fst p) os) (rows s) else rows s in
      (* Unscoped: delete the targets the owners pointed at BEFORE the call (oldBelongsToExpr holds the
         key VALUES captured before saveAssociation), except the records linked again by this call
         (NOT IN the keys of the values passed) - since fix 5e2c10c; Clear passes no values *)
      let victims := filter (fun t => negb (memz t (List.concat vs))) (List.concat oldmem) in
      let t := if unscoped then delete_where (fun x => memz x victims) (tgt s) else tgt s in
      mk_st r (joins s) t (mem s)
  | KHasOne | KHasMany =>
      let keep := List.concat (mem s) in            (* GetRelationsValues: what the fields hold now *)
      let P := fun p : Z * option Z => in_os os (snd p) && negb (memz (fst p) keep) in
      mk_st (if unscoped then delete_where P (rows s) else null_where P (rows s)) (joins s) (tgt s) (mem s)
  | KM2M =>
      let keep := List.concat vs in                  (* primary keys of the VALUES passed *)
      mk_st (rows s)
            (delete_where (fun j : Z * Z => memz (fst j) os && negb (memz (snd j) keep)) (joins s))
            (tgt s) (mem s)
  end.

Definition do_replace (k : kind) (unscoped : bool) (os : list Z) (vs : list (list Z)) (s : st) : st :=
  detach_others k unscoped os vs (mem s) false (save_assoc k true os vs s).

Definition do_clear (k : kind) (unscoped : bool) (os : list Z) (s : st) : st :=
  (* saveAssociation(clear, no values): every field is reset, nothing is saved *)
  let s0 := mk_st (rows s) (joins s) (tgt s) (map (fun _ => []) (mem s)) in
  detach_others k unscoped os [] (mem s) true s0.

Definition do_append (k : kind) (unscoped : bool) (os : list Z) (vs : list (list Z)) (s : st) : st :=
  match k with
  | KHasOne | KBelongs => do_replace k unscoped os vs s
  | KHasMany | KM2M => save_assoc k false os vs s
  end.

Definition do_delete (k : kind) (unscoped : bool) (os : list Z) (ts : list Z) (s : st) : st :=
  let m' := map (filter (fun t => negb (memz t ts))) (mem s) in     (* cleanUpDeletedRelations *)
  match k with
  | KBelongs =>
      let r := null_where (fun p => memz (fst p) os && in_os ts (snd p)) (rows s) in
      (* Unscoped: delete the targets named by the owners' in-memory foreign keys AND by the
         arguments (since fix d23ce2a) *)
      let t := if unscoped then delete_where (fun x => memz x (List.concat (mem s)) && memz x ts) (tgt s) else tgt s in
      mk_st r (joins s) t m'
  | KHasOne | KHasMany =>
      let P := fun p : Z * option Z => in_os os (snd p) && memz (fst p) ts in
      mk_st (if unscoped then delete_where P (rows s) else null_where P (rows s)) (joins s) (tgt s) m'
  | KM2M =>
      mk_st (rows s) (delete_where (fun j : Z * Z => memz (fst j) os && memz (snd j) ts) (joins s)) (tgt s) m'
  end.

Definition assoc_step (k : kind) (os : list Z) (s : st) (uo : bool * op) : st :=
  let '(u, o) := uo in
  match o with
  | OAppend vs => do_append k u os vs s
  | OReplace vs => do_replace k u os vs s
  | ODelete ts => do_delete k u os ts s
  | OClear => do_clear k u os s
  (* Append(): has one / belongs to delegate to Replace only `if len(values) > 0`; has many /
     many2many: saveAssociation with no values touches nothing (struct handle) *)
  | OAppendNone => s
  end.

(* ---- what is stored: the links of owner o ---- *)
Definition target_exists (k : kind) (s : st) (t : Z) : bool :=
  match k with
  | KHasOne | KHasMany => memz t (map fst (rows s))
  | KBelongs | KM2M => memz t (tgt s)
  end.
(* raw foreign-key columns / join rows *)
Definition links (k : kind) (s : st) (o : Z) : list Z :=
  match k with
  | KHasOne | KHasMany =>
      map fst (filter (fun p => match snd p with Some o' => o' =? o | None => false end) (rows s))
  | KBelongs =>
      flat_map (fun p => if fst p =? o then match snd p with Some t => [t] | None => [] end else []) (rows s)
  | KM2M => map snd (filter (fun j => fst j =? o) (joins s))
  end.
(* buildCondition: the rows Find returns / Count counts: links whose target row exists *)
Fixpoint nodupz (l : list Z) : list Z :=
  match l with [] => [] | x :: r => if memz x r then nodupz r else x :: nodupz r end.
(* has-kinds: child rows WHERE fk IN (owners); many2many: target JOIN join-table (one row per pair);
   belongs to: target rows WHERE id IN (the owners' foreign keys): each record once *)
Definition find_ids (k : kind) (os : list Z) (s : st) : list Z :=
  let l := flat_map (fun o => filter (target_exists k s) (links k s o)) os in
  match k with KBelongs => nodupz l | _ => l end.
Definition count_ids (k : kind) (os : list Z) (s : st) : Z := Z.of_nat (length (find_ids k os s)).
Definition all_targets (k : kind) (s : st) : list Z :=
  match k with KHasOne | KHasMany => map fst (rows s) | _ => tgt s end.

(* errors the code returns although nothing is wrong with the call: none on the current tree
   (before fix 75c7076 belongs to + Unscoped + Clear failed with "no such column: tgts.id"). *)
Definition step_err (k : kind) (s : st) (uo : bool * op) : bool := false.

(* the links of the same tables that do NOT belong to the handle: other owners, and for polymorphic
   relations the rows of other owner types (has-kinds: (target, owner); belongs to: (owner, target);
   many2many: join rows) *)
Definition others (k : kind) (os : list Z) (s : st) : list (Z * Z) :=
  match k with
  | KHasOne | KHasMany =>
      flat_map (fun p => match snd p with Some o => if memz o os then [] else [(fst p, o)] | None => [] end) (rows s)
  | KBelongs =>
      flat_map (fun p => if memz (fst p) os then [] else match snd p with Some t => [(fst p, t)] | None => [] end) (rows s)
  | KM2M => filter (fun j => negb (memz (fst j) os)) (joins s)
  end.

(* states after each operation of a history *)
Fixpoint run (k : kind) (os : list Z) (s : st) (ops : list (bool * op)) : list (st * bool) :=
  match ops with
  | [] => []
  | uo :: r => let s' := assoc_step k os s uo in (s', step_err k s uo) :: run k os s' r
  end.

(* ================= specification: finite sets per owner ================= *)
Definition union (a b : list Z) : list Z := a ++ b.
Definition minus (a b : list Z) : list Z := filter (fun t => negb (memz t b)) a.
Definition single_valued (k : kind) : bool := match k with KHasOne | KBelongs => true | _ => false end.
(* Append adds (a one-slot relation is set), Replace sets, Delete removes the named targets, Clear
   removes all; [a] = current link set of the owner, [v] = the targets passed for this owner *)
Definition spec_owner (k : kind) (o : op) (a v : list Z) : list Z :=
  match o with
  | OAppend _ => if single_valued k then v else union a v
  | OReplace _ => v
  | ODelete ts => minus a ts
  | OClear => []
  | OAppendNone => a
  end.
Definition op_values (o : op) (n : nat) : list (list Z) :=
  match o with OAppend vs | OReplace vs => vs | _ => repeat [] n end.
Definition spec_step (k : kind) (o : op) (A : list (list Z)) : list (list Z) :=
  map (fun av => spec_owner k o (fst av) (snd av)) (combine A (op_values o (length A))).
