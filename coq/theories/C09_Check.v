(* C09_Check.v — correspondence checker for C09 (update/delete without condition). *)
From Verif Require Export Base Sem Where_Model C09_Keys C02_Args.
Open Scope Z_scope.

Record case := mk_case {
  c_atoms : atom_table;
  c_chain : list call;          (* the condition calls of the chain, in order *)
  c_soft : bool;                (* soft-delete model *)
  c_allow : bool;               (* AllowGlobalUpdate (config or session) *)
  c_unscoped : bool;            (* Unscoped somewhere in the chain *)
  c_del : bool;                 (* the finisher is Delete (callbacks/delete.go), else an update (callbacks/update.go) *)
  c_vals : list mvalue;         (* the values gorm reads key conditions from (deleted value, Model value), key fields only *)
  o_missing : bool;             (* ErrMissingWhereClause returned *)
  o_execs : Z;                  (* exec / query / prepare driver calls *)
  o_changed : bool;             (* any table cell changed *)
  o_other_err : bool;
  o_tx : list Z;                (* transaction events seen by the driver: 0 begin, 1 commit, 2 rollback *)
  c_args : list (list garg * list nat)  (* every map / struct / key unit of the chain: its Go values (C02_Args)
                                        and the arities of the conditions its members stand for *)
}.

Definition pk_atom : nat := 45.
(* the key-condition code of the finisher, run on the values of the case *)
Definition c_pk (c : case) : bool := key_cond (c_del c) (c_vals c).

(* the WHERE expressions at the time checkMissingWhereConditions runs, and its verdict *)
Definition model_missing (c : case) : option bool :=
  match build_chain (c_atoms c) (c_chain c) with
  | None => None
  | Some exprs =>
    let exprs1 := if c_pk c then exprs ++ [XAtom pk_atom (pk_atom + 50)] else exprs in
    let soft_on := c_soft c && negb (c_unscoped c) in
    let exprs2 := if soft_on then soft_delete_exprs 40 90 exprs1 else exprs1 in
    Some (missing_where (c_allow c) soft_on exprs2)
  end.

(* BuildCondition's value loop on the Go values of every unit: exactly the unit's members *)
Definition args_agree (l : list (list garg * list nat)) : bool :=
  forallb (fun p => list_eqb Nat.eqb (bc_args (fst p)) (snd p)) l.

Definition model_agrees (c : case) : bool :=
  args_agree (c_args c) &&
  match model_missing c with
  | Some m => Bool.eqb m (o_missing c)
  | None => false
  end.

(* the property *)
Definition spec_holds (c : case) : bool :=
  negb (o_other_err c) &&
  match effective (c_atoms c) (c_chain c) with
  | None => false
  | Some eff =>
    (* "a model value without primary key": no record handed over has a non-zero key field *)
    if negb (c_allow c) && negb (eff || has_key (c_vals c))
    then o_missing c && (o_execs c =? 0)%Z && negb (o_changed c)   (* never executes *)
         (* at most an empty implicit transaction that is rolled back *)
         && match o_tx c with [] => true | [0; 2] => true | _ => false end
    else negb (o_missing c)                                         (* never rejected on this ground *)
  end.

Definition check_case (c : case) : N := code_of (model_agrees c) (spec_holds c).
