(* C03_Proofs4.v — several fields mapping to ONE column (anonymous embedding, shadowing at different
   depths, any declaration order): the parser's left fold with replacement ([dbnames]) gives every
   column to the field the specification names ([owner_of]: minimal depth, first declared among
   equals), for every struct tree. *)
From Verif Require Import Base C03_Model.
Open Scope Z_scope.

(* what FieldsByDBName[col] becomes when the parser, holding [cur], meets the further fields whose
   owner (among themselves) is [o] *)
Definition comb (cur o : option (list string)) : option (list string) :=
  match cur, o with
  | None, _ => o
  | Some q, None => Some q
  | Some q, Some p => if Nat.ltb (length p) (length q) then Some p else Some q
  end.

Lemma lookup_insert : forall acc c p c',
  col_lookup (insert_field acc c p) c' =
  if String.eqb c c'
  then match col_lookup acc c' with
       | None => Some p
       | Some q => if Nat.ltb (length p) (length q) then Some p else Some q
       end
  else col_lookup acc c'.
Proof.
  induction acc as [|[c0 p0] acc IH]; intros c p c'; cbn [insert_field col_lookup].
  - destruct (String.eqb c c'); reflexivity.
  - destruct (String.eqb c0 c) eqn:E0.
    + apply String.eqb_eq in E0. subst c0.
      destruct (String.eqb c c') eqn:E1;
        destruct (Nat.ltb (length p) (length p0)); cbn [col_lookup]; rewrite E1; reflexivity.
    + cbn [col_lookup]. destruct (String.eqb c0 c') eqn:E1.
      * apply String.eqb_eq in E1. subst c0.
        destruct (String.eqb c c') eqn:E2; [|reflexivity].
        apply String.eqb_eq in E2. subst c. rewrite String.eqb_refl in E0. discriminate.
      * apply IH.
Qed.

Lemma insert_cols : forall acc c p,
  map fst (insert_field acc c p) = if existsb (String.eqb c) (map fst acc) then map fst acc else map fst acc ++ [c].
Proof.
  induction acc as [|[c0 p0] acc IH]; intros c p; cbn [insert_field map fst existsb]; [reflexivity|].
  destruct (String.eqb c0 c) eqn:E0.
  - apply String.eqb_eq in E0. subst c0. rewrite String.eqb_refl. cbn [orb].
    destruct (Nat.ltb (length p) (length p0)); reflexivity.
  - rewrite String.eqb_sym, E0. cbn [orb map fst]. rewrite IH.
    destruct (existsb (String.eqb c) (map fst acc)); reflexivity.
Qed.

Lemma insert_nodup : forall acc c p, NoDup (map fst acc) -> NoDup (map fst (insert_field acc c p)).
Proof.
  intros acc c p H. rewrite insert_cols.
  destruct (existsb (String.eqb c) (map fst acc)) eqn:E; [exact H|].
  assert (Hn : ~ In c (map fst acc)); [|clear E; induction (map fst acc) as [|x l IHl]; cbn;
    [constructor; [intros []|constructor] |
     inversion H; subst; constructor;
     [intro Hi; apply in_app_or in Hi; destruct Hi as [Hi|[Hi|[]]]; [contradiction | subst; apply Hn; left; reflexivity]
     | apply IHl; [assumption | intro Hi; apply Hn; right; exact Hi]]]].
  intro Hin. assert (X : existsb (String.eqb c) (map fst acc) = true).
  { apply existsb_exists. exists c. split; [exact Hin | apply String.eqb_refl]. }
  congruence.
Qed.

Lemma dbnames_from_nodup : forall fs acc, NoDup (map fst acc) -> NoDup (map fst (dbnames_from fs acc)).
Proof.
  induction fs as [|[p c] fs IH]; intros acc H; [exact H|].
  unfold dbnames_from in *. cbn [fold_left fst snd]. apply IH. apply insert_nodup. exact H.
Qed.

Lemma dbnames_from_lookup : forall fs acc col,
  col_lookup (dbnames_from fs acc) col = comb (col_lookup acc col) (owner_of fs col).
Proof.
  induction fs as [|[p c] fs IH]; intros acc col.
  - cbn. destruct (col_lookup acc col); reflexivity.
  - unfold dbnames_from in *. cbn [fold_left fst snd]. rewrite IH. rewrite lookup_insert.
    cbn [owner_of].
    destruct (String.eqb c col) eqn:E; cbn [andb].
    + destruct (col_lookup acc col) as [a|], (owner_of fs col) as [q|]; cbn [comb].
      * destruct (Nat.ltb (length p) (length a)) eqn:E1, (Nat.leb (length p) (length q)) eqn:E2;
          cbn [comb];
          repeat match goal with
                 | |- context [Nat.ltb ?x ?y] => let H := fresh "L" in destruct (Nat.ltb x y) eqn:H
                 end; try reflexivity;
          repeat match goal with
                 | H : Nat.ltb _ _ = true |- _ => apply Nat.ltb_lt in H
                 | H : Nat.ltb _ _ = false |- _ => apply Nat.ltb_ge in H
                 | H : Nat.leb _ _ = true |- _ => apply Nat.leb_le in H
                 | H : Nat.leb _ _ = false |- _ => apply Nat.leb_gt in H
                 end; exfalso; lia.
      * destruct (Nat.ltb (length p) (length a)); reflexivity.
      * destruct (Nat.leb (length p) (length q)) eqn:E2; cbn [comb];
          destruct (Nat.ltb (length q) (length p)) eqn:E3; try reflexivity;
          apply Nat.ltb_lt in E3 || apply Nat.ltb_ge in E3;
          apply Nat.leb_le in E2 || apply Nat.leb_gt in E2; exfalso; lia.
      * reflexivity.
    + destruct (owner_of fs col); reflexivity.
Qed.

(* the parsed schema gives every column to the field the specification names, for EVERY tree *)
Theorem owner_shortest_first : forall tree col,
  col_lookup (dbnames tree) col = owner_of (fields_of tree) col.
Proof. intros tree col. unfold dbnames. rewrite dbnames_from_lookup. reflexivity. Qed.

Theorem dbnames_nodup : forall tree, NoDup (map fst (dbnames tree)).
Proof. intro tree. apply dbnames_from_nodup. constructor. Qed.

(* [owner_of] is what its comment says: a field mapped to the column, strictly shallower than every
   earlier such field and at most as deep as every later one *)
Theorem owner_of_spec : forall fs col p,
  owner_of fs col = Some p ->
  exists l1 l2, fs = l1 ++ (p, col) :: l2
    /\ (forall q, In (q, col) l1 -> (length p < length q)%nat)
    /\ (forall q, In (q, col) l2 -> (length p <= length q)%nat).
Proof.
  induction fs as [|[p0 c0] fs IH]; intros col p H; cbn in H; [discriminate|].
  destruct (owner_of fs col) as [q|] eqn:Eo.
  - destruct (String.eqb c0 col) eqn:Ec; cbn [andb] in H.
    + apply String.eqb_eq in Ec. subst c0.
      destruct (Nat.leb (length p0) (length q)) eqn:El.
      * inversion H; subst p0. apply Nat.leb_le in El.
        destruct (IH col q Eo) as [l1 [l2 [E [H1 H2]]]].
        exists [], fs. split; [reflexivity|]. split; [intros q0 []|].
        intros q0 Hin. rewrite E in Hin. apply in_app_or in Hin. destruct Hin as [Hin|[Hin|Hin]].
        -- specialize (H1 _ Hin). lia.
        -- inversion Hin; subst q0. exact El.
        -- specialize (H2 _ Hin). lia.
      * inversion H; subst q. apply Nat.leb_gt in El.
        destruct (IH col p Eo) as [l1 [l2 [E [H1 H2]]]].
        exists ((p0, col) :: l1), l2. split; [rewrite E; reflexivity|]. split; [|exact H2].
        intros q0 [Hin|Hin]; [inversion Hin; subst q0; exact El | apply H1; exact Hin].
    + inversion H; subst q.
      destruct (IH col p Eo) as [l1 [l2 [E [H1 H2]]]].
      exists ((p0, c0) :: l1), l2. split; [rewrite E; reflexivity|]. split; [|exact H2].
      intros q0 [Hin|Hin]; [|apply H1; exact Hin].
      inversion Hin; subst c0. rewrite String.eqb_refl in Ec. discriminate.
  - destruct (String.eqb c0 col) eqn:Ec; [|discriminate].
    apply String.eqb_eq in Ec. subst c0. inversion H; subst p0.
    exists [], fs. split; [reflexivity|]. split; [intros q0 []|].
    intros q0 Hin. exfalso.
    assert (X : forall fs', In (q0, col) fs' -> owner_of fs' col <> None).
    { induction fs' as [|[p1 c1] fs' IH']; intros Hi; [destruct Hi|]. cbn.
      destruct Hi as [Hi|Hi].
      - inversion Hi; subst. rewrite String.eqb_refl. destruct (owner_of fs' col); cbn.
        + destruct (Nat.leb (length q0) (length l)); discriminate.
        + discriminate.
      - specialize (IH' Hi). destruct (owner_of fs' col); [|contradiction].
        destruct (String.eqb c1 col && Nat.leb (length p1) (length l)); discriminate. }
    exact (X fs Hin Eo).
Qed.

(* every column some field maps to has an owner *)
Theorem owner_of_total : forall fs p col, In (p, col) fs -> exists q, owner_of fs col = Some q.
Proof.
  induction fs as [|[p1 c1] fs IH]; intros p col Hi; [destruct Hi|]. cbn.
  destruct Hi as [Hi|Hi].
  - inversion Hi; subst. rewrite String.eqb_refl. destruct (owner_of fs col); cbn.
    + destruct (Nat.leb (length p) (length l)); eauto.
    + eauto.
  - destruct (IH _ _ Hi) as [q Hq]. rewrite Hq.
    destruct (String.eqb c1 col && Nat.leb (length p1) (length q)); eauto.
Qed.

(* a field of the struct that the parsed schema gives no column of its own is not an owner: the
   check's clause "every OWNER outside the schema's columns must still be read back" is vacuous
   under the model *)
Theorem unowned_not_owner : forall tree p col,
  col_lookup (dbnames tree) col <> Some p -> owner_of (fields_of tree) col <> Some p.
Proof. intros tree p col H. rewrite <- owner_shortest_first. exact H. Qed.
