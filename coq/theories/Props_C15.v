(* Props_C15.v — property C15: ONLY theorem statements, each closed by [exact] of a lemma
   from C15_Proofs, followed by Print Assumptions. *)
From Verif Require Import Base C15_Model C15_Proofs C15_Scan C15_ScanProofs C15_Fill C15_FillProofs C15_Count.
Open Scope Z_scope.

(* later positive Limit/Offset values override earlier ones; negative values cancel them;
   a Limit call never disturbs the offset and vice versa *)
Theorem c15_limit_override : forall st n, 0 < n -> lim (st_of (apply_lop st (OLimit n))) = Some n.
Proof. exact merge_limit_override. Qed.
Print Assumptions c15_limit_override.

Theorem c15_limit_cancel : forall st n, n < 0 -> eff_lim (st_of (apply_lop st (OLimit n))) = None.
Proof. exact merge_limit_cancel. Qed.
Print Assumptions c15_limit_cancel.

Theorem c15_offset_override : forall st n, 0 < n -> eff_off (st_of (apply_lop st (OOffset n))) = n.
Proof. exact merge_offset_override. Qed.
Print Assumptions c15_offset_override.

Theorem c15_offset_cancel : forall st n, n < 0 -> eff_off (st_of (apply_lop st (OOffset n))) = 0.
Proof. exact merge_offset_cancel. Qed.
Print Assumptions c15_offset_cancel.

Theorem c15_limit_keeps_offset : forall st n,
  eff_off (st_of (apply_lop st (OLimit n))) = eff_off (st_of st).
Proof. exact merge_limit_keeps_offset. Qed.
Print Assumptions c15_limit_keeps_offset.

Theorem c15_offset_keeps_limit : forall st n,
  eff_lim (st_of (apply_lop st (OOffset n))) = eff_lim (st_of st).
Proof. exact merge_offset_keeps_limit. Qed.
Print Assumptions c15_offset_keeps_limit.

(* whole chains: when the last Limit and the last Offset of the chain are not zero (earlier zeros
   allowed) the statement Find sends means exactly "last positive Limit/Offset wins, a later
   negative one cancels" *)
Theorem c15_chain_reference : forall tbl c o ops, last_nonzero ops = true ->
  find tbl c o (st_of (apply_lops ops)) =
  let after := skipn (Z.to_nat (ref_off ops)) (ordered o (matches c tbl)) in
  match ref_lim ops with Some n => firstn (Z.to_nat n) after | None => after end.
Proof. exact find_is_reference. Qed.
Print Assumptions c15_chain_reference.

(* FindInBatches: for EVERY table size, batch size, limit and offset the batches concatenate to
   exactly what Find returns (hence once each, in key order), none is empty or larger than asked,
   and the loop terminates within [fib_fuel] iterations (result is not the out-of-fuel [None]). *)
Theorem c15_batches : forall ms st bs,
  sorted ms -> 0 < bs ->
  exists bl, find_in_batches (fib_fuel ms) ms st bs = Some bl
             /\ List.concat bl = window (st_of st) ms
             /\ batches_ok bs bl.
Proof. exact find_in_batches_spec. Qed.
Print Assumptions c15_batches.

Theorem c15_window_sorted_nodup : forall s ms, sorted ms ->
  sorted (window s ms) /\ NoDup (map rid (window s ms)).
Proof. intros s ms H. split; [apply sorted_window, H | apply sorted_NoDup, sorted_window, H]. Qed.
Print Assumptions c15_window_sorted_nodup.

Theorem c15_count : forall tbl c o, count tbl c = Z.of_nat (length (find tbl c o l_empty)).
Proof. exact count_is_find_length. Qed.
Print Assumptions c15_count.

Theorem c15_first_min : forall tbl c, sorted tbl ->
  match first_ tbl c OrdNone None with
  | None => matches c tbl = []
  | Some r => In r (matches c tbl) /\ forall x, In x (matches c tbl) -> rid r <= rid x
  end.
Proof. exact first_is_min. Qed.
Print Assumptions c15_first_min.

Theorem c15_last_max : forall tbl c, sorted tbl ->
  match last_ tbl c OrdNone None with
  | None => matches c tbl = []
  | Some r => In r (matches c tbl) /\ forall x, In x (matches c tbl) -> rid x <= rid r
  end.
Proof. exact last_is_max. Qed.
Print Assumptions c15_last_max.

Theorem c15_not_found_iff : forall tbl c o,
  first_ tbl c o None = None <-> find tbl c o l_empty = [].
Proof. exact first_none_iff. Qed.
Print Assumptions c15_not_found_iff.

(* non-vacuity: a concrete table, chain and batch size meeting every hypothesis of c15_batches *)
Example c15_batches_instance :
  sorted [(1,5);(2,4);(4,9)] /\ 0 < 2.
Proof.
  split; [|lia].
  repeat constructor; cbn; lia.
Qed.

(* ---- scan.go: the destination kinds (C15_Scan.scan is the function the checker runs on the rows
   of every case) ---- *)

(* RowsAffected equals the rows returned: for every looping destination kind it is the number of
   rows of the statement, for the single-record kinds 1 iff there is a row; whatever the
   destination held before *)
Theorem c15_scan_rows_affected : forall k pre rs,
  s_ra (scan k pre rs) =
  match k with DStruct | DMap => (if match rs with [] => true | _ => false end then 0 else 1)
             | _ => Z.of_nat (length rs) end.
Proof. exact scan_ra. Qed.
Print Assumptions c15_scan_rows_affected.

(* slices of structs, of pointers and of maps report exactly the statement's rows in order; what a
   reused slice held before is gone *)
Theorem c15_scan_slices_same_rows : forall pre rs,
  s_dest (scan DStructSlice pre rs) = rs /\ s_dest (scan DPtrSlice pre rs) = rs
  /\ s_dest (scan DMapSlice [] rs) = rs.
Proof. exact scan_slices_same_rows. Qed.
Print Assumptions c15_scan_slices_same_rows.

(* an array reports the first rows that fit and nothing of its previous content *)
Theorem c15_scan_array : forall n pre rs, s_dest (scan (DArray n) pre rs) = firstn n rs.
Proof. exact scan_array. Qed.
Print Assumptions c15_scan_array.

(* one struct / one map holds the first row, a primitive the last one *)
Theorem c15_scan_single_first : forall pre r rs,
  s_dest (scan DStruct pre (r :: rs)) = [r] /\ s_dest (scan DMap pre (r :: rs)) = [r].
Proof. exact scan_single. Qed.
Print Assumptions c15_scan_single_first.

Theorem c15_scan_prim_last : forall pre rs r, s_dest (scan DPrim pre (rs ++ [r])) = [r].
Proof. exact scan_prim_last. Qed.
Print Assumptions c15_scan_prim_last.

(* ErrRecordNotFound is raised by a single-record finder exactly when no row arrives, for every
   destination kind *)
Theorem c15_scan_not_found_iff : forall k pre rs,
  scan_not_found true (scan k pre rs) = true <-> rs = [].
Proof. exact scan_not_found_iff. Qed.
Print Assumptions c15_scan_not_found_iff.

(* all destination kinds are views of the same row list *)
Theorem c15_scan_kinds_agree : forall pre rs,
  s_dest (scan DStructSlice pre rs) = s_dest (scan DPtrSlice pre rs)
  /\ s_dest (scan DStructSlice pre rs) = s_dest (scan DMapSlice [] rs)
  /\ s_ra (scan DStructSlice pre rs) = s_ra (scan DMapSlice pre rs)
  /\ s_ra (scan DStructSlice pre rs) = s_ra (scan DPrim pre rs)
  /\ (forall n, s_ra (scan (DArray n) pre rs) = s_ra (scan DStructSlice pre rs))
  /\ hd_error (s_dest (scan DStructSlice pre rs)) = hd_error (s_dest (scan DStruct [] rs))
  /\ hd_error (s_dest (scan DStruct [] rs)) = hd_error (s_dest (scan DMap [] rs))
  /\ hd_error (rev (s_dest (scan DStructSlice pre rs))) = hd_error (s_dest (scan DPrim [] rs)).
Proof. exact scan_kinds_agree. Qed.
Print Assumptions c15_scan_kinds_agree.

Example c15_scan_nonvacuous :
  scan (DArray 2) [(9, 9)] [(1, 10); (2, 20); (3, 30)] = {| s_dest := [(1, 10); (2, 20)]; s_ra := 3 |}
  /\ scan DPrim [(9, 9)] [(1, 10); (2, 20)] = {| s_dest := [(2, 20)]; s_ra := 2 |}
  /\ scan DMapSlice [(9, 9)] [(1, 10)] = {| s_dest := [(9, 9); (1, 10)]; s_ra := 1 |}.
Proof. repeat split. Qed.

(* ---- ONE record / ONE map from ONE driver row (C15_Fill: scanIntoStruct, scanIntoMap, Pluck's
   single-column path; the functions the checker runs on the driver rows of every case).
   A driver row is any list of (column name, value): any column order, duplicate names, names no
   field has, NULLs. ---- *)

(* MAIN: a record and a map filled from the same driver row agree on every column that names a field:
   both hold the value of the LAST column of that name (a plain field shows NULL as its zero value),
   whatever the record and the map held before *)
Theorem c15_fill_struct_and_map_agree : forall fs c b dr pre pre' v,
  field_kind fs c = Some b -> last_val c dr = Some v ->
  get_key c (fill_struct fs pre dr) = Some (norm b v) /\ get_key c (fill_map pre' dr) = Some v.
Proof. exact fill_agree. Qed.
Print Assumptions c15_fill_struct_and_map_agree.

(* what a map holds under a key afterwards: the last column of that name, else what it held *)
Theorem c15_fill_map_entry : forall c dr pre,
  get_key c (fill_map pre dr) = match last_val c dr with Some v => Some v | None => get_key c pre end.
Proof. intros; apply fill_map_get_gen. Qed.
Print Assumptions c15_fill_map_entry.

(* a field that no column of the row names keeps what it held (zero in a fresh element); a column
   that names no field changes no field *)
Theorem c15_fill_struct_untouched : forall fs c dr pre,
  (last_val c dr = None \/ field_kind fs c = None) -> get_key c (fill_struct fs pre dr) = get_key c pre.
Proof. intros fs c dr pre [H|H]; [apply fill_struct_other | apply fill_struct_not_a_field]; exact H. Qed.
Print Assumptions c15_fill_struct_untouched.

(* Pluck of one column delivers what the map of the same row holds under that column *)
Theorem c15_pluck_is_the_map_entry : forall c r,
  get_key c (fill_map [] (drow_of [(c, c)] r)) = Some (pluck_val (drow_of [(c, c)] r)).
Proof. exact pluck_agrees. Qed.
Print Assumptions c15_pluck_is_the_map_entry.

(* one record and one map per row of the statement *)
Theorem c15_fill_one_per_row : forall s rs,
  length (struct_recs s rs) = length rs /\ length (map_recs s rs) = length rs.
Proof. exact recs_length. Qed.
Print Assumptions c15_fill_one_per_row.

(* non-vacuity: a duplicate column name, a NULL, a name no field has *)
Example c15_fill_example :
  let dr := [("id", Some 6); ("v", Some 40); ("n", None); ("zz", Some 1); ("v", Some 6)]%string in
  fill_struct item_fields (zero_rec item_fields) dr
    = [("id", Some 6); ("v", Some 6); ("n", None); ("key_copy", Some 0); ("order", Some 0)]%string
  /\ fill_map [] dr = [("id", Some 6); ("v", Some 6); ("n", None); ("zz", Some 1)]%string.
Proof. split; reflexivity. Qed.

(* ---- Count on a chain that carries a Select (C15_Count.count_sel, evaluated on every case without
   limit / offset).  Count equals the number of rows Find returns whenever it does not count ONE
   selected column that is NULL in a matching row ... ---- *)
Theorem c15_count_under_select_partial : forall selects ms,
  (forall c r, counts_column selects = Some c -> In r ms -> col_value c r <> None) ->
  count_sel selects ms = Z.of_nat (length ms).
Proof. exact count_sel_agrees. Qed.
Print Assumptions c15_count_under_select_partial.
(* ... in particular for several selected columns, a column list in one string, no Select *)
Theorem c15_count_under_select_star : forall selects ms,
  counts_column selects = None -> count_sel selects ms = Z.of_nat (length ms).
Proof. exact count_sel_star. Qed.
Print Assumptions c15_count_under_select_star.
(* the full statement is false for the faithful model: Select("n").Count counts COUNT(n)
   (known finding count-of-single-nullable-selected-column) *)
Theorem c15_count_under_select_refuted : exists selects ms, count_sel selects ms <> Z.of_nat (length ms).
Proof. exact count_sel_refuted. Qed.
Print Assumptions c15_count_under_select_refuted.
