(* C15_Fill.v — how ONE record or map is filled from ONE driver row (scan.go scanIntoStruct,
   scanIntoMap / prepareValues as far as they decide which value lands where, and Pluck's
   single-column path).  A driver row is the list of (column name as the driver reports it, value);
   a record or map is an association list from column names to values.  No proofs here
   (C15_FillProofs.v). *)
From Verif Require Import Base C15_Model.
Open Scope Z_scope.

Definition val := option Z.                     (* None = SQL NULL / Go nil *)
Definition drow := list (string * val).         (* one row as the driver delivers it, in column order *)
Definition assoc := list (string * val).        (* a struct's fields by column name / a map *)

Fixpoint get_key (k : string) (a : assoc) : option val :=
  match a with
  | [] => None
  | (k', v) :: r => if String.eqb k k' then Some v else get_key k r
  end.
(* assignment: an existing entry is overwritten in place, a new one is added *)
Fixpoint set_key (k : string) (v : val) (a : assoc) : assoc :=
  match a with
  | [] => [(k, v)]
  | (k', v') :: r => if String.eqb k k' then (k, v) :: r else (k', v') :: set_key k v r
  end.

(* the fields of the destination struct: column name, and whether the field is a pointer (keeps NULL
   as nil) or a plain value (NULL becomes the zero value: field.Set with a nil value) *)
Definition fields := list (string * bool).
Fixpoint field_kind (fs : fields) (c : string) : option bool :=
  match fs with
  | [] => None
  | (c', b) :: r => if String.eqb c c' then Some b else field_kind r c
  end.
Definition norm (nullable : bool) (v : val) : val :=
  if nullable then v else Some (match v with Some z => z | None => 0 end).

(* scanIntoStruct: after rows.Scan, column by column in the driver's order: a column that names a
   field (Schema.LookUpField) sets it, any other column is discarded *)
Definition set_field (fs : fields) (rec : assoc) (cv : string * val) : assoc :=
  match field_kind fs (fst cv) with
  | Some b => set_key (fst cv) (norm b (snd cv)) rec
  | None => rec
  end.
Definition fill_struct (fs : fields) (pre : assoc) (dr : drow) : assoc :=
  fold_left (set_field fs) dr pre.
(* a fresh element of a slice / a zeroed array slot *)
Definition zero_rec (fs : fields) : assoc := map (fun f : string * bool => (fst f, if snd f then @None Z else Some 0)) fs.

(* scanIntoMap: mapValue[column] = value for every column in the driver's order (NULL -> nil) *)
Definition fill_map (pre : assoc) (dr : drow) : assoc :=
  fold_left (fun m cv => set_key (fst cv) (snd cv) m) dr pre.

(* Pluck: one column selected, rows.Scan into the element: the value of column 0 *)
Definition pluck_val (dr : drow) : val := match dr with [] => None | cv :: _ => snd cv end.

(* the value the LAST column named [c] carries in a driver row *)
Definition last_val (c : string) (dr : drow) : option val :=
  fold_left (fun acc cv => if String.eqb c (fst cv) then Some (snd cv) else acc) dr None.

(* ---- the fixture of harness/cmd/c15: table items(id, v, n, key_copy, "order") with
   n = NULL when 3 | id, else id;  key_copy = id;  order = v ---- *)
Definition item_fields : fields :=
  [("id", false); ("v", false); ("n", true); ("key_copy", false); ("order", false)]%string.
Definition col_value (c : string) (r : row) : val :=
  if String.eqb c "id" then Some (fst r)
  else if String.eqb c "v" then Some (snd r)
  else if String.eqb c "n" then (if fst r mod 3 =? 0 then None else Some (fst r))
  else if String.eqb c "key_copy" then Some (fst r)
  else if String.eqb c "order" then Some (snd r)
  else None.
(* a select list: (name the driver reports, source column); [] = no Select: every column *)
Definition sel := list (string * string).
Definition all_cols : sel := map (fun f => (fst f, fst f)) item_fields.
Definition eff_sel (s : sel) : sel := match s with [] => all_cols | _ => s end.
(* the statement's SELECT list applied to one table row: the driver row *)
Definition drow_of (s : sel) (r : row) : drow := map (fun p => (fst p, col_value (snd p) r)) (eff_sel s).

(* the records / maps / plucked values of a statement returning the table rows [rs] under [s] *)
Definition struct_recs (s : sel) (rs : list row) : list assoc :=
  map (fun r => fill_struct item_fields (zero_rec item_fields) (drow_of s r)) rs.
Definition map_recs (s : sel) (rs : list row) : list assoc := map (fun r => fill_map [] (drow_of s r)) rs.
Definition plucked (c : string) (rs : list row) : list val := map (fun r => pluck_val (drow_of [(c, c)] r)) rs.
