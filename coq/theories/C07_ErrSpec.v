(* C07_ErrSpec.v — executable classification of the model types of a configuration by what a
   lone Parse returns: [malformedb] (a relation of its own is malformed: always an error),
   [taintedb] (a malformed relation is reachable through relations: an error is possible).
   Definitions only; evaluated by C07_Check on the observed returns, linked to the Prop versions
   of C07_Errs in C07_Errs2. *)
From Verif Require Import Base C07_Model.

Definition malformedb (cfg : config) (t : ty) : bool := existsb (fun r => negb (r_ok r)) (rels cfg t).

Fixpoint reach_from (cfg : config) (fuel : nat) (todo seen : list ty) : list ty :=
  match fuel with
  | O => seen ++ todo
  | S k =>
      match todo with
      | [] => seen
      | t :: r =>
          if existsb (Nat.eqb t) seen then reach_from cfg k r seen
          else reach_from cfg k (map r_to (rels cfg t) ++ r) (t :: seen)
      end
  end.

Definition reach_fuel (cfg : config) : nat :=
  2 + fold_right (fun l n => S (length l) + n) 0 cfg.

Definition taintedb (cfg : config) (t : ty) : bool :=
  existsb (malformedb cfg) (reach_from cfg (reach_fuel cfg) [t] []).
