(* C03_Proofs5.v — the composed statement for a WHOLE Create call on the RETURNING path: every record
   of every statement of the call (one struct, a slice, CreateInBatches chunks of any size) is read
   back, column by column, as the value the in-memory record holds after the call. *)
From Verif Require Import Base C03_Model C03_Proofs C03_Proofs2 C03_Proofs3.
Open Scope Z_scope.

Definition wf_rec (fs : list fdesc) (r : list goval) : Prop :=
  length r = length fs
  /\ forall j d, (j < length fs)%nat -> wf_val (fd_kind (nth j fs d)) (nth j r GAbsent).

(* record [a] in memory and stored row [row] agree on every column *)
Definition reads_back (fs : list fdesc) (a : list goval) (row : list dbval) : Prop :=
  forall j d, (j < length fs)%nat ->
    nth j (read_rec fs row) GAbsent = norm (fd_kind (nth j fs d)) (nth j a GAbsent).

(* one INSERT statement *)
Lemma stmt_roundtrip : forall fs now reversed prio ph is_struct base recs after rows b',
  Forall wf_fdesc fs -> existsb is_dbdef fs = true -> Forall (wf_rec fs) recs ->
  create_stmt fs now true reversed prio ph is_struct base recs = Some (after, rows, b') ->
  length after = length recs /\ length rows = length recs /\
  forall i, (i < length recs)%nat -> reads_back fs (nth i after []) (nth i rows []).
Proof.
  intros fs now reversed prio ph is_struct base recs after rows b' Hfs Hex Hrecs Hc.
  unfold create_stmt in Hc.
  set (keys := map (rec_key fs) recs) in *. set (ids := assign base keys) in *.
  set (incl := if is_struct then map (fun _ => false) fs else incl_of fs recs) in *.
  destruct (opt_all (map2 (fun id r => row_of fs now incl id r) ids recs)) as [rows0|] eqn:Er; [|discriminate].
  rewrite Hex in Hc. cbn [andb] in Hc. inversion Hc; subst after rows b'. clear Hc.
  destruct (opt_all_spec _ _ Er) as [Hlen Hnth].
  rewrite length_map2 in Hlen. unfold ids in Hlen at 1. rewrite length_assign in Hlen.
  unfold keys in Hlen at 1. rewrite map_length, Nat.min_id in Hlen.
  assert (Hincl : length incl = length fs).
  { unfold incl. destruct is_struct; [apply map_length|]. unfold incl_of. rewrite map_length, combine_length, seq_length. lia. }
  split; [rewrite length_map2, combine_length, map_length, Hlen; lia|]. split; [exact Hlen|].
  intros i Hi j d Hj.
  rewrite Forall_forall in Hrecs.
  destruct (Hrecs (nth i recs []) (nth_In _ _ Hi)) as [Hrl Hwv].
  assert (Hrow : row_of fs now incl (nth i ids 0) (nth i recs []) = Some (nth i rows0 [])).
  { specialize (Hnth i [] ltac:(rewrite length_map2; unfold ids; rewrite length_assign; unfold keys; rewrite map_length; lia)).
    rewrite (nth_map2 _ _ _ _ 0 [] None) in Hnth; [exact Hnth | unfold ids; rewrite length_assign; unfold keys; rewrite map_length; lia | lia]. }
  rewrite (nth_map2 _ _ _ _ [] ([], None) []) by (try rewrite combine_length, map_length; lia).
  rewrite combine_nth by (rewrite map_length; lia). cbn [fst snd].
  eapply record_roundtrip_returning; eassumption.
Qed.

Lemma nth_app_both {A B} : forall (a a' : list A) (b b' : list B) (P : A -> B -> Prop) da db,
  length a = length b ->
  (forall i, (i < length a)%nat -> P (nth i a da) (nth i b db)) ->
  (forall i, (i < length a')%nat -> P (nth i a' da) (nth i b' db)) ->
  forall i, (i < length (a ++ a'))%nat -> P (nth i (a ++ a') da) (nth i (b ++ b') db).
Proof.
  intros a a' b b' P da db Hl H1 H2 i Hi. rewrite app_length in Hi.
  destruct (Nat.lt_ge_cases i (length a)) as [Hlt|Hge].
  - rewrite !app_nth1 by lia. apply H1. exact Hlt.
  - rewrite !app_nth2 by lia. rewrite <- Hl. apply H2. lia.
Qed.

(* every statement of the call, whatever the clock reading and the AUTOINCREMENT counter it starts from *)
Theorem seq_roundtrip : forall fs reversed prio ph is_struct stmts now base after rows,
  Forall wf_fdesc fs -> existsb is_dbdef fs = true -> Forall (Forall (wf_rec fs)) stmts ->
  create_seq fs now true reversed prio ph is_struct base stmts = Some (after, rows) ->
  length after = length (List.concat stmts) /\ length rows = length after /\
  forall i, (i < length after)%nat -> reads_back fs (nth i after []) (nth i rows []).
Proof.
  intros fs reversed prio ph is_struct stmts.
  induction stmts as [|s rest IH]; intros now base after rows Hfs Hex Hst Hc; cbn [create_seq] in Hc.
  - inversion Hc; subst. cbn. repeat split; try reflexivity. intros i Hi. cbn in Hi. lia.
  - destruct (create_stmt fs now true reversed prio ph is_struct base s) as [[[a r1] b1]|] eqn:E1; [|discriminate].
    destruct (create_seq fs (now + clock_step) true reversed prio ph is_struct b1 rest) as [[a' r']|] eqn:E2; [|discriminate].
    injection Hc as <- <-.
    inversion Hst as [|x l Hs Hrest]; subst.
    destruct (stmt_roundtrip _ _ _ _ _ _ _ _ _ _ _ Hfs Hex Hs E1) as [La [Lr Hrb]].
    destruct (IH _ _ _ _ Hfs Hex Hrest E2) as [La' [Lr' Hrb']].
    cbn [List.concat]. split; [rewrite !app_length; lia|]. split; [rewrite !app_length; lia|].
    apply (nth_app_both a a' r1 r' (reads_back fs)); [lia| |exact Hrb'].
    intros i Hi. apply Hrb. lia.
Qed.

Lemma chunks_forall {A} (P : A -> Prop) : forall fuel n l, Forall P l -> Forall (Forall P) (chunks fuel n l).
Proof.
  induction fuel as [|fuel IH]; intros n l H; cbn; [constructor|].
  destruct l as [|x l]; [constructor|]. constructor.
  - rewrite Forall_forall in *. intros y Hy. apply H.
    rewrite <- (firstn_skipn n (x :: l)). apply in_or_app. left. exact Hy.
  - apply IH. rewrite Forall_forall in *. intros y Hy. apply H.
    rewrite <- (firstn_skipn n (x :: l)). apply in_or_app. right. exact Hy.
Qed.

(* the whole call: Create(&T{}) per record, Create(&[]T) / Create(&[]*T), CreateInBatches(bs) *)
Theorem create_roundtrip : forall fs now reversed prio ph o base recs after rows m,
  Forall wf_fdesc fs -> existsb is_dbdef fs = true -> Forall (wf_rec fs) recs ->
  match o with OpStruct | OpSlice | OpPtrSlice | OpBatches _ => True | _ => False end ->
  create fs now true reversed prio ph o base recs = Some (after, rows, m) ->
  length rows = length after /\
  forall i, (i < length after)%nat -> reads_back fs (nth i after []) (nth i rows []).
Proof.
  intros fs now reversed prio ph o base recs after rows m Hfs Hex Hrecs Ho Hc.
  unfold create in Hc.
  assert (G : forall is_struct stmts, Forall (Forall (wf_rec fs)) stmts ->
            match create_seq fs now true reversed prio ph is_struct base stmts with
            | Some (a, rows0) => Some (a, rows0, 0) | None => None end = Some (after, rows, m) ->
            length rows = length after /\
            forall i, (i < length after)%nat -> reads_back fs (nth i after []) (nth i rows [])).
  { intros is_struct stmts Hst H.
    destruct (create_seq fs now true reversed prio ph is_struct base stmts) as [[a r0]|] eqn:E; [|discriminate].
    inversion H; subst. destruct (seq_roundtrip _ _ _ _ _ _ _ _ _ _ Hfs Hex Hst E) as [_ [L R]]. split; assumption. }
  destruct o; try contradiction; cbn [negb andb] in Hc.
  - eapply G; [|exact Hc]. clear - Hrecs. induction Hrecs; cbn; constructor; [constructor; [assumption|constructor]|assumption].
  - destruct recs as [|r0 recs']; [discriminate|]. eapply G; [|exact Hc]. constructor; [exact Hrecs|constructor].
  - destruct recs as [|r0 recs']; [discriminate|]. eapply G; [|exact Hc]. constructor; [exact Hrecs|constructor].
  - eapply G; [|exact Hc]. apply chunks_forall. exact Hrecs.
Qed.
